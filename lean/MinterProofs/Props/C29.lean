import MinterProofs.Persist.Agree
/-
  C29 — A state-synced node behaves like one that replayed every block (application-DB layer).

  Model (`MinterModel/Persist.lean`): `snapshot` = `AppDB.Snapshot` (the present records in the fixed order, then the tree
  exported at the height), `restore` = `AppDB.Restore` into an empty node.
  * `snapshot_fun_of_disk` — the snapshot at `h` is a function of (logical app records, tree root at `h`).
  * `snapshot_same_on_every_node` — two nodes that executed the same blocks from the same state, whatever restarts either of
    them went through, produce the same snapshot (uses the C09 bisimulation).
  * `restore_info` — the restored node starts, and `Info` reports the producer's height and app hash.
  * `restore_bisim` — from then on every query after every later block is answered like the producer answers it, although
    the restored tree has only the snapshot's version (`TreeAgree`).
  Outside the model (exercised by `harness snapshot`, not proved): the IAVL export/import of the tree contents, the
  cosmos-sdk chunking/zlib/protobuf plumbing, the state modules' caches after `initState`, the events DB (not part of a snapshot).
-/
namespace Minter
namespace Persist

/-- the snapshot's records computed from the logical content. -/
def snapRecsL (l : Logical) : List Rec :=
  (match l.validators with | some v => [Rec.validators v] | none => [])
  ++ (match l.height with | some v => [Rec.height v] | none => [])
  ++ (match l.hash with | some v => [Rec.hash v] | none => [])
  ++ (match l.versions with | some v => [Rec.versions v] | none => [])
  ++ (match l.times with | some v => [Rec.blockTimes v] | none => [])
  ++ (match l.startHeight with | some v => [Rec.startHeight v] | none => [])
  ++ (match l.emission with | some v => [Rec.emission v] | none => [])
  ++ (match l.price with | some v => [Rec.price v] | none => [])

theorem snapRecs_logical (d : Disk) : snapRecs d.app = snapRecsL (logicalOfDisk d) := by
  unfold snapRecs snapRecsL logicalOfDisk logical
  simp only [List.isEmpty_nil, ↓reduceIte]
  congr 2
  unfold readEmission
  cases d.app.emission with
  | none => rfl
  | some e => cases e <;> rfl

/-- **snapshot_fun_of_disk.**  On a node with nothing pending the snapshot at `h` is determined by the logical app records
    and the tree root of version `h`. -/
theorem snapshot_fun_of_disk (n : Node) (hc : Coherent n) (hf : Flushed n) (h : Nat) :
    snapshot n h =
      if h ≠ (logical n).height.getD 0 ∨ h = 0 then none
      else (treeLookup h n.disk.tree).map (fun root => { recs := snapRecsL (logical n), height := h, root := root }) := by
  have hh : (getLastHeight n).1 = (logical n).height.getD 0 := by
    have := congrArg Obs.infoHeight (observe_eq n hc)
    simpa [observe, obsL] using this
  unfold snapshot
  rw [hh, snapRecs_logical, hf]
  split
  · rfl
  · cases treeLookup h n.disk.tree <;> rfl

/-- two flushed nodes with the same logical content and the same tree root at `h` produce the same snapshot. -/
theorem snapshot_congr (a b : Node) (ha : Coherent a) (hb : Coherent b) (fa : Flushed a) (fb : Flushed b)
    (hl : logical a = logical b) (h : Nat) (ht : treeLookup h a.disk.tree = treeLookup h b.disk.tree) :
    snapshot a h = snapshot b h := by
  rw [snapshot_fun_of_disk a ha fa, snapshot_fun_of_disk b hb fb, hl, ht]

/-- **snapshot_same_on_every_node.**  Run the same blocks `h0, h0+1, …` on one node with arbitrary restarts between blocks and on
    a node that never restarts: both halt together, or both end at a height whose snapshot has the same contents. -/
theorem snapshot_same_on_every_node (cfg : Cfg) (n : Node) (hc : Coherent n) (hf : Flushed n) (h0 : Nat)
    (steps : List (Block × Nat)) (hok : StepsOK steps) (h : Nat) (hh : h0 ≤ h) :
    match runNodes cfg n h0 steps, runNodes cfg n h0 (steps.map (fun s => (s.1, 0))) with
    | some a, some b => snapshot a h = snapshot b h
    | none, none => True
    | _, _ => False := by
  rcases runNodes_congr_agree cfg h0 steps n n h0 (Nat.le_refl _) hc hc hf hf rfl (fun _ _ => rfl) hok with
    ⟨e1, e2⟩ | ⟨a, b, e1, e2, ca, cb, fa, fb, hl, ht⟩
  · rw [e1, e2]; trivial
  · rw [e1, e2]
    exact snapshot_congr a b ca cb fa fb hl h (ht h hh)

theorem setRecs_append (a : AppDisk) (l1 l2 : List Rec) : setRecs a (l1 ++ l2) = setRecs (setRecs a l1) l2 := by
  induction l1 generalizing a with
  | nil => rfl
  | cons r l ih => simp only [List.cons_append, setRecs]; exact ih _

/-- restoring the records gives back the logical content. -/
theorem restore_logical (a : AppDisk) (h : Nat) (root : Hash) :
    logicalOfDisk (restore { recs := snapRecs a, height := h, root := root }) = logicalOfDisk { app := a, tree := [], events := [] } := by
  unfold restore logicalOfDisk logical snapRecs
  simp only [List.isEmpty_nil, ↓reduceIte, setRecs_append]
  obtain ⟨x1, x2, x3, x4, x5, x6, x7, x8⟩ := a
  cases x1 <;> cases x2 <;> cases x3 <;> cases x4 <;> cases x5 <;> cases x6 <;> cases x8 <;>
    (cases x7 with
     | none => simp [setRecs, setRec, readEmission]
     | some e => cases e <;> simp [setRecs, setRec, readEmission])

/-- what a producer must satisfy when it takes the snapshot at `h`: just committed `h` (nothing pending), `h > 0`, and `h` is the
    newest version of its tree. -/
structure Producer (n : Node) (h : Nat) (root : Hash) : Prop where
  coh : Coherent n
  flushed : Flushed n
  height : n.disk.app.height = some h
  hpos : 0 < h
  root : treeLookup h n.disk.tree = some root
  top : ∀ v, h < v → treeLookup v n.disk.tree = none

theorem producer_snapshot (n : Node) (h : Nat) (root : Hash) (hp : Producer n h root) :
    snapshot n h = some { recs := snapRecs n.disk.app, height := h, root := root } := by
  have hh : (getLastHeight n).1 = h := by
    have := congrArg Obs.infoHeight (observe_eq n hp.coh)
    simp only [observe, obsL, logical, hp.height] at this
    simpa using this
  unfold snapshot
  have hpos := hp.hpos
  have : ¬ (h ≠ (getLastHeight n).1 ∨ h = 0) := by rw [hh]; omega
  simp only [this, ↓reduceIte, hp.root]

/-- **restore_info.**  A fresh node restored from the snapshot starts, holds the producer's logical content, and `Info`
    reports the producer's height and app hash. -/
theorem restore_info (n : Node) (h : Nat) (root : Hash) (hp : Producer n h root) (s : Snapshot) (hs : snapshot n h = some s) :
    ∃ r, restart (restore s) = some r ∧ info r = info n ∧ logical r = logical n ∧ Coherent r ∧
      TreeAgree h r.disk.tree n.disk.tree := by
  rw [producer_snapshot n h root hp] at hs
  cases hs
  have hlog : logicalOfDisk (restore { recs := snapRecs n.disk.app, height := h, root := root }) = logical n := by
    rw [restore_logical, ← hp.flushed]
    exact logicalOfDisk_app _ _ rfl
  have hheight : (restore { recs := snapRecs n.disk.app, height := h, root := root }).app.height = some h := by
    have := congrArg Logical.height hlog
    simp only [logicalOfDisk, logical] at this
    rw [this, hp.height]
  have htree : (restore { recs := snapRecs n.disk.app, height := h, root := root }).tree = [(h, root)] := rfl
  obtain ⟨r, hr⟩ := restart_some _ h hheight (by rw [htree]; simp [treeLookup])
  obtain ⟨lr, cr, dr⟩ := restart_ok _ r hr
  refine ⟨r, hr, ?_, by rw [lr, hlog], cr, ?_⟩
  · have e := observe_eq r cr
    have e' := observe_eq n hp.coh
    rw [lr, hlog] at e
    unfold info
    have a1 : (getLastHeight r).1 = (observe r).infoHeight := rfl
    have a2 : getLastBlockHash r = (observe r).infoHash := rfl
    have b1 : (getLastHeight n).1 = (observe n).infoHeight := rfl
    have b2 : getLastBlockHash n = (observe n).infoHash := rfl
    rw [a1, a2, b1, b2, e, e']
  · intro v hv
    rw [dr, htree]
    simp only [treeLookup]
    by_cases hvh : h = v
    · subst hvh; simp [hp.root]
    · simp only [hvh, ↓reduceIte]
      rw [hp.top v (by omega)]

/-- **restore_bisim.**  After the restore both nodes answer every query alike, and so after every later block, with any
    restarts of the restored node in between (and they halt together). -/
theorem restore_bisim (cfg : Cfg) (n : Node) (h : Nat) (root : Hash) (hp : Producer n h root) (s : Snapshot)
    (hs : snapshot n h = some s) (steps : List (Block × Nat)) (hok : StepsOK steps) :
    ∃ r, restart (restore s) = some r ∧ observe r = observe n ∧
      runSteps cfg r (h + 1) steps = runSteps cfg n (h + 1) (steps.map (fun s => (s.1, 0))) := by
  obtain ⟨r, hr, _, lr, cr, tr⟩ := restore_info n h root hp s hs
  refine ⟨r, hr, by rw [observe_eq r cr, observe_eq n hp.coh, lr], ?_⟩
  exact runSteps_congr_agree cfg h steps r n (h + 1) (by omega) cr hp.coh lr tr hok

/-! ### non-vacuity -/

/-- the node of the C09 example after block 10 is a producer at height 10 … -/
def pNode : Option Node := runBlock ⟨1⟩ exNode 10 (exBlock 110 10)

example : (pNode.bind (fun n => snapshot n 10)).map (fun s => (s.recs.map Rec.key, s.height, s.root)) =
    some (["validators", "height", "hash", "versions", "blockDelta", "startHeight", "emission", "price"], 10, 10) := by decide

/-- … the node restored from its snapshot reports the same `Info`, and the same getters after two more blocks. -/
example : (pNode.bind (fun n => (snapshot n 10).bind (fun s => (restart (restore s)).map (fun r => (info r, info n))))) =
    some ((10, some 10), (10, some 10)) := by decide

def proj (t : Option (List Obs)) := t.map (fun l => l.map (fun o => (o.infoHeight, o.emission, o.versions.length)))

example : proj (pNode.bind (fun n => (snapshot n 10).bind (fun s => (restart (restore s)).bind (fun r =>
      runSteps ⟨1⟩ r 11 [(exBlock 117 11, 1), (exBlock 121 12, 0)])))) = some [(11, some 1148, 3), (12, some 1222, 4)] := by
  decide

example : proj (pNode.bind (fun n => runSteps ⟨1⟩ n 11 [(exBlock 117 11, 0), (exBlock 121 12, 0)])) =
    some [(11, some 1148, 3), (12, some 1222, 4)] := by decide

end Persist
end Minter
