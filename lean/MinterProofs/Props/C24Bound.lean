import MinterProofs.Props.C24
/-
  C24 — the bound of `C24_load_commit_partial` is sharp: concrete witnesses at the uint16 id width.
  (Both were replayed on the real store: harness mode `events`, thorough tier, sequences `width-65535-restart` and `width-65536-nokey`.)
-/
namespace Minter
namespace Ev

/-- `n` jail events for the validator keys 1 … n -/
def manyJails (n : Nat) : List Event := (List.range' 1 n).map (fun k => Event.jail k 0)

theorem seenKeysB_jails (l ks : List Nat) :
    seenKeysB ks (l.map (fun k => Event.jail k 0)) = l.foldl addKey ks := by
  induction l generalizing ks with
  | nil => rfl
  | cons a l ih => simp only [List.map_cons, seenKeysB_cons, Event.keys, List.foldl_cons, List.foldl_nil, ih]

theorem seenAddrsB_jails (l as : List Nat) :
    seenAddrsB as (l.map (fun k => Event.jail k 0)) = as := by
  induction l generalizing as with
  | nil => rfl
  | cons a l ih => simp only [List.map_cons, seenAddrsB_cons, Event.addrs, List.foldl_nil, ih]

theorem foldl_addKey_fresh (l ks : List Nat) (hn : l.Nodup) (hd : ∀ x ∈ l, x ∉ ks) : l.foldl addKey ks = ks ++ l := by
  induction l generalizing ks with
  | nil => simp
  | cons a l ih =>
    have ha : a ∉ ks := hd a (by simp)
    have hn' := List.nodup_cons.mp hn
    simp only [List.foldl_cons, addKey, ha, if_false]
    rw [ih (ks ++ [a]) hn'.2]
    · simp
    · intro x hx hm
      simp only [List.mem_append, List.mem_singleton] at hm
      rcases hm with hm | hm
      · exact hd x (by simp [hx]) hm
      · subst hm; exact hn'.1 hx

theorem seenKeys_manyJails (n : Nat) : seenKeysB [] (manyJails n) = List.range' 1 n := by
  unfold manyJails
  rw [seenKeysB_jails, foldl_addKey_fresh _ _ (List.nodup_range' 1) (by simp)]
  simp

theorem manyJails_wf (n : Nat) : ∀ e ∈ manyJails n, e.WF := by
  intro e he
  simp only [manyJails, List.mem_map] at he
  obtain ⟨k, _, rfl⟩ := he
  simp [Event.WF]

theorem manyJails_succ (m : Nat) :
    manyJails (m + 1) = Event.jail 1 0 :: (List.range' 2 m).map (fun k => Event.jail k 0) := by
  simp [manyJails, List.range'_succ]

theorem compactAll_jail_shape {st st' : EvStore} {k ju : Nat} {es : List Event} {rs : List Rec}
    (h : compactAll st (Event.jail k ju :: es) = some (st', rs)) : ∃ pid rs', rs = Rec.jail pid ju :: rs' := by
  rcases hsp : savePubKey st (some k) with ⟨st1, pid⟩
  simp only [compactAll, compactEv, hsp] at h
  cases hc : compactAll st1 es with
  | none => simp [hc] at h
  | some res =>
    obtain ⟨st2, rs2⟩ := res
    simp only [hc, Option.some.injEq, Prod.mk.injEq] at h
    exact ⟨pid, rs2, h.2.symm⟩

theorem Good_empty : Good EvStore.empty [] [] := by
  refine ⟨by simp, by simp, PW_empty, AW_empty, ⟨rfl, ?_⟩, ⟨rfl, ?_⟩⟩
  · intro id k h; simp [kget] at h
  · intro id k h; simp at h

/-- the state after committing `n ≥ 1` fresh keys at height 1 on a fresh DB (`n ≤ 65 535`: in-process everything is still fine) -/
theorem jails_state (n : Nat) (hn1 : 1 ≤ n) (hm : n ≤ 65535) :
    ∃ st pid rs', commit EvStore.empty 1 (manyJails n) = some st ∧
      Good st (List.range' 1 n) [] ∧
      st.disk.blocks.get? 1 = some (Rec.jail pid 0 :: rs') ∧
      (∀ h, h ≠ 1 → st.disk.blocks.get? h = none) ∧
      load st 1 = .ok (manyJails n) := by
  obtain ⟨m, rfl⟩ : ∃ m, n = m + 1 := ⟨n - 1, by omega⟩
  obtain ⟨g0, hd0⟩ := loadCache_warm Good_empty
  have hr0 : ∀ h rs, EvStore.empty.disk.blocks.get? h = some rs → ∀ r ∈ rs, RecValid [] [] r := by
    intro h rs hh; simp [EvStore.empty] at hh
  have hkeys := seenKeys_manyJails (m + 1)
  have haddrs := seenAddrsB_jails (List.range' 1 (m + 1)) []
  obtain ⟨p, s⟩ := commit_good g0 hd0 hr0 1 (manyJails (m + 1))
    (by rw [hkeys]; simpa using hm) (by unfold manyJails; rw [haddrs]; simp)
  have hsome := p (fun e he => (manyJails_wf _ e he).roleOK)
  cases hc : commit EvStore.empty 1 (manyJails (m + 1)) with
  | none => rw [hc] at hsome; cases hsome
  | some st =>
    obtain ⟨g, r, f, x⟩ := s st hc
    rw [hkeys] at g r x
    have ha' : seenAddrsB [] (manyJails (m + 1)) = [] := haddrs
    rw [ha'] at g r x
    -- shape of the stored records
    have hshape : ∃ pid rs', st.disk.blocks.get? 1 = some (Rec.jail pid 0 :: rs') := by
      unfold commit at hc
      cases hca : compactAll (loadCache EvStore.empty) (manyJails (m + 1)) with
      | none => simp [hca] at hc
      | some res =>
        obtain ⟨st1, rs⟩ := res
        simp only [hca, Option.some.injEq] at hc
        rw [manyJails_succ m] at hca
        obtain ⟨pid, rs', e⟩ := compactAll_jail_shape hca
        subst hc
        exact ⟨pid, rs', by simp [Tbl.get?_set, e]⟩
    obtain ⟨pid, rs', hb⟩ := hshape
    refine ⟨st, pid, rs', rfl, g, hb, ?_, ?_⟩
    · intro h hne
      rw [f h hne]; simp [EvStore.empty]
    · obtain ⟨g', hd'⟩ := loadCache_warm g
      rw [load_good g' hd' 1]
      exact x (manyJails_wf _)

theorem reach_single {h : Nat} {b : List Event} {st : EvStore} (hc : commit EvStore.empty h b = some st) :
    Reach [.commit h b] st := by
  simp only [Reach, run, step, hc]

/-- a restarted store whose persisted key count is 65 535 reloads no key, so a stored jail record no longer expands to its key -/
theorem restart_forgets_keys {st : EvStore} {ks : List Nat} (g : Good st ks []) (hcount : st.disk.pkCount = some 65535)
    {pid : Nat} {rs' : List Rec} (hb : st.disk.blocks.get? 1 = some (Rec.jail pid 0 :: rs')) (b' : List Event) :
    load (restart st) 1 ≠ .ok (Event.jail 1 0 :: b') := by
  have hacount : st.disk.adCount = none := by
    rw [g.da.count]; simp
  have hlc : loadCache (restart st) = restart st := by
    have h0 : (restart st).cache.idPub.len = 0 := by simp [restart]
    unfold loadCache
    simp only [h0, if_true]
    have h1 : loadPubKeys (restart st) = restart st := by
      unfold loadPubKeys
      have : (restart st).disk.pkCount = some 65535 := hcount
      simp only [this]
      have hz : (65535 + 1) % pkMod - 1 = 0 := by decide
      simp only [hz, List.range'_zero, List.foldl_nil]
    rw [h1]
    unfold loadAddresses
    have : (restart st).disk.adCount = none := hacount
    simp only [this]
  unfold load
  simp only [hlc]
  have hb' : (restart st).disk.blocks.get? 1 = some (Rec.jail pid 0 :: rs') := hb
  simp only [hb']
  have hexp : expandAll (restart st).cache (Rec.jail pid 0 :: rs') = expandAllA [] [] (Rec.jail pid 0 :: rs') :=
    expandAll_eq (by simpa [restart] using PW_empty) (by simpa [restart] using AW_empty) _
  rw [hexp]
  simp only [expandAllA, expandA, kget]
  cases expandAllA [] [] rs' with
  | none => simp
  | some es => simp

theorem count_65535 {st : EvStore} {as : List Nat} (g : Good st (List.range' 1 65535) as) : st.disk.pkCount = some 65535 := by
  rw [g.dp.count]; simp

/-- **The bound is sharp (1).**  On a fresh DB commit, at height 1, jail events of 65 535 distinct validators (every event
    well-formed).  `LoadEvents(1)` returns them faithfully — until the store is restarted: a new store object on the same DB
    does not return them any more (it has reloaded no key at all, because `loadPubKeys` loops `for id := 1; id < count+1` in
    uint16 and 65535+1 = 0).  So `C24_restart_transparent` and `C24_load_stable` fail with 65 535 keys. -/
theorem C24_restart_breaks_at_65535 :
    ∃ st, Reach [.commit 1 (manyJails 65535)] st ∧
      (seenKeys [] [.commit 1 (manyJails 65535)]).length = 65535 ∧
      AllWF [.commit 1 (manyJails 65535)] ∧
      load st 1 = .ok (manyJails 65535) ∧
      load (restart st) 1 ≠ .ok (manyJails 65535) := by
  obtain ⟨st, pid, rs', hc, g, hb, _, hl⟩ := jails_state 65535 (by decide) (by decide)
  refine ⟨st, reach_single hc, ?_, ⟨manyJails_wf _, trivial⟩, hl, ?_⟩
  · simp only [seenKeys]; rw [seenKeys_manyJails]; simp
  · have := restart_forgets_keys g (count_65535 g) hb ((List.range' 2 65534).map (fun k => Event.jail k 0))
    rw [← manyJails_succ 65534] at this
    exact this


/-! ### the 65 536th key gets id 0 -/

theorem reach_two {h1 h2 : Nat} {b1 b2 : List Event} {s1 s2 : EvStore}
    (c1 : commit EvStore.empty h1 b1 = some s1) (c2 : commit s1 h2 b2 = some s2) :
    Reach [.commit h1 b1, .commit h2 b2] s2 := by
  simp only [Reach, run, step, c1, c2]

theorem saveAddress_idPub (st : EvStore) (a : Nat) : (saveAddress st a).1.cache.idPub = st.cache.idPub := by
  cases hq : st.cache.addrId.get? a with
  | some id => rw [saveAddress_found hq]
  | none => rw [saveAddress_new hq]; rfl

theorem loadCache_nonempty {st : EvStore} (h : st.cache.idPub.len ≠ 0) : loadCache st = st := by
  unfold loadCache; simp only [h, if_false]

/-- with 65 535 keys interned, the next new key is given id 0 -/
theorem commit_key_65536 {st : EvStore} {ks as : List Nat} (g : Good st ks as) (hlen : ks.length = 65535)
    {k : Nat} (hk : k ∉ ks) (h ju : Nat) :
    ∃ st2, commit st h [Event.jail k ju] = some st2 ∧ st2.cache.idPub.get? 0 = some k ∧ st2.cache.idPub.len ≠ 0 := by
  have hl : st.cache.idPub.len = 65535 := by rw [g.pw.len, hlen]
  have hq : st.cache.pubId.get? k = none := by
    cases hq : st.cache.pubId.get? k with
    | none => rfl
    | some id => exact absurd (kget_mem ((g.pw.rev k id).mp hq)) hk
  have hid : (st.cache.idPub.len % pkMod + 1) % pkMod = 0 := by rw [hl]; decide
  have h0 : st.cache.idPub.get? 0 = none := by rw [g.pw.get, kget_zero]
  unfold commit
  rw [loadCache_nonempty (by rw [hl]; decide)]
  simp only [compactAll, compactEv, savePubKey_new hq, hid]
  refine ⟨_, rfl, ?_, ?_⟩
  · simp [Cache.cachePubKey, Tbl.get?_set]
  · simp [Cache.cachePubKey, Tbl.len_set, h0, hl]

/-- once some key sits under id 0, an unbond event *without* validator key loads back *with* that key -/
theorem nokey_loads_key {st : EvStore} {k : Nat} (h0 : st.cache.idPub.get? 0 = some k) (hl : st.cache.idPub.len ≠ 0)
    (h a : Nat) (amount : Int) (coin : Nat) :
    ∃ st' a' amount' coin', commit st h [Event.unbond a amount coin none] = some st' ∧
      load st' h = .ok [Event.unbond a' amount' coin' (some k)] := by
  rcases hsa : saveAddress st a with ⟨st1, aid⟩
  have hidp : st1.cache.idPub = st.cache.idPub := by
    have := saveAddress_idPub st a; rw [hsa] at this; exact this
  unfold commit
  rw [loadCache_nonempty hl]
  simp only [compactAll, compactEv, hsa, savePubKey]
  refine ⟨_, (st1.cache.idAddr.get? aid).getD 0, Int.ofNat amount.natAbs, u32 coin, rfl, ?_⟩
  unfold load
  have hl1 : st1.cache.idPub.len ≠ 0 := by rw [hidp]; exact hl
  rw [loadCache_nonempty (by exact hl1)]
  simp only [Tbl.get?_set, if_true, expandAll, expand, hidp, h0]

/-- **The bound is sharp (2).**  After 65 535 distinct validator keys (height 1) the 65 536th distinct key (height 2) is interned
    under id 0 — the value that marks "this unbond has no validator key".  From then on an unbond event committed *without* a
    validator key (all events well-formed, no restart involved) loads back *with* the 65 536th validator's key:
    `load ∘ commit ≠ id`. -/
theorem C24_nokey_breaks_at_65536 :
    ∃ st, Reach [.commit 1 (manyJails 65535), .commit 2 [.jail 65536 0]] st ∧
      (seenKeys [] [.commit 1 (manyJails 65535), .commit 2 [.jail 65536 0]]).length = 65536 ∧
      AllWF [.commit 1 (manyJails 65535), .commit 2 [.jail 65536 0], .commit 3 [.unbond 7 5 0 none]] ∧
      ∃ st' a amount coin, commit st 3 [.unbond 7 5 0 none] = some st' ∧
        load st' 3 = .ok [.unbond a amount coin (some 65536)] ∧
        load st' 3 ≠ .ok [.unbond 7 5 0 none] := by
  obtain ⟨st1, pid, rs', hc, g, hb, _, hl⟩ := jails_state 65535 (by decide) (by decide)
  have hnot : 65536 ∉ List.range' 1 65535 := by
    rw [List.mem_range'_1]; omega
  obtain ⟨st2, c2, g0, gl⟩ := commit_key_65536 g (by simp) hnot 2 0
  obtain ⟨st3, a', amt', coin', c3, l3⟩ := nokey_loads_key g0 gl 3 7 5 0
  refine ⟨st2, reach_two hc c2, ?_, ⟨manyJails_wf _, ⟨by simp [Event.WF], ⟨by simp [Event.WF], trivial⟩⟩⟩, st3, a', amt', coin', c3, l3, ?_⟩
  · simp only [seenKeys]
    rw [seenKeys_manyJails]
    have : seenKeysB (List.range' 1 65535) [Event.jail 65536 0] = List.range' 1 65535 ++ [65536] := by
      simp only [seenKeysB, List.foldl_cons, List.foldl_nil, Event.keys, addKey, hnot, if_false]
    rw [this]; simp
  · rw [l3]; simp

end Ev
end Minter
