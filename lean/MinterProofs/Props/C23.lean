import MinterProofs.RlpTyped
import MinterProofs.RlpSamples
/-
  C23 — canonical encodings, signatures bind the signer.

  "Decoding and re-encoding any accepted transaction or check gives back the original bytes, non-canonical RLP is
   rejected, and the recovered sender is exactly the key that signed the transaction hash.  Signatures with high S or an
   invalid recovery id are rejected, so a valid transaction cannot be rewritten into a different valid encoding."

  Model: `MinterModel/Rlp.lean` (`decode` = `rlp.DecodeBytes` into `interface{}`, `decodeTx`/`acceptsTx` =
  `Executor.DecodeFromBytes`, `accepts checkSchema` = `check.DecodeFromBytes`, `validSig` = value checks of `RecoverPlain`).
  The tie to the Go code is the harness mode `rlp` (every definition below is executed by the driver on the same inputs
  as the real functions).

  What is proved here, for ALL byte strings / items / field values:
    * `encode_decode`      every accepted byte string is exactly the encoder's output for the decoded item
                           (⇒ non-canonical RLP is rejected; no item has two accepted encodings: `decode_inj`);
    * `decode_encode`      every encoder output is accepted and decodes to the item it came from
                           (size hypothesis: the encoding is shorter than 2^64 bytes – Go's uint64 length prefix);
    * `decode_no_trailing`, `decode_prefix_free`   trailing bytes are rejected;
    * `decode_fuel_irrelevant`  the fuel inside `decode` never causes a rejection;
    * `encodeTx_decodeTx`, `decodeTx_encodeTx`, `acceptsTx_reencode`, `accepts_reencode` (checks, data, signatures):
                           re-encoding an accepted transaction / check / data / signature gives back the original bytes;
    * `validSig_iff`, `highS_rejected`, `bad_v_rejected`, `zero_sig_rejected`   the signature value check;
    * `single_sig_encoding_unique`   the bytes of an accepted single-signature transaction are a function of the signed
                           content and the triple (v, r, s); together with `highS_rejected` the only known third-party
                           transformation of an ECDSA signature, (v, r, s) ↦ (v xor 1, r, N − s), yields a rejected transaction.
  What is NOT proved (trusted / oracle):
    * ECDSA itself: "`Ecrecover(hash, r, s, v)` returns the key that signed `hash`" and "the only other valid signature
      derivable without the key is (v xor 1, r, N − s)" are facts about secp256k1, not modelled (the harness checks the
      first on every generated transaction: recovered sender = signing key).
    * Keccak (that the signed hash determines the nine signed fields).
  Known boundary (finding S3, reproduced on the real node, see `multisig_signature_list_not_canonical`): for
  SignatureType = multi the signature *list* is not bound by anything: any permutation / sub-list reaching the threshold /
  padding with foreign signatures is another accepted encoding of the same signed transaction.
-/
namespace Minter
namespace Rlp

/-! ## generic RLP -/

/-- **Canonicity.** Whatever the strict decoder accepts is byte for byte the encoding of the item it returns. -/
theorem encode_decode (b : Bytes) (x : Item) (h : decode b = some x) : encode x = b := by
  have := decItem_sound ((decode_some_iff b x).mp h)
  simpa using this.symm

/-- No item has a second accepted encoding. -/
theorem decode_inj (b₁ b₂ : Bytes) (x : Item) (h₁ : decode b₁ = some x) (h₂ : decode b₂ = some x) : b₁ = b₂ := by
  rw [← encode_decode b₁ x h₁, ← encode_decode b₂ x h₂]

/-- Every encoding is accepted and gives the item back.  The hypothesis is the range of Go's length prefix (uint64);
the node bounds transactions by 16 144 bytes. -/
theorem decode_encode (x : Item) (h : (encode x).length < 2 ^ 64) : decode (encode x) = some x :=
  decode_encode' x (sizeOk_of_length x h)

/-- Re-encoding what was decoded and decoding again is the identity (no size hypothesis needed). -/
theorem decode_encode_of_decoded (b : Bytes) (x : Item) (h : decode b = some x) : decode (encode x) = some x := by
  rw [encode_decode b x h]; exact h

/-- The fuel used inside `decode` is irrelevant: if any amount of fuel reads exactly one value from `b`, `decode` accepts. -/
theorem decode_fuel_irrelevant (f : Nat) (b : Bytes) (x : Item) (h : decItem f b = some (x, [])) : decode b = some x :=
  (decode_some_iff b x).mpr (decItem_fuel_enough h)

/-- Trailing bytes: an accepted string followed by anything non-empty is rejected (`ErrMoreThanOneValue`),
so encodings are prefix free. -/
theorem decode_prefix_free (b c : Bytes) (x : Item) (h : decode b = some x) (hc : c ≠ []) : decode (b ++ c) = none := by
  have h1 := decItem_append c ((decode_some_iff b x).mp h)
  unfold decode
  rw [h1]
  cases c with
  | nil => exact absurd rfl hc
  | cons a t => simp

theorem decode_no_trailing (b c : Bytes) (x : Item) (h : decode (b ++ c) = some x) (hc : c ≠ []) : decode b ≠ some x := by
  intro hb
  have := decode_prefix_free b c x hb hc
  rw [this] at h; cases h

/-! ## integers -/

/-- canonical integers: value ↔ bytes is a bijection between naturals and byte strings without a leading zero. -/
theorem uint_canonical (b : Bytes) (h : noLeadZero b = true) : natBE (beNat b) = b := natBE_beNat b h
theorem uint_roundtrip (n : Nat) : beNat (natBE n) = n ∧ noLeadZero (natBE n) = true := ⟨beNat_natBE n, noLeadZero_natBE n⟩

/-- a uint field is accepted only in its one canonical form and within its width. -/
theorem asUint_canonical (bits : Nat) (x : Item) (n : Nat) (h : asUint bits x = some n) :
    x = uintItem n ∧ n < 256 ^ (bits / 8) := asUint_sound h

/-! ## the outer transaction -/

/-- decoding then `Serialize()` gives back the original bytes. -/
theorem encodeTx_decodeTx (b : Bytes) (t : TxFields) (h : decodeTx b = some t) : encodeTx t = b := by
  unfold decodeTx at h
  split at h
  · cases h
  · next x hx =>
    rw [encodeTx, (txOfItem_sound h).1]
    exact encode_decode b x hx

/-- decoded fields are within the widths of the Go struct. -/
theorem decodeTx_wf (b : Bytes) (t : TxFields) (h : decodeTx b = some t) : t.wf = true := by
  unfold decodeTx at h
  split at h
  · cases h
  · exact (txOfItem_sound h).2

/-- `Serialize()` output of any well-formed transaction is accepted and decodes to the same fields. -/
theorem decodeTx_encodeTx (t : TxFields) (hw : t.wf = true) (hs : (encodeTx t).length < 2 ^ 64) :
    decodeTx (encodeTx t) = some t := by
  unfold decodeTx encodeTx
  rw [decode_encode _ hs]
  exact txOfItem_itemOfTx t hw

/-- two accepted byte strings with the same ten fields are the same byte string. -/
theorem decodeTx_inj (b₁ b₂ : Bytes) (t : TxFields) (h₁ : decodeTx b₁ = some t) (h₂ : decodeTx b₂ = some t) : b₁ = b₂ := by
  rw [← encodeTx_decodeTx b₁ t h₁, ← encodeTx_decodeTx b₂ t h₂]

/-! ## typed values in general (transaction data by type, checks, signatures) -/

/-- Whatever a typed decoder accepts is the canonical encoding of a conforming item; re-encoding gives the bytes back. -/
theorem accepts_reencode (s : Schema) (b : Bytes) (h : accepts s b = true) :
    ∃ x, decode b = some x ∧ conforms s x = true ∧ encode x = b := by
  unfold accepts at h
  split at h
  · next x hx => exact ⟨x, hx, h, encode_decode b x hx⟩
  · cases h

theorem accepts_inj (s : Schema) (b₁ b₂ : Bytes) (h₁ : accepts s b₁ = true) (_h₂ : accepts s b₂ = true)
    (hd : decode b₁ = decode b₂) : b₁ = b₂ := by
  obtain ⟨x, hx, _, _⟩ := accepts_reencode s b₁ h₁
  exact decode_inj b₁ b₂ x hx (hd ▸ hx)

/-- **Full transaction** (`Executor.DecodeFromBytes`): an accepted transaction re-encodes to the original bytes at all
three levels: the outer struct, the data struct of its type and the signature struct. -/
theorem acceptsTx_reencode (b : Bytes) (h : acceptsTx b = true) :
    ∃ t, decodeTx b = some t ∧ t.wf = true ∧ encodeTx t = b ∧
      (∃ s x, dataSchema t.typ = some s ∧ decode t.data = some x ∧ conforms s x = true ∧ encode x = t.data) ∧
      (∃ y, decode t.sigData = some y ∧ encode y = t.sigData ∧
        ((t.sigType = 1 ∧ conforms sigSchema y = true) ∨ (t.sigType = 2 ∧ conforms multiSigSchema y = true))) := by
  unfold acceptsTx at h
  split at h
  · cases h
  · next t ht =>
    simp only [Bool.and_eq_true] at h
    obtain ⟨hd, hs⟩ := h
    refine ⟨t, ht, decodeTx_wf b t ht, encodeTx_decodeTx b t ht, ?_, ?_⟩
    · split at hd
      · cases hd
      · next s hsch =>
        obtain ⟨x, hx, hc, he⟩ := accepts_reencode s _ hd
        exact ⟨s, x, hsch, hx, hc, he⟩
    · split at hs
      · next h1 =>
        obtain ⟨y, hy, hc, he⟩ := accepts_reencode _ _ hs
        exact ⟨y, hy, he, Or.inl ⟨h1, hc⟩⟩
      · split at hs
        · next h2 =>
          obtain ⟨y, hy, hc, he⟩ := accepts_reencode _ _ hs
          exact ⟨y, hy, he, Or.inr ⟨h2, hc⟩⟩
        · cases hs

/-- checks: `check.DecodeFromBytes` accepts only the canonical encoding of the check it returns. -/
theorem check_reencode (b : Bytes) (h : accepts checkSchema b = true) :
    ∃ x, decode b = some x ∧ conforms checkSchema x = true ∧ encode x = b := accepts_reencode checkSchema b h

/-! ## signatures -/

theorem encodeSig_decodeSig (b : Bytes) (v r s : Nat) (h : decodeSig b = some (v, r, s)) : encodeSig v r s = b := by
  unfold decodeSig at h
  split at h
  · next x hx =>
    rw [encodeSig, ← sigOfItem_sound h]
    exact encode_decode b x hx
  · cases h

/-- the signature bytes are determined by (v, r, s). -/
theorem decodeSig_inj (b₁ b₂ : Bytes) (σ : Nat × Nat × Nat) (h₁ : decodeSig b₁ = some σ) (h₂ : decodeSig b₂ = some σ) :
    b₁ = b₂ := by
  obtain ⟨v, r, s⟩ := σ
  rw [← encodeSig_decodeSig b₁ v r s h₁, ← encodeSig_decodeSig b₂ v r s h₂]

theorem decodeSig_encodeSig (v r s : Nat) (h : (encodeSig v r s).length < 2 ^ 64) :
    decodeSig (encodeSig v r s) = some (v, r, s) := by
  unfold decodeSig encodeSig
  rw [decode_encode _ h]
  exact sigOfItem_mk v r s

/-- the value check of `RecoverPlain` in closed form: V is 27 or 28 on the wire, 1 ≤ r < N, 1 ≤ s ≤ N/2. -/
theorem validSig_iff (v r s : Nat) :
    validSig v r s = true ↔ (v = 27 ∨ v = 28) ∧ 1 ≤ r ∧ r < secpN ∧ 1 ≤ s ∧ s ≤ secpHalfN :=
  validSig_spec v r s

/-- **High S.** The malleated twin (any recovery id, r, N − s) of an accepted signature is rejected. -/
theorem highS_rejected (v v' r s : Nat) (h : validSig v r s = true) : validSig v' r (secpN - s) = false := by
  have hN := secpHalfN_eq
  obtain ⟨_, _, _, hs1, hs2⟩ := (validSig_iff v r s).mp h
  cases hv : validSig v' r (secpN - s) with
  | false => rfl
  | true =>
    obtain ⟨_, _, _, _, h5⟩ := (validSig_iff v' r (secpN - s)).mp hv
    omega

/-- in particular the textbook malleation (v xor 1 on the wire: 27 ↔ 28, i.e. 55 − v). -/
theorem highS_flip_rejected (v r s : Nat) (h : validSig v r s = true) : validSig (55 - v) r (secpN - s) = false :=
  highS_rejected v (55 - v) r s h

/-- **Recovery id.** Anything but 27/28 on the wire is rejected (0, 1, 29, 27+256, … all of them). -/
theorem bad_v_rejected (v r s : Nat) (h27 : v ≠ 27) (h28 : v ≠ 28) : validSig v r s = false := by
  cases hv : validSig v r s with
  | false => rfl
  | true =>
    obtain ⟨h, _⟩ := (validSig_iff v r s).mp hv
    omega

theorem zero_sig_rejected (v r s : Nat) (h : r = 0 ∨ s = 0) : validSig v r s = false := by
  cases hv : validSig v r s with
  | false => rfl
  | true =>
    obtain ⟨_, h1, _, h2, _⟩ := (validSig_iff v r s).mp hv
    omega

theorem out_of_range_rejected (v r s : Nat) (h : secpN ≤ r ∨ secpHalfN < s) : validSig v r s = false := by
  cases hv : validSig v r s with
  | false => rfl
  | true =>
    obtain ⟨_, _, h1, _, h2⟩ := (validSig_iff v r s).mp hv
    omega

/-- the nine fields covered by `tx.Hash()` (everything but `SignatureData`). -/
def TxFields.signedPart (t : TxFields) : TxFields := { t with sigData := [] }

/-- **Single-signature transactions have one encoding per (signed content, v, r, s).**  Two accepted byte strings that
carry the same signed fields and whose signature data decode to the same triple are identical. -/
theorem single_sig_encoding_unique (b₁ b₂ : Bytes) (t₁ t₂ : TxFields) (σ : Nat × Nat × Nat)
    (h₁ : decodeTx b₁ = some t₁) (h₂ : decodeTx b₂ = some t₂) (hp : t₁.signedPart = t₂.signedPart)
    (s₁ : decodeSig t₁.sigData = some σ) (s₂ : decodeSig t₂.sigData = some σ) : b₁ = b₂ := by
  have hsig := decodeSig_inj _ _ σ s₁ s₂
  have : t₁ = t₂ := by
    cases t₁; cases t₂
    simp only [TxFields.signedPart, TxFields.mk.injEq] at hp
    simp only at hsig
    obtain ⟨a, b, c, d, e, f, g, h, i, _⟩ := hp
    subst a b c d e f g h i hsig
    rfl
  subst this
  exact decodeTx_inj b₁ b₂ t₁ h₁ h₂

/-! ## the multisig boundary (finding S3 — reproduced on the real node, see the harness mode's `multisig_malleability` note)

For SignatureType = 2 the signed hash covers the nine fields but not `SignatureData`, and the executor accepts the
signature list in any order, any sub-list that reaches the threshold, and padding with signatures of non-owners (weight 0).
The three byte strings below were all answered with code 0 by `DeliverTx` on identical states; they carry the same signed
content and sender.  So `single_sig_encoding_unique` has no multisig counterpart: the model, like the code, accepts them all. -/

/-- signer-independent view of a decoded transaction: signed fields, multisig address, and the *set-like* content of the
signature list is deliberately left out. -/
def msigView (b : Bytes) : Option (TxFields × Option Bytes) :=
  (decodeTx b).map fun t => (t.signedPart, (decodeMultiSig t.sigData).map (·.1))

set_option maxRecDepth 100000 in
open Sample in
theorem multisig_signature_list_not_canonical :
    -- three different byte strings …
    msigTxA ≠ msigTxB ∧ msigTxA ≠ msigTxC ∧ msigTxB ≠ msigTxC ∧
    -- … all accepted by the transaction decoder …
    acceptsTx msigTxA = true ∧ acceptsTx msigTxB = true ∧ acceptsTx msigTxC = true ∧
    -- … with the same signed content (hence the same `tx.Hash()`), signature type 2 and the same multisig sender …
    (msigView msigTxA).isSome = true ∧ msigView msigTxA = msigView msigTxB ∧ msigView msigTxA = msigView msigTxC ∧
    (decodeTx msigTxA).map (·.sigType) = some 2 ∧
    -- … B carries A's signatures in reverse order, C only the last of them.
    ((decodeTx msigTxB).bind fun t => (decodeMultiSig t.sigData).map (·.2)) =
      ((decodeTx msigTxA).bind fun t => (decodeMultiSig t.sigData).map (·.2.reverse)) ∧
    ((decodeTx msigTxC).bind fun t => (decodeMultiSig t.sigData).map (·.2)) =
      ((decodeTx msigTxA).bind fun t => (decodeMultiSig t.sigData).map (·.2.drop 2)) := by
  refine ⟨by decide, by decide, by decide, by decide, by decide, by decide, by decide, by decide, by decide, by decide,
    by decide, by decide⟩

/-! ## non-vacuity: concrete inputs (evaluated by the kernel) -/
section Examples
open Sample
set_option maxRecDepth 100000

-- the textbook example ["cat","dog"]
example : decode [0xc8, 0x83, 0x63, 0x61, 0x74, 0x83, 0x64, 0x6f, 0x67] = some (.list [.str [0x63, 0x61, 0x74], .str [0x64, 0x6f, 0x67]]) := by decide
example : encode (.list [.str [0x63, 0x61, 0x74], .str [0x64, 0x6f, 0x67]]) = [0xc8, 0x83, 0x63, 0x61, 0x74, 0x83, 0x64, 0x6f, 0x67] := by decide
example : decode [0xc3, 0x01, 0xc0, 0x80] = some (.list [.str [1], .list [], .str []]) := by decide
-- non-canonical forms are rejected
example : decode [0x81, 0x05] = none := by decide                      -- single byte < 0x80 with a string header (ErrCanonSize)
example : decode [0xb8, 0x02, 0xaa, 0xbb] = none := by decide          -- long form for a 2-byte string (ErrCanonSize)
example : decode [0xf8, 0x01, 0x80] = none := by decide                -- long form for a 1-byte list
example : decode ([0xb9, 0x00, 0x38] ++ List.replicate 56 0xaa) = none := by decide   -- leading zero in the length
example : decode ([0xb8, 0x38] ++ List.replicate 56 0xaa) = some (.str (List.replicate 56 0xaa)) := by decide
example : decode [0xc0, 0x00] = none := by decide                      -- trailing byte (ErrMoreThanOneValue)
example : decode [0xc2, 0x80] = none := by decide                      -- list shorter than declared
example : decode [0xc1, 0x82, 0x01] = none := by decide                -- element larger than its list (ErrElemTooLarge)
example : decode [] = none := by decide
-- integers
example : asUint 64 (.str [0x04, 0x00]) = some 1024 ∧ asUint 64 (.str [0x00, 0x04]) = none ∧ asUint 64 (.str [0x00]) = none
    ∧ asUint 64 (.str []) = some 0 ∧ asUint 8 (.str [1, 0]) = none ∧ asUint 32 (.str [1, 2, 3, 4, 5]) = none := by decide
example : natBE 1024 = [4, 0] ∧ natBE 0 = [] ∧ beNat [4, 0] = 1024 := by decide
-- a real signed transaction (Send, gas coin 6) produced by the node's own code
example : decodeTx realTx = some ⟨1, 2, 1, 6, 1, realTxData, [], [], 1, realTxSig⟩ := by decide
example : encodeTx ⟨1, 2, 1, 6, 1, realTxData, [], [], 1, realTxSig⟩ = realTx := by decide
example : (⟨1, 2, 1, 6, 1, realTxData, [], [], 1, realTxSig⟩ : TxFields).wf = true ∧ realTx.length < 2 ^ 64 := by decide
example : acceptsTx realTx = true := by decide
example : decodeSig realTxSig = some (27, realR, realS) := by decide
example : validSig 27 realR realS = true ∧ validSig 28 realR (secpN - realS) = false ∧ validSig 29 realR realS = false
    ∧ validSig 0 realR realS = false ∧ validSig (27 + 256) realR realS = false := by decide
example : validSig 28 1 secpHalfN = true ∧ validSig 28 1 (secpHalfN + 1) = false ∧ validSig 27 secpN 1 = false
    ∧ validSig 27 0 1 = false ∧ validSig 27 1 0 = false := by decide
-- the same transaction with a non-canonical nonce (0x8101 instead of 0x01) or a trailing byte is rejected
example : decodeTx ([0xf8, 0x72, 0x81, 0x01] ++ realTx.drop 3) = none := by decide
example : decodeTx (realTx ++ [0x00]) = none := by decide
-- a real signed check
example : accepts checkSchema realCheck = true := by decide
example : accepts checkSchema (realCheck ++ [0]) = false := by decide
end Examples

end Rlp
end Minter
