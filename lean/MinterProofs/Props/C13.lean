import MinterModel.Kernels
import Mathlib.Tactic.Linarith
import Mathlib.Tactic.Ring
/-
  C13 — Swap pools never lose value to traders (kernel level: the integer formulas of `PairV2`).
-/
namespace Minter

theorem tdiv_eq_ediv_of_nonneg (a b : Int) (ha : 0 ≤ a) : Int.tdiv a b = a / b := by
  exact Int.tdiv_eq_ediv_of_nonneg ha

/-- **Sell side.** Whatever `CalculateBuyForSell` answers is positive, strictly less than the reserve, passes the node's own
    K check with the 0.2 % fee, and leaves the plain product of reserves strictly larger. -/
theorem buyForSell_K (r0 r1 a out : Int) (h0 : 0 < r0) (h1 : 0 < r1) (ha : 0 < a)
    (h : buyForSell r0 r1 a = some out) :
    0 < out ∧ out < r1 ∧
    ((a + r0) * 1000 - a * 2) * ((r1 - out) * 1000) ≥ r0 * r1 * 1000000 ∧
    (r0 + a) * (r1 - out) > r0 * r1 := by
  unfold buyForSell at h
  simp only at h
  split at h
  · cases h
  · next hpos =>
    cases h
    have hb0 : 0 < ((a + r0) * 1000 - a * 2) * 1000 := by nlinarith
    have hk : 0 ≤ r0 * r1 * 1000000 := by positivity
    rw [tdiv_eq_ediv_of_nonneg _ _ hk] at hpos ⊢
    set q := r0 * r1 * 1000000 / (((a + r0) * 1000 - a * 2) * 1000) with hq
    have hq0 : 0 ≤ q := Int.ediv_nonneg hk (le_of_lt hb0)
    have hlt : r0 * r1 * 1000000 < (q + 1) * (((a + r0) * 1000 - a * 2) * 1000) :=
      Int.lt_ediv_add_one_mul_self _ hb0
    refine ⟨by omega, by omega, ?_, ?_⟩
    · have : r1 - (r1 - q - 1) = q + 1 := by ring
      rw [this]; nlinarith
    · have : r1 - (r1 - q - 1) = q + 1 := by ring
      rw [this]
      nlinarith

/-- **Buy side.** The input `CalculateSellForBuy` asks for keeps the fee-adjusted product of reserves at least as large. -/
theorem sellForBuy_K (r0 r1 out inp : Int) (h0 : 0 < r0) (h1 : 0 < r1) (ho : 0 < out)
    (h : sellForBuy r0 r1 out = some inp) :
    out < r1 ∧ 0 < inp ∧
    ((inp + r0) * 1000 - inp * 2) * ((r1 - out) * 1000) ≥ r0 * r1 * 1000000 ∧
    (r0 + inp) * (r1 - out) ≥ r0 * r1 := by
  unfold sellForBuy at h
  split at h
  · cases h
  · next hlt =>
    simp only at h
    cases h
    have hlt' : out < r1 := by omega
    have hb1 : 0 < (r1 - out) * 1000 := by nlinarith
    have hk : 0 ≤ r0 * r1 * 1000000 := by positivity
    rw [tdiv_eq_ediv_of_nonneg _ _ hk]
    set q := r0 * r1 * 1000000 / ((r1 - out) * 1000) with hq
    -- q ≥ r0*1000 because r1 - out ≤ r1
    have hq1 : r0 * 1000 ≤ q := by
      apply (Int.le_ediv_iff_mul_le hb1).mpr
      nlinarith
    have hn : 0 ≤ q - r0 * 1000 := by omega
    rw [tdiv_eq_ediv_of_nonneg _ _ hn]
    set p := (q - r0 * 1000) / 998 with hp
    have hp0 : 0 ≤ p := Int.ediv_nonneg hn (by norm_num)
    have hp1 : q - r0 * 1000 < (p + 1) * 998 := Int.lt_ediv_add_one_mul_self _ (by norm_num)
    have hq2 : r0 * r1 * 1000000 < (q + 1) * ((r1 - out) * 1000) := Int.lt_ediv_add_one_mul_self _ hb1
    refine ⟨hlt', by omega, ?_, ?_⟩
    · -- (1000 r0 + 998 (p+1)) ≥ q + 1
      have h1' : (p + 1 + r0) * 1000 - (p + 1) * 2 ≥ q + 1 := by nlinarith
      have h2' : 0 ≤ (r1 - out) * 1000 := le_of_lt hb1
      nlinarith
    · have h1' : (p + 1 + r0) * 1000 - (p + 1) * 2 ≥ q + 1 := by nlinarith
      have h3 : ((p + 1 + r0) * 1000 - (p + 1) * 2) * ((r1 - out) * 1000) ≥ r0 * r1 * 1000000 := by nlinarith
      have h4 : (r0 + (p + 1)) * 1000 ≥ (p + 1 + r0) * 1000 - (p + 1) * 2 := by nlinarith
      have h5 : 0 ≤ (r1 - out) := by omega
      nlinarith

/-- The node's own swap check is sound: when it passes, the fee-adjusted product does not shrink and the output is within the reserve. -/
theorem checkSwap_sound (r0 r1 in0 out1 : Int) (h0 : 0 < r0) (h1 : 0 < r1)
    (h : checkSwap r0 r1 in0 out1 = none) :
    0 < out1 ∧ out1 ≤ r1 ∧ ((in0 + r0) * 1000 - in0 * 2) * ((r1 - out1) * 1000) ≥ r0 * r1 * 1000000 := by
  unfold checkSwap at h
  split at h
  · cases h
  · next hl =>
    split at h
    · cases h
    · next ho =>
      simp only at h
      split at h
      · cases h
      · split at h
        · cases h
        · next hk =>
          refine ⟨by omega, by omega, ?_⟩
          have : (0 - out1 + r1) * 1000 = (r1 - out1) * 1000 := by ring
          rw [this] at hk
          omega

end Minter

namespace Minter

/-- Removing liquidity never returns more than the proportional share of either reserve. -/
theorem burn_le_share (r0 r1 supply liq : Int) (hs : 0 < supply) :
    (burnAmounts r0 r1 supply liq).1 * supply ≤ liq * r0 ∧ (burnAmounts r0 r1 supply liq).2 * supply ≤ liq * r1 := by
  unfold burnAmounts
  exact ⟨Int.ediv_mul_le _ (ne_of_gt hs), Int.ediv_mul_le _ (ne_of_gt hs)⟩

/-- Adding liquidity and then removing exactly the minted pool tokens never returns more of either coin than was put in. -/
theorem mint_then_burn_le (r0 r1 supply a0 : Int) (h0 : 0 < r0) (h1 : 0 < r1) (hs : 0 < supply) (ha : 0 ≤ a0) :
    let m := addLiquidity r0 r1 supply a0
    let b := burnAmounts (r0 + a0) (r1 + m.2) (supply + m.1) m.1
    b.1 ≤ a0 ∧ b.2 ≤ m.2 := by
  simp only [addLiquidity, burnAmounts]
  set L := supply * a0 / r0 with hL
  set a1 := a0 * r1 / r0 with ha1
  have hL0 : 0 ≤ L := Int.ediv_nonneg (by positivity) (le_of_lt h0)
  have hLle : L * r0 ≤ supply * a0 := Int.ediv_mul_le _ (ne_of_gt h0)
  have ha1lt : a0 * r1 < (a1 + 1) * r0 := Int.lt_ediv_add_one_mul_self _ h0
  have hden : 0 < supply + L := by omega
  constructor
  · apply Int.ediv_le_of_le_mul hden
    nlinarith
  · -- L * (r1 + a1) < (a1 + 1) * (supply + L)
    have key : L * r1 < supply * (a1 + 1) := by
      by_contra hc
      simp only [not_lt] at hc
      have : supply * (a1 + 1) * r0 ≤ L * r1 * r0 := by nlinarith
      nlinarith
    have : L * (r1 + a1) < (a1 + 1) * (supply + L) := by nlinarith
    have := Int.ediv_lt_of_lt_mul hden this
    omega

/-- The liquidity minted at pool creation squared does not exceed the product of the deposits (integer square root). -/
theorem startingSupply_sq (a0 a1 : Int) (h : 0 ≤ a0 * a1) : startingSupply a0 a1 * startingSupply a0 a1 ≤ a0 * a1 := by
  unfold startingSupply
  have h1 := Nat.sqrt_le (a0 * a1).toNat
  have h2 : ((a0 * a1).toNat : Int) = a0 * a1 := Int.toNat_of_nonneg h
  have h3 : ((Nat.sqrt (a0 * a1).toNat * Nat.sqrt (a0 * a1).toNat : Nat) : Int) ≤ ((a0 * a1).toNat : Int) := by exact_mod_cast h1
  rw [h2] at h3
  simpa using h3

/-! Non-vacuity: concrete reserves where the hypotheses hold and a trade happens. -/
example : buyForSell 1000000 2000000 1000 = some 1994 := by decide
example : sellForBuy 1000000 2000000 1993 = some 1000 := by decide
example : checkSwap 1000000 2000000 1000 1993 = none := by decide

end Minter
