import MinterProofs.Persist.Crash
import MinterProofs.Props.C09
/-
  C10 — A crash at any point during commit is recoverable.            RESULT ON THE UNCHANGED TREE: **false**.

  Model: `commitWrites` is the real write sequence of `Blockchain.Commit` (checked against the node on every run by
  `Q commitorder`): the `Set`s of `CommitEvents`, the `SaveVersion` batch, the `DeleteVersion` batch, then seven separate
  `Set`s on the application DB in the order  hash, height, validators?, blockDelta, versions?, emission?, price?.
  A crash after the first `k` writes leaves `crashDisk`; the new process is `restart`; Tendermint's handshake
  (`replayFrom`) decides from `Info` whether block `h` is delivered again.

  * `crash_recoverable_partial` — every crash point up to and including the `hash` record (and the complete commit)
    recovers: `Info` reports `h-1`, block `h` is delivered again, IAVL accepts the re-save of version `h` (same hash) and the
    node ends in the state of the uncrashed node; all later blocks and queries coincide (`crash_then_continue`).
  * `crash_after_height` — for every later crash point `Info` already reports `(h, hash of h)`: Tendermint accepts it and
    does NOT deliver block `h` again, so the node continues with whatever records made it to disk
    (`recovered_iff_nothing_lost`).
  * `crash_not_recoverable` — the negation of the property for the real order, with a concrete witness (`decide`); the
    `lost_*` examples give the table per record.
  * `crash_recoverable_atomic` — with the records in ONE atomic batch (`commitWritesAtomic`, fix-C10.diff) every crash point
    recovers.
  Assumptions named in the statements: `Boundary` (coherent caches, nothing pending, previous version in the tree,
  `keep_last_states > 0` — with 0 the commit prunes the version the restart needs, see `keep_zero_fatal`), `OpsOK`.
  Outside the model: torn writes inside a goleveldb/IAVL batch, fsync ordering between the three DBs, Tendermint's WAL.
-/
namespace Minter
namespace Persist

theorem runBlockAtomic_eq (cfg : Cfg) (n : Node) (h : Nat) (b : Block) : runBlockAtomic cfg n h b = runBlock cfg n h b := by
  unfold runBlockAtomic runBlock; exact commitAtomic_eq _ _ _ _ _

theorem recoverAtomic_eq (cfg : Cfg) (d : Disk) (ws : List Write) (k h : Nat) (b : Block) :
    recoverAtomic cfg d ws k h b = recover cfg d ws k h b := by
  unfold recoverAtomic recover
  simp only [runBlockAtomic_eq]

/-- recovery from a disk interrupted before the height record. -/
theorem recover_mid (cfg : Cfg) (n0 : Node) (h : Nat) (b : Block) (hb : Boundary cfg n0 h) (hok : OpsOK b.ops)
    (nc : Node) (hr : runBlock cfg n0 h b = some nc) (d : Disk) (ws : List Write) (k : Nat)
    (hm : MidDisk cfg ((logical n0).startHeight.getD 0) n0.disk h b.hash (crashDisk d ws k)) :
    ∃ rc, recover cfg d ws k h b = some rc ∧ logical rc = logical nc ∧ rc.disk.tree = nc.disk.tree ∧ Coherent rc := by
  obtain ⟨r, rc, h1, h2, h3, h4, h5, h6⟩ := replay_mid cfg n0 h b hb hok nc hr _ hm
  refine ⟨rc, ?_, h4, h5, h6⟩
  unfold recover
  simp only [h1, h2, ↓reduceIte, h3]

/-- recovery from the disk of a complete commit: nothing is replayed. -/
theorem recover_complete (cfg : Cfg) (n0 : Node) (h : Nat) (b : Block) (hc : Coherent n0) (hok : OpsOK b.ops)
    (nc : Node) (hr : runBlock cfg n0 h b = some nc) (d : Disk) (ws : List Write) (k : Nat)
    (hd : crashDisk d ws k = nc.disk) :
    ∃ rc, recover cfg d ws k h b = some rc ∧ logical rc = logical nc ∧ rc.disk.tree = nc.disk.tree ∧ Coherent rc := by
  obtain ⟨_, r, h1, h2, h3, h4⟩ := commit_flushes cfg n0 hc h b hok nc hr
  obtain ⟨hl, _, _, _, _⟩ := runBlock_ok cfg n0 hc h b hok nc hr
  obtain ⟨_, _, dr⟩ := restart_ok _ r h1
  have hobs := observe_eq nc (runBlock_ok cfg n0 hc h b hok nc hr).2.1
  have hinfo : info r = (h, some b.hash) := by
    unfold info
    have e1 : (getLastHeight r).1 = (observe r).infoHeight := rfl
    have e2 : getLastBlockHash r = (observe r).infoHash := rfl
    rw [e1, e2, h2, hobs, hl]
    simp [obsL, blockL]
  refine ⟨r, ?_, h3, by rw [dr], h4⟩
  unfold recover replayFrom
  simp only [hd, h1, hinfo, Nat.lt_irrefl, ↓reduceIte]

/-- the shape of the write list. -/
theorem commitWrites_shape (cfg : Cfg) (n : Node) (h : Nat) (hash : Hash) (nEv : Nat) (ws : List Write)
    (hw : commitWrites cfg n h hash nEv = some ws) :
    ∃ pre tail, preWrites cfg n h hash nEv = some pre ∧
      ws = pre ++ (Write.app (Rec.hash hash) :: Write.app (Rec.height h) :: tail.map Write.app) ∧
      appRecs n.mem h hash = Rec.hash hash :: Rec.height h :: tail := by
  unfold commitWrites at hw
  cases hp : preWrites cfg n h hash nEv with
  | none => simp [hp] at hw
  | some pre =>
    simp only [hp, Option.some.injEq] at hw
    refine ⟨pre, (appRecs n.mem h hash).drop 2, rfl, ?_, ?_⟩
    · rw [← hw]; simp [appRecs]
    · simp [appRecs]

/-- number of writes up to and including the `hash` record; the `height` record is write number `hashIdx + 1`. -/
def hashIdx (cfg : Cfg) (n : Node) (h : Nat) (hash : Hash) (nEv : Nat) : Nat :=
  match preWrites cfg n h hash nEv with
  | some pre => pre.length + 1
  | none => 0

/-- **crash_recoverable_partial.**  Let the node stand at the boundary before block `h`, let the uncrashed node commit the
    block into `nc`.  If the process dies after the first `k` writes of that commit, with `k` anywhere up to and including the
    `hash` record, or after all of them, then the restarted node passes the handshake, (re-)executes what Tendermint sends
    and holds the logical content and tree of `nc`. -/
theorem crash_recoverable_partial (cfg : Cfg) (n0 : Node) (h : Nat) (b : Block) (hb : Boundary cfg n0 h) (hok : OpsOK b.ops)
    (nc : Node) (hr : runBlock cfg n0 h b = some nc) (ws : List Write)
    (hw : commitWrites cfg (runOps n0 (blockOps b)) h b.hash b.nEv = some ws) (k : Nat)
    (hk : k ≤ hashIdx cfg (runOps n0 (blockOps b)) h b.hash b.nEv ∨ ws.length ≤ k) :
    ∃ rc, recover cfg (runOps n0 (blockOps b)).disk ws k h b = some rc ∧ logical rc = logical nc ∧
      rc.disk.tree = nc.disk.tree ∧ Coherent rc := by
  obtain ⟨l1, c1, d1⟩ := runOps_ok (blockOps b) n0 hb.coh (blockOps_ok b hok)
  have hstart : (getStartHeight (runOps n0 (blockOps b))).1 = (logical n0).startHeight.getD 0 := by
    rw [getStartHeight_val _ c1, l1, (runOpsL_fixed _ _).2.2]
  obtain ⟨pre, tail, hp, hws, _⟩ := commitWrites_shape cfg _ h b.hash b.nEv ws hw
  rcases hk with hk | hk
  · -- before the height record
    simp only [hashIdx, hp] at hk
    apply recover_mid cfg n0 h b hb hok nc hr
    by_cases hle : k ≤ pre.length
    · obtain ⟨a1, a2⟩ := pre_prefix cfg _ h b.hash b.nEv pre hp k
      unfold crashDisk
      rw [hws, List.take_append_of_le_length hle]
      refine ⟨Or.inl (by rw [a1, d1]), ?_⟩
      rw [hstart, d1] at a2; rw [d1]; exact a2
    · have hk1 : k = pre.length + 1 := by omega
      obtain ⟨hl, a1, a2⟩ := preWrites_some cfg _ h b.hash b.nEv pre hp
      unfold crashDisk
      rw [hws, hk1, List.take_append, List.take_of_length_le (by omega : pre.length ≤ pre.length + 1)]
      simp only [Nat.add_sub_cancel_left, List.take_succ_cons, List.take_zero, applyWrites_append, applyWrites, applyWrite]
      rw [hstart] at a2
      rw [d1] at a1 a2 hl ⊢
      refine ⟨Or.inr ?_, ?_⟩
      · simp only [setRec, a1]
      · simp only [a2]
        exact treeMid_after _ _ _ _ _ hl
  · -- the complete commit
    apply recover_complete cfg n0 h b hb.coh hok nc hr
    unfold crashDisk
    rw [List.take_of_length_le hk]
    unfold runBlock commit at hr
    simp only [hw, Option.some.injEq] at hr
    rw [← hr]

/-- … and from then on it is indistinguishable: every later block (with or without further restarts) is answered like
    the uncrashed node answers it. -/
theorem crash_then_continue (cfg : Cfg) (rc nc : Node) (hrc : Coherent rc) (hnc : Coherent nc)
    (hl : logical rc = logical nc) (ht : rc.disk.tree = nc.disk.tree) (h : Nat) (steps : List (Block × Nat))
    (hok : StepsOK steps) :
    observe rc = observe nc ∧ runSteps cfg rc (h + 1) steps = runSteps cfg nc (h + 1) (steps.map (fun s => (s.1, 0))) :=
  ⟨by rw [observe_eq rc hrc, observe_eq nc hnc, hl], runSteps_congr cfg steps rc nc (h + 1) hrc hnc hl ht hok⟩

theorem setRec_keeps (a : AppDisk) (r : Rec) (hh : ∀ x, r ≠ Rec.hash x) (hg : ∀ x, r ≠ Rec.height x) :
    (setRec a r).hash = a.hash ∧ (setRec a r).height = a.height := by
  cases r with
  | hash x => exact absurd rfl (hh x)
  | height x => exact absurd rfl (hg x)
  | _ => exact ⟨rfl, rfl⟩

theorem setRecs_keeps (l : List Rec) : ∀ (a : AppDisk), (∀ r ∈ l, (∀ x, r ≠ Rec.hash x) ∧ (∀ x, r ≠ Rec.height x)) →
    (setRecs a l).hash = a.hash ∧ (setRecs a l).height = a.height := by
  induction l with
  | nil => intro a _; exact ⟨rfl, rfl⟩
  | cons r l ih =>
    intro a hl
    obtain ⟨x1, x2⟩ := setRec_keeps a r (hl r (by simp)).1 (hl r (by simp)).2
    obtain ⟨y1, y2⟩ := ih (setRec a r) (fun q hq => hl q (by simp [hq]))
    simp only [setRecs]
    exact ⟨y1.trans x1, y2.trans x2⟩

theorem appRecs_tail (m : AppMem) (h : Nat) (hash : Hash) (tail : List Rec)
    (ht : appRecs m h hash = Rec.hash hash :: Rec.height h :: tail) :
    ∀ r ∈ tail, (∀ x, r ≠ Rec.hash x) ∧ (∀ x, r ≠ Rec.height x) := by
  have : tail = (appRecs m h hash).drop 2 := by rw [ht]; rfl
  subst this
  intro r hr
  unfold appRecs at hr
  simp only [List.cons_append, List.nil_append, List.drop_succ_cons, List.drop_zero, List.mem_append] at hr
  rcases hr with ((((hr | hr) | hr) | hr) | hr)
  · cases hv : m.validators <;> simp [hv] at hr; subst hr; simp
  · simp at hr; subst hr; simp
  · split at hr <;> simp at hr; subst hr; simp
  · split at hr <;> simp at hr; subst hr; simp
  · split at hr
    · cases hv : m.price <;> simp [hv] at hr; subst hr; simp
    · simp at hr

/-- **crash_after_height.**  For every crash point behind the `height` record the restarted node reports
    `Info = (h, hash of h)`, the handshake accepts it and delivers nothing: the node continues from the records that
    happened to be written. -/
theorem crash_after_height (cfg : Cfg) (n0 : Node) (h : Nat) (b : Block) (hb : Boundary cfg n0 h) (hok : OpsOK b.ops)
    (ws : List Write) (hw : commitWrites cfg (runOps n0 (blockOps b)) h b.hash b.nEv = some ws) (k : Nat)
    (hk : hashIdx cfg (runOps n0 (blockOps b)) h b.hash b.nEv + 1 ≤ k) :
    ∃ r, restart (crashDisk (runOps n0 (blockOps b)).disk ws k) = some r ∧
      replayFrom (crashDisk (runOps n0 (blockOps b)).disk ws k) h b.hash = some [] ∧
      recover cfg (runOps n0 (blockOps b)).disk ws k h b = some r ∧ info r = (h, some b.hash) ∧
      logical r = logicalOfDisk (crashDisk (runOps n0 (blockOps b)).disk ws k) ∧ Coherent r := by
  obtain ⟨_, _, d1⟩ := runOps_ok (blockOps b) n0 hb.coh (blockOps_ok b hok)
  obtain ⟨pre, tail, hp, hws, htl⟩ := commitWrites_shape cfg _ h b.hash b.nEv ws hw
  obtain ⟨hl, a1, a2⟩ := preWrites_some cfg _ h b.hash b.nEv pre hp
  simp only [hashIdx, hp] at hk
  -- the disk: both head records are there
  have hdisk : (crashDisk (runOps n0 (blockOps b)).disk ws k).app.hash = some b.hash ∧
      (crashDisk (runOps n0 (blockOps b)).disk ws k).app.height = some h ∧
      (crashDisk (runOps n0 (blockOps b)).disk ws k).tree =
        treeAfter cfg (getStartHeight (runOps n0 (blockOps b))).1 (runOps n0 (blockOps b)).disk.tree h b.hash := by
    unfold crashDisk
    obtain ⟨j, hj⟩ : ∃ j, k = pre.length + (j + 2) := ⟨k - pre.length - 2, by omega⟩
    rw [hws, hj, List.take_append, List.take_of_length_le (by omega : pre.length ≤ pre.length + (j + 2))]
    simp only [Nat.add_sub_cancel_left, List.take_succ_cons, applyWrites_append, applyWrites, applyWrite]
    rw [← List.map_take, applyWrites_app]
    have hkeep := setRecs_keeps (tail.take j) (setRec (setRec (applyWrites (runOps n0 (blockOps b)).disk pre).app (Rec.hash b.hash)) (Rec.height h))
      (fun r hr => appRecs_tail _ h b.hash tail htl r (List.mem_of_mem_take hr))
    refine ⟨?_, ?_, ?_⟩
    · simp only; rw [hkeep.1]; rfl
    · simp only; rw [hkeep.2]; rfl
    · simp only; exact a2
  obtain ⟨e1, e2, e3⟩ := hdisk
  have hlook : treeLookup h (crashDisk (runOps n0 (blockOps b)).disk ws k).tree = some b.hash := by
    rw [e3]; exact treeAfter_lookup _ _ _ _ _ hl
  obtain ⟨r, hrs⟩ := restart_some _ h e2 (by simp [hlook])
  obtain ⟨lr, cr, dr⟩ := restart_ok _ r hrs
  have hinfo : info r = (h, some b.hash) := by
    unfold info
    have := congrArg Obs.infoHeight (observe_eq r cr)
    simp only [observe, obsL] at this
    rw [this, lr]
    simp [logicalOfDisk, logical, e2, getLastBlockHash, dr, e1]
  have hrep : replayFrom (crashDisk (runOps n0 (blockOps b)).disk ws k) h b.hash = some [] := by
    unfold replayFrom
    simp only [hrs, hinfo, Nat.lt_irrefl, ↓reduceIte]
  refine ⟨r, hrs, hrep, ?_, hinfo, lr, cr⟩
  unfold recover
  simp only [hrs, hrep]

/-- so such a crash is recovered exactly when nothing that was still unwritten differs from what the disk already had. -/
theorem recovered_iff_nothing_lost (cfg : Cfg) (n0 : Node) (h : Nat) (b : Block) (hb : Boundary cfg n0 h) (hok : OpsOK b.ops)
    (nc : Node) (ws : List Write) (hw : commitWrites cfg (runOps n0 (blockOps b)) h b.hash b.nEv = some ws) (k : Nat)
    (hk : hashIdx cfg (runOps n0 (blockOps b)) h b.hash b.nEv + 1 ≤ k) :
    (∃ r, recover cfg (runOps n0 (blockOps b)).disk ws k h b = some r ∧ logical r = logical nc) ↔
      logicalOfDisk (crashDisk (runOps n0 (blockOps b)).disk ws k) = logical nc := by
  obtain ⟨r, _, _, h3, _, h5, _⟩ := crash_after_height cfg n0 h b hb hok ws hw k hk
  constructor
  · rintro ⟨r', hr', hl'⟩
    rw [h3] at hr'; cases hr'
    rw [← h5]; exact hl'
  · intro e
    exact ⟨r, h3, by rw [h5]; exact e⟩

/-- **crash_recoverable_atomic.**  With the application-DB records of a commit in one atomic batch (the repaired order)
    EVERY crash point of the commit recovers. -/
theorem crash_recoverable_atomic (cfg : Cfg) (n0 : Node) (h : Nat) (b : Block) (hb : Boundary cfg n0 h) (hok : OpsOK b.ops)
    (nc : Node) (hr : runBlockAtomic cfg n0 h b = some nc) (ws : List Write)
    (hw : commitWritesAtomic cfg (runOps n0 (blockOps b)) h b.hash b.nEv = some ws) (k : Nat) :
    ∃ rc, recoverAtomic cfg (runOps n0 (blockOps b)).disk ws k h b = some rc ∧ logical rc = logical nc ∧
      rc.disk.tree = nc.disk.tree ∧ Coherent rc := by
  rw [runBlockAtomic_eq] at hr
  rw [recoverAtomic_eq]
  obtain ⟨l1, c1, d1⟩ := runOps_ok (blockOps b) n0 hb.coh (blockOps_ok b hok)
  have hstart : (getStartHeight (runOps n0 (blockOps b))).1 = (logical n0).startHeight.getD 0 := by
    rw [getStartHeight_val _ c1, l1, (runOpsL_fixed _ _).2.2]
  unfold commitWritesAtomic at hw
  cases hp : preWrites cfg (runOps n0 (blockOps b)) h b.hash b.nEv with
  | none => simp [hp] at hw
  | some pre =>
    simp only [hp, Option.some.injEq] at hw
    by_cases hle : k ≤ pre.length
    · apply recover_mid cfg n0 h b hb hok nc hr
      obtain ⟨a1, a2⟩ := pre_prefix cfg _ h b.hash b.nEv pre hp k
      unfold crashDisk
      rw [← hw, List.take_append_of_le_length hle]
      refine ⟨Or.inl (by rw [a1, d1]), ?_⟩
      rw [hstart, d1] at a2; rw [d1]; exact a2
    · apply recover_complete cfg n0 h b hb.coh hok nc hr
      unfold crashDisk
      rw [List.take_of_length_le (by rw [← hw]; simp; omega)]
      have hr' := hr
      rw [← runBlockAtomic_eq] at hr'
      unfold runBlockAtomic commitAtomic commitWritesAtomic at hr'
      simp only [hp, Option.some.injEq] at hr'
      rw [← hr', ← hw]

/-! ### the witness: the property is false for the real order -/

def wNode : Node :=
  { mem := { startHeight := 5, lastHeight := 9, lastTimeBlocks := [100, 105], versions := [⟨1, 0⟩], emission := some 1000,
             isDirtyPrice := true, price := some ⟨7, 1, 2, 3, false⟩ },
    disk := { app := { hash := some 9, height := some 9, startHeight := some 5, validators := some [(1, 10)],
                       blockTimes := some [100, 105], versions := some [⟨1, 0⟩], emission := some 1000,
                       price := some ⟨7, 1, 2, 3, false⟩ },
              tree := [(9, 9), (8, 8)] } }

/-- block 10 touches every record: new block time, emission += 74, a validator update, a voted version, a new price. -/
def wBlock : Block :=
  { time := 110, hash := 10, nEv := 1,
    ops := [.setEmission (fun e => e.getD 0 + 74), .setValidators (fun v => (2, 5) :: v), .addVersion 2 10,
            .setPrice (fun _ => ⟨8, 4, 5, 6, true⟩)] }

def wCfg : Cfg := ⟨2⟩

theorem wNode_boundary : Boundary wCfg wNode 10 := by
  refine ⟨?_, by unfold Flushed; decide, by decide, by decide, by decide, by decide⟩
  refine ⟨?_, ?_, ?_, ?_, ?_, ?_, ?_, ?_, ?_⟩ <;> simp [wNode, readEmission]

theorem wBlock_ok : OpsOK wBlock.ops := by
  intro o ho
  simp only [wBlock, List.mem_cons, List.mem_nil_iff, or_false] at ho
  rcases ho with rfl | rfl | rfl | rfl <;> simp [OpOK]

/-- the writes of that commit: events, tree, hash, height, validators, blockDelta, versions, emission, price. -/
example : (commitWrites wCfg (runOps wNode (blockOps wBlock)) 10 10 1).map (fun ws => ws.map Write.tag) =
    some ["events", "tree", "hash", "height", "validators", "blockDelta", "versions", "emission", "price"] := by decide

/-- what the crashed-and-recovered node answers differently from the uncrashed node (names of the getters). -/
def lostAt (cfg : Cfg) (n0 : Node) (h : Nat) (b : Block) (k : Nat) : Option (List String) :=
  let n1 := runOps n0 (blockOps b)
  match commitWrites cfg n1 h b.hash b.nEv, runBlock cfg n0 h b with
  | some ws, some nc =>
    match recover cfg n1.disk ws k h b with
    | none => none
    | some r =>
      let a := observe r
      let c := observe nc
      some ((if a.infoHeight = c.infoHeight ∧ a.infoHash = c.infoHash then [] else ["info"])
        ++ (if a.validators = c.validators then [] else ["validators"])
        ++ (if a.delta = c.delta then [] else ["blockDelta"])
        ++ (if a.versions = c.versions then [] else ["versions"])
        ++ (if a.emission = c.emission then [] else ["emission"])
        ++ (if a.price = c.price then [] else ["price"]))
  | _, _ => none

/-- the table per crash point: 0–3 (up to `hash`) and 9 (complete) recover; 4–8 lose every record not yet written. -/
example : (List.range 10).map (lostAt wCfg wNode 10 wBlock) =
    [some [], some [], some [], some [],
     some ["validators", "blockDelta", "versions", "emission", "price"],
     some ["blockDelta", "versions", "emission", "price"],
     some ["versions", "emission", "price"],
     some ["emission", "price"],
     some ["price"],
     some []] := by decide

/-- **crash_not_recoverable.**  C10 is false for the real write order: there are a node at a block boundary (all
    assumptions met), a block and a crash point of its commit — right after the `height` record — such that the node
    restarts, passes the handshake with nothing to replay, and from then on reports another emission (and validators,
    block-time delta, versions, price) than the node that did not crash. -/
theorem crash_not_recoverable :
    ∃ (cfg : Cfg) (n0 : Node) (h : Nat) (b : Block) (ws : List Write) (nc r : Node) (k : Nat),
      Boundary cfg n0 h ∧ OpsOK b.ops ∧ runBlock cfg n0 h b = some nc ∧
      commitWrites cfg (runOps n0 (blockOps b)) h b.hash b.nEv = some ws ∧ k ≤ ws.length ∧
      replayFrom (crashDisk (runOps n0 (blockOps b)).disk ws k) h b.hash = some [] ∧
      recover cfg (runOps n0 (blockOps b)).disk ws k h b = some r ∧
      (observe r).emission ≠ (observe nc).emission ∧ (observe r).validators ≠ (observe nc).validators ∧
      (observe r).delta ≠ (observe nc).delta ∧ (observe r).versions ≠ (observe nc).versions ∧
      (observe r).price ≠ (observe nc).price :=
  ⟨wCfg, wNode, 10, wBlock, _, _, _, 4, wNode_boundary, wBlock_ok, rfl, rfl, by decide, by decide, rfl,
    by decide, by decide, by decide, by decide, by decide⟩

/-- non-vacuity of the positive theorems: the witness block meets their hypotheses and recovers at k = 3 (after `hash`). -/
example : ∃ rc, recover wCfg (runOps wNode (blockOps wBlock)).disk
    ((commitWrites wCfg (runOps wNode (blockOps wBlock)) 10 10 1).getD []) 3 10 wBlock = some rc ∧
    (info rc) = (10, some 10) := ⟨_, rfl, by decide⟩

/-- the same block under the repaired order: every crash point recovers (instance of `crash_recoverable_atomic`). -/
example : (List.range 4).map (fun k =>
    (recoverAtomic wCfg (runOps wNode (blockOps wBlock)).disk
      ((commitWritesAtomic wCfg (runOps wNode (blockOps wBlock)) 10 10 1).getD []) k 10 wBlock).map observe)
    = List.replicate 4 ((runBlock wCfg wNode 10 wBlock).map observe) := by decide

/-- `keep_last_states = 0`: the commit prunes version `h-1`; a crash before the height record leaves a node that
    cannot start (it needs the version it has just deleted). -/
theorem keep_zero_fatal :
    let ws := (commitWrites ⟨0⟩ (runOps wNode (blockOps wBlock)) 10 10 1).getD []
    ws.map Write.tag = ["events", "tree", "prune", "hash", "height", "validators", "blockDelta", "versions", "emission", "price"] ∧
    restart (crashDisk (runOps wNode (blockOps wBlock)).disk ws 3) = none := by decide

end Persist
end Minter
