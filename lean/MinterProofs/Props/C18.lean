import MinterProofs.Begin
/-
  C18 — "Outside grace periods, a validator that misses more than 12 of the last 24 blocks is switched off and jailed for the
  jail period, and a jailed candidate cannot be switched back on before the jail ends. A validator with byzantine evidence
  against it (unless already offline) loses the rounded-up 5% of every stake and of every unbonding fund from it. The rest of
  each stake is unbonded, the validator is dropped, and slashed value goes to the total-slashed pool."

  Theorems about the BeginBlock model (MinterModel/BeginBlock.lean), for all states.  The model is compared with the node's
  observed state after every BeginBlock of every campaign (`beginCompare` in the driver) and its small kernels
  (`absent`, `present`, `grace`, `jailed`) with the real functions by the `beginq` mode.
-/
namespace Minter

/-! ### Absence: more than 12 of 24 -/

/-- **absent_threshold (crossing).** When setting the bit of this height makes more than 12 of the 24 bits set, the validator
    is marked to drop with a fresh bit array, its candidate is switched off, and — outside a grace period — jailed until
    `h + jail`; inside a grace period the jail height is left as it was. -/
theorem absent_threshold (P : Params) (h : Nat) (grace : Bool) (a : Nat) (s s' : State) (ev : List BEvent)
    (v : Validator) (c : Candidate)
    (hv : findFirst (valByTm a) s.validators = some v)
    (hc : findFirst (candByPub v.pubkey) s.candidates = some c)
    (hx : countAbsent (v.absent.set (h % 24) true) > 12)
    (hr : setAbsent P h grace a s = .ok (s', ev)) :
    findFirst (valByTm a) s'.validators = some { v with absent := freshBits, toDrop := true }
    ∧ findFirst (candByPub v.pubkey) s'.candidates
        = some { c with status := 1, jailedUntil := if grace then c.jailedUntil else h + P.jail }
    ∧ ev = (if grace then [] else [.jail c.pubkey (h + P.jail)]) := by
  have hx' : crossedAbsent h v = true := by
    unfold crossedAbsent absentBits absentWindow maxAbsentTimes
    exact decide_eq_true hx
  simp only [setAbsent, hv, hx', if_true, hc] at hr
  cases hr
  refine ⟨?_, ?_, rfl⟩
  · show findFirst (valByTm a) (updFirst (valByTm a) _ s.validators) = _
    rw [findFirst_updFirst (valByTm a) _ s.validators (by intro _; rfl), hv]; rfl
  · show findFirst (candByPub v.pubkey) (updFirst (candByPub v.pubkey) (switchOff P.jail h grace) s.candidates) = _
    rw [findFirst_updFirst (candByPub v.pubkey) _ s.candidates (by intro _; rfl), hc]; rfl

/-- **absent_threshold (not crossing).** With at most 12 bits set nothing happens but the bit: no candidate changes, nobody is
    dropped, no event. -/
theorem absent_below_threshold (P : Params) (h : Nat) (grace : Bool) (a : Nat) (s s' : State) (ev : List BEvent)
    (v : Validator)
    (hv : findFirst (valByTm a) s.validators = some v)
    (hx : countAbsent (v.absent.set (h % 24) true) ≤ 12)
    (hr : setAbsent P h grace a s = .ok (s', ev)) :
    s'.candidates = s.candidates ∧ ev = []
    ∧ findFirst (valByTm a) s'.validators = some { v with absent := v.absent.set (h % 24) true } := by
  have hx' : crossedAbsent h v = false := by
    unfold crossedAbsent absentBits absentWindow maxAbsentTimes
    exact decide_eq_false (by omega)
  simp only [setAbsent, hv, hx'] at hr
  cases hr
  refine ⟨rfl, rfl, ?_⟩
  show findFirst (valByTm a) (updFirst (valByTm a) _ s.validators) = _
  rw [findFirst_updFirst (valByTm a) _ s.validators (by intro _; rfl), hv]; rfl

/-- An address that is not a validator is ignored, and a signed vote only clears the bit of this height. -/
theorem absent_unknown_ignored (P : Params) (h : Nat) (grace : Bool) (a : Nat) (s : State)
    (hv : findFirst (valByTm a) s.validators = none) : setAbsent P h grace a s = .ok (s, []) := by
  simp only [setAbsent, hv]

theorem present_only_clears_bit (h a : Nat) (s : State) :
    (setPresent h a s).candidates = s.candidates
    ∧ (setPresent h a s).validators = updFirst (valByTm a) (fun v => { v with absent := v.absent.set (h % 24) false }) s.validators :=
  ⟨rfl, rfl⟩

/-- Absence accounting (the whole vote loop) moves no value. -/
theorem absence_moves_no_value (P : Params) (h : Nat) (g : Bool) (vs : List (Nat × Bool)) (s s' : State) (ev : List BEvent)
    (hr : absencePhase P h g vs s = .ok (s', ev)) :
    (∀ k, holdings s' k = holdings s k) ∧ (∀ k, volumeOf s' k = volumeOf s k) ∧ baseTotal s' = baseTotal s :=
  let f := absencePhase_sameValue P h g vs s s' ev hr
  ⟨f.holdings, f.volume, f.baseTotal⟩

-- non-vacuity: a validator with 12 misses that misses block 36 is switched off and jailed until 36 + 354; with 11 it is not
private def vEx (n : Nat) : Validator :=
  { pubkey := 7, totalBip := 100, accum := 0, absent := List.replicate n true ++ List.replicate (24 - n) false, tmAddr := 70 }
private def cEx : Candidate :=
  { id := 1, pubkey := 7, owner := 1, reward := 1, control := 2, commission := 10, status := 2, jailedUntil := 0,
    lastEditCommission := 0, totalBip := 100, stakes := [], updates := [] }
private def sEx (n : Nat) : State := { validators := [vEx n], candidates := [cEx] }

example : (match setAbsent {} 36 false 70 (sEx 12) with
    | .ok (s', _) => s'.candidates.map (fun c => (c.status, c.jailedUntil)) | .error _ => []) = [(1, 390)] := by decide
example : (match setAbsent {} 36 true 70 (sEx 12) with
    | .ok (s', _) => s'.candidates.map (fun c => (c.status, c.jailedUntil)) | .error _ => []) = [(1, 0)] := by decide
example : (match setAbsent {} 36 false 70 (sEx 11) with
    | .ok (s', _) => s'.candidates.map (fun c => (c.status, c.jailedUntil)) | .error _ => []) = [(2, 0)] := by decide
example : countAbsent ((vEx 12).absent.set (36 % 24) true) > 12 := by decide

/-! ### Jail -/

/-- **jailed_cannot_switch_on.** `SetCandidateOn` is rejected for every block up to and including the jail height,
    whoever sends it. -/
theorem jailed_cannot_switch_on (s : State) (sender : Addr) (pk : PubKey) (block : Nat) (c : Candidate)
    (hc : beginCandByKey s pk = some c) (hj : block ≤ c.jailedUntil) :
    setCandidateOnCheck s sender pk block ≠ none := by
  simp only [setCandidateOnCheck, hc]
  split
  · simp
  · have : isJailed c block = true := by simp [isJailed]; omega
    simp [this]

/-- After the jail height the owner can switch the candidate on again (the check is not vacuous). -/
theorem unjailed_owner_can_switch_on (s : State) (pk : PubKey) (block : Nat) (c : Candidate)
    (hc : beginCandByKey s pk = some c) (hj : c.jailedUntil < block) :
    setCandidateOnCheck s c.owner pk block = none := by
  have : isJailed c block = false := by simp [isJailed]; omega
  simp [setCandidateOnCheck, hc, this]

/-- **Jailed for the jail period.** A validator switched off for absence at height `h` outside a grace period cannot be
    switched on at any block `≤ h + jail`. -/
theorem absent_jails_for_period (P : Params) (h : Nat) (a : Nat) (s s' : State) (ev : List BEvent)
    (v : Validator) (c : Candidate)
    (hv : findFirst (valByTm a) s.validators = some v)
    (hc : findFirst (candByPub v.pubkey) s.candidates = some c)
    (hx : countAbsent (v.absent.set (h % 24) true) > 12)
    (hr : setAbsent P h false a s = .ok (s', ev))
    (sender : Addr) (block : Nat) (hb : block ≤ h + P.jail) :
    setCandidateOnCheck s' sender v.pubkey block ≠ none := by
  obtain ⟨_, hc', _⟩ := absent_threshold P h false a s s' ev v c hv hc hx hr
  exact jailed_cannot_switch_on s' sender v.pubkey block _ hc' (by simpa using hb)

example : setCandidateOnCheck { candidates := [{ cEx with jailedUntil := 384, status := 1 }] } 1 7 384 = some 414 := by decide
example : setCandidateOnCheck { candidates := [{ cEx with jailedUntil := 384, status := 1 }] } 1 7 385 = none := by decide

/-! ### The slash -/

/-- **The rounded-up 5%.** `v − ⌊95·v/100⌋` is `⌈v/20⌉`: the least integer whose 20-fold reaches `v`. -/
theorem byzantine_cut_is_ceil (v : Int) :
    byzCut v = (v + 19) / 20 ∧ v ≤ 20 * byzCut v ∧ 20 * (byzCut v - 1) < v := by
  refine ⟨byzCut_eq_ceil v, ?_, ?_⟩ <;> (simp only [byzCut, byzKeep]; omega)

/-- **byzantine_slash (one slash, exact amounts).** Slashing `v` of a coin: a base-coin cut `⌈v/20⌉` is added to the slashed
    pool; for another coin the cut leaves the coin's volume, and the reserve that `CalculateSaleReturn` values it at moves
    from the coin's reserve into the slashed pool (Σ reserves + slashed unchanged). Nothing else changes. -/
theorem byzantine_slash (o : Oracle) (coin : Coin) (v : Int) (p p' : ByzPots) (hr : slashPots o coin v p = .ok p') :
    (coin = 0 → p'.coins = p.coins ∧ p'.slashed = p.slashed + byzCut v)
    ∧ (coin ≠ 0 → ∃ ci ret, findFirst (coinById coin) p.coins = some ci
          ∧ o (.saleReturn ci.volume ci.reserve ci.crr (byzCut v)) = some ret
          ∧ p'.slashed = p.slashed + ret
          ∧ findFirst (coinById coin) p'.coins = some { ci with volume := ci.volume - byzCut v, reserve := ci.reserve - ret }
          ∧ sumBy (fun ci => ci.reserve) p'.coins + p'.slashed = sumBy (fun ci => ci.reserve) p.coins + p.slashed) := by
  constructor
  · intro h0
    simp only [slashPots, h0, if_true] at hr
    cases hr; exact ⟨rfl, rfl⟩
  · intro h0
    have hs := (slashPots_effect o coin v p p' hr).2
    simp only [slashPots, h0, if_false] at hr
    cases hf : findFirst (coinById coin) p.coins with
    | none => simp only [hf] at hr; cases hr
    | some ci =>
      simp only [hf] at hr
      cases ho : o (.saleReturn ci.volume ci.reserve ci.crr (byzCut v)) with
      | none => simp only [ho] at hr; cases hr
      | some ret =>
        simp only [ho] at hr
        cases hr
        refine ⟨ci, ret, rfl, ho, rfl, ?_, ?_⟩
        · show findFirst (coinById coin) (updFirst (coinById coin) _ p.coins) = _
          rw [findFirst_updFirst (coinById coin) _ p.coins (by intro _; rfl), hf]; rfl
        · simpa [potSide, h0] using hs

/-- **byzantine_slash (a whole punishment).** Every unbonding fund of the candidate due within one unbond period keeps
    `⌊95·v/100⌋`; every stake is zeroed and its remainder `⌊95·v/100⌋` becomes a new fund of the delegator due exactly
    `h + unbond`; the validator loses its stake and is marked to drop. -/
theorem byzantine_punishment (P : Params) (o : Oracle) (h a : Nat) (s s' : State) (ev : List BEvent)
    (v : Validator) (c : Candidate) (ht : byzTarget a s = some (v, c)) (hr : byzStep P o h a s = .ok (s', ev)) :
    s'.frozen = s.frozen.map (slashItem h (h + P.unbond) c.id) ++ c.stakes.map (remainderFund P.unbond h c)
    ∧ findFirst (candByPub v.pubkey) s'.candidates = some { c with stakes := c.stakes.map zeroStake }
    ∧ findFirst (valByTm a) s'.validators = some { v with totalBip := 0, toDrop := true }
    ∧ s'.balances = s.balances := by
  obtain ⟨hv, _, hc, _⟩ := byzTarget_some a s v c ht
  obtain ⟨hfr, hcd, hvl, hb, _⟩ := byzStep_hit P o h a s s' ev v c ht hr
  refine ⟨hfr, ?_, ?_, hb⟩
  · rw [hcd, findFirst_updFirst (candByPub v.pubkey) _ s.candidates (by intro _; rfl), hc]; rfl
  · rw [hvl, findFirst_updFirst (valByTm a) _ s.validators (by intro _; rfl), hv]; rfl

theorem remainder_fund_exact (u h : Nat) (c : Candidate) (st : Stake) :
    (remainderFund u h c st).height = h + u ∧ (remainderFund u h c st).addr = st.owner
    ∧ (remainderFund u h c st).coin = st.coin ∧ (remainderFund u h c st).moveTo = 0
    ∧ (remainderFund u h c st).value + byzCut st.value = st.value := by
  refine ⟨rfl, rfl, rfl, rfl, ?_⟩
  simp only [remainderFund]; exact byzKeep_add_cut _

/-! ### Punished once -/

/-- The skip rules of the evidence loop. -/
theorem byzantine_skips (a : Nat) (s : State) :
    (findFirst (valByTm a) s.validators = none → byzTarget a s = none)
    ∧ (∀ v, findFirst (valByTm a) s.validators = some v → v.toDrop = true → byzTarget a s = none)
    ∧ (∀ v, findFirst (valByTm a) s.validators = some v → findFirst (candByPub v.pubkey) s.candidates = none → byzTarget a s = none)
    ∧ (∀ v c, findFirst (valByTm a) s.validators = some v → findFirst (candByPub v.pubkey) s.candidates = some c → c.status = 1 →
        byzTarget a s = none) := by
  refine ⟨fun h => by simp [byzTarget, h], fun v h hd => by simp [byzTarget, h, hd], fun v h hc => ?_, fun v c h hc hs => ?_⟩
  · simp only [byzTarget, h, hc]; split <;> rfl
  · simp only [byzTarget, h, hc, hs]; split <;> rfl

/-- A skipped entry changes nothing. -/
theorem skipped_changes_nothing (P : Params) (o : Oracle) (h a : Nat) (s : State) (ht : byzTarget a s = none) :
    byzStep P o h a s = .ok (s, []) := byzStep_skip P o h a s ht

/-- Being skipped is stable: later evidence entries (against anybody) never make a skipped address punishable again. -/
theorem skip_is_stable (P : Params) (o : Oracle) (h a b : Nat) (s s' : State) (ev : List BEvent)
    (ha : byzTarget a s = none) (hr : byzStep P o h b s = .ok (s', ev)) : byzTarget a s' = none := by
  cases htb : byzTarget b s with
  | none => rw [byzStep_skip P o h b s htb] at hr; cases hr; exact ha
  | some vc =>
    obtain ⟨w, d⟩ := vc
    obtain ⟨_, hcd, hvl, _⟩ := byzStep_hit P o h b s s' ev w d htb hr
    have hvcases := findFirst_updFirst_cases (valByTm a) (valByTm b) (fun v : Validator => { v with totalBip := 0, toDrop := true })
      s.validators (by intro _; rfl)
    have hccases : ∀ pk, findFirst (candByPub pk) s'.candidates = findFirst (candByPub pk) s.candidates
        ∨ ∃ x, findFirst (candByPub pk) s.candidates = some x
            ∧ findFirst (candByPub pk) s'.candidates = some { x with stakes := x.stakes.map zeroStake } := by
      intro pk; rw [hcd]
      exact findFirst_updFirst_cases (candByPub pk) (candByPub w.pubkey) (fun c : Candidate => { c with stakes := c.stakes.map zeroStake })
        s.candidates (by intro _; rfl)
    unfold byzTarget at ha ⊢
    rw [hvl]
    rcases hvcases with he | ⟨x, hx, he⟩
    · rw [he]
      cases hva : findFirst (valByTm a) s.validators with
      | none => rfl
      | some va =>
        simp only [hva] at ha ⊢
        by_cases hd : va.toDrop = true
        · simp [hd]
        · simp only [hd] at ha ⊢
          rcases hccases va.pubkey with hce | ⟨y, hy, hce⟩
          · rw [hce]; exact ha
          · rw [hce]; simp only [hy] at ha
            by_cases hs : y.status = 1
            · simp [hs]
            · simp [hs] at ha
    · rw [he]; simp

/-- **punish_once.** Once an evidence entry against `a` has been processed — whether it punished or was skipped — `a` is
    never punished again in the same block, whatever entries follow: every later entry against `a` is skipped. -/
theorem punish_once (P : Params) (o : Oracle) (h a : Nat) (rest : List Nat) (s s1 s2 : State) (e1 e2 : List BEvent)
    (h1 : byzStep P o h a s = .ok (s1, e1)) (h2 : byzPhase P o h rest s1 = .ok (s2, e2)) :
    byzTarget a s1 = none ∧ byzTarget a s2 = none ∧ byzStep P o h a s2 = .ok (s2, []) := by
  have hfirst : byzTarget a s1 = none := by
    cases ht : byzTarget a s with
    | none => rw [byzStep_skip P o h a s ht] at h1; cases h1; exact ht
    | some vc =>
      obtain ⟨v, c⟩ := vc
      obtain ⟨_, _, hvl, _⟩ := byzStep_hit P o h a s s1 e1 v c ht h1
      obtain ⟨hv, _, _, _⟩ := byzTarget_some a s v c ht
      unfold byzTarget
      rw [hvl, findFirst_updFirst (valByTm a) _ s.validators (by intro _; rfl), hv]
      simp
  have hlater : byzTarget a s2 = none := by
    clear h1
    induction rest generalizing s1 e2 with
    | nil => simp only [byzPhase] at h2; cases h2; exact hfirst
    | cons b t ih =>
      simp only [byzPhase] at h2
      cases hb : byzStep P o h b s1 with
      | error e => simp only [hb] at h2; cases h2
      | ok r =>
        obtain ⟨sb, eb⟩ := r
        simp only [hb] at h2
        cases ht : byzPhase P o h t sb with
        | error e => simp only [ht] at h2; cases h2
        | ok r2 =>
          obtain ⟨st, et⟩ := r2
          simp only [ht] at h2
          cases h2
          exact ih sb et ht (skip_is_stable P o h a b s1 sb eb hfirst hb)
  exact ⟨hfirst, hlater, byzStep_skip P o h a s2 hlater⟩

/-- After the punishment the candidate has no stake value left. -/
theorem punished_has_no_stakes (P : Params) (o : Oracle) (h a : Nat) (s s' : State) (ev : List BEvent)
    (v : Validator) (c : Candidate) (ht : byzTarget a s = some (v, c)) (hr : byzStep P o h a s = .ok (s', ev)) :
    ∃ c', findFirst (candByPub v.pubkey) s'.candidates = some c' ∧ ∀ st ∈ c'.stakes, st.value = 0 := by
  obtain ⟨_, hc, _, _⟩ := byzantine_punishment P o h a s s' ev v c ht hr
  refine ⟨_, hc, ?_⟩
  intro st hst
  obtain ⟨x, _, rfl⟩ := List.mem_map.mp hst
  rfl

/-! ### Conservation -/

/-- **Slashed value goes to the total-slashed pool.** Across a whole BeginBlock every custom coin's volume and holdings move
    together, and the base-coin total (holdings + Σ reserves + accumulated rewards + slashed pool) is unchanged: what the
    delegators lose in base coin is in the slashed pool, and what they lose in another coin has left that coin's volume while
    the reserve it was worth (the node's `CalculateSaleReturn`) moved from the coin's reserve into the slashed pool.
    (`0 < unbond`: the period is the constant 518400 resp. 531; with period 0 a move re-frozen because its target is gone would
    be stored under the height whose funds are deleted at the end of the same BeginBlock.) -/
theorem begin_conserves (P : Params) (o : Oracle) (s s' : State) (r : BeginReq) (grace : Bool) (ev : List BEvent)
    (hu : 0 < P.unbond) (hr : beginBlock P o s r grace = .ok (s', ev)) :
    (∀ k, k ≠ 0 → volumeOf s' k - holdings s' k = volumeOf s k - holdings s k) ∧ baseTotal s' = baseTotal s := by
  simp only [beginBlock] at hr
  cases hA : absencePhase P r.height grace r.votes { s with rewardsPool := 0 } with
  | error e => simp only [hA] at hr; cases hr
  | ok rA =>
    obtain ⟨sA, evA⟩ := rA
    simp only [hA] at hr
    cases hB : byzPhase P o r.height r.byz sA with
    | error e => simp only [hB] at hr; cases hr
    | ok rB =>
      obtain ⟨sB, evB⟩ := rB
      simp only [hB] at hr
      cases hC : maturityPhase P.unbond r.height sB with
      | error e => simp only [hC] at hr; cases hr
      | ok rC =>
        obtain ⟨sC, evC⟩ := rC
        simp only [hC] at hr
        cases hr
        have fA := absencePhase_sameValue P r.height grace r.votes _ sA evA hA
        obtain ⟨b1, b2⟩ := byzPhase_conserves P o r.height r.byz sA sB evB hB
        obtain ⟨c1, c2⟩ := maturityPhase_conserves P.unbond r.height hu sB s' evC hC
        have h0 : ∀ k, holdings ({ s with rewardsPool := 0 } : State) k = holdings s k := fun _ => rfl
        constructor
        · intro k hk
          rw [c1 k, b1 k hk, fA.holdings k, fA.volume k, h0 k]; rfl
        · rw [c2, b2, fA.baseTotal]; rfl

/-- In particular the invariant of C01 survives BeginBlock. -/
theorem begin_preserves_conserved (P : Params) (o : Oracle) (s s' : State) (r : BeginReq) (grace : Bool) (ev : List BEvent)
    (hu : 0 < P.unbond) (hr : beginBlock P o s r grace = .ok (s', ev)) (hc : Conserved s) : Conserved s' := by
  intro k hk
  have := (begin_conserves P o s s' r grace ev hu hr).1 k hk
  have := hc k hk
  omega

-- non-vacuity: one validator (address 70, key 7) with two stakes (base coin 1000, coin 5: 999) and a pending unbond of 101
private def stEx : List Stake := [{ owner := 11, coin := 0, value := 1000, bip := 1000 }, { owner := 12, coin := 5, value := 999, bip := 10 }]
private def coinEx : CoinInfo :=
  { id := 5, symbol := "X", version := 0, volume := 100000, reserve := 50000, crr := 100, maxSupply := 1000000, owner := none,
    mintable := false, burnable := false }
private def sByz : State :=
  { validators := [vEx 0], candidates := [{ cEx with stakes := stEx }], coins := [coinEx],
    frozen := [{ height := 40, addr := 13, candKey := some 7, candId := 1, coin := 0, value := 101, moveTo := 0 }] }
private def oEx : Oracle := fun q => match q with
  | .saleReturn v r _ x => some (r * x / v)
  | _ => none
private def rByz (l : List Nat) : BeginReq := { height := 30, votes := [(70, true)], byz := l }

private def viewFrozen (r : M (State × List BEvent)) : List (Nat × Nat × Nat × Int) :=
  match r with
  | .ok (s', _) => s'.frozen.map (fun f => (f.height, f.addr, f.coin, f.value))
  | .error _ => []
private def viewPots (r : M (State × List BEvent)) : Int × List (Int × Int) :=
  match r with
  | .ok (s', _) => (s'.slashed, s'.coins.map (fun c => (c.volume, c.reserve)))
  | .error _ => (0, [])
private def viewStakes (r : M (State × List BEvent)) : List (Int × Bool) × List (List Int) :=
  match r with
  | .ok (s', _) => (s'.validators.map (fun v => (v.totalBip, v.toDrop)), s'.candidates.map (fun c => c.stakes.map (·.value)))
  | .error _ => ([], [])

example : viewFrozen (beginBlock {} oEx sByz (rByz [70]) false) = [(40, 13, 0, 95), (561, 11, 0, 950), (561, 12, 5, 949)] := by decide
example : viewPots (beginBlock {} oEx sByz (rByz [70]) false) = (6 + 50 + 25, [(99950, 49975)]) := by decide
example : viewStakes (beginBlock {} oEx sByz (rByz [70]) false) = ([(0, true)], [[0, 0]]) := by decide
-- a second evidence entry against the same validator in the same block changes nothing more
example : viewFrozen (beginBlock {} oEx sByz (rByz [70, 70]) false) = viewFrozen (beginBlock {} oEx sByz (rByz [70]) false) := by decide
example : viewPots (beginBlock {} oEx sByz (rByz [70, 70]) false) = viewPots (beginBlock {} oEx sByz (rByz [70]) false) := by decide
example : byzPunishedIds {} oEx 30 [70, 70] sByz = [1] := by decide

end Minter
