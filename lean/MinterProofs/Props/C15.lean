import MinterModel.Tx
import MinterProofs.TxLemmas
import MinterProofs.PoolMono
import Mathlib.Tactic.Linarith
import Mathlib.Tactic.Ring
/-
  C15 — Swaps and conversions honour the user's slippage limits; the result tags equal the amounts moved.

  Bancor conversions (all states, all oracle answers):
  * `sell_coin_spec`      validated SellCoin ⇒ the move sells exactly `ValueToSell`, credits `got ≥ MinimumValueToBuy`, `tx.return = got`;
  * `buy_coin_spec`       validated BuyCoin ⇒ the move credits exactly `ValueToBuy`, debits `pay ≤ MaximumValueToSell`, `tx.return = pay`;
  * `sell_all_coin_spec`  validated SellAllCoin ⇒ sells exactly `balance − commission` (commission in the coin sold), credits
                          `got ≥ MinimumValueToBuy`, `tx.sell_amount = balance`;
  * `bancor_move_balances` the balance changes of the bancor move are exactly `−sold` / `+bought` for the sender.
  Pool routes (pools without orders, up to five coins):
  * `routeSellCheck_min` / `routeBuyCheck_max`  the validation loop guarantees `≥ MinimumValueToBuy` / `≤ MaximumValueToSell` on the
                          reserves it looks at (the pool as simulated after the commission swap);
  * `routeSellExec_ge_check` / `routeBuyExec_le_check`  the deliver-time execution (real reserves after the commission swap) is at
                          least as good for the user as the validation whenever each hop's real reserves are `Better` than the
                          simulated ones (same output side, input side not larger; kernels monotone: `buyForSell_mono`, `sellForBuy_mono`);
  * `sim_eq_real`         after `payCommission` every pool IS what `simRes` simulated (exact since /repo a9a396f; before that fix the
                          simulation over-counted the input side by the 0.1 % burn when the gas coin was sold on the commission pool);
  * `C15_sell_pool`, `C15_buy_pool`, `C15_sell_all_pool`  the limits and the tags of the three route transactions, delivered level;
  * `C15_add_liquidity`, `C15_remove_liquidity`  AddLiquidity takes at most `MaximumVolume1` (an amount the balance was checked against),
                          RemoveLiquidity pays out at least the two minimums and its deliver-side panic site is dead (`remove_liquidity_exec_ok`).
-/
namespace Minter

/-! ### Bancor -/

/-- The sender's balance changes of a bancor move: exactly what was sold and what was bought. -/
theorem bancor_move_balances (a : Addr) (sell buy : Coin) (sellAmt buyAmt bip : Int) (hne : sell ≠ buy)
    (hs : sell = 0 → bip = sellAmt) (hb : buy = 0 → bip = buyAmt) :
    sumBal a buy (Move.bancor a sell sellAmt buy buyAmt bip).prims = buyAmt ∧
    sumBal a sell (Move.bancor a sell sellAmt buy buyAmt bip).prims = -sellAmt := by
  simp only [Move.prims, sumBal, sumBy_append]
  by_cases h1 : sell = 0 <;> by_cases h2 : buy = 0
  · exact absurd (h1.trans h2.symm) hne
  · have := hs h1
    subst h1
    simp [h2, sumBy, Prim.balDelta', hne, Ne.symm hne]
    omega
  · have := hb h2
    subst h2
    simp [h1, sumBy, Prim.balDelta', hne, Ne.symm hne]
    omega
  · simp [h1, h2, sumBy, Prim.balDelta', hne, Ne.symm hne]

theorem sellStep2_base (o : Oracle) (buy : Coin) (t : BView) (x bip got : Int)
    (h : sellStep2 o buy t x = .ok (.ok (bip, got))) : bip = x ∧ (buy = 0 → got = bip) := by
  unfold sellStep2 at h
  split at h
  · cases h; exact ⟨rfl, fun _ => rfl⟩
  · rename_i hb
    split at h
    · cases h
    · split at h
      · cases h
      · cases h; exact ⟨rfl, fun e => absurd (by simpa using e) hb⟩

theorem sellQuote_base (P : Params) (o : Oracle) (sell buy : Coin) (f t : BView) (value bip got : Int)
    (h : sellQuote P o sell buy f t value = .ok (.ok (bip, got))) : (sell = 0 → bip = value) ∧ (buy = 0 → got = bip) := by
  unfold sellQuote at h
  split at h
  · have := sellStep2_base _ _ _ _ _ _ h
    exact ⟨fun _ => this.1, this.2⟩
  · rename_i hs
    split at h
    · cases h
    · cases h
    · have := sellStep2_base _ _ _ _ _ _ h
      exact ⟨fun e => absurd (by simpa using e) hs, this.2⟩

theorem bancorBasic_ne (s : State) (sell buy : Coin) (h : bancorBasic s sell buy = none) : sell ≠ buy := by
  unfold bancorBasic at h
  repeat' (split at h)
  all_goals (first | (cases h; done) | skip)
  rename_i hne
  simpa using hne

/-- **C15 (SellCoin).** -/
theorem sell_coin_spec (P : Params) (o : Oracle) (s : State) (t : TxIn) (price : Int) (rd : Ready)
    (h : runSellCoin P o s t price = .ok (.ok rd)) :
    ∃ got bip, t.int "d.MinimumValueToBuy" ≤ got ∧ t.nat "d.CoinToSell" ≠ t.nat "d.CoinToBuy" ∧
      (t.nat "d.CoinToSell" = 0 → bip = t.int "d.ValueToSell") ∧ (t.nat "d.CoinToBuy" = 0 → got = bip) ∧
      rd.payer = t.sender ∧ rd.coin = t.gasCoin ∧
      ∀ adj, rd.exec adj = .ok ([.bancor t.sender (t.nat "d.CoinToSell") (t.int "d.ValueToSell") (t.nat "d.CoinToBuy") got bip],
                                [("tx.return", toString got), ("tx.reserve", toString bip)]) := by
  unfold runSellCoin at h
  simp only at h
  split at h
  · cases h
  rename_i hbasic
  obtain ⟨com, _, hk⟩ := withCom_ready _ _ _ _ _ _ _ h
  split at hk
  · cases hk
  split at hk
  · cases hk
  split at hk
  · cases hk
  · cases hk
  rename_i bip got hq
  split at hk
  · cases hk
  rename_i hmin
  obtain ⟨hp, hc, _, _, hex⟩ := ready_eq _ _ _ _ _ hk
  have hb := sellQuote_base _ _ _ _ _ _ _ _ _ hq
  exact ⟨got, bip, by omega, bancorBasic_ne _ _ _ hbasic, hb.1, hb.2, hp, hc, hex⟩

/-- **C15 (BuyCoin).** -/
theorem buy_coin_spec (P : Params) (o : Oracle) (s : State) (t : TxIn) (price : Int) (rd : Ready)
    (h : runBuyCoin P o s t price = .ok (.ok rd)) :
    ∃ pay bip, pay ≤ t.int "d.MaximumValueToSell" ∧ t.nat "d.CoinToSell" ≠ t.nat "d.CoinToBuy" ∧
      (t.nat "d.CoinToSell" = 0 → bip = pay) ∧ (t.nat "d.CoinToBuy" = 0 → bip = t.int "d.ValueToBuy") ∧
      rd.payer = t.sender ∧ rd.coin = t.gasCoin ∧
      ∀ adj, rd.exec adj = .ok ([.bancor t.sender (t.nat "d.CoinToSell") pay (t.nat "d.CoinToBuy") (t.int "d.ValueToBuy") bip],
                                [("tx.return", toString pay), ("tx.reserve", toString bip)]) := by
  unfold runBuyCoin at h
  simp only at h
  split at h
  · cases h
  rename_i hbasic
  obtain ⟨com, _, hk⟩ := withCom_ready _ _ _ _ _ _ _ h
  split at hk
  · cases hk
  · cases hk
  rename_i bip hstep1
  split at hk
  · cases hk
  · cases hk
  rename_i pay hstep2
  split at hk
  · cases hk
  rename_i hmax
  split at hk
  · cases hk
  split at hk
  · cases hk
  obtain ⟨hp, hc, _, _, hex⟩ := ready_eq _ _ _ _ _ hk
  refine ⟨pay, bip, by omega, bancorBasic_ne _ _ _ hbasic, ?_, ?_, hp, hc, hex⟩
  · intro hs
    unfold buyStep2 at hstep2
    have : (t.nat "d.CoinToSell" == 0) = true := by simpa using hs
    rw [if_pos this] at hstep2
    cases hstep2; rfl
  · intro hb
    unfold buyStep1 at hstep1
    have : (t.nat "d.CoinToBuy" == 0) = true := by simpa using hb
    rw [if_pos this] at hstep1
    cases hstep1; rfl

/-- **C15 (SellAllCoin).** The commission is paid in the coin sold; exactly `balance − commission` is sold. -/
theorem sell_all_coin_spec (P : Params) (o : Oracle) (s : State) (t : TxIn) (price : Int) (rd : Ready)
    (h : runSellAllCoin P o s t price = .ok (.ok rd)) :
    ∃ got bip, t.int "d.MinimumValueToBuy" ≤ got ∧ t.nat "d.CoinToSell" ≠ t.nat "d.CoinToBuy" ∧
      rd.payer = t.sender ∧ rd.coin = t.nat "d.CoinToSell" ∧ 0 < balanceOf s t.sender (t.nat "d.CoinToSell") - rd.com.commission ∧
      (t.nat "d.CoinToSell" = 0 → bip = balanceOf s t.sender (t.nat "d.CoinToSell") - rd.com.commission) ∧
      (t.nat "d.CoinToBuy" = 0 → got = bip) ∧
      ∀ adj, rd.exec adj = .ok ([.bancor t.sender (t.nat "d.CoinToSell") (balanceOf s t.sender (t.nat "d.CoinToSell") - rd.com.commission)
                                   (t.nat "d.CoinToBuy") got bip],
                                [("tx.return", toString got), ("tx.reserve", toString bip),
                                 ("tx.sell_amount", toString (balanceOf s t.sender (t.nat "d.CoinToSell")))]) := by
  unfold runSellAllCoin at h
  simp only at h
  split at h
  · cases h
  rename_i hbasic
  obtain ⟨com, _, hk⟩ := withCom_ready _ _ _ _ _ _ _ h
  split at hk
  · cases hk
  split at hk
  · cases hk
  rename_i hpos
  split at hk
  · cases hk
  · cases hk
  rename_i bip got hq
  split at hk
  · cases hk
  rename_i hmin
  cases hk
  have hb := sellQuote_base _ _ _ _ _ _ _ _ _ hq
  refine ⟨got, bip, by omega, bancorBasic_ne _ _ _ hbasic, rfl, rfl, ?_, hb.1, hb.2, fun _ => rfl⟩
  show 0 < balanceOf s t.sender (t.nat "d.CoinToSell") - com.commission
  omega

/-! ### Pool routes -/

/-- The real reserves of a hop (`real`, after the commission swap as executed) are at least as favourable to the trader as the
    reserves the validation looked at (`sim`): same output side, input side not larger. -/
def Better (real sim : Int × Int) : Prop := 0 < real.1 ∧ real.1 ≤ sim.1 ∧ real.2 = sim.2 ∧ 0 < sim.2

theorem bfs_val_pos (r0 r1 a x : Int) (h : bfsNoOrders r0 r1 a = .val x) (hx : 0 < x) : a ≠ 0 ∧ buyForSell r0 r1 a = some x := by
  unfold bfsNoOrders at h
  split at h
  · cases h; omega
  · rename_i ha
    split at h
    · cases h; omega
    · rename_i d hd
      split at h
      · cases h; exact ⟨ha, hd⟩
      · cases h

theorem sfb_val_pos (r0 r1 w x : Int) (h : sfbNoOrders r0 r1 w = .val x) (hx : 0 < x) : w ≠ 0 ∧ sellForBuy r0 r1 w = some x := by
  unfold sfbNoOrders at h
  split at h
  · cases h; omega
  · rename_i hw
    split at h
    · split at h
      · cases h
      · cases h; omega
    · rename_i d hd
      split at h
      · cases h; exact ⟨hw, hd⟩
      · cases h

/-- One sell hop: the execution on better reserves with at least the validated input gives at least the validated output. -/
theorem hop_sell_mono (r r' : Int × Int) (hb : Better r' r) (v v' x out : Int) (hv : 0 < v) (hvv : v ≤ v')
    (hc : quoteBuyForSell r.1 r.2 v = .val x) (hx : 0 < x)
    (he : bfsNoOrders r'.1 r'.2 (v' - com1000 v') = .val out) (ho : 0 < out) : x ≤ out := by
  unfold quoteBuyForSell at hc
  simp only [hv, if_true] at hc
  obtain ⟨ha, hbs⟩ := bfs_val_pos _ _ _ _ hc hx
  obtain ⟨ha', hbs'⟩ := bfs_val_pos _ _ _ _ he ho
  obtain ⟨h1, h2, h3, h4⟩ := hb
  have hn := com1000_bounds v (by omega)
  have hnm := net_mono v v' (by omega) hvv
  rw [h3] at hbs'
  exact buyForSell_mono r.1 r'.1 r.2 _ _ x out h1 h2 h4 (by omega) hnm hbs hbs'

/-- The validation loop of a sell route ends with at least `MinimumValueToBuy`. -/
theorem routeSellCheck_min (s : State) (gas : Coin) (com : Com) (minBuy : Int) :
    ∀ (rest : List Coin) (a : Coin) (v : Int) (used : List Nat) (x : Int), rest ≠ [] →
      routeSellCheck s gas com minBuy a rest v used = .ok (.ok x) → minBuy ≤ x ∧ 0 < x := by
  intro rest
  induction rest with
  | nil => intro a v used x hne; exact absurd rfl hne
  | cons b rest ih =>
    intro a v used x _ h
    unfold routeSellCheck at h
    simp only at h
    split at h
    · cases h
    split at h
    · cases h
    split at h
    · cases h
    rename_i r0 r1 _
    split at h
    · cases h
    · cases h
    rename_i x1 hq
    split at h
    · cases h
    rename_i hx1
    cases rest with
    | nil =>
      unfold routeSellCheck at h
      cases h
      -- the last hop was checked against the minimum
      unfold checkSwapQuote at hq
      simp only [Bool.false_eq_true, if_false, List.isEmpty_nil, if_true] at hq
      split at hq
      · cases hq
      · cases hq
      · rename_i y _
        by_cases hy : y < (if minBuy = 0 then 1 else minBuy)
        · simp only [hy, if_true] at hq; cases hq
        · simp only [hy, if_false] at hq
          cases hq
          constructor
          · split at hy <;> omega
          · omega
    | cons c rest' => exact ih b x1 _ x (by simp) h

/-- **C15 (sell route, execution vs validation).** If every hop's real reserves are `Better` than the simulated ones and the
    execution starts with at least the validated amount, it ends with at least the validated result. -/
theorem routeSellExec_ge_check (s : State) (gas : Coin) (com : Com) (minBuy : Int) (adj : Option PoolAdj) (who : Addr)
    (H : ∀ a b r, simRes s gas com a b = .ok r → ∃ r', poolResAdj s adj a b = some r' ∧ Better r' r) :
    ∀ (rest : List Coin) (a : Coin) (v v' : Int) (used : List Nat) (x : Int) (ms : List Move) (out : Int),
      0 < v → v ≤ v' → routeSellCheck s gas com minBuy a rest v used = .ok (.ok x) →
      routeSellExec s adj who a rest v' = .ok (ms, out) → x ≤ out := by
  intro rest
  induction rest with
  | nil =>
    intro a v v' used x ms out _ hvv hc he
    unfold routeSellCheck at hc; unfold routeSellExec at he
    cases hc; cases he; exact hvv
  | cons b rest ih =>
    intro a v v' used x ms out hv hvv hc he
    unfold routeSellCheck at hc
    simp only at hc
    split at hc
    · cases hc
    split at hc
    · cases hc
    split at hc
    · cases hc
    rename_i r0 r1 hsim
    split at hc
    · cases hc
    · cases hc
    rename_i x1 hq
    split at hc
    · cases hc
    rename_i hx1
    unfold routeSellExec at he
    split at he
    · cases he
    rename_i mv out1 j hmove
    split at he
    · cases he
    rename_i ms' fin hrec
    cases he
    -- the hop
    obtain ⟨r', hr', hbetter⟩ := H a b (r0, r1) hsim
    have hx1' : 0 < x1 := by omega
    have hhop : x1 ≤ out1 := by
      -- validation side
      have hcq : quoteBuyForSell r0 r1 v = .val x1 := by
        unfold checkSwapQuote at hq
        simp only [Bool.false_eq_true, if_false] at hq
        split at hq
        · cases hq
        · cases hq
        · rename_i y hy
          by_cases hyy : y < (if (if rest.isEmpty = true then minBuy else 0) = 0 then 1 else (if rest.isEmpty = true then minBuy else 0))
          · simp only [hyy, if_true] at hq; cases hq
          · simp only [hyy, if_false] at hq; cases hq; exact hy
      -- execution side
      unfold pairSellMove at hmove
      rw [hr'] at hmove
      simp only at hmove
      split at hmove
      · cases hmove
      split at hmove
      · cases hmove
      split at hmove
      · cases hmove
      split at hmove
      · cases hmove
      · cases hmove
      rename_i o' hbfs
      split at hmove
      · cases hmove
      rename_i ho'
      split at hmove
      · cases hmove
      have hout : out1 = o' := by
        split at hmove <;> (cases hmove; rfl)
      subst hout
      exact hop_sell_mono (r0, r1) r' hbetter v v' x1 out1 hv hvv hcq hx1' hbfs (by omega)
    exact ih b x1 out1 _ x ms' out hx1' hhop hc hrec

/-! ### The real pool after the commission swap is `Better` than the simulated one -/

/-- Pools are stored in sorted orientation with positive reserves (part of the C02 invariant). -/
def PoolsOk (s : State) : Prop := ∀ p ∈ s.pools, p.c0 < p.c1 ∧ 0 < p.r0 ∧ 0 < p.r1

theorem getPool_mem (s : State) (a b : Coin) (p : Pool) (h : getPool s a b = some p) : p ∈ s.pools ∧ p.c0 = a ∧ p.c1 = b := by
  unfold getPool at h
  obtain ⟨hm, hp⟩ := findFirst_mem _ _ _ h
  simp only [Bool.and_eq_true, beq_iff_eq] at hp
  exact ⟨hm, hp.1, hp.2⟩

theorem poolRes_pos (s : State) (hok : PoolsOk s) (a b : Coin) (x y : Int) (h : poolRes s a b = some (x, y)) : 0 < x ∧ 0 < y := by
  unfold poolRes at h
  split at h
  · rename_i p hp
    cases h
    have := hok p (getPool_mem s a b p hp).1
    exact ⟨this.2.1, this.2.2⟩
  · split at h
    · rename_i p hp
      cases h
      have := hok p (getPool_mem s b a p hp).1
      exact ⟨this.2.2, this.2.1⟩
    · cases h

theorem poolRes_flip (s : State) (hok : PoolsOk s) (a b : Coin) (x y : Int) (h : poolRes s a b = some (x, y)) :
    poolRes s b a = some (y, x) := by
  unfold poolRes at h ⊢
  cases h1 : getPool s a b with
  | some p =>
    rw [h1] at h
    cases h
    have hp := getPool_mem s a b p h1
    have hlt := (hok p hp.1).1
    cases h2 : getPool s b a with
    | some q =>
      have hq := getPool_mem s b a q h2
      have hlt' := (hok q hq.1).1
      omega
    | none => rfl
  | none =>
    rw [h1] at h
    simp only at h
    cases h2 : getPool s b a with
    | some q => rw [h2] at h; cases h; rfl
    | none => rw [h2] at h; cases h

theorem poolRes_ne (s : State) (hok : PoolsOk s) (a b : Coin) (r : Int × Int) (h : poolRes s a b = some r) : a ≠ b := by
  intro e
  subst e
  unfold poolRes at h
  cases h1 : getPool s a a with
  | some p =>
    have hp := getPool_mem s a a p h1
    have := (hok p hp.1).1
    omega
  | none => rw [h1] at h; cases h

/-- **Simulation = execution.** After the commission was really paid (`payCommission`), every pool is exactly what the validation
    simulated with `simRes` (untouched pools trivially; the commission pool because the simulation applies the same net input and the
    same output as `PairSellWithOrders`), and its reserves are positive. -/
theorem sim_eq_real (s : State) (hok : PoolsOk s) (payer : Addr) (gas : Coin) (com : Com) (minOut : Int) (paid : Paid)
    (hpay : payCommission s payer gas com minOut = .ok paid) (a b : Coin) (r : Int × Int)
    (hsim : simRes s gas com a b = .ok r) : poolResAdj s paid.adj a b = some r ∧ 0 < r.1 ∧ 0 < r.2 := by
  unfold simRes at hsim
  cases hp : poolRes s a b with
  | none => rw [hp] at hsim; cases hsim
  | some rr =>
    obtain ⟨ra, rb⟩ := rr
    rw [hp] at hsim
    simp only at hsim
    have hpos := poolRes_pos s hok a b ra rb hp
    obtain ⟨_, hshape⟩ := payCommission_shape s payer gas com minOut paid hpay
    by_cases hcp : isComPool gas com a b = true
    · -- the commission pool
      simp only [hcp, Bool.not_true, Bool.false_eq_true, if_false] at hsim
      unfold isComPool at hcp
      simp only [Bool.and_eq_true, Bool.or_eq_true, beq_iff_eq] at hcp
      obtain ⟨hf, hab⟩ := hcp
      rcases hshape with ⟨_, mv, out, j, hm, _, _, hadj⟩ | ⟨hf', _⟩ | ⟨hf', _⟩
      · obtain ⟨hC, hout, _, hnet, _, hj, hord, r0, r1, hres, hbfs⟩ := pairSellMove_shape _ _ _ _ _ _ _ _ _ _ _ _ hm
        have hres' : poolRes s gas 0 = some (r0, r1) := by
          unfold poolResAdj at hres
          split at hres
          · cases hres
          · rename_i rx ry hpr
            simp only at hres
            cases hres; exact hpr
        have hpos' := poolRes_pos s hok gas 0 r0 r1 hres'
        have hbs := (bfs_val_pos _ _ _ _ hbfs hout).2
        have hK := buyForSell_K r0 r1 _ out hpos'.1 hpos'.2 hnet hbs
        have hq : quoteBuyForSell r0 r1 com.commission = .val out := by
          unfold quoteBuyForSell
          simp only [hC, if_true]
          exact hbfs
        rw [hadj, hj]
        split at hsim
        · cases hsim
        rcases hab with ⟨ha, hb0⟩ | ⟨ha0, hbg⟩
        · -- selling the gas coin on the commission pool
          subst ha; subst hb0
          rw [hres'] at hp; cases hp
          simp only [beq_self_eq_true, if_true, hC] at hsim
          rw [hq] at hsim
          simp only at hsim
          split at hsim
          · cases hsim
          all_goals (
            cases hsim
            refine ⟨?_, by simp only; omega, by simp only; omega⟩
            unfold poolResAdj; rw [hres']; simp
            all_goals omega)
        · -- buying the gas coin on the commission pool
          subst ha0; subst hbg
          have hflip := poolRes_flip s hok 0 b ra rb hp
          rw [hres'] at hflip; cases hflip
          have hg0 : ¬ (b = 0) := fun e => poolRes_ne s hok 0 b _ hp e.symm
          have hne : (0 == b) = false := by simpa using (fun e : 0 = b => hg0 e.symm)
          simp only [hne, Bool.false_eq_true, if_false, hC, if_true] at hsim
          rw [hq] at hsim
          simp only at hsim
          split at hsim
          · cases hsim
          all_goals (
            cases hsim
            refine ⟨?_, by simp only; omega, by simp only; omega⟩
            unfold poolResAdj; rw [hp]; simp [hg0, hne]
            all_goals omega)
      · rw [hf] at hf'; cases hf'
      · rw [hf] at hf'; cases hf'
    · -- any other pool: untouched by the commission
      have hcp' : isComPool gas com a b = false := by simpa using hcp
      simp only [hcp', Bool.not_false, if_true] at hsim
      cases hsim
      refine ⟨?_, hpos.1, hpos.2⟩
      unfold poolResAdj
      rw [hp]
      simp only
      rcases hshape with ⟨hf, mv, out, j, hm, _, _, hadj⟩ | ⟨_, _, _, _, hadj⟩ | ⟨_, _, _, _, _, hadj⟩
      · obtain ⟨_, _, _, _, _, hj, _⟩ := pairSellMove_shape _ _ _ _ _ _ _ _ _ _ _ _ hm
        rw [hadj, hj]
        simp only
        unfold isComPool at hcp'
        rw [hf] at hcp'
        simp only [Bool.true_and, Bool.or_eq_false_iff, Bool.and_eq_false_iff, beq_eq_false_iff_ne, ne_eq] at hcp'
        have c1 : ¬ ((gas == a && (0 : Nat) == b) = true) := by
          simp only [Bool.and_eq_true, beq_iff_eq, not_and]
          intro e1 e2
          rcases hcp'.1 with h | h
          · exact h e1.symm
          · exact h e2.symm
        have c2 : ¬ ((gas == b && (0 : Nat) == a) = true) := by
          simp only [Bool.and_eq_true, beq_iff_eq, not_and]
          intro e1 e2
          rcases hcp'.2 with h | h
          · exact h e2.symm
          · exact h e1.symm
        simp [c1, c2]
      · rw [hadj]
      · rw [hadj]

/-- The same in the form the route theorems use. -/
theorem sim_vs_real (s : State) (hok : PoolsOk s) (payer : Addr) (gas : Coin) (com : Com) (minOut : Int) (paid : Paid)
    (hpay : payCommission s payer gas com minOut = .ok paid) (a b : Coin) (r : Int × Int)
    (hsim : simRes s gas com a b = .ok r) : ∃ r', poolResAdj s paid.adj a b = some r' ∧ Better r' r := by
  obtain ⟨h1, h2, h3⟩ := sim_eq_real s hok payer gas com minOut paid hpay a b r hsim
  exact ⟨r, h1, h2, Int.le_refl _, rfl, h3⟩

/-! ### Buy routes -/

/-- One buy hop: on better reserves, wanting at most the validated amount costs at most the validated price. -/
theorem hop_buy_mono (r r' : Int × Int) (hb : Better r' r) (w w' x net' : Int) (hw : 0 < w') (hww : w' ≤ w)
    (hc : quoteSellForBuy r.1 r.2 w = .val x) (hx : 0 < x)
    (he : sfbNoOrders r'.1 r'.2 w' = .val net') (hn : 0 < net') : net' + com0999 net' ≤ x := by
  unfold quoteSellForBuy at hc
  split at hc
  · rename_i y hy
    split at hc
    · rename_i hy0
      cases hc
      obtain ⟨_, hs⟩ := sfb_val_pos _ _ _ _ hy hy0
      obtain ⟨_, hs'⟩ := sfb_val_pos _ _ _ _ he hn
      obtain ⟨h1, h2, h3, h4⟩ := hb
      rw [h3] at hs'
      have := sellForBuy_mono r.1 r'.1 r.2 w w' y net' h1 h2 h4 hw hww hs hs'
      exact gross_mono net' y (by omega) this
    · cases hc; omega
  · rename_i hq
    exact absurd hc (hq x)

/-- The validation loop of a buy route ends with at most `MaximumValueToSell`. -/
theorem routeBuyCheck_max (P : Params) (s : State) (gas : Coin) (com : Com) (maxSell : Int) :
    ∀ (rest : List Coin) (b : Coin) (w : Int) (used : List Nat) (x : Int), rest ≠ [] →
      routeBuyCheck P s gas com maxSell b rest w used = .ok (.ok x) → x ≤ maxSell ∧ 0 < x := by
  intro rest
  induction rest with
  | nil => intro b w used x hne; exact absurd rfl hne
  | cons a rest ih =>
    intro b w used x _ h
    unfold routeBuyCheck at h
    simp only at h
    split at h
    · cases h
    split at h
    · cases h
    split at h
    · cases h
    rename_i r0 r1 _
    split at h
    · cases h
    · cases h
    rename_i x1 hq
    split at h
    · cases h
    rename_i hx1
    cases rest with
    | nil =>
      unfold routeBuyCheck at h
      cases h
      unfold checkSwapQuote at hq
      simp only [if_true, List.isEmpty_nil] at hq
      split at hq
      · cases hq
      · cases hq
      · rename_i y _
        by_cases hyy : y > maxSell
        · simp only [hyy, if_true] at hq; cases hq
        · simp only [hyy, if_false] at hq; cases hq; constructor <;> omega
    | cons c rest' => exact ih a x1 _ x (by simp) h

/-- **C15 (buy route, execution vs validation).** -/
theorem routeBuyExec_le_check (P : Params) (s : State) (gas : Coin) (com : Com) (maxSell : Int) (adj : Option PoolAdj) (who : Addr)
    (H : ∀ a b r, simRes s gas com a b = .ok r → ∃ r', poolResAdj s adj a b = some r' ∧ Better r' r) :
    ∀ (rest : List Coin) (b : Coin) (w w' : Int) (used : List Nat) (x : Int) (ms : List Move) (paid : Int),
      0 < w' → w' ≤ w → routeBuyCheck P s gas com maxSell b rest w used = .ok (.ok x) →
      routeBuyExec P s adj who b rest w' = .ok (ms, paid) → paid ≤ x := by
  intro rest
  induction rest with
  | nil =>
    intro b w w' used x ms paid _ hww hc he
    unfold routeBuyCheck at hc; unfold routeBuyExec at he
    cases hc; cases he; exact hww
  | cons a rest ih =>
    intro b w w' used x ms paid hw hww hc he
    unfold routeBuyCheck at hc
    simp only at hc
    split at hc
    · cases hc
    split at hc
    · cases hc
    split at hc
    · cases hc
    rename_i r0 r1 hsim
    split at hc
    · cases hc
    · cases hc
    rename_i x1 hq
    split at hc
    · cases hc
    rename_i hx1
    unfold routeBuyExec at he
    split at he
    · cases he
    rename_i mv gross1 j hmove
    split at he
    · cases he
    rename_i ms' fin hrec
    cases he
    obtain ⟨r', hr', hbetter⟩ := H a b (r0, r1) hsim
    have hx1' : 0 < x1 := by omega
    have hcq : quoteSellForBuy r0 r1 w = .val x1 := by
      unfold checkSwapQuote at hq
      simp only [if_true] at hq
      split at hq
      · cases hq
      · cases hq
      · rename_i y hy
        by_cases hyy : y > (if rest.isEmpty = true then maxSell else P.maxSupply)
        · simp only [hyy, if_true] at hq; cases hq
        · simp only [hyy, if_false] at hq; cases hq; exact hy
    -- execution side
    unfold pairBuyMove at hmove
    rw [hr'] at hmove
    simp only at hmove
    split at hmove
    · cases hmove
    split at hmove
    · cases hmove
    split at hmove
    · cases hmove
    · cases hmove
    rename_i net' hsfb
    split at hmove
    · cases hmove
    rename_i hnet
    split at hmove
    · cases hmove
    split at hmove
    · cases hmove
    have hg : gross1 = net' + com0999 net' := by
      split at hmove <;> (cases hmove; rfl)
    have hhop : gross1 ≤ x1 := by
      rw [hg]
      exact hop_buy_mono (r0, r1) r' hbetter w w' x1 net' hw hww hcq hx1' hsfb (by omega)
    have hgpos : 0 < gross1 := by
      have := com0999_eq net' (by omega)
      rw [hg, this]
      have : 0 ≤ net' / 999 := Int.ediv_nonneg (by omega) (by norm_num)
      split <;> omega
    exact ih a x1 gross1 _ x ms' paid hgpos hhop hc hrec

/-! ### The three route transactions -/

theorem routeBasic_tail (s : State) (coins : List Coin) (h : routeBasic s coins = none) : coins.tail ≠ [] := by
  unfold routeBasic at h
  split at h
  · cases h
  · rename_i hl
    intro ht
    cases coins with
    | nil => simp at hl
    | cons a t => simp only [List.tail_cons] at ht; subst ht; simp at hl

/-- The first hop of an executed sell route sold a positive amount. -/
theorem routeSellExec_pos (s : State) (adj : Option PoolAdj) (who : Addr) (a : Coin) (rest : List Coin) (v : Int) (ms : List Move) (out : Int)
    (hne : rest ≠ []) (h : routeSellExec s adj who a rest v = .ok (ms, out)) : 0 < v := by
  cases rest with
  | nil => exact absurd rfl hne
  | cons b t =>
    unfold routeSellExec at h
    split at h
    · cases h
    · rename_i mv o j hm
      exact (pairSellMove_shape _ _ _ _ _ _ _ _ _ _ _ _ hm).1

theorem routeBuyExec_pos (P : Params) (s : State) (adj : Option PoolAdj) (who : Addr) (b : Coin) (rest : List Coin) (w : Int) (ms : List Move) (paid : Int)
    (hne : rest ≠ []) (h : routeBuyExec P s adj who b rest w = .ok (ms, paid)) : 0 < w := by
  cases rest with
  | nil => exact absurd rfl hne
  | cons a t =>
    unfold routeBuyExec at h
    split at h
    · cases h
    · rename_i mv g j hm
      unfold pairBuyMove at hm
      split at hm
      · cases hm
      · simp only at hm
        split at hm
        · cases hm
        · split at hm
          · cases hm
          · omega

/-- Validated SellSwapPool: what was checked and what will be executed. -/
theorem sell_pool_spec (P : Params) (o : Oracle) (s : State) (t : TxIn) (price : Int) (rd : Ready)
    (h : runSellPool P o s t price = .ok (.ok rd)) :
    let coins := coinList (t.str "d.Coins")
    ∃ com x, routeBasic s coins = none ∧
      routeSellCheck s t.gasCoin com (t.int "d.MinimumValueToBuy") (coins.headD 0) coins.tail (t.int "d.ValueToSell") [] = .ok (.ok x) ∧
      rd.payer = t.sender ∧ rd.coin = t.gasCoin ∧ rd.com = com ∧ rd.minOut = 0 ∧
      ∀ adj, rd.exec adj = (match routeSellExec s adj t.sender (coins.headD 0) coins.tail (t.int "d.ValueToSell") with
                            | .error e => throw e
                            | .ok (ms, out) => pure (ms, [("tx.return", toString out)])) := by
  unfold runSellPool at h
  simp only at h
  split at h
  · cases h
  rename_i hbasic
  obtain ⟨com, _, hk⟩ := withCom_ready _ _ _ _ _ _ _ h
  split at hk
  · cases hk
  · cases hk
  rename_i x hcheck
  split at hk
  · cases hk
  split at hk
  · cases hk
  cases hk
  exact ⟨com, x, hbasic, hcheck, rfl, rfl, rfl, rfl, fun _ => rfl⟩

/-- Validated SellAllSwapPool. -/
theorem sell_all_pool_spec (P : Params) (o : Oracle) (s : State) (t : TxIn) (price : Int) (rd : Ready)
    (h : runSellAllPool P o s t price = .ok (.ok rd)) :
    let coins := coinList (t.str "d.Coins")
    let first := coins.headD 0
    ∃ com x, routeBasic s coins = none ∧ 0 < balanceOf s t.sender first - com.commission ∧
      routeSellCheck s first com (t.int "d.MinimumValueToBuy") first coins.tail (balanceOf s t.sender first - com.commission) [] = .ok (.ok x) ∧
      rd.payer = t.sender ∧ rd.coin = first ∧ rd.com = com ∧ rd.minOut = 0 ∧
      ∀ adj, rd.exec adj = (match routeSellExec s adj t.sender first coins.tail (balanceOf s t.sender first - com.commission) with
                            | .error e => throw e
                            | .ok (ms, out) => pure (ms, [("tx.return", toString out), ("tx.sell_amount", toString (balanceOf s t.sender first))])) := by
  unfold runSellAllPool at h
  simp only at h
  split at h
  · cases h
  rename_i hbasic
  obtain ⟨com, _, hk⟩ := withCom_ready _ _ _ _ _ _ _ h
  split at hk
  · cases hk
  rename_i hpos
  split at hk
  · cases hk
  · cases hk
  rename_i x hcheck
  cases hk
  exact ⟨com, x, hbasic, by omega, hcheck, rfl, rfl, rfl, rfl, fun _ => rfl⟩

/-- Validated BuySwapPool. -/
theorem buy_pool_spec (P : Params) (o : Oracle) (s : State) (t : TxIn) (price : Int) (rd : Ready)
    (h : runBuyPool P o s t price = .ok (.ok rd)) :
    let coins := coinList (t.str "d.Coins")
    ∃ com x, routeBasic s coins = none ∧
      routeBuyCheck P s t.gasCoin com (t.int "d.MaximumValueToSell") (coins.reverse.headD 0) coins.reverse.tail (t.int "d.ValueToBuy") [] = .ok (.ok x) ∧
      rd.payer = t.sender ∧ rd.coin = t.gasCoin ∧ rd.com = com ∧ rd.minOut = 0 ∧
      ∀ adj, rd.exec adj = (match routeBuyExec P s adj t.sender (coins.reverse.headD 0) coins.reverse.tail (t.int "d.ValueToBuy") with
                            | .error e => throw e
                            | .ok (ms, paid) => pure (ms, [("tx.return", toString paid)])) := by
  unfold runBuyPool at h
  simp only at h
  split at h
  · cases h
  rename_i hbasic
  obtain ⟨com, _, hk⟩ := withCom_ready _ _ _ _ _ _ _ h
  split at hk
  · cases hk
  · cases hk
  rename_i x hcheck
  split at hk
  · cases hk
  split at hk
  · cases hk
  cases hk
  exact ⟨com, x, hbasic, hcheck, rfl, rfl, rfl, rfl, fun _ => rfl⟩

theorem runData_typ (P : Params) (o : Oracle) (s : State) (b : Nat) (t : TxIn) (price : Int) :
    (t.typ = 23 → runData P o s b t price = runSellPool P o s t price) ∧
    (t.typ = 24 → runData P o s b t price = runBuyPool P o s t price) ∧
    (t.typ = 25 → runData P o s b t price = runSellAllPool P o s t price) ∧
    (t.typ = 2 → runData P o s b t price = runSellCoin P o s t price) ∧
    (t.typ = 3 → runData P o s b t price = runSellAllCoin P o s t price) ∧
    (t.typ = 4 → runData P o s b t price = runBuyCoin P o s t price) := by
  refine ⟨?_, ?_, ?_, ?_, ?_, ?_⟩ <;> (intro h; unfold runData; rw [h]; rfl)

theorem reverse_tail_ne (coins : List Coin) (h : coins.tail ≠ []) : coins.reverse.tail ≠ [] := by
  cases coins with
  | nil => exact absurd rfl h
  | cons a t =>
    cases t with
    | nil => exact absurd rfl h
    | cons b t' =>
      intro e
      have : (a :: b :: t').reverse.length = t'.length + 2 := by simp
      have h2 : (a :: b :: t').reverse.tail.length = t'.length + 1 := by simp
      rw [e] at h2; simp at h2

/-- **C15 (SellSwapPool, delivered).** An accepted sell over a pool route credits at least `MinimumValueToBuy` — also when the commission
    swap moved a pool of the route — and `tx.return` is exactly the amount the last hop paid out. -/
theorem C15_sell_pool (P : Params) (o : Oracle) (s : State) (b : Nat) (t : TxIn) (out : Outcome) (hok : PoolsOk s)
    (ht : t.typ = 23) (h : deliverTx P o s b t = .ok out) (h0 : out.code = 0) :
    ∃ adj ms ret, routeSellExec s adj t.sender ((coinList (t.str "d.Coins")).headD 0) (coinList (t.str "d.Coins")).tail (t.int "d.ValueToSell") = .ok (ms, ret) ∧
      t.int "d.MinimumValueToBuy" ≤ ret ∧ ("tx.return", toString ret) ∈ out.tags ∧ ∀ m ∈ ms, m ∈ out.moves := by
  obtain ⟨_, price, rd, r, _, hr, hx, hs⟩ := deliver_accepted P o s b t out h h0
  rw [(runData_typ P o s b t price).1 ht] at hr
  obtain ⟨com, x, hbasic, hcheck, hp, hc, hcm, hmin, hexec⟩ := sell_pool_spec P o s t price rd hr
  obtain ⟨paid, body, tags, hpay, he, _, hmoves, htags⟩ := execReady_ok s rd r hx
  rw [hp, hc, hcm, hmin] at hpay
  rw [hexec] at he
  cases hre : routeSellExec s paid.adj t.sender ((coinList (t.str "d.Coins")).headD 0) (coinList (t.str "d.Coins")).tail (t.int "d.ValueToSell") with
  | error e => rw [hre] at he; cases he
  | ok v =>
    obtain ⟨ms, ret⟩ := v
    rw [hre] at he
    injection he with he
    injection he with he1 he2
    subst he1
    subst he2
    have htl := routeBasic_tail s _ hbasic
    have hv := routeSellExec_pos s paid.adj t.sender _ _ _ ms ret htl hre
    have H := sim_vs_real s hok t.sender t.gasCoin com 0 paid hpay
    have h1 := routeSellCheck_min s t.gasCoin com _ _ _ _ _ x htl hcheck
    have h2 := routeSellExec_ge_check s t.gasCoin com _ paid.adj t.sender H _ _ _ _ _ x ms ret hv (Int.le_refl _) hcheck hre
    obtain ⟨burn, btags, _, _, hm, htg⟩ := successOutcome_burn s t r out hs
    refine ⟨paid.adj, ms, ret, hre, by omega, ?_, ?_⟩
    · rw [htg, htags]; simp
    · intro m hm'
      rw [hm, successMoves, hmoves]
      simp [hm']

/-- **C15 (SellAllSwapPool, delivered).** Sells exactly `balance − commission` of the first coin (the commission is paid in it),
    credits at least `MinimumValueToBuy`; `tx.sell_amount` is the whole balance, `tx.return` the amount paid out. -/
theorem C15_sell_all_pool (P : Params) (o : Oracle) (s : State) (b : Nat) (t : TxIn) (out : Outcome) (hok : PoolsOk s)
    (ht : t.typ = 25) (h : deliverTx P o s b t = .ok out) (h0 : out.code = 0) :
    ∃ com paid ms ret, payCommission s t.sender ((coinList (t.str "d.Coins")).headD 0) com 0 = .ok paid ∧ paid.amount = com.commission ∧
      routeSellExec s paid.adj t.sender ((coinList (t.str "d.Coins")).headD 0) (coinList (t.str "d.Coins")).tail
        (balanceOf s t.sender ((coinList (t.str "d.Coins")).headD 0) - com.commission) = .ok (ms, ret) ∧
      t.int "d.MinimumValueToBuy" ≤ ret ∧ ("tx.return", toString ret) ∈ out.tags ∧
      ("tx.sell_amount", toString (balanceOf s t.sender ((coinList (t.str "d.Coins")).headD 0))) ∈ out.tags ∧ ∀ m ∈ ms, m ∈ out.moves := by
  obtain ⟨_, price, rd, r, _, hr, hx, hs⟩ := deliver_accepted P o s b t out h h0
  rw [(runData_typ P o s b t price).2.2.1 ht] at hr
  obtain ⟨com, x, hbasic, hpos, hcheck, hp, hc, hcm, hmin, hexec⟩ := sell_all_pool_spec P o s t price rd hr
  obtain ⟨paid, body, tags, hpay, he, _, hmoves, htags⟩ := execReady_ok s rd r hx
  rw [hp, hc, hcm, hmin] at hpay
  rw [hexec] at he
  cases hre : routeSellExec s paid.adj t.sender ((coinList (t.str "d.Coins")).headD 0) (coinList (t.str "d.Coins")).tail
      (balanceOf s t.sender ((coinList (t.str "d.Coins")).headD 0) - com.commission) with
  | error e => rw [hre] at he; cases he
  | ok v =>
    obtain ⟨ms, ret⟩ := v
    rw [hre] at he
    injection he with he
    injection he with he1 he2
    subst he1
    subst he2
    have htl := routeBasic_tail s _ hbasic
    have H := sim_vs_real s hok t.sender _ com 0 paid hpay
    have h1 := routeSellCheck_min s _ com _ _ _ _ _ x htl hcheck
    have h2 := routeSellExec_ge_check s _ com _ paid.adj t.sender H _ _ _ _ _ x ms ret hpos (Int.le_refl _) hcheck hre
    obtain ⟨burn, btags, _, _, hm, htg⟩ := successOutcome_burn s t r out hs
    refine ⟨com, paid, ms, ret, hpay, (payCommission_shape _ _ _ _ _ _ hpay).1, hre, by omega, ?_, ?_, ?_⟩
    · rw [htg, htags]; simp
    · rw [htg, htags]; simp
    · intro m hm'
      rw [hm, successMoves, hmoves]
      simp [hm']

/-- **C15 (BuySwapPool, delivered).** An accepted buy over a pool route debits at most `MaximumValueToSell` — also when the commission
    swap moved a pool of the route — and `tx.return` is exactly the amount debited. -/
theorem C15_buy_pool (P : Params) (o : Oracle) (s : State) (b : Nat) (t : TxIn) (out : Outcome) (hok : PoolsOk s)
    (ht : t.typ = 24) (h : deliverTx P o s b t = .ok out) (h0 : out.code = 0) :
    ∃ adj ms paid, routeBuyExec P s adj t.sender ((coinList (t.str "d.Coins")).reverse.headD 0) (coinList (t.str "d.Coins")).reverse.tail (t.int "d.ValueToBuy") = .ok (ms, paid) ∧
      paid ≤ t.int "d.MaximumValueToSell" ∧ ("tx.return", toString paid) ∈ out.tags ∧ ∀ m ∈ ms, m ∈ out.moves := by
  obtain ⟨_, price, rd, r, _, hr, hx, hs⟩ := deliver_accepted P o s b t out h h0
  rw [(runData_typ P o s b t price).2.1 ht] at hr
  obtain ⟨com, x, hbasic, hcheck, hp, hc, hcm, hmin, hexec⟩ := buy_pool_spec P o s t price rd hr
  obtain ⟨pd, body, tags, hpay, he, _, hmoves, htags⟩ := execReady_ok s rd r hx
  rw [hp, hc, hcm, hmin] at hpay
  rw [hexec] at he
  cases hre : routeBuyExec P s pd.adj t.sender ((coinList (t.str "d.Coins")).reverse.headD 0) (coinList (t.str "d.Coins")).reverse.tail (t.int "d.ValueToBuy") with
  | error e => rw [hre] at he; cases he
  | ok v =>
    obtain ⟨ms, paid⟩ := v
    rw [hre] at he
    injection he with he
    injection he with he1 he2
    subst he1
    subst he2
    have htl := reverse_tail_ne _ (routeBasic_tail s _ hbasic)
    have hw := routeBuyExec_pos P s pd.adj t.sender _ _ _ ms paid htl hre
    have H := sim_vs_real s hok t.sender t.gasCoin com 0 pd hpay
    have h1 := routeBuyCheck_max P s t.gasCoin com _ _ _ _ _ x htl hcheck
    have h2 := routeBuyExec_le_check P s t.gasCoin com _ pd.adj t.sender H _ _ _ _ _ x ms paid hw (Int.le_refl _) hcheck hre
    obtain ⟨burn, btags, _, _, hm, htg⟩ := successOutcome_burn s t r out hs
    refine ⟨pd.adj, ms, paid, hre, by omega, ?_, ?_⟩
    · rw [htg, htags]; simp
    · intro m hm'
      rw [hm, successMoves, hmoves]
      simp [hm']

/-- **C15 (SellCoin, delivered).** An accepted bancor sale sells exactly `ValueToSell` and credits `ret ≥ MinimumValueToBuy`;
    `tx.return = ret` is the amount credited by the move. -/
theorem C15_sell_coin (P : Params) (o : Oracle) (s : State) (b : Nat) (t : TxIn) (out : Outcome)
    (ht : t.typ = 2) (h : deliverTx P o s b t = .ok out) (h0 : out.code = 0) :
    ∃ ret bip, t.int "d.MinimumValueToBuy" ≤ ret ∧ ("tx.return", toString ret) ∈ out.tags ∧
      Move.bancor t.sender (t.nat "d.CoinToSell") (t.int "d.ValueToSell") (t.nat "d.CoinToBuy") ret bip ∈ out.moves ∧
      sumBal t.sender (t.nat "d.CoinToBuy") (Move.bancor t.sender (t.nat "d.CoinToSell") (t.int "d.ValueToSell") (t.nat "d.CoinToBuy") ret bip).prims = ret ∧
      sumBal t.sender (t.nat "d.CoinToSell") (Move.bancor t.sender (t.nat "d.CoinToSell") (t.int "d.ValueToSell") (t.nat "d.CoinToBuy") ret bip).prims = -(t.int "d.ValueToSell") := by
  obtain ⟨_, price, rd, r, _, hr, hx, hs⟩ := deliver_accepted P o s b t out h h0
  rw [(runData_typ P o s b t price).2.2.2.1 ht] at hr
  obtain ⟨got, bip, hmin, hne, hs0, hb0, _, _, hexec⟩ := sell_coin_spec P o s t price rd hr
  obtain ⟨paid, body, tags, _, he, _, hmoves, htags⟩ := execReady_ok s rd r hx
  rw [hexec] at he
  injection he with he
  injection he with he1 he2
  subst he1; subst he2
  obtain ⟨burn, btags, _, _, hm, htg⟩ := successOutcome_burn s t r out hs
  have hbal := bancor_move_balances t.sender _ _ (t.int "d.ValueToSell") got bip hne hs0 (fun e => (hb0 e).symm)
  refine ⟨got, bip, hmin, ?_, ?_, hbal.1, hbal.2⟩
  · rw [htg, htags]; simp
  · rw [hm, successMoves, hmoves]; simp

/-- **C15 (BuyCoin, delivered).** An accepted bancor purchase credits exactly `ValueToBuy` and debits `ret ≤ MaximumValueToSell`;
    `tx.return = ret` is the amount debited by the move. -/
theorem C15_buy_coin (P : Params) (o : Oracle) (s : State) (b : Nat) (t : TxIn) (out : Outcome)
    (ht : t.typ = 4) (h : deliverTx P o s b t = .ok out) (h0 : out.code = 0) :
    ∃ ret bip, ret ≤ t.int "d.MaximumValueToSell" ∧ ("tx.return", toString ret) ∈ out.tags ∧
      Move.bancor t.sender (t.nat "d.CoinToSell") ret (t.nat "d.CoinToBuy") (t.int "d.ValueToBuy") bip ∈ out.moves ∧
      sumBal t.sender (t.nat "d.CoinToBuy") (Move.bancor t.sender (t.nat "d.CoinToSell") ret (t.nat "d.CoinToBuy") (t.int "d.ValueToBuy") bip).prims = t.int "d.ValueToBuy" ∧
      sumBal t.sender (t.nat "d.CoinToSell") (Move.bancor t.sender (t.nat "d.CoinToSell") ret (t.nat "d.CoinToBuy") (t.int "d.ValueToBuy") bip).prims = -ret := by
  obtain ⟨_, price, rd, r, _, hr, hx, hs⟩ := deliver_accepted P o s b t out h h0
  rw [(runData_typ P o s b t price).2.2.2.2.2 ht] at hr
  obtain ⟨pay, bip, hmax, hne, hs0, hb0, _, _, hexec⟩ := buy_coin_spec P o s t price rd hr
  obtain ⟨paid, body, tags, _, he, _, hmoves, htags⟩ := execReady_ok s rd r hx
  rw [hexec] at he
  injection he with he
  injection he with he1 he2
  subst he1; subst he2
  obtain ⟨burn, btags, _, _, hm, htg⟩ := successOutcome_burn s t r out hs
  have hbal := bancor_move_balances t.sender _ _ pay (t.int "d.ValueToBuy") bip hne hs0 hb0
  refine ⟨pay, bip, hmax, ?_, ?_, hbal.1, hbal.2⟩
  · rw [htg, htags]; simp
  · rw [hm, successMoves, hmoves]; simp

/-- **C15 (SellAllCoin, delivered).** An accepted sell-all pays the commission in the coin sold, sells exactly `balance − commission`
    (together: the whole balance), credits `ret ≥ MinimumValueToBuy`; `tx.sell_amount` = the balance, `tx.return = ret`. -/
theorem C15_sell_all_coin (P : Params) (o : Oracle) (s : State) (b : Nat) (t : TxIn) (out : Outcome)
    (ht : t.typ = 3) (h : deliverTx P o s b t = .ok out) (h0 : out.code = 0) :
    ∃ com paid ret bip, payCommission s t.sender (t.nat "d.CoinToSell") com com.inBase = .ok paid ∧ paid.amount = com.commission ∧
      t.int "d.MinimumValueToBuy" ≤ ret ∧ ("tx.return", toString ret) ∈ out.tags ∧
      ("tx.sell_amount", toString (balanceOf s t.sender (t.nat "d.CoinToSell"))) ∈ out.tags ∧
      Move.bancor t.sender (t.nat "d.CoinToSell") (balanceOf s t.sender (t.nat "d.CoinToSell") - com.commission) (t.nat "d.CoinToBuy") ret bip ∈ out.moves := by
  obtain ⟨_, price, rd, r, _, hr, hx, hs⟩ := deliver_accepted P o s b t out h h0
  rw [(runData_typ P o s b t price).2.2.2.2.1 ht] at hr
  obtain ⟨got, bip, hmin, _, hp, hc, _, _, _, hexec⟩ := sell_all_coin_spec P o s t price rd hr
  obtain ⟨paid, body, tags, hpay, he, _, hmoves, htags⟩ := execReady_ok s rd r hx
  rw [hexec] at he
  injection he with he
  injection he with he1 he2
  subst he1; subst he2
  obtain ⟨burn, btags, _, _, hm, htg⟩ := successOutcome_burn s t r out hs
  rw [hp, hc] at hpay
  -- the minimum asked from the commission swap is the base value of the commission (`rd.minOut = rd.com.inBase`)
  have hmo : rd.minOut = rd.com.inBase := by
    unfold runSellAllCoin at hr
    simp only at hr
    split at hr
    · cases hr
    obtain ⟨com, _, hk⟩ := withCom_ready _ _ _ _ _ _ _ hr
    split at hk
    · cases hk
    split at hk
    · cases hk
    split at hk
    · cases hk
    · cases hk
    split at hk
    · cases hk
    cases hk; rfl
  rw [hmo] at hpay
  refine ⟨rd.com, paid, got, bip, hpay, (payCommission_shape _ _ _ _ _ _ hpay).1, hmin, ?_, ?_, ?_⟩
  · rw [htg, htags]; simp
  · rw [htg, htags]; simp
  · rw [hm, successMoves, hmoves]; simp

/-! ### Liquidity: the limits of AddLiquidity / RemoveLiquidity (exact simulation, /repo a9a396f) -/

/-- Validated RemoveLiquidity: the amounts computed on the simulated pool meet the minimums. -/
theorem remove_liquidity_spec (P : Params) (o : Oracle) (s : State) (t : TxIn) (price : Int) (rd : Ready)
    (h : runRemoveLiquidity P o s t price = .ok (.ok rd)) :
    ∃ (com : Com) (r0 r1 : Int) (lp : CoinInfo), simRes s t.gasCoin com (t.nat "d.Coin0") (t.nat "d.Coin1") = .ok (r0, r1) ∧
      t.int "d.MinimumVolume0" ≤ t.int "d.Liquidity" * r0 / lp.volume ∧ t.int "d.MinimumVolume1" ≤ t.int "d.Liquidity" * r1 / lp.volume ∧
      rd.payer = t.sender ∧ rd.coin = t.gasCoin ∧ rd.com = com ∧ rd.minOut = 0 ∧
      rd.exec = removeLiquidityExec s t.sender (t.nat "d.Coin0") (t.nat "d.Coin1") (t.int "d.Liquidity") (t.int "d.MinimumVolume0") (t.int "d.MinimumVolume1") lp := by
  unfold runRemoveLiquidity at h
  simp only at h
  split at h
  · cases h
  split at h
  · cases h
  obtain ⟨com, _, hk⟩ := withCom_ready _ _ _ _ _ _ _ h
  split at hk
  · cases hk
  split at hk
  · cases hk
  rename_i r0 r1 hsim
  split at hk
  · cases hk
  rename_i lp hlp
  split at hk
  · cases hk
  split at hk
  · cases hk
  split at hk
  · cases hk
  split at hk
  · cases hk
  rename_i hmins
  cases hk
  simp only [Bool.or_eq_true, decide_eq_true_eq, not_or, Int.not_lt] at hmins
  exact ⟨com, r0, r1, lp, hsim, hmins.1, hmins.2, rfl, rfl, rfl, rfl, rfl⟩

theorem runData_liq (P : Params) (o : Oracle) (s : State) (b : Nat) (t : TxIn) (price : Int) :
    (t.typ = 21 → runData P o s b t price = runAddLiquidity P o s t price) ∧
    (t.typ = 22 → runData P o s b t price = runRemoveLiquidity P o s t price) := by
  refine ⟨?_, ?_⟩ <;> (intro h; unfold runData; rw [h]; rfl)

/-- The execution of RemoveLiquidity on reserves that meet the minimums. -/
theorem removeLiquidityExec_ok (s : State) (who : Addr) (c0 c1 : Coin) (liq min0 min1 : Int) (lp : CoinInfo) (adj : Option PoolAdj) (r0 r1 : Int)
    (hres : poolResAdj s adj c0 c1 = some (r0, r1)) (h0 : min0 ≤ liq * r0 / lp.volume) (h1 : min1 ≤ liq * r1 / lp.volume) :
    removeLiquidityExec s who c0 c1 liq min0 min1 lp adj =
      .ok ([.poolBurn who (sorted2 c0 c1 (liq * r0 / lp.volume) (liq * r1 / lp.volume)).1 (sorted2 c0 c1 (liq * r0 / lp.volume) (liq * r1 / lp.volume)).2.1
              (sorted2 c0 c1 (liq * r0 / lp.volume) (liq * r1 / lp.volume)).2.2.1 (sorted2 c0 c1 (liq * r0 / lp.volume) (liq * r1 / lp.volume)).2.2.2 lp.id liq],
           [("tx.volume0", toString (liq * r0 / lp.volume)), ("tx.volume1", toString (liq * r1 / lp.volume))]) := by
  unfold removeLiquidityExec
  rw [hres]
  simp only
  have hno : ¬ ((decide (liq * r0 / lp.volume < min0) || decide (liq * r1 / lp.volume < min1)) = true) := by
    simp only [Bool.or_eq_true, decide_eq_true_eq, not_or, Int.not_lt]
    exact ⟨h0, h1⟩
  rw [if_neg hno]
  rfl

/-- **C15 / C06 (RemoveLiquidity, delivered).** An accepted RemoveLiquidity pays out at least `MinimumVolume0` / `MinimumVolume1`;
    `tx.volume0/1` are the amounts paid out. -/
theorem C15_remove_liquidity (P : Params) (o : Oracle) (s : State) (b : Nat) (t : TxIn) (out : Outcome) (hok : PoolsOk s)
    (ht : t.typ = 22) (h : deliverTx P o s b t = .ok out) (h0 : out.code = 0) :
    ∃ (a0 a1 : Int) (lp : Coin), t.int "d.MinimumVolume0" ≤ a0 ∧ t.int "d.MinimumVolume1" ≤ a1 ∧
      Move.poolBurn t.sender (sorted2 (t.nat "d.Coin0") (t.nat "d.Coin1") a0 a1).1 (sorted2 (t.nat "d.Coin0") (t.nat "d.Coin1") a0 a1).2.1
        (sorted2 (t.nat "d.Coin0") (t.nat "d.Coin1") a0 a1).2.2.1 (sorted2 (t.nat "d.Coin0") (t.nat "d.Coin1") a0 a1).2.2.2 lp (t.int "d.Liquidity") ∈ out.moves ∧
      ("tx.volume0", toString a0) ∈ out.tags ∧ ("tx.volume1", toString a1) ∈ out.tags := by
  obtain ⟨_, price, rd, r, _, hr, hx, hs⟩ := deliver_accepted P o s b t out h h0
  rw [(runData_liq P o s b t price).2 ht] at hr
  obtain ⟨com, r0, r1, lp, hsim, hm0, hm1, hp, hc, hcm, hmin, hexec⟩ := remove_liquidity_spec P o s t price rd hr
  obtain ⟨paid, body, tags, hpay, he, _, hmoves, htags⟩ := execReady_ok s rd r hx
  rw [hp, hc, hcm, hmin] at hpay
  obtain ⟨hreal, _, _⟩ := sim_eq_real s hok t.sender t.gasCoin com 0 paid hpay _ _ _ hsim
  rw [hexec, removeLiquidityExec_ok s _ _ _ _ _ _ lp paid.adj r0 r1 hreal hm0 hm1] at he
  injection he with he
  injection he with he1 he2
  subst he1; subst he2
  obtain ⟨burn, btags, _, _, hm, htg⟩ := successOutcome_burn s t r out hs
  refine ⟨t.int "d.Liquidity" * r0 / lp.volume, t.int "d.Liquidity" * r1 / lp.volume, lp.id, hm0, hm1, ?_, ?_, ?_⟩
  · rw [hm, successMoves, hmoves]; simp
  · rw [htg, htags]; simp
  · rw [htg, htags]; simp

/-- The deliver-side execution of a validated RemoveLiquidity never faults once the commission is paid (C06: the
    `INSUFFICIENT_LIQUIDITY_BURNED` site of `removeLiquidityExec` is dead). -/
theorem remove_liquidity_exec_ok (P : Params) (o : Oracle) (s : State) (t : TxIn) (price : Int) (rd : Ready) (paid : Paid) (hok : PoolsOk s)
    (h : runRemoveLiquidity P o s t price = .ok (.ok rd))
    (hpay : payCommission s rd.payer rd.coin rd.com rd.minOut = .ok paid) : ∃ body tags, rd.exec paid.adj = .ok (body, tags) := by
  obtain ⟨com, r0, r1, lp, hsim, hm0, hm1, hp, hc, hcm, hmin, hexec⟩ := remove_liquidity_spec P o s t price rd h
  rw [hp, hc, hcm, hmin] at hpay
  obtain ⟨hreal, _, _⟩ := sim_eq_real s hok t.sender t.gasCoin com 0 paid hpay _ _ _ hsim
  rw [hexec, removeLiquidityExec_ok s _ _ _ _ _ _ lp paid.adj r0 r1 hreal hm0 hm1]
  exact ⟨_, _, rfl⟩

/-- Validated AddLiquidity: the amount of the second coin computed on the simulated pool is within `MaximumVolume1` and covered by the balance. -/
theorem add_liquidity_spec (P : Params) (o : Oracle) (s : State) (t : TxIn) (price : Int) (rd : Ready)
    (h : runAddLiquidity P o s t price = .ok (.ok rd)) :
    ∃ (com : Com) (r0 r1 : Int) (lp : CoinInfo), simRes s t.gasCoin com (t.nat "d.Coin0") (t.nat "d.Coin1") = .ok (r0, r1) ∧ r0 ≠ 0 ∧
      t.int "d.Volume0" * r1 / r0 ≤ t.int "d.MaximumVolume1" ∧ 0 < lp.volume * t.int "d.Volume0" / r0 ∧
      t.addIfGas (t.nat "d.Coin1") (t.int "d.Volume0" * r1 / r0) com.commission ≤ balanceOf s t.sender (t.nat "d.Coin1") ∧
      rd.payer = t.sender ∧ rd.coin = t.gasCoin ∧ rd.com = com ∧ rd.minOut = 0 ∧
      rd.exec = addLiquidityExec s t.sender (t.nat "d.Coin0") (t.nat "d.Coin1") (t.int "d.Volume0") lp := by
  unfold runAddLiquidity at h
  simp only at h
  split at h
  · cases h
  split at h
  · cases h
  split at h
  · cases h
  split at h
  · cases h
  obtain ⟨com, _, hk⟩ := withCom_ready _ _ _ _ _ _ _ h
  split at hk
  · cases hk
  split at hk
  · cases hk
  rename_i r0 r1 hsim
  split at hk
  · cases hk
  rename_i lp hlp
  split at hk
  · cases hk
  rename_i hr0
  split at hk
  · cases hk
  rename_i hmax
  split at hk
  · cases hk
  rename_i hliq
  split at hk
  · cases hk
  rename_i hbal
  split at hk
  · cases hk
  cases hk
  exact ⟨com, r0, r1, lp, hsim, by simpa using hr0, by omega, by omega, by omega, rfl, rfl, rfl, rfl, rfl⟩

theorem addLiquidityExec_ok (s : State) (who : Addr) (c0 c1 : Coin) (v0 : Int) (lp : CoinInfo) (adj : Option PoolAdj) (r0 r1 : Int)
    (hres : poolResAdj s adj c0 c1 = some (r0, r1)) (h0 : r0 ≠ 0) (h1 : 0 < lp.volume * v0 / r0) :
    addLiquidityExec s who c0 c1 v0 lp adj =
      .ok ([.poolMint who (sorted2 c0 c1 v0 (v0 * r1 / r0)).1 (sorted2 c0 c1 v0 (v0 * r1 / r0)).2.1 (sorted2 c0 c1 v0 (v0 * r1 / r0)).2.2.1
              (sorted2 c0 c1 v0 (v0 * r1 / r0)).2.2.2 lp.id (lp.volume * v0 / r0)],
           [("tx.volume1", toString (v0 * r1 / r0)), ("tx.liquidity", toString (lp.volume * v0 / r0)), ("tx.pool_token_id", toString lp.id)]) := by
  unfold addLiquidityExec
  rw [hres]
  simp only
  have e1 : ¬ ((r0 == 0) = true) := by simpa using h0
  have e2 : ¬ (lp.volume * v0 / r0 ≤ 0) := by omega
  rw [if_neg e1, if_neg e2]
  rfl

/-- **C15 (AddLiquidity, delivered).** An accepted AddLiquidity takes exactly `Volume0` of the first coin and at most `MaximumVolume1` of the
    second — an amount the sender's balance was checked against — and mints a positive amount of pool tokens; `tx.volume1` is the amount taken. -/
theorem C15_add_liquidity (P : Params) (o : Oracle) (s : State) (b : Nat) (t : TxIn) (out : Outcome) (hok : PoolsOk s)
    (ht : t.typ = 21) (h : deliverTx P o s b t = .ok out) (h0 : out.code = 0) :
    ∃ (com : Com) (a1 liq : Int) (lp : Coin), a1 ≤ t.int "d.MaximumVolume1" ∧ 0 < liq ∧
      t.addIfGas (t.nat "d.Coin1") a1 com.commission ≤ balanceOf s t.sender (t.nat "d.Coin1") ∧
      Move.poolMint t.sender (sorted2 (t.nat "d.Coin0") (t.nat "d.Coin1") (t.int "d.Volume0") a1).1 (sorted2 (t.nat "d.Coin0") (t.nat "d.Coin1") (t.int "d.Volume0") a1).2.1
        (sorted2 (t.nat "d.Coin0") (t.nat "d.Coin1") (t.int "d.Volume0") a1).2.2.1 (sorted2 (t.nat "d.Coin0") (t.nat "d.Coin1") (t.int "d.Volume0") a1).2.2.2 lp liq ∈ out.moves ∧
      ("tx.volume1", toString a1) ∈ out.tags := by
  obtain ⟨_, price, rd, r, _, hr, hx, hs⟩ := deliver_accepted P o s b t out h h0
  rw [(runData_liq P o s b t price).1 ht] at hr
  obtain ⟨com, r0, r1, lp, hsim, hr0, hmax, hliq, hbal, hp, hc, hcm, hmin, hexec⟩ := add_liquidity_spec P o s t price rd hr
  obtain ⟨paid, body, tags, hpay, he, _, hmoves, htags⟩ := execReady_ok s rd r hx
  rw [hp, hc, hcm, hmin] at hpay
  obtain ⟨hreal, _, _⟩ := sim_eq_real s hok t.sender t.gasCoin com 0 paid hpay _ _ _ hsim
  rw [hexec, addLiquidityExec_ok s _ _ _ _ lp paid.adj r0 r1 hreal hr0 hliq] at he
  injection he with he
  injection he with he1 he2
  subst he1; subst he2
  obtain ⟨burn, btags, _, _, hm, htg⟩ := successOutcome_burn s t r out hs
  refine ⟨com, t.int "d.Volume0" * r1 / r0, lp.volume * t.int "d.Volume0" / r0, lp.id, hmax, hliq, hbal, ?_, ?_⟩
  · rw [hm, successMoves, hmoves]; simp
  · rw [htg, htags]; simp

/-! Non-vacuity (interpreter): a bancor sale with an oracle, and a two-hop pool sale whose commission is paid in the base coin. -/
def c15State : State :=
  { balances := [((1, 0), 1000000000000000000000000), ((1, 7), 50000000000000000000000)],
    coins := [{ id := 7, symbol := "COINA", version := 0, volume := 1000000000000000000000000, reserve := 100000000000000000000000, crr := 50,
                maxSupply := 10000000000000000000000000, owner := some 1, mintable := false, burnable := false },
              { id := 8, symbol := "TOKB", version := 0, volume := 1000000000000000000000000, reserve := 0, crr := 0,
                maxSupply := 10000000000000000000000000, owner := some 1, mintable := true, burnable := true }],
    pools := [{ c0 := 0, c1 := 7, id := 1, r0 := 500000000000000000000000, r1 := 400000000000000000000000 },
              { c0 := 7, c1 := 8, id := 2, r0 := 300000000000000000000000, r1 := 900000000000000000000000 }],
    ncoins := 8,
    commission := [("sell_bancor", 100000000000000000), ("sell_pool_base", 100000000000000000), ("sell_pool_delta", 50000000000000000), ("failed_tx", 1)] }

def c15Oracle : Oracle := fun q => match q with
  | .saleReturn _ _ _ sell => some (sell / 20)
  | _ => none

def c15SellCoin : TxIn :=
  { dec := true, rawLen := 100, typ := 2, nonce := 1, chain := 2, gasPrice := 1, sigOk := true, sender := 1,
    f := [("d.CoinToSell", "7"), ("d.ValueToSell", "1000000000000000000000"), ("d.CoinToBuy", "0"), ("d.MinimumValueToBuy", "50000000000000000000")] }

#guard (match deliverTx {} c15Oracle c15State 10200001 c15SellCoin with
  | .ok out => out.code == 0 && out.tags.contains ("tx.return", "50000000000000000000")
  | .error _ => false)
-- one pip more than the curve pays: rejected with MinimumValueToBuyReached
#guard (match deliverTx {} c15Oracle c15State 10200001
    { c15SellCoin with f := [("d.CoinToSell", "7"), ("d.ValueToSell", "1000000000000000000000"), ("d.CoinToBuy", "0"), ("d.MinimumValueToBuy", "50000000000000000001")] } with
  | .ok out => out.code == 303
  | .error _ => false)

def c15SellPool : TxIn :=
  { dec := true, rawLen := 100, typ := 23, nonce := 1, chain := 2, gasPrice := 1, sigOk := true, sender := 1,
    f := [("d.Coins", "0,7,8"), ("d.ValueToSell", "1000000000000000000000"), ("d.MinimumValueToBuy", "1")] }

#guard (match deliverTx {} c15Oracle c15State 10200001 c15SellPool with
  | .ok out => out.code == 0 && (applyChecked c15State out.plan).isSome &&
      (match applyChecked c15State out.plan with | some s1 => decide (0 < balanceOf s1 1 8) | none => false)
  | .error _ => false)

end Minter
