import MinterModel.Rules
import Mathlib.Tactic.Linarith
import Mathlib.Tactic.Ring
/-
  C28 — block reward rule.
  "While total emission is below the 10 billion cap, every block mints the current price-derived reward.  The reward is
   recomputed only on the first block of a stake period whose block time is between 12:00 and 14:59 and more than 3 hours after
   the previous update, as 350·p^(1/4) BIP, where p is the BIP price in the BIP/USDT pool.  If that price changed by −10% or
   worse (rounded down to a whole percent), validators' share of the reward drops to zero and then recovers by 10 BIP per
   update up to the price-derived level, with the withheld part burned; once emission reaches the cap, no reward is minted."

  Definitions: `Minter.Rules.{inWindow, beginReward, updatePrice, pctChange, blockEmission, priceCountCert}` (MinterModel/Rules.lean),
  mirroring BeginBlock / EndBlock (coreV2/minter/blockchain.go) and `AppDB.UpdatePriceFix` (coreV2/appdb/appdb.go).

  ORACLE: `pc` = `priceCount`, the integer part of the `big.Float` expression `Pow(r1/r0, 0.25)·350·1e18`.  The theorems hold for
  every value of `pc` (with `0 ≤ pc` where stated); that the value the node computes is the fourth-root expression is checked
  per evaluation by the decidable certificate `priceCountCert` (sound by `priceCountCert_sound`).
-/
namespace Minter
namespace Rules

/-! ### What an update stores and returns -/

/-- An update that answers did not hit the panics on the new reserves. -/
theorem updatePrice_some (st : RewardState) (t r0 r1 pc : Int) (x : RewardState × Int × Int)
    (h : updatePrice st t r0 r1 pc = some x) : r0 ≠ 0 ∧ 0 ≤ r1 * r0 ∧ updatePriceCore st t r0 r1 pc = some x := by
  unfold updatePrice at h
  split at h
  · cases h
  · split at h
    · cases h
    · exact ⟨by assumption, by omega, h⟩

theorem updatePrice_eq_core (st : RewardState) (t r0 r1 pc : Int) (hr : r0 ≠ 0) (hs : 0 ≤ r1 * r0) :
    updatePrice st t r0 r1 pc = updatePriceCore st t r0 r1 pc := by
  unfold updatePrice
  have : ¬ r1 * r0 < 0 := by omega
  simp [hr, this]

/-- Every update stamps the new time and reserves, returns `pc` as the safe reward, and stores the reward it returns. -/
theorem updatePrice_stamp (st : RewardState) (t r0 r1 pc : Int) (st' : RewardState) (rw sf : Int)
    (h : updatePrice st t r0 r1 pc = some (st', rw, sf)) :
    st'.t = some t ∧ st'.r0 = r0 ∧ st'.r1 = r1 ∧ sf = pc ∧ st'.last = rw := by
  have h := (updatePrice_some _ _ _ _ _ _ h).2.2
  unfold updatePriceCore at h
  split at h
  · cases h; simp
  · split at h
    · cases h
    · split at h
      · cases h; simp
      · split at h
        · simp only at h
          split at h <;> (cases h; simp)
        · cases h; simp

/-- The very first update (nothing stored yet): the full price-derived reward. -/
theorem first_update (st : RewardState) (hz : st.t = none) (t r0 r1 pc : Int) (hr : r0 ≠ 0) (hs : 0 ≤ r1 * r0) :
    updatePrice st t r0 r1 pc = some ({ t := some t, r0 := r0, r1 := r1, last := pc, off := false }, pc, pc) := by
  rw [updatePrice_eq_core _ _ _ _ _ hr hs]
  unfold updatePriceCore
  simp [hz]

/-! ### The percentage and the −10 rule -/

theorem floorDiv_le_iff (n d k : Int) (hd : 0 < d) : floorDiv n d ≤ k ↔ n < (k + 1) * d := by
  unfold floorDiv
  simp only [hd, if_true]
  constructor
  · intro h
    have h1 : n < (n / d + 1) * d := Int.lt_ediv_add_one_mul_self n hd
    have h2 : (n / d + 1) * d ≤ (k + 1) * d := by
      apply Int.mul_le_mul_of_nonneg_right _ (le_of_lt hd); omega
    omega
  · intro h
    have : n / d < k + 1 := (Int.ediv_lt_iff_lt_mul hd).mpr h
    omega

/-- With positive reserves the percentage is defined, and "−10 or worse after rounding down" means: the new price is
    below 91 % of the old one (`100·r1·R0 < 91·R1·r0`), i.e. the change is worse than −9 %. -/
theorem drop_threshold (R0 R1 r0 r1 : Int) (hR0 : 0 < R0) (hR1 : 0 < R1) (hr0 : 0 < r0) :
    ∃ d, pctChange R0 R1 r0 r1 = some d ∧ (d ≤ -10 ↔ 100 * (r1 * R0) < 91 * (R1 * r0)) := by
  have hD : 0 < R1 * r0 := Int.mul_pos hR1 hr0
  refine ⟨floorDiv (100 * (r1 * R0 - R1 * r0)) (R1 * r0), ?_, ?_⟩
  · unfold pctChange
    have h1 : r0 ≠ 0 := by omega
    have h2 : R0 ≠ 0 := by omega
    have h3 : R1 ≠ 0 := by omega
    simp [h1, h2, h3]
  · rw [floorDiv_le_iff _ _ _ hD]
    constructor <;> intro h <;> nlinarith

/-- The percentage is the floor of the exact relative change: `d ≤ 100·(new − old)/old < d + 1` in cross-multiplied form. -/
theorem pctChange_floor (R0 R1 r0 r1 d : Int) (hR1 : 0 < R1) (hr0 : 0 < r0)
    (h : pctChange R0 R1 r0 r1 = some d) :
    d * (R1 * r0) ≤ 100 * (r1 * R0 - R1 * r0) ∧ 100 * (r1 * R0 - R1 * r0) < (d + 1) * (R1 * r0) := by
  have hD : 0 < R1 * r0 := Int.mul_pos hR1 hr0
  unfold pctChange at h
  split at h
  · cases h
  · simp only [Option.some.injEq] at h
    subst h
    unfold floorDiv
    simp only [hD, if_true]
    exact ⟨Int.ediv_mul_le _ (ne_of_gt hD), Int.lt_ediv_add_one_mul_self _ hD⟩

/-- **Drop rule**: a change of −10 % or worse (rounded down) sets the validators' reward to zero and switches `off` on;
    the safe reward stays at the price-derived level. -/
theorem drop_rule (st : RewardState) (l : Int) (hl : st.t = some l) (t r0 r1 pc d : Int) (hr : r0 ≠ 0) (hs : 0 ≤ r1 * r0)
    (hd : pctChange st.r0 st.r1 r0 r1 = some d) (hdrop : d ≤ -10) :
    updatePrice st t r0 r1 pc = some ({ t := some t, r0 := r0, r1 := r1, last := 0, off := true }, 0, pc) := by
  rw [updatePrice_eq_core _ _ _ _ _ hr hs]
  unfold updatePriceCore
  simp [hl, hd, hdrop]

/-- **Recovery**: while `off` and below the price-derived level (and no new drop), the reward grows by exactly 10 BIP per
    update, never beyond the level; `off` is cleared exactly when the level is reached. -/
theorem recovery (st : RewardState) (l : Int) (hl : st.t = some l) (t r0 r1 pc d : Int) (hr : r0 ≠ 0) (hs : 0 ≤ r1 * r0)
    (hd : pctChange st.r0 st.r1 r0 r1 = some d) (hnd : -10 < d) (hoff : st.off = true) (hlt : st.last < pc) :
    ∃ st' rw, updatePrice st t r0 r1 pc = some (st', rw, pc) ∧
      rw = min (st.last + tenBip) pc ∧ rw ≤ pc ∧ st'.last = rw ∧ (st'.off = true ↔ st.last + tenBip < pc) := by
  have hnd' : ¬ d ≤ -10 := by omega
  rw [updatePrice_eq_core _ _ _ _ _ hr hs]
  unfold updatePriceCore
  simp only [if_false, hl, hd, hnd', hoff, hlt, decide_true, Bool.and_self, if_true]
  by_cases hreach : pc - (st.last + tenBip) ≤ 0
  · simp only [hreach, if_true]
    refine ⟨_, _, rfl, ?_, le_refl _, rfl, ?_⟩
    · rw [min_def]; split <;> omega
    · simp; omega
  · simp only [hreach, if_false]
    refine ⟨_, _, rfl, ?_, by omega, rfl, ?_⟩
    · rw [min_def]; split <;> omega
    · simp; omega

/-- Without a drop and without a pending recovery the reward is the price-derived level itself. -/
theorem full_reward (st : RewardState) (l : Int) (hl : st.t = some l) (t r0 r1 pc d : Int) (hr : r0 ≠ 0) (hs : 0 ≤ r1 * r0)
    (hd : pctChange st.r0 st.r1 r0 r1 = some d) (hnd : -10 < d) (hno : st.off = false ∨ pc ≤ st.last) :
    updatePrice st t r0 r1 pc = some ({ t := some t, r0 := r0, r1 := r1, last := pc, off := false }, pc, pc) := by
  have hnd' : ¬ d ≤ -10 := by omega
  rw [updatePrice_eq_core _ _ _ _ _ hr hs]
  unfold updatePriceCore
  simp only [if_false, hl, hd, hnd']
  rcases hno with h | h
  · simp [h]
  · have : ¬ st.last < pc := by omega
    simp [this]

/-- The validators' reward never exceeds the safe (price-derived) reward … -/
theorem reward_le_safeReward (st : RewardState) (t r0 r1 pc : Int) (st' : RewardState) (rw sf : Int)
    (hpc : 0 ≤ pc) (h : updatePrice st t r0 r1 pc = some (st', rw, sf)) : rw ≤ sf := by
  have h := (updatePrice_some _ _ _ _ _ _ h).2.2
  unfold updatePriceCore at h
  split at h
  · cases h; omega
  · split at h
    · cases h
    · split at h
      · cases h; omega
      · split at h
        · simp only at h
          split at h
          · cases h; omega
          · next hn => cases h; omega
        · cases h; omega

/-- … and is never negative (given the stored reward was not). -/
theorem reward_nonneg (st : RewardState) (t r0 r1 pc : Int) (st' : RewardState) (rw sf : Int)
    (hpc : 0 ≤ pc) (hlast : 0 ≤ st.last) (h : updatePrice st t r0 r1 pc = some (st', rw, sf)) :
    0 ≤ rw ∧ 0 ≤ st'.last := by
  have hs := (updatePrice_stamp st t r0 r1 pc st' rw sf h).2.2.2.2
  suffices 0 ≤ rw by rw [hs]; exact ⟨this, this⟩
  have h := (updatePrice_some _ _ _ _ _ _ h).2.2
  unfold updatePriceCore at h
  split at h
  · cases h; omega
  · split at h
    · cases h
    · split at h
      · cases h; omega
      · split at h
        · simp only at h
          split at h
          · cases h; omega
          · cases h; unfold tenBip; omega
        · cases h; omega

/-- `off` is set only by a drop or kept by an unfinished recovery; while it is set the reward is strictly below the level. -/
theorem off_means_below (st : RewardState) (t r0 r1 pc : Int) (st' : RewardState) (rw sf : Int)
    (hpc : 0 < pc) (h : updatePrice st t r0 r1 pc = some (st', rw, sf)) (hoff : st'.off = true) : rw < sf := by
  have h := (updatePrice_some _ _ _ _ _ _ h).2.2
  unfold updatePriceCore at h
  split at h
  · cases h; simp at hoff
  · split at h
    · cases h
    · split at h
      · cases h; omega
      · split at h
        · simp only at h
          split at h
          · cases h; simp at hoff
          · cases h; omega
        · cases h; simp at hoff

/-! ### The window -/

/-- The window predicate spelled out. -/
theorem inWindow_iff (height period : Nat) (timeNs : Int) (last : Option Int) :
    inWindow height period timeNs last = true ↔
      height % period = 1 ∧
        (last = none ∨ ∃ l, last = some l ∧ 12 ≤ hourOf timeNs ∧ hourOf timeNs ≤ 14 ∧ timeNs - l > threeHoursNs) := by
  unfold inWindow
  cases last with
  | none => simp
  | some l => simp [and_assoc]

/-- The hour is the UTC hour of the day: `timeNs = ((day·24 + hour)·3600 + s)·10⁹ + ns`. -/
theorem hourOf_spec (day hour s ns : Int) (hh : 0 ≤ hour ∧ hour < 24) (hs : 0 ≤ s ∧ s < 3600) (hn : 0 ≤ ns ∧ ns < 1000000000) :
    hourOf (((day * 24 + hour) * 3600 + s) * 1000000000 + ns) = hour := by
  unfold hourOf
  have h1 : (((day * 24 + hour) * 3600 + s) * 1000000000 + ns) / 1000000000 = (day * 24 + hour) * 3600 + s := by omega
  rw [h1]
  have h2 : ((day * 24 + hour) * 3600 + s) % 86400 = hour * 3600 + s := by omega
  rw [h2]
  omega

/-- **The reward state changes only in the window**: BeginBlock changes the stored reward state if and only if emission is
    below the cap, the block is the first of a stake period inside the time window, and the BIP/USDT pool exists
    (stated for a run that does not panic; a panic is a C07 matter). -/
theorem update_only_in_window (emission cap : Int) (height period : Nat) (timeNs : Int) (poolExists : Bool) (r0 r1 pc : Int)
    (st : RewardState) (app : AppReward) (st' : RewardState) (app' : AppReward)
    (h : beginReward emission cap height period timeNs poolExists r0 r1 pc st app = some (st', app')) :
    st' ≠ st ↔ (emission < cap ∧ inWindow height period timeNs st.t = true ∧ poolExists = true) := by
  unfold beginReward at h
  by_cases hcap : emission < cap
  · simp only [hcap, if_true] at h
    by_cases hw : (inWindow height period timeNs st.t && poolExists) = true
    · simp only [hw, if_true] at h
      have hw' : inWindow height period timeNs st.t = true ∧ poolExists = true := by simpa using hw
      cases hu : updatePrice st timeNs r0 r1 pc with
      | none => rw [hu] at h; cases h
      | some res =>
        obtain ⟨st2, rw, sf⟩ := res
        rw [hu] at h
        simp only [Option.some.injEq, Prod.mk.injEq] at h
        obtain ⟨rfl, _⟩ := h
        have hst := (updatePrice_stamp st timeNs r0 r1 pc st2 rw sf hu).1
        constructor
        · intro _; exact ⟨hcap, hw'.1, hw'.2⟩
        · intro _ heq
          rw [heq] at hst
          have := (inWindow_iff height period timeNs st.t).mp hw'.1
          rcases this.2 with hn | ⟨l, hl, _, _, hgt⟩
          · rw [hn] at hst; cases hst
          · rw [hl] at hst
            simp only [Option.some.injEq] at hst
            unfold threeHoursNs at hgt
            omega
    · simp only [hw, Bool.false_eq_true, if_false, Option.some.injEq, Prod.mk.injEq] at h
      obtain ⟨rfl, _⟩ := h
      constructor
      · intro hne; exact absurd rfl hne
      · rintro ⟨_, h1, h2⟩
        rw [h1, h2] at hw
        simp at hw
  · simp only [hcap, if_false, Option.some.injEq, Prod.mk.injEq] at h
    obtain ⟨rfl, _⟩ := h
    constructor
    · intro hne; exact absurd rfl hne
    · rintro ⟨h1, _⟩; exact absurd h1 hcap

/-- Outside the window (or without pool) and below the cap, BeginBlock leaves the ledger's reward untouched as well. -/
theorem no_update_keeps_reward (emission cap : Int) (height period : Nat) (timeNs : Int) (poolExists : Bool) (r0 r1 pc : Int)
    (st : RewardState) (app : AppReward) (hcap : emission < cap)
    (hw : ¬ (inWindow height period timeNs st.t = true ∧ poolExists = true)) :
    beginReward emission cap height period timeNs poolExists r0 r1 pc st app = some (st, app) := by
  unfold beginReward
  have : (inWindow height period timeNs st.t && poolExists) = false := by
    cases h1 : inWindow height period timeNs st.t <;> cases h2 : poolExists <;> simp_all
  simp [hcap, this]

/-- In the window the ledger's reward becomes what `UpdatePriceFix` answered (non-negative values, positive level). -/
theorem window_sets_reward (emission cap : Int) (height period : Nat) (timeNs : Int) (r0 r1 pc : Int)
    (st : RewardState) (app : AppReward) (st' : RewardState) (rw sf : Int) (hcap : emission < cap)
    (hw : inWindow height period timeNs st.t = true) (hu : updatePrice st timeNs r0 r1 pc = some (st', rw, sf))
    (hrw : 0 ≤ rw) (hsf : 0 < sf) :
    beginReward emission cap height period timeNs true r0 r1 pc st app = some (st', { reward := rw, safe := sf }) := by
  unfold beginReward setReward
  have hne : ¬ (app.safe = sf ∧ sf = 0) := by omega
  simp only [hcap, if_true, hw, Bool.and_self, hu, hne, if_false, Int.ofNat_eq_natCast]
  have h1 : ((rw.natAbs : Nat) : Int) = rw := Int.natAbs_of_nonneg hrw
  have h2 : ((sf.natAbs : Nat) : Int) = sf := Int.natAbs_of_nonneg (le_of_lt hsf)
  rw [h1, h2]

/-! ### Minting -/

/-- **Withheld part burned**: below the cap, with `reward ≤ safeReward`, the block mints exactly the safe reward: the
    validators' pot receives `reward`, the zero address the withheld `safeReward − reward`, the emission counter grows by
    `safeReward`. -/
theorem withheld_burned (emission cap reward safe : Int) (hcap : emission < cap) (hle : reward ≤ safe) :
    (blockEmission emission cap reward safe).minted = safe ∧
    (blockEmission emission cap reward safe).toValidators = reward ∧
    (blockEmission emission cap reward safe).toZero = safe - reward ∧
    (blockEmission emission cap reward safe).emission = emission + safe ∧
    (blockEmission emission cap reward safe).toValidators + (blockEmission emission cap reward safe).toZero =
      (blockEmission emission cap reward safe).minted := by
  by_cases h : reward < safe
  · simp [blockEmission, hcap, h]
  · have : safe = reward := by omega
    simp [blockEmission, hcap, this]

/-- The emission counter counts what is minted: the invariant `emission = minted so far` is preserved by every block
    (below the cap, `reward ≤ safeReward`). -/
theorem emission_tracks_minted (emission cap reward safe : Int) (hcap : emission < cap) (hle : reward ≤ safe) :
    (blockEmission emission cap reward safe).emission = emission + (blockEmission emission cap reward safe).minted := by
  have := withheld_burned emission cap reward safe hcap hle
  omega

/-- **Cap**: once emission has reached the cap nothing is minted and the counter stays … -/
theorem cap_stops (emission cap reward safe : Int) (hcap : cap ≤ emission) :
    blockEmission emission cap reward safe = { toValidators := 0, toZero := 0, minted := 0, emission := emission } := by
  unfold blockEmission
  have : ¬ emission < cap := by omega
  simp [this]

/-- … and BeginBlock resets the ledger's reward to (0, 0) without touching the stored price. -/
theorem cap_resets_reward (emission cap : Int) (height period : Nat) (timeNs : Int) (poolExists : Bool) (r0 r1 pc : Int)
    (st : RewardState) (app : AppReward) (hcap : cap ≤ emission) (happ : 0 ≤ app.reward ∧ (app.safe = 0 → app.reward = 0)) :
    beginReward emission cap height period timeNs poolExists r0 r1 pc st app = some (st, { reward := 0, safe := 0 }) := by
  unfold beginReward setReward
  have : ¬ emission < cap := by omega
  simp only [this, if_false]
  by_cases hs : app.safe = 0
  · have hr := happ.2 hs
    simp only [hs, and_self, if_true]
    cases app; simp_all
  · simp [hs]

/-- The counter can pass the cap only by the last block's safe reward. -/
theorem emission_overshoot (emission cap reward safe : Int) (hcap : emission < cap) :
    (blockEmission emission cap reward safe).emission < cap + safe := by
  unfold blockEmission
  simp only [hcap, if_true]
  omega

/-! ### The oracle value and its certificate -/

theorem pow4_lt_imp_lt (a b : Int) (hb : 0 ≤ b) (h : a ^ 4 < b ^ 4) : a < b := by
  by_contra hge
  have hba : b ≤ a := by omega
  have : b ^ 4 ≤ a ^ 4 := pow_le_pow_left₀ hb hba 4
  omega

/-- **Certificate soundness.**  If `priceCountCert r0 r1 v` holds then the exact value — the integer `w` with
    `w⁴·r0 ≤ (350·10¹⁸)⁴·r1 < (w+1)⁴·r0`, i.e. `w = ⌊350·10¹⁸·(r1/r0)^(1/4)⌋` — is within `certTol v + 1` of `v`:
    `v − tol − 1 ≤ w ≤ v + tol`  (tol = ⌊v/2⁵⁰⌋ + 2). -/
theorem priceCountCert_sound (r0 r1 v w : Int) (hc : priceCountCert r0 r1 v = true) (hw : 0 ≤ w)
    (hlo : w ^ 4 * r0 ≤ K350 ^ 4 * r1) (hhi : K350 ^ 4 * r1 < (w + 1) ^ 4 * r0) :
    0 < r0 ∧ 0 ≤ r1 ∧ v - certTol v - 1 ≤ w ∧ w ≤ v + certTol v := by
  unfold priceCountCert at hc
  simp only [Bool.and_eq_true, decide_eq_true_eq] at hc
  obtain ⟨⟨⟨⟨hr0, hr1⟩, hv⟩, hl⟩, hh⟩ := hc
  have htol : 0 ≤ certTol v := by unfold certTol; omega
  refine ⟨hr0, hr1, ?_, ?_⟩
  · -- lo⁴·r0 ≤ K⁴·r1 < (w+1)⁴·r0  ⇒  lo < w+1
    by_cases hneg : v - certTol v < 0
    · omega
    · simp only [hneg, if_false] at hl
      have h1 : (v - certTol v) ^ 4 * r0 < (w + 1) ^ 4 * r0 := lt_of_le_of_lt hl hhi
      have h2 : (v - certTol v) ^ 4 < (w + 1) ^ 4 := lt_of_mul_lt_mul_right h1 (le_of_lt hr0)
      have := pow4_lt_imp_lt _ _ (by omega) h2
      omega
  · -- w⁴·r0 ≤ K⁴·r1 < hi⁴·r0  ⇒  w < hi
    have h1 : w ^ 4 * r0 < (v + certTol v + 1) ^ 4 * r0 := lt_of_le_of_lt hlo hh
    have h2 : w ^ 4 < (v + certTol v + 1) ^ 4 := lt_of_mul_lt_mul_right h1 (le_of_lt hr0)
    have := pow4_lt_imp_lt _ _ (by omega) h2
    omega

/-- The certificate accepts the exact value itself. -/
theorem priceCountCert_exact (r0 r1 w : Int) (hr0 : 0 < r0) (hr1 : 0 ≤ r1) (hw : 0 ≤ w)
    (hlo : w ^ 4 * r0 ≤ K350 ^ 4 * r1) (hhi : K350 ^ 4 * r1 < (w + 1) ^ 4 * r0) :
    priceCountCert r0 r1 w = true := by
  have htol : 0 ≤ certTol w := by unfold certTol; omega
  unfold priceCountCert
  simp only [Bool.and_eq_true, decide_eq_true_eq]
  refine ⟨⟨⟨⟨hr0, hr1⟩, hw⟩, ?_⟩, ?_⟩
  · split
    · have : (0 : Int) ^ 4 * r0 = 0 := by ring
      rw [this]
      have : 0 ≤ K350 ^ 4 := by positivity
      exact Int.mul_nonneg this hr1
    · next hn =>
      have : (w - certTol w) ^ 4 ≤ w ^ 4 := pow_le_pow_left₀ (by omega) (by omega) 4
      have := Int.mul_le_mul_of_nonneg_right this (le_of_lt hr0)
      omega
  · have : (w + 1) ^ 4 ≤ (w + certTol w + 1) ^ 4 := pow_le_pow_left₀ (by omega) (by omega) 4
    have := Int.mul_le_mul_of_nonneg_right this (le_of_lt hr0)
    omega

/-! ### Non-vacuity -/

-- 1 BIP = 1 USDT would give 350 BIP; a price of 1/10000 gives 35 BIP (exact fourth root).
example : priceCountCert 10000 1 35000000000000000000 = true := by decide
example : priceCountCert 1 1 350000000000000000000 = true ∧ priceCountCert 1 1 351000000000000000000 = false := by decide

-- −10 % exactly, −9.99 %, −9 % exactly, −10.01 %: everything below −9 % is "−10 or worse" after rounding down
example : pctChange 1000 100 1000 90 = some (-10) ∧ pctChange 100000 10000 100000 9001 = some (-10) ∧
    pctChange 1000 100 1000 91 = some (-9) ∧ pctChange 100000 10000 100000 8999 = some (-11) ∧
    pctChange 1000 100 1000 100 = some 0 ∧ pctChange 1000 100 0 100 = none := by decide

def st0 : RewardState := { t := some 0, r0 := 1000, r1 := 100, last := 70000000000000000000, off := false }

-- a −10 % move drops the reward to zero …
example : updatePrice st0 5 1000 90 66000000000000000000 =
    some ({ t := some 5, r0 := 1000, r1 := 90, last := 0, off := true }, 0, 66000000000000000000) := by decide
-- … then it recovers by 10 BIP per update …
example : updatePrice { t := some 5, r0 := 1000, r1 := 90, last := 0, off := true } 9 1000 90 66000000000000000000 =
    some ({ t := some 9, r0 := 1000, r1 := 90, last := 10000000000000000000, off := true }, 10000000000000000000, 66000000000000000000) := by decide
-- … up to the level, where `off` is cleared
example : updatePrice { t := some 5, r0 := 1000, r1 := 90, last := 60000000000000000000, off := true } 9 1000 90 66000000000000000000 =
    some ({ t := some 9, r0 := 1000, r1 := 90, last := 66000000000000000000, off := false }, 66000000000000000000, 66000000000000000000) := by decide

-- 2024-01-10 12:00:00 UTC = 1704888000 s: hour 12; first block of a period of 12; last update 4 h earlier
example : hourOf 1704888000000000000 = 12 ∧ inWindow 13 12 1704888000000000000 (some 1704873600000000000) = true ∧
    inWindow 14 12 1704888000000000000 (some 1704873600000000000) = false ∧
    inWindow 13 12 1704888000000000000 (some 1704880800000000000) = false ∧
    inWindow 13 12 1704898800000000000 (some 1704873600000000000) = false := by decide

example : blockEmission 5 100 30 70 = { toValidators := 30, toZero := 40, minted := 70, emission := 75 } ∧
    blockEmission 100 100 30 70 = { toValidators := 0, toZero := 0, minted := 0, emission := 100 } := by decide

end Rules
end Minter
