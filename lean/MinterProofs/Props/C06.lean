import MinterModel.Tx
import MinterProofs.Props.C04
/-
  C06 — CheckTx accepts exactly the transactions DeliverTx accepts.

  `checkTx` (MinterModel/Tx.lean) is the model of `RunTx` on a `CheckState`: the same prologue plus the gas-price floor, the same
  price conversion, the same validation half of the handler (`runData`), then the one-transaction-per-sender rule; it has no
  access to a mutable state at all (its type returns a response code only), so "CheckTx changes nothing" holds by construction.
  `deliverTx` runs the same validation and then the deliver-only half (`execReady`, `successOutcome`).

  Theorems (all states, all transactions, all oracles):
  * `C06_check_iff_deliver`   with the floor met and the sender not yet in the mempool, whenever DeliverTx answers at all
                              (does not fault), CheckTx answers 0 iff DeliverTx answers 0;
  * `C06_check_ok_deliver`    if CheckTx answers 0 then DeliverTx either answers 0 or faults (panics) — it never answers a
                              rejection code;
  * `C06_deliver_ok_check`    if DeliverTx answers 0 then CheckTx answers 0.

  Deliver-only fault sites of the model (each is a `Stop.panic` raised after the validation passed; the Go code panics or
  misbehaves at the same place; the correspondence check compares CheckTx and DeliverTx codes of every generated transaction):
  * `pairSellMove` / `pairBuyMove`: INSUFFICIENT_INPUT_AMOUNT, INSUFFICIENT_OUTPUT_AMOUNT, "calculatedAmount1Out less minAmount1Out",
    checkSwap (K) failures inside the pool kernels, a missing pool;
  * `payCommission`: base-coin commission differs from its base value (model invariant);
  * `unbondMoves`: `SubStake` on a missing stake / candidate;
  * AddLiquidity / RemoveLiquidity `exec` (`addLiquidityExec`, `removeLiquidityExec`): division by zero, INSUFFICIENT_LIQUIDITY_MINTED,
    INSUFFICIENT_LIQUIDITY_BURNED — all DEAD for states with sorted, positive pools: since /repo a9a396f the validation simulates the
    commission swap exactly (`sim_eq_real`), so the execution repeats the validated computation (`remove_liquidity_exec_ok`,
    `addLiquidityExec_ok`, `C15_remove_liquidity`, `C15_add_liquidity` in Props/C15.lean).  Before that fix the RemoveLiquidity site was a
    reachable node panic (CheckTx 0, DeliverTx panic) found with this model;
  * `tickerBurn`: none any more (/repo f0b1597: a non-positive or unconvertible ticker fee only skips the burn);
  * the guards of `successOutcome` (unauthorised debit / nonce touched): never fire for the handlers as written (validated on every run).
-/
namespace Minter

/-- Above the floor the CheckTx prologue is the DeliverTx prologue. -/
theorem prologueF_floor (P : Params) (s : State) (b : Nat) (t : TxIn) (fl : Nat) (h : fl ≤ t.gasPrice) :
    prologueF P s b t fl = prologue P s b t := by
  unfold prologue prologueF
  have h1 : ¬ (t.gasPrice < fl) := by omega
  have h2 : ¬ (t.gasPrice < 0) := by omega
  simp only [h1, h2, if_false]

theorem execReady_code (s : State) (rd : Ready) (r : Outcome) (h : execReady s rd = .ok r) : r.code = 0 := by
  unfold execReady at h
  split at h
  · cases h
  · split at h
    · cases h
    · cases h; rfl

/-- The common case analysis: what CheckTx and DeliverTx answer, by the outcome of the shared validation. -/
theorem check_deliver_cases (P : Params) (o : Oracle) (s : State) (b : Nat) (t : TxIn) (fl : Nat) (hfl : fl ≤ t.gasPrice) :
    -- rejected by the shared prologue / price conversion / handler with the same non-zero code on the CheckTx side
    (∃ c, c ≠ 0 ∧ checkTx P o s b t fl false = .ok c ∧ ∀ out, deliverTx P o s b t = .ok out → out.code ≠ 0) ∨
    -- validated: CheckTx answers 0, DeliverTx answers 0 or faults
    (checkTx P o s b t fl false = .ok 0 ∧ ∀ out, deliverTx P o s b t = .ok out → out.code = 0) ∨
    -- the validation itself faults on both sides
    ((∃ e, checkTx P o s b t fl false = .error e) ∧ ∃ e, deliverTx P o s b t = .error e) := by
  unfold checkTx deliverTx
  rw [prologueF_floor P s b t fl hfl]
  cases hp : prologue P s b t with
  | some c =>
    left
    refine ⟨c, fun h0 => prologue_ne_zero P s b t (h0 ▸ hp), rfl, ?_⟩
    intro out ho; cases ho
    exact fun h0 => prologue_ne_zero P s b t (h0 ▸ hp)
  | none =>
    simp only
    unfold deliverBody
    cases hb : basePrice s t with
    | error e => right; right; exact ⟨⟨e, rfl⟩, ⟨e, rfl⟩⟩
    | ok pr =>
      cases pr with
      | error c =>
        left
        refine ⟨c, basePrice_code_ne_zero s t c hb, rfl, ?_⟩
        intro out ho; cases ho
        exact basePrice_code_ne_zero s t c hb
      | ok price =>
        simp only
        cases hr : runData P o s b t price with
        | error e => right; right; exact ⟨⟨e, rfl⟩, ⟨e, rfl⟩⟩
        | ok v =>
          cases v with
          | error c =>
            simp only
            by_cases hc0 : (c == 0) = true
            · right; right
              simp only [hc0, if_true]
              exact ⟨⟨_, rfl⟩, ⟨_, rfl⟩⟩
            · left
              simp only [hc0, if_false]
              refine ⟨c, by simpa using hc0, rfl, ?_⟩
              intro out ho
              exact (failureOutcome_ok P o s t c out ho).1
          | ok rd =>
            right; left
            simp only [Bool.false_eq_true, if_false]
            refine ⟨rfl, ?_⟩
            intro out ho
            split at ho
            · cases ho
            · next r _ =>
              obtain ⟨_, h0, _⟩ := successOutcome_ok s t r out ho
              exact h0

/-- **C06.** With the gas-price floor met and the sender not in the mempool: if DeliverTx answers (does not fault) then CheckTx
    accepted iff DeliverTx accepted. -/
theorem C06_check_iff_deliver (P : Params) (o : Oracle) (s : State) (b : Nat) (t : TxIn) (fl : Nat) (ck : Nat) (out : Outcome)
    (hfl : fl ≤ t.gasPrice) (hc : checkTx P o s b t fl false = .ok ck) (hd : deliverTx P o s b t = .ok out) :
    ck = 0 ↔ out.code = 0 := by
  rcases check_deliver_cases P o s b t fl hfl with ⟨c, hc0, hck, hdl⟩ | ⟨hck, hdl⟩ | ⟨⟨e, hck⟩, _⟩
  · rw [hck] at hc; cases hc
    exact ⟨fun h => absurd h hc0, fun h => absurd h (hdl out hd)⟩
  · rw [hck] at hc; cases hc
    exact ⟨fun _ => hdl out hd, fun _ => rfl⟩
  · rw [hck] at hc; cases hc

/-- If CheckTx accepts, DeliverTx on the same state accepts or faults — it never answers a rejection. -/
theorem C06_check_ok_deliver (P : Params) (o : Oracle) (s : State) (b : Nat) (t : TxIn) (fl : Nat)
    (hfl : fl ≤ t.gasPrice) (hc : checkTx P o s b t fl false = .ok 0) :
    (∃ out, deliverTx P o s b t = .ok out ∧ out.code = 0) ∨ (∃ e, deliverTx P o s b t = .error e) := by
  cases hd : deliverTx P o s b t with
  | error e => exact Or.inr ⟨e, rfl⟩
  | ok out => exact Or.inl ⟨out, rfl, (C06_check_iff_deliver P o s b t fl 0 out hfl hc hd).mp rfl⟩

/-- If DeliverTx accepts, CheckTx on the same state (floor met, sender not in the mempool) accepts. -/
theorem C06_deliver_ok_check (P : Params) (o : Oracle) (s : State) (b : Nat) (t : TxIn) (fl : Nat) (out : Outcome)
    (hfl : fl ≤ t.gasPrice) (hd : deliverTx P o s b t = .ok out) (h0 : out.code = 0) :
    checkTx P o s b t fl false = .ok 0 := by
  rcases check_deliver_cases P o s b t fl hfl with ⟨c, _, _, hdl⟩ | ⟨hck, _⟩ | ⟨_, ⟨e, hde⟩⟩
  · exact absurd h0 (hdl out hd)
  · exact hck
  · rw [hde] at hd; cases hd

/-! Non-vacuity: the accepted LockStake of C26 passes CheckTx with floor 1. -/
def c06State : State :=
  { balances := [((1, 0), 1000000000000000000000)], commission := [("lock_stake", 10000000000000000), ("failed_tx", 10000000000000000)] }
def c06Tx : TxIn := { dec := true, rawLen := 100, typ := 37, nonce := 1, chain := 2, gasPrice := 1, sigOk := true, sender := 1 }

set_option maxRecDepth 8000 in
example : (match checkTx {} (fun _ => none) c06State 10200001 c06Tx 1 false, deliverTx {} (fun _ => none) c06State 10200001 c06Tx with
    | .ok ck, .ok out => ck == 0 && out.code == 0
    | _, _ => false) = true := by decide

end Minter
