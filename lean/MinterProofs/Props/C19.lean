import MinterProofs.Validators
/-
  C19 — "Block rewards and fees accrue only to validators recorded as present in the block, in proportion to their stake, and
  accrued rewards of dropped validators return to the pool.  At each payout a validator's accrued reward is split into 10% for
  the DAO, 10% for developers, the validator's commission and delegator shares proportional to bip stake.  The total paid never
  exceeds the accrued amount, except for the increased reward of locked stakes, which is added to the emission."

  The theorems are about `returnDropped`, `accrue`, `endBlockAccrue` (EndBlock) and `payout`, `payoutAll` (PayRewardsV5Fix) of
  MinterModel/Validators.lean; the harness mode `valid` compares them with the real node on every run.
-/
namespace Minter

def accumOf (vals : List Validator) : Int := sumBy (fun v => v.accum) vals

/-! ## Accrual -/

/-- **Only present, not dropped validators accrue, each `⌊pot·stake/totalPower⌋`**; nothing else of a validator changes. -/
theorem accrue_get (pot : Int) (vals : List Validator) (present : PubKey → Bool) (i : Nat) :
    (accrue pot vals present).1[i]? = vals[i]?.map (fun v =>
      if isPresent present v then { v with accum := v.accum + pot * v.totalBip / totalPower vals present } else v) := by
  simp [accrue, gainOf]

theorem accrue_length (pot : Int) (vals : List Validator) (present : PubKey → Bool) :
    (accrue pot vals present).1.length = vals.length := by simp [accrue]

/-- A validator that is absent or dropped is returned unchanged. -/
theorem accrue_absent (pot : Int) (vals : List Validator) (present : PubKey → Bool) (i : Nat) (v : Validator)
    (hv : vals[i]? = some v) (hp : isPresent present v = false) : (accrue pot vals present).1[i]? = some v := by
  rw [accrue_get, hv]; simp [hp]

/-- **Σ gains + remainder = pot.** -/
theorem accrue_conserves (pot : Int) (vals : List Validator) (present : PubKey → Bool) :
    accumOf (accrue pot vals present).1 + (accrue pot vals present).2 = accumOf vals + pot := by
  simp only [accrue, accumOf]
  rw [sumBy_map_v]
  have : sumBy (fun v => (if isPresent present v = true then
        ({ v with accum := v.accum + gainOf pot (totalPower vals present) v } : Validator) else v).accum) vals
      = sumBy (fun v => v.accum + (if isPresent present v = true then gainOf pot (totalPower vals present) v else 0)) vals := by
    apply sumBy_congr_mem
    intro v _
    split <;> simp
  rw [this, sumBy_add_v]
  have e : sumBy (fun v : Validator => v.accum) vals = sumBy Validator.accum vals := rfl
  omega

theorem totalPower_pos (vals : List Validator) (present : PubKey → Bool) (hst : ∀ v ∈ vals, 0 ≤ v.totalBip) :
    0 < totalPower vals present ∧
      sumBy (fun v => if isPresent present v then v.totalBip else 0) vals ≤ totalPower vals present := by
  have h0 : 0 ≤ sumBy (fun v => if isPresent present v then v.totalBip else 0) vals :=
    sumBy_nonneg _ _ (fun v hv => by have := hst v hv; split <;> omega)
  unfold totalPower
  simp only
  split <;> omega

/-- **The remainder is never negative** (pot and stakes non-negative), so it can be added to the slashed total. -/
theorem accrue_remainder_nonneg (pot : Int) (vals : List Validator) (present : PubKey → Bool)
    (hpot : 0 ≤ pot) (hst : ∀ v ∈ vals, 0 ≤ v.totalBip) : 0 ≤ (accrue pot vals present).2 := by
  obtain ⟨hpos, hle⟩ := totalPower_pos vals present hst
  simp only [accrue]
  have heq : sumBy (fun v => if isPresent present v = true then gainOf pot (totalPower vals present) v else 0) vals
      = sumBy (fun v => pot * (if isPresent present v = true then v.totalBip else 0) / totalPower vals present) vals := by
    apply sumBy_congr_mem
    intro v _
    split
    · rfl
    · simp
  rw [heq]
  have := sum_shares_le (fun v : Validator => if isPresent present v = true then v.totalBip else 0) pot
    (totalPower vals present) hpot hpos vals hle
  omega

/-- Every gain is non-negative and at most the pot. -/
theorem gainOf_bounds (pot tp : Int) (v : Validator) (hpot : 0 ≤ pot) (hs : 0 ≤ v.totalBip) (htp : 0 < tp) (hle : v.totalBip ≤ tp) :
    0 ≤ gainOf pot tp v ∧ gainOf pot tp v ≤ pot := by
  unfold gainOf
  constructor
  · exact Int.ediv_nonneg (Int.mul_nonneg hpot hs) (by omega)
  · have h1 : pot * v.totalBip ≤ pot * tp := Int.mul_le_mul_of_nonneg_left hle hpot
    have h2 := Int.ediv_le_ediv htp h1
    rwa [Int.mul_ediv_cancel _ (by omega : tp ≠ 0)] at h2

/-- **Dropped validators hand their accumulated reward back**: they end with 0, everybody else is untouched,
    and the amount returned is exactly what they had. -/
theorem returnDropped_get (vals : List Validator) (i : Nat) :
    (returnDropped vals).1[i]? = vals[i]?.map (fun v => if v.toDrop then { v with accum := 0 } else v) := by
  simp [returnDropped]

theorem returnDropped_conserves (vals : List Validator) :
    accumOf (returnDropped vals).1 + (returnDropped vals).2 = accumOf vals := by
  simp only [returnDropped, accumOf]
  rw [sumBy_map_v, ← sumBy_add_v]
  apply sumBy_congr_mem
  intro v _
  split <;> simp

theorem returnDropped_stakes (vals : List Validator) :
    ∀ v ∈ (returnDropped vals).1, ∃ w ∈ vals, v.totalBip = w.totalBip ∧ v.pubkey = w.pubkey ∧ v.toDrop = w.toDrop := by
  intro v hv
  simp only [returnDropped, List.mem_map] at hv
  obtain ⟨w, hw, rfl⟩ := hv
  exact ⟨w, hw, by split <;> simp⟩

/-- **The whole accrual of a block**: reward + fees + returned rewards are either accrued or go to the slashed total. -/
theorem endBlockAccrue_conserves (pot0 : Int) (vals : List Validator) (present : PubKey → Bool) :
    accumOf (endBlockAccrue pot0 vals present).1 + (endBlockAccrue pot0 vals present).2 = accumOf vals + pot0 := by
  unfold endBlockAccrue
  simp only
  rw [accrue_conserves]
  have := returnDropped_conserves vals
  omega

theorem endBlockAccrue_remainder_nonneg (pot0 : Int) (vals : List Validator) (present : PubKey → Bool)
    (hpot : 0 ≤ pot0) (hst : ∀ v ∈ vals, 0 ≤ v.totalBip) (hacc : ∀ v ∈ vals, 0 ≤ v.accum) :
    0 ≤ (endBlockAccrue pot0 vals present).2 := by
  unfold endBlockAccrue
  simp only
  apply accrue_remainder_nonneg
  · have : 0 ≤ (returnDropped vals).2 := by
      simp only [returnDropped]
      exact sumBy_nonneg _ _ (fun v hv => by have := hacc v hv; split <;> omega)
    omega
  · intro v hv
    obtain ⟨w, hw, h1, _, _⟩ := returnDropped_stakes vals v hv
    rw [h1]; exact hst w hw

/-- Pot 100, stakes 1,2,3 with the second absent and the third dropped (accumulated 7 returned): the first gets all 107. -/
example : (endBlockAccrue 100 [⟨1, 1, 5, [], 0, false⟩, ⟨2, 2, 0, [], 0, false⟩, ⟨3, 3, 7, [], 0, true⟩]
    (fun k => k == 1 || k == 3)).1.map (·.accum) = [112, 0, 0] := by decide
example : (endBlockAccrue 100 [⟨1, 3, 0, [], 0, false⟩, ⟨2, 4, 0, [], 0, false⟩] (fun _ => true))
    = ([⟨1, 3, 42, [], 0, false⟩, ⟨2, 4, 57, [], 0, false⟩], 1) := by decide

/-! ## Payout -/

/-- The ledger of the stake loop: what left `rem` went to a delegator, to the DAO/developers (net of `more`) or is `lost`. -/
def PayAcc.ledger (a : PayAcc) : Int := a.rem + paidTotal a.pays + a.dao + a.dev + a.lost - a.more

theorem stakeStep_ledger (p : PayIn) (D : Int) (a : PayAcc) (s : PStake) : (stakeStep p D a s).ledger = a.ledger := by
  unfold stakeStep
  simp only
  repeat' split
  all_goals simp only [PayAcc.ledger, paidTotal, sumBy]
  all_goals omega

theorem foldl_ledger (p : PayIn) (D : Int) (l : List PStake) (a : PayAcc) :
    (l.foldl (stakeStep p D) a).ledger = a.ledger := by
  induction l generalizing a with
  | nil => rfl
  | cons s t ih => rw [List.foldl_cons, ih, stakeStep_ledger]

theorem paidTotal_append (l₁ l₂ : List Payment) : paidTotal (l₁ ++ l₂) = paidTotal l₁ + paidTotal l₂ := sumBy_append_v _ _ _

theorem paidTotal_reverse (l : List Payment) : paidTotal l.reverse = paidTotal l := sumBy_perm _ (List.reverse_perm l)

/-- **Balance of one payout (unconditional).**  Everything paid, plus the remainder that goes to the slashed total, plus `lost`,
    equals the accrued amount plus `moreRewards` (which `EndBlock` adds to the emission).
    `lost` is the part of the proportional rewards of *locked* stakes whose increased reward came out below 1 pip:
    the code subtracts them from the remainder but pays them to nobody (`continue` before `AddUpdate`). -/
theorem payout_balance (p : PayIn) :
    paidTotal (payout p).payments + (payout p).remainder + (payout p).lost = p.accum + (payout p).more := by
  have h := foldl_ledger p (delegatorsPart p) p.stakes
    { dao := dao0 p.accum, dev := dev0 p.accum, more := 0, rem := p.accum - dao0 p.accum - dev0 p.accum - validatorCut p }
  simp only [payout]
  generalize p.stakes.foldl _ _ = a at h ⊢
  simp only [PayAcc.ledger, paidTotal, sumBy] at h
  rw [show ∀ (x : Payment) (l₁ l₂ : List Payment), paidTotal (x :: l₁ ++ l₂) = x.amount + paidTotal l₁ + paidTotal l₂ from
    fun x l₁ l₂ => by rw [List.cons_append]; simp only [paidTotal, sumBy]; rw [sumBy_append_v]; omega]
  rw [paidTotal_reverse]
  simp only [paidTotal, sumBy] at h ⊢
  omega

/-- The proportional reward of a stake, as the loop computes it (with the two guards). -/
def rewardOf (p : PayIn) (D : Int) (s : PStake) : Int :=
  if s.bip = 0 then 0 else if p.valStake = 0 then 0 else D * s.bip / p.valStake

theorem stakeStep_rem (p : PayIn) (D : Int) (a : PayAcc) (s : PStake) :
    (stakeStep p D a s).rem = a.rem - rewardOf p D s := by
  unfold stakeStep rewardOf
  simp only
  repeat' split
  all_goals try simp only []
  all_goals try omega

theorem foldl_rem (p : PayIn) (D : Int) (l : List PStake) (a : PayAcc) :
    (l.foldl (stakeStep p D) a).rem = a.rem - sumBy (rewardOf p D) l := by
  induction l generalizing a with
  | nil => simp [sumBy]
  | cons s t ih => rw [List.foldl_cons, ih, stakeStep_rem]; simp only [sumBy]; omega

/-- **The remainder**: accrued − 10 % − 10 % − commission − Σ delegator shares `⌊rest·bipᵢ/stake⌋`. -/
theorem payout_remainder (p : PayIn) :
    (payout p).remainder = delegatorsPart p - sumBy (rewardOf p (delegatorsPart p)) p.stakes := by
  simp only [payout]
  rw [foldl_rem]
  simp only [delegatorsPart]
  omega

/-- 10 % + 10 % + commission never exceed the accrued amount. -/
theorem delegatorsPart_nonneg (p : PayIn) (hacc : 0 ≤ p.accum) (hc0 : 0 ≤ p.commission) (hc1 : p.commission ≤ 100) :
    0 ≤ delegatorsPart p ∧ 0 ≤ validatorCut p ∧ 0 ≤ dao0 p.accum ∧ 0 ≤ dev0 p.accum := by
  have hR : 0 ≤ p.accum - dev0 p.accum - dao0 p.accum := by
    simp only [dev0, dao0, devCommission, daoCommission]; omega
  have hd : 0 ≤ dao0 p.accum ∧ 0 ≤ dev0 p.accum := by
    simp only [dev0, dao0, devCommission, daoCommission]; omega
  have h1 : (p.accum - dev0 p.accum - dao0 p.accum) * p.commission ≤ (p.accum - dev0 p.accum - dao0 p.accum) * 100 :=
    Int.mul_le_mul_of_nonneg_left hc1 hR
  have h2 := Int.ediv_le_ediv (by omega : (0 : Int) < 100) h1
  rw [Int.mul_ediv_cancel _ (by omega : (100 : Int) ≠ 0)] at h2
  have h3 : 0 ≤ (p.accum - dev0 p.accum - dao0 p.accum) * p.commission / 100 :=
    Int.ediv_nonneg (Int.mul_nonneg hR hc0) (by omega)
  simp only [delegatorsPart, validatorCut]
  exact ⟨by omega, h3, hd.1, hd.2⟩

/-- **The remainder is non-negative when the bip values of the stakes add up to at most the validator's recorded stake.**
    This is the hypothesis the `panic("Negative remainder")` of the code stands on. -/
theorem payout_remainder_nonneg (p : PayIn) (hacc : 0 ≤ p.accum) (hc0 : 0 ≤ p.commission) (hc1 : p.commission ≤ 100)
    (hv : 0 ≤ p.valStake) (hsum : sumBy (fun s => s.bip) p.stakes ≤ p.valStake) :
    0 ≤ (payout p).remainder := by
  rw [payout_remainder]
  have hD := (delegatorsPart_nonneg p hacc hc0 hc1).1
  by_cases hz : p.valStake = 0
  · have h0 : sumBy (rewardOf p (delegatorsPart p)) p.stakes = sumBy (fun _ => (0 : Int)) p.stakes := by
      apply sumBy_congr_mem
      intro s _
      unfold rewardOf
      rw [if_pos hz]
      split <;> rfl
    have h1 : ∀ l : List PStake, sumBy (fun _ : PStake => (0 : Int)) l = 0 := by
      intro l
      induction l with
      | nil => rfl
      | cons _ _ ih => simp only [sumBy, ih]; omega
    rw [h0, h1]
    omega
  · have hpos : 0 < p.valStake := by omega
    have : sumBy (rewardOf p (delegatorsPart p)) p.stakes
        = sumBy (fun s => delegatorsPart p * s.bip / p.valStake) p.stakes := by
      apply sumBy_congr_mem
      intro s _
      simp only [rewardOf, hz, if_false]
      split
      · next h0 => simp [h0]
      · rfl
    rw [this]
    have := sum_shares_le (fun s : PStake => s.bip) (delegatorsPart p) p.valStake hD hpos p.stakes hsum
    omega

/-! ### nothing is lost and nothing is negative when `calcReward ≤ 3·safeReward` -/

/-- What the node guarantees about the inputs of a payout (see INTEGRATION.md for why each holds in reachable states). -/
structure PayOK (p : PayIn) : Prop where
  accum : 0 ≤ p.accum
  com0 : 0 ≤ p.commission
  com1 : p.commission ≤ 100
  stake : 0 ≤ p.valStake
  bips : ∀ s ∈ p.stakes, 0 ≤ s.bip
  calc0 : 0 ≤ p.calcReward
  calc3 : p.calcReward ≤ 3 * p.safeReward
  period : 0 ≤ p.period
  ts : 0 ≤ p.totalStakes

/-- `x ↦ x − ⌊x·c/100⌋` is monotone for a commission `0 ≤ c ≤ 100`. -/
theorem afterCommission_mono (a b c : Int) (hab : a ≤ b) (hc1 : c ≤ 100) :
    a - a * c / 100 ≤ b - b * c / 100 := by
  have h1 : b * c ≤ a * c + (b - a) * 100 := by nlinarith
  have h2 := Int.ediv_le_ediv (by omega : (0 : Int) < 100) h1
  rw [Int.add_mul_ediv_right _ _ (by omega : (100 : Int) ≠ 0)] at h2
  omega

/-- The raw x3 amount is at least the raw calculated amount. -/
theorem x3_raw_ge (p : PayIn) (s : PStake) (h : PayOK p) (hb : 0 ≤ s.bip) (hV : 0 < p.valStake) (hT : 0 < p.totalAccum) :
    p.calcReward * p.period * s.bip * p.accum / p.valStake / p.totalAccum
      ≤ p.safeReward * p.period * s.bip * 3 * p.accum / p.valStake / p.totalAccum := by
  apply Int.ediv_le_ediv hT
  apply Int.ediv_le_ediv hV
  have hk : 0 ≤ p.period * s.bip * p.accum := Int.mul_nonneg (Int.mul_nonneg h.period hb) h.accum
  have := Int.mul_le_mul_of_nonneg_right h.calc3 hk
  nlinarith [this]

/-- After taxes and commission the x3 amount is still at least the calculated one. -/
theorem x3_safe_ge_calc (p : PayIn) (s : PStake) (h : PayOK p) (hb : 0 ≤ s.bip) (hV : 0 < p.valStake) (hT : 0 < p.totalAccum) :
    (x3Calc p s).1 ≤ (x3Safe p s).1 ∧ (x3Calc p s).2.1 ≤ (x3Safe p s).2 ∧ (x3Calc p s).2.2 ≤ (x3Safe p s).2 := by
  have hraw := x3_raw_ge p s h hb hV hT
  have hy0 : 0 ≤ p.calcReward * p.period * s.bip * p.accum / p.valStake / p.totalAccum := by
    apply Int.ediv_nonneg _ (by omega)
    apply Int.ediv_nonneg _ (by omega)
    exact Int.mul_nonneg (Int.mul_nonneg (Int.mul_nonneg h.calc0 h.period) hb) h.accum
  simp only [x3Calc, x3Safe, devCommission, daoCommission]
  generalize p.calcReward * p.period * s.bip * p.accum / p.valStake / p.totalAccum = y at *
  generalize p.safeReward * p.period * s.bip * 3 * p.accum / p.valStake / p.totalAccum = x at *
  refine ⟨?_, by omega, by omega⟩
  have hmid : y - y * 10 / 100 - y * 10 / 100 - (y - y * 10 / 100 - y * 10 / 100) * (10 + 10) / 100
      ≤ x - x * 10 / 100 - x * 10 / 100 := by omega
  have hle : (y - y * 10 / 100 - y * 10 / 100 - (y - y * 10 / 100 - y * 10 / 100) * (10 + 10) / 100)
      - (y - y * 10 / 100 - y * 10 / 100 - (y - y * 10 / 100 - y * 10 / 100) * (10 + 10) / 100) * p.commission / 100
      ≤ (x - x * 10 / 100 - x * 10 / 100) - (x - x * 10 / 100 - x * 10 / 100) * p.commission / 100 :=
    afterCommission_mono _ _ _ hmid h.com1
  exact hle

theorem rewardOf_nonneg (p : PayIn) (D : Int) (s : PStake) (hD : 0 ≤ D) (hb : 0 ≤ s.bip) (hv : 0 ≤ p.valStake) :
    0 ≤ rewardOf p D s := by
  unfold rewardOf
  split
  · omega
  · split
    · omega
    · exact Int.ediv_nonneg (Int.mul_nonneg hD hb) hv

/-- One step of the loop under `PayOK`: nothing is lost, DAO and developers never decrease. -/
theorem stakeStep_ok (p : PayIn) (h : PayOK p) (a : PayAcc) (s : PStake) (hs : 0 ≤ s.bip) :
    (stakeStep p (delegatorsPart p) a s).lost = a.lost ∧
    a.dao ≤ (stakeStep p (delegatorsPart p) a s).dao ∧ a.dev ≤ (stakeStep p (delegatorsPart p) a s).dev := by
  have hD := (delegatorsPart_nonneg p h.accum h.com0 h.com1).1
  have hr := rewardOf_nonneg p (delegatorsPart p) s hD hs h.stake
  unfold rewardOf at hr
  unfold stakeStep
  simp only []
  by_cases hb0 : s.bip = 0
  · rw [if_pos hb0]; exact ⟨rfl, le_refl _, le_refl _⟩
  rw [if_neg hb0]
  by_cases hv0 : p.valStake = 0
  · rw [if_pos hv0]; exact ⟨rfl, le_refl _, le_refl _⟩
  rw [if_neg hv0]
  rw [if_neg hb0, if_neg hv0] at hr
  have hV : 0 < p.valStake := by have := h.stake; omega
  by_cases hx : isX3 p s = true
  · rw [if_pos hx]
    by_cases hbr : p.totalAccum > 0 ∧ p.accum > 0
    · rw [if_pos hbr]
      obtain ⟨h1, h2, h3⟩ := x3_safe_ge_calc p s h hs hV hbr.1
      by_cases hlt : (x3Safe p s).1 + (delegatorsPart p * s.bip / p.valStake - (x3Calc p s).1) < 1
      · rw [if_pos hlt]
        refine ⟨?_, ?_, ?_⟩ <;> (try simp only []) <;> omega
      · rw [if_neg hlt]
        refine ⟨?_, ?_, ?_⟩ <;> (try simp only []) <;> omega
    · rw [if_neg hbr]
      by_cases hbr2 : p.totalAccum ≤ 0 ∧ p.accum ≤ 0
      · rw [if_pos hbr2]
        have hacc : p.accum = 0 := by have := h.accum; omega
        have hx0 : 0 ≤ p.safeReward * p.period * s.bip * 3 / p.totalStakes := by
          apply Int.ediv_nonneg _ h.ts
          have hS : 0 ≤ p.safeReward := by have := h.calc0; have := h.calc3; omega
          exact Int.mul_nonneg (Int.mul_nonneg (Int.mul_nonneg hS h.period) hs) (by omega)
        have hD0 : delegatorsPart p = 0 := by
          simp [delegatorsPart, validatorCut, dev0, dao0, hacc]
        have hrew : delegatorsPart p * s.bip / p.valStake = 0 := by rw [hD0]; simp
        simp only [devCommission, daoCommission]
        generalize p.safeReward * p.period * s.bip * 3 / p.totalStakes = x at hx0 ⊢
        by_cases hlt : x - x * 10 / 100 - x * 10 / 100 - (x - x * 10 / 100 - x * 10 / 100) * p.commission / 100 < 1
        · simp only [hlt, ↓reduceIte]
          refine ⟨?_, ?_, ?_⟩ <;> (try simp only []) <;> omega
        · simp only [hlt, ↓reduceIte]
          refine ⟨?_, ?_, ?_⟩ <;> (try simp only []) <;> omega
      · rw [if_neg hbr2]
        by_cases hlt : delegatorsPart p * s.bip / p.valStake < 1
        · simp only [hlt, ↓reduceIte]
          refine ⟨?_, ?_, ?_⟩ <;> (try simp only []) <;> omega
        · simp only [hlt, ↓reduceIte]
          refine ⟨?_, ?_, ?_⟩ <;> (try simp only []) <;> omega
  · rw [if_neg hx]
    by_cases hlt : delegatorsPart p * s.bip / p.valStake < 1
    · simp only [hlt, ↓reduceIte]
      refine ⟨?_, ?_, ?_⟩ <;> (try simp only []) <;> omega
    · simp only [hlt, ↓reduceIte]
      refine ⟨?_, ?_, ?_⟩ <;> (try simp only []) <;> omega

theorem foldl_ok (p : PayIn) (h : PayOK p) (l : List PStake) (hl : ∀ s ∈ l, 0 ≤ s.bip) (a : PayAcc) :
    (l.foldl (stakeStep p (delegatorsPart p)) a).lost = a.lost ∧
    a.dao ≤ (l.foldl (stakeStep p (delegatorsPart p)) a).dao ∧ a.dev ≤ (l.foldl (stakeStep p (delegatorsPart p)) a).dev := by
  induction l generalizing a with
  | nil => exact ⟨rfl, le_refl _, le_refl _⟩
  | cons s t ih =>
    rw [List.foldl_cons]
    obtain ⟨h1, h2, h3⟩ := stakeStep_ok p h a s (hl s (by simp))
    obtain ⟨g1, g2, g3⟩ := ih (fun x hx => hl x (by simp [hx])) (stakeStep p (delegatorsPart p) a s)
    exact ⟨by omega, by omega, by omega⟩

/-- Delegator payments are at least 1 pip — unconditionally (`if safeRewardVariable.Sign() < 1 { continue }`). -/
theorem stakeStep_pays (p : PayIn) (D : Int) (a : PayAcc) (s : PStake) :
    ∀ x ∈ (stakeStep p D a s).pays, x ∈ a.pays ∨ (1 ≤ x.amount ∧ x.role = Role.delegator ∧ x.addr = s.owner ∧ x.forCoin = s.coin) := by
  intro x hx
  unfold stakeStep at hx
  simp only at hx
  repeat' split at hx
  all_goals first
    | exact Or.inl hx
    | (simp only [List.mem_cons] at hx
       rcases hx with rfl | hx
       · right; exact ⟨by simp only []; omega, rfl, rfl, rfl⟩
       · exact Or.inl hx)

theorem foldl_pays (p : PayIn) (D : Int) (l : List PStake) (a : PayAcc) :
    ∀ x ∈ (l.foldl (stakeStep p D) a).pays, x ∈ a.pays ∨ (1 ≤ x.amount ∧ x.role = Role.delegator ∧ ∃ s ∈ l, x.addr = s.owner ∧ x.forCoin = s.coin) := by
  induction l generalizing a with
  | nil => intro x hx; exact Or.inl hx
  | cons s t ih =>
    intro x hx
    rw [List.foldl_cons] at hx
    rcases ih _ x hx with h | ⟨h1, h2, s', hs', h3⟩
    · rcases stakeStep_pays p D a s x h with h | ⟨h1, h2, h3, h4⟩
      · exact Or.inl h
      · exact Or.inr ⟨h1, h2, s, by simp, h3, h4⟩
    · exact Or.inr ⟨h1, h2, s', by simp [hs'], h3⟩

/-- **C19, payout.**  Under `PayOK` and `Σ bipᵢ ≤ validator stake`:
    the DAO gets at least `⌊10 %⌋`, the developers at least `⌊10 %⌋` (more only through the x3 taxes, which are part of `more`),
    the validator `⌊commission % of the rest⌋`; nothing is lost; no payment is negative;
    **Σ paid ≤ accrued + moreRewards** and the remainder `accrued + moreRewards − Σ paid` is non-negative. -/
theorem payout_main (p : PayIn) (h : PayOK p) (hsum : sumBy (fun s => s.bip) p.stakes ≤ p.valStake) :
    (payout p).lost = 0 ∧
    0 ≤ (payout p).remainder ∧
    (payout p).remainder = p.accum + (payout p).more - paidTotal (payout p).payments ∧
    paidTotal (payout p).payments ≤ p.accum + (payout p).more ∧
    (∀ x ∈ (payout p).payments, 0 ≤ x.amount) := by
  have hbal := payout_balance p
  have hrem := payout_remainder_nonneg p h.accum h.com0 h.com1 h.stake hsum
  obtain ⟨hD, hcut, hdao, hdev⟩ := delegatorsPart_nonneg p h.accum h.com0 h.com1
  have hfold := foldl_ok p h p.stakes h.bips
    { dao := dao0 p.accum, dev := dev0 p.accum, more := 0, rem := p.accum - dao0 p.accum - dev0 p.accum - validatorCut p }
  have hlost : (payout p).lost = 0 := by simp only [payout]; exact hfold.1
  refine ⟨hlost, hrem, by omega, by omega, ?_⟩
  intro x hx
  simp only [payout, List.mem_cons, List.mem_append, List.mem_reverse, List.mem_nil_iff, or_false] at hx
  rcases hx with (rfl | hx) | rfl | rfl
  · exact hcut
  · rcases foldl_pays p _ p.stakes _ x hx with h' | ⟨h1, _⟩
    · simp at h'
    · omega
  · simp only; have := hfold.2.1; simp only at this; omega
  · simp only; have := hfold.2.2; simp only at this; omega

/-- The fixed parts of the split, literally. -/
theorem payout_shares (p : PayIn) :
    (payout p).payments.head? = some ⟨.validator, p.rewardAddr, (p.accum - p.accum * 10 / 100 - p.accum * 10 / 100) * p.commission / 100, 0⟩ := by
  simp [payout, validatorCut, dev0, dao0, devCommission, daoCommission]

/-- Without locked stakes nothing is added to the emission and DAO/developers get exactly `⌊10 %⌋` each. -/
theorem stakeStep_plain (p : PayIn) (D : Int) (a : PayAcc) (s : PStake) (hx : isX3 p s = false) :
    (stakeStep p D a s).more = a.more ∧ (stakeStep p D a s).dao = a.dao ∧ (stakeStep p D a s).dev = a.dev := by
  unfold stakeStep
  simp only [hx]
  repeat' split
  all_goals simp_all

theorem payout_plain (p : PayIn) (hx : ∀ s ∈ p.stakes, isX3 p s = false) :
    (payout p).more = 0 ∧
    ⟨.dao, p.daoAddr, p.accum * 10 / 100, 0⟩ ∈ (payout p).payments ∧
    ⟨.developers, p.devAddr, p.accum * 10 / 100, 0⟩ ∈ (payout p).payments := by
  have key : ∀ (l : List PStake) (a : PayAcc), (∀ s ∈ l, isX3 p s = false) →
      (l.foldl (stakeStep p (delegatorsPart p)) a).more = a.more ∧ (l.foldl (stakeStep p (delegatorsPart p)) a).dao = a.dao ∧
      (l.foldl (stakeStep p (delegatorsPart p)) a).dev = a.dev := by
    intro l
    induction l with
    | nil => intro a _; exact ⟨rfl, rfl, rfl⟩
    | cons s t ih =>
      intro a hl
      rw [List.foldl_cons]
      obtain ⟨h1, h2, h3⟩ := stakeStep_plain p (delegatorsPart p) a s (hl s (by simp))
      obtain ⟨g1, g2, g3⟩ := ih (stakeStep p (delegatorsPart p) a s) (fun x hx' => hl x (by simp [hx']))
      exact ⟨by omega, by omega, by omega⟩
  obtain ⟨k1, k2, k3⟩ := key p.stakes
    { dao := dao0 p.accum, dev := dev0 p.accum, more := 0, rem := p.accum - dao0 p.accum - dev0 p.accum - validatorCut p } hx
  simp only [payout]
  refine ⟨k1, ?_, ?_⟩
  · simp only [List.mem_cons, List.mem_append, List.mem_reverse, List.mem_nil_iff, or_false]
    right; left
    rw [k2]; simp [dao0, daoCommission]
  · simp only [List.mem_cons, List.mem_append, List.mem_reverse, List.mem_nil_iff, or_false]
    right; right
    rw [k3]; simp [dev0, devCommission]

/-- A plain (not locked) delegator whose share is at least 1 pip receives exactly `⌊rest·bip/stake⌋`. -/
theorem stakeStep_plain_pays (p : PayIn) (D : Int) (a : PayAcc) (s : PStake) (hx : isX3 p s = false)
    (hb : s.bip ≠ 0) (hv : p.valStake ≠ 0) (h1 : 1 ≤ D * s.bip / p.valStake) :
    (stakeStep p D a s).pays = ⟨.delegator, s.owner, D * s.bip / p.valStake, s.coin⟩ :: a.pays := by
  have hge : ¬ (D * s.bip / p.valStake < 1) := by omega
  unfold stakeStep
  simp [hx, hb, hv, hge]

/-! ### all validators -/

theorem payoutAll_balance (height : Nat) (calcR safeR period : Int) (daoAddr devAddr : Addr) (vals : List PayVal) :
    sumBy (fun x => paidTotal x.2.payments + x.2.remainder + x.2.lost) (payoutAll height calcR safeR period daoAddr devAddr vals)
      = sumBy (fun v => v.accum) (vals.filter (·.hasCandidate))
        + sumBy (fun x => x.2.more) (payoutAll height calcR safeR period daoAddr devAddr vals) := by
  unfold payoutAll
  simp only
  rw [sumBy_map_v, sumBy_map_v, ← sumBy_add_v]
  apply sumBy_congr_mem
  intro v _
  exact payout_balance _

/-- Accrued 1000, commission 10 %, validator stake 100 with delegators 60 (plain) and 40 (plain): 100 + 100 + 80 + 432 + 288 = 1000. -/
example : (payout { accum := 1000, valStake := 100, commission := 10, rewardAddr := 7, daoAddr := 8, devAddr := 9, height := 50, calcReward := 5, safeReward := 5, period := 12, totalAccum := 1000, totalStakes := 0, stakes := [⟨1, 0, 60, 0⟩, ⟨2, 0, 40, 0⟩] }).payments.map (·.amount) = [80, 432, 288, 100, 100] := by decide

/-- The same with the second delegator locked (x3): it receives more, the difference and the extra taxes are `more`. -/
example : let o := payout { accum := 1000, valStake := 100, commission := 10, rewardAddr := 7, daoAddr := 8, devAddr := 9, height := 50, calcReward := 50, safeReward := 50, period := 12, totalAccum := 1000, totalStakes := 0, stakes := [⟨1, 0, 60, 0⟩, ⟨2, 0, 40, 60⟩] }
    (o.payments.map (·.amount), o.remainder, o.more, o.lost) = ([80, 432, 668, 148, 148], 0, 476, 0) := by decide

/-- Rounding leaves a remainder (7 accrued, three equal delegators of a stake of 3). -/
example : let o := payout { accum := 7, valStake := 3, commission := 0, rewardAddr := 7, daoAddr := 8, devAddr := 9, height := 50, calcReward := 0, safeReward := 0, period := 12, totalAccum := 7, totalStakes := 0, stakes := [⟨1, 0, 1, 0⟩, ⟨2, 0, 1, 0⟩, ⟨3, 0, 1, 0⟩] }
    (o.payments.map (·.amount), o.remainder) = ([0, 2, 2, 2, 0, 0], 1) := by decide

/-- **The excluded point of `payout_remainder_nonneg`**: stakes whose bip values exceed the validator's recorded stake
    make the remainder negative — the `panic("Negative remainder")` site of the code. -/
example : (payout { accum := 1000, valStake := 50, commission := 0, rewardAddr := 7, daoAddr := 8, devAddr := 9, height := 50, calcReward := 0, safeReward := 0, period := 12, totalAccum := 1000, totalStakes := 0, stakes := [⟨1, 0, 60, 0⟩, ⟨2, 0, 40, 0⟩] }).remainder = -800 := by decide

/-- **The excluded point of `PayOK.calc3`** (`calcReward > 3·safeReward`, impossible after `UpdatePriceFix`, which keeps
    `reward ≤ safeReward`): the proportional reward 240 of the locked stake is paid to nobody and is not in the remainder. -/
example : let o := payout { accum := 1000, valStake := 100, commission := 0, rewardAddr := 7, daoAddr := 8, devAddr := 9, height := 50, calcReward := 1000, safeReward := 1, period := 12, totalAccum := 1000, totalStakes := 0, stakes := [⟨1, 0, 30, 60⟩] }
    (o.payments.map (·.amount), o.remainder, o.more, o.lost) = ([0, -259, -259], 560, -718, 240) := by decide

end Minter
