import MinterProofs.Validators
import MinterProofs.Slots
/-
  C17 — "After every validator-set update the validators are exactly the top candidates by total stake (at most 64) that are
  online and have at least 1000 base-coin of stake, with powers proportional to stake (rounded down, at least 1).  Candidates
  ranked beyond the first 100 are removed with all their stakes unbonded, but a current validator is never removed.  When a
  candidate's 1000 delegation slots are full, an incoming delegation replaces the smallest stake only if it is not smaller,
  and whichever loses goes to the waitlist with its full value."

  The theorems are about `selectValidators`, `powerOf`/`validatorPowers`, `prunedCandidates`/`pruneBeyond`/`unbondAll`,
  `findSlot`/`slotReplace`/`applyUpdates` of MinterModel/Validators.lean, which the harness mode `valid` compares with
  `GetNewCandidates`, `updateValidators`, `RecalculateStakesV2`, `recalculateStakes` of the real node on every run.
-/
namespace Minter

/-! ## Selection -/

/-- Everything selected is one of the candidates, online, and has at least the minimal stake. -/
theorem select_qualified (limit : Nat) (minStake : Int) (cands : List Candidate) :
    ∀ c ∈ selectValidators limit minStake cands, c ∈ cands ∧ c.status = 2 ∧ minStake ≤ c.totalBip := by
  intro c hc
  have h1 := List.mem_of_mem_take hc
  rw [List.mem_filter, mem_sortStable] at h1
  refine ⟨h1.1, ?_⟩
  have := h1.2
  simp [qualifies] at this
  exact this

/-- The selection is the front of a rearrangement of the qualified candidates: nobody is invented or duplicated. -/
theorem select_front (limit : Nat) (minStake : Int) (cands : List Candidate) :
    ∃ rest, (selectValidators limit minStake cands ++ rest).Perm (cands.filter (qualifies minStake)) := by
  refine ⟨((sortStable candLess cands).filter (qualifies minStake)).drop limit, ?_⟩
  unfold selectValidators
  rw [List.take_append_drop]
  exact (sortStable_perm candLess cands).filter _

/-- Exactly `min limit (#qualified)` validators. -/
theorem select_length (limit : Nat) (minStake : Int) (cands : List Candidate) :
    (selectValidators limit minStake cands).length = min limit (cands.filter (qualifies minStake)).length := by
  unfold selectValidators
  rw [List.length_take, ((sortStable_perm candLess cands).filter (qualifies minStake)).length_eq]

/-- At most `limit` (64 in the node). -/
theorem select_le_limit (limit : Nat) (minStake : Int) (cands : List Candidate) :
    (selectValidators limit minStake cands).length ≤ limit := by
  rw [select_length]; omega

/-- Sorted by stake, largest first (ties: larger id first — the order of `getOrderedCandidates`). -/
theorem select_sorted (limit : Nat) (minStake : Int) (cands : List Candidate) :
    (selectValidators limit minStake cands).Pairwise
      (fun a b => b.totalBip < a.totalBip ∨ (b.totalBip = a.totalBip ∧ b.id ≤ a.id)) := by
  have h := sortStable_sorted candLess candLess_strictWeak cands
  have h2 := (h.sublist (List.filter_sublist (p := qualifies minStake))).sublist
              (List.take_sublist limit ((sortStable candLess cands).filter (qualifies minStake)))
  exact h2.imp (fun {a b} hab => (candLess_false_iff b a).mp hab)

theorem select_sorted_stake (limit : Nat) (minStake : Int) (cands : List Candidate) :
    (selectValidators limit minStake cands).Pairwise (fun a b => b.totalBip ≤ a.totalBip) :=
  (select_sorted limit minStake cands).imp (fun {a b} h => by omega)

/-- **Top-k**: a qualified candidate that was not selected has at most the stake of every selected one
    (and on equal stake a smaller or equal id). -/
theorem select_top (limit : Nat) (minStake : Int) (cands : List Candidate)
    (c : Candidate) (hc : c ∈ cands) (hq : qualifies minStake c = true) (hn : c ∉ selectValidators limit minStake cands) :
    ∀ s ∈ selectValidators limit minStake cands,
      c.totalBip < s.totalBip ∨ (c.totalBip = s.totalBip ∧ c.id ≤ s.id) := by
  intro s hs
  have hsorted := (sortStable_sorted candLess candLess_strictWeak cands).sublist
      (List.filter_sublist (p := qualifies minStake))
  have hF : c ∈ (sortStable candLess cands).filter (qualifies minStake) := by
    rw [List.mem_filter, mem_sortStable]; exact ⟨hc, hq⟩
  rw [← List.take_append_drop limit ((sortStable candLess cands).filter (qualifies minStake))] at hF hsorted
  rw [List.mem_append] at hF
  cases hF with
  | inl h => exact absurd h hn
  | inr h =>
    rw [List.pairwise_append] at hsorted
    exact (candLess_false_iff c s).mp (hsorted.2.2 s hs c h)

/-- With no more qualified candidates than places everybody qualified is selected. -/
theorem select_all_when_room (limit : Nat) (minStake : Int) (cands : List Candidate)
    (h : (cands.filter (qualifies minStake)).length ≤ limit) (c : Candidate) (hc : c ∈ cands) (hq : qualifies minStake c = true) :
    c ∈ selectValidators limit minStake cands := by
  unfold selectValidators
  rw [List.take_of_length_le]
  · rw [List.mem_filter, mem_sortStable]; exact ⟨hc, hq⟩
  · rw [((sortStable_perm candLess cands).filter (qualifies minStake)).length_eq]; exact h

/-- The three candidates 1 (5000), 2 (offline), 3 (5000) and 4 (below the minimum) with two places: 3 then 1 (larger id first). -/
example : (selectValidators 2 1000
    [⟨1, 1, 0, 0, 0, 0, 2, 0, 0, 5000, [], []⟩, ⟨2, 2, 0, 0, 0, 0, 1, 0, 0, 9000, [], []⟩,
     ⟨3, 3, 0, 0, 0, 0, 2, 0, 0, 5000, [], []⟩, ⟨4, 4, 0, 0, 0, 0, 2, 0, 0, 999, [], []⟩,
     ⟨5, 5, 0, 0, 0, 0, 2, 0, 0, 1000, [], []⟩]).map (·.id) = [3, 1] := by decide

/-! ## Powers -/

theorem powerOf_pos (stake total : Int) (hs : 0 ≤ stake) (ht : 0 < total) : 1 ≤ powerOf stake total := by
  unfold powerOf
  have : 0 ≤ stake * 100000000 / total := Int.ediv_nonneg (by omega) (by omega)
  simp only
  split <;> omega

/-- `power = max 1 ⌊stake·10⁸/total⌋`. -/
theorem powerOf_eq_max (stake total : Int) (hs : 0 ≤ stake) (ht : 0 < total) :
    powerOf stake total = max 1 (stake * 100000000 / total) := by
  unfold powerOf
  have : 0 ≤ stake * 100000000 / total := Int.ediv_nonneg (by omega) (by omega)
  simp only
  split <;> omega

theorem powerOf_le (stake total : Int) (hs : 0 ≤ stake) (ht : 0 < total) :
    powerOf stake total ≤ stake * 100000000 / total + 1 := by
  rw [powerOf_eq_max stake total hs ht]
  have : 0 ≤ stake * 100000000 / total := Int.ediv_nonneg (by omega) (by omega)
  omega

/-- A power fits `int64` (the code converts with `.Int64()`): it is at most 10⁸ for a member of the set. -/
theorem powerOf_le_1e8 (stake total : Int) (hs : 0 ≤ stake) (ht : 0 < total) (hle : stake ≤ total) :
    powerOf stake total ≤ 100000000 := by
  rw [powerOf_eq_max stake total hs ht]
  have h1 : stake * 100000000 ≤ 100000000 * total := by nlinarith
  have h2 : stake * 100000000 / total ≤ 100000000 * total / total := Int.ediv_le_ediv ht h1
  rw [Int.mul_ediv_cancel _ (by omega : total ≠ 0)] at h2
  omega

/-- The powers of a set add up to at most 10⁸ + n. -/
theorem validatorPowers_sum (sel : List Candidate) (hpos : ∀ c ∈ sel, 0 ≤ c.totalBip) (ht : 0 < totalStakeOf sel) :
    sumBy (fun p => p.2) (validatorPowers sel) ≤ 100000000 + sel.length := by
  unfold validatorPowers
  rw [sumBy_map_v]
  have h1 : sumBy (fun c => powerOf c.totalBip (totalStakeOf sel)) sel
      ≤ sumBy (fun c => 100000000 * c.totalBip / totalStakeOf sel + 1) sel := by
    apply sumBy_le
    intro c hc
    have := powerOf_le c.totalBip (totalStakeOf sel) (hpos c hc) ht
    rw [Int.mul_comm] at this
    exact this
  rw [sumBy_add_v, sumBy_const_one] at h1
  have h2 := sum_shares_le (fun c : Candidate => c.totalBip) 100000000 (totalStakeOf sel) (by omega) ht sel (le_refl _)
  simp only at h1 h2 ⊢
  omega

theorem validatorPowers_pos (sel : List Candidate) (hpos : ∀ c ∈ sel, 0 ≤ c.totalBip) (ht : 0 < totalStakeOf sel) :
    ∀ p ∈ validatorPowers sel, 1 ≤ p.2 := by
  intro p hp
  unfold validatorPowers at hp
  rw [List.mem_map] at hp
  obtain ⟨c, hc, rfl⟩ := hp
  exact powerOf_pos _ _ (hpos c hc) ht

/-- The guard of the division in `updateValidators`: a non-empty selection has a positive total stake. -/
theorem select_total_pos (limit : Nat) (minStake : Int) (hmin : 0 < minStake) (cands : List Candidate)
    (hne : selectValidators limit minStake cands ≠ []) : 0 < totalStakeOf (selectValidators limit minStake cands) := by
  have hq := select_qualified limit minStake cands
  generalize selectValidators limit minStake cands = sel at *
  cases sel with
  | nil => exact absurd rfl hne
  | cons c t =>
    have h0 : 0 ≤ sumBy (fun c : Candidate => c.totalBip) t :=
      sumBy_nonneg _ _ (fun x hx => by have := (hq x (by simp [hx])).2.2; omega)
    have := (hq c (by simp)).2.2
    simp only [totalStakeOf, sumBy]; omega

/-- **Powers of the new validator set**: each is `max 1 ⌊stake·10⁸/total⌋ ≥ 1`, their sum is at most `10⁸ + n`. -/
theorem select_powers (limit : Nat) (minStake : Int) (hmin : 0 < minStake) (cands : List Candidate)
    (hne : selectValidators limit minStake cands ≠ []) :
    let sel := selectValidators limit minStake cands
    (∀ p ∈ validatorPowers sel, 1 ≤ p.2) ∧
    (∀ c ∈ sel, powerOf c.totalBip (totalStakeOf sel) = max 1 (c.totalBip * 100000000 / totalStakeOf sel)) ∧
    sumBy (fun p => p.2) (validatorPowers sel) ≤ 100000000 + sel.length := by
  intro sel
  have ht := select_total_pos limit minStake hmin cands hne
  have hpos : ∀ c ∈ sel, 0 ≤ c.totalBip := fun c hc => by
    have := (select_qualified limit minStake cands c hc).2.2; omega
  exact ⟨validatorPowers_pos sel hpos ht, fun c hc => powerOf_eq_max _ _ (hpos c hc) ht, validatorPowers_sum sel hpos ht⟩

example : (validatorPowers [⟨1, 1, 0, 0, 0, 0, 2, 0, 0, 1000000000, [], []⟩, ⟨2, 2, 0, 0, 0, 0, 2, 0, 0, 1, [], []⟩,
     ⟨3, 3, 0, 0, 0, 0, 2, 0, 0, 2000000000, [], []⟩]).map (·.2) = [33333333, 1, 66666666] := by decide

/-- `ValidatorUpdates`: the new set first; afterwards exactly the active validators that are not in it, with power 0. -/
theorem validatorUpdates_spec (active : List PubKey) (new : List (PubKey × Int)) :
    ∀ p ∈ validatorUpdates active new,
      p ∈ new ∨ (p.2 = 0 ∧ p.1 ∈ active ∧ ∀ q ∈ new, q.1 ≠ p.1) := by
  intro p hp
  unfold validatorUpdates at hp
  rw [List.mem_append, List.mem_map] at hp
  cases hp with
  | inl h => exact Or.inl h
  | inr h =>
    obtain ⟨k, hk, rfl⟩ := h
    rw [List.mem_filter] at hk
    refine Or.inr ⟨rfl, hk.1, ?_⟩
    intro q hq heq
    have := hk.2
    simp only [Bool.not_eq_eq_eq_not, Bool.not_true, List.any_eq_false] at this
    have := this q hq
    simp at this
    exact this heq

/-! ## Pruning beyond the first 100 -/

/-- **A current validator is never removed.** -/
theorem pruned_not_validator (limit : Nat) (isValidator : PubKey → Bool) (cands : List Candidate) :
    ∀ d ∈ prunedCandidates limit isValidator cands, isValidator d.pubkey = false := by
  intro d hd
  unfold prunedCandidates at hd
  simp only at hd
  split at hd
  · simp at hd
  · rw [List.mem_filter] at hd
    simpa using hd.2

/-- Removed are exactly the non-validators ranked beyond `limit` in the order "larger stake first, then smaller id". -/
theorem pruned_iff (limit : Nat) (isValidator : PubKey → Bool) (cands : List Candidate) (d : Candidate) :
    d ∈ prunedCandidates limit isValidator cands ↔
      d ∈ (sortStable candLessID cands).drop limit ∧ isValidator d.pubkey = false := by
  unfold prunedCandidates
  simp only
  split
  · next h =>
    rw [List.drop_eq_nil_of_le (by omega)]
    simp
  · rw [List.mem_filter]; simp

/-- The `limit` best candidates are kept, and every removed candidate has at most the stake of each of them. -/
theorem pruned_worse (limit : Nat) (isValidator : PubKey → Bool) (cands : List Candidate) :
    ∀ d ∈ prunedCandidates limit isValidator cands, ∀ k ∈ (sortStable candLessID cands).take limit,
      d.totalBip < k.totalBip ∨ (d.totalBip = k.totalBip ∧ k.id ≤ d.id) := by
  intro d hd k hk
  rw [pruned_iff] at hd
  have hs := sortStable_sorted candLessID candLessID_strictWeak cands
  rw [← List.take_append_drop limit (sortStable candLessID cands), List.pairwise_append] at hs
  exact (candLessID_false_iff d k).mp (hs.2.2 k hk d hd.1)

theorem pruned_subset (limit : Nat) (isValidator : PubKey → Bool) (cands : List Candidate) :
    ∀ d ∈ prunedCandidates limit isValidator cands, d ∈ cands := by
  intro d hd
  rw [pruned_iff] at hd
  exact (mem_sortStable candLessID cands d).mp (List.mem_of_mem_drop hd.1)

/-- With at most `limit` candidates nobody is removed. -/
theorem pruned_nil_of_le (limit : Nat) (isValidator : PubKey → Bool) (cands : List Candidate) (h : cands.length ≤ limit) :
    prunedCandidates limit isValidator cands = [] := by
  apply List.eq_nil_iff_forall_not_mem.mpr
  intro d hd
  rw [pruned_iff, List.drop_eq_nil_of_le (by rw [sortStable_length]; exact h)] at hd
  simp at hd

/-- `pruneBeyond` keeps every current validator and every candidate of the first `limit`; (ids are unique in the node: map key). -/
theorem pruneBeyond_keeps (limit : Nat) (isValidator : PubKey → Bool) (cands : List Candidate)
    (huniq : ∀ a ∈ cands, ∀ b ∈ cands, a.id = b.id → a = b) (c : Candidate) (hc : c ∈ cands) :
    c ∈ pruneBeyond limit isValidator cands ↔ c ∉ prunedCandidates limit isValidator cands := by
  unfold pruneBeyond
  rw [List.mem_filter]
  constructor
  · intro h hp
    have := h.2
    simp only [Bool.not_eq_eq_eq_not, Bool.not_true, List.any_eq_false] at this
    have := this c hp
    simp at this
  · intro h
    refine ⟨hc, ?_⟩
    simp only [Bool.not_eq_eq_eq_not, Bool.not_true, List.any_eq_false]
    intro d hd
    simp only [beq_iff_eq]
    intro heq
    have := huniq d (pruned_subset limit isValidator cands d hd) c hc heq
    subst this
    exact h hd

theorem pruneBeyond_validator_stays (limit : Nat) (isValidator : PubKey → Bool) (cands : List Candidate)
    (huniq : ∀ a ∈ cands, ∀ b ∈ cands, a.id = b.id → a = b) (c : Candidate) (hc : c ∈ cands)
    (hv : isValidator c.pubkey = true) : c ∈ pruneBeyond limit isValidator cands := by
  rw [pruneBeyond_keeps limit isValidator cands huniq c hc]
  intro hp
  have := pruned_not_validator limit isValidator cands c hp
  rw [hv] at this
  exact absurd this (by simp)

/-- "Removed with all their stakes unbonded": the frozen funds created for a removed candidate carry, coin by coin,
    everything it held (stakes and pending updates, full coin values). -/
theorem unbondAll_value (due : Height) (c : Candidate) (coin : Coin) :
    sumBy (fun f => if f.coin = coin then f.value else 0) (unbondAll due c) = candHoldings coin c := by
  unfold unbondAll candHoldings
  rw [sumBy_map_v, sumBy_append_v]
  rfl

theorem unbondAll_spec (due : Height) (c : Candidate) :
    ∀ f ∈ unbondAll due c, f.height = due ∧ f.candId = c.id ∧ f.candKey = some c.pubkey ∧ f.moveTo = 0 := by
  intro f hf
  unfold unbondAll at hf
  rw [List.mem_map] at hf
  obtain ⟨s, _, rfl⟩ := hf
  exact ⟨rfl, rfl, rfl, rfl⟩

/-- Three places, candidate 4 is a validator: 5 (smallest stake, not a validator) goes, on the tie 2/3 the larger id goes. -/
example : (prunedCandidates 2 (fun k => k == 4)
    [⟨1, 1, 0, 0, 0, 0, 2, 0, 0, 9000, [], []⟩, ⟨2, 2, 0, 0, 0, 0, 1, 0, 0, 5000, [], []⟩,
     ⟨3, 3, 0, 0, 0, 0, 2, 0, 0, 5000, [], []⟩, ⟨4, 4, 0, 0, 0, 0, 2, 0, 0, 10, [], []⟩,
     ⟨5, 5, 0, 0, 0, 0, 2, 0, 0, 11, [], []⟩]).map (·.id) = [3, 5] := by decide

/-! ## The delegation slots -/

/-- **All slots full.**  Let `s` be the first stake with the smallest bip value.  The incoming update `u` replaces it
    **iff `u.bip ≥ s.bip`** (the code kicks the update only when `smallestStake.Cmp(update.BipValue) == 1`, i.e. strictly greater);
    the loser — `u` itself or `s` — is what goes to the waitlist, as the whole stake record (owner, coin, full coin `value`). -/
theorem slotReplace_full (l : List Stake) (hne : l ≠ []) (u : Stake) :
    ∃ j s, l[j]? = some s ∧ (∀ x ∈ l, s.bip ≤ x.bip) ∧ (∀ k' s', k' < j → l[k']? = some s' → s.bip < s'.bip) ∧
      slotReplace (l.map some) u =
        if u.bip < s.bip then { slots := l.map some, kicked := some u }
        else { slots := (l.map some).set j (some u), kicked := some s } := by
  obtain ⟨j, m, hf, _⟩ := findSlot_some (l.map some) (by simpa using hne)
  obtain ⟨s, hs, hb, hmin, hfirst⟩ := findSlot_full l j m hf
  subst hb
  refine ⟨j, s, hs, hmin, hfirst, ?_⟩
  unfold slotReplace
  rw [hf]
  simp only
  have hget : (l.map some).getD j none = some s := by
    rw [List.getD_eq_getElem?_getD, List.getElem?_map, hs]; rfl
  by_cases hlt : u.bip < s.bip
  · rw [if_pos hlt, if_pos (by omega)]
  · rw [if_neg hlt, if_neg (by omega), hget]

/-- The evicted stake keeps its full value on the way to the waitlist and the update sits in its slot afterwards. -/
theorem slotReplace_full_evicts (l : List Stake) (hne : l ≠ []) (u : Stake) (hge : ∃ x ∈ l, x.bip ≤ u.bip) :
    ∃ j s, l[j]? = some s ∧ (∀ x ∈ l, s.bip ≤ x.bip) ∧
      (slotReplace (l.map some) u).kicked = some s ∧ (slotReplace (l.map some) u).slots = (l.map some).set j (some u) := by
  obtain ⟨j, s, hs, hmin, _, heq⟩ := slotReplace_full l hne u
  obtain ⟨x, hx, hxu⟩ := hge
  have : ¬ u.bip < s.bip := by have := hmin x hx; omega
  rw [if_neg this] at heq
  exact ⟨j, s, hs, hmin, by rw [heq], by rw [heq]⟩

/-- An update smaller than every stake goes to the waitlist itself, with its full value, and no slot changes. -/
theorem slotReplace_full_rejects (l : List Stake) (hne : l ≠ []) (u : Stake) (hlt : ∀ x ∈ l, u.bip < x.bip) :
    slotReplace (l.map some) u = { slots := l.map some, kicked := some u } := by
  obtain ⟨j, s, hs, _, _, heq⟩ := slotReplace_full l hne u
  have : u.bip < s.bip := hlt s (List.mem_of_getElem? hs)
  rw [if_pos this] at heq
  exact heq

/-- **A free slot**: nobody is kicked, the update takes the first free slot. -/
theorem slotReplace_free (pre : List Stake) (rest : Slots) (u : Stake) (hu : 0 ≤ u.bip) :
    slotReplace (pre.map some ++ none :: rest) u = { slots := pre.map some ++ some u :: rest, kicked := none } := by
  unfold slotReplace findSlot
  rw [findSlotAux_free]
  simp only [Nat.zero_add]
  rw [if_neg (by omega)]
  have h1 := set_append_length (pre.map some) none (some u) rest
  have h2 := getD_append_length (pre.map some) (none : Option Stake) none rest
  rw [List.length_map] at h1 h2
  rw [h1, h2]

/-- **Value is conserved** by one replacement step, coin by coin: slots + waitlist afterwards = slots + update before. -/
theorem slotReplace_conserves (slots : Slots) (hne : slots ≠ []) (u : Stake) (coin : Coin) :
    slotsHold coin (slotReplace slots u).slots + optHold coin (slotReplace slots u).kicked
      = slotsHold coin slots + stakeOf coin u := by
  obtain ⟨j, m, hf, hj⟩ := findSlot_some slots hne
  unfold slotReplace
  rw [hf]
  simp only
  split
  · simp [optHold]
  · simp only
    have := sumBy_set (optHold coin) none slots j (some u) hj
    simpa [slotsHold, optHold] using this

theorem slotReplace_length (slots : Slots) (u : Stake) : (slotReplace slots u).slots.length = slots.length := by
  unfold slotReplace
  split
  · rfl
  · split <;> simp

/-- All updates of a recalculation: what the slots hold afterwards plus everything kicked to the waitlist equals
    what the slots held plus all updates. -/
theorem applyUpdates_conserves (slots : Slots) (hne : slots ≠ []) (us : List Stake) (coin : Coin) :
    slotsHold coin (applyUpdates slots us).1 + sumBy (stakeOf coin) (applyUpdates slots us).2
      = slotsHold coin slots + sumBy (stakeOf coin) us := by
  induction us generalizing slots with
  | nil => simp [applyUpdates, sumBy]
  | cons u t ih =>
    have hstep := slotReplace_conserves slots hne u coin
    have hne' : (slotReplace slots u).slots ≠ [] := by
      intro h
      have := slotReplace_length slots u
      rw [h] at this
      exact hne (List.eq_nil_of_length_eq_zero this.symm)
    have hrest := ih (slotReplace slots u).slots hne'
    simp only [applyUpdates, sumBy_append_v, sumBy]
    cases hk : (slotReplace slots u).kicked with
    | none => rw [hk] at hstep; simp only [optHold, sumBy] at hstep ⊢; omega
    | some k => rw [hk] at hstep; simp only [optHold, sumBy] at hstep ⊢; omega

/-- Kicked stakes are always whole records of either an update or a previous occupant (nothing is invented, values untouched). -/
theorem slotReplace_kicked_mem (slots : Slots) (u k : Stake) (h : (slotReplace slots u).kicked = some k) :
    k = u ∨ some k ∈ slots := by
  unfold slotReplace at h
  split at h
  · simp at h
  · next i m _ =>
    split at h
    · left; simpa using h.symm
    · right
      simp only at h
      rw [List.getD_eq_getElem?_getD] at h
      cases hg : slots[i]? with
      | none => rw [hg] at h; simp at h
      | some o =>
        rw [hg] at h
        simp only [Option.getD_some] at h
        rw [h] at hg
        exact List.mem_of_getElem? hg

/-- Three full slots with bip 7, 5, 5: an update of 5 replaces the FIRST 5 (owner 2), 4 is rejected, 6 replaces too. -/
example : (slotReplace [some ⟨1, 0, 7, 7⟩, some ⟨2, 0, 5, 5⟩, some ⟨3, 0, 5, 5⟩] ⟨9, 0, 5, 5⟩)
    = { slots := [some ⟨1, 0, 7, 7⟩, some ⟨9, 0, 5, 5⟩, some ⟨3, 0, 5, 5⟩], kicked := some ⟨2, 0, 5, 5⟩ } := by decide
example : (slotReplace [some ⟨1, 0, 7, 7⟩, some ⟨2, 0, 5, 5⟩, some ⟨3, 0, 5, 5⟩] ⟨9, 0, 4, 4⟩).kicked = some ⟨9, 0, 4, 4⟩ := by decide
example : (slotReplace [some ⟨1, 0, 7, 7⟩, none, some ⟨3, 0, 5, 5⟩] ⟨9, 0, 4, 4⟩)
    = { slots := [some ⟨1, 0, 7, 7⟩, some ⟨9, 0, 4, 4⟩, some ⟨3, 0, 5, 5⟩], kicked := none } := by decide
/-- The waitlist receives the coin value (300), not the bip value (5). -/
example : ((slotReplace [some ⟨1, 7, 300, 5⟩] ⟨9, 0, 6, 6⟩).kicked.map (·.value)) = some 300 := by decide

end Minter
