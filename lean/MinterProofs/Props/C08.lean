import MinterModel.Determinism
import MinterModel.Gen.Facts
/-
  C08 — Execution is deterministic across node instances.
  (a) The model's step function is a function: the same ops give the same observations (definitional).
  (b) The places where Go is nondeterministic — map iteration — are an adversarial permutation; what each module
      writes to the tree, every commutative accumulation and the candidate ranking do not depend on it.
  (c) Regenerated from the source on every run: every `range` over a map in the state-mutating packages matches an
      order-insensitive pattern or is on the reviewed list. A new or re-shaped loop breaks `C08_range_sites_safe`.
  Not covered by proof (exercised by the multi-process determinism mode only): goroutine scheduling, anything
  order-dependent inside IAVL / goleveldb / tm-db, and the syntactic classifier itself (trusted).
-/
namespace Minter
open List

theorem keyLe_trans {β : Type} (a b c : Nat × β) : decide (a.1 ≤ b.1) = true → decide (b.1 ≤ c.1) = true → decide (a.1 ≤ c.1) = true := by
  simp only [decide_eq_true_eq]; omega

theorem keyLe_total {β : Type} (a b : Nat × β) : (decide (a.1 ≤ b.1) || decide (b.1 ≤ a.1)) = true := by
  simp only [Bool.or_eq_true, decide_eq_true_eq]; omega

/-- Entries with pairwise distinct keys: equal keys mean the same entry. -/
def DistinctKeys {β : Type} (l : List (Nat × β)) : Prop := ∀ a ∈ l, ∀ b ∈ l, a.1 = b.1 → a = b

/-- **C08 (b1).** The sequence of tree writes of a module commit does not depend on the order in which the dirty map was iterated. -/
theorem C08_commit_perm_invariant {β : Type} (d₁ d₂ : List (Nat × β)) (hp : d₁ ~ d₂) (hk : DistinctKeys d₁) :
    commitWrites d₁ = commitWrites d₂ := by
  unfold commitWrites
  have p1 := mergeSort_perm d₁ (fun a b => decide (a.1 ≤ b.1))
  have p2 := mergeSort_perm d₂ (fun a b => decide (a.1 ≤ b.1))
  have s1 := pairwise_mergeSort (le := fun (a b : Nat × β) => decide (a.1 ≤ b.1)) keyLe_trans keyLe_total d₁
  have s2 := pairwise_mergeSort (le := fun (a b : Nat × β) => decide (a.1 ≤ b.1)) keyLe_trans keyLe_total d₂
  refine Perm.eq_of_pairwise (le := fun (a b : Nat × β) => decide (a.1 ≤ b.1) = true) ?_ s1 s2 (p1.trans (hp.trans p2.symm))
  intro a b ha hb hab hba
  have ha' : a ∈ d₁ := p1.subset ha
  have hb' : b ∈ d₁ := hp.symm.subset (p2.subset hb)
  simp only [decide_eq_true_eq] at hab hba
  exact hk a ha' b hb' (by omega)

/-- **C08 (b2).** Commutative accumulations (sums of stakes / deltas) are independent of the iteration order. -/
theorem C08_accumulate_perm_invariant (v₁ v₂ : List (Nat × Int)) (hp : v₁ ~ v₂) : accumulate v₁ = accumulate v₂ := by
  unfold accumulate
  apply Perm.foldl_eq' hp
  intro x _ y _ z
  omega

theorem rankLe_trans (a b c : Nat × Int) : rankLe a b = true → rankLe b c = true → rankLe a c = true := by
  unfold rankLe
  simp only [Bool.or_eq_true, Bool.and_eq_true, decide_eq_true_eq]
  omega

theorem rankLe_total (a b : Nat × Int) : (rankLe a b || rankLe b a) = true := by
  unfold rankLe
  simp only [Bool.or_eq_true, Bool.and_eq_true, decide_eq_true_eq]
  omega

/-- **C08 (b3).** The candidate ranking (stake desc, id desc) is independent of the order the candidate map was iterated. -/
theorem C08_rank_perm_invariant (c₁ c₂ : List (Nat × Int)) (hp : c₁ ~ c₂) (hk : DistinctKeys c₁) :
    rankCandidates c₁ = rankCandidates c₂ := by
  unfold rankCandidates
  have p1 := mergeSort_perm c₁ rankLe
  have p2 := mergeSort_perm c₂ rankLe
  have s1 := pairwise_mergeSort (le := rankLe) rankLe_trans rankLe_total c₁
  have s2 := pairwise_mergeSort (le := rankLe) rankLe_trans rankLe_total c₂
  refine Perm.eq_of_pairwise (le := fun a b => rankLe a b = true) ?_ s1 s2 (p1.trans (hp.trans p2.symm))
  intro a b ha hb hab hba
  have ha' : a ∈ c₁ := p1.subset ha
  have hb' : b ∈ c₁ := hp.symm.subset (p2.subset hb)
  unfold rankLe at hab hba
  simp only [Bool.or_eq_true, Bool.and_eq_true, decide_eq_true_eq] at hab hba
  exact hk a ha' b hb' (by omega)

theorem rankLessIdLe_trans (a b c : Nat × Int) : rankLessIdLe a b = true → rankLessIdLe b c = true → rankLessIdLe a c = true := by
  unfold rankLessIdLe
  simp only [Bool.or_eq_true, Bool.and_eq_true, decide_eq_true_eq]
  omega

theorem rankLessIdLe_total (a b : Nat × Int) : (rankLessIdLe a b || rankLessIdLe b a) = true := by
  unfold rankLessIdLe
  simp only [Bool.or_eq_true, Bool.and_eq_true, decide_eq_true_eq]
  omega

/-- **C08 (b4).** The pruning order (stake desc, id ASC: `getOrderedCandidatesLessID`) is independent of the order in which the
    candidate map was iterated - for any number of candidates and any stakes, equal ones included. It is the id tie-break that
    carries this: ids are distinct (`DistinctKeys`), so two entries that rank each other both ways are the same entry. -/
theorem C08_prune_rank_perm_invariant (c₁ c₂ : List (Nat × Int)) (hp : c₁ ~ c₂) (hk : DistinctKeys c₁) :
    pruneRankCandidates c₁ = pruneRankCandidates c₂ := by
  unfold pruneRankCandidates
  have p1 := mergeSort_perm c₁ rankLessIdLe
  have p2 := mergeSort_perm c₂ rankLessIdLe
  have s1 := pairwise_mergeSort (le := rankLessIdLe) rankLessIdLe_trans rankLessIdLe_total c₁
  have s2 := pairwise_mergeSort (le := rankLessIdLe) rankLessIdLe_trans rankLessIdLe_total c₂
  refine Perm.eq_of_pairwise (le := fun a b => rankLessIdLe a b = true) ?_ s1 s2 (p1.trans (hp.trans p2.symm))
  intro a b ha hb hab hba
  have ha' : a ∈ c₁ := p1.subset ha
  have hb' : b ∈ c₁ := hp.symm.subset (p2.subset hb)
  unfold rankLessIdLe at hab hba
  simp only [Bool.or_eq_true, Bool.and_eq_true, decide_eq_true_eq] at hab hba
  exact hk a ha' b hb' (by omega)

/-- Hence the candidates removed beyond the limit, and the order in which they are removed (the order of the frozen-fund
    entries `DeleteCandidate` appends), do not depend on the iteration order either. -/
theorem C08_pruned_tail_perm_invariant (limit : Nat) (c₁ c₂ : List (Nat × Int)) (hp : c₁ ~ c₂) (hk : DistinctKeys c₁) :
    prunedTail limit c₁ = prunedTail limit c₂ := by
  unfold prunedTail
  rw [C08_prune_rank_perm_invariant c₁ c₂ hp hk]

/-- The tie-break is necessary: a stable sort by stake alone returns two different orders - and with limit 1 two different
    pruned candidates - for two iteration orders of the same two equal-stake candidates. -/
theorem C08_stake_only_order_depends_on_iteration :
    ∃ c₁ c₂ : List (Nat × Int), c₁ ~ c₂ ∧ DistinctKeys c₁ ∧ (c₁.mergeSort stakeOnlyLe).drop 1 ≠ (c₂.mergeSort stakeOnlyLe).drop 1 := by
  refine ⟨[(1, 5), (2, 5)], [(2, 5), (1, 5)], Perm.swap _ _ _, ?_,
    by simp [List.mergeSort, stakeOnlyLe, List.MergeSort.Internal.splitInTwo]⟩
  intro a ha b hb h
  simp only [List.mem_cons, List.mem_nil_iff, or_false] at ha hb
  rcases ha with rfl | rfl <;> rcases hb with rfl | rfl <;> simp_all

/-- **C08 (c).** Regenerated obligation: every map iteration found in the current source is order-insensitive by pattern or reviewed. -/
theorem C08_range_sites_safe : rangeSitesOk Gen.rangeSites = true := by decide +kernel

/-- The persistence calls of `Blockchain.Commit` are the expected ones, in the expected order (used by C09/C10 as well). -/
theorem C08_commit_call_order : Gen.commitCalls = expectedCommitCalls := by decide +kernel

/-! Non-vacuity: a dirty map iterated in two different orders satisfies the hypotheses. -/
example : commitWrites [(3, "c"), (1, "a")] = commitWrites [(1, "a"), (3, "c")] :=
  C08_commit_perm_invariant _ _ (Perm.swap _ _ _) (by
    intro a ha b hb h
    simp only [List.mem_cons, List.mem_nil_iff, or_false] at ha hb
    rcases ha with rfl | rfl <;> rcases hb with rfl | rfl <;> simp_all)

/-! Non-vacuity of the pruning-order theorem: five candidates of equal stake around the limit, iterated in two orders;
    the tail is the one with the larger ids whatever the iteration order was. -/
example : prunedTail 3 [(6, 7), (1, 9), (4, 7), (2, 7), (5, 7), (3, 7)] = prunedTail 3 [(1, 9), (6, 7), (4, 7), (2, 7), (5, 7), (3, 7)] :=
  C08_pruned_tail_perm_invariant 3 _ _ (Perm.swap _ _ _) (by
    intro a ha b hb h
    simp only [List.mem_cons, List.mem_nil_iff, or_false] at ha hb
    rcases ha with rfl | rfl | rfl | rfl | rfl | rfl <;> rcases hb with rfl | rfl | rfl | rfl | rfl | rfl <;> simp_all)
example : prunedTail 3 [(6, 7), (1, 9), (4, 7), (2, 7), (5, 7), (3, 7)] = [(4, 7), (5, 7), (6, 7)] := by
  simp [prunedTail, pruneRankCandidates, List.mergeSort, rankLessIdLe, List.MergeSort.Internal.splitInTwo]

end Minter
