import MinterProofs.Props.C13Orders
import MinterProofs.FloatLemmas
/-
  C14 — limit orders: price of every fill, priority, partial fills keep the price, dust closure, cancel / expire.
  All statements are about `MinterModel/Orders.lean` (`Minter.Lob`), for every book, every oracle, every amount.
-/
namespace Minter.Lob
open Minter

/-! ## 1. A fill is at the order's own price -/

/-- The owner's bookkeeping of a fill: `D = Δbuy·wantSell − Δsell·wantBuy` is what the owner received above (+) or
    below (−) the order's exact price, in units of (coin0 × wantSell). -/
def fillSlack (o : Order) (f : Fill) : Int := f.buy * o.wantSell - f.sell * o.wantBuy

/-- `f` is a fill of order `o` within the order's volumes, at its own price up to less than one unit of rounding:
    `−wantSell < D` (the owner is short by less than ONE unit of the coin he buys) and `D < wantBuy`
    (the taker is short by less than one unit of the coin he receives). -/
structure FillOk (o : Order) (f : Fill) : Prop where
  id : f.id = o.id
  owner : f.owner = o.owner
  buy_nonneg : 0 ≤ f.buy
  buy_le : f.buy ≤ o.wantBuy
  sell_nonneg : 0 ≤ f.sell
  sell_le : f.sell ≤ o.wantSell
  owner_price : -o.wantSell < fillSlack o f
  taker_price : fillSlack o f < o.wantBuy

theorem fullFill_ok (o : Order) (hb : 0 < o.wantBuy) (hs : 0 < o.wantSell) : FillOk o o.fullFill := by
  refine ⟨rfl, rfl, le_of_lt hb, le_refl _, le_of_lt hs, le_refl _, ?_, ?_⟩ <;>
    simp only [fillSlack, Order.fullFill] <;> nlinarith

/-- Sell side: the three clamps of the Go code never fire; the order gives `⌊wantSell·amount0 / wantBuy⌋`. -/
theorem partialSellAmount_eq (o : Order) (a0 a1 : Int) (hb : 0 < o.wantBuy) (hs : 0 < o.wantSell)
    (h0 : 0 ≤ a0) (hle : a0 ≤ o.wantBuy) (h : partialSellAmount o a0 = .ok a1) :
    a1 = o.wantSell * a0 / o.wantBuy := by
  have hr := ratInt_eq_ediv (o.wantSell * a0) o.wantBuy (mul_nonneg (le_of_lt hs) h0) hb
  have hfl : o.wantSell * a0 / o.wantBuy * o.wantBuy ≤ o.wantSell * a0 := Int.ediv_mul_le _ (ne_of_gt hb)
  have hup : o.wantSell * a0 < (o.wantSell * a0 / o.wantBuy + 1) * o.wantBuy := Int.lt_ediv_add_one_mul_self _ hb
  -- ⌊sell·a0/buy⌋ ≤ sell, with equality only for a0 = buy
  have hq_le : o.wantSell * a0 / o.wantBuy ≤ o.wantSell := by
    have : o.wantSell * a0 ≤ o.wantSell * o.wantBuy := by nlinarith
    by_contra hc
    have : (o.wantSell + 1) * o.wantBuy ≤ o.wantSell * a0 / o.wantBuy * o.wantBuy := by nlinarith
    nlinarith
  have hfull : a0 = o.wantBuy → o.wantSell * a0 / o.wantBuy = o.wantSell := by
    intro e; rw [e]; exact Int.mul_ediv_cancel _ (ne_of_gt hb)
  unfold partialSellAmount at h
  simp only at h
  rw [hr] at h
  split at h
  · cases h
  · next hne =>
    cases h
    have h1 : ¬ o.wantSell * a0 / o.wantBuy > o.wantSell := by omega
    rw [if_neg h1]
    split
    · next hc => have := hfull hc.2; omega
    · rfl

theorem partialSell_ok (o : Order) (a0 a1 : Int) (hb : 0 < o.wantBuy) (hs : 0 < o.wantSell)
    (h0 : 0 ≤ a0) (hle : a0 ≤ o.wantBuy) (h : partialSellAmount o a0 = .ok a1) :
    FillOk o ⟨o.id, a0, a1, o.owner⟩ ∧ 0 ≤ fillSlack o ⟨o.id, a0, a1, o.owner⟩ := by
  have e := partialSellAmount_eq o a0 a1 hb hs h0 hle h
  have hfl : o.wantSell * a0 / o.wantBuy * o.wantBuy ≤ o.wantSell * a0 := Int.ediv_mul_le _ (ne_of_gt hb)
  have hup : o.wantSell * a0 < (o.wantSell * a0 / o.wantBuy + 1) * o.wantBuy := Int.lt_ediv_add_one_mul_self _ hb
  have hnn : 0 ≤ o.wantSell * a0 / o.wantBuy := Int.ediv_nonneg (mul_nonneg (le_of_lt hs) h0) (le_of_lt hb)
  have hq_le : o.wantSell * a0 / o.wantBuy ≤ o.wantSell := by
    by_contra hc
    have : (o.wantSell + 1) * o.wantBuy ≤ o.wantSell * a0 / o.wantBuy * o.wantBuy := by nlinarith
    nlinarith
  subst e
  refine ⟨⟨rfl, rfl, h0, hle, hnn, hq_le, ?_, ?_⟩, ?_⟩ <;> simp only [fillSlack] <;> nlinarith

/-- Buy side: the clamps never fire either; the owner receives `⌊amount1·wantBuy / wantSell⌋` for `amount1`. -/
theorem partialBuyAmounts_eq (o : Order) (amount1 a0 a1 : Int) (hb : 0 < o.wantBuy) (hs : 0 < o.wantSell)
    (h0 : 0 ≤ amount1) (hle : amount1 ≤ o.wantSell) (h : partialBuyAmounts o amount1 = .ok (a0, a1)) :
    a0 = amount1 * o.wantBuy / o.wantSell ∧ a1 = amount1 := by
  have hr := ratInt_eq_ediv (amount1 * o.wantBuy) o.wantSell (mul_nonneg h0 (le_of_lt hb)) hs
  have hfl : amount1 * o.wantBuy / o.wantSell * o.wantSell ≤ amount1 * o.wantBuy := Int.ediv_mul_le _ (ne_of_gt hs)
  have hfull : amount1 = o.wantSell → amount1 * o.wantBuy / o.wantSell = o.wantBuy := by
    intro e; rw [e, mul_comm]; exact Int.mul_ediv_cancel _ (ne_of_gt hs)
  have hlt : amount1 < o.wantSell → amount1 * o.wantBuy / o.wantSell < o.wantBuy := by
    intro hl
    by_contra hc
    have : o.wantBuy * o.wantSell ≤ amount1 * o.wantBuy / o.wantSell * o.wantSell := by nlinarith
    nlinarith
  unfold partialBuyAmounts at h
  simp only at h
  rw [hr] at h
  split at h
  · next hc => have := hfull hc.1; omega
  · split at h
    · next hc => have := hlt hc.1; omega
    · cases h; exact ⟨rfl, rfl⟩

theorem partialBuy_ok (o : Order) (amount1 a0 a1 : Int) (hb : 0 < o.wantBuy) (hs : 0 < o.wantSell)
    (h0 : 0 ≤ amount1) (hle : amount1 ≤ o.wantSell) (h : partialBuyAmounts o amount1 = .ok (a0, a1)) :
    FillOk o ⟨o.id, a0, a1, o.owner⟩ ∧ fillSlack o ⟨o.id, a0, a1, o.owner⟩ ≤ 0 := by
  obtain ⟨e0, e1⟩ := partialBuyAmounts_eq o amount1 a0 a1 hb hs h0 hle h
  have hfl : amount1 * o.wantBuy / o.wantSell * o.wantSell ≤ amount1 * o.wantBuy := Int.ediv_mul_le _ (ne_of_gt hs)
  have hup : amount1 * o.wantBuy < (amount1 * o.wantBuy / o.wantSell + 1) * o.wantSell :=
    Int.lt_ediv_add_one_mul_self _ hs
  have hnn : 0 ≤ amount1 * o.wantBuy / o.wantSell := Int.ediv_nonneg (mul_nonneg h0 (le_of_lt hb)) (le_of_lt hs)
  have hq_le : amount1 * o.wantBuy / o.wantSell ≤ o.wantBuy := by
    by_contra hc
    have : (o.wantBuy + 1) * o.wantSell ≤ amount1 * o.wantBuy / o.wantSell * o.wantSell := by nlinarith
    nlinarith
  subst e0 e1
  refine ⟨⟨rfl, rfl, hnn, hq_le, h0, hle, ?_, ?_⟩, ?_⟩ <;> simp only [fillSlack] <;> nlinarith

/-! ## 2. Priority: the walk consumes a prefix of the best-first list; only the last fill may be partial -/

/-- `Consumed book fs`: `fs` are fills of the first orders of `book`, in order; every order in front of the last
    touched one is consumed completely. -/
inductive Consumed : List Order → List Fill → Prop where
  | none (bk : List Order) : Consumed bk []
  | full (o : Order) (bk : List Order) (fs : List Fill) : Consumed bk fs → Consumed (o :: bk) (o.fullFill :: fs)
  | part (o : Order) (bk : List Order) (f : Fill) : FillOk o f → Consumed (o :: bk) [f]

theorem finalSell_fills (r0 r1 rest out : Int) (fs : List Fill) (h : finalSell r0 r1 rest = .ok out fs) : fs = [] := by
  unfold finalSell at h
  split at h
  · cases h; rfl
  · split at h
    · cases h; rfl
    · cases h

theorem finalBuy_fills (r0 r1 rest out : Int) (fs : List Fill) (h : finalBuy r0 r1 rest = .ok out fs) : fs = [] := by
  unfold finalBuy at h
  split at h
  · split at h
    · cases h
    · cases h; rfl
  · split at h
    · cases h; rfl
    · cases h

theorem sellLoop_consumed (O : Oracle) : ∀ (book : List Order) (r0 r1 rest out : Int) (fs : List Fill),
    (∀ o ∈ book, 0 < o.wantBuy ∧ 0 < o.wantSell) → 0 < r0 → 0 < r1 → 0 ≤ rest →
    sellLoop O book r0 r1 rest = .ok out fs → Consumed book fs := by
  intro book
  induction book with
  | nil =>
    intro r0 r1 rest out fs _ _ _ _ h
    unfold sellLoop at h
    split at h
    · cases h; exact .none _
    · rw [finalSell_fills _ _ _ _ _ h]; exact .none _
  | cons o bk ih =>
    intro r0 r1 rest out fs hbook h0 h1 hr h
    have ho := hbook o (List.mem_cons_self ..)
    have hbk : ∀ x ∈ bk, 0 < x.wantBuy ∧ 0 < x.wantSell := fun x hx => hbook x (List.mem_cons_of_mem _ hx)
    unfold sellLoop at h
    split at h
    · cases h; exact .none _
    · split at h
      · cases h
      · rw [finalSell_fills _ _ _ _ _ h]; exact .none _
      · next r0' r1' rest' add hpre =>
        obtain ⟨g0, g1, gr, ga, e0, e1, gk⟩ := preSell_go O r0 r1 rest o r0' r1' rest' add h0 h1 hr hpre
        simp only at h
        split at h
        · next hle =>
          split at h
          · cases h
          · next amount1 hp =>
            cases h
            have hc1' := com1001_le rest' gr
            exact .part _ _ _ (partialSell_ok o _ amount1 ho.1 ho.2 (by omega) hle hp).1
        · next hgt =>
          have hrest := full_rest_nonneg rest' o.wantBuy gr (le_of_lt ho.1) hgt
          obtain ⟨s0, s1, _⟩ := orderStep_K r0' r1' o g0 g1 (le_of_lt ho.1) (le_of_lt ho.2)
          generalize hrec : sellLoop O bk (r0' + com1000 o.wantBuy) (r1' + com1000 o.wantSell)
            (rest' - (o.wantBuy + com1000 o.wantBuy)) = rec at h
          cases rec with
          | nil => simp [Calc.add] at h
          | fault f => simp [Calc.add] at h
          | ok x fs' =>
            simp only [Calc.add] at h
            cases h
            exact .full _ _ _ (ih _ _ _ x fs' hbk s0 s1 hrest hrec)

theorem buyLoop_consumed (O : Oracle) : ∀ (book : List Order) (r0 r1 rest inp : Int) (fs : List Fill),
    (∀ o ∈ book, 0 < o.wantBuy ∧ 0 < o.wantSell) → 0 < r0 → 0 < r1 → 0 ≤ rest →
    buyLoop O book r0 r1 rest = .ok inp fs → Consumed book fs := by
  intro book
  induction book with
  | nil =>
    intro r0 r1 rest inp fs _ _ _ _ h
    unfold buyLoop at h
    split at h
    · cases h; exact .none _
    · rw [finalBuy_fills _ _ _ _ _ h]; exact .none _
  | cons o bk ih =>
    intro r0 r1 rest inp fs hbook h0 h1 hr h
    have ho := hbook o (List.mem_cons_self ..)
    have hbk : ∀ x ∈ bk, 0 < x.wantBuy ∧ 0 < x.wantSell := fun x hx => hbook x (List.mem_cons_of_mem _ hx)
    unfold buyLoop at h
    split at h
    · cases h; exact .none _
    · split at h
      · cases h
      · rw [finalBuy_fills _ _ _ _ _ h]; exact .none _
      · next r0' r1' rest' add hpre =>
        obtain ⟨g0, g1, gr, ga, e0, e1, gk⟩ := preBuy_go O r0 r1 rest o r0' r1' rest' add h0 h1 hr hpre
        simp only at h
        split at h
        · next hle =>
          split at h
          · cases h
          · next a0 a1 hp =>
            cases h
            have hc9 := com0999_nonneg rest' gr
            exact .part _ _ _ (partialBuy_ok o _ a0 a1 ho.1 ho.2 (by omega) hle hp).1
        · next hgt =>
          have hrest := full_rest_nonneg_buy rest' o.wantSell gr (le_of_lt ho.2) hgt
          obtain ⟨s0, s1, _⟩ := orderStep_K r0' r1' o g0 g1 (le_of_lt ho.1) (le_of_lt ho.2)
          generalize hrec : buyLoop O bk (r0' + com1000 o.wantBuy) (r1' + com1000 o.wantSell)
            (rest' - (o.wantSell - com1000 o.wantSell)) = rec at h
          cases rec with
          | nil => simp [Calc.add] at h
          | fault f => simp [Calc.add] at h
          | ok x fs' =>
            simp only [Calc.add] at h
            cases h
            exact .full _ _ _ (ih _ _ _ x fs' hbk s0 s1 hrest hrec)

/-- Consequences of `Consumed`, spelled out: the fills are, position by position, fills of the first orders of the
    list, each at its own price; every fill that is not the last one is a complete fill. -/
theorem Consumed.forall₂ {book : List Order} {fs : List Fill} (hbook : ∀ o ∈ book, 0 < o.wantBuy ∧ 0 < o.wantSell)
    (h : Consumed book fs) : List.Forall₂ FillOk (book.take fs.length) fs := by
  induction h with
  | none bk => simp
  | full o bk fs _ ih =>
    have ho := hbook o (List.mem_cons_self ..)
    simp only [List.length_cons, List.take_succ_cons]
    exact List.Forall₂.cons (fullFill_ok o ho.1 ho.2) (ih fun x hx => hbook x (List.mem_cons_of_mem _ hx))
  | part o bk f hf =>
    simp only [List.length_cons, List.length_nil, List.take_succ_cons, List.take_zero]
    exact List.Forall₂.cons hf List.Forall₂.nil

theorem Consumed.not_last_full {book : List Order} {fs : List Fill} (h : Consumed book fs) :
    ∀ i (hi : i + 1 < fs.length), ∃ o, book[i]? = some o ∧ fs[i] = o.fullFill := by
  induction h with
  | none bk => intro i hi; simp at hi
  | full o bk fs _ ih =>
    intro i hi
    cases i with
    | zero => exact ⟨o, by simp, by simp⟩
    | succ j =>
      simp only [List.length_cons] at hi
      obtain ⟨o', h1, h2⟩ := ih j (by omega)
      exact ⟨o', by simpa using h1, by simpa using h2⟩
  | part o bk f _ => intro i hi; simp at hi

/-! ### the best-first list is sorted by the float53 key, then by id -/

theorem BFloat.lt_irrefl (x : BFloat) : x.lt x = false := by
  unfold BFloat.lt
  split
  · simp [*]
  · simp [*]

theorem BFloat.lt_trans (x y z : BFloat) (h1 : x.lt y = true) (h2 : y.lt z = true) : x.lt z = true := by
  unfold BFloat.lt at *
  by_cases hx : x.mant = 0 <;> by_cases hy : y.mant = 0 <;> by_cases hz : z.mant = 0 <;>
    simp_all <;> omega

/-- incomparability (equal keys) is transitive -/
theorem BFloat.lt_negtrans (x y z : BFloat) (h1 : x.lt y = false) (h2 : y.lt z = false) : x.lt z = false := by
  unfold BFloat.lt at *
  by_cases hx : x.mant = 0 <;> by_cases hy : y.mant = 0 <;> by_cases hz : z.mant = 0 <;>
    simp_all <;> omega

theorem better_total (sorted : Bool) (a b : BFloat × Order) : (better sorted a b || better sorted b a) = true := by
  unfold better
  cases sorted <;> simp only [Bool.false_eq_true, if_false, if_true]
  · cases h1 : a.1.lt b.1 <;> cases h2 : b.1.lt a.1 <;> simp
    omega
  · cases h1 : a.1.lt b.1 <;> cases h2 : b.1.lt a.1 <;> simp
    omega

theorem better_trans (sorted : Bool) (a b c : BFloat × Order) (h1 : better sorted a b = true)
    (h2 : better sorted b c = true) : better sorted a c = true := by
  unfold better at *
  cases sorted <;> simp only [Bool.false_eq_true, if_false, if_true] at *
  · -- ascending keys
    cases hab : a.1.lt b.1 <;> cases hba : b.1.lt a.1 <;> cases hbc : b.1.lt c.1 <;> cases hcb : c.1.lt b.1 <;>
      simp [hab, hba, hbc, hcb] at h1 h2
    all_goals first
      | (have := BFloat.lt_trans _ _ _ hab hbc; simp [this])
      | (have e1 := BFloat.lt_negtrans _ _ _ hab hbc
         have e2 := BFloat.lt_negtrans _ _ _ hcb hba
         simp [e1, e2]; omega)
      | (cases hac : a.1.lt c.1
         · have := BFloat.lt_negtrans _ _ _ hac hcb; simp_all
         · simp)
      | (cases hac : a.1.lt c.1
         · have := BFloat.lt_negtrans _ _ _ hba hac; simp_all
         · simp)
  · cases hab : a.1.lt b.1 <;> cases hba : b.1.lt a.1 <;> cases hbc : b.1.lt c.1 <;> cases hcb : c.1.lt b.1 <;>
      simp [hab, hba, hbc, hcb] at h1 h2
    all_goals first
      | (have := BFloat.lt_trans _ _ _ hcb hba; simp [this])
      | (have e1 := BFloat.lt_negtrans _ _ _ hab hbc
         have e2 := BFloat.lt_negtrans _ _ _ hcb hba
         simp [e1, e2]; omega)
      | (cases hca : c.1.lt a.1
         · have := BFloat.lt_negtrans _ _ _ hca hab; simp_all
         · simp)
      | (cases hca : c.1.lt a.1
         · have := BFloat.lt_negtrans _ _ _ hbc hca; simp_all
         · simp)

/-- `a` comes no later than `b`: strictly better float53 price, or the same float53 price and the lower id. -/
def goesBefore (sorted : Bool) (a b : Order) : Prop :=
  better sorted (sortKey sorted a, a) (sortKey sorted b, b) = true

theorem sortBook_sorted (sorted : Bool) (book : List Order) : (sortBook sorted book).Pairwise (goesBefore sorted) := by
  unfold sortBook
  have hp := List.pairwise_mergeSort (le := better sorted) (better_trans sorted)
    (better_total sorted) (book.map fun o => (sortKey sorted o, o))
  rw [List.pairwise_map]
  refine List.Pairwise.imp_of_mem ?_ hp
  intro a b ha hb hab
  have ka : a.1 = sortKey sorted a.2 := by
    rw [List.mem_mergeSort, List.mem_map] at ha
    obtain ⟨o, _, rfl⟩ := ha; rfl
  have kb : b.1 = sortKey sorted b.2 := by
    rw [List.mem_mergeSort, List.mem_map] at hb
    obtain ⟨o, _, rfl⟩ := hb; rfl
  unfold goesBefore
  rw [← ka, ← kb]
  exact hab

/-! ## 3. The entry points: price, priority, credits -/

def lookupCredit (cs : List (Nat × Int)) (owner : Nat) : Int :=
  match cs with
  | [] => 0
  | (o, x) :: t => if o = owner then x else lookupCredit t owner

/-- What the fills owe to `owner`. -/
def owedTo (owner : Nat) (fs : List Fill) : Int := ((fs.filter fun f => f.owner = owner).map (·.buy)).sum

theorem lookup_creditAdd (cs : List (Nat × Int)) (o owner : Nat) (v : Int) :
    lookupCredit (creditAdd cs o v) owner = lookupCredit cs owner + (if o = owner then v else 0) := by
  induction cs with
  | nil => simp [creditAdd, lookupCredit]
  | cons c t ih =>
    obtain ⟨o', x⟩ := c
    simp only [creditAdd]
    by_cases h : o' = o
    · subst h
      simp only [if_true, lookupCredit]
      split <;> simp
    · simp only [if_neg h, lookupCredit]
      split
      · next h2 =>
        subst h2
        have : ¬ o = o' := fun e => h e.symm
        simp [this]
      · exact ih

theorem lookup_credits_foldl (fs : List Fill) (acc : List (Nat × Int)) (owner : Nat) :
    lookupCredit (fs.foldl (fun cs f => creditAdd cs f.owner f.buy) acc) owner = lookupCredit acc owner + owedTo owner fs := by
  induction fs generalizing acc with
  | nil => simp [owedTo]
  | cons f t ih =>
    simp only [List.foldl_cons]
    rw [ih, lookup_creditAdd]
    unfold owedTo
    by_cases h : f.owner = owner
    · simp [List.filter_cons, h]; ring
    · simp [List.filter_cons, h]

/-- **Owner credited exactly Δbuy**: the credit list of a trade gives every owner the sum of the `buy` amounts of the
    fills of his orders, nothing else. -/
theorem credits_exact (fs : List Fill) (owner : Nat) : lookupCredit (credits fs) owner = owedTo owner fs := by
  unfold credits
  rw [lookup_credits_foldl]
  simp [lookupCredit]

/-- **fill_at_own_price + priority, sell side.**  A successful `SellWithOrders`, any book / oracle / amount:
    the fills are fills of the first orders of the best-first list, in order (`Consumed`), hence each within the
    order's volumes and at its own price up to < 1 unit in the owner's favour-protecting direction; the owners are
    credited exactly the filled `buy` amounts. -/
theorem sell_fills (O : Oracle) (sorted : Bool) (r0 r1 : Int) (book : List Order) (amountIn : Int) (res : TradeResult)
    (hbook : ∀ o ∈ book, 0 < o.wantBuy ∧ 0 < o.wantSell) (h0 : 0 < r0) (h1 : 0 < r1)
    (h : sellWithOrders O sorted r0 r1 book amountIn = .ok res) :
    Consumed (sortBook sorted book) res.fills ∧ (∀ owner, lookupCredit res.credits owner = owedTo owner res.fills) := by
  unfold sellWithOrders at h
  split at h
  · cases h
  · simp only at h
    split at h
    · cases h
    · next hin hnet =>
      split at h
      · cases h
      · cases h
      · next out fs hloop =>
        split at h
        · cases h
        · have hb' : ∀ o ∈ sortBook sorted book, 0 < o.wantBuy ∧ 0 < o.wantSell :=
            fun o ho => hbook o ((mem_sortBook sorted book o).mp ho)
          obtain ⟨_, _, _, ef, ec⟩ := settle_ok _ _ _ _ _ _ _ _ h
          rw [ef, ec]
          exact ⟨sellLoop_consumed O _ r0 r1 _ out fs hb' h0 h1 (by omega) hloop, credits_exact fs⟩

theorem buy_fills (O : Oracle) (sorted : Bool) (r0 r1 : Int) (book : List Order) (amountOut : Int) (res : TradeResult)
    (hbook : ∀ o ∈ book, 0 < o.wantBuy ∧ 0 < o.wantSell) (h0 : 0 < r0) (h1 : 0 < r1)
    (h : buyWithOrders O sorted r0 r1 book amountOut = .ok res) :
    Consumed (sortBook sorted book) res.fills ∧ (∀ owner, lookupCredit res.credits owner = owedTo owner res.fills) := by
  unfold buyWithOrders at h
  split at h
  · cases h
  · split at h
    · cases h
    · cases h
    · next inp fs hloop =>
      split at h
      · cases h
      · have hb' : ∀ o ∈ sortBook sorted book, 0 < o.wantBuy ∧ 0 < o.wantSell :=
          fun o ho => hbook o ((mem_sortBook sorted book o).mp ho)
        obtain ⟨_, _, _, ef, ec⟩ := settle_ok _ _ _ _ _ _ _ _ h
        rw [ef, ec]
        exact ⟨buyLoop_consumed O _ r0 r1 _ inp fs hb' h0 h1 (by omega) hloop, credits_exact fs⟩

/-- **priority**: the list the walk runs over is the whole book (a permutation), ordered by float53 price in the
    pair's canonical orientation, best first, lower id first among equal float53 prices; the trade consumes a prefix of
    it and only the last touched order may be filled partially. -/
theorem priority_sell (O : Oracle) (sorted : Bool) (r0 r1 : Int) (book : List Order) (amountIn : Int) (res : TradeResult)
    (hbook : ∀ o ∈ book, 0 < o.wantBuy ∧ 0 < o.wantSell) (h0 : 0 < r0) (h1 : 0 < r1)
    (h : sellWithOrders O sorted r0 r1 book amountIn = .ok res) :
    (sortBook sorted book).Perm book ∧ (sortBook sorted book).Pairwise (goesBefore sorted) ∧
    Consumed (sortBook sorted book) res.fills :=
  ⟨sortBook_perm sorted book, sortBook_sorted sorted book, (sell_fills O sorted r0 r1 book amountIn res hbook h0 h1 h).1⟩

theorem priority_buy (O : Oracle) (sorted : Bool) (r0 r1 : Int) (book : List Order) (amountOut : Int) (res : TradeResult)
    (hbook : ∀ o ∈ book, 0 < o.wantBuy ∧ 0 < o.wantSell) (h0 : 0 < r0) (h1 : 0 < r1)
    (h : buyWithOrders O sorted r0 r1 book amountOut = .ok res) :
    (sortBook sorted book).Perm book ∧ (sortBook sorted book).Pairwise (goesBefore sorted) ∧
    Consumed (sortBook sorted book) res.fills :=
  ⟨sortBook_perm sorted book, sortBook_sorted sorted book, (buy_fills O sorted r0 r1 book amountOut res hbook h0 h1 h).1⟩

/-- **fill_at_own_price** in one line: every fill `f` of an order `o` (same position of the best-first list) satisfies
    `Δsell·wantBuy < (Δbuy + 1)·wantSell`: the owner pays his own price or less, up to one unit of the coin he buys. -/
theorem fill_at_own_price (o : Order) (f : Fill) (h : FillOk o f) :
    f.sell * o.wantBuy < (f.buy + 1) * o.wantSell := by
  have := h.owner_price
  unfold fillSlack at this
  nlinarith

/-- **partial_keeps_price**: after a fill the remaining volumes `(buy', sell') = (buy − Δbuy, sell − Δsell)` satisfy
    `|sell'·buy − sell·buy'| < max(buy, sell)`: cross-multiplied, the price moved by less than one unit. -/
theorem partial_keeps_price (o : Order) (f : Fill) (h : FillOk o f) :
    -o.wantSell < (o.wantSell - f.sell) * o.wantBuy - o.wantSell * (o.wantBuy - f.buy) ∧
    (o.wantSell - f.sell) * o.wantBuy - o.wantSell * (o.wantBuy - f.buy) < o.wantBuy := by
  have h1 := h.owner_price
  have h2 := h.taker_price
  unfold fillSlack at h1 h2
  constructor <;> nlinarith

/-! ## 4. `updateOrders`: a partially filled order stays with the reduced volumes; dust is closed and refunded -/

def ids (book : List Order) : List Nat := book.map (·.id)

/-- Effect of one fill on the book, for a book with distinct ids. -/
theorem applyFill_spec : ∀ (book : List Order) (f : Fill) (book' : List Order) (cl : List Closed) (o : Order),
    (ids book).Nodup → o ∈ book → o.id = f.id → applyFill book f = .ok (book', cl) →
    let b := o.wantBuy - f.buy
    let s := o.wantSell - f.sell
    (b = 0 ∧ s = 0 → cl = [] ∧ o.id ∉ ids book') ∧
    (¬ (b = 0 ∨ s = 0) → (b < minOrderVolume ∨ s < minOrderVolume) →
        cl = [⟨o.id, o.owner, s, b⟩] ∧ o.id ∉ ids book') ∧
    (¬ (b = 0 ∨ s = 0) → ¬ (b < minOrderVolume ∨ s < minOrderVolume) →
        cl = [] ∧ { o with wantBuy := b, wantSell := s } ∈ book') ∧
    (∀ x ∈ book, x.id ≠ f.id → x ∈ book') ∧ (∀ x ∈ book', x.id ≠ f.id → x ∈ book) := by
  intro book
  induction book with
  | nil => intro f book' cl o _ hmem; simp at hmem
  | cons x t ih =>
    intro f book' cl o hnd hmem hid h
    have hnd' : (ids t).Nodup := by
      unfold ids at hnd ⊢; simp only [List.map_cons, List.nodup_cons] at hnd; exact hnd.2
    have hx_notin : x.id ∉ ids t := by
      unfold ids at hnd ⊢; simp only [List.map_cons, List.nodup_cons] at hnd; exact hnd.1
    unfold applyFill at h
    by_cases hx : x.id = f.id
    · -- the order is the head
      have ho : o = x := by
        rcases List.mem_cons.mp hmem with e | hin
        · exact e
        · exfalso; apply hx_notin; unfold ids; rw [hx, ← hid]; exact List.mem_map.mpr ⟨o, hin, rfl⟩
      subst ho
      rw [if_pos hx] at h
      simp only at h
      have hnot : o.id ∉ ids t := hx_notin
      split at h
      · next hz =>
        cases h
        refine ⟨fun _ => ⟨rfl, hnot⟩, fun hn => absurd (Or.inl hz.1) hn, fun hn => absurd (Or.inl hz.1) hn, ?_, ?_⟩
        · intro y hy hyid
          rcases List.mem_cons.mp hy with e | hin
          · subst e; exact absurd hx hyid
          · exact hin
        · intro y hy _; exact List.mem_cons_of_mem _ hy
      · next hz =>
        split at h
        · cases h
        · next hone =>
          split at h
          · next hdust =>
            cases h
            refine ⟨fun hh => absurd hh hz, fun _ _ => ⟨rfl, hnot⟩, fun _ hn => absurd hdust hn, ?_, ?_⟩
            · intro y hy hyid
              rcases List.mem_cons.mp hy with e | hin
              · subst e; exact absurd hx hyid
              · exact hin
            · intro y hy _; exact List.mem_cons_of_mem _ hy
          · next hnd2 =>
            cases h
            refine ⟨fun hh => absurd hh hz, fun _ hd => absurd hd hnd2, fun _ _ => ⟨rfl, List.mem_cons_self ..⟩, ?_, ?_⟩
            · intro y hy hyid
              rcases List.mem_cons.mp hy with e | hin
              · subst e; exact absurd hx hyid
              · exact List.mem_cons_of_mem _ hin
            · intro y hy hyid
              rcases List.mem_cons.mp hy with e | hin
              · subst e; exact absurd hx hyid
              · exact List.mem_cons_of_mem _ hin
    · rw [if_neg hx] at h
      have hot : o ∈ t := by
        rcases List.mem_cons.mp hmem with e | hin
        · subst e; exact absurd hid hx
        · exact hin
      split at h
      · cases h
      · next t' c hrec =>
        cases h
        obtain ⟨p1, p2, p3, p4, p5⟩ := ih f t' cl o hnd' hot hid hrec
        have hxo : x.id ≠ o.id := by rw [hid]; exact hx
        have hnotin : o.id ∉ ids t' → o.id ∉ ids (x :: t') := by
          intro hn hc
          unfold ids at hc hn
          simp only [List.map_cons, List.mem_cons] at hc
          rcases hc with e | e
          · exact hxo e.symm
          · exact hn e
        refine ⟨fun hh => ⟨(p1 hh).1, hnotin (p1 hh).2⟩, fun h1 h2 => ⟨(p2 h1 h2).1, hnotin (p2 h1 h2).2⟩,
          fun h1 h2 => ⟨(p3 h1 h2).1, List.mem_cons_of_mem _ (p3 h1 h2).2⟩, ?_, ?_⟩
        · intro y hy hyid
          rcases List.mem_cons.mp hy with e | hin
          · subst e; exact List.mem_cons_self ..
          · exact List.mem_cons_of_mem _ (p4 y hin hyid)
        · intro y hy hyid
          rcases List.mem_cons.mp hy with e | hin
          · subst e; exact List.mem_cons_self ..
          · exact List.mem_cons_of_mem _ (p5 y hin hyid)

/-- **dust_closed_refund**: an order whose remainder after a fill is non-empty but below the minimum volume on either
    side is closed: it leaves the book and its whole remaining `wantSell` is refunded to its owner; nothing else is
    closed by that fill. -/
theorem dust_closed_refund (book : List Order) (f : Fill) (book' : List Order) (cl : List Closed) (o : Order)
    (hnd : (ids book).Nodup) (hmem : o ∈ book) (hid : o.id = f.id) (h : applyFill book f = .ok (book', cl))
    (hne : ¬ (o.wantBuy - f.buy = 0 ∨ o.wantSell - f.sell = 0))
    (hdust : o.wantBuy - f.buy < minOrderVolume ∨ o.wantSell - f.sell < minOrderVolume) :
    cl = [⟨o.id, o.owner, o.wantSell - f.sell, o.wantBuy - f.buy⟩] ∧ o.id ∉ ids book' :=
  (applyFill_spec book f book' cl o hnd hmem hid h).2.1 hne hdust

/-- A partially filled order whose remainder is at least the minimum volume on both sides stays in the book with exactly
    the reduced volumes (whose price is the old one up to `partial_keeps_price`). -/
theorem partial_stays (book : List Order) (f : Fill) (book' : List Order) (cl : List Closed) (o : Order)
    (hnd : (ids book).Nodup) (hmem : o ∈ book) (hid : o.id = f.id) (h : applyFill book f = .ok (book', cl))
    (hne : ¬ (o.wantBuy - f.buy = 0 ∨ o.wantSell - f.sell = 0))
    (hbig : ¬ (o.wantBuy - f.buy < minOrderVolume ∨ o.wantSell - f.sell < minOrderVolume)) :
    cl = [] ∧ { o with wantBuy := o.wantBuy - f.buy, wantSell := o.wantSell - f.sell } ∈ book' :=
  (applyFill_spec book f book' cl o hnd hmem hid h).2.2.1 hne hbig

/-! ## 5. Cancelling and expiring -/

theorem cancelOrder_spec : ∀ (book : List Order) (id : Nat) (o : Order) (book' : List Order),
    cancelOrder book id = some (o, book') →
    o ∈ book ∧ o.id = id ∧ book.Perm (o :: book') := by
  intro book
  induction book with
  | nil => intro id o book' h; simp [cancelOrder] at h
  | cons x t ih =>
    intro id o book' h
    unfold cancelOrder at h
    split at h
    · next hx => cases h; exact ⟨List.mem_cons_self .., hx, List.Perm.refl _⟩
    · split at h
      · cases h
      · next y t' hrec =>
        cases h
        obtain ⟨h1, h2, h3⟩ := ih id o t' hrec
        exact ⟨List.mem_cons_of_mem _ h1, h2, (List.Perm.cons x h3).trans (List.Perm.swap o x t')⟩

/-- **cancel_exact**: cancelling returns exactly the order's current `wantSell` — the amount that was escrowed and has
    not been filled — to its owner, and removes exactly that order. -/
theorem cancel_exact (book : List Order) (sender id : Nat) (refund : Int) (book' : List Order)
    (h : cancelTx book sender id = .ok (refund, book')) :
    ∃ o, o ∈ book ∧ o.id = id ∧ o.owner = sender ∧ refund = o.wantSell ∧ book.Perm (o :: book') := by
  unfold cancelTx at h
  cases hc : cancelOrder book id with
  | none => rw [hc] at h; cases h
  | some p =>
    obtain ⟨o, b'⟩ := p
    rw [hc] at h
    simp only at h
    split at h
    · cases h
    · next hown =>
      obtain ⟨h1, h2, h3⟩ := cancelOrder_spec book id o b' hc
      injection h with h
      injection h with e1 e2
      subst e1 e2
      exact ⟨o, h1, h2, by simpa using hown, rfl, h3⟩

/-- **cancel_owner_only**: a sender who is not the owner gets `notOwner`, and nothing changes (no new book, no refund). -/
theorem cancel_owner_only (book : List Order) (sender id : Nat) (o : Order) (book' : List Order)
    (hc : cancelOrder book id = some (o, book')) (hne : o.owner ≠ sender) :
    cancelTx book sender id = .error .notOwner := by
  unfold cancelTx
  rw [hc]
  simp [hne]

theorem cancelOrder_none_of_notin : ∀ (book : List Order) (id : Nat), id ∉ ids book → cancelOrder book id = none := by
  intro book
  induction book with
  | nil => intro id _; rfl
  | cons x t ih =>
    intro id h
    unfold ids at h
    simp only [List.map_cons, List.mem_cons, not_or] at h
    unfold cancelOrder
    rw [if_neg (fun e => h.1 e.symm)]
    rw [ih id (by unfold ids; exact h.2)]

/-- **cancel_once**: with distinct ids, after a successful cancel the same id cannot be cancelled again. -/
theorem cancel_once (book : List Order) (id : Nat) (o : Order) (book' : List Order) (hnd : (ids book).Nodup)
    (h : cancelOrder book id = some (o, book')) (sender : Nat) :
    cancelTx book' sender id = .error .notFound := by
  obtain ⟨_, hid, hperm⟩ := cancelOrder_spec book id o book' h
  have hp : (ids book).Perm (ids (o :: book')) := hperm.map _
  have hnd' : (ids (o :: book')).Nodup := hp.nodup_iff.mp hnd
  have : id ∉ ids book' := by
    unfold ids at hnd' ⊢
    simp only [List.map_cons, List.nodup_cons] at hnd'
    rw [← hid]; exact hnd'.1
  unfold cancelTx
  rw [cancelOrder_none_of_notin book' id this]

theorem cancelOrder_of_mem : ∀ (book : List Order) (o : Order), (ids book).Nodup → o ∈ book →
    ∃ book', cancelOrder book o.id = some (o, book') := by
  intro book
  induction book with
  | nil => intro o _ h; simp at h
  | cons x t ih =>
    intro o hnd hmem
    unfold ids at hnd
    simp only [List.map_cons, List.nodup_cons] at hnd
    unfold cancelOrder
    rcases List.mem_cons.mp hmem with e | hin
    · subst e; simp
    · have hne : x.id ≠ o.id := by
        intro e; apply hnd.1; rw [e]; exact List.mem_map.mpr ⟨o, hin, rfl⟩
      rw [if_neg hne]
      obtain ⟨b', hb'⟩ := ih o (by unfold ids; exact hnd.2) hin
      rw [hb']
      exact ⟨x :: b', rfl⟩

/-- **cancel returns exactly the unfilled amount**: an order that was filled by `f` and stayed in the book is cancelled
    (by its owner) for exactly `wantSell − f.sell`. -/
theorem cancel_returns_unfilled (book' : List Order) (o : Order) (f : Fill) (hnd : (ids book').Nodup)
    (hmem : { o with wantBuy := o.wantBuy - f.buy, wantSell := o.wantSell - f.sell } ∈ book') :
    ∃ book'', cancelTx book' o.owner o.id = .ok (o.wantSell - f.sell, book'') := by
  obtain ⟨b'', hb⟩ := cancelOrder_of_mem book' _ hnd hmem
  refine ⟨b'', ?_⟩
  unfold cancelTx
  simp only at hb
  rw [hb]
  simp

/-- **expire_exact**: every expired order was live with height ≤ the limit and gets back exactly its `wantSell`
    (the model returns the order itself: the refund is `o.wantSell`); the others stay as they are. -/
theorem expire_exact (orders : List Order) (h : Nat) :
    (expireOrders orders h).1 ++ (expireOrders orders h).2 = orders ∧
    (∀ o ∈ (expireOrders orders h).1, o.height ≤ h) := by
  unfold expireOrders
  refine ⟨List.takeWhile_append_dropWhile, ?_⟩
  simp only
  induction orders with
  | nil => intro o ho; simp at ho
  | cons x t ih =>
    intro o ho
    by_cases hx : x.height ≤ h
    · simp only [List.takeWhile_cons, hx, decide_true, if_true, List.mem_cons] at ho
      rcases ho with e | e
      · subst e; exact hx
      · exact ih o e
    · simp [List.takeWhile_cons, hx] at ho

/-- **expire_once**: running the expiry again at the same height finds nothing. -/
theorem expire_once (orders : List Order) (h : Nat) :
    (expireOrders (expireOrders orders h).2 h).1 = [] := by
  unfold expireOrders
  simp only
  induction orders with
  | nil => simp
  | cons x t ih =>
    by_cases hx : x.height ≤ h
    · simp [List.dropWhile_cons, hx, ih]
    · simp [List.dropWhile_cons, List.takeWhile_cons, hx]

/-! ## Non-vacuity -/

def exO : Order := ⟨2, 30000000000, 27000000000, 8, 101⟩

example : partialSellAmount exO 9950049950 = .ok 8955044955 := by decide
example : FillOk exO ⟨2, 9950049950, 8955044955, 8⟩ := by
  refine ⟨rfl, rfl, ?_, ?_, ?_, ?_, ?_, ?_⟩ <;> decide
example : partialBuyAmounts exO 6005045455 = .ok (6672272727, 6005045455) := by decide
example : applyFill [exO] ⟨2, 29999999999, 26999999999, 8⟩ = .ok ([], [⟨2, 8, 1, 1⟩]) := by decide
example : applyFill [exO] ⟨2, 9950049950, 8955044955, 8⟩ =
    .ok ([⟨2, 20049950050, 18044955045, 8, 101⟩], []) := by decide
example : cancelTx [exO] 8 2 = .ok (27000000000, []) := by decide
example : cancelTx [exO] 9 2 = .error .notOwner := by decide
example : cancelTx [] 8 2 = .error .notFound := by decide
example : expireOrders [exO, ⟨3, 1, 1, 1, 200⟩] 150 = ([exO], [⟨3, 1, 1, 1, 200⟩]) := by decide

end Minter.Lob
