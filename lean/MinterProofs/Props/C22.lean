import MinterModel.Tx
import MinterProofs.TxLemmas
import MinterProofs.Props.C26
/-
  C22 — Coin registry: unique tickers, fresh ids, owner-only control.

  Part A (all transactions, all states): ids.
  * `apply_ncoins` / `reach_ncoins_mono`     the coin counter is never decreased by any primitive / along any delivery history;
  * `C22_fresh_id`                           every coin a delivered transaction registers (coin, token or pool token) has id
                                             `ncoins + 1`, there is at most one, and the counter becomes `ncoins + 1`;
  * `C22_dense_preserved`                    `Dense` (`∀ coin, coin.id ≤ ncoins`) and "no two coins share an id" are preserved by every
                                             delivery; hence a fresh id was never used before and is never used again (`C22_ids_never_reused`).
  Part B (the registry handlers, on their validated outcome):
  * `create_coin_spec`, `create_token_spec`  the symbol did not exist, the coin gets version 0, id `ncoins + 1`, owner = sender;
  * `recreate_coin_spec`, `recreate_token_spec`  only the symbol owner; the old version-0 coin gets version `max + 1`, the new coin
                                             version 0, a fresh id and the same owner (the sender = the symbol owner);
  * `edit_owner_spec`, `mint_spec`           only the symbol owner; minting stays within the maximum supply and needs version 0;
  * `ownerless_not_mintable` / `ownerless_stays_ownerless`  a symbol without owner (every pool token: `create_pool_spec` registers it
                                             with `owner = none`) can be neither minted by MintToken, nor recreated, nor given an owner;
  * `uniqueV0_create`, `uniqueV0_recreate`   version-0 symbol uniqueness is preserved by the registry steps of create / recreate.
-/
namespace Minter

/-! ### Part A: ids -/

def Prim.newCoin : Prim → Option CoinInfo
  | .createCoin ci => some ci
  | _ => none

def coinPrims (ps : List Prim) : List CoinInfo := ps.filterMap Prim.newCoin

theorem apply_ncoins (s : State) (p : Prim) : (p.apply s).ncoins = s.ncoins + (match p.newCoin with | some _ => 1 | none => 0) := by
  cases p <;> simp [Prim.apply, Prim.newCoin]

/-- No primitive decreases the coin counter. -/
theorem apply_ncoins_mono (s : State) (p : Prim) : s.ncoins ≤ (p.apply s).ncoins := by
  rw [apply_ncoins]; omega

theorem checked_ncoins (s s' : State) (ps : List Prim) (h : applyChecked s ps = some s') :
    s'.ncoins = s.ncoins + (coinPrims ps).length := by
  induction ps generalizing s with
  | nil => simp [applyChecked] at h; subst h; simp [coinPrims]
  | cons p t ih =>
    obtain ⟨_, ht⟩ := applyChecked_cons _ _ _ _ h
    rw [ih _ ht, apply_ncoins]
    simp only [coinPrims, List.filterMap_cons]
    cases hp : p.newCoin <;> simp <;> omega

/-- The coin counter never decreases along any delivery history. -/
theorem reach_ncoins_mono (P : Params) (o : Oracle) (s s' : State) (hr : Reach P o s s') : s.ncoins ≤ s'.ncoins := by
  induction hr with
  | refl s => exact Nat.le_refl _
  | step s s1 s2 b t out _ ha _ ih =>
    have := checked_ncoins s s1 out.plan ha
    omega

/-- The ids of the registered coins, in registry order. -/
def coinIds (s : State) : List Nat := s.coins.map (·.id)

theorem map_updFirst_inv {α β : Type} (f : α → β) (p : α → Bool) (g : α → α) (l : List α) (h : ∀ x, f (g x) = f x) :
    (updFirst p g l).map f = l.map f := by
  induction l with
  | nil => rfl
  | cons x t ih =>
    simp only [updFirst]
    split
    · simp [h]
    · simp [ih]

/-- Only `createCoin` changes the list of ids: it appends the new id. -/
theorem apply_coinIds (s : State) (p : Prim) :
    coinIds (p.apply s) = coinIds s ++ (match p.newCoin with | some ci => [ci.id] | none => []) := by
  cases p with
  | createCoin ci => simp [Prim.apply, coinIds, Prim.newCoin]
  | addVolume c v => simp only [Prim.apply, coinIds, Prim.newCoin, List.append_nil]; exact map_updFirst_inv _ _ _ _ (fun _ => rfl)
  | addReserve c v => simp only [Prim.apply, coinIds, Prim.newCoin, List.append_nil]; exact map_updFirst_inv _ _ _ _ (fun _ => rfl)
  | bumpVersion c v => simp only [Prim.apply, coinIds, Prim.newCoin, List.append_nil]; exact map_updFirst_inv _ _ _ _ (fun _ => rfl)
  | setCoinOwner sym a =>
    simp only [Prim.apply, coinIds, Prim.newCoin, List.append_nil, List.map_map]
    congr 1; funext ci; simp only [Function.comp]; split <;> rfl
  | _ => simp [Prim.apply, coinIds, Prim.newCoin]

theorem checked_coinIds (s s' : State) (ps : List Prim) (h : applyChecked s ps = some s') :
    coinIds s' = coinIds s ++ (coinPrims ps).map (·.id) := by
  induction ps generalizing s with
  | nil => simp [applyChecked] at h; subst h; simp [coinPrims]
  | cons p t ih =>
    obtain ⟨_, ht⟩ := applyChecked_cons _ _ _ _ h
    rw [ih _ ht, apply_coinIds]
    simp only [coinPrims, List.filterMap_cons]
    cases hp : p.newCoin <;> simp

/-- Every registered id is at most the counter (`InitChain` establishes it for a dense genesis). -/
def Dense (s : State) : Prop := ∀ i ∈ coinIds s, i ≤ s.ncoins

/-- The coin prims of a move are exactly its `newCoin`. -/
theorem coinPrims_move (m : Move) : coinPrims m.prims = (match m.newCoin with | some ci => [ci] | none => []) := by
  cases m with
  | createCoin owner ci =>
    simp only [Move.prims, Move.newCoin]
    split <;> simp [coinPrims, Prim.newCoin, List.filterMap_cons]
  | poolCreate a pl lp =>
    simp only [Move.prims, Move.newCoin]
    split <;> simp [coinPrims, Prim.newCoin, List.filterMap_cons]
  | admin p =>
    simp only [Move.prims, Move.newCoin]
    split
    · next h => cases p <;> simp [Prim.isAdmin] at h <;> simp [coinPrims, Prim.newCoin]
    · simp [coinPrims]
  | transfer a b c v => simp [Move.prims, Move.newCoin, coinPrims, Prim.newCoin]
  | mint a c v => simp only [Move.prims, Move.newCoin]; split <;> simp [coinPrims, Prim.newCoin]
  | feeBase payer v => simp [Move.prims, Move.newCoin, coinPrims, Prim.newCoin]
  | feeBancor payer c commission inBase => simp only [Move.prims, Move.newCoin]; split <;> simp [coinPrims, Prim.newCoin]
  | poolSell payer c0 c1 sellsC0 net out burn toRewards dest =>
    cases sellsC0 <;> cases toRewards <;> simp only [Move.prims, Move.newCoin, Bool.false_eq_true, if_false, if_true]
    all_goals first | (split <;> simp [coinPrims, Prim.newCoin]) | simp [coinPrims, Prim.newCoin]
  | burnTicker v => simp [Move.prims, Move.newCoin, coinPrims, Prim.newCoin]
  | bancor a sell sellAmt buy buyAmt bip =>
    simp only [Move.prims, Move.newCoin]; split <;> split <;> simp [coinPrims, Prim.newCoin]
  | delegate a cand coin value wl => cases wl <;> simp [Move.prims, Move.newCoin, coinPrims, Prim.newCoin]
  | unbond a stakeCand coin value wl f =>
    cases wl with
    | none => simp [Move.prims, Move.newCoin, coinPrims, Prim.newCoin]
    | some w =>
      simp only [Move.prims, Move.newCoin]
      split
      · simp [coinPrims, Prim.newCoin]
      · split <;> simp [coinPrims, Prim.newCoin]
  | lock a f => simp [Move.prims, Move.newCoin, coinPrims, Prim.newCoin]
  | declare a cd coin stake => simp [Move.prims, Move.newCoin, coinPrims, Prim.newCoin]
  | poolMint a c0 c1 a0 a1 lp liq => simp only [Move.prims, Move.newCoin]; split <;> simp [coinPrims, Prim.newCoin]
  | poolBurn a c0 c1 a0 a1 lp liq => simp only [Move.prims, Move.newCoin]; split <;> simp [coinPrims, Prim.newCoin]
  | orderAdd a o => simp [Move.prims, Move.newCoin, coinPrims, Prim.newCoin]
  | orderRemove a o => simp [Move.prims, Move.newCoin, coinPrims, Prim.newCoin]

theorem coinPrims_append (p q : List Prim) : coinPrims (p ++ q) = coinPrims p ++ coinPrims q := by
  simp [coinPrims, List.filterMap_append]

theorem coinPrims_planOf (ms : List Move) : coinPrims (planOf ms) = newCoins ms := by
  induction ms with
  | nil => rfl
  | cons m t ih =>
    simp only [planOf, List.flatMap_cons, coinPrims_append, newCoins, List.filterMap_cons] at *
    rw [coinPrims_move, ih]
    cases m.newCoin <;> simp

theorem fee_no_newCoin (m : Move) (h : m.isFee = true) : m.newCoin = none := by
  cases m <;> simp_all [Move.isFee, Move.newCoin]

theorem fees_no_newCoins (ms : List Move) (h : ms.all Move.isFee = true) : newCoins ms = [] := by
  induction ms with
  | nil => rfl
  | cons m t ih =>
    simp only [List.all_cons, Bool.and_eq_true] at h
    simp only [newCoins, List.filterMap_cons, fee_no_newCoin m h.1]
    exact ih h.2

/-- **C22 (fresh id).** The coins a delivered transaction registers: none, or exactly one with id `ncoins + 1`. -/
theorem C22_fresh_id (P : Params) (o : Oracle) (s : State) (b : Nat) (t : TxIn) (out : Outcome)
    (h : deliverTx P o s b t = .ok out) :
    coinPrims out.plan = [] ∨ ∃ ci, coinPrims out.plan = [ci] ∧ ci.id = s.ncoins + 1 := by
  rw [Outcome.plan, coinPrims_planOf]
  unfold deliverTx at h
  split at h
  · cases h; left; rfl
  · rcases deliverBody_shape P o s b t out h with hr | ⟨r, hs⟩
    · left; exact fees_no_newCoins _ hr.2.1
    · obtain ⟨burn, _, _, _, hm, _, hf⟩ := successOutcome_ok s t r out hs
      rw [hm]
      unfold freshIdsOk at hf
      split at hf
      · next he => left; exact he
      · next ci he => right; exact ⟨ci, he, by simpa using hf⟩
      · cases hf

/-- **C22 (ids never reused, one step).** A delivery preserves density and distinctness of ids; the counter grows by the number of
    new coins; the new coin (if any) has an id no existing coin has. -/
theorem C22_dense_preserved (P : Params) (o : Oracle) (s s' : State) (b : Nat) (t : TxIn) (out : Outcome)
    (h : deliverTx P o s b t = .ok out) (ha : applyChecked s out.plan = some s')
    (hd : Dense s) (hn : (coinIds s).Nodup) :
    Dense s' ∧ (coinIds s').Nodup ∧ s.ncoins ≤ s'.ncoins ∧
    (∀ ci ∈ coinPrims out.plan, ci.id = s.ncoins + 1 ∧ s'.ncoins = s.ncoins + 1 ∧ ci.id ∉ coinIds s) := by
  have hids := checked_coinIds s s' out.plan ha
  have hnc := checked_ncoins s s' out.plan ha
  rcases C22_fresh_id P o s b t out h with he | ⟨ci, he, hid⟩
  · rw [he] at hids hnc
    simp only [List.map_nil, List.append_nil, List.length_nil, Nat.add_zero] at hids hnc
    refine ⟨?_, by rw [hids]; exact hn, by omega, ?_⟩
    · intro i hi; rw [hids] at hi; rw [hnc]; exact hd i hi
    · intro ci hci; rw [he] at hci; cases hci
  · rw [he] at hids hnc
    simp only [List.map_cons, List.map_nil, List.length_singleton] at hids hnc
    have hfresh : ci.id ∉ coinIds s := by
      intro hmem
      have := hd _ hmem
      omega
    refine ⟨?_, ?_, by omega, ?_⟩
    · intro i hi
      rw [hids, List.mem_append, List.mem_singleton] at hi
      rcases hi with hi | hi
      · have := hd i hi; omega
      · omega
    · rw [hids]
      exact List.nodup_append.mpr ⟨hn, (by simp), by
        intro a ha b hb; rw [List.mem_singleton] at hb; subst hb; intro e; subst e; exact hfresh ha⟩
    · intro c hc
      rw [he, List.mem_singleton] at hc
      subst hc
      exact ⟨hid, hnc, hfresh⟩

/-- **C22 (ids never reused).** Along any delivery history density and distinctness of ids are preserved and the ids present stay
    present: an id, once given, is never given again. -/
theorem C22_ids_never_reused (P : Params) (o : Oracle) (s s' : State) (hr : Reach P o s s')
    (hd : Dense s) (hn : (coinIds s).Nodup) :
    Dense s' ∧ (coinIds s').Nodup ∧ (∀ i ∈ coinIds s, i ∈ coinIds s') := by
  induction hr with
  | refl s => exact ⟨hd, hn, fun _ h => h⟩
  | step s s1 s2 b t out hdl ha _ ih =>
    obtain ⟨hd1, hn1, _, _⟩ := C22_dense_preserved P o s s1 b t out hdl ha hd hn
    obtain ⟨hd2, hn2, hsub⟩ := ih hd1 hn1
    refine ⟨hd2, hn2, ?_⟩
    intro i hi
    apply hsub
    rw [checked_coinIds s s1 out.plan ha]
    exact List.mem_append_left _ hi

/-! ### Part B: the registry handlers -/

/-- The coin a create / recreate registers. -/
structure NewCoinOk (s : State) (t : TxIn) (sym : String) (ci : CoinInfo) : Prop where
  id : ci.id = s.ncoins + 1
  version : ci.version = 0
  symbol : ci.symbol = sym
  owner : ci.owner = some t.sender
  supply : ci.volume ≤ ci.maxSupply

/-- **C22 (create coin).** A validated CreateCoin: the ticker is allowed and did not exist; the new coin gets id `ncoins + 1`,
    version 0, the sender as owner, a supply within its maximum. -/
theorem create_coin_spec (P : Params) (o : Oracle) (s : State) (t : TxIn) (price : Int) (rd : Ready)
    (h : runCreateCoin P o s t price = .ok (.ok rd)) :
    symbolExists P s (t.str "d.Symbol") = false ∧ allowSymbol (t.str "d.Symbol") = true ∧
    ∃ ci tags, NewCoinOk s t (t.str "d.Symbol") ci ∧ ∀ adj, rd.exec adj = .ok ([.createCoin t.sender ci], tags) := by
  unfold runCreateCoin at h
  simp only at h
  split at h
  · cases h
  split at h
  · cases h
  rename_i _ hallow
  split at h
  · cases h
  rename_i hsym
  split at h
  · cases h
  split at h
  · cases h
  rename_i hamount
  split at h
  · cases h
  split at h
  · cases h
  obtain ⟨com, _, hk⟩ := withCom_ready _ _ _ _ _ _ _ h
  repeat' (split at hk)
  all_goals (first | (cases hk; done) | skip)
  all_goals (
    obtain ⟨_, _, _, _, hex⟩ := ready_eq _ _ _ _ _ hk
    simp only [Bool.or_eq_true, decide_eq_true_eq, not_or, Int.not_lt] at hamount
    refine ⟨by simpa using hsym, by simpa using hallow, _, _, ⟨rfl, rfl, rfl, rfl, ?_⟩, hex⟩
    exact hamount.2)

/-- **C22 (create token).** -/
theorem create_token_spec (P : Params) (o : Oracle) (s : State) (t : TxIn) (price : Int) (rd : Ready)
    (h : runCreateToken P o s t price = .ok (.ok rd)) :
    symbolExists P s (t.str "d.Symbol") = false ∧ allowSymbol (t.str "d.Symbol") = true ∧
    ∃ ci tags, NewCoinOk s t (t.str "d.Symbol") ci ∧ ∀ adj, rd.exec adj = .ok ([.createCoin t.sender ci], tags) := by
  unfold runCreateToken at h
  simp only at h
  split at h
  · cases h
  split at h
  · cases h
  rename_i _ hallow
  split at h
  · cases h
  rename_i hsym
  split at h
  · cases h
  split at h
  · cases h
  rename_i hamount
  split at h
  · cases h
  obtain ⟨com, _, hk⟩ := withCom_ready _ _ _ _ _ _ _ h
  repeat' (split at hk)
  all_goals (first | (cases hk; done) | skip)
  all_goals (
    obtain ⟨_, _, _, _, hex⟩ := ready_eq _ _ _ _ _ hk
    simp only [Bool.or_eq_true, decide_eq_true_eq, not_or, Int.not_lt] at hamount
    refine ⟨by simpa using hsym, by simpa using hallow, _, _, ⟨rfl, rfl, rfl, rfl, ?_⟩, hex⟩
    exact hamount.2)

/-- **C22 (recreate coin).** Only the owner of the ticker; the old version-0 coin of that ticker gets version `max + 1`, the new coin
    version 0, id `ncoins + 1` and the sender — i.e. the previous owner of the ticker — as owner. -/
theorem recreate_coin_spec (P : Params) (o : Oracle) (s : State) (t : TxIn) (price : Int) (rd : Ready)
    (h : runRecreateCoin P o s t price = .ok (.ok rd)) :
    symbolOwner s (t.str "d.Symbol") = some t.sender ∧
    ∃ old ci tags, coinBySymbolV0 s (t.str "d.Symbol") = some old ∧ NewCoinOk s t (t.str "d.Symbol") ci ∧
      ∀ adj, rd.exec adj = .ok ([.admin (.bumpVersion old.id (maxVersion s (t.str "d.Symbol") + 1)), .createCoin t.sender ci], tags) := by
  unfold runRecreateCoin at h
  simp only at h
  split at h
  · cases h
  split at h
  · cases h
  rename_i hamount
  split at h
  · cases h
  split at h
  · cases h
  split at h
  · cases h
  split at h
  · cases h
  split at h
  · cases h
  rename_i old hold
  split at h
  · cases h
  rename_i hown
  obtain ⟨com, _, hk⟩ := withCom_ready _ _ _ _ _ _ _ h
  repeat' (split at hk)
  all_goals (first | (cases hk; done) | skip)
  all_goals (
    obtain ⟨_, _, _, _, hex⟩ := ready_eq _ _ _ _ _ hk
    simp only [Bool.or_eq_true, decide_eq_true_eq, not_or, Int.not_lt] at hamount
    refine ⟨by simpa using hown, old, _, _, hold, ⟨rfl, rfl, rfl, rfl, ?_⟩, hex⟩
    exact hamount.2)

/-- **C22 (recreate token).** -/
theorem recreate_token_spec (P : Params) (o : Oracle) (s : State) (t : TxIn) (price : Int) (rd : Ready)
    (h : runRecreateToken P o s t price = .ok (.ok rd)) :
    symbolOwner s (t.str "d.Symbol") = some t.sender ∧
    ∃ old ci tags, coinBySymbolV0 s (t.str "d.Symbol") = some old ∧ NewCoinOk s t (t.str "d.Symbol") ci ∧
      ∀ adj, rd.exec adj = .ok ([.admin (.bumpVersion old.id (maxVersion s (t.str "d.Symbol") + 1)), .createCoin t.sender ci], tags) := by
  unfold runRecreateToken at h
  simp only at h
  split at h
  · cases h
  split at h
  · cases h
  split at h
  · cases h
  rename_i hamount
  split at h
  · cases h
  split at h
  · cases h
  split at h
  · cases h
  rename_i old hold
  split at h
  · cases h
  rename_i hown
  obtain ⟨com, _, hk⟩ := withCom_ready _ _ _ _ _ _ _ h
  repeat' (split at hk)
  all_goals (first | (cases hk; done) | skip)
  all_goals (
    obtain ⟨_, _, _, _, hex⟩ := ready_eq _ _ _ _ _ hk
    simp only [Bool.or_eq_true, decide_eq_true_eq, not_or, Int.not_lt] at hamount
    refine ⟨by simpa using hown, old, _, _, hold, ⟨rfl, rfl, rfl, rfl, ?_⟩, hex⟩
    exact hamount.2)

/-- **C22 (edit owner).** Only the owner of the ticker changes its owner. -/
theorem edit_owner_spec (P : Params) (o : Oracle) (s : State) (t : TxIn) (price : Int) (rd : Ready)
    (h : runEditCoinOwner P o s t price = .ok (.ok rd)) :
    symbolOwner s (t.str "d.Symbol") = some t.sender ∧
    ∀ adj, rd.exec adj = .ok ([.admin (.setCoinOwner (t.str "d.Symbol") (t.hex "d.NewOwner"))], []) := by
  unfold runEditCoinOwner at h
  simp only at h
  split at h
  · cases h
  split at h
  · cases h
  rename_i hown
  obtain ⟨com, _, hk⟩ := withCom_ready _ _ _ _ _ _ _ h
  split at hk
  · cases hk
  obtain ⟨_, _, _, _, hex⟩ := ready_eq _ _ _ _ _ hk
  exact ⟨by simpa using hown, hex⟩

/-- **C22 (mint).** Only the owner of the ticker mints, only the current (version 0) coin of a mintable token, within its maximum supply. -/
theorem mint_spec (P : Params) (o : Oracle) (s : State) (t : TxIn) (price : Int) (rd : Ready)
    (h : runMintToken P o s t price = .ok (.ok rd)) :
    ∃ ci, getCoin s (t.nat "d.Coin") = some ci ∧ ci.mintable = true ∧ ci.version = 0 ∧ symbolOwner s ci.symbol = some t.sender ∧
      ci.volume + t.int "d.Value" ≤ ci.maxSupply ∧ t.nat "d.Coin" ≠ 0 ∧
      ∀ adj, rd.exec adj = .ok ([.mint t.sender (t.nat "d.Coin") (t.int "d.Value")], []) := by
  unfold runMintToken at h
  simp only at h
  split at h
  · cases h
  rename_i hc0
  split at h
  · cases h
  rename_i ci hci
  split at h
  · cases h
  rename_i hmint
  split at h
  · cases h
  rename_i hmax
  split at h
  · cases h
  rename_i hown
  obtain ⟨com, _, hk⟩ := withCom_ready _ _ _ _ _ _ _ h
  split at hk
  · cases hk
  obtain ⟨_, _, _, _, hex⟩ := ready_eq _ _ _ _ _ hk
  simp only [Bool.or_eq_true, bne_iff_ne, ne_eq, not_or, Decidable.not_not] at hown
  exact ⟨ci, hci, by simpa using hmint, hown.1, hown.2, by omega, by simpa using hc0, hex⟩

/-- **C22 (pool token).** The token of a new pool gets id `ncoins + 1`, has **no owner**, and is registered by CreateSwapPool only. -/
theorem create_pool_spec (P : Params) (o : Oracle) (s : State) (t : TxIn) (price : Int) (rd : Ready)
    (h : runCreatePool P o s t price = .ok (.ok rd)) :
    ∃ pl lp tags, lp.id = s.ncoins + 1 ∧ lp.owner = none ∧ lp.version = 0 ∧ lp.symbol = lpSymbol (s.pools.length + 1) ∧
      ∀ adj, rd.exec adj = .ok ([.poolCreate t.sender pl lp], tags) := by
  unfold runCreatePool at h
  simp only at h
  split at h
  · cases h
  split at h
  · cases h
  split at h
  · cases h
  split at h
  · cases h
  obtain ⟨com, _, hk⟩ := withCom_ready _ _ _ _ _ _ _ h
  repeat' (split at hk)
  all_goals (first | (cases hk; done) | skip)
  all_goals (
    obtain ⟨_, _, _, _, hex⟩ := ready_eq _ _ _ _ _ hk
    exact ⟨_, _, _, rfl, rfl, rfl, rfl, hex⟩)

/-! A ticker without owner — every pool token — stays under nobody's control. -/

/-- MintToken on a coin whose ticker has no owner is rejected: pool tokens are minted by adding liquidity only. -/
theorem ownerless_not_mintable (P : Params) (o : Oracle) (s : State) (t : TxIn) (price : Int) (rd : Ready) (ci : CoinInfo)
    (hci : getCoin s (t.nat "d.Coin") = some ci) (hno : symbolOwner s ci.symbol = none) :
    runMintToken P o s t price ≠ .ok (.ok rd) := by
  intro h
  obtain ⟨ci', hci', _, _, hown, _⟩ := mint_spec P o s t price rd h
  rw [hci] at hci'; cases hci'
  rw [hno] at hown; cases hown

/-- … nor can anybody become its owner or recreate it. -/
theorem ownerless_stays_ownerless (P : Params) (o : Oracle) (s : State) (t : TxIn) (price : Int) (rd : Ready)
    (hno : symbolOwner s (t.str "d.Symbol") = none) :
    runEditCoinOwner P o s t price ≠ .ok (.ok rd) ∧ runRecreateCoin P o s t price ≠ .ok (.ok rd) ∧
    runRecreateToken P o s t price ≠ .ok (.ok rd) := by
  refine ⟨fun h => ?_, fun h => ?_, fun h => ?_⟩
  · have := (edit_owner_spec P o s t price rd h).1; rw [hno] at this; cases this
  · have := (recreate_coin_spec P o s t price rd h).1; rw [hno] at this; cases this
  · have := (recreate_token_spec P o s t price rd h).1; rw [hno] at this; cases this

/-! ### Version-0 ticker uniqueness -/

/-- (id, ticker, version) of every registered coin. -/
def coinKeys (s : State) : List (Nat × String × Nat) := s.coins.map (fun ci => (ci.id, ci.symbol, ci.version))

/-- At most one coin per ticker has version 0. -/
def UniqueV0 (s : State) : Prop :=
  ∀ a ∈ coinKeys s, ∀ b ∈ coinKeys s, a.2.1 = b.2.1 → a.2.2 = 0 → b.2.2 = 0 → a.1 = b.1

/-- Primitives other than `createCoin` / `bumpVersion` leave (id, ticker, version) of every coin alone. -/
theorem apply_coinKeys_neutral (s : State) (p : Prim) (h1 : p.newCoin = none) (h2 : ∀ c v, p ≠ .bumpVersion c v) :
    coinKeys (p.apply s) = coinKeys s := by
  cases p with
  | createCoin ci => simp [Prim.newCoin] at h1
  | bumpVersion c v => exact absurd rfl (h2 c v)
  | addVolume c v => simp only [Prim.apply, coinKeys]; exact map_updFirst_inv _ _ _ _ (fun _ => rfl)
  | addReserve c v => simp only [Prim.apply, coinKeys]; exact map_updFirst_inv _ _ _ _ (fun _ => rfl)
  | setCoinOwner sym a =>
    simp only [Prim.apply, coinKeys, List.map_map]
    congr 1; funext ci; simp only [Function.comp]; split <;> rfl
  | _ => simp [Prim.apply, coinKeys]

/-- **C22 (unique tickers, create).** Registering a version-0 coin under a ticker no coin has keeps version-0 tickers unique. -/
theorem uniqueV0_create (s : State) (ci : CoinInfo) (hu : UniqueV0 s) (hnew : ∀ k ∈ coinKeys s, k.2.1 ≠ ci.symbol) :
    UniqueV0 ((Prim.createCoin ci).apply s) := by
  intro a ha b hb hs ha0 hb0
  simp only [Prim.apply, coinKeys, List.map_append, List.map_cons, List.map_nil, List.mem_append, List.mem_singleton] at ha hb
  rcases ha with ha | ha <;> rcases hb with hb | hb
  · exact hu a (by simpa [coinKeys] using ha) b (by simpa [coinKeys] using hb) hs ha0 hb0
  · subst hb; exact absurd hs (hnew a (by simpa [coinKeys] using ha))
  · subst ha; exact absurd hs.symm (hnew b (by simpa [coinKeys] using hb))
  · subst ha; subst hb; rfl

/-- With distinct ids, updating "the first coin with id `k`" is updating "every coin with id `k`". -/
theorem updFirst_eq_map (l : List CoinInfo) (k : Nat) (g : CoinInfo → CoinInfo) (hn : (l.map (·.id)).Nodup) :
    updFirst (fun c => c.id == k) g l = l.map (fun c => if c.id == k then g c else c) := by
  induction l with
  | nil => rfl
  | cons x t ih =>
    simp only [List.map_cons, List.nodup_cons] at hn
    simp only [updFirst, List.map_cons]
    split
    · next hx =>
      congr 1
      have : ∀ c ∈ t, (if (c.id == k) = true then g c else c) = c := by
        intro c hc
        have : ¬ (c.id == k) = true := by
          intro hck
          simp only [beq_iff_eq] at hx hck
          apply hn.1
          rw [List.mem_map]
          exact ⟨c, hc, by omega⟩
        simp [this]
      calc t = t.map id := by simp
        _ = t.map (fun c => if (c.id == k) = true then g c else c) := by
            apply List.map_congr_left
            intro c hc; exact (this c hc).symm
    · rw [ih hn.2]

/-- **C22 (unique tickers, recreate).** Giving the version-0 coin of a ticker a non-zero version and then registering a new version-0
    coin under the same ticker keeps version-0 tickers unique — provided ids are distinct (Part A) so that the bump hits that coin. -/
theorem uniqueV0_recreate (s : State) (old ci : CoinInfo) (v : Nat) (hu : UniqueV0 s) (hn : (coinIds s).Nodup)
    (hold : old ∈ s.coins) (holdv : old.version = 0) (hsym : ci.symbol = old.symbol) (hv : v ≠ 0) :
    UniqueV0 ((Prim.createCoin ci).apply ((Prim.bumpVersion old.id v).apply s)) := by
  have hkeys : coinKeys ((Prim.createCoin ci).apply ((Prim.bumpVersion old.id v).apply s)) =
      s.coins.map (fun c => (c.id, c.symbol, if c.id == old.id then v else c.version)) ++ [(ci.id, ci.symbol, ci.version)] := by
    simp only [Prim.apply, coinKeys, List.map_append, List.map_cons, List.map_nil]
    rw [updFirst_eq_map s.coins old.id _ hn, List.map_map]
    congr 1
    apply List.map_congr_left
    intro c _
    simp only [Function.comp]
    split <;> rfl
  -- a surviving version-0 key of the old ticker would be `old` itself, which was bumped
  have hkey : ∀ x ∈ s.coins, x.symbol = old.symbol → (if (x.id == old.id) = true then v else x.version) = 0 → False := by
    intro x hx hxs hx0
    by_cases hid : (x.id == old.id) = true
    · simp only [hid, if_true] at hx0; exact hv hx0
    · simp only [hid, if_false] at hx0
      have := hu (x.id, x.symbol, x.version) (by simp only [coinKeys, List.mem_map]; exact ⟨x, hx, rfl⟩)
                 (old.id, old.symbol, old.version) (by simp only [coinKeys, List.mem_map]; exact ⟨old, hold, rfl⟩) hxs hx0 holdv
      simp only at this
      exact hid (by simpa using this)
  intro a ha b hb hs ha0 hb0
  rw [hkeys] at ha hb
  simp only [List.mem_append, List.mem_map, List.mem_singleton] at ha hb
  rcases ha with ⟨x, hx, rfl⟩ | rfl <;> rcases hb with ⟨y, hy, rfl⟩ | rfl
  · simp only at hs ha0 hb0 ⊢
    by_cases hxi : (x.id == old.id) = true
    · simp only [hxi, if_true] at ha0; exact absurd ha0 hv
    · by_cases hyi : (y.id == old.id) = true
      · simp only [hyi, if_true] at hb0; exact absurd hb0 hv
      · simp only [hxi, hyi, if_false] at ha0 hb0
        exact hu (x.id, x.symbol, x.version) (by simp only [coinKeys, List.mem_map]; exact ⟨x, hx, rfl⟩)
                 (y.id, y.symbol, y.version) (by simp only [coinKeys, List.mem_map]; exact ⟨y, hy, rfl⟩) hs ha0 hb0
  · simp only at hs ha0
    exact absurd ha0 (fun h0 => hkey x hx (hs.trans hsym) h0)
  · simp only at hs hb0
    exact absurd hb0 (fun h0 => hkey y hy (hs.symm.trans hsym) h0)
  · rfl

/-- The create step of a validated CreateCoin / CreateToken keeps version-0 tickers unique. -/
theorem create_keeps_unique (P : Params) (s : State) (sym : String) (ci : CoinInfo) (hu : UniqueV0 s)
    (hnew : symbolExists P s sym = false) (hsym : ci.symbol = sym) : UniqueV0 ((Prim.createCoin ci).apply s) := by
  apply uniqueV0_create s ci hu
  intro k hk hks
  simp only [coinKeys, List.mem_map] at hk
  obtain ⟨x, hx, rfl⟩ := hk
  simp only [symbolExists, Bool.or_eq_false_iff, List.any_eq_false] at hnew
  have := hnew.2 x hx
  simp only at hks
  rw [hsym] at hks
  simp [hks] at this

/-- The two registry steps of a validated RecreateCoin / RecreateToken keep version-0 tickers unique. -/
theorem recreate_keeps_unique (s : State) (sym : String) (old ci : CoinInfo) (hu : UniqueV0 s) (hn : (coinIds s).Nodup)
    (hold : coinBySymbolV0 s sym = some old) (hsym : ci.symbol = sym) :
    UniqueV0 ((Prim.createCoin ci).apply ((Prim.bumpVersion old.id (maxVersion s sym + 1)).apply s)) := by
  obtain ⟨hmem, hp⟩ := findFirst_mem _ _ _ hold
  simp only [Bool.and_eq_true, beq_iff_eq] at hp
  exact uniqueV0_recreate s old ci _ hu hn hmem hp.2 (hsym.trans hp.1.symm) (by omega)

/-! Non-vacuity (interpreter): CreateCoin in a state with 7 coins registers coin 8; a second CreateCoin of the same ticker is
    rejected (201); RecreateCoin by the owner bumps the old coin to version 1 and registers coin 9 with version 0. -/
def c22State : State :=
  { balances := [((1, 0), 100000000000000000000000000)], ncoins := 7,
    commission := [("create_coin", 100), ("create_ticker3", 1000), ("recreate_coin", 100), ("failed_tx", 1)] }
def c22Create : TxIn :=
  { dec := true, rawLen := 100, typ := 5, nonce := 1, chain := 2, gasPrice := 1, sigOk := true, sender := 1,
    f := [("d.Name", "41"), ("d.Symbol", "ABC"), ("d.InitialAmount", "1000000000000000000000"), ("d.InitialReserve", "10000000000000000000000"),
          ("d.ConstantReserveRatio", "50"), ("d.MaxSupply", "1000000000000000000000000")] }

#guard (match deliverTx {} (fun _ => none) c22State 10200001 c22Create with
  | .ok out => out.code == 0 && (match applyChecked c22State out.plan with
      | some s1 => s1.ncoins == 8 && (s1.coins.map (fun c => (c.id, c.symbol, c.version))) == [(8, "ABC", 0)] &&
          (match deliverTx {} (fun _ => none) s1 10200001 { c22Create with nonce := 2 } with | .ok o2 => o2.code == 201 | _ => false) &&
          (match deliverTx {} (fun _ => none) s1 10200001 { c22Create with nonce := 2, typ := 16 } with
            | .ok o3 => o3.code == 0 && (match applyChecked s1 o3.plan with
                | some s2 => (s2.coins.map (fun c => (c.id, c.symbol, c.version))) == [(8, "ABC", 1), (9, "ABC", 0)] && s2.ncoins == 9
                | none => false)
            | _ => false)
      | none => false)
  | .error _ => false)

end Minter
