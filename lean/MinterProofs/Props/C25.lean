import MinterModel.Concurrency
/-
  C25 — Concurrent queries never crash or perturb block execution (op-level part).
  `C25_interleave_invariant`: for every machine whose queries are read-only, inserting any number of queries anywhere into a
  history changes neither the final state nor any response of the non-query ops. Instantiated for the transaction layer:
  the model's CheckTx computes its answer without producing a state (it is a function `State → … → code`), so it is a query.
  PARTIAL: this is interleaving at ABCI-op granularity only; the Go-runtime part of the property is exploration
  (harness mode `concurrent`), named as such in MANIFEST and evidence.
-/
namespace Minter
open Machine

variable {σ Op Out : Type}

theorem run_cons (M : Machine σ Op Out) (s : σ) (op : Op) (rest : List Op) :
    M.run s (op :: rest) =
      (if M.isQuery op then M.run (M.step s op).1 rest
       else ((M.run (M.step s op).1 rest).1, (M.step s op).2 :: (M.run (M.step s op).1 rest).2)) := by
  rfl

theorem strip_cons_query (M : Machine σ Op Out) (op : Op) (rest : List Op) (h : M.isQuery op = true) :
    M.strip (op :: rest) = M.strip rest := by
  unfold Machine.strip; simp [List.filter, h]

theorem strip_cons_exec (M : Machine σ Op Out) (op : Op) (rest : List Op) (h : M.isQuery op = false) :
    M.strip (op :: rest) = op :: M.strip rest := by
  unfold Machine.strip; simp [List.filter, h]

/-- **C25 (op level).** Queries interleaved into a history do not perturb it. -/
theorem C25_interleave_invariant (M : Machine σ Op Out) (s : σ) (ops : List Op) :
    M.run s ops = M.run s (M.strip ops) := by
  induction ops generalizing s with
  | nil => rfl
  | cons op rest ih =>
    by_cases hq : M.isQuery op = true
    · rw [strip_cons_query M op rest hq, run_cons, if_pos hq, M.query_pure s op hq]
      exact ih s
    · have hq' : M.isQuery op = false := by simpa using hq
      rw [strip_cons_exec M op rest hq', run_cons, run_cons, if_neg hq, if_neg hq, ih (M.step s op).1]

/-- Two histories that differ only in their queries end in the same state with the same responses. -/
theorem C25_same_modulo_queries (M : Machine σ Op Out) (s : σ) (ops₁ ops₂ : List Op)
    (h : M.strip ops₁ = M.strip ops₂) : M.run s ops₁ = M.run s ops₂ := by
  rw [C25_interleave_invariant M s ops₁, C25_interleave_invariant M s ops₂, h]

/-! Non-vacuity: a counter machine with a read-only `get` op. -/
def exMachine : Machine Nat (Option Nat) Nat where
  step := fun s op => match op with
    | some k => (s + k, s + k)
    | none => (s, s)
  isQuery := fun op => op.isNone
  query_pure := by
    intro s op h
    cases op with
    | none => rfl
    | some k => simp at h

example : exMachine.run 0 [some 1, none, some 2, none, none] = exMachine.run 0 [some 1, some 2] := by
  rw [C25_interleave_invariant]; rfl

end Minter
