import MinterProofs.Bancor
/-
  C12 — Bancor conversions follow the bonding-curve formulas.

  What is proved here
  * (a) the branches the node decides with integer arithmetic (`amount = 0`, `crr = 100`, selling the whole supply), for
    all inputs: never negative, a sale never above the reserve, monotone in the amount, `amount = 0 ↦ 0`, selling the whole
    supply returns exactly the reserve for every crr, buy-then-sell round trips, and: every integer-branch result satisfies
    the exact certificate with tolerance 0, i.e. it *is* the truncated real formula.
  * (b) certificate soundness: whenever the exact certificate (`saleReturnCert` &c., evaluated by the driver on every result
    of the real Go code) accepts a result `r` with tolerance `δ`, then `r` has the properties C12 demands, with explicit
    bounds: `−δ ≤ r`, a sale `≤ reserve + δ`, `a ≤ a' → r ≤ r' + δ + δ'`, round trips `≤ paid + tolerance`.
  What is *not* proved (and cannot be without a bit-exact model of `math.Exp`/`big.Float`): that the Go float pipeline is
  accepted by the certificate for **all** inputs.  `C12_partial` carries "the result is certified" as a hypothesis; the harness
  mode `bancor` checks that hypothesis on every generated input (translation validation per input).
-/
namespace Minter

/-! ## (a) Integer branches -/

section IntBranches
variable {v R : Int} {c : Nat}

theorem purchaseReturnInt_zero : purchaseReturnInt v R c 0 = some 0 := by simp [purchaseReturnInt]
theorem purchaseAmountInt_zero : purchaseAmountInt v R c 0 = some 0 := by simp [purchaseAmountInt]
theorem saleReturnInt_zero : saleReturnInt v R c 0 = some 0 := by simp [saleReturnInt]
theorem saleAmountInt_zero : saleAmountInt v R c 0 = some 0 := by simp [saleAmountInt]

/-- Selling the entire supply returns exactly the reserve, for every reserve ratio. -/
theorem saleReturnInt_all (hv : 0 < v) : saleReturnInt v R c v = some R := by
  have : v ≠ 0 := by omega
  simp [saleReturnInt, this]

theorem purchaseReturnInt_nonneg {d r : Int} (hv : 0 < v) (hR : 0 < R) (hd : 0 ≤ d)
    (h : purchaseReturnInt v R c d = some r) : 0 ≤ r := by
  unfold purchaseReturnInt at h
  split at h
  · cases h; omega
  · split at h
    · cases h; exact Int.ediv_nonneg (Int.mul_nonneg (le_of_lt hv) hd) (le_of_lt hR)
    · cases h

theorem purchaseAmountInt_nonneg {w r : Int} (hv : 0 < v) (hR : 0 < R) (hw : 0 ≤ w)
    (h : purchaseAmountInt v R c w = some r) : 0 ≤ r := by
  unfold purchaseAmountInt at h
  split at h
  · cases h; omega
  · split at h
    · cases h; exact Int.ediv_nonneg (Int.mul_nonneg hw (le_of_lt hR)) (le_of_lt hv)
    · cases h

theorem saleAmountInt_nonneg {w r : Int} (hv : 0 < v) (hR : 0 < R) (hw : 0 ≤ w)
    (h : saleAmountInt v R c w = some r) : 0 ≤ r := by
  unfold saleAmountInt at h
  split at h
  · cases h; omega
  · split at h
    · cases h; exact Int.ediv_nonneg (Int.mul_nonneg hw (le_of_lt hv)) (le_of_lt hR)
    · cases h

/-- A sale is never negative and never exceeds the reserve. -/
theorem saleReturnInt_range {a r : Int} (hv : 0 < v) (hR : 0 < R) (ha : 0 ≤ a) (hav : a ≤ v)
    (h : saleReturnInt v R c a = some r) : 0 ≤ r ∧ r ≤ R := by
  unfold saleReturnInt at h
  split at h
  · cases h; omega
  · split at h
    · cases h; omega
    · split at h
      · cases h
        refine ⟨Int.ediv_nonneg (Int.mul_nonneg (le_of_lt hR) ha) (le_of_lt hv), ?_⟩
        apply Int.ediv_le_of_le_mul hv
        exact Int.mul_le_mul_of_nonneg_left hav (le_of_lt hR)
      · cases h

/-- The coins to sell for `w ≤ reserve` never exceed the supply (crr = 100 and zero branches). -/
theorem saleAmountInt_le_supply {w r : Int} (hv : 0 < v) (hR : 0 < R) (hwR : w ≤ R)
    (h : saleAmountInt v R c w = some r) : r ≤ v := by
  unfold saleAmountInt at h
  split at h
  · cases h; omega
  · split at h
    · cases h
      apply Int.ediv_le_of_le_mul hR
      exact Int.mul_le_mul_of_nonneg_right hwR (le_of_lt hv) |>.trans (le_of_eq (mul_comm R v))
    · cases h

/-- Results do not decrease as the amount grows. -/
theorem saleReturnInt_mono {a a' r r' : Int} (hv : 0 < v) (hR : 0 < R) (ha : 0 ≤ a) (haa : a ≤ a') (hav : a' ≤ v)
    (h : saleReturnInt v R c a = some r) (h' : saleReturnInt v R c a' = some r') : r ≤ r' := by
  have hr := saleReturnInt_range hv hR ha (le_trans haa hav) h
  have hr' := saleReturnInt_range hv hR (le_trans ha haa) hav h'
  unfold saleReturnInt at h h'
  split at h
  · cases h; exact hr'.1
  · split at h
    · -- a = v, hence a' = v
      have : a' = v := by omega
      cases h; rw [if_neg (by omega), if_pos this] at h'; cases h'; exact le_refl _
    · split at h
      · rename_i hc; cases h
        split at h'
        · omega
        · split at h'
          · cases h'; exact hr.2
          · cases h'
            exact Int.ediv_le_ediv hv (Int.mul_le_mul_of_nonneg_left haa (le_of_lt hR))
      · cases h

theorem purchaseReturnInt_mono {d d' r r' : Int} (hv : 0 < v) (hR : 0 < R) (hd : 0 ≤ d) (hdd : d ≤ d')
    (h : purchaseReturnInt v R c d = some r) (h' : purchaseReturnInt v R c d' = some r') : r ≤ r' := by
  have hr' := purchaseReturnInt_nonneg hv hR (le_trans hd hdd) h'
  unfold purchaseReturnInt at h h'
  split at h
  · cases h; exact hr'
  · split at h
    · rename_i hc; cases h
      rw [if_neg (by omega), if_pos hc] at h'; cases h'
      exact Int.ediv_le_ediv hR (Int.mul_le_mul_of_nonneg_left hdd (le_of_lt hv))
    · cases h

theorem purchaseAmountInt_mono {w w' r r' : Int} (hv : 0 < v) (hR : 0 < R) (hw : 0 ≤ w) (hww : w ≤ w')
    (h : purchaseAmountInt v R c w = some r) (h' : purchaseAmountInt v R c w' = some r') : r ≤ r' := by
  have hr' := purchaseAmountInt_nonneg hv hR (le_trans hw hww) h'
  unfold purchaseAmountInt at h h'
  split at h
  · cases h; exact hr'
  · split at h
    · rename_i hc; cases h
      rw [if_neg (by omega), if_pos hc] at h'; cases h'
      exact Int.ediv_le_ediv hv (Int.mul_le_mul_of_nonneg_right hww (le_of_lt hR))
    · cases h

theorem saleAmountInt_mono {w w' r r' : Int} (hv : 0 < v) (hR : 0 < R) (hw : 0 ≤ w) (hww : w ≤ w')
    (h : saleAmountInt v R c w = some r) (h' : saleAmountInt v R c w' = some r') : r ≤ r' := by
  have hr' := saleAmountInt_nonneg hv hR (le_trans hw hww) h'
  unfold saleAmountInt at h h'
  split at h
  · cases h; exact hr'
  · split at h
    · rename_i hc; cases h
      rw [if_neg (by omega), if_pos hc] at h'; cases h'
      exact Int.ediv_le_ediv hR (Int.mul_le_mul_of_nonneg_right hww (le_of_lt hv))
    · cases h

/-- crr = 100 round trip: deposit `d`, receive `b`, sell `b` in the updated coin `(v+b, R+d)`: never more than `d` comes back. -/
theorem roundTripInt_purchaseReturn_saleReturn {d b s : Int} (hv : 0 < v) (hR : 0 < R) (hd : 0 ≤ d)
    (hb : purchaseReturnInt v R 100 d = some b) (hs : saleReturnInt (v + b) (R + d) 100 b = some s) : s ≤ d := by
  have hb0 := purchaseReturnInt_nonneg hv hR hd hb
  unfold purchaseReturnInt at hb
  unfold saleReturnInt at hs
  split at hb
  · cases hb; simp at hs; omega
  · simp only [if_true] at hb
    cases hb
    set b := v * d / R with hbdef
    have hbR : b * R ≤ v * d := Int.ediv_mul_le _ (by omega)
    split at hs
    · cases hs; exact hd
    · rw [if_neg (by omega)] at hs
      simp only [if_true] at hs
      cases hs
      apply Int.ediv_le_of_le_mul (by omega)
      nlinarith

/-- crr = 100 round trip: buy exactly `w` for `p`, sell `w` in the updated coin `(v+w, R+p)`: never more than `p` comes back. -/
theorem roundTripInt_purchaseAmount_saleReturn {w p s : Int} (hv : 0 < v) (hR : 0 < R) (hw : 0 ≤ w)
    (hp : purchaseAmountInt v R 100 w = some p) (hs : saleReturnInt (v + w) (R + p) 100 w = some s) : s ≤ p := by
  have hp0 := purchaseAmountInt_nonneg hv hR hw hp
  unfold purchaseAmountInt at hp
  unfold saleReturnInt at hs
  split at hp
  · rename_i h0; subst h0; cases hp; simp at hs; omega
  · simp only [if_true] at hp
    cases hp
    set p := w * R / v with hpdef
    have hlt : w * R < (p + 1) * v := Int.lt_ediv_add_one_mul_self _ hv
    rw [if_neg (by assumption), if_neg (by omega)] at hs
    simp only [if_true] at hs
    cases hs
    have h1 : (R + p) * w / (v + w) < p + 1 := by
      apply (Int.ediv_lt_iff_lt_mul (by omega)).mpr
      nlinarith
    omega

/-- crr = 100: after depositing `d` for `b` coins, taking `d` back out of the updated coin costs at least `b` coins. -/
theorem roundTripInt_purchaseReturn_saleAmount {d b q : Int} (hv : 0 < v) (hR : 0 < R) (hd : 0 ≤ d)
    (hb : purchaseReturnInt v R 100 d = some b) (hq : saleAmountInt (v + b) (R + d) 100 d = some q) : b ≤ q := by
  have hb0 := purchaseReturnInt_nonneg hv hR hd hb
  unfold purchaseReturnInt at hb
  unfold saleAmountInt at hq
  split at hb
  · rename_i h0; subst h0; cases hb; simp at hq; omega
  · simp only [if_true] at hb
    cases hb
    set b := v * d / R with hbdef
    have hbR : b * R ≤ v * d := Int.ediv_mul_le _ (by omega)
    rw [if_neg (by assumption)] at hq
    simp only [if_true] at hq
    cases hq
    apply (Int.le_ediv_iff_mul_le (by omega)).mpr
    nlinarith

end IntBranches

/-! ## (b) Certificate soundness — saleReturn -/

section SaleReturn
variable {v R : Int} {c : Nat} {a r δ : Int}

/-- (i) a certified sale return is not negative beyond the tolerance: `−δ ≤ r`. -/
theorem saleReturnCert_nonneg (hv : 0 < v) (hR : 0 < R) (ha : 0 ≤ a) (hav : a ≤ v)
    (h : saleReturnCert v R c a r δ = true) : 0 < r + 1 + δ := by
  rw [saleReturnCert_iff] at h
  rcases h.2 with h2 | h2
  · omega
  · by_contra hneg
    have hle : (v - a) ^ 100 ≤ v ^ 100 := ipow_le (by omega) (by omega) 100
    have hRc : 0 < R ^ c := ipow_pos hR c
    have hv100 : 0 < v ^ 100 := ipow_pos hv 100
    have h3 : (R - (r + 1 + δ)) ^ c * v ^ 100 < R ^ c * v ^ 100 := by
      calc (R - (r + 1 + δ)) ^ c * v ^ 100 < (v - a) ^ 100 * R ^ c := h2
        _ ≤ v ^ 100 * R ^ c := Int.mul_le_mul_of_nonneg_right hle (le_of_lt hRc)
        _ = R ^ c * v ^ 100 := mul_comm _ _
    have h4 := lt_of_ipow_lt (le_of_lt hR) (lt_of_mul_lt_right hv100 h3)
    omega

/-- (ii) a certified sale return never exceeds the reserve beyond the tolerance: `r − δ ≤ R`. -/
theorem saleReturnCert_le_reserve (hR : 0 < R) (h : saleReturnCert v R c a r δ = true) : r - δ ≤ R := by
  rw [saleReturnCert_iff] at h
  rcases h.1 with h1 | h1
  · omega
  · exact h1.1

/-- (iii) monotone up to the tolerances: `a ≤ a'`, both certified ⇒ `r ≤ r' + δ + δ'`. -/
theorem saleReturnCert_mono {a' r' δ' : Int} (hv : 0 < v) (hR : 0 < R) (ha : 0 ≤ a) (haa : a ≤ a')
    (hav : a' ≤ v) (h : saleReturnCert v R c a r δ = true) (h' : saleReturnCert v R c a' r' δ' = true) :
    r ≤ r' + δ + δ' := by
  have hpos' := saleReturnCert_nonneg hv hR (le_trans ha haa) hav h'
  rw [saleReturnCert_iff] at h h'
  rcases h.1 with h1 | ⟨h1R, h1⟩
  · omega
  · rcases h'.2 with h2 | h2
    · omega
    · have hRc : 0 < R ^ c := ipow_pos hR c
      have hv100 : 0 < v ^ 100 := ipow_pos hv 100
      have hle : (v - a') ^ 100 ≤ (v - a) ^ 100 := ipow_le (by omega) (by omega) 100
      have h3 : (R - (r' + 1 + δ')) ^ c * v ^ 100 < (R - (r - δ)) ^ c * v ^ 100 :=
        calc (R - (r' + 1 + δ')) ^ c * v ^ 100 < (v - a') ^ 100 * R ^ c := h2
          _ ≤ (v - a) ^ 100 * R ^ c := Int.mul_le_mul_of_nonneg_right hle (le_of_lt hRc)
          _ ≤ (R - (r - δ)) ^ c * v ^ 100 := h1
      have h4 := lt_of_ipow_lt (by omega) (lt_of_mul_lt_right hv100 h3)
      omega

/-- At `a = v` the certificate accepts exactly the results within `δ` of the reserve (with `δ = 0`: exactly the reserve). -/
theorem saleReturnCert_all (hv : 0 < v) (hR : 0 < R) :
    saleReturnCert v R c v r δ = true ↔ (r - δ ≤ R ∧ R < r + 1 + δ) := by
  rw [saleReturnCert_iff]
  have hv100 : 0 < v ^ 100 := ipow_pos hv 100
  have hz : (v - v) ^ 100 = 0 := by simp
  rw [hz, Int.zero_mul]
  constructor
  · rintro ⟨h1, h2⟩
    refine ⟨?_, ?_⟩
    · rcases h1 with h1 | h1
      · omega
      · exact h1.1
    · rcases h2 with h2 | h2
      · exact h2
      · by_contra hge
        have : 0 ≤ (R - (r + 1 + δ)) ^ c := ipow_nonneg (by omega) c
        have := Int.mul_nonneg this (le_of_lt hv100)
        omega
  · rintro ⟨h1, h2⟩
    refine ⟨Or.inr ⟨h1, ?_⟩, Or.inl h2⟩
    exact Int.mul_nonneg (ipow_nonneg (by omega) c) (le_of_lt hv100)

/-- At `a = 0` the certificate with tolerance 0 accepts exactly `0`. -/
theorem saleReturnCert_zero (hv : 0 < v) (hR : 0 < R) (hc : 0 < c) :
    saleReturnCert v R c 0 r 0 = true ↔ r = 0 := by
  rw [saleReturnCert_iff]
  have hv100 : 0 < v ^ 100 := ipow_pos hv 100
  have hRc : 0 < R ^ c := ipow_pos hR c
  simp only [Int.sub_zero, Int.add_zero]
  constructor
  · rintro ⟨h1, h2⟩
    have hle : r ≤ 0 := by
      rcases h1 with h1 | ⟨h1R, h1⟩
      · exact h1
      · rw [mul_comm] at h1
        have := le_of_ipow_le hc (by omega) (le_of_mul_le_right hv100 h1)
        omega
    have hge : 0 < r + 1 := by
      rcases h2 with h2 | h2
      · omega
      · rw [mul_comm (v ^ 100)] at h2
        have := lt_of_ipow_lt (le_of_lt hR) (lt_of_mul_lt_right hv100 h2)
        omega
    omega
  · rintro rfl
    refine ⟨Or.inl (le_refl _), ?_⟩
    by_cases hR1 : R < 0 + 1
    · exact Or.inl hR1
    · right
      rw [mul_comm (v ^ 100)]
      exact Int.mul_lt_mul_of_pos_right (ipow_lt (by omega) (by omega) hc) hv100

end SaleReturn

/-! ## (b) Certificate soundness — purchaseReturn -/

section PurchaseReturn
variable {v R : Int} {c : Nat} {d r δ : Int}

/-- (i) a certified purchase return is not negative beyond the tolerance. -/
theorem purchaseReturnCert_nonneg (hv : 0 < v) (hR : 0 < R) (hd : 0 ≤ d)
    (h : purchaseReturnCert v R c d r δ = true) : 0 < r + 1 + δ := by
  rw [purchaseReturnCert_iff] at h
  obtain ⟨hb, h2⟩ := h.2
  have hRc : 0 < R ^ c := ipow_pos hR c
  have hle : R ^ c ≤ (R + d) ^ c := ipow_le (le_of_lt hR) (by omega) c
  have hv100 : 0 ≤ v ^ 100 := ipow_nonneg (le_of_lt hv) 100
  have h3 : v ^ 100 * R ^ c < (v + (r + 1 + δ)) ^ 100 * R ^ c :=
    calc v ^ 100 * R ^ c = R ^ c * v ^ 100 := mul_comm _ _
      _ ≤ (R + d) ^ c * v ^ 100 := Int.mul_le_mul_of_nonneg_right hle hv100
      _ < _ := h2
  have h4 := lt_of_ipow_lt hb (lt_of_mul_lt_right hRc h3)
  omega

/-- (iii) monotone up to the tolerances. -/
theorem purchaseReturnCert_mono {d' r' δ' : Int} (hv : 0 < v) (hR : 0 < R) (hd : 0 ≤ d) (hdd : d ≤ d')
    (h : purchaseReturnCert v R c d r δ = true) (h' : purchaseReturnCert v R c d' r' δ' = true) :
    r ≤ r' + δ + δ' := by
  have hpos' := purchaseReturnCert_nonneg hv hR (le_trans hd hdd) h'
  rw [purchaseReturnCert_iff] at h h'
  rcases h.1 with h1 | h1
  · omega
  · obtain ⟨hb, h2⟩ := h'.2
    have hRc : 0 < R ^ c := ipow_pos hR c
    have hv100 : 0 ≤ v ^ 100 := ipow_nonneg (le_of_lt hv) 100
    have hle : (R + d) ^ c ≤ (R + d') ^ c := ipow_le (by omega) (by omega) c
    have h3 : (v + (r - δ)) ^ 100 * R ^ c < (v + (r' + 1 + δ')) ^ 100 * R ^ c :=
      calc (v + (r - δ)) ^ 100 * R ^ c ≤ (R + d) ^ c * v ^ 100 := h1
        _ ≤ (R + d') ^ c * v ^ 100 := Int.mul_le_mul_of_nonneg_right hle hv100
        _ < _ := h2
    have h4 := lt_of_ipow_lt hb (lt_of_mul_lt_right hRc h3)
    omega

end PurchaseReturn

/-! ## (b) Certificate soundness — purchaseAmount -/

section PurchaseAmount
variable {v R : Int} {c : Nat} {w r δ : Int}

/-- (i) a certified purchase cost is not negative beyond the tolerance. -/
theorem purchaseAmountCert_nonneg (hv : 0 < v) (hR : 0 < R) (hw : 0 ≤ w)
    (h : purchaseAmountCert v R c w r δ = true) : 0 < r + 1 + δ := by
  rw [purchaseAmountCert_iff] at h
  obtain ⟨hb, h2⟩ := h.2
  have hRc : 0 ≤ R ^ c := ipow_nonneg (le_of_lt hR) c
  have hle : v ^ 100 ≤ (w + v) ^ 100 := ipow_le (le_of_lt hv) (by omega) 100
  have hv100 : 0 < v ^ 100 := ipow_pos hv 100
  have h3 : R ^ c * v ^ 100 < (R + (r + 1 + δ)) ^ c * v ^ 100 :=
    calc R ^ c * v ^ 100 = v ^ 100 * R ^ c := mul_comm _ _
      _ ≤ (w + v) ^ 100 * R ^ c := Int.mul_le_mul_of_nonneg_right hle hRc
      _ < _ := h2
  have h4 := lt_of_ipow_lt hb (lt_of_mul_lt_right hv100 h3)
  omega

/-- (iii) monotone up to the tolerances. -/
theorem purchaseAmountCert_mono {w' r' δ' : Int} (hv : 0 < v) (hR : 0 < R) (hw : 0 ≤ w) (hww : w ≤ w')
    (h : purchaseAmountCert v R c w r δ = true) (h' : purchaseAmountCert v R c w' r' δ' = true) :
    r ≤ r' + δ + δ' := by
  have hpos' := purchaseAmountCert_nonneg hv hR (le_trans hw hww) h'
  rw [purchaseAmountCert_iff] at h h'
  rcases h.1 with h1 | h1
  · omega
  · obtain ⟨hb, h2⟩ := h'.2
    have hRc : 0 ≤ R ^ c := ipow_nonneg (le_of_lt hR) c
    have hv100 : 0 < v ^ 100 := ipow_pos hv 100
    have hle : (w + v) ^ 100 ≤ (w' + v) ^ 100 := ipow_le (by omega) (by omega) 100
    have h3 : (R + (r - δ)) ^ c * v ^ 100 < (R + (r' + 1 + δ')) ^ c * v ^ 100 :=
      calc (R + (r - δ)) ^ c * v ^ 100 ≤ (w + v) ^ 100 * R ^ c := h1
        _ ≤ (w' + v) ^ 100 * R ^ c := Int.mul_le_mul_of_nonneg_right hle hRc
        _ < _ := h2
    have h4 := lt_of_ipow_lt hb (lt_of_mul_lt_right hv100 h3)
    omega

end PurchaseAmount

/-! ## (b) Certificate soundness — saleAmount -/

section SaleAmount
variable {v R : Int} {c : Nat} {w r δ : Int}

/-- (i) a certified sale amount is not negative beyond the tolerance. -/
theorem saleAmountCert_nonneg (hv : 0 < v) (hR : 0 < R) (hw : 0 ≤ w) (hwR : w ≤ R)
    (h : saleAmountCert v R c w r δ = true) : 0 < r + 1 + δ := by
  rw [saleAmountCert_iff] at h
  rcases h.2 with h2 | h2
  · omega
  · have hle : (R - w) ^ c ≤ R ^ c := ipow_le (by omega) (by omega) c
    have hRc : 0 < R ^ c := ipow_pos hR c
    have hv100 : 0 ≤ v ^ 100 := ipow_nonneg (le_of_lt hv) 100
    have h3 : (v - (r + 1 + δ)) ^ 100 * R ^ c < v ^ 100 * R ^ c :=
      calc (v - (r + 1 + δ)) ^ 100 * R ^ c < (R - w) ^ c * v ^ 100 := h2
        _ ≤ R ^ c * v ^ 100 := Int.mul_le_mul_of_nonneg_right hle hv100
        _ = v ^ 100 * R ^ c := mul_comm _ _
    have h4 := lt_of_ipow_lt (le_of_lt hv) (lt_of_mul_lt_right hRc h3)
    omega

/-- (ii) the coins to sell never exceed the supply beyond the tolerance: `r − δ ≤ v`. -/
theorem saleAmountCert_le_supply (hv : 0 < v) (h : saleAmountCert v R c w r δ = true) : r - δ ≤ v := by
  rw [saleAmountCert_iff] at h
  rcases h.1 with h1 | h1
  · omega
  · exact h1.1

/-- (iii) monotone up to the tolerances. -/
theorem saleAmountCert_mono {w' r' δ' : Int} (hv : 0 < v) (hR : 0 < R) (hw : 0 ≤ w) (hww : w ≤ w') (hwR : w' ≤ R)
    (h : saleAmountCert v R c w r δ = true) (h' : saleAmountCert v R c w' r' δ' = true) :
    r ≤ r' + δ + δ' := by
  have hpos' := saleAmountCert_nonneg hv hR (le_trans hw hww) hwR h'
  rw [saleAmountCert_iff] at h h'
  rcases h.1 with h1 | ⟨h1v, h1⟩
  · omega
  · rcases h'.2 with h2 | h2
    · omega
    · have hRc : 0 < R ^ c := ipow_pos hR c
      have hv100 : 0 ≤ v ^ 100 := ipow_nonneg (le_of_lt hv) 100
      have hle : (R - w') ^ c ≤ (R - w) ^ c := ipow_le (by omega) (by omega) c
      have h3 : (v - (r' + 1 + δ')) ^ 100 * R ^ c < (v - (r - δ)) ^ 100 * R ^ c :=
        calc (v - (r' + 1 + δ')) ^ 100 * R ^ c < (R - w') ^ c * v ^ 100 := h2
          _ ≤ (R - w) ^ c * v ^ 100 := Int.mul_le_mul_of_nonneg_right hle hv100
          _ ≤ _ := h1
      have h4 := lt_of_ipow_lt (by omega) (lt_of_mul_lt_right hRc h3)
      omega

end SaleAmount

/-! ## (b)(iv) Round trips on certified results -/

/-- Deposit `d`, receive a certified `r ≥ 0` coins (tolerance `δ`), sell them in the updated coin `(v+r, R+d)` for a
    certified `s` (tolerance `δ'`).  Then `(s − δ' − d)·(v + r) ≤ 100·δ·R`: what comes back exceeds the deposit by at most
    `δ' + 100·δ·R/(v+r)` pips — `δ` coins too many are worth at most `100·δ·R/(v+r)` in reserve.  With `δ = 0`
    (the purchase was truncated correctly) `s ≤ d + δ'`. -/
theorem roundTrip_purchaseReturn_saleReturn {v R : Int} {c : Nat} {d r δ s δ' : Int}
    (hv : 0 < v) (hR : 0 < R) (hc1 : 1 ≤ c) (hc : c ≤ 100) (hd : 0 ≤ d) (hr : 0 ≤ r) (hδ : 0 ≤ δ)
    (hp : purchaseReturnCert v R c d r δ = true) (hs : saleReturnCert (v + r) (R + d) c r s δ' = true) :
    (s - δ' - d) * (v + r) ≤ 100 * δ * R := by
  rw [purchaseReturnCert_iff] at hp
  rw [saleReturnCert_iff] at hs
  have hV : 0 < v + r := by omega
  have hδR : 0 ≤ 100 * δ * R := Int.mul_nonneg (by omega) (le_of_lt hR)
  rcases hs.1 with h1 | ⟨h1R, h1⟩
  · -- s − δ' ≤ 0 ≤ d
    have : (s - δ' - d) * (v + r) ≤ 0 := Int.mul_nonpos_of_nonpos_of_nonneg (by omega) (le_of_lt hV)
    omega
  · have hvv : v + r - r = v := by ring
    rw [hvv] at h1
    have hv100 : 0 < v ^ 100 := ipow_pos hv 100
    have hRd : 0 < (R + d) ^ c := ipow_pos (by omega) c
    -- the effective shortfall m ∈ [0, min δ r] with (V − m)^100·R^c ≤ (R+d)^c·v^100
    obtain ⟨m, hm0, hmδ, hmr, hm⟩ : ∃ m : Int, 0 ≤ m ∧ m ≤ δ ∧ m ≤ r ∧
        (v + r - m) ^ 100 * R ^ c ≤ (R + d) ^ c * v ^ 100 := by
      rcases hp.1 with hp1 | hp1
      · refine ⟨r, hr, by omega, le_refl _, ?_⟩
        have : v + r - r = v := by ring
        rw [this, mul_comm]
        exact Int.mul_le_mul_of_nonneg_right (ipow_le (le_of_lt hR) (by omega) c) (le_of_lt hv100)
      · by_cases hlo : r - δ ≤ 0
        · refine ⟨r, hr, by omega, le_refl _, ?_⟩
          have : v + r - r = v := by ring
          rw [this, mul_comm]
          exact Int.mul_le_mul_of_nonneg_right (ipow_le (le_of_lt hR) (by omega) c) (le_of_lt hv100)
        · refine ⟨δ, hδ, le_refl _, by omega, ?_⟩
          have : v + r - δ = v + (r - δ) := by ring
          rw [this]; exact hp1
    -- chain the two certificates and cancel (R+d)^c·v^100
    set X := R + d - (s - δ') with hX
    have hX0 : 0 ≤ X := by omega
    have hXc : 0 ≤ X ^ c := ipow_nonneg hX0 c
    have hV100 : 0 ≤ (v + r) ^ 100 := ipow_nonneg (le_of_lt hV) 100
    have hkey : (v + r - m) ^ 100 * R ^ c ≤ X ^ c * (v + r) ^ 100 :=
      le_trans hm (le_trans (le_of_eq (mul_comm _ _)) h1)
    have hfin := roundtrip_key X (v + r) R m c 100 hc1 hc hX0 hV hR hm0 (by omega) hkey
    -- R·(V − 100 m) ≤ X·V  with X = R + d − (s − δ')
    have hmR : 100 * m * R ≤ 100 * δ * R :=
      Int.mul_le_mul_of_nonneg_right (by omega) (le_of_lt hR)
    have e1 : (s - δ' - d) * (v + r) = R * (v + r) - X * (v + r) := by rw [hX]; ring
    have e2 : R * (v + r - ((100 : Nat) : Int) * m) = R * (v + r) - 100 * m * R := by push_cast; ring
    rw [e2] at hfin
    rw [e1]
    omega

/-- Buy exactly `w` coins for a certified cost `p` (tolerance `δ`), sell them in the updated coin `(v+w, R+p)` for a
    certified `s` (tolerance `δ'`): `s ≤ p + δ + δ'` — never more than was paid beyond the two tolerances. -/
theorem roundTrip_purchaseAmount_saleReturn {v R : Int} {c : Nat} {w p δ s δ' : Int}
    (hv : 0 < v) (hR : 0 < R) (hw : 0 ≤ w) (hp0 : 0 ≤ p) (hδ : 0 ≤ δ)
    (hp : purchaseAmountCert v R c w p δ = true) (hs : saleReturnCert (v + w) (R + p) c w s δ' = true) :
    s ≤ p + δ + δ' := by
  have hhi := purchaseAmountCert_nonneg hv hR hw hp
  rw [purchaseAmountCert_iff] at hp
  rw [saleReturnCert_iff] at hs
  obtain ⟨hb, h2⟩ := hp.2
  rcases hs.1 with h1 | ⟨h1R, h1⟩
  · omega
  · have hvv : v + w - w = v := by ring
    rw [hvv] at h1
    set X := R + p - (s - δ') with hX
    set hi := p + 1 + δ with hhidef
    have hX0 : 0 ≤ X := by omega
    have hv100 : 0 < v ^ 100 := ipow_pos hv 100
    have hW100 : 0 < (v + w) ^ 100 := ipow_pos (by omega) 100
    have hRp : 0 < (R + p) ^ c := ipow_pos (by omega) c
    have hRc : 0 < R ^ c := ipow_pos hR c
    have hwv : (w + v) = (v + w) := by ring
    rw [hwv] at h2
    -- (R+p)^c·R^c < X^c·(R+hi)^c
    have e2 : (R + p) ^ c * R ^ c < X ^ c * (R + hi) ^ c := mul_chain hv100 hRp hW100 hRc h1 h2
    rw [← mul_pow, ← mul_pow] at e2
    have e3 : (R + p) * R < X * (R + hi) := lt_of_ipow_lt (Int.mul_nonneg hX0 hb) e2
    -- if s − δ' ≥ hi then X ≤ R + p − hi and X·(R+hi) ≤ (R+p−hi)(R+hi) ≤ (R+p)·R
    by_contra hcon
    have hge : hi ≤ s - δ' := by omega
    have hXle : X ≤ R + p - hi := by omega
    have h5 : X * (R + hi) ≤ (R + p - hi) * (R + hi) := Int.mul_le_mul_of_nonneg_right hXle hb
    have h6 : (R + p - hi) * (R + hi) = (R + p) * R - hi * (hi - p) := by ring
    have h7 : 0 ≤ hi * (hi - p) := Int.mul_nonneg (by omega) (by omega)
    omega

/-! ## The integer branches are the truncated real formula: they satisfy the certificate with tolerance 0 -/

theorem saleReturnInt_cert {v R : Int} {c : Nat} {a r : Int} (hv : 0 < v) (hR : 0 < R) (hc : 0 < c) (ha : 0 ≤ a) (hav : a ≤ v)
    (h : saleReturnInt v R c a = some r) : saleReturnCert v R c a r 0 = true := by
  unfold saleReturnInt at h
  split at h
  · rename_i h0; cases h; subst h0
    exact (saleReturnCert_zero hv hR hc).mpr rfl
  · split at h
    · rename_i hav'; cases h; subst hav'
      exact (saleReturnCert_all hv hR).mpr ⟨by omega, by omega⟩
    · split at h
      · rename_i hc100; cases h; subst hc100
        rw [saleReturnCert_iff]
        set q := R * a / v with hq
        have hq1 : q * v ≤ R * a := Int.ediv_mul_le _ (by omega)
        have hq2 : R * a < (q + 1) * v := Int.lt_ediv_add_one_mul_self _ hv
        have hq0 : 0 ≤ q := Int.ediv_nonneg (Int.mul_nonneg (le_of_lt hR) ha) (le_of_lt hv)
        have hqR : q ≤ R := by
          apply Int.ediv_le_of_le_mul hv
          exact Int.mul_le_mul_of_nonneg_left hav (le_of_lt hR)
        simp only [Int.sub_zero, Int.add_zero]
        refine ⟨Or.inr ⟨hqR, ?_⟩, ?_⟩
        · rw [← mul_pow, ← mul_pow]
          apply ipow_le (Int.mul_nonneg (by omega) (le_of_lt hR))
          nlinarith
        · by_cases hlt : R < q + 1
          · exact Or.inl hlt
          · right
            rw [← mul_pow, ← mul_pow]
            apply ipow_lt (Int.mul_nonneg (by omega) (le_of_lt hv)) _ (by omega)
            nlinarith
      · cases h

theorem purchaseReturnInt_cert {v R : Int} {c : Nat} {d r : Int} (hv : 0 < v) (hR : 0 < R) (hc : 0 < c) (hd : 0 ≤ d)
    (h : purchaseReturnInt v R c d = some r) : purchaseReturnCert v R c d r 0 = true := by
  unfold purchaseReturnInt at h
  rw [purchaseReturnCert_iff]
  simp only [Int.sub_zero, Int.add_zero]
  have hv100 : 0 < v ^ 100 := ipow_pos hv 100
  split at h
  · rename_i h0; cases h; subst h0
    refine ⟨Or.inl (le_refl _), by omega, ?_⟩
    simp only [Int.add_zero, Int.zero_add]
    rw [mul_comm]
    exact Int.mul_lt_mul_of_pos_right (ipow_lt (le_of_lt hv) (by omega) (by omega)) (ipow_pos hR c)
  · split at h
    · rename_i hc100; cases h; subst hc100
      set q := v * d / R with hq
      have hq1 : q * R ≤ v * d := Int.ediv_mul_le _ (by omega)
      have hq2 : v * d < (q + 1) * R := Int.lt_ediv_add_one_mul_self _ hR
      have hq0 : 0 ≤ q := Int.ediv_nonneg (Int.mul_nonneg (le_of_lt hv) hd) (le_of_lt hR)
      refine ⟨Or.inr ?_, by omega, ?_⟩
      · rw [← mul_pow, ← mul_pow]
        apply ipow_le (Int.mul_nonneg (by omega) (le_of_lt hR))
        nlinarith
      · rw [← mul_pow, ← mul_pow]
        apply ipow_lt (Int.mul_nonneg (by omega) (le_of_lt hv)) _ (by omega)
        nlinarith
    · cases h

theorem purchaseAmountInt_cert {v R : Int} {c : Nat} {w r : Int} (hv : 0 < v) (hR : 0 < R) (hc : 0 < c) (hw : 0 ≤ w)
    (h : purchaseAmountInt v R c w = some r) : purchaseAmountCert v R c w r 0 = true := by
  unfold purchaseAmountInt at h
  rw [purchaseAmountCert_iff]
  simp only [Int.sub_zero, Int.add_zero]
  have hv100 : 0 < v ^ 100 := ipow_pos hv 100
  split at h
  · rename_i h0; cases h; subst h0
    refine ⟨Or.inl (le_refl _), by omega, ?_⟩
    simp only [Int.zero_add]
    rw [mul_comm]
    exact Int.mul_lt_mul_of_pos_right (ipow_lt (le_of_lt hR) (by omega) hc) hv100
  · split at h
    · rename_i hc100; cases h; subst hc100
      set q := w * R / v with hq
      have hq1 : q * v ≤ w * R := Int.ediv_mul_le _ (by omega)
      have hq2 : w * R < (q + 1) * v := Int.lt_ediv_add_one_mul_self _ hv
      have hq0 : 0 ≤ q := Int.ediv_nonneg (Int.mul_nonneg hw (le_of_lt hR)) (le_of_lt hv)
      refine ⟨Or.inr ?_, by omega, ?_⟩
      · rw [← mul_pow, ← mul_pow]
        apply ipow_le (Int.mul_nonneg (by omega) (le_of_lt hv))
        nlinarith
      · rw [← mul_pow, ← mul_pow]
        apply ipow_lt (Int.mul_nonneg (by omega) (le_of_lt hR)) _ (by omega)
        nlinarith
    · cases h

theorem saleAmountInt_cert {v R : Int} {c : Nat} {w r : Int} (hv : 0 < v) (hR : 0 < R) (hc : 0 < c) (hw : 0 ≤ w) (hwR : w ≤ R)
    (h : saleAmountInt v R c w = some r) : saleAmountCert v R c w r 0 = true := by
  unfold saleAmountInt at h
  rw [saleAmountCert_iff]
  simp only [Int.sub_zero, Int.add_zero]
  have hv100 : 0 < v ^ 100 := ipow_pos hv 100
  have hRc : 0 < R ^ c := ipow_pos hR c
  split at h
  · rename_i h0; cases h; subst h0
    refine ⟨Or.inl (le_refl _), ?_⟩
    by_cases hv1 : v < 0 + 1
    · exact Or.inl hv1
    · right
      simp only [Int.sub_zero]
      rw [mul_comm (R ^ c)]
      exact Int.mul_lt_mul_of_pos_right (ipow_lt (by omega) (by omega) (by omega)) hRc
  · split at h
    · rename_i hc100; cases h; subst hc100
      set q := w * v / R with hq
      have hq1 : q * R ≤ w * v := Int.ediv_mul_le _ (by omega)
      have hq2 : w * v < (q + 1) * R := Int.lt_ediv_add_one_mul_self _ hR
      have hq0 : 0 ≤ q := Int.ediv_nonneg (Int.mul_nonneg hw (le_of_lt hv)) (le_of_lt hR)
      have hqv : q ≤ v := by
        apply Int.ediv_le_of_le_mul hR
        nlinarith
      refine ⟨Or.inr ⟨hqv, ?_⟩, ?_⟩
      · rw [← mul_pow, ← mul_pow]
        apply ipow_le (Int.mul_nonneg (by omega) (le_of_lt hv))
        nlinarith
      · by_cases hlt : v < q + 1
        · exact Or.inl hlt
        · right
          rw [← mul_pow, ← mul_pow]
          apply ipow_lt (Int.mul_nonneg (by omega) (le_of_lt hR)) _ (by omega)
          nlinarith
    · cases h

/-! ## The tolerances granted to the float pipeline are non-negative -/

theorem pow2_pos (k : Nat) : 0 < pow2 k := ipow_pos (by omega) k

theorem saleReturnTol_pos {R r : Int} (hR : 0 ≤ R) : 0 < saleReturnTol R r := by
  unfold saleReturnTol
  have h1 : 0 ≤ max r 0 / pow2 43 := Int.ediv_nonneg (le_max_right _ _) (le_of_lt (pow2_pos _))
  have h2 : 0 ≤ R / pow2 87 := Int.ediv_nonneg hR (le_of_lt (pow2_pos _))
  omega

theorem purchaseReturnTol_pos {v r : Int} (hv : 0 ≤ v) : 0 < purchaseReturnTol v r := by
  unfold purchaseReturnTol
  have h1 : 0 ≤ max r 0 / pow2 37 := Int.ediv_nonneg (le_max_right _ _) (le_of_lt (pow2_pos _))
  have h2 : 0 ≤ v / pow2 89 := Int.ediv_nonneg hv (le_of_lt (pow2_pos _))
  omega

theorem purchaseAmountTol_pos {R r : Int} (hR : 0 ≤ R) : 0 < purchaseAmountTol R r := by
  unfold purchaseAmountTol
  have h1 : 0 ≤ max r 0 / pow2 33 := Int.ediv_nonneg (le_max_right _ _) (le_of_lt (pow2_pos _))
  have h2 : 0 ≤ R / pow2 86 := Int.ediv_nonneg hR (le_of_lt (pow2_pos _))
  omega

theorem saleAmountTol_pos {v R w r : Int} (hv : 0 ≤ v) (hR : 0 ≤ R) : 0 < saleAmountTol v R w r := by
  unfold saleAmountTol
  have h1 : 0 ≤ max r 0 / pow2 43 := Int.ediv_nonneg (le_max_right _ _) (le_of_lt (pow2_pos _))
  have h0 : 0 ≤ v * R / max (R - w) 1 := Int.ediv_nonneg (Int.mul_nonneg hv hR) (le_trans (by omega) (le_max_right _ _))
  have h2 : 0 ≤ v * R / max (R - w) 1 / pow2 89 := Int.ediv_nonneg h0 (le_of_lt (pow2_pos _))
  omega

/-! ## C12 -/

/-- What the harness establishes for one call of the real code: the result is what the integer branch of the model says,
    or it is accepted by the exact certificate with the fixed tolerance. -/
def SaleReturnOk (v R : Int) (c : Nat) (a r : Int) : Prop :=
  saleReturnInt v R c a = some r ∨ saleReturnCert v R c a r (saleReturnTol R r) = true
def PurchaseReturnOk (v R : Int) (c : Nat) (d r : Int) : Prop :=
  purchaseReturnInt v R c d = some r ∨ purchaseReturnCert v R c d r (purchaseReturnTol v r) = true
def PurchaseAmountOk (v R : Int) (c : Nat) (w r : Int) : Prop :=
  purchaseAmountInt v R c w = some r ∨ purchaseAmountCert v R c w r (purchaseAmountTol R r) = true
def SaleAmountOk (v R : Int) (c : Nat) (w r : Int) : Prop :=
  saleAmountInt v R c w = some r ∨ saleAmountCert v R c w r (saleAmountTol v R w r) = true

/-- An integer-branch result is in particular certified (tolerance 0 ≤ the fixed tolerance is not needed: the envelope
    lemmas are applied with `δ = 0` in that case). -/
theorem SaleReturnOk.cert {v R : Int} {c : Nat} {a r : Int} (hv : 0 < v) (hR : 0 < R) (hc : 0 < c) (ha : 0 ≤ a) (hav : a ≤ v)
    (h : SaleReturnOk v R c a r) : ∃ δ, 0 ≤ δ ∧ δ ≤ saleReturnTol R r ∧ saleReturnCert v R c a r δ = true := by
  rcases h with h | h
  · exact ⟨0, le_refl _, le_of_lt (saleReturnTol_pos (le_of_lt hR)), saleReturnInt_cert hv hR hc ha hav h⟩
  · exact ⟨_, le_of_lt (saleReturnTol_pos (le_of_lt hR)), le_refl _, h⟩

theorem PurchaseReturnOk.cert {v R : Int} {c : Nat} {d r : Int} (hv : 0 < v) (hR : 0 < R) (hc : 0 < c) (hd : 0 ≤ d)
    (h : PurchaseReturnOk v R c d r) : ∃ δ, 0 ≤ δ ∧ δ ≤ purchaseReturnTol v r ∧ purchaseReturnCert v R c d r δ = true := by
  rcases h with h | h
  · exact ⟨0, le_refl _, le_of_lt (purchaseReturnTol_pos (le_of_lt hv)), purchaseReturnInt_cert hv hR hc hd h⟩
  · exact ⟨_, le_of_lt (purchaseReturnTol_pos (le_of_lt hv)), le_refl _, h⟩

theorem PurchaseAmountOk.cert {v R : Int} {c : Nat} {w r : Int} (hv : 0 < v) (hR : 0 < R) (hc : 0 < c) (hw : 0 ≤ w)
    (h : PurchaseAmountOk v R c w r) : ∃ δ, 0 ≤ δ ∧ δ ≤ purchaseAmountTol R r ∧ purchaseAmountCert v R c w r δ = true := by
  rcases h with h | h
  · exact ⟨0, le_refl _, le_of_lt (purchaseAmountTol_pos (le_of_lt hR)), purchaseAmountInt_cert hv hR hc hw h⟩
  · exact ⟨_, le_of_lt (purchaseAmountTol_pos (le_of_lt hR)), le_refl _, h⟩

theorem SaleAmountOk.cert {v R : Int} {c : Nat} {w r : Int} (hv : 0 < v) (hR : 0 < R) (hc : 0 < c) (hw : 0 ≤ w) (hwR : w ≤ R)
    (h : SaleAmountOk v R c w r) : ∃ δ, 0 ≤ δ ∧ δ ≤ saleAmountTol v R w r ∧ saleAmountCert v R c w r δ = true := by
  rcases h with h | h
  · exact ⟨0, le_refl _, le_of_lt (saleAmountTol_pos (le_of_lt hv) (le_of_lt hR)), saleAmountInt_cert hv hR hc hw hwR h⟩
  · exact ⟨_, le_of_lt (saleAmountTol_pos (le_of_lt hv) (le_of_lt hR)), le_refl _, h⟩

/-- **C12 (partial).**  For every supply `v > 0`, reserve `R > 0`, reserve ratio `1 ≤ c ≤ 100` and amounts in range, *if* the
    results of the four conversions are certified (`…Ok`: integer branch of the model, or accepted by the exact certificate
    with the fixed tolerance — this is what the harness checks for every result of the real code), then:

    1. nothing is negative beyond the tolerance `−δ ≤ r` (and the exact monitor `0 ≤ r` is evaluated next to the certificate);
    2. a sale never exceeds the reserve beyond the tolerance, the coins to sell never exceed the supply;
    3. results do not decrease as the amount grows, up to the two tolerances;
    4. selling the entire supply returns exactly the reserve (this branch is integer arithmetic);
    5. buying and then selling what was bought never returns more than was paid beyond the tolerances.

    Missing for the full property: `…Ok` for **all** inputs, i.e. the accuracy of Go's 100-bit `big.Float` `Pow`
    (`Exp(y·Log x)`, Newton seeded by float64 `math.Exp`), which needs a bit-exact model of `math.Exp`. -/
theorem C12_partial (v R : Int) (c : Nat) (hv : 0 < v) (hR : 0 < R) (hc1 : 1 ≤ c) (hc : c ≤ 100) :
    -- saleReturn
    (∀ a r, 0 ≤ a → a ≤ v → SaleReturnOk v R c a r →
        -saleReturnTol R r ≤ r ∧ r ≤ R + saleReturnTol R r) ∧
    (∀ a a' r r', 0 ≤ a → a ≤ a' → a' ≤ v → SaleReturnOk v R c a r → SaleReturnOk v R c a' r' →
        r ≤ r' + saleReturnTol R r + saleReturnTol R r') ∧
    (∀ r, saleReturnInt v R c v = some r → r = R) ∧
    -- purchaseReturn
    (∀ d r, 0 ≤ d → PurchaseReturnOk v R c d r → -purchaseReturnTol v r ≤ r) ∧
    (∀ d d' r r', 0 ≤ d → d ≤ d' → PurchaseReturnOk v R c d r → PurchaseReturnOk v R c d' r' →
        r ≤ r' + purchaseReturnTol v r + purchaseReturnTol v r') ∧
    -- purchaseAmount
    (∀ w r, 0 ≤ w → PurchaseAmountOk v R c w r → -purchaseAmountTol R r ≤ r) ∧
    (∀ w w' r r', 0 ≤ w → w ≤ w' → PurchaseAmountOk v R c w r → PurchaseAmountOk v R c w' r' →
        r ≤ r' + purchaseAmountTol R r + purchaseAmountTol R r') ∧
    -- saleAmount
    (∀ w r, 0 ≤ w → w ≤ R → SaleAmountOk v R c w r →
        -saleAmountTol v R w r ≤ r ∧ r ≤ v + saleAmountTol v R w r) ∧
    (∀ w w' r r', 0 ≤ w → w ≤ w' → w' ≤ R → SaleAmountOk v R c w r → SaleAmountOk v R c w' r' →
        r ≤ r' + saleAmountTol v R w r + saleAmountTol v R w' r') ∧
    -- buy, then sell what was bought
    (∀ d r s, 0 ≤ d → 0 ≤ r → PurchaseReturnOk v R c d r → SaleReturnOk (v + r) (R + d) c r s →
        (s - saleReturnTol (R + d) s - d) * (v + r) ≤ 100 * purchaseReturnTol v r * R) ∧
    (∀ w p s, 0 ≤ w → 0 ≤ p → PurchaseAmountOk v R c w p → SaleReturnOk (v + w) (R + p) c w s →
        s ≤ p + purchaseAmountTol R p + saleReturnTol (R + p) s) := by
  have hc0 : 0 < c := by omega
  refine ⟨?_, ?_, ?_, ?_, ?_, ?_, ?_, ?_, ?_, ?_, ?_⟩
  · intro a r ha hav h
    obtain ⟨δ, hδ0, hδ, hcert⟩ := h.cert hv hR hc0 ha hav
    have h1 := saleReturnCert_nonneg hv hR ha hav hcert
    have h2 := saleReturnCert_le_reserve hR hcert
    omega
  · intro a a' r r' ha haa hav h h'
    obtain ⟨δ, hδ0, hδ, hcert⟩ := h.cert hv hR hc0 ha (le_trans haa hav)
    obtain ⟨δ', hδ0', hδ', hcert'⟩ := h'.cert hv hR hc0 (le_trans ha haa) hav
    have := saleReturnCert_mono hv hR ha haa hav hcert hcert'
    omega
  · intro r h
    rw [saleReturnInt_all hv] at h
    cases h; rfl
  · intro d r hd h
    obtain ⟨δ, hδ0, hδ, hcert⟩ := h.cert hv hR hc0 hd
    have := purchaseReturnCert_nonneg hv hR hd hcert
    omega
  · intro d d' r r' hd hdd h h'
    obtain ⟨δ, hδ0, hδ, hcert⟩ := h.cert hv hR hc0 hd
    obtain ⟨δ', hδ0', hδ', hcert'⟩ := h'.cert hv hR hc0 (le_trans hd hdd)
    have := purchaseReturnCert_mono hv hR hd hdd hcert hcert'
    omega
  · intro w r hw h
    obtain ⟨δ, hδ0, hδ, hcert⟩ := h.cert hv hR hc0 hw
    have := purchaseAmountCert_nonneg hv hR hw hcert
    omega
  · intro w w' r r' hw hww h h'
    obtain ⟨δ, hδ0, hδ, hcert⟩ := h.cert hv hR hc0 hw
    obtain ⟨δ', hδ0', hδ', hcert'⟩ := h'.cert hv hR hc0 (le_trans hw hww)
    have := purchaseAmountCert_mono hv hR hw hww hcert hcert'
    omega
  · intro w r hw hwR h
    obtain ⟨δ, hδ0, hδ, hcert⟩ := h.cert hv hR hc0 hw hwR
    have h1 := saleAmountCert_nonneg hv hR hw hwR hcert
    have h2 := saleAmountCert_le_supply hv hcert
    omega
  · intro w w' r r' hw hww hwR h h'
    obtain ⟨δ, hδ0, hδ, hcert⟩ := h.cert hv hR hc0 hw (le_trans hww hwR)
    obtain ⟨δ', hδ0', hδ', hcert'⟩ := h'.cert hv hR hc0 (le_trans hw hww) hwR
    have := saleAmountCert_mono hv hR hw hww hwR hcert hcert'
    omega
  · intro d r s hd hr h hs
    obtain ⟨δ, hδ0, hδ, hcert⟩ := h.cert hv hR hc0 hd
    obtain ⟨δ', hδ0', hδ', hcert'⟩ := hs.cert (by omega) (by omega) hc0 hr (by omega)
    have hrt := roundTrip_purchaseReturn_saleReturn hv hR hc1 hc hd hr hδ0 hcert hcert'
    have hV : 0 < v + r := by omega
    have h1 : (s - saleReturnTol (R + d) s - d) * (v + r) ≤ (s - δ' - d) * (v + r) :=
      Int.mul_le_mul_of_nonneg_right (by omega) (le_of_lt hV)
    have h2 : 100 * δ * R ≤ 100 * purchaseReturnTol v r * R :=
      Int.mul_le_mul_of_nonneg_right (by omega) (le_of_lt hR)
    omega
  · intro w p s hw hp h hs
    obtain ⟨δ, hδ0, hδ, hcert⟩ := h.cert hv hR hc0 hw
    obtain ⟨δ', hδ0', hδ', hcert'⟩ := hs.cert (by omega) (by omega) hc0 hw (by omega)
    have := roundTrip_purchaseAmount_saleReturn hv hR hw hp hδ0 hcert hcert'
    omega

/-! ## Non-vacuity: concrete certified instances (small numbers, evaluated by the kernel) -/

-- v = 1000, R = 500, crr 50: sell 100 → 500·(1 − 0.9²) = 95 exactly; buy for 100 → 1000·(√1.2 − 1) = 95.4…
example : saleReturnCert 1000 500 50 100 95 0 = true := by decide
example : saleReturnCert 1000 500 50 100 94 0 = false := by decide
example : saleReturnCert 1000 500 50 100 96 0 = false := by decide
example : saleReturnCert 1000 500 50 100 96 1 = true := by decide
example : purchaseReturnCert 1000 500 50 100 95 0 = true := by decide
example : purchaseReturnCert 1000 500 50 100 96 0 = false := by decide
-- buy exactly 100 → 500·(1.1² − 1) = 105; coins to sell for 95 → 1000·(1 − √0.81) = 100
example : purchaseAmountCert 1000 500 50 100 105 0 = true := by decide
example : purchaseAmountCert 1000 500 50 100 104 0 = false := by decide
example : saleAmountCert 1000 500 50 95 100 0 = true := by decide
example : saleAmountCert 1000 500 50 95 99 0 = false := by decide
-- a negative "result" is never certified, nor one above the reserve
example : purchaseReturnCert 1000 500 50 100 (-2100) 0 = false := by decide
example : saleReturnCert 1000 500 50 999 501 0 = false := by decide
-- the hypotheses of `C12_partial` are satisfiable, integer branch and float branch
example : SaleReturnOk 1000 500 50 100 95 := Or.inr (by decide)
example : SaleReturnOk 1000 500 50 1000 500 := Or.inl (by decide)
example : PurchaseReturnOk 1000 500 50 100 95 := Or.inr (by decide)
example : PurchaseAmountOk 1000 500 50 100 105 := Or.inr (by decide)
example : SaleAmountOk 1000 500 50 95 100 := Or.inr (by decide)
-- round trip: buy 95 for 100, sell 95 in (1095, 600): 600·(1 − (1000/1095)²) = 99.59… → 99 ≤ 100
example : saleReturnCert 1095 600 50 95 99 0 = true := by decide
example : saleReturnInt 1000 500 100 100 = some 50 := by decide
example : purchaseReturnInt 1000 500 100 100 = some 200 := by decide

end Minter
