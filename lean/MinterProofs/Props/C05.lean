import MinterModel.Tx
import MinterProofs.Props.C04
/-
  C05 — Value leaves an account only with that account's authorization (balance part).
-/
namespace Minter

/-- Effect of a primitive on the balance of `(x, c)`. -/
def Prim.balDelta (x : Addr) (c : Coin) : Prim → Int
  | .addBal a c' v => if a = x ∧ c' = c then v else 0
  | _ => 0

theorem apply_balance (s : State) (p : Prim) (x : Addr) (c : Coin) :
    balanceOf (p.apply s) x c = balanceOf s x c + p.balDelta x c := by
  cases p with
  | addBal a c' v =>
    simp only [Prim.apply, balanceOf, Prim.balDelta, Bag.get_add]
    by_cases h : a = x ∧ c' = c
    · obtain ⟨h1, h2⟩ := h; subst h1; subst h2; simp
    · have : ¬ ((a, c') = (x, c)) := by
        intro he; apply h; cases he; exact ⟨rfl, rfl⟩
      simp [h, this]
  | _ => simp [Prim.apply, balanceOf, Prim.balDelta]

theorem checked_balance_mono (s s' : State) (ps : List Prim) (x : Addr) (c : Coin)
    (hd : ∀ p ∈ ps, 0 ≤ p.balDelta x c) (h : applyChecked s ps = some s') :
    balanceOf s x c ≤ balanceOf s' x c := by
  induction ps generalizing s with
  | nil => simp [applyChecked] at h; subst h; exact Int.le_refl _
  | cons p t ih =>
    obtain ⟨_, ht⟩ := applyChecked_cons _ _ _ _ h
    have h1 := ih _ (fun q hq => hd q (List.mem_cons_of_mem _ hq)) ht
    have h2 := apply_balance s p x c
    have h3 := hd p (List.mem_cons_self ..)
    omega

/-- A move that passes the debit guard for `sender`/`issuer` does not lower anybody else's balance. -/
theorem move_debit_guard (m : Move) (sender : Addr) (issuer : Option Addr) (x : Addr) (c : Coin)
    (hg : m.debitOk sender issuer = true) (hx : x ≠ sender) (hi : issuer ≠ some x) :
    ∀ p ∈ m.prims, 0 ≤ p.balDelta x c := by
  intro p hp
  cases m with
  | transfer a b c' v =>
    simp only [Move.debitOk, Bool.and_eq_true, decide_eq_true_eq, Bool.or_eq_true, beq_iff_eq] at hg
    simp only [Move.prims, List.mem_cons, List.mem_nil_iff, or_false] at hp
    rcases hp with h | h <;> subst h <;> simp only [Prim.balDelta]
    · split
      · next hh => rcases hg.2 with h1 | h1
                   · omega
                   · exact absurd (hh.1 ▸ h1) hi
      · omega
    · split <;> omega
  | mint a c' v =>
    simp only [Move.debitOk, Bool.or_eq_true, decide_eq_true_eq, beq_iff_eq] at hg
    simp only [Move.prims] at hp; split at hp
    · cases hp
    · simp only [List.mem_cons, List.mem_nil_iff, or_false] at hp
      rcases hp with h | h <;> subst h <;> simp only [Prim.balDelta]
      · omega
      · split
        · next hh => rcases hg with h1 | h1 <;> omega
        · omega
  | feeBase payer v =>
    simp only [Move.debitOk, Bool.and_eq_true, decide_eq_true_eq, Bool.or_eq_true, beq_iff_eq] at hg
    simp only [Move.prims, List.mem_cons, List.mem_nil_iff, or_false] at hp
    rcases hp with h | h <;> subst h <;> simp only [Prim.balDelta]
    · split
      · next hh => rcases hg.2 with h1 | h1
                   · omega
                   · exact absurd (hh.1 ▸ h1) hi
      · omega
    · omega
  | feeBancor payer c' commission inBase =>
    simp only [Move.debitOk, Bool.and_eq_true, decide_eq_true_eq, Bool.or_eq_true, beq_iff_eq] at hg
    simp only [Move.prims] at hp; split at hp
    · cases hp
    · simp only [List.mem_cons, List.mem_nil_iff, or_false] at hp
      rcases hp with h | h | h | h <;> subst h <;> simp only [Prim.balDelta]
      · omega
      · omega
      · split
        · next hh => rcases hg.2 with h1 | h1
                     · omega
                     · exact absurd (hh.1 ▸ h1) hi
        · omega
      · omega
  | poolSell payer c0 c1 sellsC0 net out burn toRewards dest =>
    simp only [Move.debitOk, Bool.and_eq_true, decide_eq_true_eq, Bool.or_eq_true, beq_iff_eq] at hg
    obtain ⟨⟨⟨hnet, hout⟩, hburn⟩, hpay⟩ := hg
    have hpx : payer ≠ x := by
      intro he; subst he
      rcases hpay with h1 | h1
      · exact hx h1
      · exact hi h1
    cases sellsC0 <;> cases toRewards <;> simp only [Move.prims, Bool.false_eq_true, if_false, if_true] at hp
    all_goals first
      | (split at hp
         · simp only [List.mem_cons, List.mem_nil_iff, or_false] at hp
           rcases hp with h | h | h | h <;> subst h <;> simp only [Prim.balDelta] <;> (try split) <;> omega
         · cases hp)
      | (simp only [List.mem_cons, List.mem_nil_iff, or_false] at hp
         rcases hp with h | h | h | h <;> subst h <;> simp only [Prim.balDelta] <;> (try split) <;> omega)
  | createCoin owner ci =>
    simp only [Move.debitOk, beq_iff_eq] at hg
    simp only [Move.prims] at hp; split at hp
    · cases hp
    · simp only [List.mem_cons, List.mem_nil_iff, or_false] at hp
      rcases hp with h | h | h <;> subst h <;> simp only [Prim.balDelta] <;> (try split) <;> omega
  | burnTicker v =>
    simp only [Move.debitOk, decide_eq_true_eq] at hg
    simp only [Move.prims, List.mem_cons, List.mem_nil_iff, or_false] at hp
    rcases hp with h | h <;> subst h <;> simp only [Prim.balDelta] <;> (try split) <;> omega
  | admin q =>
    simp only [Move.prims] at hp; split at hp
    · next ha =>
      simp only [List.mem_singleton] at hp; subst hp
      cases p <;> simp [Prim.isAdmin] at ha <;> simp [Prim.balDelta]
    · cases hp
  | bancor a sell sellAmt buy buyAmt bip =>
    simp only [Move.debitOk, beq_iff_eq] at hg
    have hax : ¬ (a = x) := fun e => hx (e ▸ hg)
    simp only [Move.prims, List.mem_append] at hp
    rcases hp with hp | hp <;> split at hp
    · rw [List.mem_singleton] at hp; subst hp; simp only [Prim.balDelta]; split <;> (first | omega | (next hh => exact absurd hh.1 hax))
    · simp only [List.mem_cons, List.mem_nil_iff, or_false] at hp
      rcases hp with hq | hq | hq <;> subst hq <;> simp only [Prim.balDelta] <;> (try split) <;> (first | omega | (next hh => exact absurd hh.1 hax))
    · rw [List.mem_singleton] at hp; subst hp; simp only [Prim.balDelta]; split <;> (first | omega | (next hh => exact absurd hh.1 hax))
    · simp only [List.mem_cons, List.mem_nil_iff, or_false] at hp
      rcases hp with hq | hq | hq <;> subst hq <;> simp only [Prim.balDelta] <;> (try split) <;> (first | omega | (next hh => exact absurd hh.1 hax))
  | delegate a cand coin value wl =>
    simp only [Move.debitOk, beq_iff_eq] at hg
    have hax : ¬ (a = x) := fun e => hx (e ▸ hg)
    cases wl <;> simp only [Move.prims, List.mem_cons, List.mem_nil_iff, or_false] at hp
    · rcases hp with hq | hq <;> subst hq <;> simp only [Prim.balDelta] <;> (try split) <;> (first | omega | (next hh => exact absurd hh.1 hax))
    · rcases hp with hq | hq | hq <;> subst hq <;> simp only [Prim.balDelta] <;> (try split) <;> (first | omega | (next hh => exact absurd hh.1 hax))
  | unbond a stakeCand coin value wl f =>
    cases wl with
    | none =>
      simp only [Move.prims, List.mem_cons, List.mem_nil_iff, or_false] at hp
      rcases hp with hq | hq <;> subst hq <;> simp only [Prim.balDelta] <;> omega
    | some w =>
      simp only [Move.prims] at hp
      split at hp
      · simp only [List.mem_cons, List.mem_nil_iff, or_false] at hp; rcases hp with hq | hq | hq <;> subst hq <;> simp only [Prim.balDelta] <;> omega
      · split at hp
        · simp only [List.mem_cons, List.mem_nil_iff, or_false] at hp; rcases hp with hq | hq | hq <;> subst hq <;> simp only [Prim.balDelta] <;> omega
        · simp only [List.mem_cons, List.mem_nil_iff, or_false] at hp; rcases hp with hq | hq <;> subst hq <;> simp only [Prim.balDelta] <;> omega
  | lock a f =>
    simp only [Move.debitOk, Bool.and_eq_true, beq_iff_eq, decide_eq_true_eq] at hg
    have hax : ¬ (a = x) := fun e => hx (e ▸ hg.1)
    simp only [Move.prims, List.mem_cons, List.mem_nil_iff, or_false] at hp
    rcases hp with hq | hq <;> subst hq <;> simp only [Prim.balDelta] <;> (try split) <;> (first | omega | (next hh => exact absurd hh.1 hax))
  | declare a cd coin stake =>
    simp only [Move.debitOk, beq_iff_eq] at hg
    have hax : ¬ (a = x) := fun e => hx (e ▸ hg)
    simp only [Move.prims, List.mem_cons, List.mem_nil_iff, or_false] at hp
    rcases hp with hq | hq | hq <;> subst hq <;> simp only [Prim.balDelta] <;> (try split) <;> (first | omega | (next hh => exact absurd hh.1 hax))
  | poolCreate a pl lp =>
    simp only [Move.debitOk, Bool.and_eq_true, beq_iff_eq, decide_eq_true_eq] at hg
    have hax : ¬ (a = x) := fun e => hx (e ▸ hg.1)
    simp only [Move.prims] at hp; split at hp
    · cases hp
    · simp only [List.mem_cons, List.mem_nil_iff, or_false] at hp
      rcases hp with hq | hq | hq | hq | hq | hq <;> subst hq <;> simp only [Prim.balDelta, minLiquidity] <;> (try split) <;> (first | omega | (next hh => exact absurd hh.1 hax))
  | poolMint a c0 c1 a0 a1 lp liq =>
    simp only [Move.debitOk, beq_iff_eq] at hg
    have hax : ¬ (a = x) := fun e => hx (e ▸ hg)
    simp only [Move.prims] at hp; split at hp
    · cases hp
    · simp only [List.mem_cons, List.mem_nil_iff, or_false] at hp
      rcases hp with hq | hq | hq | hq | hq <;> subst hq <;> simp only [Prim.balDelta] <;> (try split) <;> (first | omega | (next hh => exact absurd hh.1 hax))
  | poolBurn a c0 c1 a0 a1 lp liq =>
    simp only [Move.debitOk, beq_iff_eq] at hg
    have hax : ¬ (a = x) := fun e => hx (e ▸ hg)
    simp only [Move.prims] at hp; split at hp
    · cases hp
    · simp only [List.mem_cons, List.mem_nil_iff, or_false] at hp
      rcases hp with hq | hq | hq | hq | hq <;> subst hq <;> simp only [Prim.balDelta] <;> (try split) <;> (first | omega | (next hh => exact absurd hh.1 hax))
  | orderAdd a o =>
    simp only [Move.debitOk, Bool.and_eq_true, beq_iff_eq] at hg
    have hax : ¬ (a = x) := fun e => hx (e ▸ hg.1)
    simp only [Move.prims, List.mem_cons, List.mem_nil_iff, or_false] at hp
    rcases hp with hq | hq <;> subst hq <;> simp only [Prim.balDelta] <;> (try split) <;> (first | omega | (next hh => exact absurd hh.1 hax))
  | orderRemove a o =>
    simp only [Move.debitOk, Bool.and_eq_true, beq_iff_eq] at hg
    have hax : ¬ (a = x) := fun e => hx (e ▸ hg.1)
    simp only [Move.prims, List.mem_cons, List.mem_nil_iff, or_false] at hp
    rcases hp with hq | hq <;> subst hq <;> simp only [Prim.balDelta] <;> (try split) <;> (first | omega | (next hh => exact absurd hh.1 hax))

end Minter

namespace Minter

/-- Every move of any DeliverTx outcome passes the debit guard for the transaction's sender (and, for a check redemption,
    the issuer of the check). -/
theorem deliver_moves_guarded (P : Params) (o : Oracle) (s : State) (b : Nat) (t : TxIn) (out : Outcome)
    (h : deliverTx P o s b t = .ok out) : out.moves.all (Move.debitOk t.sender t.issuer) = true := by
  unfold deliverTx at h
  split at h
  · cases h; rfl
  · rcases deliverBody_shape P o s b t out h with hr | ⟨r, hs⟩
    · exact hr.2.2
    · obtain ⟨burn, _, _, _, hm, hg⟩ := successOutcome_ok s t r out hs
      rw [hm]; exact hg

/-- **C05 (balances).** A delivered transaction — accepted or rejected — never lowers the balance, in any coin, of an
    account other than its sender and, for a check redemption, the issuer who signed the check (`TxIn.issuer`: the address
    recovered from the check's own signature); and it is only executed beyond the prologue when the signature(s) recovered to the
    sender (single signature) or to distinct owners of the multisig sender whose weights reach the threshold. -/
theorem C05_balance_only_sender (P : Params) (o : Oracle) (s s' : State) (b : Nat) (t : TxIn) (out : Outcome)
    (h : deliverTx P o s b t = .ok out) (ha : applyChecked s out.plan = some s')
    (x : Addr) (hx : x ≠ t.sender) (hi : t.issuer ≠ some x) (c : Coin) : balanceOf s x c ≤ balanceOf s' x c := by
  have hg := deliver_moves_guarded P o s b t out h
  apply checked_balance_mono s s' out.plan x c _ ha
  intro p hp
  simp only [Outcome.plan, planOf, List.mem_flatMap] at hp
  obtain ⟨m, hm, hpm⟩ := hp
  exact move_debit_guard m t.sender t.issuer x c (List.all_eq_true.mp hg m hm) hx hi p hpm

/-- Only a check redemption has an issuer: for every other type the sender is the only account that can be debited. -/
theorem issuer_none_of_not_redeem (t : TxIn) (h : t.typ ≠ 9) : t.issuer = none := by
  unfold TxIn.issuer
  have : (t.typ == 9) = false := by simpa using h
  simp [this]

theorem C05_moves_need_authorization (P : Params) (o : Oracle) (s : State) (b : Nat) (t : TxIn) (out : Outcome)
    (h : deliverTx P o s b t = .ok out) (hm : out.moves ≠ []) :
    t.sigOk = true ∧ (t.sigType = 2 → multisigCheck s t = none) := by
  unfold deliverTx at h
  split at h
  · cases h; exact absurd rfl hm
  · next hp =>
    have := prologue_none P s b t hp
    exact ⟨this.2.2.1, this.2.2.2.2⟩

end Minter
