import MinterModel.Tx
import MinterProofs.Props.C04
/-
  C05 — Value leaves an account only with that account's authorization (balance part).
-/
namespace Minter

/-- Effect of a primitive on the balance of `(x, c)`. -/
def Prim.balDelta (x : Addr) (c : Coin) : Prim → Int
  | .addBal a c' v => if a = x ∧ c' = c then v else 0
  | _ => 0

theorem apply_balance (s : State) (p : Prim) (x : Addr) (c : Coin) :
    balanceOf (p.apply s) x c = balanceOf s x c + p.balDelta x c := by
  cases p with
  | addBal a c' v =>
    simp only [Prim.apply, balanceOf, Prim.balDelta, Bag.get_add]
    by_cases h : a = x ∧ c' = c
    · obtain ⟨h1, h2⟩ := h; subst h1; subst h2; simp
    · have : ¬ ((a, c') = (x, c)) := by
        intro he; apply h; cases he; exact ⟨rfl, rfl⟩
      simp [h, this]
  | _ => simp [Prim.apply, balanceOf, Prim.balDelta]

theorem checked_balance_mono (s s' : State) (ps : List Prim) (x : Addr) (c : Coin)
    (hd : ∀ p ∈ ps, 0 ≤ p.balDelta x c) (h : applyChecked s ps = some s') :
    balanceOf s x c ≤ balanceOf s' x c := by
  induction ps generalizing s with
  | nil => simp [applyChecked] at h; subst h; exact Int.le_refl _
  | cons p t ih =>
    obtain ⟨_, ht⟩ := applyChecked_cons _ _ _ _ h
    have h1 := ih _ (fun q hq => hd q (List.mem_cons_of_mem _ hq)) ht
    have h2 := apply_balance s p x c
    have h3 := hd p (List.mem_cons_self ..)
    omega

/-- A move that passes the debit guard for `sender`/`issuer` does not lower anybody else's balance. -/
theorem move_debit_guard (m : Move) (sender : Addr) (issuer : Option Addr) (x : Addr) (c : Coin)
    (hg : m.debitOk sender issuer = true) (hx : x ≠ sender) (hi : issuer ≠ some x) :
    ∀ p ∈ m.prims, 0 ≤ p.balDelta x c := by
  intro p hp
  cases m with
  | transfer a b c' v =>
    simp only [Move.debitOk, Bool.and_eq_true, decide_eq_true_eq, Bool.or_eq_true, beq_iff_eq] at hg
    simp only [Move.prims, List.mem_cons, List.mem_nil_iff, or_false] at hp
    rcases hp with h | h <;> subst h <;> simp only [Prim.balDelta]
    · split
      · next hh => rcases hg.2 with h1 | h1
                   · omega
                   · exact absurd (hh.1 ▸ h1) hi
      · omega
    · split <;> omega
  | mint a c' v =>
    simp only [Move.debitOk, Bool.or_eq_true, decide_eq_true_eq, beq_iff_eq] at hg
    simp only [Move.prims] at hp; split at hp
    · cases hp
    · simp only [List.mem_cons, List.mem_nil_iff, or_false] at hp
      rcases hp with h | h <;> subst h <;> simp only [Prim.balDelta]
      · omega
      · split
        · next hh => rcases hg with h1 | h1 <;> omega
        · omega
  | feeBase payer v =>
    simp only [Move.debitOk, Bool.and_eq_true, decide_eq_true_eq, Bool.or_eq_true, beq_iff_eq] at hg
    simp only [Move.prims, List.mem_cons, List.mem_nil_iff, or_false] at hp
    rcases hp with h | h <;> subst h <;> simp only [Prim.balDelta]
    · split
      · next hh => rcases hg.2 with h1 | h1
                   · omega
                   · exact absurd (hh.1 ▸ h1) hi
      · omega
    · omega
  | feeBancor payer c' commission inBase =>
    simp only [Move.debitOk, Bool.and_eq_true, decide_eq_true_eq, Bool.or_eq_true, beq_iff_eq] at hg
    simp only [Move.prims] at hp; split at hp
    · cases hp
    · simp only [List.mem_cons, List.mem_nil_iff, or_false] at hp
      rcases hp with h | h | h | h <;> subst h <;> simp only [Prim.balDelta]
      · omega
      · omega
      · split
        · next hh => rcases hg.2 with h1 | h1
                     · omega
                     · exact absurd (hh.1 ▸ h1) hi
        · omega
      · omega
  | poolSell payer c0 c1 sellsC0 net out burn toRewards dest =>
    simp only [Move.debitOk, Bool.and_eq_true, decide_eq_true_eq, Bool.or_eq_true, beq_iff_eq] at hg
    obtain ⟨⟨⟨hnet, hout⟩, hburn⟩, hpay⟩ := hg
    have hpx : payer ≠ x := by
      intro he; subst he
      rcases hpay with h1 | h1
      · exact hx h1
      · exact hi h1
    cases sellsC0 <;> cases toRewards <;> simp only [Move.prims, Bool.false_eq_true, if_false, if_true] at hp
    all_goals first
      | (split at hp
         · simp only [List.mem_cons, List.mem_nil_iff, or_false] at hp
           rcases hp with h | h | h | h <;> subst h <;> simp only [Prim.balDelta] <;> (try split) <;> omega
         · cases hp)
      | (simp only [List.mem_cons, List.mem_nil_iff, or_false] at hp
         rcases hp with h | h | h | h <;> subst h <;> simp only [Prim.balDelta] <;> (try split) <;> omega)
  | createCoin owner ci =>
    simp only [Move.debitOk, beq_iff_eq] at hg
    simp only [Move.prims] at hp; split at hp
    · cases hp
    · simp only [List.mem_cons, List.mem_nil_iff, or_false] at hp
      rcases hp with h | h | h <;> subst h <;> simp only [Prim.balDelta] <;> (try split) <;> omega
  | burnTicker v =>
    simp only [Move.debitOk, decide_eq_true_eq] at hg
    simp only [Move.prims, List.mem_cons, List.mem_nil_iff, or_false] at hp
    rcases hp with h | h <;> subst h <;> simp only [Prim.balDelta] <;> (try split) <;> omega
  | admin q =>
    simp only [Move.prims] at hp; split at hp
    · next ha =>
      simp only [List.mem_singleton] at hp; subst hp
      cases p <;> simp [Prim.isAdmin] at ha <;> simp [Prim.balDelta]
    · cases hp
  | bancor a sell sellAmt buy buyAmt bip =>
    simp only [Move.debitOk, beq_iff_eq] at hg
    have hax : ¬ (a = x) := fun e => hx (e ▸ hg)
    simp only [Move.prims, List.mem_append] at hp
    rcases hp with hp | hp <;> split at hp
    · rw [List.mem_singleton] at hp; subst hp; simp only [Prim.balDelta]; split <;> (first | omega | (next hh => exact absurd hh.1 hax))
    · simp only [List.mem_cons, List.mem_nil_iff, or_false] at hp
      rcases hp with hq | hq | hq <;> subst hq <;> simp only [Prim.balDelta] <;> (try split) <;> (first | omega | (next hh => exact absurd hh.1 hax))
    · rw [List.mem_singleton] at hp; subst hp; simp only [Prim.balDelta]; split <;> (first | omega | (next hh => exact absurd hh.1 hax))
    · simp only [List.mem_cons, List.mem_nil_iff, or_false] at hp
      rcases hp with hq | hq | hq <;> subst hq <;> simp only [Prim.balDelta] <;> (try split) <;> (first | omega | (next hh => exact absurd hh.1 hax))
  | delegate a cand coin value wl =>
    simp only [Move.debitOk, beq_iff_eq] at hg
    have hax : ¬ (a = x) := fun e => hx (e ▸ hg)
    cases wl <;> simp only [Move.prims, List.mem_cons, List.mem_nil_iff, or_false] at hp
    · rcases hp with hq | hq <;> subst hq <;> simp only [Prim.balDelta] <;> (try split) <;> (first | omega | (next hh => exact absurd hh.1 hax))
    · rcases hp with hq | hq | hq <;> subst hq <;> simp only [Prim.balDelta] <;> (try split) <;> (first | omega | (next hh => exact absurd hh.1 hax))
  | unbond a stakeCand coin value wl f =>
    cases wl with
    | none =>
      simp only [Move.prims, List.mem_cons, List.mem_nil_iff, or_false] at hp
      rcases hp with hq | hq <;> subst hq <;> simp only [Prim.balDelta] <;> omega
    | some w =>
      simp only [Move.prims] at hp
      split at hp
      · simp only [List.mem_cons, List.mem_nil_iff, or_false] at hp; rcases hp with hq | hq | hq <;> subst hq <;> simp only [Prim.balDelta] <;> omega
      · split at hp
        · simp only [List.mem_cons, List.mem_nil_iff, or_false] at hp; rcases hp with hq | hq | hq <;> subst hq <;> simp only [Prim.balDelta] <;> omega
        · simp only [List.mem_cons, List.mem_nil_iff, or_false] at hp; rcases hp with hq | hq <;> subst hq <;> simp only [Prim.balDelta] <;> omega
  | lock a f =>
    simp only [Move.debitOk, Bool.and_eq_true, beq_iff_eq, decide_eq_true_eq] at hg
    have hax : ¬ (a = x) := fun e => hx (e ▸ hg.1)
    simp only [Move.prims, List.mem_cons, List.mem_nil_iff, or_false] at hp
    rcases hp with hq | hq <;> subst hq <;> simp only [Prim.balDelta] <;> (try split) <;> (first | omega | (next hh => exact absurd hh.1 hax))
  | declare a cd coin stake =>
    simp only [Move.debitOk, beq_iff_eq] at hg
    have hax : ¬ (a = x) := fun e => hx (e ▸ hg)
    simp only [Move.prims, List.mem_cons, List.mem_nil_iff, or_false] at hp
    rcases hp with hq | hq | hq <;> subst hq <;> simp only [Prim.balDelta] <;> (try split) <;> (first | omega | (next hh => exact absurd hh.1 hax))
  | poolCreate a pl lp =>
    simp only [Move.debitOk, Bool.and_eq_true, beq_iff_eq, decide_eq_true_eq] at hg
    have hax : ¬ (a = x) := fun e => hx (e ▸ hg.1)
    simp only [Move.prims] at hp; split at hp
    · cases hp
    · simp only [List.mem_cons, List.mem_nil_iff, or_false] at hp
      rcases hp with hq | hq | hq | hq | hq | hq <;> subst hq <;> simp only [Prim.balDelta, minLiquidity] <;> (try split) <;> (first | omega | (next hh => exact absurd hh.1 hax))
  | poolMint a c0 c1 a0 a1 lp liq =>
    simp only [Move.debitOk, beq_iff_eq] at hg
    have hax : ¬ (a = x) := fun e => hx (e ▸ hg)
    simp only [Move.prims] at hp; split at hp
    · cases hp
    · simp only [List.mem_cons, List.mem_nil_iff, or_false] at hp
      rcases hp with hq | hq | hq | hq | hq <;> subst hq <;> simp only [Prim.balDelta] <;> (try split) <;> (first | omega | (next hh => exact absurd hh.1 hax))
  | poolBurn a c0 c1 a0 a1 lp liq =>
    simp only [Move.debitOk, beq_iff_eq] at hg
    have hax : ¬ (a = x) := fun e => hx (e ▸ hg)
    simp only [Move.prims] at hp; split at hp
    · cases hp
    · simp only [List.mem_cons, List.mem_nil_iff, or_false] at hp
      rcases hp with hq | hq | hq | hq | hq <;> subst hq <;> simp only [Prim.balDelta] <;> (try split) <;> (first | omega | (next hh => exact absurd hh.1 hax))
  | orderAdd a o =>
    simp only [Move.debitOk, Bool.and_eq_true, beq_iff_eq] at hg
    have hax : ¬ (a = x) := fun e => hx (e ▸ hg.1)
    simp only [Move.prims, List.mem_cons, List.mem_nil_iff, or_false] at hp
    rcases hp with hq | hq <;> subst hq <;> simp only [Prim.balDelta] <;> (try split) <;> (first | omega | (next hh => exact absurd hh.1 hax))
  | orderRemove a o =>
    simp only [Move.debitOk, Bool.and_eq_true, beq_iff_eq] at hg
    have hax : ¬ (a = x) := fun e => hx (e ▸ hg.1)
    simp only [Move.prims, List.mem_cons, List.mem_nil_iff, or_false] at hp
    rcases hp with hq | hq <;> subst hq <;> simp only [Prim.balDelta] <;> (try split) <;> (first | omega | (next hh => exact absurd hh.1 hax))

end Minter

namespace Minter

/-- Every move of any DeliverTx outcome passes the debit guard for the transaction's sender (and, for a check redemption,
    the issuer of the check). -/
theorem deliver_moves_guarded (P : Params) (o : Oracle) (s : State) (b : Nat) (t : TxIn) (out : Outcome)
    (h : deliverTx P o s b t = .ok out) : out.moves.all (Move.debitOk t.sender t.issuer) = true := by
  unfold deliverTx at h
  split at h
  · cases h; rfl
  · rcases deliverBody_shape P o s b t out h with hr | ⟨r, hs⟩
    · exact hr.2.2
    · obtain ⟨burn, _, _, _, hm, hg, _⟩ := successOutcome_ok s t r out hs
      rw [hm]; exact hg

/-- **C05 (balances).** A delivered transaction — accepted or rejected — never lowers the balance, in any coin, of an
    account other than its sender and, for a check redemption, the issuer who signed the check (`TxIn.issuer`: the address
    recovered from the check's own signature); and it is only executed beyond the prologue when the signature(s) recovered to the
    sender (single signature) or to distinct owners of the multisig sender whose weights reach the threshold. -/
theorem C05_balance_only_sender (P : Params) (o : Oracle) (s s' : State) (b : Nat) (t : TxIn) (out : Outcome)
    (h : deliverTx P o s b t = .ok out) (ha : applyChecked s out.plan = some s')
    (x : Addr) (hx : x ≠ t.sender) (hi : t.issuer ≠ some x) (c : Coin) : balanceOf s x c ≤ balanceOf s' x c := by
  have hg := deliver_moves_guarded P o s b t out h
  apply checked_balance_mono s s' out.plan x c _ ha
  intro p hp
  simp only [Outcome.plan, planOf, List.mem_flatMap] at hp
  obtain ⟨m, hm, hpm⟩ := hp
  exact move_debit_guard m t.sender t.issuer x c (List.all_eq_true.mp hg m hm) hx hi p hpm

/-- Only a check redemption has an issuer: for every other type the sender is the only account that can be debited. -/
theorem issuer_none_of_not_redeem (t : TxIn) (h : t.typ ≠ 9) : t.issuer = none := by
  unfold TxIn.issuer
  have : (t.typ == 9) = false := by simpa using h
  simp [this]

theorem C05_moves_need_authorization (P : Params) (o : Oracle) (s : State) (b : Nat) (t : TxIn) (out : Outcome)
    (h : deliverTx P o s b t = .ok out) (hm : out.moves ≠ []) :
    t.sigOk = true ∧ (t.sigType = 2 → multisigCheck s t = none) := by
  unfold deliverTx at h
  split at h
  · cases h; exact absurd rfl hm
  · next hp =>
    have := prologue_none P s b t hp
    exact ⟨this.2.2.1, this.2.2.2.2⟩

end Minter

/-! ### Stakes, pending updates, waitlist entries, frozen funds and order escrows are reduced only by their owner -/
namespace Minter

/-- What `x` holds outside its balance, per kind. -/
def stakeOfOwner (x : Addr) (c : Coin) (st : Stake) : Int := if st.owner = x ∧ st.coin = c then st.value else 0
def ownStake (s : State) (x : Addr) (c : Coin) : Int :=
  sumBy (fun cd => sumBy (stakeOfOwner x c) cd.stakes + sumBy (stakeOfOwner x c) cd.updates) s.candidates
def ownWait (s : State) (x : Addr) (c : Coin) : Int := sumBy (fun w => if w.owner = x ∧ w.coin = c then w.value else 0) s.waitlist
def ownFrozen (s : State) (x : Addr) (c : Coin) : Int := sumBy (fun f => if f.addr = x ∧ f.coin = c then f.value else 0) s.frozen
def ownEscrow (s : State) (x : Addr) (c : Coin) : Int := sumBy (fun o => if o.owner = x then orderEscrow c o else 0) s.orders

/-- Declared effect of a primitive on those holdings of `x`. -/
def Prim.dStake (x : Addr) (c : Coin) : Prim → Int
  | .addStake _ owner coin v => if owner = x ∧ coin = c then v else 0
  | .newStake _ st => stakeOfOwner x c st
  | .delStake _ st => - stakeOfOwner x c st
  | .pushUpdate _ st => stakeOfOwner x c st
  | _ => 0
def Prim.dWait (x : Addr) (c : Coin) : Prim → Int
  | .addWait w => if w.owner = x ∧ w.coin = c then w.value else 0
  | .delWait w => - (if w.owner = x ∧ w.coin = c then w.value else 0)
  | _ => 0
def Prim.dFrozen (x : Addr) (c : Coin) : Prim → Int
  | .addFrozen f => if f.addr = x ∧ f.coin = c then f.value else 0
  | .delFrozen f => - (if f.addr = x ∧ f.coin = c then f.value else 0)
  | _ => 0
def Prim.dEscrow (x : Addr) (c : Coin) : Prim → Int
  | .addOrder o => if o.owner = x then orderEscrow c o else 0
  | .delOrder o => - (if o.owner = x then orderEscrow c o else 0)
  | .fillOrder o d0 d1 => - (if o.owner = x then (if o.isSale then (if o.c1 = c then d1 else 0) else (if o.c0 = c then d0 else 0)) else 0)
  | _ => 0

theorem ownStake_updDelta (x : Addr) (c : Coin) (owner : Addr) (coin : Coin) (v : Int) (l : List Stake)
    (h : l.any (stakeKey owner coin) = true) :
    updDelta (stakeOfOwner x c) (stakeKey owner coin) (fun st => { st with value := st.value + v }) l
      = if owner = x ∧ coin = c then v else 0 := by
  unfold updDelta
  obtain ⟨st, hf⟩ := findFirst_isSome_of_any _ _ h
  have hp := findFirst_some _ _ _ hf
  simp only [stakeKey, Bool.and_eq_true, beq_iff_eq] at hp
  rw [hf]
  simp only [stakeOfOwner, hp.1, hp.2]
  split <;> omega

theorem apply_ownStake (s : State) (p : Prim) (x : Addr) (c : Coin) (hok : p.ok s = true) :
    ownStake (p.apply s) x c = ownStake s x c + p.dStake x c := by
  cases p with
  | addStake cand owner coin v =>
    simp only [Prim.ok, getCand] at hok
    cases hf : findFirst (fun y => y.id == cand) s.candidates with
    | none => simp [hf] at hok
    | some cd =>
      simp only [hf] at hok
      simp only [Prim.apply, ownStake, Prim.dStake, sumBy_updFirst]
      unfold updDelta
      rw [hf]
      simp only [sumBy_updFirst, ownStake_updDelta x c owner coin v cd.stakes hok]
      split <;> omega
  | newStake cand st =>
    simp only [Prim.ok] at hok
    obtain ⟨cd, hf⟩ := findFirst_isSome_of_any _ _ hok
    simp only [Prim.apply, ownStake, Prim.dStake, sumBy_updFirst, updDelta, hf, sumBy_append, sumBy_single]
    omega
  | delStake cand st =>
    simp only [Prim.ok, getCand] at hok
    cases hf : findFirst (fun y => y.id == cand) s.candidates with
    | none => simp [hf] at hok
    | some cd =>
      simp only [hf, decide_eq_true_eq] at hok
      simp only [Prim.apply, ownStake, Prim.dStake, sumBy_updFirst, updDelta, hf, sumBy_eraseFirst, hok]
      omega
  | pushUpdate cand st =>
    simp only [Prim.ok] at hok
    obtain ⟨cd, hf⟩ := findFirst_isSome_of_any _ _ hok
    simp only [Prim.apply, ownStake, Prim.dStake, sumBy_updFirst, updDelta, hf, sumBy_append, sumBy_single]
    omega
  | addCandidate cd => simp [Prim.apply, ownStake, Prim.dStake, sumBy_append, sumBy_single, sumBy]
  | setCandStatus id st =>
    simp only [Prim.apply, ownStake, Prim.dStake]
    rw [sumBy_updFirst_inv _ _ _ _ (by intro y; rfl)]; omega
  | editCandidate id ow rw ct =>
    simp only [Prim.apply, ownStake, Prim.dStake]
    rw [sumBy_updFirst_inv _ _ _ _ (by intro y; rfl)]; omega
  | setCandPubKey id old new =>
    simp only [Prim.apply, ownStake, Prim.dStake]
    rw [sumBy_updFirst_inv _ _ _ _ (by intro y; rfl)]; omega
  | setCandCommission id cm h =>
    simp only [Prim.apply, ownStake, Prim.dStake]
    rw [sumBy_updFirst_inv _ _ _ _ (by intro y; rfl)]; omega
  | _ => simp [Prim.apply, ownStake, Prim.dStake]

theorem apply_ownWait (s : State) (p : Prim) (x : Addr) (c : Coin) (hok : p.ok s = true) :
    ownWait (p.apply s) x c = ownWait s x c + p.dWait x c := by
  cases p with
  | addWait w => simp only [Prim.apply, ownWait, Prim.dWait, sumBy_append, sumBy_single]
  | delWait w =>
    simp only [Prim.ok, decide_eq_true_eq] at hok
    simp only [Prim.apply, ownWait, Prim.dWait, sumBy_eraseFirst, hok]
    omega
  | _ => simp [Prim.apply, ownWait, Prim.dWait]

theorem apply_ownFrozen (s : State) (p : Prim) (x : Addr) (c : Coin) (hok : p.ok s = true) :
    ownFrozen (p.apply s) x c = ownFrozen s x c + p.dFrozen x c := by
  cases p with
  | addFrozen f => simp only [Prim.apply, ownFrozen, Prim.dFrozen, sumBy_append, sumBy_single]
  | delFrozen f =>
    simp only [Prim.ok, decide_eq_true_eq] at hok
    simp only [Prim.apply, ownFrozen, Prim.dFrozen, sumBy_eraseFirst, hok]
    omega
  | _ => simp [Prim.apply, ownFrozen, Prim.dFrozen]

theorem apply_ownEscrow (s : State) (p : Prim) (x : Addr) (c : Coin) (hok : p.ok s = true) :
    ownEscrow (p.apply s) x c = ownEscrow s x c + p.dEscrow x c := by
  cases p with
  | addOrder o => simp only [Prim.apply, ownEscrow, Prim.dEscrow, sumBy_append, sumBy_single]
  | delOrder o =>
    simp only [Prim.ok, decide_eq_true_eq] at hok
    simp only [Prim.apply, ownEscrow, Prim.dEscrow, sumBy_eraseFirst, hok]
    omega
  | fillOrder o d0 d1 =>
    simp only [Prim.ok, decide_eq_true_eq] at hok
    simp only [Prim.apply, ownEscrow, Prim.dEscrow, sumBy_updFirst, updDelta, hok, orderEscrow]
    split <;> (try split) <;> (try split) <;> omega
  | _ => simp [Prim.apply, ownEscrow, Prim.dEscrow]

/-- Generic monotonicity of a holding with declared effects along a checked plan. -/
theorem checked_mono (f : State → Int) (d : Prim → Int) (hap : ∀ s p, p.ok s = true → f (p.apply s) = f s + d p)
    (s s' : State) (ps : List Prim) (hd : ∀ p ∈ ps, 0 ≤ d p) (h : applyChecked s ps = some s') : f s ≤ f s' := by
  induction ps generalizing s with
  | nil => simp [applyChecked] at h; subst h; exact Int.le_refl _
  | cons p t ih =>
    obtain ⟨hok, ht⟩ := applyChecked_cons _ _ _ _ h
    have h1 := ih _ (fun q hq => hd q (List.mem_cons_of_mem _ hq)) ht
    have h2 := hap s p hok
    have h3 := hd p (List.mem_cons_self ..)
    omega

/-- A move that passes the debit guard for `sender` does not lower any non-balance holding of anybody else. -/
theorem move_holdings_guard (m : Move) (sender : Addr) (issuer : Option Addr) (x : Addr) (c : Coin)
    (hg : m.debitOk sender issuer = true) (hx : x ≠ sender) :
    ∀ p ∈ m.prims, 0 ≤ p.dStake x c ∧ 0 ≤ p.dWait x c ∧ 0 ≤ p.dFrozen x c ∧ 0 ≤ p.dEscrow x c := by
  intro p hp
  have triv : ∀ q : Prim, (q.dStake x c = 0 ∧ q.dWait x c = 0 ∧ q.dFrozen x c = 0 ∧ q.dEscrow x c = 0) →
      0 ≤ q.dStake x c ∧ 0 ≤ q.dWait x c ∧ 0 ≤ q.dFrozen x c ∧ 0 ≤ q.dEscrow x c := by
    intro q ⟨a, b, c', d⟩; omega
  cases m with
  | transfer a b c' v =>
    simp only [Move.prims, List.mem_cons, List.mem_nil_iff, or_false] at hp
    rcases hp with e | e <;> subst e <;> exact triv _ ⟨rfl, rfl, rfl, rfl⟩
  | mint a c' v =>
    simp only [Move.prims] at hp; split at hp
    · cases hp
    · simp only [List.mem_cons, List.mem_nil_iff, or_false] at hp
      rcases hp with e | e <;> subst e <;> exact triv _ ⟨rfl, rfl, rfl, rfl⟩
  | feeBase payer v =>
    simp only [Move.prims, List.mem_cons, List.mem_nil_iff, or_false] at hp
    rcases hp with e | e <;> subst e <;> exact triv _ ⟨rfl, rfl, rfl, rfl⟩
  | feeBancor payer c' commission inBase =>
    simp only [Move.prims] at hp; split at hp
    · cases hp
    · simp only [List.mem_cons, List.mem_nil_iff, or_false] at hp
      rcases hp with e | e | e | e <;> subst e <;> exact triv _ ⟨rfl, rfl, rfl, rfl⟩
  | poolSell payer c0 c1 sellsC0 net out burn toRewards dest =>
    cases sellsC0 <;> cases toRewards <;> simp only [Move.prims, Bool.false_eq_true, if_false, if_true] at hp
    all_goals first
      | (split at hp
         · simp only [List.mem_cons, List.mem_nil_iff, or_false] at hp
           rcases hp with e | e | e | e <;> subst e <;> exact triv _ ⟨rfl, rfl, rfl, rfl⟩
         · cases hp)
      | (simp only [List.mem_cons, List.mem_nil_iff, or_false] at hp
         rcases hp with e | e | e | e <;> subst e <;> exact triv _ ⟨rfl, rfl, rfl, rfl⟩)
  | createCoin owner ci =>
    simp only [Move.prims] at hp; split at hp
    · cases hp
    · simp only [List.mem_cons, List.mem_nil_iff, or_false] at hp
      rcases hp with e | e | e <;> subst e <;> exact triv _ ⟨rfl, rfl, rfl, rfl⟩
  | burnTicker v =>
    simp only [Move.prims, List.mem_cons, List.mem_nil_iff, or_false] at hp
    rcases hp with e | e <;> subst e <;> exact triv _ ⟨rfl, rfl, rfl, rfl⟩
  | admin q =>
    simp only [Move.prims] at hp; split at hp
    · next ha =>
      simp only [List.mem_singleton] at hp; subst hp
      cases p <;> simp [Prim.isAdmin] at ha <;> exact triv _ ⟨rfl, rfl, rfl, rfl⟩
    · cases hp
  | bancor a sell sellAmt buy buyAmt bip =>
    simp only [Move.prims, List.mem_append] at hp
    rcases hp with hp | hp <;> split at hp
    · rw [List.mem_singleton] at hp; subst hp; exact triv _ ⟨rfl, rfl, rfl, rfl⟩
    · simp only [List.mem_cons, List.mem_nil_iff, or_false] at hp; rcases hp with e | e | e <;> subst e <;> exact triv _ ⟨rfl, rfl, rfl, rfl⟩
    · rw [List.mem_singleton] at hp; subst hp; exact triv _ ⟨rfl, rfl, rfl, rfl⟩
    · simp only [List.mem_cons, List.mem_nil_iff, or_false] at hp; rcases hp with e | e | e <;> subst e <;> exact triv _ ⟨rfl, rfl, rfl, rfl⟩
  | delegate a cand coin value wl =>
    simp only [Move.debitOk, beq_iff_eq] at hg
    have hax : ¬ (a = x) := fun e => hx (e ▸ hg)
    cases wl <;> simp only [Move.prims, List.mem_cons, List.mem_nil_iff, or_false] at hp
    · rcases hp with e | e <;> subst e <;> simp [Prim.dStake, Prim.dWait, Prim.dFrozen, Prim.dEscrow, stakeOfOwner, hax]
    · rcases hp with e | e | e <;> subst e <;> simp [Prim.dStake, Prim.dWait, Prim.dFrozen, Prim.dEscrow, stakeOfOwner, hax]
  | unbond a stakeCand coin value wl f =>
    simp only [Move.debitOk, beq_iff_eq] at hg
    have hax : ¬ (a = x) := fun e => hx (e ▸ hg)
    cases wl with
    | none =>
      simp only [Move.prims, List.mem_cons, List.mem_nil_iff, or_false] at hp
      rcases hp with e | e <;> subst e <;> simp [Prim.dStake, Prim.dWait, Prim.dFrozen, Prim.dEscrow, hax]
    | some w =>
      simp only [Move.prims] at hp
      split at hp
      · simp only [List.mem_cons, List.mem_nil_iff, or_false] at hp
        rcases hp with e | e | e <;> subst e <;> simp [Prim.dStake, Prim.dWait, Prim.dFrozen, Prim.dEscrow, hax]
      · split at hp
        · simp only [List.mem_cons, List.mem_nil_iff, or_false] at hp
          rcases hp with e | e | e <;> subst e <;> simp [Prim.dStake, Prim.dWait, Prim.dFrozen, Prim.dEscrow, hax]
        · simp only [List.mem_cons, List.mem_nil_iff, or_false] at hp
          rcases hp with e | e <;> subst e <;> simp [Prim.dStake, Prim.dWait, Prim.dFrozen, Prim.dEscrow, hax]
  | lock a f =>
    simp only [Move.debitOk, Bool.and_eq_true, beq_iff_eq, decide_eq_true_eq] at hg
    have hax : ¬ (a = x) := fun e => hx (e ▸ hg.1)
    simp only [Move.prims, List.mem_cons, List.mem_nil_iff, or_false] at hp
    rcases hp with e | e <;> subst e <;> simp [Prim.dStake, Prim.dWait, Prim.dFrozen, Prim.dEscrow, hax]
  | declare a cd coin stake =>
    simp only [Move.debitOk, beq_iff_eq] at hg
    have hax : ¬ (a = x) := fun e => hx (e ▸ hg)
    simp only [Move.prims, List.mem_cons, List.mem_nil_iff, or_false] at hp
    rcases hp with e | e | e <;> subst e <;> simp [Prim.dStake, Prim.dWait, Prim.dFrozen, Prim.dEscrow, stakeOfOwner, hax]
  | poolCreate a pl lp =>
    simp only [Move.prims] at hp; split at hp
    · cases hp
    · simp only [List.mem_cons, List.mem_nil_iff, or_false] at hp
      rcases hp with e | e | e | e | e | e <;> subst e <;> exact triv _ ⟨rfl, rfl, rfl, rfl⟩
  | poolMint a c0 c1 a0 a1 lp liq =>
    simp only [Move.prims] at hp; split at hp
    · cases hp
    · simp only [List.mem_cons, List.mem_nil_iff, or_false] at hp
      rcases hp with e | e | e | e | e <;> subst e <;> exact triv _ ⟨rfl, rfl, rfl, rfl⟩
  | poolBurn a c0 c1 a0 a1 lp liq =>
    simp only [Move.prims] at hp; split at hp
    · cases hp
    · simp only [List.mem_cons, List.mem_nil_iff, or_false] at hp
      rcases hp with e | e | e | e | e <;> subst e <;> exact triv _ ⟨rfl, rfl, rfl, rfl⟩
  | orderAdd a o =>
    simp only [Move.debitOk, Bool.and_eq_true, beq_iff_eq] at hg
    have hox : ¬ (o.owner = x) := fun e => hx (e ▸ hg.2)
    simp only [Move.prims, List.mem_cons, List.mem_nil_iff, or_false] at hp
    rcases hp with e | e <;> subst e <;> simp [Prim.dStake, Prim.dWait, Prim.dFrozen, Prim.dEscrow, hox]
  | orderRemove a o =>
    simp only [Move.debitOk, Bool.and_eq_true, beq_iff_eq] at hg
    have hox : ¬ (o.owner = x) := fun e => hx (e ▸ hg.2)
    simp only [Move.prims, List.mem_cons, List.mem_nil_iff, or_false] at hp
    rcases hp with e | e <;> subst e <;> simp [Prim.dStake, Prim.dWait, Prim.dFrozen, Prim.dEscrow, hox]

/-- **C05 (stakes, waitlist, frozen funds, orders).** A delivered transaction — accepted or rejected — never lowers what anybody
    other than its sender has staked (stakes + pending updates), waitlisted, frozen or escrowed in limit orders, in any coin. -/
theorem C05_holdings_only_sender (P : Params) (o : Oracle) (s s' : State) (b : Nat) (t : TxIn) (out : Outcome)
    (h : deliverTx P o s b t = .ok out) (ha : applyChecked s out.plan = some s')
    (x : Addr) (hx : x ≠ t.sender) (c : Coin) :
    ownStake s x c ≤ ownStake s' x c ∧ ownWait s x c ≤ ownWait s' x c ∧
    ownFrozen s x c ≤ ownFrozen s' x c ∧ ownEscrow s x c ≤ ownEscrow s' x c := by
  have hg := deliver_moves_guarded P o s b t out h
  have hall : ∀ p ∈ out.plan, 0 ≤ p.dStake x c ∧ 0 ≤ p.dWait x c ∧ 0 ≤ p.dFrozen x c ∧ 0 ≤ p.dEscrow x c := by
    intro p hp
    simp only [Outcome.plan, planOf, List.mem_flatMap] at hp
    obtain ⟨m, hm, hpm⟩ := hp
    exact move_holdings_guard m t.sender t.issuer x c (List.all_eq_true.mp hg m hm) hx p hpm
  exact ⟨checked_mono (fun s => ownStake s x c) (Prim.dStake x c) (fun s p hok => apply_ownStake s p x c hok) s s' out.plan (fun p hp => (hall p hp).1) ha,
         checked_mono (fun s => ownWait s x c) (Prim.dWait x c) (fun s p hok => apply_ownWait s p x c hok) s s' out.plan (fun p hp => (hall p hp).2.1) ha,
         checked_mono (fun s => ownFrozen s x c) (Prim.dFrozen x c) (fun s p hok => apply_ownFrozen s p x c hok) s s' out.plan (fun p hp => (hall p hp).2.2.1) ha,
         checked_mono (fun s => ownEscrow s x c) (Prim.dEscrow x c) (fun s p hok => apply_ownEscrow s p x c hok) s s' out.plan (fun p hp => (hall p hp).2.2.2) ha⟩

end Minter
