import MinterModel.Tx
import MinterProofs.Moves
/-
  C01 — Coin supply is conserved; the base coin grows only by the block emission.
  (Transaction level; the block-level statements are added as BeginBlock/EndBlock enter the model.)
-/
namespace Minter

theorem move_no_emission (m : Move) : sumEmission m.prims = 0 := by
  cases m with
  | admin p =>
    simp only [Move.prims]; split
    · next h => have := (admin_effects p h 0).2.2.2; simp [sumEmission, sumBy, this]
    · rfl
  | poolSell payer c0 c1 sellsC0 net out burn toRewards dest =>
    cases sellsC0 <;> cases toRewards <;> simp only [Move.prims, Bool.false_eq_true, if_false, if_true]
    all_goals first | rfl | (split <;> rfl)
  | mint a c v => simp only [Move.prims]; split <;> rfl
  | feeBancor payer c commission inBase => simp only [Move.prims]; split <;> rfl
  | createCoin owner ci => simp only [Move.prims]; split <;> rfl
  | transfer a b c v => rfl
  | feeBase payer v => rfl
  | burnTicker v => rfl
  | bancor a sell sellAmt buy buyAmt bip => simp only [Move.prims]; split <;> split <;> rfl
  | delegate a cand coin value wl => cases wl <;> rfl
  | unbond a stakeCand coin value wl f =>
    cases wl with
    | none => rfl
    | some w => simp only [Move.prims]; split
                · rfl
                · split <;> rfl
  | lock a f => rfl
  | declare a cd coin stake => rfl
  | poolCreate a p lp => simp only [Move.prims]; split <;> rfl
  | poolMint a c0 c1 a0 a1 lp liq => simp only [Move.prims]; split <;> rfl
  | poolBurn a c0 c1 a0 a1 lp liq => simp only [Move.prims]; split <;> rfl
  | orderAdd a o => rfl
  | orderRemove a o => rfl

theorem planOf_no_emission (ms : List Move) : sumEmission (planOf ms) = 0 := by
  induction ms with
  | nil => rfl
  | cons m t ih =>
    simp only [planOf, List.flatMap_cons, sumEmission, sumBy_append] at *
    have := move_no_emission m
    simp only [sumEmission] at this
    omega

/-- **C01, transaction level.** Whatever DeliverTx answers (success, rejection with a failure fee, rejection without),
    applying its plan keeps every custom coin's volume equal to the sum of its holdings and leaves the base-coin
    total (holdings + bancor reserves + accumulated rewards + total slashed + the block's fee pool) and the emission
    counter unchanged.  Holds for every oracle (the bonding-curve functions may return anything). -/
theorem C01_deliver_conserves (P : Params) (o : Oracle) (s s' : State) (block : Nat) (t : TxIn) (out : Outcome)
    (_h : deliverTx P o s block t = .ok out)
    (ha : applyChecked s out.plan = some s') (hc : Conserved s) :
    Conserved s' ∧ baseTotalP s' = baseTotalP s ∧ s'.emission = s.emission := by
  have hb := planOf_balanced out.moves
  have := balanced_preserves s s' out.plan hb ha hc
  have he := checked_emission s s' out.plan ha
  have h0 := planOf_no_emission out.moves
  simp only [Outcome.plan] at *
  refine ⟨this.1, ?_, ?_⟩ <;> omega

/-- The same for any sequence of delivered transactions (a block body). -/
def deliverAll (P : Params) (o : Oracle) (block : Nat) : State → List TxIn → Option State
  | s, [] => some s
  | s, t :: ts =>
    match deliverTx P o s block t with
    | .ok out => match applyChecked s out.plan with
      | some s' => deliverAll P o block s' ts
      | none => none
    | .error _ => none

theorem C01_block_body_conserves (P : Params) (o : Oracle) (block : Nat) (txs : List TxIn) (s s' : State)
    (h : deliverAll P o block s txs = some s') (hc : Conserved s) :
    Conserved s' ∧ baseTotalP s' = baseTotalP s ∧ s'.emission = s.emission := by
  induction txs generalizing s with
  | nil => simp [deliverAll] at h; subst h; exact ⟨hc, rfl, rfl⟩
  | cons t ts ih =>
    simp only [deliverAll] at h
    split at h
    · next out hd =>
      split at h
      · next s1 ha =>
        have h1 := C01_deliver_conserves P o s s1 block t out hd ha hc
        have h2 := ih s1 h h1.1
        exact ⟨h2.1, by omega, by omega⟩
      · cases h
    · cases h

/-! Non-vacuity: a concrete state and a Send transaction that is accepted and whose plan applies. -/
def exState : State :=
  { balances := [((1, 0), 1000000000000000000000), ((1, 7), 500)],
    coins := [{ id := 7, symbol := "TOK", version := 0, volume := 500, reserve := 0, crr := 0, maxSupply := 1000, owner := some 1, mintable := true, burnable := true }],
    commission := [("send", 10000000000000000), ("payload_byte", 2000000000000000), ("failed_tx", 10000000000000000)] }

def exTx : TxIn :=
  { dec := true, rawLen := 100, typ := 1, nonce := 1, chain := 2, gasPrice := 1, gasCoin := 0, sigType := 1, sigOk := true, sender := 1,
    f := [("d.Coin", "7"), ("d.To", "02"), ("d.Value", "200")] }

example : Conserved exState := by
  intro c hc
  by_cases h : c = 7
  · subst h; decide
  · simp [exState, volumeOf, holdings, sumBy, Bag.sumIf, h]; omega

-- Evaluated by the Lean interpreter (strings do not reduce in the kernel): the hypotheses of the theorem are met
-- by `exState`/`exTx`: the transaction is accepted, its plan applies, and 200 TOK arrive at address 2.
#guard (match deliverTx {} (fun _ => none) exState 10200001 exTx with
    | .ok out => out.code == 0 && (applyChecked exState out.plan).isSome && balanceOf ((applyChecked exState out.plan).getD exState) 2 7 == 200
    | .error _ => false)

end Minter
