import MinterProofs.Persist.Restart
/-
  C09 — A restarted node continues exactly like one that never stopped (application-DB layer).

  Scope.  The theorems are about `MinterModel/Persist.lean`: the `AppDB` caches and dirty flags, `Blockchain.Commit`'s
  writes and `NewMinterBlockchain`'s lazy loads, with the state tree as an abstract  version ↦ root hash  map.
  The caches of the state modules (order-book lists, candidates/stakes, dirty flags inside `state.*`) are NOT in this
  model; for them C09 rests on the restart-twin correspondence (`harness restart`) only.
  Standing hypotheses: `Coherent` (the invariant of the cache discipline; it holds for a fresh process, see `restart_ok`
  and `fresh_coherent`) and `OpsOK` (no block sets the emission counter to 0 — 0 is the one value that does not survive a
  restart, see `emission_zero_lost`).
-/
namespace Minter
namespace Persist

/-- **commit_flushes.** After a complete commit the node can be restarted from its disk, and every getter of the new
    process (`Info` height and hash, start height, validators, block-time delta, versions, emission, price) answers what
    the running process answers; nothing is pending in memory. -/
theorem commit_flushes (cfg : Cfg) (n : Node) (hc : Coherent n) (h : Nat) (b : Block) (hok : OpsOK b.ops) (n' : Node)
    (hr : runBlock cfg n h b = some n') :
    Flushed n' ∧ ∃ r, restart n'.disk = some r ∧ observe r = observe n' ∧ logical r = logical n' ∧ Coherent r := by
  obtain ⟨hl, hc', hk, _, hlook⟩ := runBlock_ok cfg n hc h b hok n' hr
  have hf := flushed_of_clean n' hc' hk
  refine ⟨hf, ?_⟩
  have hh : n'.disk.app.height = some h := by
    have := congrArg Logical.height hl
    simpa [logical, blockL] using this
  obtain ⟨r, hr'⟩ := restart_some n'.disk h hh (by simp [hlook])
  obtain ⟨l1, c1, _⟩ := restart_ok _ r hr'
  refine ⟨r, hr', ?_, ?_, c1⟩
  · rw [observe_eq r c1, observe_eq n' hc', l1]; exact congrArg obsL hf
  · rw [l1]; exact hf

/-- `k` restarts in a row. -/
def restarts : Nat → Node → Option Node
  | 0, n => some n
  | k + 1, n => match restart n.disk with
    | none => none
    | some r => restarts k r

/-- A history: blocks `h, h+1, …`, each followed by some number of restarts (0 = none).  The result is what every getter
    answers after each block (after its restarts). -/
def runSteps (cfg : Cfg) : Node → Nat → List (Block × Nat) → Option (List Obs)
  | _, _, [] => some []
  | n, h, (b, k) :: rest =>
    match runBlock cfg n h b with
    | none => none
    | some n1 =>
      match restarts k n1 with
      | none => none
      | some n2 => (runSteps cfg n2 (h + 1) rest).map (fun t => observe n2 :: t)

def StepsOK (steps : List (Block × Nat)) : Prop := ∀ s ∈ steps, OpsOK s.1.ops

theorem restarts_ok (k : Nat) : ∀ (n : Node) (h : Nat), Coherent n → Flushed n → n.disk.app.height = some h →
    (treeLookup h n.disk.tree).isSome →
    ∃ r, restarts k n = some r ∧ logical r = logical n ∧ Coherent r ∧ r.disk = n.disk := by
  induction k with
  | zero => intro n _ hc _ _ _; exact ⟨n, rfl, rfl, hc, rfl⟩
  | succ k ih =>
    intro n h hc hf hh ht
    obtain ⟨r, hr⟩ := restart_some n.disk h hh ht
    obtain ⟨l1, c1, d1⟩ := restart_ok _ r hr
    obtain ⟨r2, hr2, l2, c2, d2⟩ := ih r h c1 (restart_flushed _ r hr) (by rw [d1]; exact hh) (by rw [d1]; exact ht)
    refine ⟨r2, ?_, ?_, c2, by rw [d2, d1]⟩
    · simp only [restarts, hr]; exact hr2
    · rw [l2, l1]; exact hf

/-- the bisimulation invariant: same logical content, same tree. -/
theorem runSteps_congr (cfg : Cfg) (steps : List (Block × Nat)) : ∀ (a b : Node) (h : Nat), Coherent a → Coherent b →
    logical a = logical b → a.disk.tree = b.disk.tree → StepsOK steps →
    runSteps cfg a h steps = runSteps cfg b h (steps.map (fun s => (s.1, 0))) := by
  induction steps with
  | nil => intro a b h _ _ _ _ _; rfl
  | cons s rest ih =>
    intro a b h ha hb hl ht hok
    obtain ⟨blk, k⟩ := s
    have hokb : OpsOK blk.ops := hok (blk, k) (by simp)
    have hokr : StepsOK rest := fun x hx => hok x (by simp [hx])
    rcases runBlock_congr cfg a b ha hb hl ht h blk hokb with ⟨e1, e2⟩ | ⟨a', b', e1, e2, hl', ht'⟩
    · simp only [runSteps, List.map_cons, e1, e2]
    · obtain ⟨la, ca, ka, _, ta⟩ := runBlock_ok cfg a ha h blk hokb a' e1
      obtain ⟨_, cb, _, _, _⟩ := runBlock_ok cfg b hb h blk hokb b' e2
      have hh : a'.disk.app.height = some h := by
        have := congrArg Logical.height la
        simpa [logical, blockL] using this
      obtain ⟨r, hr, lr, cr, dr⟩ := restarts_ok k a' h ca (flushed_of_clean a' ca ka) hh (by simp [ta])
      simp only [runSteps, List.map_cons, e1, e2, hr, restarts]
      have hobs : observe r = observe b' := by
        rw [observe_eq r cr, observe_eq b' cb, lr, hl']
      rw [hobs, ih r b' (h + 1) cr cb (by rw [lr, hl']) (by rw [dr, ht']) hokr]

/-- **restart_bisim.**  For every history — any blocks, any number of restarts (also several in a row) after any of them —
    the node answers every query after every block exactly like the node that executes the same blocks without ever
    restarting (and it halts on a tree conflict exactly when that one does). -/
theorem restart_bisim (cfg : Cfg) (n : Node) (hc : Coherent n) (h : Nat) (steps : List (Block × Nat))
    (hok : StepsOK steps) :
    runSteps cfg n h steps = runSteps cfg n h (steps.map (fun s => (s.1, 0))) :=
  runSteps_congr cfg steps n n h hc hc rfl rfl hok

/-- a restart before the first block changes nothing either (the node must be flushed, e.g. just restarted or just committed). -/
theorem restart_bisim_initial (cfg : Cfg) (n r : Node) (hc : Coherent n) (hf : Flushed n) (hr : restart n.disk = some r)
    (h : Nat) (steps : List (Block × Nat)) (hok : StepsOK steps) :
    runSteps cfg r h steps = runSteps cfg n h (steps.map (fun s => (s.1, 0))) := by
  obtain ⟨l1, c1, d1⟩ := restart_ok _ r hr
  exact runSteps_congr cfg steps r n h c1 hc (by rw [l1]; exact hf) (by rw [d1]) hok

/-! ### non-vacuity and the boundary of the hypotheses -/

def exNode : Node :=
  { mem := { startHeight := 5, lastHeight := 9, lastTimeBlocks := [100, 105], versions := [⟨1, 0⟩], emission := some 1000,
             isDirtyPrice := true, price := some ⟨7, 1, 2, 3, false⟩ },
    disk := { app := { hash := some 9, height := some 9, startHeight := some 5, validators := some [(1, 10)],
                       blockTimes := some [100, 105], versions := some [⟨1, 0⟩], emission := some 1000,
                       price := some ⟨7, 1, 2, 3, false⟩ },
              tree := [(9, 9), (8, 8)] } }

def exBlock (t hash : Nat) : Block :=
  { time := t, hash := hash, nEv := 2,
    ops := [.qDelta, .setEmission (fun e => e.getD 0 + 74), .setValidators (fun v => (2, 5) :: v), .addVersion 2 10,
            .setPrice (fun _ => ⟨8, 4, 5, 6, true⟩)] }

theorem exNode_coherent : Coherent exNode := by
  refine ⟨?_, ?_, ?_, ?_, ?_, ?_, ?_, ?_, ?_⟩ <;> simp [exNode, readEmission]

theorem exBlock_ok (t hash : Nat) : OpsOK (exBlock t hash).ops := by
  intro o ho
  simp only [exBlock, List.mem_cons, List.mem_nil_iff, or_false] at ho
  rcases ho with rfl | rfl | rfl | rfl | rfl <;> simp [OpOK]

/-- a concrete history with restarts (one, then two in a row) runs to the end and produces observations. -/
example : (runSteps ⟨1⟩ exNode 10 [(exBlock 110 10, 1), (exBlock 117 11, 2), (exBlock 121 12, 0)]).isSome = true := by decide

example : ((runSteps ⟨1⟩ exNode 10 [(exBlock 110 10, 1), (exBlock 117 11, 2)]).map
    (fun t => t.map (fun o => (o.infoHeight, o.emission, o.versions.length)))) = some [(10, some 1074, 2), (11, some 1148, 3)] := by
  decide

/-- Why `OpsOK` is there: an emission counter of 0 is written as the empty byte string and read back as "absent". -/
theorem emission_zero_lost :
    ∃ n', runBlock ⟨1⟩ exNode 10 { time := 110, hash := 10, nEv := 0, ops := [.setEmission (fun _ => 0)] } = some n' ∧
      (observe n').emission = some 0 ∧ ∃ r, restart n'.disk = some r ∧ (observe r).emission = none := by
  refine ⟨_, rfl, by decide, _, rfl, by decide⟩

end Persist
end Minter
