import MinterProofs.EventsCommit
/-
  C24 — The events a node records for a height load back for that height unchanged; this holds after restarts and however many
  distinct addresses and validator keys have appeared before.

  Result: TRUE up to 65 534 distinct validator public keys (and 2^32-1 distinct addresses) — `C24_load_commit_partial`,
  `C24_load_stable`, `C24_load_stable_run`, `C24_restart_transparent`, `C24_tables_injective`, `C24_run_faithful`;
  FALSE beyond (MinterProofs/Props/C24Bound.lean): `C24_restart_breaks_at_65535` (with exactly 65 535 keys a restarted store reloads
  *no* key: `loadPubKeys` computes `count+1` in uint16) and `C24_nokey_breaks_at_65536` (the 65 536th key gets id 0, which is the
  marker for "no validator key").  Both negative theorems were replayed on the real store (harness mode `events`, thorough tier).

  All statements are about op sequences from a fresh DB (`Reach`), i.e. every reachable store state; heights need not even be
  increasing — committing at distinct heights is all `load_stable` needs.
-/
namespace Minter
namespace Ev

/-- `st` is the store after running `ops` on a fresh DB (no op panicked). -/
def Reach (ops : List Op) (st : EvStore) : Prop := run EvStore.empty ops = some st

/-- At most 65 534 distinct validator keys and at most 2^32-1 distinct addresses appear in the events committed by `ops`. -/
def Bounded (ops : List Op) : Prop :=
  (seenKeys [] ops).length ≤ 65534 ∧ (seenAddrs [] ops).length ≤ 4294967295

instance (ops : List Op) : Decidable (Bounded ops) := by unfold Bounded; infer_instance

/-! ### bookkeeping of the two first-appearance lists along an op sequence -/

theorem seenKeys_append (ops1 ops2 : List Op) (ks : List Nat) :
    seenKeys ks (ops1 ++ ops2) = seenKeys (seenKeys ks ops1) ops2 := by
  induction ops1 generalizing ks with
  | nil => rfl
  | cons op ops ih => cases op <;> simp only [List.cons_append, seenKeys, ih]

theorem seenAddrs_append (ops1 ops2 : List Op) (as : List Nat) :
    seenAddrs as (ops1 ++ ops2) = seenAddrs (seenAddrs as ops1) ops2 := by
  induction ops1 generalizing as with
  | nil => rfl
  | cons op ops ih => cases op <;> simp only [List.cons_append, seenAddrs, ih]

theorem seenKeys_prefix (ops : List Op) (ks : List Nat) : ∃ t, seenKeys ks ops = ks ++ t := by
  induction ops generalizing ks with
  | nil => exact ⟨[], by simp [seenKeys]⟩
  | cons op ops ih =>
    cases op with
    | commit h b =>
      obtain ⟨t1, h1⟩ := seenKeysB_prefix b ks
      obtain ⟨t2, h2⟩ := ih (seenKeysB ks b)
      exact ⟨t1 ++ t2, by simp only [seenKeys]; rw [h2, h1, List.append_assoc]⟩
    | load h => exact ih ks
    | restart => exact ih ks

theorem seenAddrs_prefix (ops : List Op) (as : List Nat) : ∃ t, seenAddrs as ops = as ++ t := by
  induction ops generalizing as with
  | nil => exact ⟨[], by simp [seenAddrs]⟩
  | cons op ops ih =>
    cases op with
    | commit h b =>
      obtain ⟨t1, h1⟩ := seenAddrsB_prefix b as
      obtain ⟨t2, h2⟩ := ih (seenAddrsB as b)
      exact ⟨t1 ++ t2, by simp only [seenAddrs]; rw [h2, h1, List.append_assoc]⟩
    | load h => exact ih as
    | restart => exact ih as

theorem length_le_of_prefix {l l' t : List Nat} (h : l' = l ++ t) : l.length ≤ l'.length := by
  rw [h, List.length_append]; omega

/-! ### the invariant along op sequences -/

theorem step_inv {st st' : EvStore} {ks as : List Nat} (i : Inv st ks as) (op : Op)
    (hk : (seenKeys ks [op]).length ≤ 65534) (ha : (seenAddrs as [op]).length ≤ 4294967295)
    (hs : step st op = some st') : Inv st' (seenKeys ks [op]) (seenAddrs as [op]) := by
  cases op with
  | commit h b =>
    simp only [seenKeys, seenAddrs] at hk ha ⊢
    obtain ⟨tk, htk⟩ := seenKeysB_prefix b ks
    obtain ⟨g, hd⟩ := loadCache_inv i (Nat.le_trans (length_le_of_prefix htk) hk)
    obtain ⟨_, s⟩ := commit_good g hd i.recs h b (by omega) ha
    obtain ⟨g', r', _, _⟩ := s st' hs
    exact g'.inv r'
  | load h =>
    simp only [seenKeys, seenAddrs] at hk ha ⊢
    obtain ⟨g, hd⟩ := loadCache_inv i hk
    simp only [step, Option.some.injEq] at hs
    subst hs
    exact g.inv (by rw [hd]; exact i.recs)
  | restart =>
    simp only [seenKeys, seenAddrs] at hk ha ⊢
    simp only [step, Option.some.injEq] at hs
    subst hs
    exact ⟨i.nk, i.na, i.dp, i.da, Or.inr ⟨PW_empty, AW_empty⟩, i.recs⟩

theorem run_inv (ops : List Op) : ∀ {st st' : EvStore} {ks as : List Nat}, Inv st ks as →
    (seenKeys ks ops).length ≤ 65534 → (seenAddrs as ops).length ≤ 4294967295 →
    run st ops = some st' → Inv st' (seenKeys ks ops) (seenAddrs as ops) := by
  induction ops with
  | nil =>
    intro st st' ks as i _ _ hr
    simp only [run, Option.some.injEq] at hr
    subst hr; exact i
  | cons op ops ih =>
    intro st st' ks as i hk ha hr
    have ek : seenKeys ks (op :: ops) = seenKeys (seenKeys ks [op]) ops := seenKeys_append [op] ops ks
    have ea : seenAddrs as (op :: ops) = seenAddrs (seenAddrs as [op]) ops := seenAddrs_append [op] ops as
    rw [ek] at hk ⊢
    rw [ea] at ha ⊢
    obtain ⟨tk, htk⟩ := seenKeys_prefix ops (seenKeys ks [op])
    obtain ⟨ta, hta⟩ := seenAddrs_prefix ops (seenAddrs as [op])
    cases hs : step st op with
    | none => simp [run, hs] at hr
    | some st1 =>
      simp only [run, hs] at hr
      exact ih (step_inv i op (Nat.le_trans (length_le_of_prefix htk) hk) (Nat.le_trans (length_le_of_prefix hta) ha) hs) hk ha hr

theorem reach_inv {ops : List Op} {st : EvStore} (hr : Reach ops st) (hb : Bounded ops) :
    Inv st (seenKeys [] ops) (seenAddrs [] ops) :=
  run_inv ops Inv_empty hb.1 hb.2 hr

theorem Bounded.init {ops more : List Op} (hb : Bounded (ops ++ more)) : Bounded ops := by
  obtain ⟨hk, ha⟩ := hb
  rw [seenKeys_append] at hk
  rw [seenAddrs_append] at ha
  obtain ⟨tk, htk⟩ := seenKeys_prefix more (seenKeys [] ops)
  obtain ⟨ta, hta⟩ := seenAddrs_prefix more (seenAddrs [] ops)
  exact ⟨Nat.le_trans (length_le_of_prefix htk) hk, Nat.le_trans (length_le_of_prefix hta) ha⟩

theorem run_append (l1 l2 : List Op) (st : EvStore) :
    run st (l1 ++ l2) = (run st l1).bind (fun s => run s l2) := by
  induction l1 generalizing st with
  | nil => rfl
  | cons o l ih =>
    cases hs : step st o with
    | none => simp [run, hs]
    | some s1 => simp only [List.cons_append, run, hs]; exact ih s1

/-- load ∘ commit from any state satisfying the invariant -/
theorem inv_load_commit {st : EvStore} {ks as : List Nat} (i : Inv st ks as) (h : Nat) (b : List Event)
    (hk : (seenKeysB ks b).length ≤ 65534) (ha : (seenAddrsB as b).length ≤ 4294967295) (wf : ∀ e ∈ b, e.WF) :
    ∃ st', commit st h b = some st' ∧ load st' h = .ok b := by
  obtain ⟨tk, htk⟩ := seenKeysB_prefix b ks
  obtain ⟨g, hd⟩ := loadCache_inv i (Nat.le_trans (length_le_of_prefix htk) hk)
  obtain ⟨p, s⟩ := commit_good g hd i.recs h b (by omega) ha
  have hsome := p (fun e he => (wf e he).roleOK)
  cases hc : commit st h b with
  | none => rw [hc] at hsome; cases hsome
  | some st' =>
    obtain ⟨g', r', _, x⟩ := s st' hc
    exact ⟨st', rfl, by rw [load_eq (g'.inv r') hk h]; exact x wf⟩

/-- stability of `load h` under one op that is not a commit at `h`, from any state satisfying the invariant -/
theorem inv_load_stable {st st' : EvStore} {ks as : List Nat} (i : Inv st ks as) (op : Op) (h : Nat)
    (hk : (seenKeys ks [op]).length ≤ 65534) (ha : (seenAddrs as [op]).length ≤ 4294967295)
    (hs : step st op = some st') (hne : ∀ b, op ≠ .commit h b) : load st' h = load st h := by
  obtain ⟨tk, htk⟩ := seenKeys_prefix [op] ks
  obtain ⟨ta, hta⟩ := seenAddrs_prefix [op] as
  have hk0 := Nat.le_trans (length_le_of_prefix htk) hk
  have i' := step_inv i op hk ha hs
  rw [load_eq i' hk h, load_eq i hk0 h]
  -- the stored records of height `h` are the same …
  have hblocks : st'.disk.blocks.get? h = st.disk.blocks.get? h := by
    cases op with
    | commit h2 b =>
      obtain ⟨g, hd⟩ := loadCache_inv i hk0
      simp only [seenKeys, seenAddrs] at hk ha
      obtain ⟨_, s⟩ := commit_good g hd i.recs h2 b (by omega) ha
      obtain ⟨_, _, f, _⟩ := s st' hs
      exact f h (fun e => hne b (by rw [e]))
    | load h2 =>
      simp only [step, Option.some.injEq] at hs
      subst hs
      rw [(loadCache_inv i hk0).2]
    | restart =>
      simp only [step, Option.some.injEq] at hs
      subst hs; rfl
  -- … and they refer only to ids that existed before, whose meaning did not change
  unfold loadA
  rw [hblocks]
  cases hg : st.disk.blocks.get? h with
  | none => rfl
  | some rs =>
    simp only
    rw [htk, hta, expandAllA_stable (i.recs h rs hg) tk ta]

/-- the batch last committed at height `h` by `ops` -/
def lastCommitted : List Op → Nat → Option (List Event)
  | [], _ => none
  | .commit h' b :: ops, h =>
    match lastCommitted ops h with
    | some x => some x
    | none => if h' = h then some b else none
  | _ :: ops, h => lastCommitted ops h

/-- every committed event is one the node can emit -/
def AllWF : List Op → Prop
  | [] => True
  | .commit _ b :: ops => (∀ e ∈ b, e.WF) ∧ AllWF ops
  | _ :: ops => AllWF ops

instance : (ops : List Op) → Decidable (AllWF ops)
  | [] => by unfold AllWF; infer_instance
  | .commit _ b :: ops => by
      unfold AllWF
      have := instDecidableAllWF ops
      infer_instance
  | .load _ :: ops => by unfold AllWF; exact instDecidableAllWF ops
  | .restart :: ops => by unfold AllWF; exact instDecidableAllWF ops

theorem run_faithful_inv (ops : List Op) : ∀ {st st' : EvStore} {ks as : List Nat}, Inv st ks as →
    (seenKeys ks ops).length ≤ 65534 → (seenAddrs as ops).length ≤ 4294967295 → AllWF ops →
    run st ops = some st' → ∀ h,
    load st' h = match lastCommitted ops h with
      | some b => .ok b
      | none => load st h := by
  induction ops with
  | nil =>
    intro st st' ks as _ _ _ _ hr h
    simp only [run, Option.some.injEq] at hr
    subst hr; rfl
  | cons op ops ih =>
    intro st st' ks as i hk ha wf hr h
    have ek : seenKeys ks (op :: ops) = seenKeys (seenKeys ks [op]) ops := seenKeys_append [op] ops ks
    have ea : seenAddrs as (op :: ops) = seenAddrs (seenAddrs as [op]) ops := seenAddrs_append [op] ops as
    rw [ek] at hk
    rw [ea] at ha
    obtain ⟨tk, htk⟩ := seenKeys_prefix ops (seenKeys ks [op])
    obtain ⟨ta, hta⟩ := seenAddrs_prefix ops (seenAddrs as [op])
    have hk1 := Nat.le_trans (length_le_of_prefix htk) hk
    have ha1 := Nat.le_trans (length_le_of_prefix hta) ha
    cases hs : step st op with
    | none => simp [run, hs] at hr
    | some st1 =>
      simp only [run, hs] at hr
      have i1 := step_inv i op hk1 ha1 hs
      cases op with
      | commit h' b =>
        simp only [AllWF] at wf
        have e1 := ih i1 hk ha wf.2 hr h
        rw [e1]
        simp only [lastCommitted]
        cases lastCommitted ops h with
        | some x => rfl
        | none =>
          simp only
          by_cases e : h' = h
          · subst e
            simp only [if_true]
            simp only [seenKeys, seenAddrs] at hk1 ha1
            obtain ⟨st2, c2, l2⟩ := inv_load_commit i h' b hk1 ha1 wf.1
            simp only [step] at hs
            rw [hs] at c2
            cases c2; exact l2
          · simp only [e, if_false]
            exact inv_load_stable i _ h hk1 ha1 hs (fun b' e' => by cases e'; exact e rfl)
      | load h' =>
        simp only [AllWF] at wf
        have e1 := ih i1 hk ha wf hr h
        rw [e1]
        simp only [lastCommitted]
        cases lastCommitted ops h with
        | some x => rfl
        | none => exact inv_load_stable i _ h hk1 ha1 hs (fun b' e' => by cases e')
      | restart =>
        simp only [AllWF] at wf
        have e1 := ih i1 hk ha wf hr h
        rw [e1]
        simp only [lastCommitted]
        cases lastCommitted ops h with
        | some x => rfl
        | none => exact inv_load_stable i _ h hk1 ha1 hs (fun b' e' => by cases e')

theorem load_empty (h : Nat) : load EvStore.empty h = .absent := by
  rw [load_eq Inv_empty (by simp) h]
  simp [loadA, EvStore.empty]

/-! ### the property -/

/-- **load ∘ commit.**  In every reachable store state, committing a batch of events the node can emit (`Event.WF`: known role,
    non-negative amount, coin / order ids that fit uint32) at height `h` succeeds and `LoadEvents(h)` returns exactly that batch —
    every field of every event — provided that, including this batch, at most 65 534 distinct validator keys and 2^32-1 distinct
    addresses have appeared.  (`_partial`: the bound is necessary, see the two `…_breaks_…` theorems below.) -/
theorem C24_load_commit_partial (ops : List Op) (st : EvStore) (h : Nat) (b : List Event)
    (hr : Reach ops st) (hb : Bounded (ops ++ [.commit h b])) (wf : ∀ e ∈ b, e.WF) :
    ∃ st', commit st h b = some st' ∧ load st' h = .ok b := by
  have i := reach_inv hr hb.init
  obtain ⟨hk, ha⟩ := hb
  rw [seenKeys_append] at hk
  rw [seenAddrs_append] at ha
  exact inv_load_commit i h b hk ha wf

/-- **Stability.**  No later operation — a commit at another height, a load, a restart — changes what `LoadEvents(h)` returns. -/
theorem C24_load_stable (ops : List Op) (st st' : EvStore) (op : Op) (h : Nat)
    (hr : Reach ops st) (hb : Bounded (ops ++ [op])) (hs : step st op = some st')
    (hne : ∀ b, op ≠ .commit h b) : load st' h = load st h := by
  have i := reach_inv hr hb.init
  obtain ⟨hk, ha⟩ := hb
  rw [seenKeys_append] at hk
  rw [seenAddrs_append] at ha
  exact inv_load_stable i op h hk ha hs hne

/-- Stability over any number of later operations. -/
theorem C24_load_stable_run (more : List Op) : ∀ (ops : List Op) (st st' : EvStore) (h : Nat),
    Reach ops st → Bounded (ops ++ more) → run st more = some st' →
    (∀ b, Op.commit h b ∉ more) → load st' h = load st h := by
  induction more with
  | nil =>
    intro ops st st' h _ _ hrun _
    simp only [run, Option.some.injEq] at hrun
    subst hrun; rfl
  | cons op more ih =>
    intro ops st st' h hr hb hrun hne
    cases hs : step st op with
    | none => simp [run, hs] at hrun
    | some st1 =>
      simp only [run, hs] at hrun
      have hb' : Bounded ((ops ++ [op]) ++ more) := by simpa using hb
      have hr1 : Reach (ops ++ [op]) st1 := by
        unfold Reach at hr ⊢
        have : ∀ (l : List Op) (s0 : EvStore), run s0 l = some st → run s0 (l ++ [op]) = some st1 := by
          intro l
          induction l with
          | nil => intro s0 h0; simp only [run, Option.some.injEq] at h0; subst h0; simp [run, hs]
          | cons o l ihl =>
            intro s0 h0
            cases hso : step s0 o with
            | none => simp [run, hso] at h0
            | some s1 => simp only [run, hso, List.cons_append] at h0 ⊢; exact ihl s1 h0
        exact this ops _ hr
      have e1 := ih (ops ++ [op]) st1 st' h hr1 hb' hrun (fun b hm => hne b (by simp [hm]))
      have e2 := C24_load_stable ops st st1 op h hr hb'.init hs (fun b e => hne b (by simp [e]))
      rw [e1, e2]

/-- **Restarts are transparent**: a new store object on the same DB answers every `LoadEvents` exactly as the old one. -/
theorem C24_restart_transparent (ops : List Op) (st : EvStore) (h : Nat)
    (hr : Reach ops st) (hb : Bounded ops) : load (restart st) h = load st h := by
  have hb' : Bounded (ops ++ [.restart]) := by
    obtain ⟨hk, ha⟩ := hb
    refine ⟨?_, ?_⟩
    · rw [seenKeys_append]; exact hk
    · rw [seenAddrs_append]; exact ha
  exact C24_load_stable ops st (restart st) .restart h hr hb' rfl (fun b e => by cases e)

/-- **The id tables are injective** (in the cache and on disk) and the two directions agree, in every reachable state. -/
theorem C24_tables_injective (ops : List Op) (st : EvStore) (hr : Reach ops st) (hb : Bounded ops) :
    (∀ i j k, st.cache.idPub.get? i = some k → st.cache.idPub.get? j = some k → i = j) ∧
    (∀ k i, st.cache.pubId.get? k = some i ↔ st.cache.idPub.get? i = some k) ∧
    (∀ i j a, st.cache.idAddr.get? i = some a → st.cache.idAddr.get? j = some a → i = j) ∧
    (∀ a i, st.cache.addrId.get? a = some i ↔ st.cache.idAddr.get? i = some a) ∧
    (∀ c, st.disk.pkCount = some c → ∀ i j, 1 ≤ i → i ≤ c → 1 ≤ j → j ≤ c →
        st.disk.pk.get? i = st.disk.pk.get? j → i = j) ∧
    (∀ c, st.disk.adCount = some c → ∀ i j, i < c → j < c → st.disk.ad.get? i = st.disk.ad.get? j → i = j) := by
  have i := reach_inv hr hb
  have cacheFacts : ∀ ks as, ks.Nodup → as.Nodup → PW st.cache ks → AW st.cache as →
      (∀ i j k, st.cache.idPub.get? i = some k → st.cache.idPub.get? j = some k → i = j) ∧
      (∀ k i, st.cache.pubId.get? k = some i ↔ st.cache.idPub.get? i = some k) ∧
      (∀ i j a, st.cache.idAddr.get? i = some a → st.cache.idAddr.get? j = some a → i = j) ∧
      (∀ a i, st.cache.addrId.get? a = some i ↔ st.cache.idAddr.get? i = some a) := by
    intro ks as nk na pw aw
    refine ⟨?_, ?_, ?_, ?_⟩
    · intro i j k hi hj; rw [pw.get] at hi hj; exact kget_inj nk hi hj
    · intro k i; rw [pw.get]; exact pw.rev k i
    · intro i j a hi hj; rw [aw.get] at hi hj; exact nodup_getElem?_inj na hi hj
    · intro a i; rw [aw.get]; exact aw.rev a i
  have hex : ∃ ks as : List Nat, ks.Nodup ∧ as.Nodup ∧ PW st.cache ks ∧ AW st.cache as := by
    rcases i.cache with ⟨pw, aw⟩ | ⟨pw, aw⟩
    · exact ⟨_, _, i.nk, i.na, pw, aw⟩
    · exact ⟨[], [], by simp, by simp, pw, aw⟩
  obtain ⟨ks0, as0, nk0, na0, pw0, aw0⟩ := hex
  have c4 := cacheFacts ks0 as0 nk0 na0 pw0 aw0
  refine ⟨c4.1, c4.2.1, c4.2.2.1, c4.2.2.2, ?_, ?_⟩
  · intro c hc a b ha1 ha2 hb1 hb2 hab
    rw [i.dp.count] at hc
    split at hc
    · cases hc
    · simp only [Option.some.injEq] at hc
      have ga : kget (seenKeys [] ops) a = some (seenKeys [] ops)[a - 1] := by
        have : a - 1 < (seenKeys [] ops).length := by omega
        simp [kget, this]; omega
      have gb : kget (seenKeys [] ops) b = some (seenKeys [] ops)[b - 1] := by
        have : b - 1 < (seenKeys [] ops).length := by omega
        simp [kget, this]; omega
      rw [i.dp.get _ _ ga, i.dp.get _ _ gb] at hab
      exact kget_inj i.nk ga (hab ▸ gb)
  · intro c hc a b ha1 hb1 hab
    rw [i.da.count] at hc
    split at hc
    · cases hc
    · simp only [Option.some.injEq] at hc
      have ga : (seenAddrs [] ops)[a]? = some (seenAddrs [] ops)[a] := by simp
      have gb : (seenAddrs [] ops)[b]? = some (seenAddrs [] ops)[b] := by simp
      rw [i.da.get _ _ ga, i.da.get _ _ gb] at hab
      exact nodup_getElem?_inj i.na ga (hab ▸ gb)

/-- **The whole property in one statement.**  Take any sequence of commits, loads and restarts on a fresh DB in which every
    committed event is one the node can emit and at most 65 534 distinct validator keys / 2^32-1 distinct addresses occur.
    Then no operation panics-away the state (`Reach`), and afterwards `LoadEvents(h)` returns, for every height `h`, exactly the
    batch last committed at `h` (and nil if there is none). -/
theorem C24_run_faithful (ops : List Op) (st : EvStore) (h : Nat)
    (hr : Reach ops st) (hb : Bounded ops) (wf : AllWF ops) :
    load st h = match lastCommitted ops h with
      | some b => .ok b
      | none => .absent := by
  have := run_faithful_inv ops Inv_empty hb.1 hb.2 wf hr h
  rw [this]
  cases lastCommitted ops h with
  | some b => rfl
  | none => exact load_empty h

/-- … and such a sequence never panics: it always reaches a state. -/
theorem C24_run_total (ops : List Op) (hb : Bounded ops) (wf : AllWF ops) : ∃ st, Reach ops st := by
  suffices H : ∀ (ops : List Op) {st : EvStore} {ks as : List Nat}, Inv st ks as →
      (seenKeys ks ops).length ≤ 65534 → (seenAddrs as ops).length ≤ 4294967295 → AllWF ops →
      ∃ st', run st ops = some st' from H ops Inv_empty hb.1 hb.2 wf
  intro ops
  induction ops with
  | nil => intro st ks as _ _ _ _; exact ⟨st, rfl⟩
  | cons op ops ih =>
    intro st ks as i hk ha wf
    have ek : seenKeys ks (op :: ops) = seenKeys (seenKeys ks [op]) ops := seenKeys_append [op] ops ks
    have ea : seenAddrs as (op :: ops) = seenAddrs (seenAddrs as [op]) ops := seenAddrs_append [op] ops as
    rw [ek] at hk
    rw [ea] at ha
    obtain ⟨tk, htk⟩ := seenKeys_prefix ops (seenKeys ks [op])
    obtain ⟨ta, hta⟩ := seenAddrs_prefix ops (seenAddrs as [op])
    have hk1 := Nat.le_trans (length_le_of_prefix htk) hk
    have ha1 := Nat.le_trans (length_le_of_prefix hta) ha
    have hstep : ∃ st1, step st op = some st1 := by
      cases op with
      | commit h b =>
        simp only [AllWF] at wf
        simp only [seenKeys, seenAddrs] at hk1 ha1
        obtain ⟨st2, c2, _⟩ := inv_load_commit i h b hk1 ha1 wf.1
        exact ⟨st2, c2⟩
      | load h => exact ⟨_, rfl⟩
      | restart => exact ⟨_, rfl⟩
    obtain ⟨st1, hs⟩ := hstep
    have wf' : AllWF ops := by
      cases op <;> simp only [AllWF] at wf
      · exact wf.2
      · exact wf
      · exact wf
    obtain ⟨st', hr'⟩ := ih (step_inv i op hk1 ha1 hs) hk ha wf'
    exact ⟨st', by simp only [run, hs]; exact hr'⟩

/-! ### non-vacuity: a concrete sequence meeting all hypotheses (same key in three roles, no-key unbond, zero and 10^33 amounts,
    empty batch, restart between commits) -/

def exOps : List Op :=
  [ .commit 5 [.reward 2 0xaa 1000000000000000000000000000000000 0xbb 7, .unbond 0xaa 0 3 none, .jail 0xbb 99,
               .move 0xcc 5 0 0xbb 0xdd, .removeCandidate 0xbb, .updateNetwork [118, 50]],
    .load 5, .restart, .commit 6 [], .commit 8 [.slash 0xaa 1 4294967295 0xdd, .orderExpired 4294967295 0xee 1993 12], .load 5 ]

example : Bounded exOps ∧ AllWF exOps := by decide
example : Bounded (exOps ++ [.commit 9 [.kick 0xaa 1 0 0xbb]]) ∧ (∀ e ∈ [Event.kick 0xaa 1 0 0xbb], e.WF) := by decide
example : lastCommitted exOps 5 = some [.reward 2 0xaa 1000000000000000000000000000000000 0xbb 7, .unbond 0xaa 0 3 none, .jail 0xbb 99,
               .move 0xcc 5 0 0xbb 0xdd, .removeCandidate 0xbb, .updateNetwork [118, 50]] ∧ lastCommitted exOps 7 = none := by decide
/-- the hypotheses of all theorems above are jointly satisfiable, and the conclusions are about a state that exists -/
example : ∃ st, Reach exOps st ∧ load st 6 = .ok [] ∧ load st 7 = .absent ∧ load (restart st) 6 = .ok [] := by
  obtain ⟨st, hr⟩ := C24_run_total exOps (by decide) (by decide)
  refine ⟨st, hr, ?_, ?_, ?_⟩
  · exact C24_run_faithful exOps st 6 hr (by decide) (by decide)
  · exact C24_run_faithful exOps st 7 hr (by decide) (by decide)
  · rw [C24_restart_transparent exOps st 6 hr (by decide)]
    exact C24_run_faithful exOps st 6 hr (by decide) (by decide)

end Ev
end Minter
