import MinterModel.Genesis
import MinterProofs.Genesis
import MinterProofs.Props.C01
import MinterProofs.Props.C22
/-
  C11 — Exported state round-trips through genesis.

  "Exporting the state at any height produces a genesis that passes validation.  A new chain started from that genesis exports
   the same state again: accounts, coins, candidates, stakes, waitlist, frozen funds, pools, orders, checks, votes and
   commissions.  That new chain also behaves like the original for subsequent transactions."

  Model: `MinterModel/Genesis.lean` — `verifyState` mirrors `AppState.Verify()` check by check (the list `allChecks`, in the order
  of the Go code), `importState` is `State.Import` + `InitChain` as seen by the next export, `exportState` the canonical order.
  The definitions are tied to the node by the harness mode `export2` (real exports and 54 kinds of mutated exports through the
  real `Verify()` and through `verifyState`; `importState` against the node's re-export).

  Proved here (for all states, no bounds):
  * `verifyState_ok_iff` / `verifyState_error` (MinterProofs/Genesis.lean)   acceptance = every check of the list holds; a rejection
                                       names a failing check;
  * `export_verifies_volumes`          (a) a state with the C01 invariant (`Conserved`: volume = holdings for every custom coin),
                                       distinct positive coin ids and no staked token passes every volume comparison of the
                                       validator (`export_verifies_volumes_of_monitor`: the same from the `volumesOk` monitor);
  * `verified_volumes`                 the converse the validator gives: an accepted genesis has volume = holdings for every coin
                                       with reserve, and volume = holdings − stakes − waitlist for every token;
  * `export_verifies`                  (b) every other check follows from a named structural invariant (`ExportInv`), so a state
                                       with `ExportInv`, `Conserved` and `amountsOk` is accepted (`export_verifies_core`: the same
                                       from the volume comparisons);
  * `wellFormed_inv`, `wellFormed_verifies`, `wellFormed_importFixed`   the decidable monitor `wellFormed` (evaluated by the harness
                                       on every real export, `Q wellformed`) implies `ExportInv`, the `volumesOk` / `amountsOk`
                                       monitors and `ImportFixed`; whatever passes it passes the validator;
  * `reach_export_inv`                 the invariants the transaction model maintains are maintained along every delivery history:
                                       `Conserved` (C01), distinct ids (C22), positive ids, coin counter = number of coins;
  * `import_*` / `import_id` / `import_export_id`   (c) the import is the identity on every component it treats as data, and on the
                                       whole state when the recalculation has nothing to recompute (`Settled`) and the derived
                                       scalars are in their exported form (`ImportFixed`);
  * `pending_updates_not_roundtrip`    the boundary of (c): a recalculation that applies pending stake updates cannot be the identity
                                       on a genesis that carries some (known finding F15, stake-recalculation-on-import);
  * `exportState_idem`                 a canonical state is a fixed point of `exportState`;
  * `C11_partial`, `C11_partial_monitor`   (d) the collection, from the Prop-level invariants and from the decidable monitor.

  NOT proved (see `C11_partial`): that the new chain *behaves* like the original for subsequent transactions (bounded evidence only:
  mode `export2` continues both chains with the same blocks and compares responses and exports); that the stake recalculation
  leaves a settled genesis alone (`Settled` is a hypothesis; where it fails is known finding F15); that every reachable state has
  the structural invariants outside the transaction model (validators ⊆ candidates, unique stakes, existing coins …: hypotheses
  here, checked on the node's exports by `Q wellformed` / `Q verify`).
-/
namespace Minter
namespace Genesis

/-! ### (a) Volumes -/

theorem volumeChecksPass_iff (s : State) : volumeChecksPass s = true ↔ ∀ ci ∈ s.coins, goVolume s ci = ci.volume := by
  simp [volumeChecksPass, List.all_eq_true]

/-- **C11 (a).** The volume part of the validation passes for every state that satisfies the C01 invariant: the exported genesis
    of a conserved state is accepted by the volume comparisons of `AppState.Verify()`.
    Hypotheses beyond `Conserved`: coin ids are distinct and non-zero (C22), and no stake / update / waitlist entry is held in a
    token — `Verify()` leaves those out of a token's sum. -/
theorem export_verifies_volumes (s : State) (hc : Conserved s)
    (hn : (coinIds s).Nodup) (hp : ∀ ci ∈ s.coins, ci.id ≠ 0) (ht : tokensUnstaked s = true) :
    volumeChecksPass s = true := by
  rw [volumeChecksPass_iff]
  intro ci hm
  rw [goVolume_eq_holdings s ci hm ht, ← hc ci.id (hp ci hm)]
  exact volumeOf_unique s.coins ci hm hn

/-- The same from the decidable monitor the driver evaluates on every committed state (`volumesOk`). -/
theorem export_verifies_volumes_of_monitor (s : State) (hv : volumesOk s = true)
    (hp : ∀ ci ∈ s.coins, ci.id ≠ 0) (ht : tokensUnstaked s = true) :
    volumeChecksPass s = true := by
  rw [volumeChecksPass_iff]
  intro ci hm
  rw [goVolume_eq_holdings s ci hm ht]
  unfold volumesOk at hv
  rw [List.all_eq_true] at hv
  have := hv ci hm
  simp only [Bool.or_eq_true, beq_iff_eq, decide_eq_true_eq] at this
  rcases this with h | h
  · exact absurd h (hp ci hm)
  · exact h.symm

/-- What acceptance gives back: every registry entry of an accepted genesis has the volume `Verify()` summed. -/
theorem verified_volumes (base : String) (s : State) (h : verifyState base s = .ok ()) :
    ∀ ci ∈ s.coins, goVolume s ci = ci.volume := by
  rw [verifyState_ok_iff] at h
  intro ci hm
  have hmem : (volumeName ci, decide (goVolume s ci = ci.volume)) ∈ allChecks base s := by
    simp only [allChecks, List.mem_append]
    left; left; left; right
    exact coinChecks_volume base s s.coins [] ci hm
  simpa using h _ hmem

/-! ### (b) The remaining checks from named structural invariants -/

/-- Structural invariants of an exported state, one per group of checks of `Verify()`. -/
structure ExportInv (base : String) (s : State) : Prop where
  /-- `len(Validators) ≥ 1`. -/
  hasValidator : s.validators ≠ []
  /-- no validator twice -/
  valKeysNodup : (s.validators.map (·.pubkey)).Nodup
  /-- every validator is a candidate -/
  valsAreCands : ∀ v ∈ s.validators, s.candidates.any (fun c => c.pubkey == v.pubkey) = true
  valTotalsNonneg : ∀ v ∈ s.validators, 0 ≤ v.totalBip
  /-- no account twice -/
  accountsNodup : (s.nonces.map (·.1)).Nodup
  /-- balances, stakes, waitlist entries and frozen funds are held in the base coin or a registered coin -/
  balanceCoins : ∀ b ∈ s.balances, coinExists s b.1.2 = true
  stakeCoins : ∀ cd ∈ s.candidates, ∀ st ∈ cd.stakes, coinExists s st.coin = true
  waitCoins : ∀ w ∈ s.waitlist, coinExists s w.coin = true
  frozenCoins : ∀ f ∈ s.frozen, coinExists s f.coin = true
  /-- one stake per (delegator, coin) and candidate -/
  stakeKeysNodup : ∀ cd ∈ s.candidates, (cd.stakes.map (fun st => (st.owner, st.coin))).Nodup
  /-- the base symbol is not in the registry -/
  noBaseSymbol : ∀ ci ∈ s.coins, ci.symbol ≠ base
  /-- coin ids are distinct (C22) and none is the base id -/
  coinIdsNodup : (coinIds s).Nodup
  idsNonzero : ∀ ci ∈ s.coins, ci.id ≠ 0
  /-- tokens are not staked (Delegate / DeclareCandidacy demand a reserve) -/
  unstaked : tokensUnstaked s = true
  /-- used checks are 32-byte hashes in hex -/
  checksWellFormed : ∀ h ∈ s.usedChecks, hexDecodes h = true ∧ h.toList.length = 64

/-- Every check outside the volume comparisons follows from its structural invariant (and the sign checks from `amountsOk`). -/
theorem export_verifies_core (base : String) (s : State) (hi : ExportInv base s) (hvp : volumeChecksPass s = true) (ha : amountsOk s = true) :
    verifyState base s = .ok () := by
  rw [verifyState_ok_iff]
  unfold amountsOk at ha
  simp only [Bool.and_eq_true, List.all_eq_true, decide_eq_true_eq] at ha
  obtain ⟨⟨⟨⟨⟨⟨⟨⟨hbal, _hcoins⟩, _hst⟩, hwait⟩, hfroz⟩, _hpools⟩, _hord⟩, hacc⟩, hsl⟩ := ha
  have hvol := (volumeChecksPass_iff s).mp hvp
  intro c hm
  simp only [allChecks, List.mem_append, List.mem_cons, List.mem_flatMap, List.not_mem_nil, or_false] at hm
  rcases hm with (((((((hm | hm) | hm) | hm) | hm) | hm) | hm) | hm) | hm
  · rcases hm with rfl | rfl
    · simpa using hsl
    · cases hv : s.validators with
      | nil => exact absurd hv hi.hasValidator
      | cons _ _ => simp
  · exact valChecks_ok s s.validators [] (by intro v _ h; cases h) hi.valKeysNodup hi.valsAreCands hi.valTotalsNonneg hacc c hm
  · exact accountChecks_ok s.nonces [] (by intro v _ h; cases h) hi.accountsNodup c hm
  · obtain ⟨b, hb, hm⟩ := hm
    simp only [balanceChecks, List.mem_cons, List.not_mem_nil, or_false] at hm
    rcases hm with rfl | rfl
    · simpa using bag_nonneg_mem s.balances hbal b hb
    · exact hi.balanceCoins b hb
  · obtain ⟨cd, hcd, hm⟩ := hm
    exact stakeChecks_ok s cd.stakes [] (by intro v _ h; cases h) (hi.stakeKeysNodup cd hcd) (hi.stakeCoins cd hcd) c hm
  · exact coinChecks_ok base s s.coins [] (by intro v _ h; cases h) hi.coinIdsNodup hi.noBaseSymbol hvol c hm
  · obtain ⟨w, hw, hm⟩ := hm
    simp only [waitChecks, List.mem_cons, List.not_mem_nil, or_false] at hm
    rcases hm with rfl | rfl
    · simpa using hwait w hw
    · exact hi.waitCoins w hw
  · obtain ⟨f, hf, hm⟩ := hm
    simp only [frozenChecks, List.mem_cons, List.not_mem_nil, or_false] at hm
    rcases hm with rfl | rfl
    · simpa using hfroz f hf
    · exact hi.frozenCoins f hf
  · obtain ⟨h, hh, hm⟩ := hm
    simp only [usedCheckChecks, List.mem_cons, List.not_mem_nil, or_false] at hm
    rcases hm with rfl | rfl
    · exact (hi.checksWellFormed h hh).1
    · simpa using (hi.checksWellFormed h hh).2

/-- **C11 (b).** A state with the structural invariants, the C01 invariant and the C02 monitor passes the whole validation. -/
theorem export_verifies (base : String) (s : State) (hi : ExportInv base s) (hc : Conserved s) (ha : amountsOk s = true) :
    verifyState base s = .ok () :=
  export_verifies_core base s hi (export_verifies_volumes s hc hi.coinIdsNodup hi.idsNonzero hi.unstaked) ha

/-- The decidable form the harness evaluates on every real export (`Q wellformed`): a state that passes `wellFormed` (and does not
    declare the base symbol) has `ExportInv`, the `volumesOk` / `amountsOk` monitors … -/
theorem wellFormed_inv (base : String) (s : State) (h : wellFormed s = .ok ()) (hb : ∀ ci ∈ s.coins, ci.symbol ≠ base) :
    ExportInv base s ∧ volumesOk s = true ∧ amountsOk s = true := by
  rw [wellFormed_ok_iff] at h
  simp only [exportInvariants, List.forall_mem_cons] at h
  obtain ⟨e1, e2, e3, e4, e5, e6, e7, e8, e9, e10, e11, e12, e13, _, e14, _, e15, e16, _⟩ := h
  refine ⟨?_, e13, e16⟩
  rw [nodupB_iff] at e2 e5 e11
  simp only [List.all_eq_true, decide_eq_true_eq, Bool.and_eq_true, beq_iff_eq] at e3 e4 e6 e7 e8 e9 e10 e12 e14
  exact {
    hasValidator := by intro hv; simp [hv] at e1
    valKeysNodup := e2
    valsAreCands := e3
    valTotalsNonneg := e4
    accountsNodup := e5
    balanceCoins := e6
    stakeCoins := e7
    waitCoins := e8
    frozenCoins := e9
    stakeKeysNodup := fun cd hcd => (nodupB_iff _).mp (e10 cd hcd)
    noBaseSymbol := hb
    coinIdsNodup := e11
    idsNonzero := fun ci hm => by have := e14 ci hm; omega
    unstaked := e15
    checksWellFormed := e12 }

/-- … and is therefore accepted by the validator: whatever passes the invariant monitors passes `Verify()`. -/
theorem wellFormed_verifies (base : String) (s : State) (h : wellFormed s = .ok ()) (hb : ∀ ci ∈ s.coins, ci.symbol ≠ base) :
    verifyState base s = .ok () := by
  obtain ⟨hi, hv, ha⟩ := wellFormed_inv base s h hb
  exact export_verifies_core base s hi (export_verifies_volumes_of_monitor s hv hi.idsNonzero hi.unstaked) ha

/-! ### Invariants the transaction model maintains (C01, C22) -/

/-- The coin counter is the number of registered coins (`SetCoinsCount(len(state.Coins))` at import, one more per creation). -/
def CountExact (s : State) : Prop := s.ncoins = s.coins.length

theorem deliver_countExact (s s' : State) (ps : List Prim) (ha : applyChecked s ps = some s') (h : CountExact s) : CountExact s' := by
  have h1 := checked_ncoins s s' ps ha
  have h2 := congrArg List.length (checked_coinIds s s' ps ha)
  simp only [coinIds, List.length_map, List.length_append] at h2
  unfold CountExact at *
  omega

/-- Along every history of delivered transactions: the C01 invariant, distinct ids, no base id in the registry, and an exact coin
    counter are maintained (C01_deliver_conserves, C22_dense_preserved). -/
theorem reach_export_inv (P : Params) (o : Oracle) (s s' : State) (hr : Reach P o s s')
    (hc : Conserved s) (hd : Dense s) (hn : (coinIds s).Nodup) (hp : ∀ i ∈ coinIds s, i ≠ 0) (he : CountExact s) :
    Conserved s' ∧ Dense s' ∧ (coinIds s').Nodup ∧ (∀ i ∈ coinIds s', i ≠ 0) ∧ CountExact s' := by
  induction hr with
  | refl s => exact ⟨hc, hd, hn, hp, he⟩
  | step s s1 s2 b t out hdl ha _ ih =>
    have h1 := C01_deliver_conserves P o s s1 b t out hdl ha hc
    obtain ⟨hd1, hn1, _, hnew⟩ := C22_dense_preserved P o s s1 b t out hdl ha hd hn
    have hids := checked_coinIds s s1 out.plan ha
    refine ih h1.1 hd1 hn1 ?_ (deliver_countExact s s1 out.plan ha he)
    intro i hi
    rw [hids, List.mem_append] at hi
    rcases hi with hi | hi
    · exact hp i hi
    · obtain ⟨ci, hci, rfl⟩ := List.mem_map.mp hi
      have := (hnew ci hci).1
      omega

/-- Hence: every state a delivery history reaches from a conserved, dense genesis passes the volume comparisons of the
    validator, as long as no token is staked in it. -/
theorem reach_verifies_volumes (P : Params) (o : Oracle) (s s' : State) (hr : Reach P o s s')
    (hc : Conserved s) (hd : Dense s) (hn : (coinIds s).Nodup) (hp : ∀ i ∈ coinIds s, i ≠ 0) (he : CountExact s)
    (ht : tokensUnstaked s' = true) : volumeChecksPass s' = true := by
  obtain ⟨hc', _, hn', hp', _⟩ := reach_export_inv P o s s' hr hc hd hn hp he
  exact export_verifies_volumes s' hc' hn' (fun ci hm => hp' ci.id (List.mem_map.mpr ⟨ci, hm, rfl⟩)) ht

/-! ### (c) Import ∘ export -/

/-- Field by field: what the import treats as data is stored as given, for every `Recalc` and every state. -/
theorem import_balances (R : Recalc) (s : State) : (importState R s).balances = s.balances := rfl
theorem import_nonces (R : Recalc) (s : State) : (importState R s).nonces = s.nonces := rfl
theorem import_multisigs (R : Recalc) (s : State) : (importState R s).multisigs = s.multisigs := rfl
theorem import_lockStake (R : Recalc) (s : State) : (importState R s).lockStake = s.lockStake := rfl
/-- coins with version, owner, mintable, burnable, max supply, reserve -/
theorem import_coins (R : Recalc) (s : State) : (importState R s).coins = s.coins := rfl
theorem import_waitlist (R : Recalc) (s : State) : (importState R s).waitlist = s.waitlist := rfl
/-- frozen funds with height, candidate key / id and `moveTo` -/
theorem import_frozen (R : Recalc) (s : State) : (importState R s).frozen = s.frozen := rfl
theorem import_pools (R : Recalc) (s : State) : (importState R s).pools = s.pools := rfl
theorem import_orders (R : Recalc) (s : State) : (importState R s).orders = s.orders := rfl
theorem import_usedChecks (R : Recalc) (s : State) : (importState R s).usedChecks = s.usedChecks := rfl
theorem import_halts (R : Recalc) (s : State) : (importState R s).halts = s.halts := rfl
theorem import_cvotes (R : Recalc) (s : State) : (importState R s).cvotes = s.cvotes := rfl
theorem import_uvotes (R : Recalc) (s : State) : (importState R s).uvotes = s.uvotes := rfl
theorem import_blocklist (R : Recalc) (s : State) : (importState R s).blocklist = s.blocklist := rfl
theorem import_deleted (R : Recalc) (s : State) : (importState R s).deleted = s.deleted := rfl
theorem import_commission (R : Recalc) (s : State) : (importState R s).commission = s.commission := rfl
theorem import_slashed (R : Recalc) (s : State) : (importState R s).slashed = s.slashed := rfl
theorem import_maxGas (R : Recalc) (s : State) : (importState R s).maxGas = s.maxGas := rfl
theorem import_emission (R : Recalc) (s : State) : (importState R s).emission = s.emission := rfl
theorem import_price (R : Recalc) (s : State) : (importState R s).price = s.price := rfl
theorem import_versions (R : Recalc) (s : State) : (importState R s).versions = s.versions := rfl

/-- The coin counter after an import is the exported one exactly when it counted the coins (`CountExact`; with C22's `Dense` and
    distinct ids the next id `ncoins + 1` is then fresh on the new chain as well). -/
theorem import_ncoins (R : Recalc) (s : State) (h : CountExact s) : (importState R s).ncoins = s.ncoins := h.symm

/-- `NextOrderID` survives when it is in its exported form: 0 exactly when no pool exists. -/
theorem import_nextOrder (R : Recalc) (s : State) (h : s.nextOrder = 0 ↔ s.pools = []) : (importState R s).nextOrder = s.nextOrder := by
  show (if s.nextOrder > 1 then s.nextOrder else if s.pools.isEmpty then 0 else 1) = s.nextOrder
  by_cases h1 : s.nextOrder > 1
  · simp [h1]
  · simp only [h1, if_false]
    by_cases h0 : s.nextOrder = 0
    · simp [h.mp h0, h0]
    · have : s.pools ≠ [] := fun e => h0 (h.mpr e)
      have h2 : s.pools.isEmpty = false := by simpa using this
      simp only [h2, Bool.false_eq_true, if_false]
      omega

/-- The recalculation finds nothing to recompute in this genesis: no pending updates to apply, bip values and totals current.
    (Where this fails the round trip differs in exactly those derived values: known finding F15.) -/
structure Settled (R : Recalc) (s : State) : Prop where
  cands : R.cands s.candidates = s.candidates
  vals : R.vals s.candidates s.validators = s.validators
  total : R.total s.candidates = s.totalStakes

/-- The derived scalars are in the form an export of a committed state has. -/
structure ImportFixed (s : State) : Prop where
  count : CountExact s
  nextOrder : s.nextOrder = 0 ↔ s.pools = []
  /-- the reward is the reward of the price record (the safe reward is carried by the genesis) -/
  reward : s.reward = priceLast s
  /-- a committed state has an empty fee pool -/
  noFees : s.rewardsPool = 0

/-- **C11 (c).** Import is the identity on a settled exported state. -/
theorem import_id (R : Recalc) (s : State) (hs : Settled R s) (hf : ImportFixed s) : importState R s = s := by
  have h1 := import_nextOrder R s hf.nextOrder
  have h2 := import_ncoins R s hf.count
  -- structure eta: a record updated with its own fields is the record
  have key : ∀ (a : List Candidate) (b : List Validator) (c : Int) (d e : Nat) (f g h : Int),
      a = s.candidates → b = s.validators → c = s.totalStakes → d = s.ncoins → e = s.nextOrder →
      f = s.reward → g = s.safeReward → h = s.rewardsPool →
      ({ s with candidates := a, validators := b, totalStakes := c, ncoins := d, nextOrder := e,
                reward := f, rewardsPool := h } : State) = s := by
    intro a b c d e f g h e1 e2 e3 e4 e5 e6 e7 e8
    subst e1 e2 e3 e4 e5 e6 e7 e8
    rfl
  exact key _ _ _ _ _ _ s.safeReward _ hs.cands hs.vals hs.total h2 h1 hf.reward.symm rfl hf.noFees.symm

theorem priceLast_export (s : State) : priceLast (exportState s) = priceLast s := rfl

theorem importFixed_export (s : State) (hf : ImportFixed s) : ImportFixed (exportState s) where
  count := by
    have := hf.count
    unfold CountExact at *
    simp only [exportState, sortBy_length]
    exact this
  nextOrder := by
    have := hf.nextOrder
    simp only [exportState, sortBy_eq_nil]
    exact this
  reward := hf.reward
  noFees := hf.noFees

/-- **C11 (c), with the canonical order.** `importState (exportState s) = exportState s`. -/
theorem import_export_id (R : Recalc) (s : State) (hs : Settled R (exportState s)) (hf : ImportFixed s) :
    importState R (exportState s) = exportState s :=
  import_id R (exportState s) hs (importFixed_export s hf)

/-- The invariant monitors the harness evaluates on real exports (`Q wellformed`) contain `ImportFixed`. -/
theorem wellFormed_importFixed (s : State) (h : wellFormed s = .ok ()) : ImportFixed s := by
  rw [wellFormed_ok_iff] at h
  simp only [exportInvariants, List.forall_mem_cons] at h
  obtain ⟨_, _, _, _, _, _, _, _, _, _, _, _, _, efee, _, ecount, _, _, _, _, _, _, _, _, _, _, _, _, _, _, _, enext, erew, _⟩ := h
  simp only [Bool.and_eq_true, beq_iff_eq] at efee ecount enext erew
  refine ⟨ecount, ?_, erew, efee⟩
  have h2 := enext.2
  constructor
  · intro h0
    have : s.pools.isEmpty = true := by rw [← h2]; simp [h0]
    simpa using this
  · intro hp
    have : (s.nextOrder == 0) = true := by rw [h2]; simp [hp]
    simpa using this

/-- Boundary of (c) = known finding F15: a recalculation that applies pending stake updates (no candidate has any afterwards —
    what `RecalculateStakesV2` does) is not the identity on a genesis that carries some, whatever else it does. -/
theorem pending_updates_not_roundtrip (R : Recalc) (s : State)
    (happly : ∀ cd ∈ R.cands s.candidates, cd.updates = [])
    (hpending : ∃ cd ∈ s.candidates, cd.updates ≠ []) :
    importState R s ≠ s := by
  intro h
  have hc : (importState R s).candidates = s.candidates := by rw [h]
  obtain ⟨cd, hcd, hne⟩ := hpending
  have : cd ∈ R.cands s.candidates := by
    have h' : (importState R s).candidates = R.cands s.candidates := rfl
    rw [← h', hc]; exact hcd
  exact hne (happly cd this)

/-- A state whose keyed lists are in canonical order is a fixed point of `exportState`. -/
theorem exportState_idem (s : State)
    (h1 : s.coins.Pairwise (fun a b => (decide (b.id < a.id)) = false))
    (h2 : s.candidates.Pairwise (fun a b => (decide (b.id < a.id)) = false))
    (h3 : s.pools.Pairwise (fun a b => (decide (b.id < a.id)) = false))
    (h4 : s.orders.Pairwise (fun a b => (decide (b.id < a.id)) = false))
    (h5 : s.validators.Pairwise (fun a b => (decide (b.pubkey < a.pubkey)) = false)) :
    exportState s = s := by
  unfold exportState
  rw [sortBy_sorted _ _ h1, sortBy_sorted _ _ h2, sortBy_sorted _ _ h3, sortBy_sorted _ _ h4, sortBy_sorted _ _ h5]

/-! ### (d) -/

/-- **C11 (partial).** For every state `s` (the exported data of a chain at some height) that has the structural invariants,
    the C01 invariant and the C02 monitor:
    1. the genesis passes validation (`verifyState` = the checks of `AppState.Verify()`);
    2. if moreover the recalculation has nothing to recompute and the derived scalars are in exported form, the chain started
       from it holds the same state — every component — and so exports it again, in canonical order as well;
    3. and that re-export passes validation.
    Missing for the full property: (i) behavioural equivalence of the new chain for subsequent transactions — not a theorem;
    bounded by mode `export2` on the real node (twin continuation, responses and exports compared);  (ii) `Settled` is a
    hypothesis: with pending stake updates or stale bip values the import recomputes them (`pending_updates_not_roundtrip`,
    known finding F15 `stake-recalculation-on-import`);  (iii) `ExportInv` / `ImportFixed` are hypotheses for the parts of the
    state the transaction model does not maintain by theorem (`reach_export_inv` covers `Conserved`, distinct non-zero ids and the
    coin counter); the harness evaluates them on every real export (`Q wellformed`, `Q verify`). -/
theorem C11_partial (base : String) (R : Recalc) (s : State)
    (hi : ExportInv base s) (hc : Conserved s) (ha : amountsOk s = true)
    (hf : ImportFixed s) (hs : Settled R s) (hse : Settled R (exportState s)) :
    verifyState base s = .ok ()
    ∧ importState R s = s
    ∧ importState R (exportState s) = exportState s
    ∧ verifyState base (importState R s) = .ok () := by
  have h1 := export_verifies base s hi hc ha
  have h2 := import_id R s hs hf
  exact ⟨h1, h2, import_export_id R s hse hf, by rw [h2]; exact h1⟩

/-- The same from the decidable monitors alone: an export on which `wellFormed` answers `ok` (what mode `export2` asserts for every
    export of the node) and on which the recalculation is settled is accepted by the validator and is a fixed point of the import. -/
theorem C11_partial_monitor (base : String) (R : Recalc) (s : State)
    (hw : wellFormed s = .ok ()) (hb : ∀ ci ∈ s.coins, ci.symbol ≠ base) (hs : Settled R s) :
    verifyState base s = .ok () ∧ importState R s = s ∧ verifyState base (importState R s) = .ok () := by
  have h1 := wellFormed_verifies base s hw hb
  have h2 := import_id R s hs (wellFormed_importFixed s hw)
  exact ⟨h1, h2, by rw [h2]; exact h1⟩

/-! ### Non-vacuity -/

/-- A small exported state: one validator = candidate with a base stake and a custom-coin stake, a token with a locked (frozen)
    part, a pool with an order, a used check. -/
def exGenesis : State :=
  { balances := [((1, 0), 1000), ((1, 7), 400), ((2, 8), 90)],
    nonces := [(1, 3), (2, 0)],
    coins := [{ id := 7, symbol := "TOK", version := 0, volume := 500, reserve := 0, crr := 0, maxSupply := 1000, owner := some 1, mintable := true, burnable := true },
              { id := 8, symbol := "COIN", version := 0, volume := 100, reserve := 50, crr := 50, maxSupply := 1000, owner := some 2, mintable := false, burnable := false }],
    candidates := [{ id := 1, pubkey := 11, owner := 1, reward := 1, control := 1, commission := 10, status := 2, jailedUntil := 0, lastEditCommission := 0,
                     totalBip := 60, stakes := [{ owner := 1, coin := 0, value := 55, bip := 55 }, { owner := 2, coin := 8, value := 10, bip := 5 }], updates := [] }],
    validators := [{ pubkey := 11, totalBip := 60, accum := 0, absent := [] }],
    frozen := [{ height := 100, addr := 1, candKey := none, candId := 0, coin := 7, value := 50, moveTo := 0 }],
    pools := [{ c0 := 0, c1 := 7, id := 1, r0 := 20, r1 := 40 }],
    orders := [{ id := 1, c0 := 0, c1 := 7, isSale := true, v0 := 5, v1 := 10, owner := 1, height := 90 }],
    usedChecks := ["00112233445566778899aabbccddeeff00112233445566778899aabbccddeeff"],
    nextOrder := 2, ncoins := 2, price := "1 1 1 7 false", reward := 7, safeReward := 7 }

def idRecalc : Recalc := { cands := fun c => c, vals := fun _ v => v, total := fun _ => 0 }

-- the interpreter (strings do not reduce in the kernel): the example is accepted, well-formed, and a fixed point of the import
#guard verdict (verifyState "BIP" exGenesis) == "ok"
#guard verdict (wellFormed exGenesis) == "ok"
#guard (diffFields (importState idRecalc exGenesis) exGenesis).isEmpty
-- … and each perturbation is caught by the check it should be caught by
#guard verdict (verifyState "BIP" { exGenesis with frozen := [] }) == "token-volume"
#guard verdict (verifyState "BIP" { exGenesis with validators := [] }) == "no-validators"
#guard verdict (verifyState "BIP" { exGenesis with slashed := -1 }) == "slashed"
#guard verdict (verifyState "TOK" exGenesis) == "base-declared"
#guard verdict (verifyState "BIP" { exGenesis with waitlist := [{ cand := 1, owner := 1, coin := 9, value := 1 }] }) == "waitlist-coin"
#guard verdict (verifyState "BIP" { exGenesis with usedChecks := ["0011"] }) == "check-size"
-- what `Verify()` does not look at: max supply below volume, zero pool reserve (with the volume adjusted), next order id
#guard verdict (verifyState "BIP" { exGenesis with nextOrder := 0 }) == "ok"
#guard verdict (wellFormed { exGenesis with nextOrder := 0 }) == "next-order"

example : Conserved exGenesis := by
  intro c hc
  by_cases h7 : c = 7
  · subst h7; decide
  · by_cases h8 : c = 8
    · subst h8; decide
    · simp [exGenesis, volumeOf, holdings, sumBy, Bag.sumIf, candHoldings, stakeOf, poolHoldings, orderEscrow]
      omega

example : (coinIds exGenesis).Nodup ∧ (∀ ci ∈ exGenesis.coins, ci.id ≠ 0) ∧ tokensUnstaked exGenesis = true ∧ amountsOk exGenesis = true := by
  decide

example : volumeChecksPass exGenesis = true := by decide

example : Settled idRecalc { exGenesis with totalStakes := 0 } := ⟨rfl, rfl, rfl⟩

/-- F15 is not vacuous either: a genesis with a pending update and a recalculation that applies it. -/
example : importState { idRecalc with cands := fun cs => cs.map (fun cd => { cd with updates := [] }) }
      { exGenesis with candidates := exGenesis.candidates.map (fun cd => { cd with updates := [{ owner := 2, coin := 0, value := 1, bip := 1 }] }) }
    ≠ { exGenesis with candidates := exGenesis.candidates.map (fun cd => { cd with updates := [{ owner := 2, coin := 0, value := 1, bip := 1 }] }) } := by
  apply pending_updates_not_roundtrip
  · intro cd hcd
    simp only [List.mem_map] at hcd
    obtain ⟨_, _, rfl⟩ := hcd
    rfl
  · exact ⟨_, List.mem_cons_self, by simp⟩

end Genesis
end Minter
