import MinterModel.Tx
import MinterProofs.Moves
/-
  C04 — A signed transaction takes effect at most once and only in order.
  C03 (nonce part) and C26 (after success) share these lemmas.
-/
namespace Minter

theorem multisigCheck_go_ne_zero (ms : Multisig) (rest : List (Option Addr)) (used : List Addr) (w : Nat) :
    multisigCheck.go ms rest used w ≠ some 0 := by
  induction rest generalizing used w with
  | nil => simp only [multisigCheck.go]; split <;> simp
  | cons x r ih =>
    cases x with
    | none => simp [multisigCheck.go]
    | some a =>
      simp only [multisigCheck.go]
      split
      · simp
      · exact ih _ _

theorem multisigCheck_ne_zero (s : State) (t : TxIn) : multisigCheck s t ≠ some 0 := by
  unfold multisigCheck
  split
  · simp
  · split
    · simp
    · exact multisigCheck_go_ne_zero _ _ _ _

/-- The prologue never answers "rejected with code 0". -/
theorem prologueF_ne_zero (P : Params) (s : State) (b : Nat) (t : TxIn) (fl : Nat) : prologueF P s b t fl ≠ some 0 := by
  unfold prologueF
  repeat' split
  all_goals try simp
  next c heq =>
    intro h0; subst h0
    split at heq
    · exact multisigCheck_ne_zero s t heq
    · cases heq

theorem prologue_ne_zero (P : Params) (s : State) (b : Nat) (t : TxIn) : prologue P s b t ≠ some 0 :=
  prologueF_ne_zero P s b t 0

/-- What an accepted prologue guarantees: decodable, right chain, valid signature(s), and **nonce = stored + 1**. -/
theorem prologueF_none (P : Params) (s : State) (b : Nat) (t : TxIn) (fl : Nat) (h : prologueF P s b t fl = none) :
    t.dec = true ∧ t.chain = P.chain ∧ t.sigOk = true ∧ nonceOf s t.sender + 1 = t.nonce ∧
    (t.sigType = 2 → multisigCheck s t = none) ∧ fl ≤ t.gasPrice := by
  unfold prologueF at h
  repeat' split at h
  all_goals first | cases h | skip
  all_goals simp_all
  all_goals omega

theorem prologue_none (P : Params) (s : State) (b : Nat) (t : TxIn) (h : prologue P s b t = none) :
    t.dec = true ∧ t.chain = P.chain ∧ t.sigOk = true ∧ nonceOf s t.sender + 1 = t.nonce ∧
    (t.sigType = 2 → multisigCheck s t = none) := by
  have := prologueF_none P s b t 0 h
  exact ⟨this.1, this.2.1, this.2.2.1, this.2.2.2.1, this.2.2.2.2.1⟩

end Minter

namespace Minter

theorem tickerBurn_noNonce (s : State) (t : TxIn) (burn : List Move) (tg : List (String × String))
    (h : tickerBurn s t = .ok (burn, tg)) : burn.any Move.isSetNonce = false := by
  unfold tickerBurn at h
  split at h
  · simp only at h
    split at h
    · cases h; rfl
    · split at h
      · cases h
      · cases h; rfl
      · split at h
        · cases h; rfl
        · cases h; simp [Move.isSetNonce]
  · cases h; rfl

theorem successOutcome_ok (s : State) (t : TxIn) (r out : Outcome) (h : successOutcome s t r = .ok out) :
    ∃ burn, out.code = 0 ∧ r.moves.any Move.isSetNonce = false ∧ burn.any Move.isSetNonce = false ∧ out.moves = successMoves t r burn ∧
    (successMoves t r burn).all (Move.debitOk t.sender t.issuer) = true ∧ freshIdsOk s (successMoves t r burn) = true := by
  unfold successOutcome at h
  split at h
  · cases h
  · next burn btags hb =>
    split at h
    · cases h
    · next hbn =>
      split at h
      · cases h
      · next hd =>
        split at h
        · cases h
        · next hn =>
          split at h
          · cases h
          · next hfr =>
            cases h
            exact ⟨burn, rfl, by simpa using hn, by simpa using hbn, rfl, by simpa using hd, by simpa using hfr⟩

theorem failureOutcome_ok (P : Params) (o : Oracle) (s : State) (t : TxIn) (code : Nat) (out : Outcome)
    (h : failureOutcome P o s t code = .ok out) :
    out.code ≠ 0 ∧ out.moves.all Move.isFee = true ∧ out.moves.all (Move.debitOk t.sender t.issuer) = true := by
  unfold failureOutcome at h
  split at h
  · next f _ =>
    split at h
    · cases h
    · next hc =>
      split at h
      · cases h
      · next hf =>
        split at h
        · cases h
        · next hd => cases h; exact ⟨by simpa using hc, by simpa using hf, by simpa using hd⟩
  · cases h

theorem checkSwapQuote_code_ne_zero (r0 r1 vi vo : Int) (b : Bool) (c : Nat) (h : checkSwapQuote r0 r1 vi vo b = .ok (.error c)) : c ≠ 0 := by
  unfold checkSwapQuote at h
  split at h
  · split at h
    · cases h
    · cases h; decide
    · split at h
      · cases h; decide
      · cases h
  · split at h
    · cases h
    · cases h; decide
    · next x _ =>
      by_cases hx : x < (if vo = 0 then 1 else vo)
      · simp only [hx, if_true] at h; cases h; decide
      · simp only [hx, if_false] at h; cases h

theorem toBase_code_ne_zero (s : State) (a : Int) (c : Nat) (h : toBase s a = .ok (.error c)) : c ≠ 0 := by
  unfold toBase at h
  split at h
  · cases h
  · split at h
    · cases h
    · split at h
      · cases h
      · exact checkSwapQuote_code_ne_zero _ _ _ _ _ _ h

theorem basePrice_code_ne_zero (s : State) (t : TxIn) (c : Nat) (h : basePrice s t = .ok (.error c)) : c ≠ 0 := by
  unfold basePrice at h
  simp only at h
  split at h
  · cases h; decide
  split at h
  · cases h
  · split at h
    · cases h
    · next c' hb => cases h; exact toBase_code_ne_zero _ _ _ hb
    · split at h
      · cases h; decide
      · cases h

/-- Either a rejection (non-zero code, fee moves only) or the success shape. -/
theorem deliverBody_shape (P : Params) (o : Oracle) (s : State) (b : Nat) (t : TxIn) (out : Outcome)
    (h : deliverBody P o s b t = .ok out) :
    (out.code ≠ 0 ∧ out.moves.all Move.isFee = true ∧ out.moves.all (Move.debitOk t.sender t.issuer) = true) ∨ (∃ r, successOutcome s t r = .ok out) := by
  unfold deliverBody at h
  split at h
  · cases h
  · next c hb => cases h; left; exact ⟨basePrice_code_ne_zero s t c hb, rfl, rfl⟩
  · split at h
    · cases h
    · split at h
      · cases h
      · left; exact failureOutcome_ok P o s t _ out h
    · split at h
      · cases h
      · next r _ => right; exact ⟨r, h⟩

/-- **C04 (a).** An accepted transaction has exactly the next nonce of its sender and the network's chain id. -/
theorem C04_accept_in_order (P : Params) (o : Oracle) (s : State) (b : Nat) (t : TxIn) (out : Outcome)
    (h : deliverTx P o s b t = .ok out) (hc : out.code = 0) :
    t.nonce = nonceOf s t.sender + 1 ∧ t.chain = P.chain ∧ t.sigOk = true := by
  unfold deliverTx at h
  split at h
  · next c hp =>
    cases h
    exact absurd (hc ▸ hp) (prologue_ne_zero P s b t)
  · next hp =>
    have := prologue_none P s b t hp
    exact ⟨this.2.2.2.1.symm, this.2.1, this.2.2.1⟩

/-- A rejected transaction makes fee moves only (C03) — in particular it never touches a nonce. -/
theorem C03_reject_fee_only (P : Params) (o : Oracle) (s : State) (b : Nat) (t : TxIn) (out : Outcome)
    (h : deliverTx P o s b t = .ok out) (hc : out.code ≠ 0) : out.moves.all Move.isFee = true := by
  unfold deliverTx at h
  split at h
  · cases h; rfl
  · rcases deliverBody_shape P o s b t out h with hr | ⟨r, hs⟩
    · exact hr.2.1
    · obtain ⟨_, h0, _⟩ := successOutcome_ok s t r out hs
      exact absurd h0 hc

end Minter

namespace Minter

def Prim.isSetNonce : Prim → Bool
  | .setNonce _ _ => true
  | _ => false

theorem apply_nonces (s : State) (p : Prim) (h : p.isSetNonce = false) : (p.apply s).nonces = s.nonces := by
  cases p <;> simp [Prim.isSetNonce] at h <;> simp [Prim.apply]

theorem move_prims_noNonce (m : Move) (h : m.isSetNonce = false) : ∀ p ∈ m.prims, p.isSetNonce = false := by
  intro p hp
  cases m with
  | admin q =>
    simp only [Move.prims] at hp
    split at hp
    · simp only [List.mem_singleton] at hp; subst hp
      cases p <;> simp_all [Move.isSetNonce, Prim.isSetNonce]
    · cases hp
  | transfer a b c v => simp only [Move.prims, List.mem_cons, List.mem_nil_iff, or_false] at hp; rcases hp with h | h <;> subst h <;> rfl
  | mint a c v =>
    simp only [Move.prims] at hp; split at hp
    · cases hp
    · simp only [List.mem_cons, List.mem_nil_iff, or_false] at hp; rcases hp with h | h <;> subst h <;> rfl
  | feeBase payer v => simp only [Move.prims, List.mem_cons, List.mem_nil_iff, or_false] at hp; rcases hp with h | h <;> subst h <;> rfl
  | feeBancor payer c commission inBase =>
    simp only [Move.prims] at hp; split at hp
    · cases hp
    · simp only [List.mem_cons, List.mem_nil_iff, or_false] at hp; rcases hp with h | h | h | h <;> subst h <;> rfl
  | poolSell payer c0 c1 sellsC0 net out burn toRewards dest =>
    cases sellsC0 <;> cases toRewards <;> simp only [Move.prims, Bool.false_eq_true, if_false, if_true] at hp
    all_goals first
      | (split at hp
         · simp only [List.mem_cons, List.mem_nil_iff, or_false] at hp; rcases hp with h | h | h | h <;> subst h <;> rfl
         · cases hp)
      | (simp only [List.mem_cons, List.mem_nil_iff, or_false] at hp; rcases hp with h | h | h | h <;> subst h <;> rfl)
  | createCoin owner ci =>
    simp only [Move.prims] at hp; split at hp
    · cases hp
    · simp only [List.mem_cons, List.mem_nil_iff, or_false] at hp; rcases hp with h | h | h <;> subst h <;> rfl
  | burnTicker v => simp only [Move.prims, List.mem_cons, List.mem_nil_iff, or_false] at hp; rcases hp with h | h <;> subst h <;> rfl

  | bancor a sell sellAmt buy buyAmt bip =>
    simp only [Move.prims, List.mem_append] at hp
    rcases hp with hp | hp <;> split at hp
    · rw [List.mem_singleton] at hp; subst hp; rfl
    · simp only [List.mem_cons, List.mem_nil_iff, or_false] at hp; rcases hp with hq | hq | hq <;> subst hq <;> rfl
    · rw [List.mem_singleton] at hp; subst hp; rfl
    · simp only [List.mem_cons, List.mem_nil_iff, or_false] at hp; rcases hp with hq | hq | hq <;> subst hq <;> rfl
  | delegate a cand coin value wl =>
    cases wl <;> simp only [Move.prims, List.mem_cons, List.mem_nil_iff, or_false] at hp
    · rcases hp with h | h <;> subst h <;> rfl
    · rcases hp with h | h | h <;> subst h <;> rfl
  | unbond a stakeCand coin value wl f =>
    cases wl with
    | none => simp only [Move.prims, List.mem_cons, List.mem_nil_iff, or_false] at hp; rcases hp with h | h <;> subst h <;> rfl
    | some w =>
      simp only [Move.prims] at hp
      split at hp
      · simp only [List.mem_cons, List.mem_nil_iff, or_false] at hp; rcases hp with h | h | h <;> subst h <;> rfl
      · split at hp
        · simp only [List.mem_cons, List.mem_nil_iff, or_false] at hp; rcases hp with h | h | h <;> subst h <;> rfl
        · simp only [List.mem_cons, List.mem_nil_iff, or_false] at hp; rcases hp with h | h <;> subst h <;> rfl
  | lock a f => simp only [Move.prims, List.mem_cons, List.mem_nil_iff, or_false] at hp; rcases hp with h | h <;> subst h <;> rfl
  | declare a cd coin stake => simp only [Move.prims, List.mem_cons, List.mem_nil_iff, or_false] at hp; rcases hp with h | h | h <;> subst h <;> rfl
  | poolCreate a pl lp =>
    simp only [Move.prims] at hp; split at hp
    · cases hp
    · simp only [List.mem_cons, List.mem_nil_iff, or_false] at hp; rcases hp with h | h | h | h | h | h <;> subst h <;> rfl
  | poolMint a c0 c1 a0 a1 lp liq =>
    simp only [Move.prims] at hp; split at hp
    · cases hp
    · simp only [List.mem_cons, List.mem_nil_iff, or_false] at hp; rcases hp with h | h | h | h | h <;> subst h <;> rfl
  | poolBurn a c0 c1 a0 a1 lp liq =>
    simp only [Move.prims] at hp; split at hp
    · cases hp
    · simp only [List.mem_cons, List.mem_nil_iff, or_false] at hp; rcases hp with h | h | h | h | h <;> subst h <;> rfl
  | orderAdd a o => simp only [Move.prims, List.mem_cons, List.mem_nil_iff, or_false] at hp; rcases hp with h | h <;> subst h <;> rfl
  | orderRemove a o => simp only [Move.prims, List.mem_cons, List.mem_nil_iff, or_false] at hp; rcases hp with h | h <;> subst h <;> rfl

theorem checked_nonces (s s' : State) (ps : List Prim) (hn : ∀ p ∈ ps, p.isSetNonce = false)
    (h : applyChecked s ps = some s') : s'.nonces = s.nonces := by
  induction ps generalizing s with
  | nil => simp [applyChecked] at h; subst h; rfl
  | cons p t ih =>
    obtain ⟨_, ht⟩ := applyChecked_cons _ _ _ _ h
    rw [ih _ (fun q hq => hn q (List.mem_cons_of_mem _ hq)) ht, apply_nonces _ _ (hn p (List.mem_cons_self ..))]

theorem planOf_noNonce (ms : List Move) (h : ms.any Move.isSetNonce = false) : ∀ p ∈ planOf ms, p.isSetNonce = false := by
  intro p hp
  simp only [planOf, List.mem_flatMap] at hp
  obtain ⟨m, hm, hpm⟩ := hp
  have : m.isSetNonce = false := by
    simp only [List.any_eq_false] at h
    have := h m hm; simpa using this
  exact move_prims_noNonce m this p hpm

theorem applyChecked_append (s : State) (p q : List Prim) :
    applyChecked s (p ++ q) = (applyChecked s p).bind (fun s1 => applyChecked s1 q) := by
  induction p generalizing s with
  | nil => simp [applyChecked]
  | cons x t ih =>
    simp only [List.cons_append, applyChecked]
    split
    · exact ih _
    · rfl

theorem nonceOf_setNonce (s : State) (a : Addr) (n : Nat) : nonceOf ((Prim.setNonce a n).apply s) a = n := by
  simp [Prim.apply, nonceOf, setAssoc, List.lookup]

theorem nonceOf_setNonce_other (s : State) (a x : Addr) (n : Nat) (h : x ≠ a) :
    nonceOf ((Prim.setNonce a n).apply s) x = nonceOf s x := by
  simp only [Prim.apply, nonceOf, setAssoc, List.lookup]
  have hx : (x == a) = false := by simpa using h
  simp only [hx]
  congr 1
  induction s.nonces with
  | nil => rfl
  | cons e l ih =>
    simp only [List.filter]
    by_cases he : (e.1 == a) = true
    · have : (x == e.1) = false := by
        simp only [beq_iff_eq] at he; subst he; simpa using h
      simp [he, List.lookup, this, ih]
    · simp only [Bool.not_eq_true] at he
      simp only [he, Bool.not_false, List.lookup]
      split <;> simp_all

/-- **C04 (b) / C03.** After an accepted transaction the sender's nonce is exactly the transaction's nonce (old + 1)
    and nobody else's nonce moved; after a rejected one no nonce moved at all. -/
theorem C04_nonce_effect (P : Params) (o : Oracle) (s s' : State) (b : Nat) (t : TxIn) (out : Outcome)
    (h : deliverTx P o s b t = .ok out) (ha : applyChecked s out.plan = some s') :
    (out.code = 0 → nonceOf s' t.sender = nonceOf s t.sender + 1 ∧ ∀ x, x ≠ t.sender → nonceOf s' x = nonceOf s x) ∧
    (out.code ≠ 0 → ∀ x, nonceOf s' x = nonceOf s x) := by
  constructor
  · intro hc
    have hord := C04_accept_in_order P o s b t out h hc
    unfold deliverTx at h
    split at h
    · next c hp => cases h; exact absurd (hc ▸ hp) (prologue_ne_zero P s b t)
    · rcases deliverBody_shape P o s b t out h with hr | ⟨r, hs⟩
      · exact absurd hc hr.1
      · obtain ⟨burn, _, hnn, hbn, hm, _⟩ := successOutcome_ok s t r out hs
        have hplan : out.plan = planOf (r.moves ++ burn) ++ [Prim.setNonce t.sender t.nonce] := by
          simp [Outcome.plan, hm, successMoves, planOf, Move.prims, Prim.isAdmin]
        rw [hplan, applyChecked_append] at ha
        cases h1 : applyChecked s (planOf (r.moves ++ burn)) with
        | none => simp [h1] at ha
        | some s1 =>
          simp only [h1, Option.bind_some, applyChecked] at ha
          split at ha
          · cases ha
            have hn1 : s1.nonces = s.nonces := by
              apply checked_nonces s s1 _ _ h1
              apply planOf_noNonce
              simp [List.any_append, hnn, hbn]
            constructor
            · rw [nonceOf_setNonce]; omega
            · intro x hx
              rw [nonceOf_setNonce_other _ _ _ _ hx]
              simp [nonceOf, hn1]
          · cases ha
  · intro hc x
    have hf := C03_reject_fee_only P o s b t out h hc
    have : ∀ p ∈ out.plan, p.isSetNonce = false := by
      apply planOf_noNonce
      simp only [List.any_eq_false]
      intro m hm
      have := List.all_eq_true.mp hf m hm
      cases m <;> simp_all [Move.isFee, Move.isSetNonce]
    have := checked_nonces s s' out.plan this ha
    simp [nonceOf, this]

/-- **C04 (c) / C26 (after success).** Once a transaction was accepted, the same bytes — or any transaction of that sender
    whose nonce is not above the stored one — are rejected by the nonce (or an earlier) check, at no cost and with no effect. -/
theorem C04_replay_rejected (P : Params) (o : Oracle) (s : State) (b : Nat) (t : TxIn)
    (hstale : t.nonce ≤ nonceOf s t.sender) :
    ∃ c, c ≠ 0 ∧ deliverTx P o s b t = .ok { code := c, moves := [], tags := [] } := by
  unfold deliverTx
  cases hp : prologue P s b t with
  | some c => exact ⟨c, fun h0 => prologue_ne_zero P s b t (h0 ▸ hp), rfl⟩
  | none =>
    have := (prologue_none P s b t hp).2.2.2.1
    omega

end Minter
