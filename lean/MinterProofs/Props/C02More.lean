import MinterProofs.AmountsStake
import MinterProofs.AmountsOrders
import MinterProofs.AmountsBancor
import MinterProofs.AmountsPool
import MinterProofs.AmountsBegin
import MinterProofs.AmountsRoute
import MinterProofs.AmountsRouteBuy
import MinterProofs.AmountsRouteIds
/-
  C02 — no negative amounts, volume ≤ max supply, pool reserves positive: the wider theorems (all transaction types and BeginBlock).

  The invariant is `AmountsOk` (Props/C02.lean), the Prop form of the monitor `amountsOk` the driver evaluates on the node's export at
  every commit (`amountsOk_sound : amountsOk s = true → AmountsOk s`).  Every theorem is about `deliverTx` / `beginBlock` /
  `applyChecked` as defined in MinterModel — no handler is redefined — and holds for ALL states, transactions and oracles that meet
  the stated hypotheses.

  ## What is proved
  * `planSafe_preserves` (MinterProofs/AmountsCore.lean) — the core lemma: checked application of a plan preserves `AmountsOk` when every
    primitive satisfies its guard `PrimSafe` in the state it is applied to (`PrimSafe`: the value written is in range; decidable).
  * `fee_preserves` (AmountsFee.lean) — the commission payment `payCommission`, all three routes: base coin (`fee_base`), bancor coin under
    `OracleSound` (`fee_bancor`, via `calcCommission_sound`), swap pool `{gas, base}` by the kernel theorem `buyForSell_K` (`fee_pool`,
    `pairSell_planSafe`) — given the balance check the handler made; the state it leaves is described by `FeeFrame`.
  * `C02_failure_fee` (AmountsFail.lean) — the failure path of DeliverTx for ALL 37 types: prologue / price rejections (no move) and the
    failure fee of a handler rejection, all three routes, capped at the payer's balance or not.
  * `C02_deliver_preserves_all_modelled` (below) — EVERY delivery `deliverTx` answers, all 37 types (1–18, 20–38), accepted with the
    commission paid by any of the three routes (ticker burn and nonce bump included) or rejected, under the record `DeliverHyps`.
    It is assembled from
      `C02_deliver_preserves_32_types`  1 Send, 2 SellCoin, 3 SellAllCoin, 4 BuyCoin, 5 CreateCoin, 6 DeclareCandidacy, 7 Delegate, 8 Unbond,
                                        9 RedeemCheck, 10/11 SetCandidateOn/Off, 12 CreateMultisig, 13 Multisend, 14 EditCandidate,
                                        15 SetHaltBlock, 16 RecreateCoin, 17 EditCoinOwner, 18 EditMultisig, 20 EditCandidatePublicKey,
                                        26 EditCandidateCommission, 27 MoveStake, 28 MintToken, 29 BurnToken, 30 CreateToken,
                                        31 RecreateToken, 32 VoteCommission, 33 VoteUpdate, 34 CreateSwapPool, 35 AddLimitOrder,
                                        36 RemoveLimitOrder, 37 LockStake, 38 Lock
      `C02_add_liquidity` (21), `C02_remove_liquidity` (22)   also with the commission swapped through the very pool concerned (`sim_eq_real`)
      `C02_sell_pool` (23), `C02_sell_all_pool` (25), `C02_buy_pool` (24)   routes of up to five coins over pools without orders
    (the five types of `C02_partial_1_13_17_28_29` are thereby covered with custom-coin commissions too).
  * `C02_begin_preserves`, `C02_begin_preserves_no_evidence` — `beginBlock`: absence accounting, byzantine slashes, matured funds.

  ## Coverage table (type × commission route)
      all 37 types, accepted                   base ✔   bancor ✔ (OracleSound)   pool ✔
      all 37 types, rejected / failure fee     base ✔   bancor ✔                 pool ✔
      BeginBlock                               ✔ (with the coverage hypothesis `byzPhaseFits` when the block carries evidence)
      EndBlock (rewards, validator set)        NOT covered here (C19 has the payout part)
    "Pool" always means a pool without limit orders: where a swap or a commission would cross a pool that carries orders the model does
    not answer (`Stop.unmodelled`), so `deliverTx … = .ok out` cannot hold and the theorems say nothing — NOT covered.
    Not covered means: bound only by the monitor `amountsOk` on the node's export at every commit and by the model/node correspondence.

  ## Hypotheses, and why each is there
    `OracleSound o`        the float bonding-curve answers are in their envelope (Props/C02.lean; what C12's certificates give).
    `0 ≤ P.minReserve`, `0 ≤ P.minOrderVolume`   parameters of the network (10 000 BIP, 10¹⁰ pip).
    `TxNonneg t`           decoded amounts are not negative — RLP cannot encode a negative integer.
    `StateWf s`            three facts about reachable states that `AmountsOk` does not contain:
        candidate ids identify candidates (Unbond / MoveStake address the stake by candidate id),
        burnable coins have no reserve (BurnToken of the bancor-paid gas coin would otherwise lower the volume twice),
        price-table entries are not negative (the failure fee in a bancor coin asks the oracle for `saleAmount` of it).
    `pool34`, `supply21`   the pool token's supply stays within the maximal coin supply.  Neither the model's handlers nor the Go
        handlers check this (`Coins.AddVolume` / `CreateCoin` are called unconditionally); it cannot fail while supply² ≤ r0·r1 and coin
        volumes ≤ 10³³ pip, which is beyond `AmountsOk`.
    `lock22`               the sender holds less of the pool token than its whole supply (1000 units are locked at the zero address).
    `PoolsSorted` (21–25), `CoinIdsWf` (22)   pools are stored with `c0 < c1`; coin ids identify registry entries.
        (That no pool of a route is crossed twice is PROVED from the handlers' duplicate-pool check 710: `routeSellCheck_ids`, `routeBuyCheck_ids`.)
    `byzPhaseFits` (BeginBlock with evidence)   every slash is covered by the volume of the coin it is taken from — a consequence of
        conservation (volume = holdings, C01/C18), not of `AmountsOk`.
-/
namespace Minter

/-- Decoded amounts are not negative (RLP has no negative integers). -/
structure TxNonneg (t : TxIn) : Prop where
  value : 0 ≤ t.int "d.Value"
  stake : 0 ≤ t.int "d.Stake"
  items : ∀ it ∈ parseMultisend (t.str "d.List"), 0 ≤ it.2.2
  check : ∀ k, t.check = some k → 0 ≤ k.value
  valueToSell : 0 ≤ t.int "d.ValueToSell"
  valueToBuy : 0 ≤ t.int "d.ValueToBuy"
  volume0 : 0 ≤ t.int "d.Volume0"
  volume1 : 0 ≤ t.int "d.Volume1"

/-- Facts about reachable states the handlers rely on that are not part of `AmountsOk`. -/
structure StateWf (s : State) : Prop where
  candIds : CandIdsWf s
  burnable : BurnableNoReserve s
  prices : PricesNonneg s

/-- The transaction types whose success path is covered. -/
def c02Types : List Nat :=
  [1, 2, 3, 4, 5, 6, 7, 8, 9, 10, 11, 12, 13, 14, 15, 16, 17, 18, 20, 26, 27, 28, 29, 30, 31, 32, 33, 34, 35, 36, 37, 38]

/-- What every covered handler established, per type. -/
theorem c02_typed (P : Params) (o : Oracle) (s : State) (b : Nat) (t : TxIn) (price : Int) (rd : Ready)
    (ho : OracleSound o) (hP : 0 ≤ P.minReserve) (hPo : 0 ≤ P.minOrderVolume) (hwf : StateWf s) (htx : TxNonneg t)
    (hpool : t.typ = 34 → startingSupply (t.int "d.Volume0") (t.int "d.Volume1") ≤ P.maxSupply)
    (hok : AmountsOk s) (ht : t.typ ∈ c02Types) (hp : 0 ≤ price)
    (h : runData P o s b t price = .ok (.ok rd)) : Checked P o s price rd ∧ BodySafe s rd := by
  by_cases hset : t.typ ∈ settingsTypes
  · obtain ⟨hck, hadm⟩ := settings_spec P o s b t price rd hset h
    refine ⟨hck, ?_⟩
    intro s1 adj body tags _ _ he
    exact admin_moves_planSafe s1 body (hadm adj body tags he)
  · simp only [settingsTypes, List.mem_cons, List.mem_nil_iff, or_false, not_or] at hset
    simp only [c02Types, List.mem_cons, List.mem_nil_iff, or_false] at ht
    unfold runData at h
    rcases ht with e | e | e | e | e | e | e | e | e | e | e | e | e | e | e | e | e | e | e | e | e | e | e | e | e | e | e | e | e | e | e | e <;>
      first
        | (exfalso; omega)
        | (rw [e] at h; simp only at h)
    · exact send_typed P o s t price rd htx.value h
    · exact sellCoin_typed P o s t price rd ho hP htx.valueToSell h
    · exact sellAllCoin_typed P o s t price rd ho hP h
    · exact buyCoin_typed P o s t price rd ho hP htx.valueToBuy h
    · exact createCoin_typed P o s t price rd hP h
    · exact declare_typed P o s b t price rd htx.stake h
    · exact delegate_typed P o s t price rd h
    · exact unbond_typed P o s b t price rd hok hwf.candIds htx.value h
    · exact redeem_typed P o s b t price rd htx.check h
    · exact multisend_typed P o s t price rd htx.items h
    · exact recreateCoin_typed P o s t price rd hP h
    · exact moveStake_typed P o s b t price rd hok hwf.candIds htx.value h
    · exact mint_typed P o s t price rd ho hP hok hp htx.value h
    · exact burn_typed P o s t price rd hwf.burnable htx.value h
    · exact createToken_typed P o s t price rd h
    · exact recreateToken_typed P o s t price rd h
    · exact createPool_typed P o s t price rd htx.volume0 htx.volume1 (hpool e) h
    · exact addOrder_typed P o s b t price rd hPo h
    · exact removeOrder_typed P o s b t price rd hok h
    · exact lock_typed P o s b t price rd htx.value h

/-- **C02 (transaction level).**  Every delivery of one of the 32 covered types — accepted with the commission paid by any route, or
    rejected (failure fee or not) — and every rejected delivery of ANY type preserves `AmountsOk`. -/
theorem C02_deliver_preserves_32_types (P : Params) (o : Oracle) (s s' : State) (b : Nat) (t : TxIn) (out : Outcome)
    (ho : OracleSound o) (hP : 0 ≤ P.minReserve) (hPo : 0 ≤ P.minOrderVolume) (hwf : StateWf s) (htx : TxNonneg t)
    (hpool : t.typ = 34 → startingSupply (t.int "d.Volume0") (t.int "d.Volume1") ≤ P.maxSupply)
    (ht : t.typ ∈ c02Types ∨ out.code ≠ 0)
    (h : deliverTx P o s b t = .ok out) (ha : applyChecked s out.plan = some s')
    (hok : AmountsOk s) : AmountsOk s' := by
  by_cases h0 : out.code = 0
  · rcases ht with ht | ht
    · exact typed_preserves P o s s' b t out ho hP
        (fun price rd hp hr => c02_typed P o s b t price rd ho hP hPo hwf htx hpool hok ht hp hr) h h0 ha hok
    · exact absurd h0 ht
  · exact C02_failure_fee P o s s' b t out ho hP hwf.prices h h0 ha hok

/-! ### AddLiquidity (21), RemoveLiquidity (22) -/

/-- **C02 (AddLiquidity, every commission route — also through the very pool the liquidity goes to).**
    `hsupply`: the pool-token supply after the mint stays within the token's maximal supply — neither the model's handler nor the Go
    handler checks it (`AddLiquidityDataV1.Run` calls `Coins.AddVolume` unconditionally); it follows from supply² ≤ r0·r1 and
    volumes ≤ 10³³ pip, which are not part of `AmountsOk`. -/
theorem C02_add_liquidity (P : Params) (o : Oracle) (s s' : State) (b : Nat) (t : TxIn) (out : Outcome)
    (ho : OracleSound o) (hP : 0 ≤ P.minReserve) (hsorted : PoolsSorted s) (hv0 : 0 ≤ t.int "d.Volume0")
    (hsupply : ∀ a c0 c1 a0 a1 lp liq, Move.poolMint a c0 c1 a0 a1 lp liq ∈ out.moves →
      optProp (getCoin s lp) fun ci => ci.volume + liq ≤ ci.maxSupply)
    (ht : t.typ = 21) (h : deliverTx P o s b t = .ok out) (h0 : out.code = 0) (ha : applyChecked s out.plan = some s')
    (hok : AmountsOk s) : AmountsOk s' := by
  obtain ⟨price, rd, paid, body, tags, s1, s2, hp, hr, hpay, he, h1, h2, hfin, hmem⟩ := deliver_stages2 P o s s' b t out h h0 ha
  rw [(runData_liq P o s b t price).1 ht] at hr
  obtain ⟨hck, hbody⟩ := addLiquidity_typed P o s t price rd ho hP hok hp hsorted hv0 (by
    intro paid' body' tags' hpay' he' a c0 c1 a0 a1 lp liq hm
    rw [hpay] at hpay'
    injection hpay' with hpay'
    subst hpay'
    rw [he] at he'
    injection he' with he'
    injection he' with hb' _
    subst hb'
    exact hsupply a c0 c1 a0 a1 lp liq (hmem _ hm)) hr
  obtain ⟨hok1, hfr⟩ := fee_stage P o s s1 price rd paid ho hP hok hp hck hpay h1
  exact hfin (planSafe_preserves s1 s2 _ (hbody s1 paid body tags hpay hfr hok1 he) hok1 h2)

/-- **C02 (RemoveLiquidity, every commission route).**
    `hlock`: the sender holds less of the pool token than its whole supply — the 1000 units minted to the zero address at pool creation
    can never move; with them in place the reserves stay strictly positive. -/
theorem C02_remove_liquidity (P : Params) (o : Oracle) (s s' : State) (b : Nat) (t : TxIn) (out : Outcome)
    (ho : OracleSound o) (hP : 0 ≤ P.minReserve) (hsorted : PoolsSorted s) (hcoins : CoinIdsWf s)
    (hlock : ∀ lp, lpCoin s (t.nat "d.Coin0") (t.nat "d.Coin1") = some lp → balanceOf s t.sender lp.id < lp.volume)
    (ht : t.typ = 22) (h : deliverTx P o s b t = .ok out) (h0 : out.code = 0) (ha : applyChecked s out.plan = some s')
    (hok : AmountsOk s) : AmountsOk s' :=
  typed_preservesP P o s s' b t out ho hP
    (fun price rd hp hr => by
      rw [(runData_liq P o s b t price).2 ht] at hr
      exact removeLiquidity_typed P o s t price rd ho hp hok hsorted hcoins hlock hr) h h0 ha hok

/-! ### SellSwapPool (23), SellAllSwapPool (25) -/

/-- **C02 (SellSwapPool, routes of up to five coins over pools without orders, every commission route).**
    No pool is crossed twice: the handler's duplicate-pool check (code 710) refuses a pool id it has seen, and the same pair of coins
    has the same pool id (`routeSellCheck_ids`, `routeDistinct_of_ids`); so every hop runs on reserves nobody touched before it and is
    paid from what the previous hop credited (`routeSell_keeps`). -/
theorem C02_sell_pool (P : Params) (o : Oracle) (s s' : State) (b : Nat) (t : TxIn) (out : Outcome)
    (ho : OracleSound o) (hP : 0 ≤ P.minReserve) (hsorted : PoolsSorted s) (hv : 0 ≤ t.int "d.ValueToSell")
    (ht : t.typ = 23) (h : deliverTx P o s b t = .ok out) (h0 : out.code = 0) (ha : applyChecked s out.plan = some s')
    (hok : AmountsOk s) : AmountsOk s' :=
  typed_preservesK P o s s' b t out ho hP
    (fun price rd _ hr => by
      rw [(runData_typ P o s b t price).1 ht] at hr
      have hspec := sell_pool_spec P o s t price rd hr
      simp only at hspec
      obtain ⟨com, x, _, hcheck, _⟩ := hspec
      exact sellPool_typed P o s t price rd hok hsorted hv
        (routeDistinct_of_ids s hsorted _ _ (routeSellCheck_ids s _ _ _ _ _ _ _ _ hcheck).1) hr) h h0 ha hok

/-- **C02 (SellAllSwapPool).** -/
theorem C02_sell_all_pool (P : Params) (o : Oracle) (s s' : State) (b : Nat) (t : TxIn) (out : Outcome)
    (ho : OracleSound o) (hP : 0 ≤ P.minReserve) (hsorted : PoolsSorted s)
    (ht : t.typ = 25) (h : deliverTx P o s b t = .ok out) (h0 : out.code = 0) (ha : applyChecked s out.plan = some s')
    (hok : AmountsOk s) : AmountsOk s' :=
  typed_preservesK P o s s' b t out ho hP
    (fun price rd _ hr => by
      rw [(runData_typ P o s b t price).2.2.1 ht] at hr
      have hspec := sell_all_pool_spec P o s t price rd hr
      simp only at hspec
      obtain ⟨com, x, _, _, hcheck, _⟩ := hspec
      exact sellAllPool_typed P o s t price rd hok hsorted
        (routeDistinct_of_ids s hsorted _ _ (routeSellCheck_ids s _ _ _ _ _ _ _ _ hcheck).1) hr) h h0 ha hok

/-- **C02 (BuySwapPool).**  The moves of a buy route are executed from the last pool backwards, so between two moves the buyer may owe
    the coin the next move hands him; the final state is in range (`routeBuy_keeps`: the invariant is `AmountsOk` of the state with the
    debt credited back, the last debt is covered by the balance check of the handler, `routeBuyExec_le_check`). -/
theorem C02_buy_pool (P : Params) (o : Oracle) (s s' : State) (b : Nat) (t : TxIn) (out : Outcome)
    (ho : OracleSound o) (hP : 0 ≤ P.minReserve) (hsorted : PoolsSorted s)
    (ht : t.typ = 24) (h : deliverTx P o s b t = .ok out) (h0 : out.code = 0) (ha : applyChecked s out.plan = some s')
    (hok : AmountsOk s) : AmountsOk s' :=
  typed_preservesK P o s s' b t out ho hP
    (fun price rd _ hr => by
      rw [(runData_typ P o s b t price).2.1 ht] at hr
      have hspec := buy_pool_spec P o s t price rd hr
      simp only at hspec
      obtain ⟨com, x, _, hcheck, _⟩ := hspec
      exact buyPool_typed P o s t price rd hok hsorted
        (routeDistinct_of_ids_rev s hsorted _ _ (routeBuyCheck_ids P s _ _ _ _ _ _ _ _ hcheck).1) hr) h h0 ha hok

/-! ### All transaction types together -/

theorem runData_modelled (P : Params) (o : Oracle) (s : State) (b : Nat) (t : TxIn) (price : Int) (r : Except Nat Ready)
    (h : runData P o s b t price = .ok r) : t.typ ∈ modelledTypes := by
  unfold runData at h
  split at h <;> first | (cases h; done) | (simp only [modelledTypes, *]; decide)

/-- Everything the per-type theorems need, in one record (each field says which types it is for). -/
structure DeliverHyps (P : Params) (s : State) (t : TxIn) (out : Outcome) : Prop where
  wf : StateWf s
  tx : TxNonneg t
  /-- pools are stored with `c0 < c1` (types 21–25). -/
  sorted : PoolsSorted s
  /-- coin ids identify registry entries (type 22). -/
  coinIds : CoinIdsWf s
  /-- 34: the pool token's initial supply is within the maximal coin supply. -/
  pool34 : t.typ = 34 → startingSupply (t.int "d.Volume0") (t.int "d.Volume1") ≤ P.maxSupply
  /-- 21: the pool token's supply after the mint is within its maximal supply. -/
  supply21 : t.typ = 21 → ∀ a c0 c1 a0 a1 lp liq, Move.poolMint a c0 c1 a0 a1 lp liq ∈ out.moves →
    optProp (getCoin s lp) fun ci => ci.volume + liq ≤ ci.maxSupply
  /-- 22: the sender holds less of the pool token than its whole supply (1000 units are locked). -/
  lock22 : t.typ = 22 → ∀ lp, lpCoin s (t.nat "d.Coin0") (t.nat "d.Coin1") = some lp → balanceOf s t.sender lp.id < lp.volume

/-- **C02, every delivery the model answers.**  Whatever `deliverTx` answers — any of the 37 transaction types, accepted with the
    commission paid by any route or rejected with or without the failure fee — applying its plan preserves `AmountsOk`. -/
theorem C02_deliver_preserves_all_modelled (P : Params) (o : Oracle) (s s' : State) (b : Nat) (t : TxIn) (out : Outcome)
    (ho : OracleSound o) (hP : 0 ≤ P.minReserve) (hPo : 0 ≤ P.minOrderVolume) (hh : DeliverHyps P s t out)
    (h : deliverTx P o s b t = .ok out) (ha : applyChecked s out.plan = some s') (hok : AmountsOk s) : AmountsOk s' := by
  by_cases h0 : out.code = 0
  swap
  · exact C02_failure_fee P o s s' b t out ho hP hh.wf.prices h h0 ha hok
  obtain ⟨_, price, rd, _, _, hr, _, _⟩ := deliver_accepted P o s b t out h h0
  have hm := runData_modelled P o s b t price _ hr
  by_cases h32 : t.typ ∈ c02Types
  · exact C02_deliver_preserves_32_types P o s s' b t out ho hP hPo hh.wf hh.tx hh.pool34 (Or.inl h32) h ha hok
  · simp only [modelledTypes, c02Types, List.mem_cons, List.mem_nil_iff, or_false] at hm h32
    have h5 : t.typ = 21 ∨ t.typ = 22 ∨ t.typ = 23 ∨ t.typ = 24 ∨ t.typ = 25 := by omega
    rcases h5 with e | e | e | e | e
    · exact C02_add_liquidity P o s s' b t out ho hP hh.sorted hh.tx.volume0 (hh.supply21 e) e h h0 ha hok
    · exact C02_remove_liquidity P o s s' b t out ho hP hh.sorted hh.coinIds (hh.lock22 e) e h h0 ha hok
    · exact C02_sell_pool P o s s' b t out ho hP hh.sorted hh.tx.valueToSell e h h0 ha hok
    · exact C02_buy_pool P o s s' b t out ho hP hh.sorted e h h0 ha hok
    · exact C02_sell_all_pool P o s s' b t out ho hP hh.sorted e h h0 ha hok

/-! ### BeginBlock -/

/-- **C02 for BeginBlock.**  `beginBlock` preserves `AmountsOk` under the oracle envelope, provided every byzantine slash is covered by
    the volume of the coin it is taken from (`byzPhaseFits`, stated on the state the evidence loop starts from).  That coverage is a
    consequence of conservation (C01/C18: a coin's volume equals its holdings, of which the slashed frozen funds and stakes are part) and
    is not part of `AmountsOk`; it is carried as a hypothesis.  Without evidence in the block (`r.byz = []`) it is `True`. -/
theorem C02_begin_preserves (P : Params) (o : Oracle) (s s' : State) (r : BeginReq) (grace : Bool) (ev : List BEvent)
    (ho : OracleSound o)
    (hfit : ∀ sA evA, absencePhase P r.height grace r.votes { s with rewardsPool := 0 } = .ok (sA, evA) → byzPhaseFits P o r.height r.byz sA)
    (h : beginBlock P o s r grace = .ok (s', ev)) (hok : AmountsOk s) : AmountsOk s' := by
  unfold beginBlock at h
  split at h
  · cases h
  · next sA evA hA =>
    split at h
    · cases h
    · next sB evB hB =>
      split at h
      · cases h
      · next sC evC hC =>
        cases h
        have hok0 : AmountsOk { s with rewardsPool := 0 } := { hok with balances := hok.balances }
        have hokA := absencePhase_ok P r.height grace r.votes _ sA evA hA hok0
        have hokB := byzPhase_ok P o r.height ho r.byz sA sB evB (hfit sA evA hA) hB hokA
        exact maturityPhase_ok P.unbond r.height sB _ evC hC hokB

/-- Without evidence of misbehaviour the coverage hypothesis is empty. -/
theorem C02_begin_preserves_no_evidence (P : Params) (o : Oracle) (s s' : State) (r : BeginReq) (grace : Bool) (ev : List BEvent)
    (ho : OracleSound o) (hb : r.byz = []) (h : beginBlock P o s r grace = .ok (s', ev)) (hok : AmountsOk s) : AmountsOk s' :=
  C02_begin_preserves P o s s' r grace ev ho (fun _ _ _ => by rw [hb]; trivial) h hok

/-! ### Non-vacuity

  A sound oracle exists, a well-formed state exists, and on it the interpreter accepts a Send whose commission is paid in a bancor coin,
  one whose commission goes through a pool, and charges a failure fee in a bancor coin — each time from and to states that satisfy the
  monitor. -/

/-- An oracle inside the envelope (it answers only questions about non-negative volumes and reserves). -/
def c02Oracle : Oracle := fun q =>
  match q with
  | .saleAmount vol res _ want => if 0 ≤ vol ∧ 0 ≤ want ∧ want ≤ res then some (if want ≤ vol then want else vol) else none
  | .saleReturn vol res _ sell => if 0 ≤ res ∧ 0 ≤ sell ∧ sell ≤ vol then some (if sell ≤ res then sell else res) else none
  | .purchaseReturn _ _ _ d => if 0 ≤ d then some d else none
  | .purchaseAmount _ _ _ w => if 0 ≤ w then some w else none

theorem c02Oracle_sound : OracleSound c02Oracle := by
  refine ⟨?_, ?_, ?_⟩
  · intro q v h
    cases q <;> simp only [c02Oracle] at h <;> split at h <;> (try (cases h; done)) <;> (injection h with h; subst h) <;> (try split) <;> omega
  · intro vol res crr sell v h _ _
    simp only [c02Oracle] at h
    split at h
    · injection h with h; subst h; split <;> omega
    · cases h
  · intro vol res crr want v h _ _
    simp only [c02Oracle] at h
    split at h
    · injection h with h; subst h; split <;> omega
    · cases h

theorem pricesOk_of_all (s : State) (h : ∀ e ∈ s.commission, 0 ≤ e.2) : PricesNonneg s := by
  intro k
  unfold priceOf
  generalize s.commission = l at h
  induction l with
  | nil => simp [List.lookup]
  | cons e t ih =>
    obtain ⟨k', v⟩ := e
    simp only [List.lookup]
    split
    · exact h (k', v) (List.mem_cons_self ..)
    · exact ih (fun x hx => h x (List.mem_cons_of_mem _ hx))

/-- Coin 7 is a bancor coin (reserve 30 000 BIP), coin 8 a token with a pool against the base coin. -/
def c02State2 : State :=
  { balances := [((1, 0), 1000000000000000000000), ((1, 7), 1000000000000000000000), ((1, 8), 1000000000000000000000)],
    coins := [{ id := 7, symbol := "BANCOR", version := 0, volume := 1000000000000000000000000, reserve := 30000000000000000000000, crr := 50,
                maxSupply := 1000000000000000000000000000, owner := some 1, mintable := false, burnable := false },
              { id := 8, symbol := "TOKEN", version := 0, volume := 2000000000000000000000000, reserve := 0, crr := 0,
                maxSupply := 1000000000000000000000000000, owner := some 1, mintable := true, burnable := true }],
    pools := [{ c0 := 0, c1 := 8, id := 1, r0 := 1000000000000000000000000, r1 := 1000000000000000000000000 }],
    ncoins := 8,
    commission := [("send", 10000000000000000), ("payload_byte", 2000000000000000), ("failed_tx", 10000000000000000)] }

theorem c02State2_wf : StateWf c02State2 := by
  refine ⟨?_, ?_, pricesOk_of_all _ ?_⟩
  · intro cd h; simp [c02State2] at h
  · intro ci h hb
    simp only [c02State2, List.mem_cons, List.mem_nil_iff, or_false] at h
    rcases h with rfl | rfl
    · cases hb
    · rfl
  · intro e h
    simp only [c02State2, List.mem_cons, List.mem_nil_iff, or_false] at h
    rcases h with rfl | rfl | rfl <;> decide

/-- Send of 200 pip of coin 7 with the commission paid in coin 7 (bancor route). -/
def c02TxBancor : TxIn :=
  { dec := true, rawLen := 100, typ := 1, nonce := 1, chain := 2, gasPrice := 1, gasCoin := 7, sigType := 1, sigOk := true, sender := 1,
    f := [("d.Coin", "7"), ("d.To", "02"), ("d.Value", "200")] }
/-- The same with the commission paid in coin 8 through the pool {8, base}. -/
def c02TxPool : TxIn := { c02TxBancor with gasCoin := 8 }
/-- A Send of more than the sender holds: rejected with code 107, failure fee in coin 7. -/
def c02TxFail : TxIn := { c02TxBancor with f := [("d.Coin", "7"), ("d.To", "02"), ("d.Value", "2000000000000000000000")] }

/-- `TxNonneg` as a Boolean, for the examples (decoding the fields needs string evaluation, so this is checked by `#guard`). -/
def txNonnegB (t : TxIn) : Bool :=
  decide (0 ≤ t.int "d.Value") && decide (0 ≤ t.int "d.Stake") && (parseMultisend (t.str "d.List")).all (fun it => decide (0 ≤ it.2.2))
  && (match t.check with | some k => decide (0 ≤ k.value) | none => true)
  && decide (0 ≤ t.int "d.ValueToSell") && decide (0 ≤ t.int "d.ValueToBuy") && decide (0 ≤ t.int "d.Volume0") && decide (0 ≤ t.int "d.Volume1")

theorem txNonnegB_sound (t : TxIn) (h : txNonnegB t = true) : TxNonneg t := by
  simp only [txNonnegB, Bool.and_eq_true, decide_eq_true_eq, List.all_eq_true] at h
  obtain ⟨⟨⟨⟨⟨⟨⟨h1, h2⟩, h3⟩, h4⟩, h5⟩, h6⟩, h7⟩, h8⟩ := h
  refine ⟨h1, h2, h3, ?_, h5, h6, h7, h8⟩
  intro k hk
  rw [hk] at h4
  simpa using h4

#guard txNonnegB c02TxBancor && txNonnegB c02TxPool && txNonnegB c02TxFail

def c02Runs (t : TxIn) (code : Nat) (feeMoves : Nat) : Bool :=
  amountsOk c02State2 &&
  (match deliverTx {} c02Oracle c02State2 10200001 t with
   | .ok out => out.code == code && out.moves.length == feeMoves &&
       (match applyChecked c02State2 out.plan with | some s1 => amountsOk s1 | none => false)
   | .error _ => false)

#guard c02Runs c02TxBancor 0 3     -- feeBancor, transfer, nonce
#guard c02Runs c02TxPool 0 3       -- poolSell to the fee pool, transfer, nonce
#guard c02Runs c02TxFail 107 1     -- the failure fee alone

/-- The guard of the core lemma is decidable: the plan of the bancor-paid Send is safe step by step. -/
example : PlanSafe c02State2
    [.addVolume 7 (-10000000000000000), .addReserve 7 (-10000000000000000), .addBal 1 7 (-10000000000000000), .addRewards 10000000000000000,
     .addBal 1 7 (-200), .addBal 2 7 200, .setNonce 1 1] := by decide
/-- … and an overdraft is not. -/
example : ¬ PlanSafe c02State2 [.addBal 1 7 (-1000000000000000000001)] := by decide

/-- BeginBlock on a state with a frozen fund due now (credited to its owner), one due later and a missing vote. -/
def c02BeginState : State :=
  { c02State2 with
    frozen := [{ height := 100, addr := 1, candKey := none, candId := 0, coin := 7, value := 5, moveTo := 0 },
               { height := 200, addr := 1, candKey := none, candId := 0, coin := 7, value := 6, moveTo := 0 }],
    validators := [{ pubkey := 9, totalBip := 10, accum := 3, absent := List.replicate 24 false, tmAddr := 77 }] }

#guard amountsOk c02BeginState &&
  (match beginBlock {} c02Oracle c02BeginState { height := 100, votes := [(77, false)], byz := [] } false with
   | .ok (s1, _) => amountsOk s1 && s1.frozen.length == 1 && balanceOf s1 1 7 == 1000000000000000000005
   | .error _ => false)

/-- The example state with the pool token of pool 1 registered (coin 9, symbol `LP-1`; 1000 units at the zero address). -/
def c02State3 : State :=
  { c02State2 with
    balances := c02State2.balances ++ [((1, 9), 999999999999999999999000), ((0, 9), 1000)],
    coins := c02State2.coins ++ [{ id := 9, symbol := "LP-1", version := 0, volume := 1000000000000000000000000, reserve := 0, crr := 0,
                                   maxSupply := 1000000000000000000000000000000000, owner := none, mintable := true, burnable := true }],
    ncoins := 9 }

def c02PoolTx (typ : Nat) (gas : Coin) (f : List (String × String)) : TxIn :=
  { dec := true, rawLen := 100, typ := typ, nonce := 1, chain := 2, gasPrice := 1, gasCoin := gas, sigType := 1, sigOk := true, sender := 1, f := f }

def c02Runs3 (t : TxIn) : Bool :=
  amountsOk c02State3 &&
  (match deliverTx {} c02Oracle c02State3 10200001 t with
   | .ok out => out.code == 0 && (match applyChecked c02State3 out.plan with | some s1 => amountsOk s1 | none => false)
   | .error _ => false)

-- AddLiquidity, RemoveLiquidity, SellSwapPool, BuySwapPool, SellAllSwapPool are accepted on it, from and to states the monitor accepts
#guard c02Runs3 (c02PoolTx 21 0 [("d.Coin0", "0"), ("d.Coin1", "8"), ("d.Volume0", "1000000"), ("d.MaximumVolume1", "2000000")])
#guard c02Runs3 (c02PoolTx 22 0 [("d.Coin0", "0"), ("d.Coin1", "8"), ("d.Liquidity", "500000"), ("d.MinimumVolume0", "1"), ("d.MinimumVolume1", "1")])
#guard c02Runs3 (c02PoolTx 23 0 [("d.Coins", "8,0"), ("d.ValueToSell", "1000000"), ("d.MinimumValueToBuy", "1")])
#guard c02Runs3 (c02PoolTx 24 0 [("d.Coins", "0,8"), ("d.ValueToBuy", "1000000"), ("d.MaximumValueToSell", "5000000")])
#guard c02Runs3 (c02PoolTx 25 8 [("d.Coins", "8,0"), ("d.MinimumValueToBuy", "1")])

end Minter
