import MinterModel.Tx
import MinterProofs.TxLemmas
import MinterProofs.Props.C26
/-
  C21 — A check pays out at most once, only to the holder of its password.

  The cryptographic facts are oracle values carried on the transaction (`k.*`, computed by the node's own functions in
  harness/decode.go): the decoded check fields, the issuer recovered from the check's signature, the public key recovered from
  the check's `Lock` (`LockPubKey`), the public key recovered from the proof over `keccak(rlp[redeemer])`, and the check hash.

  * `redeem_conditions`  an accepted redemption ⇒ gas price 1, check decodes, chain id matches, nonce ≤ 16 bytes, issuer recovers,
                         both coins exist, tx gas coin = check gas coin, **block ≤ dueBlock** (the code rejects `due < block`: the due
                         block itself is still valid), hash not yet used, the proof recovers to the lock key, and the issuer can pay
                         value + commission;
  * `redeem_effect`      the moves of an accepted redemption: the commission paid by the ISSUER in the gas coin, the hash marked used,
                         `value` of the check's coin from the issuer to the redeemer, the redeemer's nonce;
  * `redeem_marks_used`  after the plan the hash is in the used set;
  * `used_mono` / `reach_used_mono`  the used set only grows, under every primitive / along every delivery history;
  * `redeem_once`        a check whose hash is used is rejected by any redemption (any redeemer, any later state): never accepted again.
-/
namespace Minter

/-- The validated form of a redemption. -/
structure RedeemOk (P : Params) (s : State) (block : Nat) (t : TxIn) (k : CheckIn) (issuer : Addr) (com : Com) : Prop where
  gasPrice : t.gasPrice = 1
  decodes : t.check = some k
  chain : k.chain = P.chain
  nonceLen : k.nonceLen ≤ 16
  issuerRecovers : k.issuer = some issuer
  coin : coinExists s k.coin = true
  gasCoinExists : coinExists s k.gasCoin = true
  gasCoin : t.gasCoin = k.gasCoin
  notExpired : block ≤ k.due
  notUsed : s.usedChecks.contains k.hash = false
  lockRecovers : k.lock ≠ "bad" ∧ k.lock ≠ "nil" ∧ k.lock ≠ ""
  proofMatchesLock : k.lock = k.proofPub
  funds : (k.coin = k.gasCoin → k.value + com.commission ≤ balanceOf s issuer k.coin) ∧
          (k.coin ≠ k.gasCoin → k.value ≤ balanceOf s issuer k.coin ∧ com.commission ≤ balanceOf s issuer k.gasCoin)

/-- **C21 (conditions).** What the handler checked before it validated a redemption, and what it will execute. -/
theorem redeem_conditions (P : Params) (o : Oracle) (s : State) (block : Nat) (t : TxIn) (price : Int) (rd : Ready)
    (h : runRedeemCheck P o s block t price = .ok (.ok rd)) :
    ∃ k issuer com, RedeemOk P s block t k issuer com ∧ calcCommission P o s t.gasCoin price = .ok (.ok com) ∧
      rd.payer = issuer ∧ rd.coin = t.gasCoin ∧ rd.com = com ∧ rd.minOut = 0 ∧
      ∀ adj, rd.exec adj = .ok ([.admin (.useCheck k.hash), .transfer issuer t.sender k.coin k.value], []) := by
  unfold runRedeemCheck at h
  by_cases h1 : (listLen (t.str "d.RawCheck") == 0) = true
  · rw [if_pos h1] at h; cases h
  rw [if_neg h1] at h
  by_cases h2 : (t.gasPrice != 1) = true
  · rw [if_pos h2] at h; cases h
  rw [if_neg h2] at h
  cases hk : t.check with
  | none => rw [hk] at h; cases h
  | some k =>
    rw [hk] at h
    simp only at h
    by_cases h3 : (k.chain != P.chain) = true
    · rw [if_pos h3] at h; cases h
    rw [if_neg h3] at h
    by_cases h4 : k.nonceLen > 16
    · rw [if_pos h4] at h; cases h
    rw [if_neg h4] at h
    cases hiss : k.issuer with
    | none => rw [hiss] at h; cases h
    | some issuer =>
      rw [hiss] at h
      simp only at h
      by_cases h5 : (!coinExists s k.coin) = true
      · rw [if_pos h5] at h; cases h
      rw [if_neg h5] at h
      by_cases h6 : (!coinExists s k.gasCoin) = true
      · rw [if_pos h6] at h; cases h
      rw [if_neg h6] at h
      by_cases h7 : (t.gasCoin != k.gasCoin) = true
      · rw [if_pos h7] at h; cases h
      rw [if_neg h7] at h
      by_cases h8 : k.due < block
      · rw [if_pos h8] at h; cases h
      rw [if_neg h8] at h
      by_cases h9 : s.usedChecks.contains k.hash = true
      · rw [if_pos h9] at h; cases h
      rw [if_neg h9] at h
      by_cases h10 : (k.lock == "bad" || k.lock == "nil" || k.lock == "") = true
      · rw [if_pos h10] at h; cases h
      rw [if_neg h10] at h
      by_cases h11 : (k.proofPub == "bad" || k.proofPub == "") = true
      · rw [if_pos h11] at h; cases h
      rw [if_neg h11] at h
      by_cases h12 : (k.lock != k.proofPub) = true
      · rw [if_pos h12] at h; cases h
      rw [if_neg h12] at h
      obtain ⟨com, hcom, hk2⟩ := withCom_ready P o s t.gasCoin price _ rd h
      by_cases hf1 : (k.coin == k.gasCoin && decide (balanceOf s issuer k.coin < k.value + com.commission)) = true
      · rw [if_pos hf1] at hk2; cases hk2
      rw [if_neg hf1] at hk2
      by_cases hf2 : (k.coin != k.gasCoin && decide (balanceOf s issuer k.coin < k.value)) = true
      · rw [if_pos hf2] at hk2; cases hk2
      rw [if_neg hf2] at hk2
      by_cases hf3 : (k.coin != k.gasCoin && decide (balanceOf s issuer k.gasCoin < com.commission)) = true
      · rw [if_pos hf3] at hk2; cases hk2
      rw [if_neg hf3] at hk2
      cases hk2
      refine ⟨k, issuer, com, ?_, hcom, rfl, rfl, rfl, rfl, fun _ => rfl⟩
      simp only [Bool.or_eq_true, beq_iff_eq, not_or] at h10
      simp only [Bool.and_eq_true, beq_iff_eq, bne_iff_ne, ne_eq, decide_eq_true_eq, not_and, Int.not_lt] at hf1 hf2 hf3
      exact {
        gasPrice := by simpa using h2
        decodes := hk
        chain := by simpa using h3
        nonceLen := by omega
        issuerRecovers := hiss
        coin := by simpa using h5
        gasCoinExists := by simpa using h6
        gasCoin := by simpa using h7
        notExpired := by omega
        notUsed := by simpa using h9
        lockRecovers := ⟨h10.1.1, h10.1.2, h10.2⟩
        proofMatchesLock := by simpa using h12
        funds := ⟨fun e => hf1 e, fun e => ⟨hf2 e, hf3 e⟩⟩ }

/-- Only type 9 dispatches to the redemption handler. -/
theorem runData_redeem (P : Params) (o : Oracle) (s : State) (b : Nat) (t : TxIn) (price : Int) (h : t.typ = 9) :
    runData P o s b t price = runRedeemCheck P o s b t price := by
  unfold runData; rw [h]; rfl

/-- **C21 (effect).** An accepted RedeemCheck makes exactly these moves: the commission — computed by `CalculateCommission` in the
    check's gas coin — paid by the ISSUER; the check hash marked used; `value` of the check's coin from the issuer to the redeemer;
    the redeemer's nonce.  All the acceptance conditions hold. -/
theorem redeem_effect (P : Params) (o : Oracle) (s : State) (b : Nat) (t : TxIn) (out : Outcome)
    (ht : t.typ = 9) (h : deliverTx P o s b t = .ok out) (h0 : out.code = 0) :
    ∃ k issuer com paid price, RedeemOk P s b t k issuer com ∧
      basePrice s t = .ok (.ok price) ∧ calcCommission P o s t.gasCoin price = .ok (.ok com) ∧
      payCommission s issuer t.gasCoin com 0 = .ok paid ∧ paid.amount = com.commission ∧
      out.moves = paid.moves ++ [.admin (.useCheck k.hash), .transfer issuer t.sender k.coin k.value] ++ [.admin (.setNonce t.sender t.nonce)] := by
  obtain ⟨_, price, rd, r, hb, hr, hx, hs⟩ := deliver_accepted P o s b t out h h0
  rw [runData_redeem P o s b t price ht] at hr
  obtain ⟨k, issuer, com, hok, hcom, hp, hc, hcm, hmin, hexec⟩ := redeem_conditions P o s b t price rd hr
  obtain ⟨paid, body, tags, hpay, he, _, hmoves, _⟩ := execReady_ok s rd r hx
  rw [hp, hc, hcm, hmin] at hpay
  rw [hexec] at he
  cases he
  obtain ⟨burn, btags, hbn, _, hm, _⟩ := successOutcome_burn s t r out hs
  rw [tickerBurn_other s t (by omega) (by omega)] at hbn
  cases hbn
  refine ⟨k, issuer, com, paid, price, hok, hb, hcom, hpay, (payCommission_shape s issuer t.gasCoin com 0 paid hpay).1, ?_⟩
  rw [hm, successMoves, hmoves]
  simp

/-! ### The used set -/

/-- No primitive ever removes a hash from the used set. -/
theorem used_mono (s : State) (p : Prim) (hash : String) (h : hash ∈ s.usedChecks) : hash ∈ (p.apply s).usedChecks := by
  cases p <;> simp only [Prim.apply] <;> first | exact h | exact List.mem_cons_of_mem _ h

theorem checked_used_mono (s s' : State) (ps : List Prim) (hash : String) (h : hash ∈ s.usedChecks)
    (ha : applyChecked s ps = some s') : hash ∈ s'.usedChecks := by
  induction ps generalizing s with
  | nil => simp [applyChecked] at ha; subst ha; exact h
  | cons p t ih =>
    obtain ⟨_, ht⟩ := applyChecked_cons _ _ _ _ ha
    exact ih _ (used_mono s p hash h) ht

/-- The used set only grows along any delivery history. -/
theorem reach_used_mono (P : Params) (o : Oracle) (s s' : State) (hr : Reach P o s s') (hash : String) (h : hash ∈ s.usedChecks) :
    hash ∈ s'.usedChecks := by
  induction hr with
  | refl s => exact h
  | step s s1 s2 b t out _ ha _ ih => exact ih (checked_used_mono s s1 out.plan hash h ha)

theorem useCheck_marks (s s' : State) (pre post : List Prim) (hash : String)
    (ha : applyChecked s (pre ++ [Prim.useCheck hash] ++ post) = some s') : hash ∈ s'.usedChecks := by
  rw [List.append_assoc, applyChecked_append] at ha
  cases h1 : applyChecked s pre with
  | none => simp [h1] at ha
  | some s1 =>
    simp only [h1, Option.bind_some, List.singleton_append, applyChecked] at ha
    split at ha
    · exact checked_used_mono _ s' post hash (by simp [Prim.apply]) ha
    · cases ha

/-- **C21 (marked used).** After an accepted redemption the check's hash is in the used set. -/
theorem redeem_marks_used (P : Params) (o : Oracle) (s s' : State) (b : Nat) (t : TxIn) (out : Outcome)
    (ht : t.typ = 9) (h : deliverTx P o s b t = .ok out) (h0 : out.code = 0) (ha : applyChecked s out.plan = some s') :
    ∃ k, t.check = some k ∧ k.hash ∈ s'.usedChecks := by
  obtain ⟨k, issuer, com, paid, price, hok, _, _, _, _, hm⟩ := redeem_effect P o s b t out ht h h0
  refine ⟨k, hok.decodes, ?_⟩
  have hplan : out.plan = planOf paid.moves ++ [Prim.useCheck k.hash] ++
      (planOf [Move.transfer issuer t.sender k.coin k.value] ++ planOf [Move.admin (.setNonce t.sender t.nonce)]) := by
    simp [Outcome.plan, hm, planOf, Move.prims, Prim.isAdmin]
  rw [hplan] at ha
  exact useCheck_marks s s' _ _ k.hash ha

/-- **C21 (at most once).** A redemption of a check whose hash is in the used set is never accepted — whoever redeems, whatever
    the proof, at any height. -/
theorem redeem_rejected_when_used (P : Params) (o : Oracle) (s : State) (b : Nat) (t : TxIn) (out : Outcome) (k : CheckIn)
    (ht : t.typ = 9) (hk : t.check = some k) (hu : k.hash ∈ s.usedChecks) (h : deliverTx P o s b t = .ok out) : out.code ≠ 0 := by
  intro h0
  obtain ⟨k', _, _, _, _, hok, _⟩ := redeem_effect P o s b t out ht h h0
  have : k' = k := by
    have := hok.decodes; rw [hk] at this; cases this; rfl
  subst this
  have hn := hok.notUsed
  have : s.usedChecks.contains k'.hash = true := by simpa using hu
  rw [this] at hn; cases hn

/-- **C21 (`redeem_once`).** Once a check was redeemed (transaction `t` accepted in `s`, new state `s1`), every later redemption of
    a check with the same hash — by any transaction `t'`, in any state `s2` reachable by further deliveries — is rejected. -/
theorem redeem_once (P : Params) (o : Oracle) (s s1 s2 : State) (b b' : Nat) (t t' : TxIn) (out out' : Outcome) (k k' : CheckIn)
    (ht : t.typ = 9) (h : deliverTx P o s b t = .ok out) (h0 : out.code = 0) (ha : applyChecked s out.plan = some s1)
    (hk : t.check = some k) (hr : Reach P o s1 s2)
    (ht' : t'.typ = 9) (hk' : t'.check = some k') (hsame : k'.hash = k.hash)
    (h' : deliverTx P o s2 b' t' = .ok out') : out'.code ≠ 0 := by
  obtain ⟨k0, hk0, hused⟩ := redeem_marks_used P o s s1 b t out ht h h0 ha
  have : k0 = k := by rw [hk] at hk0; cases hk0; rfl
  subst this
  have hu2 := reach_used_mono P o s1 s2 hr k0.hash hused
  exact redeem_rejected_when_used P o s2 b' t' out' k' ht' hk' (hsame ▸ hu2) h'

/-! Non-vacuity (evaluated by the Lean interpreter: decimal parsing does not reduce in the kernel): a check for 200 pips of the base
    coin issued by address 2 is redeemed by address 1 — accepted, the issuer pays value + commission, the redeemer receives the value —
    and a second redemption of the same check by address 3 is rejected with `CheckUsed` (503). -/
def c21State : State :=
  { balances := [((2, 0), 1000000000000000000000), ((3, 0), 5)],
    commission := [("redeem_check", 10000000000000000), ("failed_tx", 10000000000000000)] }
def c21Fields : List (String × String) :=
  [("d.RawCheck", "f8"), ("k.dec", "1"), ("k.chain", "2"), ("k.noncelen", "4"), ("k.due", "10200005"), ("k.coin", "0"), ("k.value", "200"),
   ("k.gascoin", "0"), ("k.from", "02"), ("k.lock", "04aa"), ("k.proofpub", "04aa"), ("k.hash", "beef")]
def c21Tx : TxIn :=
  { dec := true, rawLen := 200, typ := 9, nonce := 1, chain := 2, gasPrice := 1, sigOk := true, sender := 1, f := c21Fields }
def c21Tx' : TxIn := { c21Tx with sender := 3 }

#guard (match deliverTx {} (fun _ => none) c21State 10200005 c21Tx with
    | .ok out => out.code == 0 && (match applyChecked c21State out.plan with
        | some s1 => balanceOf s1 1 0 == 200 && balanceOf s1 2 0 == 1000000000000000000000 - 200 - 10000000000000000 &&
            s1.usedChecks.contains "beef" &&
            (match deliverTx {} (fun _ => none) s1 10200005 c21Tx' with | .ok o2 => o2.code == 503 | .error _ => false)
        | none => false)
    | .error _ => false)

-- the due block itself is still valid, the block after it is not
#guard (match deliverTx {} (fun _ => none) c21State 10200006 c21Tx with | .ok out => out.code == 502 | .error _ => false)

end Minter
