import MinterModel.Tx
import MinterProofs.Props.C04
/-
  C26 — Each signed transaction is charged at most once.

  What is provable (and proved here, for all states and transactions):
  * `C26_after_success_free`   once a transaction was accepted, delivering the same transaction again in ANY state reachable by
                               further deliveries is rejected by the prologue with no moves at all (nonces only grow);
  * `C26_prologue_reject_free` a delivery rejected in the prologue makes no move (it costs nothing), so repeating it is free;
  * `C26_accepted_at_most_once` along any delivery history a transaction is accepted at most once.

  What is NOT provable because it is false in the code (known finding F4): a transaction that fails *inside the handler* pays the
  failure fee and keeps its nonce, so the same bytes fail again and pay the fee again.  `C26_failed_tx_charged_again` proves this
  negative statement with a concrete witness (a RemoveLimitOrder whose sender cannot afford the commission: two deliveries, two fees).
-/
namespace Minter

/-- States reachable from `s` by delivering transactions (any transactions, at any block heights) and applying their plans. -/
inductive Reach (P : Params) (o : Oracle) : State → State → Prop
  | refl (s : State) : Reach P o s s
  | step (s s1 s2 : State) (b : Nat) (t : TxIn) (out : Outcome) :
      deliverTx P o s b t = .ok out → applyChecked s out.plan = some s1 → Reach P o s1 s2 → Reach P o s s2

/-- One delivery never lowers anybody's nonce. -/
theorem deliver_nonce_mono (P : Params) (o : Oracle) (s s' : State) (b : Nat) (t : TxIn) (out : Outcome)
    (h : deliverTx P o s b t = .ok out) (ha : applyChecked s out.plan = some s') (x : Addr) : nonceOf s x ≤ nonceOf s' x := by
  have h4 := C04_nonce_effect P o s s' b t out h ha
  by_cases hc : out.code = 0
  · have := h4.1 hc
    by_cases hx : x = t.sender
    · subst hx; omega
    · rw [this.2 x hx]; exact Nat.le_refl _
  · rw [h4.2 hc x]; exact Nat.le_refl _

/-- Nonces only grow along any delivery history. -/
theorem reach_nonce_mono (P : Params) (o : Oracle) (s s' : State) (h : Reach P o s s') (x : Addr) : nonceOf s x ≤ nonceOf s' x := by
  induction h with
  | refl s => exact Nat.le_refl _
  | step s s1 s2 b t out hd ha _ ih => exact Nat.le_trans (deliver_nonce_mono P o s s1 b t out hd ha x) ih

/-- **C26 (after success).** Once `t` was accepted in `s` (new state `s1`), delivering the same `t` in any state `s2` reachable from
    `s1` by further deliveries — at any height, under any oracle answers — is rejected with a non-zero code and **no moves**: no fee,
    no state change. -/
theorem C26_after_success_free (P : Params) (o : Oracle) (s s1 s2 : State) (b b' : Nat) (t : TxIn) (out : Outcome)
    (h : deliverTx P o s b t = .ok out) (hc : out.code = 0) (ha : applyChecked s out.plan = some s1)
    (hr : Reach P o s1 s2) :
    ∃ c, c ≠ 0 ∧ deliverTx P o s2 b' t = .ok { code := c, moves := [], tags := [] } := by
  have hn := (C04_nonce_effect P o s s1 b t out h ha).1 hc
  have hord := C04_accept_in_order P o s b t out h hc
  have hm := reach_nonce_mono P o s1 s2 hr t.sender
  apply C04_replay_rejected
  omega

/-- **C26 (prologue rejections are free).** A delivery that the prologue rejects makes no move at all. -/
theorem C26_prologue_reject_free (P : Params) (o : Oracle) (s : State) (b : Nat) (t : TxIn) (c : Nat)
    (hp : prologue P s b t = some c) : deliverTx P o s b t = .ok { code := c, moves := [], tags := [] } := by
  unfold deliverTx; rw [hp]; rfl

/-- **C26 (at most one acceptance).** Along any delivery history, after an acceptance of `t` no later delivery of `t` is accepted. -/
theorem C26_accepted_at_most_once (P : Params) (o : Oracle) (s s1 s2 : State) (b b' : Nat) (t : TxIn) (out out' : Outcome)
    (h : deliverTx P o s b t = .ok out) (hc : out.code = 0) (ha : applyChecked s out.plan = some s1)
    (hr : Reach P o s1 s2) (h' : deliverTx P o s2 b' t = .ok out') : out'.code ≠ 0 ∧ out'.moves = [] := by
  obtain ⟨c, hc0, hd⟩ := C26_after_success_free P o s s1 s2 b b' t out h hc ha hr
  rw [hd] at h'
  cases h'
  exact ⟨hc0, rfl⟩

/-! ### The part of the property that is false in the code (F4) -/

/-- Two consecutive deliveries of the same transaction both rejected *with a fee*, the sender's nonce unchanged. -/
def chargedTwice (P : Params) (o : Oracle) (s : State) (b : Nat) (t : TxIn) : Bool :=
  match deliverTx P o s b t with
  | .ok o1 =>
    o1.code != 0 &&
    (match applyChecked s o1.plan with
     | some s1 =>
       decide (balanceOf s1 t.sender t.comCoin < balanceOf s t.sender t.comCoin) && nonceOf s1 t.sender == nonceOf s t.sender &&
       (match deliverTx P o s1 b t with
        | .ok o2 =>
          o2.code != 0 &&
          (match applyChecked s1 o2.plan with
           | some s2 => decide (balanceOf s2 t.sender t.comCoin < balanceOf s1 t.sender t.comCoin)
           | none => false)
        | .error _ => false)
     | none => false)
  | .error _ => false

theorem chargedTwice_spec (P : Params) (o : Oracle) (s : State) (b : Nat) (t : TxIn) (h : chargedTwice P o s b t = true) :
    ∃ (o1 o2 : Outcome) (s1 s2 : State),
      deliverTx P o s b t = .ok o1 ∧ o1.code ≠ 0 ∧ applyChecked s o1.plan = some s1 ∧
      balanceOf s1 t.sender t.comCoin < balanceOf s t.sender t.comCoin ∧ nonceOf s1 t.sender = nonceOf s t.sender ∧
      deliverTx P o s1 b t = .ok o2 ∧ o2.code ≠ 0 ∧ applyChecked s1 o2.plan = some s2 ∧
      balanceOf s2 t.sender t.comCoin < balanceOf s1 t.sender t.comCoin := by
  unfold chargedTwice at h
  split at h
  · next o1 h1 =>
    simp only [Bool.and_eq_true, bne_iff_ne, ne_eq] at h
    obtain ⟨hc1, h⟩ := h
    split at h
    · next s1 ha1 =>
      simp only [Bool.and_eq_true, decide_eq_true_eq, beq_iff_eq] at h
      obtain ⟨⟨hb1, hn1⟩, h⟩ := h
      split at h
      · next o2 h2 =>
        simp only [Bool.and_eq_true, bne_iff_ne, ne_eq] at h
        obtain ⟨hc2, h⟩ := h
        split at h
        · next s2 ha2 =>
          simp only [decide_eq_true_eq] at h
          exact ⟨o1, o2, s1, s2, h1, hc1, ha1, hb1, hn1, h2, hc2, ha2, h⟩
        · cases h
      · cases h
    · cases h
  · cases h

/-- The witness: 50 base-coin pips, commission 100, failed-transaction fee 10. -/
def f4State : State := { balances := [((1, 0), 50)], commission := [("remove_limit_order", 100), ("failed_tx", 10)] }
def f4Tx : TxIn := { dec := true, rawLen := 100, typ := 36, nonce := 1, chain := 2, gasPrice := 1, sigOk := true, sender := 1 }

set_option maxRecDepth 8000 in
/-- **C26, negative part (F4).** There are a state and a transaction such that the transaction is rejected inside the handler, pays
    the failure fee, keeps its nonce — and the very same transaction delivered again is rejected and pays the fee a second time.
    So "any later delivery after the first is rejected at no cost, whether the first succeeded or failed" does not hold for the code. -/
theorem C26_failed_tx_charged_again :
    ∃ (s : State) (t : TxIn) (o1 o2 : Outcome) (s1 s2 : State),
      deliverTx {} (fun _ => none) s 10200001 t = .ok o1 ∧ o1.code ≠ 0 ∧ applyChecked s o1.plan = some s1 ∧
      balanceOf s1 t.sender t.comCoin < balanceOf s t.sender t.comCoin ∧ nonceOf s1 t.sender = nonceOf s t.sender ∧
      deliverTx {} (fun _ => none) s1 10200001 t = .ok o2 ∧ o2.code ≠ 0 ∧ applyChecked s1 o2.plan = some s2 ∧
      balanceOf s2 t.sender t.comCoin < balanceOf s1 t.sender t.comCoin :=
  ⟨f4State, f4Tx, chargedTwice_spec {} (fun _ => none) f4State 10200001 f4Tx (by decide)⟩

/-! Non-vacuity of the positive part: an accepted Send (the state and transaction of C01). -/
def okState : State :=
  { balances := [((1, 0), 1000000000000000000000)], commission := [("lock_stake", 10000000000000000), ("failed_tx", 10000000000000000)] }
def okTx : TxIn := { dec := true, rawLen := 100, typ := 37, nonce := 1, chain := 2, gasPrice := 1, sigOk := true, sender := 1 }

set_option maxRecDepth 8000 in
example : (match deliverTx {} (fun _ => none) okState 10200001 okTx with
    | .ok out => out.code == 0 && (applyChecked okState out.plan).isSome
    | .error _ => false) = true := by decide

end Minter
