import MinterProofs.C07Deliver
/-
  C07 — No input can crash the node: the TRANSACTION layer of the model (DeliverTx and CheckTx of all 37 transaction types).

  Every place where the Go code panics, dereferences nil or divides by zero is an explicit `Stop.panic site` of the model
  (MinterModel/TxBase … Tx.lean).  This file proves, for ALL states satisfying the decidable invariant `txInvB` (`TxInv`), all oracles
  (NO assumption on the answers of the bonding-curve functions is needed: they only feed response codes and amounts), all blocks and all
  transactions whose decoded integers are non-negative (`TxWf`; RLP cannot encode a negative integer):

      C07_deliver_no_panic_all_types_pools_without_orders :
          deliverTx P o s b t = .error (.panic w)  →  w ∈ modelGuards
      C07_check_no_panic_all_types_pools_without_orders   (the same for checkTx)

  i.e. DeliverTx / CheckTx never stop at a Go panic site.  COVERAGE, precisely:
    * all 37 transaction types (1–18, 20–38), every commission route (base coin, bancor reserve, swap pool {gas coin, BIP}),
      the price conversion from a custom price-table coin, the failure-fee path incl. the fee capped at the payer's balance, the
      ticker burn, and the deliver half (`execReady`: commission payment + `Ready.exec`);
    * swap routes / commissions / price conversions that cross a pool WITH limit orders are outside the model (`Stop.unmodelled
      "orders on …"`, which is not a panic; the order book has its own component: Orders.lean, `Lob.ratInt_eq_ediv`);
    * BuySwapPool (24) under the extra hypothesis `ValueToBuy ≤ 10^33` (see site B6 below);
    * faults INSIDE the four formula functions (oracle questions) are not represented here (C12 component);
    * the eight `model: …` guards (`modelGuards`) are self-checks of the model (see below), not Go panics.
  `TxInv P s ↔ txInvB P s = true` (`txInv_iff`; MinterModel/TxInv.lean, evaluated by the driver on every committed state:
  `VIOL C07 tx-invariant-broken <clause>`): `amountsOk` (C02 monitor: nothing negative, pool reserves > 0), pools stored with sorted
  coin ids and reserves ≤ 10^33, no negative price-table entry, a custom price-table coin has its pool with BIP, every pool has its
  `LP-<id>` token with a positive supply.  Two of the sites below were REACHABLE IN THE REAL NODE when this file was written and are
  closed by fixes in /repo made because of it (C3: abd6676, A3: 19af872); the model carries the same two guards.

  ┌────┬──────────────────────────────────────────────────┬──────────────────────────────────────────────────────────┬───────────────────────────────────────────────┐
  │ id │ model site (`Stop.panic …` / `Quote.panic`)       │ Go site it stands for (/repo/coreV2/…)                    │ status                                        │
  ├────┼──────────────────────────────────────────────────┼──────────────────────────────────────────────────────────┼───────────────────────────────────────────────┤
  │ A1 │ TxBase `checkSwapQuote` .panic w (2×)              │ state/swap/orderV2.go:317, :492 `panic(err)` after         │ unreachable: `checkSwapQuote_total`           │
  │    │ (= Kernels `bfsNoOrders`/`sfbNoOrders` .panic)     │ `pair.CheckSwap` in calculate{BuyForSell,SellForBuy}WithOrders │ (C07_quote_no_panic; reserves > 0, amount ≥ 0)│
  │ A2 │ TxBase `toBase` "price-table coin without a pool" │ transaction/executor_v3.go:187,214 `GetSwapper(Coin,0)` =   │ unreachable: `toBase_total` (TxInv.priceCoinPool; │
  │    │                                                    │ nil pair → nil dereference in CheckSwap                   │ VoteCommission checks the pool, vote_commission_v3.go:117) │
  │ A3 │ negative price into `toBase` (no site of its own:  │ executor_v3.go:179 `tx.Price` = multisend_base+(len−1)·delta│ unreachable SINCE /repo 19af872 (`basePrice` rejects a    │
  │    │ reached A1 / a big.Int division by zero)           │ (multisend.go, *_swap_pool_v260.go CommissionData), computed│ negative price with 119 first): `basePrice_noPanic`.       │
  │    │                                                    │ BEFORE the data is validated                              │ Before it REACHABLE IN THE REAL NODE under a price table   │
  │    │                                                    │                                                            │ with delta > base in a custom coin (finding 2);            │
  │    │                                                    │                                                            │ `C07_quote_panics_on_negative_amount` is the kernel fact   │
  │ B1 │ `pairSellMove` "PairSellWithOrders on a missing pool" │ state/swap/orderV2.go:21-22 `s.Pair()` nil → SellWithOrders │ unreachable: `payCommission_total`, `routeSellExec_noPanic`, `ffCapped_spec` │
  │ B2 │ `pairSellMove` INSUFFICIENT_INPUT_AMOUNT (2×)      │ orderV2.go:84, :88                                        │ unreachable (same theorems): commission ≥ 2 pips (`quote_round_trip`), capped fee has a positive net (`quoteBFS_pos`, fix 7c6bd49), route amounts > 0 │
  │ B3 │ `pairSellMove` .panic w / INSUFFICIENT_OUTPUT_AMOUNT (2×) │ orderV2.go:317, :100                               │ unreachable: the sale repeats the validated quote on the same reserves (`sim_eq_real`) │
  │ B4 │ `pairSellMove` "calculatedAmount1Out less minAmount1Out" │ orderV2.go:24 (minOut = 0; SellAllCoin passes the base-coin price, sell_all_coin.go:187) │ unreachable: `quote_round_trip` — selling the quoted commission returns ≥ the price │
  │ B5 │ `pairBuyMove` missing pool / INSUFFICIENT_INPUT / .panic w / INSUFFICIENT_OUTPUT (2×) │ orderV2.go:45-46, :129, :492, :141 │ unreachable: `routeBuyExec_noPanic` (`pairBuyMove_ok`) │
  │ B6 │ `pairBuyMove` "calculatedAmount1Out less minAmount1Out" │ orderV2.go:47-48 (compares the amount BOUGHT with maxCoinSupply — a coding slip; buy_swap_pool_v260.go:224) │ unreachable for ValueToBuy ≤ 10^33 (hypothesis `hcap`; later hops are bounded by the validation). OPEN above 10^33: needs "reserve + payer balance ≤ max supply" (supply accounting); not reachable in practice (no pool can hold 10^33 pip) │
  │ B7 │ `pairBuyMove` "model: burn of a pool purchase differs from its 0.1 % surcharge" │ — (model self-check)              │ proved dead: `gross_net_cancel`               │
  │ B8 │ `payCommission` "model invariant: base-coin commission differs from its base value" │ — (model self-check)          │ proved dead: `payCommission_total`            │
  │ C1 │ TxStake `bipValue` "calculateBipValue: missing coin" │ state/candidates/candidates.go:990,1019 `coin.Volume` on nil │ unreachable: `bipValue_noPanic` (coin existence is checked first: delegate_v260.go, declare_candidacy.go) │
  │ C2 │ TxStake `bipValue` "calculateBipValue: division by zero" │ candidates.go:1024 `Div(…, totalDelegatedValue)`      │ unreachable: `bipValue_noPanic` (amount > 0 and no negative stake; cf. F8 fixed 9b85d50) │
  │ C3 │ TxStake `unbondMoves` "SubStake on a missing stake" / "… candidate" │ state/candidates/candidates.go:766 → model.go:288 nil.subValue │ unreachable SINCE /repo abd6676: `unbondMoves_noPanic`. Before it REACHABLE IN THE REAL NODE (finding 1: Unbond/MoveStake with Value = 0) │
  │ D1 │ Tx `failFee` "missing commission pool"             │ executor_v3.go:268 CheckSwap on a nil swapper             │ unreachable: `ffCapped_spec` (fromPool ⇒ the pool exists) │
  │ D2 │ Tx `failFee` "missing gas coin"                    │ executor_v3.go:279 `gasCoin.ID()` on nil                  │ unreachable: `ffCapped_spec` (`prologue_coin`: the prologue checked the commission coin) │
  │ E1 │ TxPool `simRes` "GetSwapper on a missing pool"     │ e.g. add_liquidity_v260.go / sell_swap_pool_v260.go `GetSwapper(a,b)` nil │ unreachable: `simRes_noPanic` (pool existence is part of every basicCheck: `routeBasic_chain`) │
  │ E2 │ `simRes` .panic w / "AddLastSwapStepWithOrders with a nil amount" │ state/swap/orderV2.go:1310-1335 (`amount1OutCalc.Cmp` on nil; :317) │ unreachable: `simRes_noPanic` │
  │ E3 │ `runAddLiquidity` / `runRemoveLiquidity` "pool without its LP token" │ add_liquidity_v260.go, remove_liquidity_v240.go `GetCoinBySymbol(LP-id).Volume()` on nil │ unreachable: `lpCoin_of_exists` (TxInv.lp) │
  │ E4 │ `runAddLiquidity` "division by zero" (r0 = 0)      │ state/swap/swapV2.go:835-838 CalculateAddLiquidity `Div(…, reserve0)` │ unreachable: `runAddLiquidity_good` (`sim_eq_real`: simulated reserves are positive) │
  │ E5 │ `runRemoveLiquidity` "division by zero" (supply 0) │ swapV2.go:1044 Amounts `Div(…, totalSupply)`              │ unreachable: `runRemoveLiquidity_good` (TxInv.lp: LP supply > 0) │
  │ E6 │ `addLiquidityExec` missing pool / division by zero / INSUFFICIENT_LIQUIDITY_MINTED │ swapV2.go:610-612, :837, :843 (PairMint, deliver only) │ unreachable: `runAddLiquidity_good` (`addLiquidityExec_ok`: validation = execution since a9a396f) │
  │ E7 │ `removeLiquidityExec` missing pool / INSUFFICIENT_LIQUIDITY_BURNED │ swapV2.go:642-644, :886 (PairBurn, deliver only)   │ unreachable: `runRemoveLiquidity_good` (`removeLiquidityExec_ok`; was F29) │
  │ E8 │ (no model site) PairCreate                         │ swapV2.go:853 Create `liquidity ≤ 1000`, :685 identical coins │ excluded by the validation itself: `runCreatePool` rejects 704 / 301 on the same values, the deliver half is a fixed move │
  │ G  │ Tx `successOutcome` / `failureOutcome` / `deliverBody` "model: …" (8 guards, `modelGuards`) │ — none: consistency checks of the model (unauthorised debit, nonce touched, coin id, failure path answering OK / moving a non-fee) │ model self-checks, NOT Go panics; excluded from the statement. The driver would report any of them as FAULT on every run. │
  └────┴──────────────────────────────────────────────────┴──────────────────────────────────────────────────────────┴───────────────────────────────────────────────┘
-/
namespace Minter

/-- **C07 (DeliverTx, all 37 types, pools without orders).** On a state satisfying `TxInv` no transaction makes `deliverTx` stop at a
    Go panic site: every fault it can raise is `need` (oracle), `unmodelled` (limit orders on the pool / unknown type) or one of the
    model's own `model: …` self-checks. -/
theorem C07_deliver_no_panic_all_types_pools_without_orders (P : Params) (o : Oracle) (s : State) (b : Nat) (t : TxIn)
    (hinv : TxInv P s) (hwf : TxWf t) (hcap : t.typ = 24 → t.int "d.ValueToBuy" ≤ P.maxSupply) :
    ∀ w, deliverTx P o s b t = .error (.panic w) → w ∈ modelGuards := by
  intro w h
  unfold deliverTx at h
  split at h
  · cases h
  · rename_i hpro
    have hcoin := prologue_coin P s b t 0 hpro
    unfold deliverBody at h
    split at h
    · rename_i e he
      cases h
      exact absurd he (basePrice_noPanic hinv t w)
    · cases h
    · rename_i price hbp
      have hp := basePrice_nonneg s t price hbp
      have hg := runData_good hinv o b t hwf price hp hcap
      split at h
      · rename_i e he
        cases h
        exact absurd he (hg.1 w)
      · split at h
        · cases h; simp [modelGuards]
        · exact failureOutcome_free hinv o t _ hcoin w h
      · rename_i rd hrd
        split at h
        · rename_i e he
          cases h
          exact absurd he (execReady_noPanic hinv o price hp rd (hg.2 rd hrd) w)
        · exact successOutcome_free hinv t _ w h

/-- **C07 (CheckTx).** The same for the mempool check (it runs the prologue, the price conversion and the validation half only). -/
theorem C07_check_no_panic_all_types_pools_without_orders (P : Params) (o : Oracle) (s : State) (b : Nat) (t : TxIn) (fl : Nat) (inMempool : Bool)
    (hinv : TxInv P s) (hwf : TxWf t) (hcap : t.typ = 24 → t.int "d.ValueToBuy" ≤ P.maxSupply) :
    ∀ w, checkTx P o s b t fl inMempool = .error (.panic w) → w ∈ modelGuards := by
  intro w h
  unfold checkTx at h
  split at h
  · cases h
  · split at h
    · rename_i e he
      cases h
      exact absurd he (basePrice_noPanic hinv t w)
    · cases h
    · rename_i price hbp
      have hp := basePrice_nonneg s t price hbp
      have hg := runData_good hinv o b t hwf price hp hcap
      split at h
      · rename_i e he
        cases h
        exact absurd he (hg.1 w)
      · split at h
        · cases h; simp [modelGuards]
        · cases h
      · split at h <;> cases h

/-- The prologue (size, decoding, chain id, commission coin, payload, signatures, multisig, nonce) never faults at all. -/
theorem C07_prologue_total (P : Params) (o : Oracle) (s : State) (b : Nat) (t : TxIn) (c : Nat) (h : prologue P s b t = some c) :
    deliverTx P o s b t = .ok { code := c } := by
  unfold deliverTx
  rw [h]
  rfl

/-- The commission of a validated transaction can always be paid: `execReady` gets past `PairSellWithOrders` (statement for the
    handlers' `Ready`, used above; restated here because it is the deliver-only half that CheckTx never exercises). -/
theorem C07_commission_payment_total (P : Params) (o : Oracle) (s : State) (hinv : TxInv P s) (payer : Addr) (gas : Coin) (price : Int)
    (hp : 0 ≤ price) (com : Com) (h : calcCommission P o s gas price = .ok (.ok com)) (minOut : Int) (hmin : minOut ≤ price) :
    ∃ paid, payCommission s payer gas com minOut = .ok paid :=
  payCommission_total hinv payer gas price com minOut ((calcCommission_spec hinv o gas price hp).2 com h) hmin

/-- The failure-fee branch never faults (full fee or the fee capped at the payer's balance, through the reserve or the pool). -/
theorem C07_failure_fee_no_panic (P : Params) (o : Oracle) (s : State) (hinv : TxInv P s) (t : TxIn) (code : Nat)
    (hcoin : coinExists s t.comCoin = true) : ∀ w, failFee P o s t code ≠ .error (.panic w) :=
  failFee_noPanic hinv o t code hcoin

/-! ### Why amounts must be non-negative before they reach the pool kernels (finding 2)

  The hypothesis `0 ≤ a` of `C07_quote_no_panic` cannot be dropped: for a negative amount below minus the reserve the kernel's own swap
  check fails and the node panics (`orderV2.go:317`).  Until /repo 19af872 a negative amount could get there: the price of a
  transaction is computed from its RAW data before the data is validated, so under a price table whose per-item delta exceeds the base
  price (nothing in VoteCommission forbids it) an empty Multisend / a one-coin route has a negative price, and with a table denominated
  in a custom coin that price went through `CheckSwap` of the pool {table coin, BIP}.  `basePrice` (and the node) now reject it first. -/
theorem C07_quote_panics_on_negative_amount :
    quoteBuyForSell 1000 1000 (-5000) = .panic "checkSwap in calculateBuyForSellWithOrders" ∧
    ∃ w, checkSwapQuote 1000 1000 (-5000) 0 false = .error (.panic w) := ⟨by decide, _, by rfl⟩

/-! ### Non-vacuity -/

/-- A state with a bancor coin, a pool {BIP, COINA} with its LP token and a price table. -/
def c07State : State :=
  { balances := [((1, 0), 1000000000000000000000000), ((1, 7), 50000000000000000000000)],
    coins := [{ id := 7, symbol := "COINA", version := 0, volume := 1000000000000000000000000, reserve := 100000000000000000000000, crr := 50,
                maxSupply := 1000000000000000000000000000, owner := some 1, mintable := false, burnable := false },
              { id := 8, symbol := "LP-1", version := 0, volume := 31622776601683, reserve := 0, crr := 0,
                maxSupply := 1000000000000000000000000000000000, owner := none, mintable := true, burnable := true }],
    pools := [{ c0 := 0, c1 := 7, id := 1, r0 := 1000000000000000000000, r1 := 1000000000000000000000 }],
    commission := [("coin", 0), ("send", 10000000000000000), ("multisend_base", 10000000000000000), ("multisend_delta", 5000000000000000),
                   ("sell_pool_base", 100000000000000000), ("sell_pool_delta", 50000000000000000), ("failed_tx", 10000000000000000)],
    ncoins := 8 }

example : txInvB {} c07State = true := by decide
example : TxInv {} c07State := (txInv_iff {} c07State).mpr (by decide)

/-- A Send paying its commission in COINA through the pool: delivered with code 0 (interpreter; `String.toInt?` does not reduce in the
    kernel, so the decoded fields cannot be evaluated by `decide`). -/
def c07Oracle : Oracle := fun q => match q with
  | .saleAmount _ _ _ want => some (want * 20)
  | .saleReturn _ _ _ sell => some (sell / 20)
  | _ => none

def c07Send : TxIn :=
  { dec := true, rawLen := 100, typ := 1, nonce := 1, chain := 2, gasPrice := 1, gasCoin := 7, sigOk := true, sender := 1,
    f := [("d.Coin", "0"), ("d.To", "02"), ("d.Value", "1000000000000000000")] }

#guard (match deliverTx {} c07Oracle c07State 10200001 c07Send with
  | .ok out => out.code == 0 && (applyChecked c07State out.plan).isSome
  | .error _ => false)
-- a failed transaction (unknown coin) pays the failure fee through the same pool
#guard (match deliverTx {} c07Oracle c07State 10200001 { c07Send with f := [("d.Coin", "99"), ("d.To", "02"), ("d.Value", "1")] } with
  | .ok out => out.code == 102 && out.moves.length == 1
  | .error _ => false)
#guard c07Send.f.all (fun e => decide (0 ≤ intD e.2))
-- the monitor is not trivially true: an unsorted pool, a negative price, a missing LP token are reported
#guard txInvBroken {} c07State == []
#guard txInvBroken {} { c07State with pools := [{ c0 := 7, c1 := 0, id := 1, r0 := 5, r1 := 5 }] } == ["pools-sorted-capped"]
#guard txInvBroken {} { c07State with commission := [("send", -1)], coins := [] } == ["price-table", "lp-token"]

end Minter
