import MinterModel.Rules
import Mathlib.Tactic.Linarith
import Mathlib.Tactic.Ring
/-
  C27 — fee formula.
  "A transaction's commission, in price-table terms, equals gas price × (its type's price + payload and service-data bytes ×
   byte price), converted through the pool when the price table is denominated in a custom coin.  A commission paid in a custom
   coin uses the cheaper of the pool route and the bancor-reserve route.  The base-coin value of the commission reaches the
   block's reward pool, except ticker-creation fees, which are burned to the zero address."

  Definitions: `Minter.Rules.{priceOfType, txPriceInTable, commissionInBase, chooseRoute, calcCommissionQ, moveRewards, moveZero}`
  (MinterModel/Rules.lean).  `typePrice_agrees`/`txPrice_agrees` tie them to the definitions the transaction model (Tx.lean) uses.
-/
namespace Minter
namespace Rules

/-! ### The formula -/

/-- **Commission in price-table terms** = gas price × (type price + (payload + service data bytes) × byte price). -/
theorem commission_formula (tb : PriceTable) (gasPrice typ n symLen payloadLen serviceLen : Nat) (v : Int) :
    txPriceInTable tb gasPrice typ n symLen payloadLen serviceLen = some v ↔
      ∃ p, priceOfType tb typ n symLen = some p ∧
        v = (gasPrice : Int) * (p + ((payloadLen : Int) + (serviceLen : Int)) * tb.payloadByte) := by
  unfold txPriceInTable
  cases h : priceOfType tb typ n symLen with
  | none => simp
  | some p =>
    simp only [Option.map_some, Option.some.injEq]
    constructor
    · intro hv; exact ⟨p, rfl, by rw [← hv]; push_cast; ring⟩
    · rintro ⟨p', hp', hv⟩; cases hp'; rw [hv]; push_cast; ring

/-- Exactly the 37 types `GetDataV3` decodes have a price. -/
theorem priceOfType_isSome_iff (tb : PriceTable) (typ n symLen : Nat) :
    (priceOfType tb typ n symLen).isSome = true ↔ 1 ≤ typ ∧ typ ≤ 38 ∧ typ ≠ 19 := by
  unfold priceOfType
  split
  case h_38 =>
    simp only [Option.isSome_none, Bool.false_eq_true, false_iff, imp_false] at *
    omega
  all_goals simp

/-- Multisend: base + (n − 1)·delta for `n` recipients. -/
theorem multisend_price (tb : PriceTable) (n symLen : Nat) :
    priceOfType tb 13 n symLen = some (tb.multisendBase + ((n : Int) - 1) * tb.multisendDelta) := rfl

/-- Pool trades: base + delta·(hops − 1), i.e. `delta·(len(Coins) − 2)`. -/
theorem pool_route_price (tb : PriceTable) (n symLen : Nat) :
    priceOfType tb 23 n symLen = some (tb.sellPoolBase + tb.sellPoolDelta * ((n : Int) - 2)) ∧
    priceOfType tb 24 n symLen = some (tb.buyPoolBase + tb.buyPoolDelta * ((n : Int) - 2)) ∧
    priceOfType tb 25 n symLen = some (tb.sellAllPoolBase + tb.sellAllPoolDelta * ((n : Int) - 2)) := ⟨rfl, rfl, rfl⟩

/-- New coin / token: ticker price by ticker length + `CreateCoin` (the code uses `CreateCoin` for tokens as well). -/
theorem create_price (tb : PriceTable) (n symLen : Nat) :
    priceOfType tb 5 n symLen = some (tickerPriceT tb symLen + tb.createCoin) ∧
    priceOfType tb 30 n symLen = some (tickerPriceT tb symLen + tb.createCoin) := ⟨rfl, rfl⟩

/-- The price grows with the payload when the byte price is not negative. -/
theorem txPrice_mono_payload (tb : PriceTable) (gasPrice typ n symLen p1 p2 serviceLen : Nat) (v1 v2 : Int)
    (hb : 0 ≤ tb.payloadByte) (hle : p1 ≤ p2)
    (h1 : txPriceInTable tb gasPrice typ n symLen p1 serviceLen = some v1)
    (h2 : txPriceInTable tb gasPrice typ n symLen p2 serviceLen = some v2) : v1 ≤ v2 := by
  obtain ⟨q1, hq1, rfl⟩ := (commission_formula ..).mp h1
  obtain ⟨q2, hq2, rfl⟩ := (commission_formula ..).mp h2
  rw [hq1] at hq2; cases hq2
  have hg : (0 : Int) ≤ gasPrice := Int.natCast_nonneg _
  have hp : (p1 : Int) ≤ p2 := by exact_mod_cast hle
  apply Int.mul_le_mul_of_nonneg_left _ hg
  nlinarith

/-- The price is linear in the gas price. -/
theorem txPrice_gas_linear (tb : PriceTable) (g typ n symLen pl svl : Nat) (v : Int)
    (h : txPriceInTable tb 1 typ n symLen pl svl = some v) :
    txPriceInTable tb g typ n symLen pl svl = some ((g : Int) * v) := by
  obtain ⟨q, hq, rfl⟩ := (commission_formula ..).mp h
  apply (commission_formula ..).mpr
  exact ⟨q, hq, by push_cast; ring⟩

example : txPriceInTable { send := 10, payloadByte := 2 } 3 1 0 0 5 1 = some 66 := by decide
example : priceOfType { multisendBase := 10, multisendDelta := 5 } 13 4 0 = some 25 := by decide
example : priceOfType { createTicker3 := 1000, createTicker7to10 := 1, createCoin := 7, createToken := 99 } 30 0 3 = some 1007 := by decide
example : priceOfType {} 19 0 0 = none ∧ priceOfType {} 39 0 0 = none ∧ priceOfType {} 0 0 0 = none := by decide

/-! ### Agreement with the transaction model (Tx.lean) -/

/-- Data shape of a decoded transaction: list length … -/
def shapeN (t : TxIn) : Nat := if t.typ == 13 then listLen (t.str "d.List") else listLen (t.str "d.Coins")
/-- … and ticker length in BYTES (Go: `len(data.Symbol.String())`; the final Tx model uses `utf8ByteSize` too). -/
def shapeSym (t : TxIn) : Nat := (t.str "d.Symbol").utf8ByteSize

theorem tickerPrice_agrees (s : State) (sym : String) :
    tickerPrice s sym = tickerPriceT (PriceTable.ofAssoc s.commission) sym.utf8ByteSize := by
  unfold tickerPrice tickerPriceT
  split <;> simp_all [PriceTable.ofAssoc, priceOf]

set_option maxHeartbeats 400000 in
/-- Tx.lean's `typePrice` is `priceOfType` on the state's table, for every type (0 for undecodable types). -/
theorem typePrice_agrees (s : State) (t : TxIn) :
    typePrice s t = (priceOfType (PriceTable.ofAssoc s.commission) t.typ (shapeN t) (shapeSym t)).getD 0 := by
  unfold priceOfType
  split <;> rename_i h
  all_goals
    (simp only [typePrice, typePriceName, h, shapeN, shapeSym, tickerPrice_agrees]; simp [PriceTable.ofAssoc, priceOf])

/-- Tx.lean's `txPrice` is `txPriceInTable` (0 for undecodable types, which never reach the price computation). -/
theorem txPrice_agrees (s : State) (t : TxIn)
    (hdec : (priceOfType (PriceTable.ofAssoc s.commission) t.typ (shapeN t) (shapeSym t)).isSome = true) :
    some (txPrice s t) =
      txPriceInTable (PriceTable.ofAssoc s.commission) t.gasPrice t.typ (shapeN t) (shapeSym t) t.payLen t.svcLen := by
  unfold txPrice txPriceInTable
  rw [typePrice_agrees]
  cases h : priceOfType (PriceTable.ofAssoc s.commission) t.typ (shapeN t) (shapeSym t) with
  | none => rw [h] at hdec; cases hdec
  | some p => simp [PriceTable.ofAssoc, priceOf]

/-! ### Conversion through the pool -/

/-- A zero price is free; a base-coin table charges the table price itself, which must be positive. -/
theorem commissionInBase_base (tb : PriceTable) (hc : tb.coin = 0) (price : Int) (pool : Int × Int) :
    commissionInBase tb price pool =
      pure (if price = 0 then .ok 0 else if price ≤ 0 then .error 119 else .ok price) := by
  unfold commissionInBase
  by_cases h0 : price = 0 <;> simp [h0, hc]

/-- A custom-coin table: whatever is charged is a positive amount that the pool (table coin → base) pays for `price`. -/
theorem commissionInBase_custom (tb : PriceTable) (hc : tb.coin ≠ 0) (price : Int) (hp : price ≠ 0) (pool : Int × Int) (v : Int)
    (h : commissionInBase tb price pool = .ok (.ok v)) :
    0 < v ∧ checkSwapQuote pool.1 pool.2 price 0 false = .ok (.ok v) := by
  unfold commissionInBase at h
  simp only [hp, hc, if_false] at h
  cases hq : checkSwapQuote pool.1 pool.2 price 0 false with
  | error e => rw [hq] at h; cases h
  | ok r =>
    rw [hq] at h
    cases r with
    | error c => simp [bind, Except.bind, pure, Except.pure] at h
    | ok x =>
      simp only [bind, Except.bind, pure, Except.pure] at h
      split at h
      · simp at h
      · next hx =>
        simp at h
        subst h
        exact ⟨by omega, rfl⟩

/-- The ticker fee that is burned is positive and, for a base-coin table, is gas price × ticker price. -/
theorem tickerBurn_base (tb : PriceTable) (hc : tb.coin = 0) (gasPrice symLen : Nat) (pool : Int × Int) (v : Int)
    (h : tickerBurnInBase tb gasPrice symLen pool = .ok (some v)) :
    0 < v ∧ v = (gasPrice : Int) * tickerPriceT tb symLen := by
  unfold tickerBurnInBase at h
  by_cases hp : symbolPriceInTable tb gasPrice symLen ≤ 0
  · simp [hp, pure, Except.pure] at h
  · simp [hp, hc, pure, Except.pure] at h
    subst h
    exact ⟨by omega, rfl⟩

/-- Since /repo f0b1597 (repair of finding R1): with a zero ticker price or a zero gas price the success path of
    CreateCoin/CreateToken skips the burn; it no longer answers code 119 after the transaction has been applied. -/
theorem tickerBurn_zero_skips (tb : PriceTable) (gasPrice symLen : Nat) (pool : Int × Int)
    (hz : gasPrice = 0 ∨ tickerPriceT tb symLen = 0) :
    tickerBurnInBase tb gasPrice symLen pool = .ok none := by
  have hp : symbolPriceInTable tb gasPrice symLen = 0 := by
    unfold symbolPriceInTable
    rcases hz with h | h <;> simp [h]
  unfold tickerBurnInBase
  simp [hp, pure, Except.pure]

/-- Whatever is burned is positive (any table coin): the success path never burns a non-positive amount and never rejects. -/
theorem tickerBurn_pos (tb : PriceTable) (gasPrice symLen : Nat) (pool : Int × Int) (v : Int)
    (h : tickerBurnInBase tb gasPrice symLen pool = .ok (some v)) : 0 < v := by
  unfold tickerBurnInBase at h
  by_cases hp : symbolPriceInTable tb gasPrice symLen ≤ 0
  · simp [hp, pure, Except.pure] at h
  · by_cases hc : tb.coin = 0
    · simp [hp, hc, pure, Except.pure] at h
      omega
    · cases hq : checkSwapQuote pool.1 pool.2 (symbolPriceInTable tb gasPrice symLen) 0 false with
      | error e => simp [hp, hc, hq, bind, Except.bind] at h
      | ok r =>
        cases r with
        | error c => simp [hp, hc, hq, bind, Except.bind, pure, Except.pure] at h
        | ok x =>
          simp [hp, hc, hq, bind, Except.bind, pure, Except.pure] at h
          omega

/-! ### The cheaper route -/

/-- Rejected exactly when neither route answers. -/
theorem route_reject_iff (pool reserve : Option Int) : chooseRoute pool reserve = none ↔ pool = none ∧ reserve = none := by
  cases pool <;> cases reserve <;> simp [chooseRoute]
  split <;> simp

/-- **The chosen commission is the minimum of the available quotes**, it is the quote of the chosen route, and the pool wins ties. -/
theorem cheaper_route_min (pool reserve : Option Int) (rt : Route) (v : Int) (h : chooseRoute pool reserve = some (rt, v)) :
    (∀ p, pool = some p → v ≤ p) ∧ (∀ r, reserve = some r → v ≤ r) ∧
    (rt = .pool → pool = some v) ∧ (rt = .reserve → reserve = some v ∧ ∀ p, pool = some p → v < p) := by
  cases pool with
  | none =>
    cases reserve with
    | none => simp [chooseRoute] at h
    | some r =>
      simp only [chooseRoute, Option.some.injEq, Prod.mk.injEq] at h
      obtain ⟨rfl, rfl⟩ := h
      simp
  | some p =>
    cases reserve with
    | none =>
      simp only [chooseRoute, Option.some.injEq, Prod.mk.injEq] at h
      obtain ⟨rfl, rfl⟩ := h
      simp
    | some r =>
      simp only [chooseRoute] at h
      split at h
      · next hlt =>
        simp only [Option.some.injEq, Prod.mk.injEq] at h
        obtain ⟨rfl, rfl⟩ := h
        simp; omega
      · next hge =>
        simp only [Option.some.injEq, Prod.mk.injEq] at h
        obtain ⟨rfl, rfl⟩ := h
        simp; omega

/-- Equal quotes: the pool route. -/
theorem route_tie_pool (q : Int) : chooseRoute (some q) (some q) = some (.pool, q) := by
  simp [chooseRoute]

/-- `CalculateCommission` in full: base gas coin pays the base value itself; a custom gas coin pays the cheaper quote. -/
theorem calcCommissionQ_spec (gasIsBase : Bool) (inBase : Int) (pool reserve : Option Int) :
    calcCommissionQ gasIsBase inBase pool reserve =
      if gasIsBase then some (inBase, false)
      else if inBase = 0 then some (0, false)
      else (chooseRoute pool reserve).map (fun x => (x.2, decide (x.1 = Route.pool))) := by
  unfold calcCommissionQ
  split
  · rfl
  · split
    · rfl
    · cases h : chooseRoute pool reserve with
      | none => rfl
      | some x => obtain ⟨rt, v⟩ := x; cases rt <;> simp

example : chooseRoute (some 10) (some 9) = some (.reserve, 9) ∧ chooseRoute (some 10) (some 10) = some (.pool, 10) ∧
    chooseRoute none (some 7) = some (.reserve, 7) ∧ chooseRoute (some 7) none = some (.pool, 7) ∧ chooseRoute none none = none := by
  decide

/-! ### Where the fee goes -/

theorem sumBy_append {α : Type} (f : α → Int) (l1 l2 : List α) : sumBy f (l1 ++ l2) = sumBy f l1 + sumBy f l2 := by
  induction l1 with
  | nil => simp [sumBy]
  | cons a t ih => simp only [List.cons_append, sumBy, ih]; omega

theorem apply_rewards (s : State) (p : Prim) : (p.apply s).rewardsPool = s.rewardsPool + primRewards p := by
  cases p <;> simp [Prim.apply, primRewards]

/-- The reward pool after a plan = before + the declared reward effects of its primitives. -/
theorem applyAll_rewards (s : State) (ps : List Prim) :
    (applyAll s ps).rewardsPool = s.rewardsPool + sumBy primRewards ps := by
  induction ps generalizing s with
  | nil => simp [applyAll, sumBy]
  | cons p t ih =>
    have : applyAll s (p :: t) = applyAll (p.apply s) t := rfl
    rw [this, ih, apply_rewards]
    simp only [sumBy]; omega

theorem planOf_rewards (ms : List Move) : sumBy primRewards (planOf ms) = movesRewards ms := by
  induction ms with
  | nil => rfl
  | cons m t ih =>
    have : planOf (m :: t) = m.prims ++ planOf t := by simp [planOf]
    rw [this, sumBy_append, ih]
    rfl

/-- Executing a list of moves changes the block's reward pool by the sum of the moves' reward effects. -/
theorem moves_rewards (s : State) (ms : List Move) :
    (applyAll s (planOf ms)).rewardsPool = s.rewardsPool + movesRewards ms := by
  rw [applyAll_rewards, planOf_rewards]

/-- **The base-coin value of a commission reaches the reward pool**, for each of the three ways of paying:
    base coin (the commission itself), bancor coin (the reserve released), pool route (what the pool paid out). -/
theorem fee_to_pool :
    (∀ payer v, moveRewards (.feeBase payer v) = v) ∧
    (∀ payer c commission inBase, c ≠ 0 → moveRewards (.feeBancor payer c commission inBase) = inBase) ∧
    (∀ payer c net out burn dest, moveRewards (.poolSell payer c 0 true net out burn true dest) = out) ∧
    (∀ payer c net out burn dest, moveRewards (.poolSell payer 0 c false net out burn true dest) = out) := by
  refine ⟨?_, ?_, ?_, ?_⟩
  · intro payer v; simp [moveRewards, Move.prims, sumBy, primRewards]
  · intro payer c commission inBase hc; simp [moveRewards, Move.prims, hc, sumBy, primRewards]
  · intro payer c net out burn dest; simp [moveRewards, Move.prims, sumBy, primRewards]
  · intro payer c net out burn dest; simp [moveRewards, Move.prims, sumBy, primRewards]

/-- **The ticker fee is burned**: it leaves the reward pool and is credited to the zero address. -/
theorem ticker_fee_burned (v : Int) :
    moveRewards (.burnTicker v) = -v ∧ moveZero (.burnTicker v) = v := by
  simp [moveRewards, moveZero, Move.prims, sumBy, primRewards, primZero]

/-- No fee move credits the zero address (the payer is a signer, never address 0). -/
theorem fee_not_to_zero (payer : Addr) (hp : payer ≠ 0) :
    (∀ v, moveZero (.feeBase payer v) = 0) ∧
    (∀ c commission inBase, moveZero (.feeBancor payer c commission inBase) = 0) ∧
    (∀ c0 c1 sells net out burn dest, moveZero (.poolSell payer c0 c1 sells net out burn true dest) = 0) := by
  refine ⟨?_, ?_, ?_⟩
  · intro v; simp [moveZero, Move.prims, sumBy, primZero, hp]
  · intro c commission inBase
    by_cases hc : c = 0 <;> simp [moveZero, Move.prims, sumBy, primZero, hp, hc]
  · intro c0 c1 sells net out burn dest
    have hb : Move.prims.burnAddressM ≠ 0 := by decide
    cases sells <;> simp [moveZero, Move.prims]
    all_goals (split <;> simp [sumBy, primZero, hp, hb])

/-- The transaction model's commission payment credits the reward pool with exactly the base-coin value it reports
    (all three ways of paying). -/
theorem payCommission_rewards (s : State) (payer : Addr) (gas : Coin) (c : Com) (minOut : Int) (p : Paid)
    (h : payCommission s payer gas c minOut = .ok p) : movesRewards p.moves = p.inBase := by
  unfold payCommission at h
  by_cases hp : c.fromPool = true
  · simp only [hp, if_true] at h
    cases hq : pairSellMove s none payer gas 0 c.commission minOut true 0 with
    | error e => rw [hq] at h; cases h
    | ok r =>
      obtain ⟨mv, out, adj⟩ := r
      rw [hq] at h
      simp only [pure, Except.pure, Except.ok.injEq] at h
      subst h
      -- the shape of the pool move
      unfold pairSellMove at hq
      split at hq
      · cases hq
      · split at hq
        · cases hq
        · split at hq
          · cases hq
          · simp only at hq
            split at hq
            · cases hq
            · split at hq
              · cases hq
              · cases hq
              · split at hq
                · cases hq
                · split at hq
                  · cases hq
                  · split at hq
                    · simp only [pure, Except.pure, Except.ok.injEq, Prod.mk.injEq] at hq
                      obtain ⟨rfl, rfl, _⟩ := hq
                      simp [movesRewards, sumBy, (fee_to_pool).2.2.1]
                    · simp only [pure, Except.pure, Except.ok.injEq, Prod.mk.injEq] at hq
                      obtain ⟨rfl, rfl, _⟩ := hq
                      simp [movesRewards, sumBy, (fee_to_pool).2.2.2]
  · simp only [hp, Bool.false_eq_true, if_false] at h
    by_cases hg : (gas != 0) = true
    · simp only [hg, if_true, pure, Except.pure, Except.ok.injEq] at h
      subst h
      have hg' : gas ≠ 0 := by simpa using hg
      simp [movesRewards, sumBy, (fee_to_pool).2.1 payer gas _ _ hg']
    · simp only [hg, Bool.false_eq_true, if_false] at h
      split at h
      · cases h
      · next hne =>
        simp only [pure, Except.pure, Except.ok.injEq] at h
        subst h
        have : c.commission = c.inBase := by simpa using hne
        simp [movesRewards, sumBy, (fee_to_pool).1, this]

/-- In the transaction model the moves of a successful transaction are the handler's, the ticker burn and the nonce bump:
    the reward pool receives the handler's effect plus the burn's. -/
theorem success_rewards (t : TxIn) (r : Outcome) (burn : List Move) :
    movesRewards (successMoves t r burn) = movesRewards r.moves + movesRewards burn := by
  unfold successMoves movesRewards
  rw [sumBy_append, sumBy_append]
  simp [sumBy, moveRewards, Move.prims, Prim.isAdmin, primRewards]

/-- The burn of the transaction model: nothing for other types; for CreateCoin/CreateToken either the burn is skipped (no positive
    ticker fee: zero ticker price, zero gas price or an impossible conversion — the transaction is already executed and is not
    rejected any more, /repo f0b1597) or a positive amount `v` — the gas price × ticker price converted to the base coin — leaves
    the reward pool and reaches the zero address. -/
theorem tickerBurn_rewards (s : State) (t : TxIn) (burn : List Move) (tags : List (String × String))
    (h : tickerBurn s t = .ok (burn, tags)) :
    (¬ (t.typ = 5 ∨ t.typ = 30) → burn = []) ∧
    ((t.typ = 5 ∨ t.typ = 30) → burn = [] ∨
      ∃ v, 0 < v ∧ toBase s ((t.gasPrice : Int) * tickerPrice s (t.str "d.Symbol")) = .ok (.ok v) ∧
        burn = [.burnTicker v] ∧ movesRewards burn = -v ∧ sumBy moveZero burn = v) := by
  unfold tickerBurn at h
  by_cases hty : t.typ = 5 ∨ t.typ = 30
  · have hb : (t.typ == 5 || t.typ == 30) = true := by rcases hty with h | h <;> simp [h]
    simp only [hb, if_true] at h
    refine ⟨fun hn => absurd hty hn, fun _ => ?_⟩
    split at h
    · simp only [pure, Except.pure, Except.ok.injEq, Prod.mk.injEq] at h
      exact Or.inl h.1.symm
    · split at h
      · cases h
      · simp only [pure, Except.pure, Except.ok.injEq, Prod.mk.injEq] at h
        exact Or.inl h.1.symm
      · next v hv =>
        split at h
        · simp only [pure, Except.pure, Except.ok.injEq, Prod.mk.injEq] at h
          exact Or.inl h.1.symm
        · next hpos =>
          simp only [pure, Except.pure, Except.ok.injEq, Prod.mk.injEq] at h
          obtain ⟨rfl, _⟩ := h
          refine Or.inr ⟨v, by omega, hv, rfl, ?_, ?_⟩
          · simp [movesRewards, sumBy, (ticker_fee_burned v).1]
          · simp [sumBy, (ticker_fee_burned v).2]
  · have hb : (t.typ == 5 || t.typ == 30) = false := by
      simp only [not_or] at hty
      simp [hty.1, hty.2]
    simp only [hb, Bool.false_eq_true, if_false, pure, Except.pure, Except.ok.injEq, Prod.mk.injEq] at h
    exact ⟨fun _ => h.1.symm, fun hn => absurd hn hty⟩

/-- … and that ticker fee is `symbolPriceInTable` of the state's table. -/
theorem ticker_burn_amount (s : State) (t : TxIn) :
    (t.gasPrice : Int) * tickerPrice s (t.str "d.Symbol") =
      symbolPriceInTable (PriceTable.ofAssoc s.commission) t.gasPrice (shapeSym t) := by
  unfold symbolPriceInTable shapeSym
  rw [tickerPrice_agrees]

example : moveRewards (.feeBase 7 100) = 100 ∧ moveRewards (.feeBancor 7 3 55 40) = 40 ∧
    moveRewards (.poolSell 7 4 0 true 99 30 1 true 0) = 30 ∧ moveRewards (.burnTicker 25) = -25 ∧ moveZero (.burnTicker 25) = 25 := by
  decide

end Rules
end Minter
