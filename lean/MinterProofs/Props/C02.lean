import MinterModel.Tx
import MinterProofs.TxLemmas
/-
  C02 — Amounts never go negative and coin volume never exceeds max supply (transaction level, PARTIAL).

  `AmountsOk` is the Prop form of the monitor `amountsOk` (State.lean) with balances read through `balanceOf` (sum semantics):
  `amountsOk s = true → AmountsOk s` (`amountsOk_sound`).

  Proved here: `AmountsOk` is preserved by an ACCEPTED delivery of
      Send (1), Multisend (13), EditCoinOwner (17), MintToken (28), BurnToken (29)
  and by any delivery the prologue rejects, when the commission is paid in the BASE coin (`t.gasCoin = 0`; the commission move is then
  `feeBase`) and the decoded amounts are non-negative (RLP cannot encode a negative integer: hypothesis `0 ≤ t.int …`):
      `C02_partial_send`, `C02_partial_multisend`, `C02_partial_edit_owner`, `C02_partial_mint`, `C02_partial_burn`,
      `C02_partial_1_13_17_28_29` (the five together).
  NOT proved (missing): commissions paid in a bancor coin or through a pool (needs the oracle envelope `OracleSound` — stated below —
  and positivity of pool reserves), the failure-fee path in a custom coin, and the remaining 32 types (create/recreate need the
  same argument plus the new coin entry; staking / pools / orders need the per-owner holdings).  The correspondence check evaluates
  the monitor `amountsOk` on every committed state of every run.
-/
namespace Minter

/-- The oracle envelope under which the bancor-paid commission would be covered (recorded for the missing part). -/
structure OracleSound (o : Oracle) : Prop where
  nonneg : ∀ q v, o q = some v → 0 ≤ v
  saleReturnLeReserve : ∀ vol res crr sell v, o (.saleReturn vol res crr sell) = some v → 0 ≤ sell → sell ≤ vol → v ≤ res
  saleAmountLeVolume : ∀ vol res crr want v, o (.saleAmount vol res crr want) = some v → 0 ≤ want → want ≤ res → v ≤ vol

structure AmountsOk (s : State) : Prop where
  balances : ∀ a c, 0 ≤ balanceOf s a c
  coins : ∀ ci ∈ s.coins, 0 ≤ ci.volume ∧ 0 ≤ ci.reserve ∧ ci.volume ≤ ci.maxSupply
  stakes : ∀ cd ∈ s.candidates, (∀ st ∈ cd.stakes, 0 ≤ st.value) ∧ (∀ st ∈ cd.updates, 0 ≤ st.value)
  waitlist : ∀ w ∈ s.waitlist, 0 ≤ w.value
  frozen : ∀ f ∈ s.frozen, 0 ≤ f.value
  pools : ∀ p ∈ s.pools, 0 < p.r0 ∧ 0 < p.r1
  orders : ∀ o ∈ s.orders, 0 ≤ o.v0 ∧ 0 ≤ o.v1
  validators : ∀ v ∈ s.validators, 0 ≤ v.accum
  slashed : 0 ≤ s.slashed

theorem bag_sumIf_nonneg {κ : Type} [DecidableEq κ] (m : Bag κ) (p : κ → Bool) (h : Bag.nonneg m = true) : 0 ≤ Bag.sumIf p m := by
  induction m with
  | nil => simp [Bag.sumIf]
  | cons e t ih =>
    obtain ⟨k, v⟩ := e
    simp only [Bag.nonneg, Bool.and_eq_true, decide_eq_true_eq] at h
    simp only [Bag.sumIf]
    have := ih h.2
    split <;> omega

theorem stakesNonneg_mem (l : List Stake) (h : stakesNonneg l = true) : ∀ st ∈ l, 0 ≤ st.value := by
  intro st hst
  simp only [stakesNonneg, List.all_eq_true, decide_eq_true_eq] at h
  exact h st hst

/-- The Boolean monitor implies the Prop form. -/
theorem amountsOk_sound (s : State) (h : amountsOk s = true) : AmountsOk s := by
  simp only [amountsOk, Bool.and_eq_true, List.all_eq_true, decide_eq_true_eq] at h
  obtain ⟨⟨⟨⟨⟨⟨⟨⟨hb, hc⟩, hst⟩, hw⟩, hf⟩, hp⟩, ho⟩, hv⟩, hs⟩ := h
  exact {
    balances := fun a c => bag_sumIf_nonneg _ _ hb
    coins := fun ci hci => by have := hc ci hci; exact ⟨this.1.1, this.1.2, this.2⟩
    stakes := fun cd hcd => by
      have := hst cd hcd
      exact ⟨stakesNonneg_mem _ this.1, stakesNonneg_mem _ this.2⟩
    waitlist := hw
    frozen := hf
    pools := hp
    orders := ho
    validators := hv
    slashed := hs }

/-! ### Frame: primitives that touch balances, the fee pool and settings only -/

/-- Primitives that change nothing `AmountsOk` speaks about except balances. -/
def Prim.balOnly : Prim → Bool
  | .addBal _ _ _ | .addRewards _ | .setNonce _ _ | .setCoinOwner _ _ | .note _ => true
  | _ => false

theorem apply_frame (s : State) (p : Prim) (h : p.balOnly = true) :
    (p.apply s).candidates = s.candidates ∧ (p.apply s).waitlist = s.waitlist ∧ (p.apply s).frozen = s.frozen ∧
    (p.apply s).pools = s.pools ∧ (p.apply s).orders = s.orders ∧ (p.apply s).validators = s.validators ∧
    (p.apply s).slashed = s.slashed ∧
    (p.apply s).coins.map (fun ci => (ci.volume, ci.reserve, ci.maxSupply)) = s.coins.map (fun ci => (ci.volume, ci.reserve, ci.maxSupply)) := by
  cases p <;> simp [Prim.balOnly] at h <;> simp [Prim.apply]
  case setCoinOwner sym a =>
    intro ci _
    split <;> exact ⟨rfl, rfl, rfl⟩

theorem checked_frame (s s' : State) (ps : List Prim) (hb : ∀ p ∈ ps, p.balOnly = true) (h : applyChecked s ps = some s') :
    s'.candidates = s.candidates ∧ s'.waitlist = s.waitlist ∧ s'.frozen = s.frozen ∧
    s'.pools = s.pools ∧ s'.orders = s.orders ∧ s'.validators = s.validators ∧ s'.slashed = s.slashed ∧
    s'.coins.map (fun ci => (ci.volume, ci.reserve, ci.maxSupply)) = s.coins.map (fun ci => (ci.volume, ci.reserve, ci.maxSupply)) := by
  induction ps generalizing s with
  | nil => simp [applyChecked] at h; subst h; exact ⟨rfl, rfl, rfl, rfl, rfl, rfl, rfl, rfl⟩
  | cons p t ih =>
    obtain ⟨_, ht⟩ := applyChecked_cons _ _ _ _ h
    have h1 := apply_frame s p (hb p (List.mem_cons_self ..))
    have h2 := ih _ (fun q hq => hb q (List.mem_cons_of_mem _ hq)) ht
    obtain ⟨a1, a2, a3, a4, a5, a6, a7, a8⟩ := h1
    obtain ⟨b1, b2, b3, b4, b5, b6, b7, b8⟩ := h2
    exact ⟨b1.trans a1, b2.trans a2, b3.trans a3, b4.trans a4, b5.trans a5, b6.trans a6, b7.trans a7, b8.trans a8⟩

theorem coins_ok_of_map (l l' : List CoinInfo)
    (h : l'.map (fun ci => (ci.volume, ci.reserve, ci.maxSupply)) = l.map (fun ci => (ci.volume, ci.reserve, ci.maxSupply)))
    (hok : ∀ ci ∈ l, 0 ≤ ci.volume ∧ 0 ≤ ci.reserve ∧ ci.volume ≤ ci.maxSupply) :
    ∀ ci ∈ l', 0 ≤ ci.volume ∧ 0 ≤ ci.reserve ∧ ci.volume ≤ ci.maxSupply := by
  intro ci hci
  have : (ci.volume, ci.reserve, ci.maxSupply) ∈ l'.map (fun ci => (ci.volume, ci.reserve, ci.maxSupply)) :=
    List.mem_map.mpr ⟨ci, hci, rfl⟩
  rw [h, List.mem_map] at this
  obtain ⟨cj, hcj, he⟩ := this
  have := hok cj hcj
  simp only [Prod.mk.injEq] at he
  obtain ⟨e1, e2, e3⟩ := he
  rw [← e1, ← e2, ← e3]; exact this

/-- A plan of balance-only primitives under which no balance goes negative preserves `AmountsOk`. -/
theorem amounts_balOnly (s s' : State) (ps : List Prim) (hok : AmountsOk s) (hb : ∀ p ∈ ps, p.balOnly = true)
    (hbal : ∀ a c, 0 ≤ balanceOf s a c + sumBal a c ps) (h : applyChecked s ps = some s') : AmountsOk s' := by
  obtain ⟨f1, f2, f3, f4, f5, f6, f7, f8⟩ := checked_frame s s' ps hb h
  exact {
    balances := fun a c => by rw [checked_balance_eq s s' ps a c h]; exact hbal a c
    coins := coins_ok_of_map s.coins s'.coins f8 hok.coins
    stakes := by rw [f1]; exact hok.stakes
    waitlist := by rw [f2]; exact hok.waitlist
    frozen := by rw [f3]; exact hok.frozen
    pools := by rw [f4]; exact hok.pools
    orders := by rw [f5]; exact hok.orders
    validators := by rw [f6]; exact hok.validators
    slashed := by rw [f7]; exact hok.slashed }

/-- A delivery rejected by the prologue changes nothing. -/
theorem C02_prologue_reject (P : Params) (o : Oracle) (s s' : State) (b : Nat) (t : TxIn) (out : Outcome) (c : Nat)
    (hp : prologue P s b t = some c) (h : deliverTx P o s b t = .ok out) (ha : applyChecked s out.plan = some s')
    (hok : AmountsOk s) : AmountsOk s' := by
  unfold deliverTx at h
  rw [hp] at h
  cases h
  simp [Outcome.plan, planOf, applyChecked] at ha
  subst ha; exact hok

/-! ### Commission in the base coin -/

theorem calcCommission_base (P : Params) (o : Oracle) (s : State) (price : Int) (com : Com)
    (h : calcCommission P o s 0 price = .ok (.ok com)) : com = ⟨price, price, false⟩ := by
  unfold calcCommission at h
  simp only [beq_self_eq_true, if_true] at h
  cases h; rfl

theorem payCommission_base (s : State) (payer : Addr) (price minOut : Int) (paid : Paid)
    (h : payCommission s payer 0 ⟨price, price, false⟩ minOut = .ok paid) : paid.moves = [.feeBase payer price] := by
  rcases (payCommission_shape s payer 0 _ minOut paid h).2 with ⟨hf, _⟩ | ⟨_, hg, _⟩ | ⟨_, _, _, hm, _⟩
  · cases hf
  · exact absurd rfl hg
  · exact hm

theorem basePrice_nonneg (s : State) (t : TxIn) (price : Int) (h : basePrice s t = .ok (.ok price)) : 0 ≤ price := by
  unfold basePrice at h
  simp only at h
  split at h
  · cases h
  split at h
  · cases h; exact Int.le_refl _
  · split at h
    · cases h
    · cases h
    · split at h
      · cases h
      · cases h; omega

theorem runData_ledger (P : Params) (o : Oracle) (s : State) (b : Nat) (t : TxIn) (price : Int) :
    (t.typ = 1 → runData P o s b t price = runSend P o s t price) ∧
    (t.typ = 13 → runData P o s b t price = runMultisend P o s t price) ∧
    (t.typ = 17 → runData P o s b t price = runEditCoinOwner P o s t price) ∧
    (t.typ = 28 → runData P o s b t price = runMintToken P o s t price) ∧
    (t.typ = 29 → runData P o s b t price = runBurnToken P o s t price) := by
  refine ⟨?_, ?_, ?_, ?_, ?_⟩ <;> (intro h; unfold runData; rw [h]; rfl)

/-- The shape of an accepted delivery whose commission is paid in the base coin by the sender with a fixed body. -/
theorem deliver_base_gas (P : Params) (o : Oracle) (s : State) (b : Nat) (t : TxIn) (out : Outcome)
    (h : deliverTx P o s b t = .ok out) (h0 : out.code = 0) (hg : t.gasCoin = 0) (h5 : t.typ ≠ 5) (h30 : t.typ ≠ 30) :
    ∃ price rd, 0 ≤ price ∧ runData P o s b t price = .ok (.ok rd) ∧
      (rd.payer = t.sender → rd.coin = t.gasCoin → rd.com = ⟨price, price, false⟩ →
        ∀ body tags, rd.exec none = .ok (body, tags) →
          out.moves = [.feeBase t.sender price] ++ body ++ [.admin (.setNonce t.sender t.nonce)]) := by
  obtain ⟨_, price, rd, r, hb, hr, hx, hs⟩ := deliver_accepted P o s b t out h h0
  refine ⟨price, rd, basePrice_nonneg s t price hb, hr, ?_⟩
  intro hp hc hcm body tags hexec
  obtain ⟨paid, body', tags', hpay, he, _, hmoves, _⟩ := execReady_ok s rd r hx
  rw [hp, hc, hcm, hg] at hpay
  have hpm := payCommission_base s t.sender price rd.minOut paid hpay
  have hadj : paid.adj = none := by
    rcases (payCommission_shape s t.sender 0 _ rd.minOut paid hpay).2 with ⟨hf, _⟩ | ⟨_, hgg, _⟩ | ⟨_, _, _, _, _, ha⟩
    · cases hf
    · exact absurd rfl hgg
    · exact ha
  rw [hadj, hexec] at he
  injection he with he
  injection he with he1 he2
  subst he1
  obtain ⟨burn, btags, hbn, _, hm, _⟩ := successOutcome_burn s t r out hs
  rw [tickerBurn_other s t h5 h30] at hbn
  cases hbn
  rw [hm, successMoves, hmoves, hpm]
  simp

/-! ### Send (1) -/

theorem send_bal (S T : Nat) (coin : Nat) (price value : Int) (B : Nat → Nat → Int) (hB : ∀ a c, 0 ≤ B a c)
    (h0 : coin = 0 → price + value ≤ B S 0) (h1 : coin ≠ 0 → price ≤ B S 0 ∧ value ≤ B S coin) (hv : 0 ≤ value) (a c : Nat) :
    0 ≤ B a c + ((if S = a ∧ 0 = c then -price else 0) + ((if S = a ∧ coin = c then -value else 0) + ((if T = a ∧ coin = c then value else 0) + 0))) := by
  have hx := hB a c
  have kx : S = a → 0 = c → B S 0 = B a c := fun e1 e2 => by rw [e1, e2]
  have ky : S = a → coin = c → B S coin = B a c := fun e1 e2 => by rw [e1, e2]
  by_cases ha : S = a <;> by_cases hc0 : 0 = c <;> by_cases hcc : coin = c <;> by_cases hta : T = a <;>
    simp only [ha, hc0, hcc, hta, and_self, and_true, true_and, and_false, false_and, if_true, if_false] <;>
    (try have := kx ha hc0) <;> (try have := ky ha hcc) <;> omega

theorem send_spec (P : Params) (o : Oracle) (s : State) (t : TxIn) (price : Int) (rd : Ready)
    (h : runSend P o s t price = .ok (.ok rd)) :
    ∃ com, calcCommission P o s t.gasCoin price = .ok (.ok com) ∧
      (t.gasCoin ≠ t.nat "d.Coin" → t.int "d.Value" ≤ balanceOf s t.sender (t.nat "d.Coin")) ∧
      t.addIfGas (t.nat "d.Coin") com.commission (t.int "d.Value") ≤ balanceOf s t.sender t.gasCoin ∧
      rd.payer = t.sender ∧ rd.coin = t.gasCoin ∧ rd.com = com ∧
      ∀ adj, rd.exec adj = .ok ([.transfer t.sender (t.hex "d.To") (t.nat "d.Coin") (t.int "d.Value")], []) := by
  unfold runSend at h
  simp only at h
  split at h
  · cases h
  obtain ⟨com, hcom, hk⟩ := withCom_ready _ _ _ _ _ _ _ h
  split at hk
  · cases hk
  rename_i h1
  split at hk
  · cases hk
  rename_i h2
  obtain ⟨hp, hc, hcm, _, hex⟩ := ready_eq _ _ _ _ _ hk
  simp only [Bool.and_eq_true, bne_iff_ne, ne_eq, decide_eq_true_eq, not_and, Int.not_lt] at h1
  exact ⟨com, hcom, h1, by omega, hp, hc, hcm, hex⟩

/-- **C02 (Send, base-coin gas).** -/
theorem C02_partial_send (P : Params) (o : Oracle) (s s' : State) (b : Nat) (t : TxIn) (out : Outcome)
    (ht : t.typ = 1) (hg : t.gasCoin = 0) (hv : 0 ≤ t.int "d.Value")
    (h : deliverTx P o s b t = .ok out) (h0 : out.code = 0) (ha : applyChecked s out.plan = some s')
    (hok : AmountsOk s) : AmountsOk s' := by
  obtain ⟨price, rd, hp0, hr, hshape⟩ := deliver_base_gas P o s b t out h h0 hg (by omega) (by omega)
  rw [(runData_ledger P o s b t price).1 ht] at hr
  obtain ⟨com, hcom, hf1, hf2, hp, hc, hcm, hex⟩ := send_spec P o s t price rd hr
  rw [hg] at hcom
  have hce := calcCommission_base P o s price com hcom
  subst hce
  have hm := hshape hp hc hcm _ _ (hex none)
  have hplan : out.plan = [.addBal t.sender 0 (-price), .addRewards price, .addBal t.sender (t.nat "d.Coin") (-(t.int "d.Value")),
      .addBal (t.hex "d.To") (t.nat "d.Coin") (t.int "d.Value"), .setNonce t.sender t.nonce] := by
    simp [Outcome.plan, hm, planOf, Move.prims, Prim.isAdmin]
  rw [hplan] at ha
  apply amounts_balOnly s s' _ hok _ _ ha
  · intro p hp'
    simp only [List.mem_cons, List.mem_nil_iff, or_false] at hp'
    rcases hp' with e | e | e | e | e <;> subst e <;> rfl
  · intro a c
    simp only [TxIn.addIfGas, hg] at hf1 hf2
    have := send_bal t.sender (t.hex "d.To") (t.nat "d.Coin") price (t.int "d.Value") (balanceOf s) hok.balances
      (by intro e; rw [e] at hf2; simpa using hf2)
      (by intro e
          have hne' : ((0 : Nat) == t.nat "d.Coin") = false := by simpa using (fun x : 0 = t.nat "d.Coin" => e x.symm)
          simp only [hne', Bool.false_eq_true, if_false] at hf2
          exact ⟨hf2, hf1 (fun x => e x.symm)⟩)
      hv a c
    simpa [sumBal, sumBy, Prim.balDelta'] using this

/-! ### EditCoinOwner (17), MintToken (28), BurnToken (29) -/

theorem fee_bal (S : Nat) (price : Int) (B : Nat → Nat → Int) (hB : ∀ a c, 0 ≤ B a c) (h : price ≤ B S 0) (a c : Nat) :
    0 ≤ B a c + ((if S = a ∧ 0 = c then -price else 0) + 0) := by
  have hx := hB a c
  have kx : S = a → 0 = c → B S 0 = B a c := fun e1 e2 => by rw [e1, e2]
  by_cases ha : S = a <;> by_cases hc0 : 0 = c <;>
    simp only [ha, hc0, and_self, and_true, true_and, and_false, false_and, if_true, if_false] <;>
    (try have := kx ha hc0) <;> omega

theorem edit_owner_funds (P : Params) (o : Oracle) (s : State) (t : TxIn) (price : Int) (rd : Ready)
    (h : runEditCoinOwner P o s t price = .ok (.ok rd)) :
    ∃ com, calcCommission P o s t.gasCoin price = .ok (.ok com) ∧ com.commission ≤ balanceOf s t.sender t.gasCoin ∧
      rd.payer = t.sender ∧ rd.coin = t.gasCoin ∧ rd.com = com ∧
      ∀ adj, rd.exec adj = .ok ([.admin (.setCoinOwner (t.str "d.Symbol") (t.hex "d.NewOwner"))], []) := by
  unfold runEditCoinOwner at h
  simp only at h
  split at h
  · cases h
  split at h
  · cases h
  obtain ⟨com, hcom, hk⟩ := withCom_ready _ _ _ _ _ _ _ h
  split at hk
  · cases hk
  rename_i hf
  obtain ⟨hp, hc, hcm, _, hex⟩ := ready_eq _ _ _ _ _ hk
  exact ⟨com, hcom, by omega, hp, hc, hcm, hex⟩

/-- **C02 (EditCoinOwner, base-coin gas).** -/
theorem C02_partial_edit_owner (P : Params) (o : Oracle) (s s' : State) (b : Nat) (t : TxIn) (out : Outcome)
    (ht : t.typ = 17) (hg : t.gasCoin = 0)
    (h : deliverTx P o s b t = .ok out) (h0 : out.code = 0) (ha : applyChecked s out.plan = some s')
    (hok : AmountsOk s) : AmountsOk s' := by
  obtain ⟨price, rd, hp0, hr, hshape⟩ := deliver_base_gas P o s b t out h h0 hg (by omega) (by omega)
  rw [(runData_ledger P o s b t price).2.2.1 ht] at hr
  obtain ⟨com, hcom, hf, hp, hc, hcm, hex⟩ := edit_owner_funds P o s t price rd hr
  rw [hg] at hcom hf
  have hce := calcCommission_base P o s price com hcom
  subst hce
  have hm := hshape hp hc hcm _ _ (hex none)
  have hplan : out.plan = [.addBal t.sender 0 (-price), .addRewards price, .setCoinOwner (t.str "d.Symbol") (t.hex "d.NewOwner"),
      .setNonce t.sender t.nonce] := by
    simp [Outcome.plan, hm, planOf, Move.prims, Prim.isAdmin]
  rw [hplan] at ha
  apply amounts_balOnly s s' _ hok _ _ ha
  · intro p hp'
    simp only [List.mem_cons, List.mem_nil_iff, or_false] at hp'
    rcases hp' with e | e | e | e <;> subst e <;> rfl
  · intro a c
    have := fee_bal t.sender price (balanceOf s) hok.balances hf a c
    simpa [sumBal, sumBy, Prim.balDelta'] using this

/-- Balance-only primitives plus volume changes. -/
def Prim.ledgerOnly : Prim → Bool
  | .addVolume _ _ => true
  | p => p.balOnly

theorem apply_frame' (s : State) (p : Prim) (h : p.ledgerOnly = true) :
    (p.apply s).candidates = s.candidates ∧ (p.apply s).waitlist = s.waitlist ∧ (p.apply s).frozen = s.frozen ∧
    (p.apply s).pools = s.pools ∧ (p.apply s).orders = s.orders ∧ (p.apply s).validators = s.validators ∧
    (p.apply s).slashed = s.slashed := by
  cases p <;> simp [Prim.ledgerOnly, Prim.balOnly] at h <;> simp [Prim.apply]

theorem checked_frame' (s s' : State) (ps : List Prim) (hb : ∀ p ∈ ps, p.ledgerOnly = true) (h : applyChecked s ps = some s') :
    s'.candidates = s.candidates ∧ s'.waitlist = s.waitlist ∧ s'.frozen = s.frozen ∧
    s'.pools = s.pools ∧ s'.orders = s.orders ∧ s'.validators = s.validators ∧ s'.slashed = s.slashed := by
  induction ps generalizing s with
  | nil => simp [applyChecked] at h; subst h; exact ⟨rfl, rfl, rfl, rfl, rfl, rfl, rfl⟩
  | cons p t ih =>
    obtain ⟨_, ht⟩ := applyChecked_cons _ _ _ _ h
    obtain ⟨a1, a2, a3, a4, a5, a6, a7⟩ := apply_frame' s p (hb p (List.mem_cons_self ..))
    obtain ⟨b1, b2, b3, b4, b5, b6, b7⟩ := ih _ (fun q hq => hb q (List.mem_cons_of_mem _ hq)) ht
    exact ⟨b1.trans a1, b2.trans a2, b3.trans a3, b4.trans a4, b5.trans a5, b6.trans a6, b7.trans a7⟩

theorem applyChecked_eq_applyAll (s s' : State) (ps : List Prim) (h : applyChecked s ps = some s') : s' = applyAll s ps := by
  induction ps generalizing s with
  | nil => simp [applyChecked] at h; subst h; rfl
  | cons p t ih =>
    obtain ⟨_, ht⟩ := applyChecked_cons _ _ _ _ h
    simp only [applyAll, List.foldl_cons]
    exact ih _ ht

/-- A plan of ledger primitives under which no balance goes negative and whose resulting coin registry is sound preserves `AmountsOk`. -/
theorem amounts_ledger (s s' : State) (ps : List Prim) (hok : AmountsOk s) (hb : ∀ p ∈ ps, p.ledgerOnly = true)
    (hbal : ∀ a c, 0 ≤ balanceOf s a c + sumBal a c ps)
    (hcoins : ∀ ci ∈ s'.coins, 0 ≤ ci.volume ∧ 0 ≤ ci.reserve ∧ ci.volume ≤ ci.maxSupply)
    (h : applyChecked s ps = some s') : AmountsOk s' := by
  obtain ⟨f1, f2, f3, f4, f5, f6, f7⟩ := checked_frame' s s' ps hb h
  exact {
    balances := fun a c => by rw [checked_balance_eq s s' ps a c h]; exact hbal a c
    coins := hcoins
    stakes := by rw [f1]; exact hok.stakes
    waitlist := by rw [f2]; exact hok.waitlist
    frozen := by rw [f3]; exact hok.frozen
    pools := by rw [f4]; exact hok.pools
    orders := by rw [f5]; exact hok.orders
    validators := by rw [f6]; exact hok.validators
    slashed := by rw [f7]; exact hok.slashed }

theorem mint_bal (S : Nat) (coin : Nat) (price value : Int) (B : Nat → Nat → Int) (hB : ∀ a c, 0 ≤ B a c)
    (hc : coin ≠ 0) (h1 : price ≤ B S 0) (h2 : 0 ≤ B S coin + value) (a c : Nat) :
    0 ≤ B a c + ((if S = a ∧ 0 = c then -price else 0) + ((if S = a ∧ coin = c then value else 0) + 0)) := by
  have hx := hB a c
  have kx : S = a → 0 = c → B S 0 = B a c := fun e1 e2 => by rw [e1, e2]
  have ky : S = a → coin = c → B S coin = B a c := fun e1 e2 => by rw [e1, e2]
  by_cases ha : S = a <;> by_cases hc0 : 0 = c <;> by_cases hcc : coin = c <;>
    simp only [ha, hc0, hcc, and_self, and_true, true_and, and_false, false_and, if_true, if_false] <;>
    (try have := kx ha hc0) <;> (try have := ky ha hcc) <;> omega

theorem mint_funds (P : Params) (o : Oracle) (s : State) (t : TxIn) (price : Int) (rd : Ready)
    (h : runMintToken P o s t price = .ok (.ok rd)) :
    ∃ com ci, calcCommission P o s t.gasCoin price = .ok (.ok com) ∧ com.commission ≤ balanceOf s t.sender t.gasCoin ∧
      getCoin s (t.nat "d.Coin") = some ci ∧ ci.volume + t.int "d.Value" ≤ ci.maxSupply ∧ t.nat "d.Coin" ≠ 0 ∧
      rd.payer = t.sender ∧ rd.coin = t.gasCoin ∧ rd.com = com ∧
      ∀ adj, rd.exec adj = .ok ([.mint t.sender (t.nat "d.Coin") (t.int "d.Value")], []) := by
  unfold runMintToken at h
  simp only at h
  split at h
  · cases h
  rename_i hc0
  split at h
  · cases h
  rename_i ci hci
  split at h
  · cases h
  split at h
  · cases h
  rename_i hmax
  split at h
  · cases h
  obtain ⟨com, hcom, hk⟩ := withCom_ready _ _ _ _ _ _ _ h
  split at hk
  · cases hk
  rename_i hf
  obtain ⟨hp, hc, hcm, _, hex⟩ := ready_eq _ _ _ _ _ hk
  exact ⟨com, ci, hcom, by omega, hci, by omega, by simpa using hc0, hp, hc, hcm, hex⟩

/-- **C02 (MintToken, base-coin gas).** -/
theorem C02_partial_mint (P : Params) (o : Oracle) (s s' : State) (b : Nat) (t : TxIn) (out : Outcome)
    (ht : t.typ = 28) (hg : t.gasCoin = 0) (hv : 0 ≤ t.int "d.Value")
    (h : deliverTx P o s b t = .ok out) (h0 : out.code = 0) (ha : applyChecked s out.plan = some s')
    (hok : AmountsOk s) : AmountsOk s' := by
  obtain ⟨price, rd, hp0, hr, hshape⟩ := deliver_base_gas P o s b t out h h0 hg (by omega) (by omega)
  rw [(runData_ledger P o s b t price).2.2.2.1 ht] at hr
  obtain ⟨com, ci, hcom, hf, hci, hmax, hcn, hp, hc, hcm, hex⟩ := mint_funds P o s t price rd hr
  rw [hg] at hcom hf
  have hce := calcCommission_base P o s price com hcom
  subst hce
  have hm := hshape hp hc hcm _ _ (hex none)
  have hplan : out.plan = [.addBal t.sender 0 (-price), .addRewards price, .addVolume (t.nat "d.Coin") (t.int "d.Value"),
      .addBal t.sender (t.nat "d.Coin") (t.int "d.Value"), .setNonce t.sender t.nonce] := by
    simp [Outcome.plan, hm, planOf, Move.prims, Prim.isAdmin, hcn]
  rw [hplan] at ha
  apply amounts_ledger s s' _ hok _ _ _ ha
  · intro p hp'
    simp only [List.mem_cons, List.mem_nil_iff, or_false] at hp'
    rcases hp' with e | e | e | e | e <;> subst e <;> rfl
  · intro a c
    have hbs := hok.balances t.sender (t.nat "d.Coin")
    have := mint_bal t.sender (t.nat "d.Coin") price (t.int "d.Value") (balanceOf s) hok.balances hcn hf (by omega) a c
    simpa [sumBal, sumBy, Prim.balDelta'] using this
  · rw [applyChecked_eq_applyAll s s' _ ha]
    simp only [applyAll, List.foldl, Prim.apply]
    intro x hx
    rcases mem_updFirst_find _ _ _ _ hx with hx' | ⟨y, hy, rfl⟩
    · exact hok.coins x hx'
    · unfold getCoin at hci
      rw [hci] at hy
      injection hy with hy
      subst hy
      have hy' := hok.coins ci (findFirst_mem _ _ _ hci).1
      exact ⟨by simp only; omega, hy'.2.1, by simp only; omega⟩

theorem burn_funds (P : Params) (o : Oracle) (s : State) (t : TxIn) (price : Int) (rd : Ready)
    (h : runBurnToken P o s t price = .ok (.ok rd)) :
    ∃ com ci, calcCommission P o s t.gasCoin price = .ok (.ok com) ∧ com.commission ≤ balanceOf s t.sender t.gasCoin ∧
      getCoin s (t.nat "d.Coin") = some ci ∧ 1 ≤ ci.volume - t.int "d.Value" ∧ t.nat "d.Coin" ≠ 0 ∧
      t.addIfGas (t.nat "d.Coin") (t.int "d.Value") com.commission ≤ balanceOf s t.sender (t.nat "d.Coin") ∧
      rd.payer = t.sender ∧ rd.coin = t.gasCoin ∧ rd.com = com ∧
      ∀ adj, rd.exec adj = .ok ([.mint t.sender (t.nat "d.Coin") (-(t.int "d.Value"))], []) := by
  unfold runBurnToken at h
  simp only at h
  split at h
  · cases h
  rename_i hc0
  split at h
  · cases h
  rename_i ci hci
  split at h
  · cases h
  split at h
  · cases h
  rename_i hmin
  obtain ⟨com, hcom, hk⟩ := withCom_ready _ _ _ _ _ _ _ h
  split at hk
  · cases hk
  rename_i hf
  split at hk
  · cases hk
  rename_i hf2
  obtain ⟨hp, hc, hcm, _, hex⟩ := ready_eq _ _ _ _ _ hk
  exact ⟨com, ci, hcom, by omega, hci, by omega, by simpa using hc0, by omega, hp, hc, hcm, hex⟩

/-- **C02 (BurnToken, base-coin gas).** -/
theorem C02_partial_burn (P : Params) (o : Oracle) (s s' : State) (b : Nat) (t : TxIn) (out : Outcome)
    (ht : t.typ = 29) (hg : t.gasCoin = 0) (hv : 0 ≤ t.int "d.Value")
    (h : deliverTx P o s b t = .ok out) (h0 : out.code = 0) (ha : applyChecked s out.plan = some s')
    (hok : AmountsOk s) : AmountsOk s' := by
  obtain ⟨price, rd, hp0, hr, hshape⟩ := deliver_base_gas P o s b t out h h0 hg (by omega) (by omega)
  rw [(runData_ledger P o s b t price).2.2.2.2 ht] at hr
  obtain ⟨com, ci, hcom, hf, hci, hmin, hcn, hf2, hp, hc, hcm, hex⟩ := burn_funds P o s t price rd hr
  rw [hg] at hcom hf
  have hce := calcCommission_base P o s price com hcom
  subst hce
  have hm := hshape hp hc hcm _ _ (hex none)
  have hplan : out.plan = [.addBal t.sender 0 (-price), .addRewards price, .addVolume (t.nat "d.Coin") (-(t.int "d.Value")),
      .addBal t.sender (t.nat "d.Coin") (-(t.int "d.Value")), .setNonce t.sender t.nonce] := by
    simp [Outcome.plan, hm, planOf, Move.prims, Prim.isAdmin, hcn]
  rw [hplan] at ha
  have hne : ((0 : Nat) == t.nat "d.Coin") = false := by simpa using (fun x : 0 = t.nat "d.Coin" => hcn x.symm)
  simp only [TxIn.addIfGas, hg, hne, Bool.false_eq_true, if_false] at hf2
  apply amounts_ledger s s' _ hok _ _ _ ha
  · intro p hp'
    simp only [List.mem_cons, List.mem_nil_iff, or_false] at hp'
    rcases hp' with e | e | e | e | e <;> subst e <;> rfl
  · intro a c
    have := mint_bal t.sender (t.nat "d.Coin") price (-(t.int "d.Value")) (balanceOf s) hok.balances hcn hf (by omega) a c
    simpa [sumBal, sumBy, Prim.balDelta'] using this
  · rw [applyChecked_eq_applyAll s s' _ ha]
    simp only [applyAll, List.foldl, Prim.apply]
    intro x hx
    rcases mem_updFirst_find _ _ _ _ hx with hx' | ⟨y, hy, rfl⟩
    · exact hok.coins x hx'
    · unfold getCoin at hci
      rw [hci] at hy
      injection hy with hy
      subst hy
      have hy' := hok.coins ci (findFirst_mem _ _ _ hci).1
      exact ⟨by simp only; omega, hy'.2.1, by simp only; omega⟩

/-! ### Multisend (13) -/

def itemPrims (S : Addr) (items : List (Coin × Addr × Int)) : List Prim :=
  items.flatMap (fun it => [Prim.addBal S it.1 (-it.2.2), Prim.addBal it.2.1 it.1 it.2.2])

/-- The transfers of a multisend lower only the sender's balances, by at most the per-coin totals. -/
theorem items_sumBal (S : Addr) (items : List (Coin × Addr × Int)) (hv : ∀ it ∈ items, 0 ≤ it.2.2) (a : Addr) (c : Coin) :
    -(if S = a then sumFor items c else 0) ≤ sumBal a c (itemPrims S items) := by
  induction items with
  | nil => simp [itemPrims, sumBal, sumBy, sumFor]
  | cons it t ih =>
    have h1 := ih (fun x hx => hv x (List.mem_cons_of_mem _ hx))
    have h0 := hv it (List.mem_cons_self ..)
    simp only [itemPrims, List.flatMap_cons, sumBal, sumBy_append, sumBy, Prim.balDelta', sumFor] at h1 ⊢
    by_cases ha : S = a <;> by_cases hc : it.1 = c <;> by_cases hta : it.2.1 = a <;>
      simp only [ha, hc, hta, and_self, and_true, true_and, and_false, false_and, if_true, if_false, beq_iff_eq] at h1 ⊢ <;>
      omega

theorem sumFor_zero (items : List (Coin × Addr × Int)) (c : Coin) (h : ∀ it ∈ items, it.1 ≠ c) : sumFor items c = 0 := by
  induction items with
  | nil => rfl
  | cons it t ih =>
    simp only [sumFor, sumBy]
    have h1 : (it.1 == c) = false := by simpa using h it (List.mem_cons_self ..)
    simp only [h1, Bool.false_eq_true, if_false]
    have := ih (fun x hx => h x (List.mem_cons_of_mem _ hx))
    simp only [sumFor] at this
    omega

theorem multisend_funds (P : Params) (o : Oracle) (s : State) (t : TxIn) (price : Int) (rd : Ready)
    (h : runMultisend P o s t price = .ok (.ok rd)) :
    ∃ com, calcCommission P o s t.gasCoin price = .ok (.ok com) ∧
      (∀ c, c = t.gasCoin ∨ (∃ it ∈ parseMultisend (t.str "d.List"), it.1 = c) →
        sumFor (parseMultisend (t.str "d.List")) c + (if c == t.gasCoin then com.commission else 0) ≤ balanceOf s t.sender c) ∧
      rd.payer = t.sender ∧ rd.coin = t.gasCoin ∧ rd.com = com ∧
      ∀ adj, rd.exec adj = .ok ((parseMultisend (t.str "d.List")).map (fun it => Move.transfer t.sender it.2.1 it.1 it.2.2), []) := by
  unfold runMultisend at h
  simp only at h
  split at h
  · cases h
  split at h
  · cases h
  obtain ⟨com, hcom, hk⟩ := withCom_ready _ _ _ _ _ _ _ h
  split at hk
  · cases hk
  rename_i hshort
  obtain ⟨hp, hc, hcm, _, hex⟩ := ready_eq _ _ _ _ _ hk
  refine ⟨com, hcom, ?_, hp, hc, hcm, hex⟩
  intro c hc'
  have hmem : c ∈ (t.gasCoin :: (parseMultisend (t.str "d.List")).map (·.1)).eraseDups := by
    rw [List.mem_eraseDups, List.mem_cons, List.mem_map]
    rcases hc' with e | ⟨it, hit, e⟩
    · left; exact e
    · right; exact ⟨it, hit, e⟩
  have hns : ¬ ((t.gasCoin :: (parseMultisend (t.str "d.List")).map (·.1)).eraseDups.any
      (fun c => decide (balanceOf s t.sender c < sumFor (parseMultisend (t.str "d.List")) c + (if (c == t.gasCoin) = true then com.commission else 0))) = true) := hshort
  simp only [List.any_eq_true, decide_eq_true_eq, not_exists, not_and, Int.not_lt] at hns
  exact hns c hmem

theorem planOf_transfers (S : Addr) (items : List (Coin × Addr × Int)) :
    planOf (items.map (fun it => Move.transfer S it.2.1 it.1 it.2.2)) = itemPrims S items := by
  induction items with
  | nil => rfl
  | cons it t ih =>
    simp only [List.map_cons, planOf, List.flatMap_cons, Move.prims, itemPrims] at ih ⊢
    rw [ih]

/-- **C02 (Multisend, base-coin gas).** -/
theorem C02_partial_multisend (P : Params) (o : Oracle) (s s' : State) (b : Nat) (t : TxIn) (out : Outcome)
    (ht : t.typ = 13) (hg : t.gasCoin = 0) (hv : ∀ it ∈ parseMultisend (t.str "d.List"), 0 ≤ it.2.2)
    (h : deliverTx P o s b t = .ok out) (h0 : out.code = 0) (ha : applyChecked s out.plan = some s')
    (hok : AmountsOk s) : AmountsOk s' := by
  obtain ⟨price, rd, hp0, hr, hshape⟩ := deliver_base_gas P o s b t out h h0 hg (by omega) (by omega)
  rw [(runData_ledger P o s b t price).2.1 ht] at hr
  obtain ⟨com, hcom, hf, hp, hc, hcm, hex⟩ := multisend_funds P o s t price rd hr
  rw [hg] at hcom hf
  have hce := calcCommission_base P o s price com hcom
  subst hce
  have hm := hshape hp hc hcm _ _ (hex none)
  have hplan : out.plan = [.addBal t.sender 0 (-price), .addRewards price] ++ itemPrims t.sender (parseMultisend (t.str "d.List")) ++
      [.setNonce t.sender t.nonce] := by
    rw [Outcome.plan, hm]
    simp only [planOf, List.flatMap_append, List.flatMap_cons, List.flatMap_nil, Move.prims, List.append_nil]
    have := planOf_transfers t.sender (parseMultisend (t.str "d.List"))
    simp only [planOf] at this
    rw [this]
    simp [Prim.isAdmin]
  rw [hplan] at ha
  apply amounts_balOnly s s' _ hok _ _ ha
  · intro p hp'
    simp only [List.mem_append, List.mem_cons, List.mem_nil_iff, or_false, itemPrims, List.mem_flatMap] at hp'
    rcases hp' with ((e | e) | ⟨it, _, e | e⟩) | e <;> subst e <;> rfl
  · intro a c
    have hitems := items_sumBal t.sender (parseMultisend (t.str "d.List")) hv a c
    have hx := hok.balances a c
    simp only [sumBal_append]
    have hfee : sumBal a c [Prim.addBal t.sender 0 (-price), Prim.addRewards price] = if t.sender = a ∧ 0 = c then -price else 0 := by
      simp [sumBal, sumBy, Prim.balDelta']
    have hn : sumBal a c [Prim.setNonce t.sender t.nonce] = 0 := by simp [sumBal, sumBy, Prim.balDelta']
    rw [hfee, hn]
    by_cases hs : t.sender = a
    · subst hs
      simp only [if_true, true_and] at hitems ⊢
      by_cases hcin : c = 0 ∨ ∃ it ∈ parseMultisend (t.str "d.List"), it.1 = c
      · have := hf c hcin
        by_cases hc0 : 0 = c
        · subst hc0; simp only [beq_self_eq_true, if_true] at this ⊢; omega
        · have hne : (c == 0) = false := by simpa using (fun e : c = 0 => hc0 e.symm)
          simp only [hne, Bool.false_eq_true, if_false, hc0] at this ⊢
          omega
      · simp only [not_or, not_exists, not_and] at hcin
        have hz := sumFor_zero (parseMultisend (t.str "d.List")) c (fun it hit => hcin.2 it hit)
        have hc0 : ¬ (0 = c) := fun e => hcin.1 e.symm
        simp only [hc0, if_false]
        omega
    · simp only [hs, if_false, false_and] at hitems ⊢
      omega

/-- **C02 (partial): Send (1), Multisend (13), EditCoinOwner (17), MintToken (28), BurnToken (29)** accepted with the commission
    paid in the base coin preserve `AmountsOk` (the decoded amounts being non-negative, as RLP guarantees). -/
theorem C02_partial_1_13_17_28_29 (P : Params) (o : Oracle) (s s' : State) (b : Nat) (t : TxIn) (out : Outcome)
    (ht : t.typ = 1 ∨ t.typ = 13 ∨ t.typ = 17 ∨ t.typ = 28 ∨ t.typ = 29) (hg : t.gasCoin = 0)
    (hv : 0 ≤ t.int "d.Value") (hvs : ∀ it ∈ parseMultisend (t.str "d.List"), 0 ≤ it.2.2)
    (h : deliverTx P o s b t = .ok out) (h0 : out.code = 0) (ha : applyChecked s out.plan = some s')
    (hok : AmountsOk s) : AmountsOk s' := by
  rcases ht with e | e | e | e | e
  · exact C02_partial_send P o s s' b t out e hg hv h h0 ha hok
  · exact C02_partial_multisend P o s s' b t out e hg hvs h h0 ha hok
  · exact C02_partial_edit_owner P o s s' b t out e hg h h0 ha hok
  · exact C02_partial_mint P o s s' b t out e hg hv h h0 ha hok
  · exact C02_partial_burn P o s s' b t out e hg hv h h0 ha hok

/-! Non-vacuity (interpreter): the accepted Send of C01 starts and ends in states that satisfy the monitor. -/
def c02State : State :=
  { balances := [((1, 0), 1000000000000000000000), ((1, 7), 500)],
    coins := [{ id := 7, symbol := "TOK", version := 0, volume := 500, reserve := 0, crr := 0, maxSupply := 1000, owner := some 1, mintable := true, burnable := true }],
    commission := [("send", 10000000000000000), ("payload_byte", 2000000000000000), ("failed_tx", 10000000000000000)] }
def c02Tx : TxIn :=
  { dec := true, rawLen := 100, typ := 1, nonce := 1, chain := 2, gasPrice := 1, gasCoin := 0, sigType := 1, sigOk := true, sender := 1,
    f := [("d.Coin", "7"), ("d.To", "02"), ("d.Value", "200")] }

#guard amountsOk c02State &&
  (match deliverTx {} (fun _ => none) c02State 10200001 c02Tx with
   | .ok out => out.code == 0 && (match applyChecked c02State out.plan with | some s1 => amountsOk s1 | none => false)
   | .error _ => false)

end Minter
