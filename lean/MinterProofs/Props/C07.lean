import MinterProofs.Props.C13
/-
  C07 — No input can crash the node: the panic sites the model represents, each shown unreachable.
  The model marks every place where the Go code panics with an explicit fault value (`Quote.panic`, `Stop.panic`, `Fault`);
  a theorem per site shows the fault cannot be produced from the states/inputs that reach it.
  This file: the two `panic(err)` sites inside `calculateBuyForSellWithOrders` / `calculateSellForBuyWithOrders`
  (the swap check after a quote) for pools without orders. Other sites are covered where their component lives:
  limit-order arithmetic (`Lob.ratInt_eq_ediv`: both "neg" panics dead), reward payout remainder (C19), events store
  (`C24_run_total`), RLP decoding (total function, `Rlp.decode_fuel_irrelevant`), BeginBlock (`begin_total` family in C16/C18).
  PARTIAL: nil dereferences / index errors in glue code that the model does not represent, resource exhaustion and
  third-party library panics are only searched for (recover() around every ABCI call on generated and malformed input).
-/
namespace Minter

/-- The quote computed by `CalculateBuyForSell` always passes the node's own swap check: the `panic(err)` after it is dead code. -/
theorem C07_bfs_no_panic (r0 r1 a : Int) (h0 : 0 < r0) (h1 : 0 < r1) (ha : 0 ≤ a) :
    ∀ w, bfsNoOrders r0 r1 a ≠ .panic w := by
  intro w
  unfold bfsNoOrders
  split
  · intro h; cases h
  · next hne =>
    have hpos : 0 < a := by omega
    split
    · intro h; cases h
    · next d hd =>
      obtain ⟨hd0, hd1, hk, _⟩ := buyForSell_K r0 r1 a d h0 h1 hpos hd
      have hc : checkSwap r0 r1 a d = none := by
        unfold checkSwap
        have e1 : ¬ (0 > r0 ∨ d > r1) := by omega
        have e2 : ¬ (d ≤ 0) := by omega
        have e3 : ¬ (a ≤ 0 ∧ 0 - d ≤ 0) := by omega
        have e4 : (0 - d + r1) * 1000 = (r1 - d) * 1000 := by ring
        simp only [e1, e2, e3, if_false, e4]
        have : ¬ (((a + r0) * 1000 - a * 2) * ((r1 - d) * 1000) < r0 * r1 * 1000000) := by omega
        simp only [this, if_false]
      rw [hc]
      intro h; cases h

/-- Same for the buy side: the input `CalculateSellForBuy` asks for always passes the swap check. -/
theorem C07_sfb_no_panic (r0 r1 out : Int) (h0 : 0 < r0) (h1 : 0 < r1) (ho : 0 ≤ out) :
    ∀ w, sfbNoOrders r0 r1 out ≠ .panic w := by
  intro w
  unfold sfbNoOrders
  split
  · intro h; cases h
  · next hne =>
    have hpos : 0 < out := by omega
    split
    · split <;> (intro h; cases h)
    · next d hd =>
      obtain ⟨ho1, hd0, hk, _⟩ := sellForBuy_K r0 r1 out d h0 h1 hpos hd
      have hc : checkSwap r0 r1 d out = none := by
        unfold checkSwap
        have e1 : ¬ (0 > r0 ∨ out > r1) := by omega
        have e2 : ¬ (out ≤ 0) := by omega
        have e3 : ¬ (d ≤ 0 ∧ 0 - out ≤ 0) := by omega
        have e4 : (0 - out + r1) * 1000 = (r1 - out) * 1000 := by ring
        simp only [e1, e2, e3, if_false, e4]
        have : ¬ (((d + r0) * 1000 - d * 2) * ((r1 - out) * 1000) < r0 * r1 * 1000000) := by omega
        simp only [this, if_false]
      rw [hc]
      intro h; cases h

/-- The public quotes (with the 0.1 % burn) inherit it. -/
theorem C07_quote_no_panic (r0 r1 a : Int) (h0 : 0 < r0) (h1 : 0 < r1) (ha : 0 ≤ a) :
    (∀ w, quoteBuyForSell r0 r1 a ≠ .panic w) ∧ (∀ w, quoteSellForBuy r0 r1 a ≠ .panic w) := by
  constructor
  · intro w
    unfold quoteBuyForSell
    simp only
    split
    · next hp =>
      have : 0 ≤ a - com1000 a := by
        unfold com1000
        have h1000 : Int.tdiv a 1000 = a / 1000 := Int.tdiv_eq_ediv_of_nonneg ha
        have hm : Int.tmod a 1000 = a % 1000 := Int.tmod_eq_emod_of_nonneg ha
        rw [h1000, hm]
        split <;> omega
      exact C07_bfs_no_panic r0 r1 _ h0 h1 this w
    · exact C07_bfs_no_panic r0 r1 a h0 h1 ha w
  · intro w
    unfold quoteSellForBuy
    have := C07_sfb_no_panic r0 r1 a h0 h1 ha
    split
    · split <;> (intro h; cases h)
    · next q hq =>
      intro h
      rw [h] at hq
      -- `q = .panic w` would have to come from sfbNoOrders, which never panics
      cases hs : sfbNoOrders r0 r1 a with
      | nil => simp_all
      | val v => simp_all
      | panic w' => exact this w' hs

example : bfsNoOrders 1000000 2000000 1000 = .val 1994 := by decide

end Minter
