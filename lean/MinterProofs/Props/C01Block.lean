import MinterProofs.BlockPlans
import MinterProofs.BlockRecalc
import MinterProofs.BlockBegin
import MinterProofs.Props.C01
import MinterProofs.Props.C18
/-
  C01 at block level — "For every custom coin, at every committed height, the coin's recorded volume equals the sum of all its
  holdings (balances, stakes, pending stake updates, waitlist, frozen funds, pool reserves, unfilled limit-order escrow).  For the
  base coin, the same total plus bancor-coin reserves, validators' accumulated rewards and the total-slashed pool changes across
  a block by exactly the amount the node adds to its emission counter for that block.  No transaction, fee, slash, reward
  payout, order match or expiry creates or destroys value in any other way."

  Objects: `endBlock`, `blockRun` / `blockStep`, `runBlocks` of MinterModel/Block.lean.

    endBlock_conserves   every state, every request (incl. every `bipOf`, every tally result): per custom coin volume − holdings
                         changes by exactly the named drop term, and
                           baseTotal after − (baseTotal + fee pool) before = emission after − emission before + defect.base
                         where `defect.base = overMint − lost − dropped(base coin) − goneNonPos − carry` are the five places
                         where the code can mint or burn outside the emission counter (`EndDefect`), each an explicit function
                         of the state;
    C01_block_books      the same across BeginBlock ; deliveries ; EndBlock, for every oracle;
    C01_block            a block whose EndBlock reports no defect keeps `Conserved` and moves the base total by exactly the
                         emission delta;
    C01_run_books / C01_main   any number of blocks from any state (genesis hypothesis: `Conserved s₀`, which is what
                         `AppState.Verify` checks coin by coin, Props/C11.lean `verified_volumes`);
    endDefect_zero_*     each defect vanishes under the invariant that excludes it (reward ≤ safeReward: C28; `PayOK`: C19;
                         no negative pending update / accumulated reward: C02; pairwise different public keys: C22/C17).

  Hypotheses: NONE on the oracle (conservation does not care what `saleReturn` answers), none on `bipOf`, none on the votes,
  evidence, transactions or tallies.  `0 < P.unbond` (a constant of the chain: 518400 / 531) is needed by `begin_conserves`.
-/
namespace Minter


theorem endTallyStep_books (s : State) (req : EndReq) :
    (∀ c, holdings (endTallyStep s req) c = holdings s c) ∧ (∀ c, volumeOf (endTallyStep s req) c = volumeOf s c) ∧
    baseTotal (endTallyStep s req) = baseTotal s ∧ (endTallyStep s req).emission = s.emission :=
  ⟨fun _ => rfl, fun _ => rfl, rfl, rfl⟩

theorem endBlock_conserves (P : Params) (s s' : State) (req : EndReq) (out : EndOut)
    (h : endBlock P s req = .ok (s', out)) :
    (∀ c, c ≠ 0 → volumeOf s' c - holdings s' c = volumeOf s c - holdings s c + droppedOf c out.defect) ∧
    baseTotal s' - (baseTotal s + s.rewardsPool) = (s'.emission - s.emission) + out.defect.base := by
  unfold endBlock at h
  split at h
  · cases h
  simp only [] at h
  generalize hexp : (if expireDue P req.height = true then
      expiredOrders (accrueStep s req.signed (Rules.blockEmission s.emission req.cap s.reward s.safeReward)) (req.height - P.expire)
      else []) = expired at h
  obtain ⟨a1, a2, a3, a4⟩ := accrueStep_books s req.signed (Rules.blockEmission s.emission req.cap s.reward s.safeReward)
  generalize accrueStep s req.signed (Rules.blockEmission s.emission req.cap s.reward s.safeReward) = s1 at *
  cases h2 : applyPlan s1 (expirePlan expired) with
  | error err => simp only [h2] at h; cases h
  | ok s2 =>
    simp only [h2] at h
    obtain ⟨b1, b2, b3⟩ := plan_books s1 s2 _ (applyPlan_ok _ _ _ h2)
    generalize hpays : (if (req.height % P.period == 0) = true then
        payoutsOf s2 (if decide (s.emission < req.cap) = true then req.height else maxUint64) ↑P.period else []) = pays at h
    have hbal : ∀ x ∈ pays, paidTotal x.out.payments + x.out.remainder + x.out.lost = x.val.accum + x.out.more := by
      intro x hx
      rw [← hpays] at hx
      split at hx
      · exact payoutsOf_balance _ _ _ x hx
      · cases hx
    have hnil : (req.height % P.period == 0) = false → pays = [] := by
      intro hb; rw [← hpays, hb]; rfl
    split at h
    · cases h
    cases h3 : applyPlan s2 (if (req.height % P.period == 0) = true then payPlan pays else []) with
    | error err => simp only [h3] at h; cases h
    | ok s3 =>
      simp only [h3] at h
      obtain ⟨c1, c2, c3⟩ := plan_books s2 s3 _ (applyPlan_ok _ _ _ h3)
      obtain ⟨p1, p2, p3, p4, p5⟩ := payStep_sums (req.height % P.period == 0) pays hnil hbal
      cases h4 : applyPlan s3 (if decide (s.emission < req.cap) = true then
          emitPlan s.emission (Rules.blockEmission s.emission req.cap s.reward s.safeReward) else []) with
      | error err => simp only [h4] at h; cases h
      | ok s4 =>
        simp only [h4] at h
        obtain ⟨d1, d2, d3⟩ := plan_books s3 s4 _ (applyPlan_ok _ _ _ h4)
        obtain ⟨e1, e2, e3, e4, e5, e6⟩ := emitStep_sums s.emission req.cap s.reward s.safeReward
        obtain ⟨t1, t2, t3, t4⟩ := endTallyStep_books s4 req
        obtain ⟨x1, x2, x3, x4, x5⟩ := expirePlan_sums expired 0
        generalize hps : (if (req.height % P.period == 0) = true then payPlan pays else []) = ps at *
        generalize hes : (if decide (s.emission < req.cap) = true then
            emitPlan s.emission (Rules.blockEmission s.emission req.cap s.reward s.safeReward) else []) = es at *
        -- the custom coins up to the tallies
        have hcust : ∀ c, c ≠ 0 → volumeOf (endTallyStep s4 req) c - holdings (endTallyStep s4 req) c = volumeOf s c - holdings s c := by
          intro c hc
          obtain ⟨y1, y2, _, _, _⟩ := expirePlan_sums expired c
          have := b1 c; have := c1 c; have := d1 c; have := p1 c hc; have := p3 c; have := e1 c hc; have := e3 c
          have := a1 c; have := a2 c
          rw [t1 c, t2 c]
          omega
        have hbase : baseTotal (endTallyStep s4 req) = baseTotal s + s.rewardsPool
            + (Rules.blockEmission s.emission req.cap s.reward s.safeReward).toValidators
            + (Rules.blockEmission s.emission req.cap s.reward s.safeReward).toZero + moreOf pays - lostOf pays := by
          rw [t3]; omega
        have hem : (endTallyStep s4 req).emission = s.emission + moreOf pays
            + ((Rules.blockEmission s.emission req.cap s.reward s.safeReward).emission - s.emission) := by
          rw [t4]; omega
        generalize endTallyStep s4 req = s5 at *
        split at h
        · cases h
          obtain ⟨u1, u2, u3, u4, u5⟩ := valUpdateStep_books P req.bipOf req.height s5
          refine ⟨fun c hc => ?_, ?_⟩
          · rw [u1 c, u2 c]
            have := hcust c hc
            simp only [droppedOf]
            omega
          · have u10 := u1 0
            simp only [baseTotal, EndDefect.base, droppedOf] at *
            omega
        · cases h
          refine ⟨fun c hc => ?_, ?_⟩
          · have := hcust c hc
            simp only [droppedOf, sumBy]
            omega
          · simp only [EndDefect.base, droppedOf, sumBy]
            omega


/-! ## Transactions of a block -/

theorem balanced_books (s s' : State) (ps : List Prim) (hb : Balanced ps) (h : applyChecked s ps = some s') :
    (∀ c, c ≠ 0 → volumeOf s' c - holdings s' c = volumeOf s c - holdings s c) ∧
    baseTotalP s' - baseTotalP s = s'.emission - s.emission := by
  constructor
  · intro c hc
    rw [checked_holdings _ _ _ c h, checked_volume _ _ _ c h]
    have := hb.1 c hc
    omega
  · rw [baseTotalP_eq, baseTotalP_eq, checked_holdings _ _ _ 0 h, checked_side _ _ _ h, checked_emission _ _ _ h]
    have := hb.2
    omega

/-- The deliveries of a block (any transactions, any oracle, no hypothesis on the state): every custom coin keeps
    volume − holdings, the base total including the fee pool and the emission counter do not move. -/
theorem deliverTxs_books (P : Params) (o : Oracle) (block : Nat) (txs : List TxIn) (s s' : State)
    (h : deliverTxs P o block s txs = .ok s') :
    (∀ c, c ≠ 0 → volumeOf s' c - holdings s' c = volumeOf s c - holdings s c) ∧
    baseTotalP s' = baseTotalP s ∧ s'.emission = s.emission := by
  induction txs generalizing s with
  | nil => simp only [deliverTxs] at h; cases h; exact ⟨fun _ _ => rfl, rfl, rfl⟩
  | cons t ts ih =>
    simp only [deliverTxs] at h
    split at h
    · cases h
    · next out hd =>
      split at h
      · cases h
      · next s1 ha =>
        obtain ⟨k1, k2⟩ := balanced_books s s1 out.plan (planOf_balanced out.moves) ha
        have he := checked_emission s s1 out.plan ha
        have h0 := planOf_no_emission out.moves
        simp only [Outcome.plan] at he
        obtain ⟨i1, i2, i3⟩ := ih s1 h
        refine ⟨fun c hc => ?_, by omega, by omega⟩
        rw [i1 c hc, k1 c hc]

/-! ## One block -/

/-- **C01, one block, every state.**  BeginBlock ; deliveries ; EndBlock: per custom coin volume − holdings changes by the
    drop term only, and the base total changes by the emission delta plus the named defects of EndBlock. -/
theorem C01_block_books (P : Params) (o : Oracle) (s s' : State) (b : BlockReq) (out : EndOut) (hu : 0 < P.unbond)
    (h : blockRun P o s b = .ok (s', out)) :
    (∀ c, c ≠ 0 → volumeOf s' c - holdings s' c = volumeOf s c - holdings s c + droppedOf c out.defect) ∧
    baseTotal s' - baseTotal s = (s'.emission - s.emission) + out.defect.base := by
  unfold blockRun at h
  cases hB : beginBlock P o s b.beginReq b.grace with
  | error e => simp only [hB] at h; cases h
  | ok rB =>
    obtain ⟨sB, evB⟩ := rB
    simp only [hB] at h
    cases hD : deliverTxs P o b.beginReq.height sB b.txs with
    | error e => simp only [hD] at h; cases h
    | ok sD =>
      simp only [hD] at h
      obtain ⟨g1, g2⟩ := begin_conserves P o s sB b.beginReq b.grace evB hu hB
      obtain ⟨g3, g4⟩ := beginBlock_mint P o s sB b.beginReq b.grace evB hB
      obtain ⟨k1, k2, k3⟩ := deliverTxs_books P o _ _ _ _ hD
      obtain ⟨e1, e2⟩ := endBlock_conserves P sD s' b.endReq out h
      refine ⟨fun c hc => ?_, ?_⟩
      · rw [e1 c hc, k1 c hc, g1 c hc]
      · simp only [baseTotalP] at k2
        omega

/-- A defect that `isZero` contributes nothing to any coin. -/
theorem EndDefect.zero_of_isZero (d : EndDefect) (h : d.isZero = true) : d.base = 0 ∧ ∀ c, droppedOf c d = 0 := by
  simp only [EndDefect.isZero, Bool.and_eq_true, beq_iff_eq, List.all_eq_true] at h
  obtain ⟨⟨⟨⟨h1, h2⟩, h3⟩, h4⟩, h5⟩ := h
  have hd : ∀ c, droppedOf c d = 0 := fun c => dropped_value_zero c d.dropped h3
  refine ⟨?_, hd⟩
  simp only [EndDefect.base, hd 0, h1, h2, h4, h5]
  omega

/-- **C01, one block.**  A block whose EndBlock reports no defect keeps volume = holdings for every custom coin and changes the
    base-coin total (holdings + bancor reserves + accumulated rewards + total slashed) by exactly what it adds to the emission
    counter — whatever the transactions, votes, evidence, oracle answers and bip values are. -/
theorem C01_block (P : Params) (o : Oracle) (s s' : State) (b : BlockReq) (out : EndOut) (hu : 0 < P.unbond)
    (h : blockRun P o s b = .ok (s', out)) (hz : out.defect.isZero = true) (hc : Conserved s) :
    Conserved s' ∧ baseTotal s' - baseTotal s = s'.emission - s.emission := by
  obtain ⟨b1, b2⟩ := C01_block_books P o s s' b out hu h
  obtain ⟨z1, z2⟩ := out.defect.zero_of_isZero hz
  refine ⟨fun c hc0 => ?_, by omega⟩
  have := b1 c hc0; have := hc c hc0; have := z2 c
  omega

/-- `blockStep` is `blockRun` without the report. -/
theorem blockStep_eq (P : Params) (o : Oracle) (s s' : State) (b : BlockReq) (h : blockStep P o s b = .ok s') :
    ∃ out, blockRun P o s b = .ok (s', out) := by
  unfold blockStep at h
  split at h
  · cases h
  · next r hr => cases h; exact ⟨r.2, hr⟩

/-! ## Any number of blocks -/

/-- **C01, any run, every state.** -/
theorem C01_run_books (P : Params) (o : Oracle) (bs : List BlockReq) (s s' : State) (ds : List EndDefect) (hu : 0 < P.unbond)
    (h : runBlocks P o s bs = .ok (s', ds)) :
    (∀ c, c ≠ 0 → volumeOf s' c - holdings s' c = volumeOf s c - holdings s c + sumBy (droppedOf c) ds) ∧
    baseTotal s' - baseTotal s = (s'.emission - s.emission) + sumBy EndDefect.base ds := by
  induction bs generalizing s ds with
  | nil => simp only [runBlocks] at h; cases h; simp [sumBy]
  | cons b t ih =>
    simp only [runBlocks] at h
    cases h1 : blockRun P o s b with
    | error e => simp only [h1] at h; cases h
    | ok r1 =>
      obtain ⟨s1, out⟩ := r1
      simp only [h1] at h
      cases h2 : runBlocks P o s1 t with
      | error e => simp only [h2] at h; cases h
      | ok r2 =>
        obtain ⟨s2, ds2⟩ := r2
        simp only [h2] at h
        cases h
        obtain ⟨b1, b2⟩ := C01_block_books P o s s1 b out hu h1
        obtain ⟨i1, i2⟩ := ih s1 ds2 h2
        refine ⟨fun c hc => ?_, ?_⟩
        · rw [i1 c hc, b1 c hc]; simp only [sumBy]; omega
        · simp only [sumBy]; omega

/-- **C01 (main).**  From any state in which every custom coin's volume equals its holdings (the genesis hypothesis: what
    `AppState.Verify` establishes coin by coin), after any sequence of blocks — any votes, evidence, transactions, oracle answers,
    bip values, tallies — whose EndBlocks report no defect: every custom coin's volume still equals its holdings, and the base-coin
    total has changed by exactly the change of the emission counter. -/
theorem C01_main (P : Params) (o : Oracle) (bs : List BlockReq) (s s' : State) (ds : List EndDefect) (hu : 0 < P.unbond)
    (h : runBlocks P o s bs = .ok (s', ds)) (hz : ∀ d ∈ ds, d.isZero = true) (hc : Conserved s) :
    Conserved s' ∧ baseTotal s' - baseTotal s = s'.emission - s.emission := by
  obtain ⟨r1, r2⟩ := C01_run_books P o bs s s' ds hu h
  have hb : sumBy EndDefect.base ds = 0 := by
    rw [sumBy_congr_mem _ (fun _ => 0) _ (fun d hd => (d.zero_of_isZero (hz d hd)).1), sumBy_zero]
  have hd : ∀ c, sumBy (droppedOf c) ds = 0 := by
    intro c
    rw [sumBy_congr_mem _ (fun _ => 0) _ (fun d hd => (d.zero_of_isZero (hz d hd)).2 c), sumBy_zero]
  refine ⟨fun c hc0 => ?_, by omega⟩
  have := r1 c hc0; have := hc c hc0; have := hd c
  omega

/-! ## When the defects vanish -/

/-- `overMint` is zero at the cap and whenever `reward ≤ safeReward` (C28 `reward_le_safeReward`). -/
theorem endDefect_zero_overMint (em cap rw sf : Int) (h : cap ≤ em ∨ rw ≤ sf) :
    (Rules.blockEmission em cap rw sf).toValidators + (Rules.blockEmission em cap rw sf).toZero
      - ((Rules.blockEmission em cap rw sf).emission - em) = 0 := by
  rw [overMint_eq]
  split
  · next hh => omega
  · rfl

/-- `lost` is zero when every payout input satisfies `PayOK` (C19). -/
theorem endDefect_zero_lost (s : State) (hpay : Nat) (period : Int)
    (hok : ∀ v ∈ s.validators, ∀ c ∈ s.candidates,
      PayOK (payInOf s hpay period (totalAccum s) (if totalAccum s > 0 then 0 else sumBy (fun v => v.totalBip) s.validators) v c)) :
    lostOf (payoutsOf s hpay period) = 0 := by
  unfold lostOf
  rw [sumBy_congr_mem _ (fun _ => 0) _ ?_, sumBy_zero]
  intro x hx
  simp only [payoutsOf, List.mem_filterMap] at hx
  obtain ⟨v, hv, hx⟩ := hx
  split at hx
  · cases hx
  · next c hc =>
    cases hx
    have hmem : c ∈ s.candidates := by
      clear hok
      generalize s.candidates = l at hc
      induction l with
      | nil => simp [findFirst] at hc
      | cons y t ih =>
        simp only [findFirst] at hc
        split at hc
        · cases hc; exact List.mem_cons_self
        · exact List.mem_cons_of_mem _ (ih hc)
    have hp := hok v hv c hmem
    simp only [payout]
    exact (foldl_ok _ hp _ hp.bips _).1

/-- The three defects of `updateValidators` vanish when no pending update and no accumulated reward is negative and the public
    keys of the validators and of the candidates are pairwise different. -/
theorem endDefect_zero_valUpdate (P : Params) (b : Coin → Int → Int) (height : Nat) (s : State)
    (hup : ∀ cd ∈ s.candidates, ∀ u ∈ cd.updates, 0 ≤ u.value)
    (hacc : ∀ v ∈ s.validators, 0 ≤ v.accum)
    (hvk : (s.validators.map (·.pubkey)).Nodup) (hck : (s.candidates.map (·.pubkey)).Nodup) :
    (∀ u ∈ (valUpdateStep P b height s).dropped, u.value = 0) ∧
    (valUpdateStep P b height s).goneNonPos = 0 ∧ (valUpdateStep P b height s).carry = 0 := by
  refine ⟨droppedAll_zero b s.candidates hup, goneNonPos_zero _ _ hacc, ?_⟩
  apply carry_zero _ _ hvk
  -- the selected candidates are a sub-list of a permutation of the recalculated candidates, which keep their keys
  have hmap : (recalcedCands b s.candidates).map (·.pubkey) = s.candidates.map (·.pubkey) := by
    simp [recalcedCands, recalcCand]
  have hk : ((keptCands s.validators (recalcedCands b s.candidates)).map (·.pubkey)).Nodup := by
    apply List.Nodup.sublist (List.Sublist.map _ List.filter_sublist)
    rw [hmap]; exact hck
  unfold selectValidators
  apply List.Nodup.sublist (List.Sublist.map _ (List.take_sublist _ _))
  apply List.Nodup.sublist (List.Sublist.map _ List.filter_sublist)
  exact ((List.Perm.map _ (sortStable_perm candLess _)).nodup_iff).mpr hk

/-! ## Non-vacuity -/

def exBip : Int := 1000000000000000000000
/-- One validator (key 7, Tendermint address 70, accumulated 1000) whose candidate (id 1, commission 10 %, reward address 21)
    holds the owner's own stake (address 11, 2000 BIP) and one delegator's (address 12, 1000 BIP); reward 100, safe reward 120.
    The stale fee pool 77 of the previous block is reset by BeginBlock. -/
def exBlockState : State :=
  { validators := [{ pubkey := 7, totalBip := 3 * exBip, accum := 1000, absent := List.replicate 24 false, tmAddr := 70 }],
    candidates := [{ id := 1, pubkey := 7, owner := 11, reward := 21, control := 11, commission := 10, status := 2, jailedUntil := 0,
                     lastEditCommission := 0, totalBip := 3 * exBip,
                     stakes := [{ owner := 11, coin := 0, value := 2 * exBip, bip := 2 * exBip }, { owner := 12, coin := 0, value := exBip, bip := exBip }],
                     updates := [] }],
    balances := [((12, 0), 5)],
    reward := 100, safeReward := 120, emission := 1000000, rewardsPool := 77 }

/-- Height 10 200 012 is a payout block (period 12); the validator signed; no transactions. -/
def exPayoutBlock : BlockReq :=
  { beginReq := { height := 10200012, votes := [(70, true)] },
    endReq := { height := 10200012, signed := [70] } }

/-- Δ base total, Δ emission, "no defect", accumulated rewards, zero-address balance, total slashed; then the stakes
    (owner, value) of the candidate after the block. -/
def exBlockView (r : M (State × EndOut)) : List Int × List (Nat × Int) :=
  match r with
  | .ok (s', out) =>
    ([baseTotal s' - baseTotal exBlockState, s'.emission - exBlockState.emission, if out.defect.isZero then 1 else 0]
      ++ s'.validators.map (·.accum) ++ [Bag.get s'.balances (0, 0), s'.slashed],
     (s'.candidates.flatMap (·.stakes)).map (fun st => (st.owner, st.value)))
  | .error _ => ([], [])

example : Conserved exBlockState := by
  intro c hc
  simp [exBlockState, volumeOf, holdings, sumBy, Bag.sumIf, candHoldings, stakeOf, hc]
  omega

/-- **The hypotheses of `C01_block` / `C01_main` are met by a payout block**: the block runs, reports no defect, the pot 100 and
    the accumulated 1000 are paid out (10 % DAO, 10 % developers, 10 % commission of the rest, delegators 2 : 1) and merged into
    the stakes, 20 = 120 − 100 go to the zero address, the validator keeps its place with nothing accumulated,
    and the base total grows by exactly the 120 added to the emission counter. -/
theorem C01_block_example : exBlockView (blockRun {} (fun _ => none) exBlockState exPayoutBlock)
    = ([120, 120, 1, 0, 20, 0], [(11, 2 * exBip + 528), (12, exBip + 264), (daoAddress, 110), (devAddress, 110), (21, 88)]) := by
  decide +kernel

/-- **The defect terms are not decoration**: the same validator in an ordinary block with `reward` 150 above `safeReward` 120 —
    the base total grows by 150, the emission counter by 120, and EndBlock reports `overMint = 30`
    (`endBlock_conserves` holds with that term; `C01_block` does not apply). -/
def exOverState : State := { exBlockState with candidates := [], reward := 150, rewardsPool := 0 }

theorem C01_defect_example :
    (match endBlock {} exOverState { height := 10200013, signed := [70] } with
     | .ok (s', out) => [baseTotal s' - baseTotal exOverState, s'.emission - exOverState.emission, out.defect.overMint, out.defect.base]
     | .error _ => []) = [150, 120, 30, 30] := by
  decide +kernel

end Minter
