import MinterProofs.AmountsTypes
import MinterProofs.AmountsMoves
import MinterProofs.Props.C21
/-
  C02, transaction types that move value (ledger part): Send, Multisend, RedeemCheck, Create/Recreate coin and token, Mint/Burn token,
  Lock, DeclareCandidacy, Delegate — every commission route.
-/
namespace Minter

/-- The handler's own moves are safe in any state the commission payment can leave. -/
def BodySafe (s : State) (rd : Ready) : Prop :=
  ∀ s1 adj body tags, FeeFrame s s1 rd.payer rd.coin rd.com adj → AmountsOk s1 → rd.exec adj = .ok (body, tags) → PlanSafe s1 (planOf body)

/-- **Accepted delivery of a checked handler whose own moves are safe after the commission.** -/
theorem typed_preserves (P : Params) (o : Oracle) (s s' : State) (b : Nat) (t : TxIn) (out : Outcome)
    (ho : OracleSound o) (hP : 0 ≤ P.minReserve)
    (hspec : ∀ price rd, 0 ≤ price → runData P o s b t price = .ok (.ok rd) → Checked P o s price rd ∧ BodySafe s rd)
    (h : deliverTx P o s b t = .ok out) (h0 : out.code = 0) (ha : applyChecked s out.plan = some s')
    (hok : AmountsOk s) : AmountsOk s' := by
  obtain ⟨price, rd, paid, body, tags, s1, s2, hp, hr, hpay, he, h1, h2, hfin⟩ := deliver_stages P o s s' b t out h h0 ha
  obtain ⟨hck, hbody⟩ := hspec price rd hp hr
  obtain ⟨hok1, hfr⟩ := fee_stage P o s s1 price rd paid ho hP hok hp hck hpay h1
  exact hfin (planSafe_preserves s1 s2 _ (hbody s1 paid.adj body tags hfr hok1 he) hok1 h2)

/-- A handler that ends in `ready t com body`: its fixed body is what has to be safe. -/
theorem bodySafe_of_exec (s : State) (rd : Ready) (body : List Move) (tags : List (String × String))
    (hex : ∀ adj, rd.exec adj = .ok (body, tags))
    (h : ∀ s1 adj, FeeFrame s s1 rd.payer rd.coin rd.com adj → AmountsOk s1 → PlanSafe s1 (planOf body)) : BodySafe s rd := by
  intro s1 adj body' tags' hfr hok1 he
  rw [hex adj] at he
  cases he
  exact h s1 adj hfr hok1

/-- The amount a handler lets the sender spend of `coin` next to the commission: what is left after the commission covers it. -/
theorem spend_after_fee (s s1 : State) (payer : Addr) (gas coin : Coin) (com : Com) (adj : Option PoolAdj) (v : Int)
    (hfr : FeeFrame s s1 payer gas com adj)
    (h : v + (if coin = gas then com.commission else 0) ≤ balanceOf s payer coin) : v ≤ balanceOf s1 payer coin := by
  have := hfr.bal payer coin
  split at h <;> split at this <;> omega

theorem addIfGas_eq (t : TxIn) (coin : Coin) (x extra : Int) : t.addIfGas coin x extra = if t.gasCoin = coin then x + extra else x := by
  unfold TxIn.addIfGas
  by_cases h : t.gasCoin = coin <;> simp [h]

/-! ### Arithmetic closer

  After `peel`, the balance checks of a handler sit in the context as (negated) comparisons, some of them guarded by
  `coin = gasCoin`.  `funds_omega coin, gas` decides that guard both ways, rewrites with it and calls `omega`. -/

syntax "norm_checks" : tactic
macro_rules
  | `(tactic| norm_checks) => `(tactic| (simp only [Bool.and_eq_true, Bool.or_eq_true, beq_iff_eq, bne_iff_ne, ne_eq, decide_eq_true_eq, not_and, not_or,
      Int.not_lt, Int.not_le, addIfGas_eq, Bool.not_eq_true', Bool.not_eq_true, Bool.not_eq_false] at *))

syntax "funds_omega " term ", " term : tactic
macro_rules
  | `(tactic| funds_omega $c, $g) => `(tactic| (
      by_cases hcg : $c = $g
      · simp only [hcg, if_true, true_implies, not_true_eq_false, false_implies, forall_const, and_true, true_and] at * <;> omega
      · have hcg' : ¬ $g = $c := fun e => hcg e.symm
        simp only [hcg, hcg', if_false, false_implies, not_false_eq_true, true_implies, forall_const, and_true, true_and] at * <;> omega))

theorem bodySafe_ready (s : State) (t : TxIn) (com : Com) (body : List Move) (tags : List (String × String)) (rd : Ready)
    (hk : ready t com body tags = .ok (.ok rd))
    (h : ∀ s1 adj, FeeFrame s s1 t.sender t.gasCoin com adj → AmountsOk s1 → PlanSafe s1 (planOf body)) : BodySafe s rd := by
  obtain ⟨hp, hc, hcm, _, hex⟩ := ready_eq t com body tags rd hk
  apply bodySafe_of_exec s rd body tags hex
  intro s1 adj hfr
  rw [hp, hc, hcm] at hfr
  exact h s1 adj hfr

/-! ### Send (1) -/

theorem send_typed (P : Params) (o : Oracle) (s : State) (t : TxIn) (price : Int) (rd : Ready) (hv : 0 ≤ t.int "d.Value")
    (h : runSend P o s t price = .ok (.ok rd)) : Checked P o s price rd ∧ BodySafe s rd := by
  unfold runSend at h
  peel h
  all_goals (obtain ⟨com, hcom, hk⟩ := withCom_ready _ _ _ _ _ _ _ h; peel hk)
  all_goals (
    have hf : com.commission ≤ balanceOf s t.sender t.gasCoin ∧
        t.int "d.Value" + (if t.nat "d.Coin" = t.gasCoin then com.commission else 0) ≤ balanceOf s t.sender (t.nat "d.Coin") := by
      norm_checks
      constructor <;> funds_omega (t.nat "d.Coin"), t.gasCoin
    obtain ⟨hck, _⟩ := ready_checked P o s price t com _ _ rd hcom hf.1 hk
    refine ⟨hck, bodySafe_ready s t com _ _ rd hk ?_⟩
    intro s1 adj hfr hok1
    rw [planOf_single]
    exact transfer_safe s1 hok1 _ _ _ _ hv (spend_after_fee s s1 t.sender t.gasCoin _ com adj _ hfr hf.2))

/-! ### Lock (38) -/

theorem lock_typed (P : Params) (o : Oracle) (s : State) (block : Nat) (t : TxIn) (price : Int) (rd : Ready) (hv : 0 ≤ t.int "d.Value")
    (h : runLock P o s block t price = .ok (.ok rd)) : Checked P o s price rd ∧ BodySafe s rd := by
  unfold runLock at h
  peel h
  all_goals (obtain ⟨com, hcom, hk⟩ := withCom_ready _ _ _ _ _ _ _ h; peel hk)
  all_goals (
    have hf : com.commission ≤ balanceOf s t.sender t.gasCoin ∧
        t.int "d.Value" + (if t.nat "d.Coin" = t.gasCoin then com.commission else 0) ≤ balanceOf s t.sender (t.nat "d.Coin") := by
      norm_checks
      constructor <;> funds_omega (t.nat "d.Coin"), t.gasCoin
    obtain ⟨hck, _⟩ := ready_checked P o s price t com _ _ rd hcom hf.1 hk
    refine ⟨hck, bodySafe_ready s t com _ _ rd hk ?_⟩
    intro s1 adj hfr hok1
    rw [planOf_single]
    exact lock_safe s1 _ _ hv (spend_after_fee s s1 t.sender t.gasCoin _ com adj _ hfr hf.2))

/-! ### DeclareCandidacy (6) -/

theorem declare_typed (P : Params) (o : Oracle) (s : State) (block : Nat) (t : TxIn) (price : Int) (rd : Ready) (hv : 0 ≤ t.int "d.Stake")
    (h : runDeclare P o s block t price = .ok (.ok rd)) : Checked P o s price rd ∧ BodySafe s rd := by
  unfold runDeclare at h
  peel h
  all_goals (obtain ⟨com, hcom, hk⟩ := withCom_ready _ _ _ _ _ _ _ h; peel hk)
  all_goals (
    have hf : com.commission ≤ balanceOf s t.sender t.gasCoin ∧
        t.int "d.Stake" + (if t.nat "d.Coin" = t.gasCoin then com.commission else 0) ≤ balanceOf s t.sender (t.nat "d.Coin") := by
      norm_checks
      constructor <;> funds_omega (t.nat "d.Coin"), t.gasCoin
    obtain ⟨hck, _⟩ := ready_checked P o s price t com _ _ rd hcom hf.1 hk
    refine ⟨hck, bodySafe_ready s t com _ _ rd hk ?_⟩
    intro s1 adj hfr hok1
    rw [planOf_single]
    exact declare_safe s1 _ _ _ _ hv (spend_after_fee s s1 t.sender t.gasCoin _ com adj _ hfr hf.2))

/-! ### Delegate (7) -/

theorem delegate_typed (P : Params) (o : Oracle) (s : State) (t : TxIn) (price : Int) (rd : Ready)
    (h : runDelegate P o s t price = .ok (.ok rd)) : Checked P o s price rd ∧ BodySafe s rd := by
  unfold runDelegate at h
  cases hw : waitGet s t.sender (t.hex "d.PubKey") (t.nat "d.Coin") with
  | none =>
    simp only [hw] at h
    peel h
    all_goals (obtain ⟨com, hcom, hk⟩ := withCom_ready _ _ _ _ _ _ _ h; peel hk)
    all_goals (
      have hf : com.commission ≤ balanceOf s t.sender t.gasCoin ∧
          t.int "d.Value" + (if t.nat "d.Coin" = t.gasCoin then com.commission else 0) ≤ balanceOf s t.sender (t.nat "d.Coin") ∧
          0 ≤ t.int "d.Value" := by
        norm_checks
        refine ⟨?_, ?_, ?_⟩ <;> funds_omega (t.nat "d.Coin"), t.gasCoin
      obtain ⟨hck, _⟩ := ready_checked P o s price t com _ _ rd hcom hf.1 hk
      refine ⟨hck, bodySafe_ready s t com _ _ rd hk ?_⟩
      intro s1 adj hfr hok1
      rw [planOf_single]
      exact delegate_safe s1 _ _ _ _ none (spend_after_fee s s1 t.sender t.gasCoin _ com adj _ hfr hf.2.1) (by simpa using hf.2.2))
  | some w =>
    simp only [hw] at h
    peel h
    all_goals (obtain ⟨com, hcom, hk⟩ := withCom_ready _ _ _ _ _ _ _ h; peel hk)
    all_goals (
      have hf : com.commission ≤ balanceOf s t.sender t.gasCoin ∧
          t.int "d.Value" + (if t.nat "d.Coin" = t.gasCoin then com.commission else 0) ≤ balanceOf s t.sender (t.nat "d.Coin") ∧
          0 ≤ t.int "d.Value" + w.value := by
        norm_checks
        refine ⟨?_, ?_, ?_⟩ <;> funds_omega (t.nat "d.Coin"), t.gasCoin
      obtain ⟨hck, _⟩ := ready_checked P o s price t com _ _ rd hcom hf.1 hk
      refine ⟨hck, bodySafe_ready s t com _ _ rd hk ?_⟩
      intro s1 adj hfr hok1
      rw [planOf_single]
      exact delegate_safe s1 _ _ _ _ (some w) (spend_after_fee s s1 t.sender t.gasCoin _ com adj _ hfr hf.2.1) hf.2.2)

end Minter
