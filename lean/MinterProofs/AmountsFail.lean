import MinterProofs.AmountsFee
/-
  C02, the failure-fee path of DeliverTx (every transaction type): the fee a rejected transaction pays preserves `AmountsOk`.
-/
namespace Minter

/-- Price-table entries are not negative (they are set from RLP-decoded, hence non-negative, integers). -/
-- (integration: named PricesNonneg here; MinterProofs.C07Com has a structure PricesOk. Same for poolResAdj_none_c02 in AmountsPool.)
def PricesNonneg (s : State) : Prop := ∀ k, 0 ≤ priceOf s k

theorem calcCommission_reserve (P : Params) (o : Oracle) (s : State) (gas : Coin) (price : Int) (com : Com)
    (h : calcCommission P o s gas price = .ok (.ok com)) (hfp : com.fromPool = false) (hg : gas ≠ 0) (hc : com.commission ≠ 0) :
    ∃ ci, getCoin s gas = some ci ∧ hasReserve ci = true := by
  unfold calcCommission at h
  split at h
  · next hg' => exact absurd (by simpa using hg') hg
  · split at h
    · cases h; exact absurd rfl hc
    · cases hfp' : comFromPool P s gas price with
      | error e => rw [hfp'] at h; cases h
      | ok fp =>
        rw [hfp'] at h
        simp only at h
        cases hfr : comFromReserve P o s gas price with
        | error e => rw [hfr] at h; cases h
        | ok fr =>
          rw [hfr] at h
          simp only at h
          have key : ∀ r, fr = .ok r → ∃ ci, getCoin s gas = some ci ∧ hasReserve ci = true := by
            intro r hr
            subst hr
            unfold comFromReserve at hfr
            split at hfr
            · cases hfr
            · next ci hci =>
              split at hfr
              · cases hfr
              · next hres => exact ⟨ci, hci, by simpa using hres⟩
          cases fp with
          | error c1 =>
            cases fr with
            | error c2 => cases h
            | ok r => exact key r rfl
          | ok p =>
            cases fr with
            | error c2 => cases h; simp at hfp
            | ok r => exact key r rfl

/-- What the failure-fee branch does: nothing, or one commission payment by a payer who holds it, with a sound commission. -/
theorem failFee_spec (P : Params) (o : Oracle) (s : State) (t : TxIn) (code : Nat) (f : Outcome)
    (ho : OracleSound o) (hP : 0 ≤ P.minReserve) (hok : AmountsOk s) (hpr : PricesNonneg s)
    (h : failFee P o s t code = .ok f) :
    f.moves = [] ∨ ∃ payer cm paid, payCommission s payer t.comCoin cm 0 = .ok paid ∧ f.moves = paid.moves ∧
      cm.commission ≤ balanceOf s payer t.comCoin ∧ ComSound s t.comCoin cm := by
  unfold failFee at h
  simp only at h
  split at h
  · cases h
  · cases h; exact Or.inl rfl
  · next inBase0 hconv =>
    have hin : 0 ≤ inBase0 := by
      split at hconv
      · cases hconv
        exact Int.mul_nonneg (Int.natCast_nonneg _) (Int.add_nonneg (hpr _) (Int.mul_nonneg (Int.natCast_nonneg _) (hpr _)))
      · split at hconv
        · cases hconv
        · cases hconv
        · split at hconv
          · cases hconv
          · cases hconv; omega
    cases hcc : calcCommission P o s t.comCoin inBase0 with
    | error e => rw [hcc] at h; cases h
    | ok cr =>
      rw [hcc] at h
      cases cr with
      | error c => cases h; exact Or.inl rfl
      | ok com =>
        simp only at h
        obtain ⟨hsound, _⟩ := calcCommission_sound P o s t.comCoin inBase0 com ho hP hok hin hcc
        split at h
        · cases h; exact Or.inl rfl
        · next payer _ =>
          split at h
          · cases h; exact Or.inl rfl
          · next hbal =>
            split at h
            · cases h
            · cases h; exact Or.inl rfl
            · next cm hcap =>
              split at h
              · cases h
              · next paid hpay =>
                cases h
                refine Or.inr ⟨payer, cm, paid, hpay, rfl, ?_⟩
                split at hcap
                · next hlt =>
                  split at hcap
                  · -- capped, pool route
                    split at hcap
                    · cases hcap
                    · split at hcap
                      · cases hcap
                      · cases hcap
                      · split at hcap
                        · cases hcap
                        · cases hcap
                          exact ⟨Int.le_refl _, fun hx => (by simp at hx)⟩
                  · next hfp =>
                    have hfp' : com.fromPool = false := by simpa using hfp
                    split at hcap
                    · next hg =>
                      have hg' : t.comCoin ≠ 0 := by simpa using hg
                      obtain ⟨ci, hci, hres⟩ := calcCommission_reserve P o s t.comCoin inBase0 com hcc hfp' hg' (by omega)
                      rw [hci] at hcap
                      simp only [hres, if_true] at hcap
                      split at hcap
                      · cases hcap
                      · next hvol =>
                        cases ha : ask o (OQ.saleReturn ci.volume ci.reserve ci.crr (balanceOf s payer t.comCoin)) with
                        | error e => rw [ha] at hcap; cases hcap
                        | ok r =>
                          rw [ha] at hcap
                          simp only at hcap
                          split at hcap
                          · cases hcap
                          · next hmin =>
                            cases hcap
                            have hv := ask_ok _ _ _ ha
                            refine ⟨Int.le_refl _, ?_⟩
                            intro _ _
                            simp only [hci, optProp_some]
                            exact ⟨by omega, by omega, ho.nonneg _ _ hv, by omega⟩
                    · next hg =>
                      cases hcap
                      refine ⟨Int.le_refl _, ?_⟩
                      intro _ hne
                      exact absurd (by simpa using hg) hne
                · cases hcap
                  exact ⟨by omega, hsound⟩

/-- A rejected delivery either moves nothing or is the failure fee computed by `failFee`. -/
theorem deliver_rejected (P : Params) (o : Oracle) (s : State) (b : Nat) (t : TxIn) (out : Outcome)
    (h : deliverTx P o s b t = .ok out) (hc : out.code ≠ 0) :
    out.moves = [] ∨ ∃ code, failFee P o s t code = .ok out := by
  unfold deliverTx at h
  split at h
  · cases h; exact Or.inl rfl
  · unfold deliverBody at h
    split at h
    · cases h
    · cases h; exact Or.inl rfl
    · split at h
      · cases h
      · next c _ =>
        split at h
        · cases h
        · unfold failureOutcome at h
          split at h
          · next f hf =>
            split at h
            · cases h
            · split at h
              · cases h
              · split at h
                · cases h
                · cases h; exact Or.inr ⟨c, hf⟩
          · cases h
      · split at h
        · cases h
        · next r _ =>
          obtain ⟨_, h0, _⟩ := successOutcome_ok s t r out h
          exact absurd h0 hc

/-- **C02, failure path (all 37 types, all three commission routes, capped or not).**  A delivery that answers a non-zero code —
    rejected by the prologue, by the price conversion or by the handler, the latter paying the failure fee — preserves `AmountsOk`. -/
theorem C02_failure_fee (P : Params) (o : Oracle) (s s' : State) (b : Nat) (t : TxIn) (out : Outcome)
    (ho : OracleSound o) (hP : 0 ≤ P.minReserve) (hpr : PricesNonneg s)
    (h : deliverTx P o s b t = .ok out) (hc : out.code ≠ 0) (ha : applyChecked s out.plan = some s')
    (hok : AmountsOk s) : AmountsOk s' := by
  rcases deliver_rejected P o s b t out h hc with hm | ⟨code, hf⟩
  · simp only [Outcome.plan, hm, planOf, List.flatMap_nil, applyChecked] at ha
    cases ha; exact hok
  · rcases failFee_spec P o s t code out ho hP hok hpr hf with hm | ⟨payer, cm, paid, hpay, hm, hbal, hsound⟩
    · simp only [Outcome.plan, hm, planOf, List.flatMap_nil, applyChecked] at ha
      cases ha; exact hok
    · rw [Outcome.plan, hm] at ha
      exact (fee_preserves s s' payer t.comCoin cm 0 paid hok hsound hbal hpay ha).1

end Minter
