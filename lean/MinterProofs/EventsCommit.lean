import MinterProofs.Events
/-
  C24 helper lemmas, part 2: `CommitEvents` and `LoadEvents` in terms of the first-appearance lists.
-/
namespace Minter
namespace Ev

/-- `NewRole` does not panic -/
def Event.roleOK : Event → Prop
  | .reward role _ _ _ _ => role < 4
  | _ => True

instance (e : Event) : Decidable e.roleOK := by
  cases e <;> unfold Event.roleOK <;> infer_instance

theorem Event.WF.roleOK {e : Event} (h : e.WF) : e.roleOK := by
  cases e <;> simp only [Event.WF, Event.roleOK] at h ⊢
  exact h.1

theorem addKey_length_le (ks : List Nat) (k : Nat) : ks.length ≤ (addKey ks k).length := by
  obtain ⟨t, h⟩ := addKey_prefix ks k
  rw [h, List.length_append]; omega

theorem seenKeysB_prefix (b : List Event) (ks : List Nat) : ∃ t, seenKeysB ks b = ks ++ t := by
  induction b generalizing ks with
  | nil => exact ⟨[], by simp [seenKeysB]⟩
  | cons e b ih =>
    obtain ⟨t1, h1⟩ := foldl_addKey_prefix e.keys ks
    obtain ⟨t2, h2⟩ := ih (e.keys.foldl addKey ks)
    refine ⟨t1 ++ t2, ?_⟩
    unfold seenKeysB at h2 ⊢
    rw [List.foldl_cons, h2, h1, List.append_assoc]

theorem seenAddrsB_prefix (b : List Event) (as : List Nat) : ∃ t, seenAddrsB as b = as ++ t := by
  induction b generalizing as with
  | nil => exact ⟨[], by simp [seenAddrsB]⟩
  | cons e b ih =>
    obtain ⟨t1, h1⟩ := foldl_addKey_prefix e.addrs as
    obtain ⟨t2, h2⟩ := ih (e.addrs.foldl addKey as)
    refine ⟨t1 ++ t2, ?_⟩
    unfold seenAddrsB at h2 ⊢
    rw [List.foldl_cons, h2, h1, List.append_assoc]

theorem ofNat_natAbs {a : Int} (h : 0 ≤ a) : Int.ofNat a.natAbs = a := by
  simpa using Int.natAbs_of_nonneg h

theorem lt_of_getElem?_some {l : List Nat} {i a : Nat} (h : l[i]? = some a) : i < l.length :=
  (List.getElem?_eq_some_iff.mp h).1

theorem u32_of_lt {n : Nat} (h : n < 4294967296) : u32 n = n := Nat.mod_eq_of_lt h

/-- One event of the commit loop: the tables grow by exactly the event's new keys / addresses, the record refers only to known
    ids, and (for an event the node can emit) the record expands back to the event. -/
theorem compactEv_spec {st : EvStore} {ks as : List Nat} (g : Good st ks as) (e : Event)
    (hk : (e.keys.foldl addKey ks).length ≤ 65535) (ha : (e.addrs.foldl addKey as).length ≤ 4294967295) :
    (e.roleOK → (compactEv st e).isSome) ∧
    ∀ st' r, compactEv st e = some (st', r) →
      Good st' (e.keys.foldl addKey ks) (e.addrs.foldl addKey as) ∧ st'.disk.blocks = st.disk.blocks ∧
      RecValid (e.keys.foldl addKey ks) (e.addrs.foldl addKey as) r ∧
      (e.WF → expandA (e.keys.foldl addKey ks) (e.addrs.foldl addKey as) r = some e) := by
  cases e with
  | reward role addr amount pk fc =>
    simp only [Event.keys, Event.addrs, List.foldl_cons, List.foldl_nil] at hk ha ⊢
    obtain ⟨g1, b1, i1⟩ := saveAddress_spec g addr ha
    rcases hsa : saveAddress st addr with ⟨st1, aid⟩
    rw [hsa] at g1 b1 i1
    obtain ⟨g2, b2, i2⟩ := savePubKey_spec g1 pk hk
    rcases hsp : savePubKey st1 (some pk) with ⟨st2, pid⟩
    rw [hsp] at g2 b2 i2
    simp only [compactEv, hsa, hsp, Event.roleOK]
    refine ⟨fun h => by simp [h], ?_⟩
    intro st' r hr
    split at hr
    · cases hr
      refine ⟨g2, b2.trans b1, ⟨by simp [i2], lt_of_getElem?_some i1⟩, ?_⟩
      intro wf
      simp only [Event.WF] at wf
      simp only [expandA, i2, i1, Option.getD_some, u32_of_lt wf.2.2, ofNat_natAbs wf.2.1]
    · cases hr
  | slash addr amount coin pk =>
    simp only [Event.keys, Event.addrs, List.foldl_cons, List.foldl_nil] at hk ha ⊢
    obtain ⟨g1, b1, i1⟩ := saveAddress_spec g addr ha
    rcases hsa : saveAddress st addr with ⟨st1, aid⟩
    rw [hsa] at g1 b1 i1
    obtain ⟨g2, b2, i2⟩ := savePubKey_spec g1 pk hk
    rcases hsp : savePubKey st1 (some pk) with ⟨st2, pid⟩
    rw [hsp] at g2 b2 i2
    simp only [compactEv, hsa, hsp, Event.roleOK]
    refine ⟨fun _ => by simp, ?_⟩
    intro st' r hr
    cases hr
    refine ⟨g2, b2.trans b1, ⟨by simp [i2], lt_of_getElem?_some i1⟩, ?_⟩
    intro wf
    simp only [Event.WF] at wf
    simp only [expandA, i2, i1, Option.getD_some, u32_of_lt wf.2, ofNat_natAbs wf.1]
  | kick addr amount coin pk =>
    simp only [Event.keys, Event.addrs, List.foldl_cons, List.foldl_nil] at hk ha ⊢
    obtain ⟨g1, b1, i1⟩ := saveAddress_spec g addr ha
    rcases hsa : saveAddress st addr with ⟨st1, aid⟩
    rw [hsa] at g1 b1 i1
    obtain ⟨g2, b2, i2⟩ := savePubKey_spec g1 pk hk
    rcases hsp : savePubKey st1 (some pk) with ⟨st2, pid⟩
    rw [hsp] at g2 b2 i2
    simp only [compactEv, hsa, hsp, Event.roleOK]
    refine ⟨fun _ => by simp, ?_⟩
    intro st' r hr
    cases hr
    refine ⟨g2, b2.trans b1, ⟨by simp [i2], lt_of_getElem?_some i1⟩, ?_⟩
    intro wf
    simp only [Event.WF] at wf
    simp only [expandA, i2, i1, Option.getD_some, u32_of_lt wf.2, ofNat_natAbs wf.1]
  | jail pk ju =>
    simp only [Event.keys, Event.addrs, List.foldl_cons, List.foldl_nil] at hk ha ⊢
    obtain ⟨g2, b2, i2⟩ := savePubKey_spec g pk hk
    rcases hsp : savePubKey st (some pk) with ⟨st2, pid⟩
    rw [hsp] at g2 b2 i2
    simp only [compactEv, hsp, Event.roleOK]
    refine ⟨fun _ => by simp, ?_⟩
    intro st' r hr
    cases hr
    refine ⟨g2, b2, by simp [RecValid, i2], ?_⟩
    intro _
    simp only [expandA, i2, Option.getD_some]
  | unbond addr amount coin pk =>
    cases pk with
    | none =>
      simp only [Event.keys, Event.addrs, List.foldl_cons, List.foldl_nil] at hk ha ⊢
      obtain ⟨g1, b1, i1⟩ := saveAddress_spec g addr ha
      rcases hsa : saveAddress st addr with ⟨st1, aid⟩
      rw [hsa] at g1 b1 i1
      simp only [compactEv, hsa, savePubKey, Event.roleOK]
      refine ⟨fun _ => by simp, ?_⟩
      intro st' r hr
      cases hr
      refine ⟨g1, b1, ⟨Or.inl rfl, lt_of_getElem?_some i1⟩, ?_⟩
      intro wf
      simp only [Event.WF] at wf
      simp only [expandA, kget_zero, i1, Option.getD_some, u32_of_lt wf.2, ofNat_natAbs wf.1]
    | some pk =>
      simp only [Event.keys, Event.addrs, List.foldl_cons, List.foldl_nil] at hk ha ⊢
      obtain ⟨g1, b1, i1⟩ := saveAddress_spec g addr ha
      rcases hsa : saveAddress st addr with ⟨st1, aid⟩
      rw [hsa] at g1 b1 i1
      obtain ⟨g2, b2, i2⟩ := savePubKey_spec g1 pk hk
      rcases hsp : savePubKey st1 (some pk) with ⟨st2, pid⟩
      rw [hsp] at g2 b2 i2
      simp only [compactEv, hsa, hsp, Event.roleOK]
      refine ⟨fun _ => by simp, ?_⟩
      intro st' r hr
      cases hr
      refine ⟨g2, b2.trans b1, ⟨Or.inr (by simp [i2]), lt_of_getElem?_some i1⟩, ?_⟩
      intro wf
      simp only [Event.WF] at wf
      simp only [expandA, i2, i1, Option.getD_some, u32_of_lt wf.2, ofNat_natAbs wf.1]
  | unlock addr amount coin =>
    simp only [Event.keys, Event.addrs, List.foldl_cons, List.foldl_nil] at hk ha ⊢
    obtain ⟨g1, b1, i1⟩ := saveAddress_spec g addr ha
    rcases hsa : saveAddress st addr with ⟨st1, aid⟩
    rw [hsa] at g1 b1 i1
    simp only [compactEv, hsa, Event.roleOK]
    refine ⟨fun _ => by simp, ?_⟩
    intro st' r hr
    cases hr
    refine ⟨g1, b1, lt_of_getElem?_some i1, ?_⟩
    intro wf
    simp only [Event.WF] at wf
    simp only [expandA, i1, Option.getD_some, u32_of_lt wf.2, ofNat_natAbs wf.1]
  | orderExpired id addr coin amount =>
    simp only [Event.keys, Event.addrs, List.foldl_cons, List.foldl_nil] at hk ha ⊢
    obtain ⟨g1, b1, i1⟩ := saveAddress_spec g addr ha
    rcases hsa : saveAddress st addr with ⟨st1, aid⟩
    rw [hsa] at g1 b1 i1
    simp only [compactEv, hsa, Event.roleOK]
    refine ⟨fun _ => by simp, ?_⟩
    intro st' r hr
    cases hr
    refine ⟨g1, b1, lt_of_getElem?_some i1, ?_⟩
    intro wf
    simp only [Event.WF] at wf
    simp only [expandA, i1, Option.getD_some, u32_of_lt wf.2.1, u32_of_lt wf.2.2, ofNat_natAbs wf.1]
  | move addr amount coin f t =>
    simp only [Event.keys, Event.addrs, List.foldl_cons, List.foldl_nil] at hk ha ⊢
    obtain ⟨g1, b1, i1⟩ := saveAddress_spec g addr ha
    rcases hsa : saveAddress st addr with ⟨st1, aid⟩
    rw [hsa] at g1 b1 i1
    obtain ⟨g2, b2, i2⟩ := savePubKey_spec g1 f (Nat.le_trans (addKey_length_le _ t) hk)
    rcases hsp : savePubKey st1 (some f) with ⟨st2, fid⟩
    rw [hsp] at g2 b2 i2
    obtain ⟨g3, b3, i3⟩ := savePubKey_spec g2 t hk
    rcases hsp3 : savePubKey st2 (some t) with ⟨st3, tid⟩
    rw [hsp3] at g3 b3 i3
    obtain ⟨tt, htt⟩ := addKey_prefix (addKey ks f) t
    have i2' : kget (addKey (addKey ks f) t) fid = some f := by rw [htt]; exact kget_append i2
    simp only [compactEv, hsa, hsp, hsp3, Event.roleOK]
    refine ⟨fun _ => by simp, ?_⟩
    intro st' r hr
    cases hr
    refine ⟨g3, (b3.trans b2).trans b1, ⟨by simp [i2'], by simp [i3], lt_of_getElem?_some i1⟩, ?_⟩
    intro wf
    simp only [Event.WF] at wf
    simp only [expandA, i2', i3, i1, Option.getD_some, u32_of_lt wf.2, ofNat_natAbs wf.1]
  | removeCandidate pk =>
    simp only [Event.keys, Event.addrs, List.foldl_nil, compactEv, Event.roleOK]
    refine ⟨fun _ => by simp, ?_⟩
    intro st' r hr; cases hr
    exact ⟨g, rfl, trivial, fun _ => rfl⟩
  | updateNetwork v =>
    simp only [Event.keys, Event.addrs, List.foldl_nil, compactEv, Event.roleOK]
    refine ⟨fun _ => by simp, ?_⟩
    intro st' r hr; cases hr
    exact ⟨g, rfl, trivial, fun _ => rfl⟩
  | updateCommissions c v =>
    simp only [Event.keys, Event.addrs, List.foldl_nil, compactEv, Event.roleOK]
    refine ⟨fun _ => by simp, ?_⟩
    intro st' r hr; cases hr
    exact ⟨g, rfl, trivial, fun _ => rfl⟩
  | updatedBlockReward v l =>
    simp only [Event.keys, Event.addrs, List.foldl_nil, compactEv, Event.roleOK]
    refine ⟨fun _ => by simp, ?_⟩
    intro st' r hr; cases hr
    exact ⟨g, rfl, trivial, fun _ => rfl⟩

theorem seenKeysB_cons (ks : List Nat) (e : Event) (b : List Event) :
    seenKeysB ks (e :: b) = seenKeysB (e.keys.foldl addKey ks) b := rfl

theorem seenAddrsB_cons (as : List Nat) (e : Event) (b : List Event) :
    seenAddrsB as (e :: b) = seenAddrsB (e.addrs.foldl addKey as) b := rfl

/-- The whole commit loop. -/
theorem compactAll_spec (b : List Event) : ∀ {st : EvStore} {ks as : List Nat}, Good st ks as →
    (seenKeysB ks b).length ≤ 65535 → (seenAddrsB as b).length ≤ 4294967295 →
    ((∀ e ∈ b, e.roleOK) → (compactAll st b).isSome) ∧
    ∀ st' rs, compactAll st b = some (st', rs) →
      Good st' (seenKeysB ks b) (seenAddrsB as b) ∧ st'.disk.blocks = st.disk.blocks ∧
      (∀ r ∈ rs, RecValid (seenKeysB ks b) (seenAddrsB as b) r) ∧
      ((∀ e ∈ b, e.WF) → expandAllA (seenKeysB ks b) (seenAddrsB as b) rs = some b) := by
  induction b with
  | nil =>
    intro st ks as g _ _
    refine ⟨fun _ => by simp [compactAll], ?_⟩
    intro st' rs h
    simp only [compactAll, Option.some.injEq, Prod.mk.injEq] at h
    obtain ⟨h1, h2⟩ := h
    subst h1; subst h2
    exact ⟨g, rfl, by simp, fun _ => rfl⟩
  | cons e b ih =>
    intro st ks as g hk ha
    rw [seenKeysB_cons] at hk ⊢
    rw [seenAddrsB_cons] at ha ⊢
    obtain ⟨tk, htk⟩ := seenKeysB_prefix b (e.keys.foldl addKey ks)
    obtain ⟨ta, hta⟩ := seenAddrsB_prefix b (e.addrs.foldl addKey as)
    have hk1 : (e.keys.foldl addKey ks).length ≤ 65535 := by
      have := congrArg List.length htk; simp only [List.length_append] at this; omega
    have ha1 : (e.addrs.foldl addKey as).length ≤ 4294967295 := by
      have := congrArg List.length hta; simp only [List.length_append] at this; omega
    obtain ⟨p1, s1⟩ := compactEv_spec g e hk1 ha1
    constructor
    · intro hr
      have h1 := p1 (hr e (by simp))
      cases hc : compactEv st e with
      | none => rw [hc] at h1; cases h1
      | some res =>
        obtain ⟨st1, r⟩ := res
        obtain ⟨g1, _, _, _⟩ := s1 st1 r hc
        have h2 := (ih g1 hk ha).1 (fun e' he' => hr e' (by simp [he']))
        cases hc2 : compactAll st1 b with
        | none => rw [hc2] at h2; cases h2
        | some res2 => simp [compactAll, hc, hc2]
    · intro st' rs h
      cases hc : compactEv st e with
      | none => simp [compactAll, hc] at h
      | some res =>
        obtain ⟨st1, r⟩ := res
        obtain ⟨g1, b1, v1, x1⟩ := s1 st1 r hc
        cases hc2 : compactAll st1 b with
        | none => simp [compactAll, hc, hc2] at h
        | some res2 =>
          obtain ⟨st2, rs2⟩ := res2
          simp only [compactAll, hc, hc2, Option.some.injEq, Prod.mk.injEq] at h
          obtain ⟨h1, h2⟩ := h
          subst h1; subst h2
          obtain ⟨g2, b2, v2, x2⟩ := (ih g1 hk ha).2 _ _ hc2
          refine ⟨g2, b2.trans b1, ?_, ?_⟩
          · intro r' hr'
            simp only [List.mem_cons] at hr'
            rcases hr' with e1 | e1
            · subst e1; rw [htk, hta]; exact v1.mono tk ta
            · exact v2 r' e1
          · intro wf
            have y1 := x1 (wf e (by simp))
            have y2 := x2 (fun e' he' => wf e' (by simp [he']))
            simp only [expandAllA, y2]
            rw [htk, hta, v1.stable tk ta, y1]

/-! ### The invariant of the whole store (cache loaded or just restarted) -/

structure Inv (st : EvStore) (ks as : List Nat) : Prop where
  nk : ks.Nodup
  na : as.Nodup
  dp : DP st.disk ks
  da : DA st.disk as
  cache : (PW st.cache ks ∧ AW st.cache as) ∨ (PW st.cache [] ∧ AW st.cache [])
  recs : ∀ h rs, st.disk.blocks.get? h = some rs → ∀ r ∈ rs, RecValid ks as r

theorem Inv_empty : Inv EvStore.empty [] [] := by
  refine ⟨by simp, by simp, ⟨rfl, ?_⟩, ⟨rfl, ?_⟩, Or.inl ⟨PW_empty, AW_empty⟩, ?_⟩
  · intro id k h; simp [kget] at h
  · intro id k h; simp at h
  · intro h rs hh; simp [EvStore.empty] at hh

theorem loadCache_inv {st : EvStore} {ks as : List Nat} (i : Inv st ks as) (hk : ks.length ≤ 65534) :
    Good (loadCache st) ks as ∧ (loadCache st).disk = st.disk := by
  rcases i.cache with ⟨pw, aw⟩ | ⟨pw, aw⟩
  · exact loadCache_warm ⟨i.nk, i.na, pw, aw, i.dp, i.da⟩
  · exact loadCache_cold i.nk i.na i.dp i.da pw aw hk

/-- what `LoadEvents` answers, in terms of the stored records and the two lists -/
def loadA (blocks : Tbl (List Rec)) (ks as : List Nat) (h : Nat) : Loaded :=
  match blocks.get? h with
  | none => .absent
  | some rs =>
    match expandAllA ks as rs with
    | none => .panic
    | some es => .ok es

theorem load_good {st : EvStore} {ks as : List Nat} (g : Good (loadCache st) ks as) (hd : (loadCache st).disk = st.disk)
    (h : Nat) : load st h = loadA st.disk.blocks ks as h := by
  unfold load loadA
  simp only [hd]
  cases st.disk.blocks.get? h with
  | none => rfl
  | some rs => simp only [expandAll_eq g.pw g.aw]; rfl

theorem load_eq {st : EvStore} {ks as : List Nat} (i : Inv st ks as) (hk : ks.length ≤ 65534) (h : Nat) :
    load st h = loadA st.disk.blocks ks as h := by
  obtain ⟨g, hd⟩ := loadCache_inv i hk
  exact load_good g hd h

theorem Good.inv {st : EvStore} {ks as : List Nat} (g : Good st ks as)
    (hr : ∀ h rs, st.disk.blocks.get? h = some rs → ∀ r ∈ rs, RecValid ks as r) : Inv st ks as :=
  ⟨g.nk, g.na, g.dp, g.da, Or.inl ⟨g.pw, g.aw⟩, hr⟩

/-- `CommitEvents` from a store with a loaded cache. -/
theorem commit_good {st : EvStore} {ks as : List Nat} (g : Good (loadCache st) ks as) (hd : (loadCache st).disk = st.disk)
    (hr : ∀ h rs, st.disk.blocks.get? h = some rs → ∀ r ∈ rs, RecValid ks as r)
    (h : Nat) (b : List Event)
    (hk : (seenKeysB ks b).length ≤ 65535) (ha : (seenAddrsB as b).length ≤ 4294967295) :
    ((∀ e ∈ b, e.roleOK) → (commit st h b).isSome) ∧
    ∀ st', commit st h b = some st' →
      Good st' (seenKeysB ks b) (seenAddrsB as b) ∧
      (∀ h' rs, st'.disk.blocks.get? h' = some rs → ∀ r ∈ rs, RecValid (seenKeysB ks b) (seenAddrsB as b) r) ∧
      (∀ h', h' ≠ h → st'.disk.blocks.get? h' = st.disk.blocks.get? h') ∧
      ((∀ e ∈ b, e.WF) → loadA st'.disk.blocks (seenKeysB ks b) (seenAddrsB as b) h = .ok b) := by
  obtain ⟨p, s⟩ := compactAll_spec b g hk ha
  obtain ⟨tk, htk⟩ := seenKeysB_prefix b ks
  obtain ⟨ta, hta⟩ := seenAddrsB_prefix b as
  constructor
  · intro hro
    have := p hro
    unfold commit
    cases hc : compactAll (loadCache st) b with
    | none => rw [hc] at this; cases this
    | some res => simp
  · intro st' hc'
    unfold commit at hc'
    cases hc : compactAll (loadCache st) b with
    | none => simp [hc] at hc'
    | some res =>
      obtain ⟨st1, rs⟩ := res
      simp only [hc, Option.some.injEq] at hc'
      subst hc'
      obtain ⟨g1, b1, v1, x1⟩ := s st1 rs hc
      have hb : st1.disk.blocks = st.disk.blocks := by rw [b1, hd]
      refine ⟨⟨g1.nk, g1.na, g1.pw, g1.aw, ⟨g1.dp.count, g1.dp.get⟩, ⟨g1.da.count, g1.da.get⟩⟩, ?_, ?_, ?_⟩
      · intro h' rs' hg r hr'
        simp only [Tbl.get?_set] at hg
        by_cases e : h = h'
        · simp only [e, if_true, Option.some.injEq] at hg
          subst hg; exact v1 r hr'
        · simp only [e, if_false, hb] at hg
          rw [htk, hta]
          exact (hr h' rs' hg r hr').mono tk ta
      · intro h' hne
        simp only [Tbl.get?_set]
        have : ¬ h = h' := fun x => hne x.symm
        simp only [this, if_false, hb]
      · intro wf
        unfold loadA
        simp only [Tbl.get?_set, if_true, x1 wf]

end Ev
end Minter
