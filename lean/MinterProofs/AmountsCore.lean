import MinterModel.Tx
import MinterProofs.TxLemmas
import MinterProofs.Props.C02
/-
  C02, core: the per-primitive guard `PrimSafe` under which one ledger primitive preserves `AmountsOk`
  (the Prop form of the monitor `amountsOk`), and the plan lemma `planSafe_preserves`.

  `PrimSafe s p` is *exactly* "the value the primitive writes is in range":
    addBal a c v        0 ≤ balanceOf s a c + v
    addVolume c v       0 ≤ volume + v ≤ maxSupply      (of the registry entry the primitive updates)
    addReserve c v      0 ≤ reserve + v
    createCoin ci       0 ≤ volume, 0 ≤ reserve, volume ≤ maxSupply
    addPool c0 c1 d0 d1 0 < r0 + d0 and 0 < r1 + d1     (of the pool entry the primitive updates)
    createPool p        0 < r0, 0 < r1
    addSlashed v        0 ≤ slashed + v
    addAccum pk v       0 ≤ accum + v
    addStake …  v       0 ≤ stake + v
    newStake/pushUpdate/addWait/addFrozen   0 ≤ value
    addOrder o          0 ≤ v0, 0 ≤ v1
    fillOrder o d0 d1   d0 ≤ v0, d1 ≤ v1
  Everything else (deletions, settings, the fee pool, emission) needs nothing.
-/
namespace Minter

/-- `q` holds of the value, if there is one. -/
def optProp {α : Type} : Option α → (α → Prop) → Prop
  | some x, q => q x
  | none, _ => True

instance {α : Type} (o : Option α) (q : α → Prop) [∀ x, Decidable (q x)] : Decidable (optProp o q) := by
  cases o <;> unfold optProp <;> infer_instance

@[simp] theorem optProp_some {α : Type} (x : α) (q : α → Prop) : optProp (some x) q = q x := rfl
@[simp] theorem optProp_none {α : Type} (q : α → Prop) : optProp (none : Option α) q = True := rfl

/-- The guard under which a primitive keeps every amount in range. -/
def PrimSafe (s : State) : Prim → Prop
  | .addBal a c v => 0 ≤ balanceOf s a c + v
  | .addVolume c v => optProp (getCoin s c) fun ci => 0 ≤ ci.volume + v ∧ ci.volume + v ≤ ci.maxSupply
  | .addReserve c v => optProp (getCoin s c) fun ci => 0 ≤ ci.reserve + v
  | .createCoin ci => 0 ≤ ci.volume ∧ 0 ≤ ci.reserve ∧ ci.volume ≤ ci.maxSupply
  | .addPool c0 c1 d0 d1 => optProp (getPool s c0 c1) fun p => 0 < p.r0 + d0 ∧ 0 < p.r1 + d1
  | .createPool p => 0 < p.r0 ∧ 0 < p.r1
  | .addSlashed v => 0 ≤ s.slashed + v
  | .addAccum pk v => optProp (findFirst (·.pubkey == pk) s.validators) fun x => 0 ≤ x.accum + v
  | .addStake cand owner coin v =>
      optProp (getCand s cand) fun cd => optProp (findFirst (stakeKey owner coin) cd.stakes) fun st => 0 ≤ st.value + v
  | .newStake _ st => 0 ≤ st.value
  | .pushUpdate _ st => 0 ≤ st.value
  | .addWait w => 0 ≤ w.value
  | .addFrozen f => 0 ≤ f.value
  | .addOrder o => 0 ≤ o.v0 ∧ 0 ≤ o.v1
  | .fillOrder o d0 d1 => d0 ≤ o.v0 ∧ d1 ≤ o.v1
  | _ => True

instance (s : State) (p : Prim) : Decidable (PrimSafe s p) := by
  cases p <;> unfold PrimSafe <;> infer_instance

/-- Sequential safety of a plan: every primitive is safe in the state it is applied to. -/
def PlanSafe : State → List Prim → Prop
  | _, [] => True
  | s, p :: t => PrimSafe s p ∧ PlanSafe (p.apply s) t

instance : (s : State) → (ps : List Prim) → Decidable (PlanSafe s ps)
  | _, [] => isTrue trivial
  | s, p :: t =>
    have := instDecidablePlanSafe (p.apply s) t
    by unfold PlanSafe; infer_instance

theorem mem_eraseFirst {α : Type} (p : α → Bool) (l : List α) (x : α) (h : x ∈ eraseFirst p l) : x ∈ l := by
  induction l with
  | nil => simp [eraseFirst] at h
  | cons y t ih =>
    simp only [eraseFirst] at h
    split at h
    · exact List.mem_cons_of_mem _ h
    · rw [List.mem_cons] at h
      rcases h with h | h
      · subst h; exact List.mem_cons_self ..
      · exact List.mem_cons_of_mem _ (ih h)

/-- Updating the first match with a function that keeps a property of members keeps it for every member. -/
theorem all_updFirst {α : Type} (Q : α → Prop) (p : α → Bool) (g : α → α) (l : List α)
    (h : ∀ x ∈ l, Q x) (hg : ∀ y, findFirst p l = some y → Q (g y)) : ∀ x ∈ updFirst p g l, Q x := by
  intro x hx
  rcases mem_updFirst_find p g l x hx with h' | ⟨y, hy, rfl⟩
  · exact h x h'
  · exact hg y hy

theorem all_append_single {α : Type} (Q : α → Prop) (l : List α) (y : α) (h : ∀ x ∈ l, Q x) (hy : Q y) : ∀ x ∈ l ++ [y], Q x := by
  intro x hx
  rw [List.mem_append, List.mem_singleton] at hx
  rcases hx with hx | hx
  · exact h x hx
  · subst hx; exact hy

abbrev StakesOk (cd : Candidate) : Prop := (∀ st ∈ cd.stakes, 0 ≤ st.value) ∧ (∀ st ∈ cd.updates, 0 ≤ st.value)
abbrev CoinOk (ci : CoinInfo) : Prop := 0 ≤ ci.volume ∧ 0 ≤ ci.reserve ∧ ci.volume ≤ ci.maxSupply

/-- Settings of a candidate (anything that keeps its stakes and updates) keep the stakes in range. -/
theorem cands_setting (s : State) (hok : AmountsOk s) (p : Candidate → Bool) (g : Candidate → Candidate)
    (hg : ∀ cd, (g cd).stakes = cd.stakes ∧ (g cd).updates = cd.updates) :
    ∀ cd ∈ updFirst p g s.candidates, StakesOk cd := by
  apply all_updFirst StakesOk p g s.candidates hok.stakes
  intro y hy
  have := hok.stakes y (findFirst_mem _ _ _ hy).1
  unfold StakesOk
  rw [(hg y).1, (hg y).2]; exact this

/-- **One step.** A primitive whose side condition and guard hold preserves `AmountsOk`. -/
theorem primSafe_preserves (s : State) (p : Prim) (hok : AmountsOk s) (hside : p.ok s = true) (hs : PrimSafe s p) :
    AmountsOk (p.apply s) := by
  cases p with
  | addBal a c v =>
    refine { hok with balances := ?_ }
    intro x c'
    rw [apply_balance']
    simp only [Prim.balDelta']
    split
    · next h => obtain ⟨h1, h2⟩ := h; subst h1; subst h2; exact hs
    · have := hok.balances x c'; omega
  | addVolume c v =>
    refine { hok with balances := hok.balances, coins := ?_ }
    apply all_updFirst CoinOk _ _ s.coins hok.coins
    intro y hy
    have hy' : getCoin s c = some y := hy
    simp only [PrimSafe, hy', optProp_some] at hs
    have := hok.coins y (findFirst_mem _ _ _ hy).1
    exact ⟨hs.1, this.2.1, hs.2⟩
  | addReserve c v =>
    refine { hok with balances := hok.balances, coins := ?_ }
    apply all_updFirst CoinOk _ _ s.coins hok.coins
    intro y hy
    have hy' : getCoin s c = some y := hy
    simp only [PrimSafe, hy', optProp_some] at hs
    have := hok.coins y (findFirst_mem _ _ _ hy).1
    exact ⟨this.1, hs, this.2.2⟩
  | setNonce a n => exact { hok with balances := hok.balances }
  | createCoin ci =>
    refine { hok with balances := hok.balances, coins := ?_ }
    exact all_append_single CoinOk s.coins ci hok.coins hs
  | addPool c0 c1 d0 d1 =>
    refine { hok with balances := hok.balances, pools := ?_ }
    apply all_updFirst (fun p : Pool => 0 < p.r0 ∧ 0 < p.r1) _ _ s.pools hok.pools
    intro y hy
    have hy' : getPool s c0 c1 = some y := hy
    simp only [PrimSafe, hy', optProp_some] at hs
    exact hs
  | createPool p =>
    refine { hok with balances := hok.balances, pools := ?_ }
    exact all_append_single (fun p : Pool => 0 < p.r0 ∧ 0 < p.r1) s.pools p hok.pools hs
  | addRewards v => exact { hok with balances := hok.balances }
  | addSlashed v => exact { hok with balances := hok.balances, slashed := hs }
  | addAccum pk v =>
    refine { hok with balances := hok.balances, validators := ?_ }
    apply all_updFirst (fun x : Validator => 0 ≤ x.accum) _ _ s.validators hok.validators
    intro y hy
    simp only [PrimSafe, hy, optProp_some] at hs
    exact hs
  | addEmission v => exact { hok with balances := hok.balances }
  | addStake cand owner coin v =>
    refine { hok with balances := hok.balances, stakes := ?_ }
    apply all_updFirst StakesOk _ _ s.candidates hok.stakes
    intro cd hcd
    have hcd' : getCand s cand = some cd := hcd
    have hcdok := hok.stakes cd (findFirst_mem _ _ _ hcd).1
    refine ⟨?_, hcdok.2⟩
    apply all_updFirst (fun st : Stake => 0 ≤ st.value) _ _ cd.stakes hcdok.1
    intro st hst
    simp only [PrimSafe, hcd', hst, optProp_some] at hs
    exact hs
  | newStake cand st =>
    refine { hok with balances := hok.balances, stakes := ?_ }
    apply all_updFirst StakesOk _ _ s.candidates hok.stakes
    intro cd hcd
    have hcdok := hok.stakes cd (findFirst_mem _ _ _ hcd).1
    exact ⟨all_append_single (fun st : Stake => 0 ≤ st.value) cd.stakes st hcdok.1 hs, hcdok.2⟩
  | delStake cand st =>
    refine { hok with balances := hok.balances, stakes := ?_ }
    apply all_updFirst StakesOk _ _ s.candidates hok.stakes
    intro cd hcd
    have hcdok := hok.stakes cd (findFirst_mem _ _ _ hcd).1
    exact ⟨fun x hx => hcdok.1 x (mem_eraseFirst _ _ _ hx), hcdok.2⟩
  | pushUpdate cand st =>
    refine { hok with balances := hok.balances, stakes := ?_ }
    apply all_updFirst StakesOk _ _ s.candidates hok.stakes
    intro cd hcd
    have hcdok := hok.stakes cd (findFirst_mem _ _ _ hcd).1
    exact ⟨hcdok.1, all_append_single (fun st : Stake => 0 ≤ st.value) cd.updates st hcdok.2 hs⟩
  | addWait w =>
    refine { hok with balances := hok.balances, waitlist := ?_ }
    exact all_append_single (fun w : WaitEntry => 0 ≤ w.value) s.waitlist w hok.waitlist hs
  | delWait w =>
    refine { hok with balances := hok.balances, waitlist := ?_ }
    exact fun x hx => hok.waitlist x (mem_eraseFirst _ _ _ hx)
  | addFrozen f =>
    refine { hok with balances := hok.balances, frozen := ?_ }
    exact all_append_single (fun f : Frozen => 0 ≤ f.value) s.frozen f hok.frozen hs
  | delFrozen f =>
    refine { hok with balances := hok.balances, frozen := ?_ }
    exact fun x hx => hok.frozen x (mem_eraseFirst _ _ _ hx)
  | addOrder o =>
    refine { hok with balances := hok.balances, orders := ?_ }
    exact all_append_single (fun o : Order => 0 ≤ o.v0 ∧ 0 ≤ o.v1) s.orders o hok.orders hs
  | delOrder o =>
    refine { hok with balances := hok.balances, orders := ?_ }
    exact fun x hx => hok.orders x (mem_eraseFirst _ _ _ hx)
  | fillOrder o d0 d1 =>
    refine { hok with balances := hok.balances, orders := ?_ }
    apply all_updFirst (fun o : Order => 0 ≤ o.v0 ∧ 0 ≤ o.v1) _ _ s.orders hok.orders
    intro y hy
    simp only [Prim.ok, decide_eq_true_eq] at hside
    rw [hside] at hy
    injection hy with hy
    subst hy
    simp only [PrimSafe] at hs
    exact ⟨by simp only; omega, by simp only; omega⟩
  | useCheck h => exact { hok with balances := hok.balances }
  | setCoinOwner sym a =>
    refine { hok with balances := hok.balances, coins := ?_ }
    intro ci hci
    simp only [Prim.apply, List.mem_map] at hci
    obtain ⟨cj, hcj, he⟩ := hci
    have := hok.coins cj hcj
    split at he <;> (subst he; exact this)
  | bumpVersion c v =>
    refine { hok with balances := hok.balances, coins := ?_ }
    apply all_updFirst CoinOk _ _ s.coins hok.coins
    intro y hy
    exact hok.coins y (findFirst_mem _ _ _ hy).1
  | note t => exact hok
  | setLockStake a h => exact { hok with balances := hok.balances }
  | setMultisig a ms => exact { hok with balances := hok.balances }
  | addCandidate cd =>
    refine { hok with balances := hok.balances, stakes := ?_ }
    apply all_append_single StakesOk s.candidates _ hok.stakes
    exact ⟨by intro st hst; simp at hst, by intro st hst; simp at hst⟩
  | setCandStatus id st =>
    exact { hok with balances := hok.balances, stakes := cands_setting s hok _ _ (fun _ => ⟨rfl, rfl⟩) }
  | setToDrop pk =>
    refine { hok with balances := hok.balances, validators := ?_ }
    apply all_updFirst (fun x : Validator => 0 ≤ x.accum) _ _ s.validators hok.validators
    intro y hy
    exact hok.validators y (findFirst_mem _ _ _ hy).1
  | editCandidate id ow rw ct =>
    exact { hok with balances := hok.balances, stakes := cands_setting s hok _ _ (fun _ => ⟨rfl, rfl⟩) }
  | setCandPubKey id old new =>
    exact { hok with balances := hok.balances, stakes := cands_setting s hok _ _ (fun _ => ⟨rfl, rfl⟩) }
  | setCandCommission id cm h =>
    exact { hok with balances := hok.balances, stakes := cands_setting s hok _ _ (fun _ => ⟨rfl, rfl⟩) }
  | addHalt h pk => exact { hok with balances := hok.balances }
  | addCVote h pk dg => exact { hok with balances := hok.balances }
  | addUVote h pk v => exact { hok with balances := hok.balances }
  | setNextOrder n => exact { hok with balances := hok.balances }

/-- **Core lemma (C02).** Checked application of a plan every primitive of which is safe where it is applied preserves `AmountsOk`. -/
theorem planSafe_preserves (s s' : State) (ps : List Prim) (hsafe : PlanSafe s ps) (hok : AmountsOk s)
    (h : applyChecked s ps = some s') : AmountsOk s' := by
  induction ps generalizing s with
  | nil => simp [applyChecked] at h; subst h; exact hok
  | cons p t ih =>
    obtain ⟨hside, ht⟩ := applyChecked_cons _ _ _ _ h
    exact ih _ hsafe.2 (primSafe_preserves s p hok hside hsafe.1) ht

theorem planSafe_append (s : State) (p q : List Prim) :
    PlanSafe s (p ++ q) ↔ PlanSafe s p ∧ PlanSafe (applyAll s p) q := by
  induction p generalizing s with
  | nil => simp [PlanSafe, applyAll]
  | cons x t ih =>
    simp only [List.cons_append, PlanSafe, applyAll, List.foldl_cons]
    rw [ih]
    simp only [applyAll, and_assoc]

end Minter
