import MinterProofs.AmountsValue2
/-
  C02: bancor conversions SellCoin (2), BuyCoin (4), SellAllCoin (3) under the oracle envelope `OracleSound` — every commission route.
-/
namespace Minter

theorem getCoin_addBal (s : State) (a : Addr) (c c' : Coin) (v : Int) : getCoin ((Prim.addBal a c v).apply s) c' = getCoin s c' := rfl

/-- The registry entry of `c` after the commission, as one equation. -/
theorem frame_getCoin (s s1 : State) (payer : Addr) (gas : Coin) (com : Com) (adj : Option PoolAdj) (c : Coin)
    (hfr : FeeFrame s s1 payer gas com adj) :
    getCoin s1 c = if c = gas ∧ com.fromPool = false ∧ gas ≠ 0 then
        (getCoin s c).map fun ci => { ci with volume := ci.volume - com.commission, reserve := ci.reserve - com.inBase }
      else getCoin s c := by
  split
  · next h => obtain ⟨h1, h2, h3⟩ := h; rw [h1]; exact hfr.coinGas h2 h3
  · next h =>
    apply hfr.coinOther
    by_cases h1 : c = gas
    · by_cases h2 : com.fromPool = true
      · exact Or.inr (Or.inl h2)
      · by_cases h3 : gas = 0
        · exact Or.inr (Or.inr h3)
        · exact absurd ⟨h1, by simpa using h2, h3⟩ h
    · exact Or.inl h1

theorem bview_frame (s s1 : State) (payer : Addr) (gas : Coin) (com : Com) (adj : Option PoolAdj) (c : Coin)
    (hfr : FeeFrame s s1 payer gas com adj) (hex : (getCoin s c).isSome = true) :
    bview s1 c = if c = gas ∧ com.fromPool = false ∧ gas ≠ 0 then (bview s c).afterCom com else bview s c := by
  obtain ⟨ci, hci⟩ := Option.isSome_iff_exists.mp hex
  have h1 := frame_getCoin s s1 payer gas com adj c hfr
  by_cases hc : c = gas ∧ com.fromPool = false ∧ gas ≠ 0
  · rw [if_pos hc] at h1 ⊢
    rw [hci] at h1
    simp only [bview, h1, hci, Option.map, BView.afterCom]
  · rw [if_neg hc] at h1 ⊢
    simp only [bview, h1]

theorem getCoin_isSome_of_exists (s : State) (c : Coin) (h : coinExists s c = true) (hc : c ≠ 0) : (getCoin s c).isSome = true := by
  unfold coinExists at h
  have h0 : (c == 0) = false := by simpa using hc
  simp only [h0, Bool.false_or] at h
  obtain ⟨ci, hci⟩ := findFirst_isSome_of_any _ _ h
  unfold getCoin; rw [hci]; rfl

theorem bancorBasic_exists (s : State) (sell buy : Coin) (h : bancorBasic s sell buy = none) :
    coinExists s sell = true ∧ coinExists s buy = true ∧ sell ≠ buy := by
  refine ⟨?_, ?_, bancorBasic_ne s sell buy h⟩
  all_goals (
    unfold bancorBasic at h
    repeat' (split at h)
    all_goals (first | (cases h; done) | skip)
    rename_i h1 _ h3 _ _
    first | (simpa using h1) | (simpa using h3))

/-- The views the conversion formulas ran on are the registry entries as they are after the commission. -/
theorem bancorViews_frame (s s1 : State) (payer : Addr) (gas sell buy : Coin) (com : Com) (adj : Option PoolAdj)
    (hfr : FeeFrame s s1 payer gas com adj) (hne : sell ≠ buy)
    (hs : sell ≠ 0 → (getCoin s sell).isSome = true) (hb : buy ≠ 0 → (getCoin s buy).isSome = true) :
    (sell ≠ 0 → bview s1 sell = (bancorViews s gas sell buy com).1) ∧ (buy ≠ 0 → bview s1 buy = (bancorViews s gas sell buy com).2) := by
  constructor
  · intro h0
    rw [bview_frame s s1 payer gas com adj sell hfr (hs h0)]
    unfold bancorViews
    by_cases hfp : com.fromPool = true <;> by_cases hg : gas = 0 <;> by_cases hgs : gas = sell <;> by_cases hgb : gas = buy <;>
      simp_all [Ne.symm]
    all_goals (first | omega | (intro e; exact absurd e.symm hgs) | skip)
  · intro h0
    rw [bview_frame s s1 payer gas com adj buy hfr (hb h0)]
    unfold bancorViews
    by_cases hfp : com.fromPool = true <;> by_cases hg : gas = 0 <;> by_cases hgs : gas = sell <;> by_cases hgb : gas = buy <;>
      simp_all [Ne.symm]
    all_goals (first | omega | (intro e; exact absurd e.symm hgb) | skip)

/-- A bancor conversion is safe when what is sold is covered by the balance, by the volume and (its base value) by the reserve of the
    coin sold, and what is bought fits under the maximal supply of the coin bought. -/
theorem bancor_safe (s : State) (hok : AmountsOk s) (a : Addr) (sell buy : Coin) (sellAmt buyAmt bip : Int) (hne : sell ≠ buy)
    (h0 : 0 ≤ bip) (hs0 : 0 ≤ sellAmt) (hb0 : 0 ≤ buyAmt)
    (hsell0 : sell = 0 → bip ≤ balanceOf s a 0)
    (hsell : sell ≠ 0 → sellAmt ≤ balanceOf s a sell ∧ sellAmt ≤ (bview s sell).volume ∧ bip ≤ (bview s sell).reserve)
    (hbuy : buy ≠ 0 → (bview s buy).volume + buyAmt ≤ (bview s buy).maxSupply) :
    PlanSafe s (Move.bancor a sell sellAmt buy buyAmt bip).prims := by
  have hb1 := hok.balances a buy
  have hb2 := hok.balances a 0
  have hnes : buy ≠ sell := fun e => hne e.symm
  simp only [Move.prims]
  by_cases hs : sell = 0 <;> by_cases hb : buy = 0
  · exact absurd (hs.trans hb.symm) hne
  · -- base coin sold
    have hbv := hbuy hb
    simp only [hs, hb, if_true, if_false, List.cons_append, List.nil_append, PlanSafe, PrimSafe, apply_balance', Prim.balDelta', and_true, and_false,
      getCoin_addBal, getCoin_addVolume_same]
    have := hsell0 hs
    cases hcb : getCoin s buy with
    | none => simp only [Option.map, optProp_none, and_true]; refine ⟨by omega, ?_⟩; bal_omega
    | some cb =>
      have hcbok := hok.coins cb (findFirst_mem _ _ _ hcb).1
      simp only [bview, hcb] at hbv
      simp only [Option.map, optProp_some]
      refine ⟨by omega, ?_, ⟨by omega, hbv⟩, by omega⟩
      bal_omega
  · -- base coin bought
    obtain ⟨hs1, hs2, hs3⟩ := hsell hs
    simp only [hs, hb, if_true, if_false, List.cons_append, List.nil_append, PlanSafe, PrimSafe, apply_balance', Prim.balDelta', and_true, and_false,
      getCoin_addBal, getCoin_addVolume_same]
    cases hcs : getCoin s sell with
    | none => simp only [Option.map, optProp_none, and_true, true_and]; refine ⟨by omega, ?_⟩; bal_omega
    | some cs =>
      have hcsok := hok.coins cs (findFirst_mem _ _ _ hcs).1
      simp only [bview, hcs] at hs2 hs3
      simp only [Option.map, optProp_some]
      refine ⟨by omega, ⟨by omega, by omega⟩, by omega, ?_⟩
      bal_omega
  · obtain ⟨hs1, hs2, hs3⟩ := hsell hs
    have hbv := hbuy hb
    simp only [hs, hb, if_false, List.cons_append, List.nil_append, PlanSafe, PrimSafe, apply_balance', Prim.balDelta', and_true, and_false,
      getCoin_addBal, getCoin_addVolume_same, getCoin_addVolume_ne _ _ _ _ hnes, getCoin_addReserve_ne _ _ _ _ hnes]
    cases hcs : getCoin s sell with
    | none =>
      cases hcb : getCoin s buy with
      | none => simp only [Option.map, optProp_none, and_true, true_and]; refine ⟨by omega, ?_⟩; bal_omega
      | some cb =>
        have hcbok := hok.coins cb (findFirst_mem _ _ _ hcb).1
        simp only [bview, hcb] at hbv
        simp only [Option.map, optProp_some, optProp_none, true_and]
        refine ⟨by omega, ?_, ⟨by omega, hbv⟩, by omega⟩
        bal_omega
    | some cs =>
      have hcsok := hok.coins cs (findFirst_mem _ _ _ hcs).1
      simp only [bview, hcs] at hs2 hs3
      cases hcb : getCoin s buy with
      | none =>
        simp only [Option.map, optProp_some, optProp_none, and_true]
        refine ⟨by omega, ⟨by omega, by omega⟩, by omega, ?_⟩
        bal_omega
      | some cb =>
        have hcbok := hok.coins cb (findFirst_mem _ _ _ hcb).1
        simp only [bview, hcb] at hbv
        simp only [Option.map, optProp_some]
        refine ⟨by omega, ⟨by omega, by omega⟩, by omega, ?_, ⟨by omega, hbv⟩, by omega⟩
        bal_omega

/-! ### What the quotes guarantee under the envelope -/

theorem sellStep2_sound (o : Oracle) (buy : Coin) (to_ : BView) (x bip got : Int) (ho : OracleSound o)
    (h : sellStep2 o buy to_ x = .ok (.ok (bip, got))) :
    bip = x ∧ (buy = 0 → got = bip) ∧ (buy ≠ 0 → 0 ≤ got ∧ to_.volume + got ≤ to_.maxSupply) := by
  unfold sellStep2 at h
  split at h
  · next hb => cases h; exact ⟨rfl, fun _ => rfl, fun hne => absurd (by simpa using hb) hne⟩
  · next hb =>
    cases ha : ask o (.purchaseReturn to_.volume to_.reserve to_.crr x) with
    | error e => rw [ha] at h; cases h
    | ok r =>
      rw [ha] at h
      simp only at h
      split at h
      · cases h
      · next hmax =>
        cases h
        exact ⟨rfl, fun e => absurd (by simpa using e) hb, fun _ => ⟨ho.nonneg _ _ (ask_ok _ _ _ ha), by omega⟩⟩

theorem saleReturnAndCheck_sound (P : Params) (o : Oracle) (v : BView) (value r : Int) (ho : OracleSound o)
    (h : saleReturnAndCheck P o v value = .ok (.ok r)) : value ≤ v.volume ∧ 0 ≤ r ∧ P.minReserve ≤ v.reserve - r := by
  unfold saleReturnAndCheck at h
  split at h
  · cases h
  · next hvol =>
    cases ha : ask o (.saleReturn v.volume v.reserve v.crr value) with
    | error e => rw [ha] at h; cases h
    | ok x =>
      rw [ha] at h
      simp only at h
      split at h
      · cases h
      · next hmin =>
        cases h
        exact ⟨by omega, ho.nonneg _ _ (ask_ok _ _ _ ha), by omega⟩

theorem sellQuote_sound (P : Params) (o : Oracle) (sell buy : Coin) (from_ to_ : BView) (value bip got : Int)
    (ho : OracleSound o) (hP : 0 ≤ P.minReserve) (hv : 0 ≤ value)
    (h : sellQuote P o sell buy from_ to_ value = .ok (.ok (bip, got))) :
    0 ≤ bip ∧ (sell = 0 → bip = value) ∧ (sell ≠ 0 → value ≤ from_.volume ∧ bip ≤ from_.reserve) ∧
    (buy = 0 → got = bip) ∧ (buy ≠ 0 → 0 ≤ got ∧ to_.volume + got ≤ to_.maxSupply) := by
  unfold sellQuote at h
  split at h
  · next hs =>
    obtain ⟨h1, h2, h3⟩ := sellStep2_sound o buy to_ value bip got ho h
    exact ⟨by omega, fun _ => h1, fun hne => absurd (by simpa using hs) hne, h2, h3⟩
  · next hs =>
    split at h
    · cases h
    · cases h
    · next r hr =>
      obtain ⟨s1, s2, s3⟩ := saleReturnAndCheck_sound P o from_ value r ho hr
      obtain ⟨h1, h2, h3⟩ := sellStep2_sound o buy to_ r bip got ho h
      exact ⟨by omega, fun e => absurd (by simpa using e) hs, fun _ => ⟨s1, by omega⟩, h2, h3⟩

theorem buyStep1_sound (o : Oracle) (buy : Coin) (to_ : BView) (want bip : Int) (ho : OracleSound o) (hw : 0 ≤ want)
    (h : buyStep1 o buy to_ want = .ok (.ok bip)) :
    0 ≤ bip ∧ (buy = 0 → bip = want) ∧ (buy ≠ 0 → to_.volume + want ≤ to_.maxSupply) := by
  unfold buyStep1 at h
  split at h
  · next hb => cases h; exact ⟨hw, fun _ => rfl, fun hne => absurd (by simpa using hb) hne⟩
  · next hb =>
    split at h
    · cases h
    · next hmax =>
      cases ha : ask o (.purchaseAmount to_.volume to_.reserve to_.crr want) with
      | error e => rw [ha] at h; cases h
      | ok r =>
        rw [ha] at h
        cases h
        exact ⟨ho.nonneg _ _ (ask_ok _ _ _ ha), fun e => absurd (by simpa using e) hb, fun _ => by omega⟩

theorem buyStep2_sound (P : Params) (o : Oracle) (sell : Coin) (from_ : BView) (bip pay : Int) (ho : OracleSound o) (hP : 0 ≤ P.minReserve)
    (hb : 0 ≤ bip) (h : buyStep2 P o sell from_ bip = .ok (.ok pay)) :
    0 ≤ pay ∧ (sell = 0 → pay = bip) ∧ (sell ≠ 0 → pay ≤ from_.volume ∧ bip ≤ from_.reserve) := by
  unfold buyStep2 at h
  split at h
  · next hs => cases h; exact ⟨hb, fun _ => rfl, fun hne => absurd (by simpa using hs) hne⟩
  · next hs =>
    unfold saleAmountAndCheck at h
    split at h
    · cases h
    · next hres =>
      cases ha : ask o (.saleAmount from_.volume from_.reserve from_.crr bip) with
      | error e => rw [ha] at h; cases h
      | ok r =>
        rw [ha] at h
        simp only at h
        split at h
        · cases h
        · cases h
          have hv := ask_ok _ _ _ ha
          exact ⟨ho.nonneg _ _ hv, fun e => absurd (by simpa using e) hs,
            fun _ => ⟨ho.saleAmountLeVolume _ _ _ _ _ hv hb (by omega), by omega⟩⟩

/-! ### SellCoin (2) -/

theorem sellCoin_typed (P : Params) (o : Oracle) (s : State) (t : TxIn) (price : Int) (rd : Ready)
    (ho : OracleSound o) (hP : 0 ≤ P.minReserve) (hv : 0 ≤ t.int "d.ValueToSell")
    (h : runSellCoin P o s t price = .ok (.ok rd)) : Checked P o s price rd ∧ BodySafe s rd := by
  unfold runSellCoin at h
  peel h
  all_goals (obtain ⟨com, hcom, hk⟩ := withCom_ready _ _ _ _ _ _ _ h; peel hk)
  all_goals (
    have hbasic := ‹bancorBasic s _ _ = none›
    have hq := ‹sellQuote P o _ _ _ _ _ = Except.ok (Except.ok (_, _))›
    have hf : com.commission ≤ balanceOf s t.sender t.gasCoin ∧
        t.int "d.ValueToSell" + (if t.nat "d.CoinToSell" = t.gasCoin then com.commission else 0) ≤ balanceOf s t.sender (t.nat "d.CoinToSell") := by
      norm_checks
      constructor <;> funds_omega (t.nat "d.CoinToSell"), t.gasCoin
    obtain ⟨hexs, hexb, hne⟩ := bancorBasic_exists s _ _ hbasic
    obtain ⟨q0, q1, q2, q3, q4⟩ := sellQuote_sound P o _ _ _ _ _ _ _ ho hP hv hq
    obtain ⟨hck, _⟩ := ready_checked P o s price t com _ _ rd hcom hf.1 hk
    refine ⟨hck, bodySafe_ready s t com _ _ rd hk ?_⟩
    intro s1 adj hfr hok1
    rw [planOf_single]
    obtain ⟨v1, v2⟩ := bancorViews_frame s s1 t.sender t.gasCoin _ _ com adj hfr hne
      (fun h0 => getCoin_isSome_of_exists s _ hexs h0) (fun h0 => getCoin_isSome_of_exists s _ hexb h0)
    have hb := spend_after_fee s s1 t.sender t.gasCoin _ com adj _ hfr hf.2
    apply bancor_safe s1 hok1 _ _ _ _ _ _ hne q0 hv
    · by_cases hb0 : t.nat "d.CoinToBuy" = 0
      · rw [q3 hb0]; exact q0
      · exact (q4 hb0).1
    · intro hs0; rw [q1 hs0]; rw [hs0] at hb; exact hb
    · intro hs0; rw [v1 hs0]; exact ⟨hb, (q2 hs0).1, (q2 hs0).2⟩
    · intro hb0; rw [v2 hb0]; exact (q4 hb0).2)

/-! ### BuyCoin (4) -/

theorem buyCoin_typed (P : Params) (o : Oracle) (s : State) (t : TxIn) (price : Int) (rd : Ready)
    (ho : OracleSound o) (hP : 0 ≤ P.minReserve) (hv : 0 ≤ t.int "d.ValueToBuy")
    (h : runBuyCoin P o s t price = .ok (.ok rd)) : Checked P o s price rd ∧ BodySafe s rd := by
  unfold runBuyCoin at h
  peel h
  all_goals (obtain ⟨com, hcom, hk⟩ := withCom_ready _ _ _ _ _ _ _ h; peel hk)
  all_goals (
    have hbasic := ‹bancorBasic s _ _ = none›
    have hq1 := ‹buyStep1 o _ _ _ = Except.ok (Except.ok _)›
    have hq2 := ‹buyStep2 P o _ _ _ = Except.ok (Except.ok _)›
    obtain ⟨p0, p1, p2⟩ := buyStep1_sound o _ _ _ _ ho hv hq1
    obtain ⟨r0, r1, r2⟩ := buyStep2_sound P o _ _ _ _ ho hP p0 hq2
    obtain ⟨hexs, hexb, hne⟩ := bancorBasic_exists s _ _ hbasic
    rename_i pay _ _ _ _
    have hf : com.commission ≤ balanceOf s t.sender t.gasCoin ∧
        pay + (if t.nat "d.CoinToSell" = t.gasCoin then com.commission else 0) ≤ balanceOf s t.sender (t.nat "d.CoinToSell") := by
      norm_checks
      constructor <;> funds_omega (t.nat "d.CoinToSell"), t.gasCoin
    obtain ⟨hck, _⟩ := ready_checked P o s price t com _ _ rd hcom hf.1 hk
    refine ⟨hck, bodySafe_ready s t com _ _ rd hk ?_⟩
    intro s1 adj hfr hok1
    rw [planOf_single]
    obtain ⟨v1, v2⟩ := bancorViews_frame s s1 t.sender t.gasCoin _ _ com adj hfr hne
      (fun h0 => getCoin_isSome_of_exists s _ hexs h0) (fun h0 => getCoin_isSome_of_exists s _ hexb h0)
    have hb := spend_after_fee s s1 t.sender t.gasCoin _ com adj _ hfr hf.2
    apply bancor_safe s1 hok1 _ _ _ _ _ _ hne p0 r0 hv
    · intro hs0; rw [← r1 hs0]; rw [hs0] at hb; exact hb
    · intro hs0; rw [v1 hs0]; exact ⟨hb, (r2 hs0).1, (r2 hs0).2⟩
    · intro hb0; rw [v2 hb0]; exact p2 hb0)

/-! ### SellAllCoin (3) -/

theorem sellAllCoin_typed (P : Params) (o : Oracle) (s : State) (t : TxIn) (price : Int) (rd : Ready)
    (ho : OracleSound o) (hP : 0 ≤ P.minReserve)
    (h : runSellAllCoin P o s t price = .ok (.ok rd)) : Checked P o s price rd ∧ BodySafe s rd := by
  unfold runSellAllCoin at h
  peel h
  all_goals (obtain ⟨com, hcom, hk⟩ := withCom_ready _ _ _ _ _ _ _ h; peel hk)
  all_goals (
    have hbasic := ‹bancorBasic s _ _ = none›
    have hq := ‹sellQuote P o _ _ _ _ _ = Except.ok (Except.ok (_, _))›
    have hf : com.commission < balanceOf s t.sender (t.nat "d.CoinToSell") := by norm_checks; omega
    obtain ⟨hexs, hexb, hne⟩ := bancorBasic_exists s _ _ hbasic
    obtain ⟨q0, q1, q2, q3, q4⟩ := sellQuote_sound P o _ _ _ _ _ _ _ ho hP (by omega) hq
    cases hk
    refine ⟨⟨hcom, by simp only; omega⟩, ?_⟩
    intro s1 adj body tags hfr hok1 he
    simp only at he hfr
    cases he
    rw [planOf_single]
    have hbal := hfr.bal t.sender (t.nat "d.CoinToSell")
    simp only [and_self, if_true] at hbal
    have hvs : (t.nat "d.CoinToSell") ≠ 0 → bview s1 (t.nat "d.CoinToSell") = sellAllView s (t.nat "d.CoinToSell") com := by
      intro h0
      rw [bview_frame s s1 t.sender _ com adj _ hfr (getCoin_isSome_of_exists s _ hexs h0)]
      unfold sellAllView
      by_cases hfp : com.fromPool = true <;> simp_all
    have hvb : (t.nat "d.CoinToBuy") ≠ 0 → bview s1 (t.nat "d.CoinToBuy") = bview s (t.nat "d.CoinToBuy") := by
      intro h0
      rw [bview_frame s s1 t.sender _ com adj _ hfr (getCoin_isSome_of_exists s _ hexb h0)]
      have : ¬ (t.nat "d.CoinToBuy" = t.nat "d.CoinToSell") := fun e => hne e.symm
      simp only [this, false_and, if_false]
    apply bancor_safe s1 hok1 _ _ _ _ _ _ hne q0 (by omega)
    · by_cases hb0 : t.nat "d.CoinToBuy" = 0
      · rw [q3 hb0]; exact q0
      · exact (q4 hb0).1
    · intro hs0; rw [q1 hs0]; rw [hs0] at hbal ⊢; omega
    · intro hs0; rw [hvs hs0]; exact ⟨by omega, (q2 hs0).1, (q2 hs0).2⟩
    · intro hb0; rw [hvb hb0]; exact (q4 hb0).2)

end Minter
