import MinterProofs.AmountsValue
/-
  C02, transaction types that move value (ledger part, continued): Multisend, RedeemCheck, Create/Recreate coin and token,
  Mint/Burn token — every commission route.
-/
namespace Minter

/-! ### Multisend (13) -/

theorem sumFor_cons (it : Coin × Addr × Int) (items : List (Coin × Addr × Int)) (c : Coin) :
    sumFor (it :: items) c = (if it.1 = c then it.2.2 else 0) + sumFor items c := by
  simp only [sumFor, sumBy, beq_iff_eq]

theorem sumFor_nonneg (items : List (Coin × Addr × Int)) (hv : ∀ it ∈ items, 0 ≤ it.2.2) (c : Coin) : 0 ≤ sumFor items c := by
  induction items with
  | nil => simp [sumFor, sumBy]
  | cons it t ih =>
    rw [sumFor_cons]
    have := ih (fun x hx => hv x (List.mem_cons_of_mem _ hx))
    have := hv it (List.mem_cons_self ..)
    split <;> omega

/-- The transfers of a multisend are safe when the sender holds the per-coin totals. -/
theorem transfers_safe (S : Addr) (items : List (Coin × Addr × Int)) :
    ∀ s, AmountsOk s → (∀ it ∈ items, 0 ≤ it.2.2) → (∀ c, sumFor items c ≤ balanceOf s S c) → PlanSafe s (itemPrims S items) := by
  induction items with
  | nil => intro s _ _ _; trivial
  | cons it t ih =>
    intro s hok hv hb
    have hv0 := hv it (List.mem_cons_self ..)
    have hvt := fun x hx => hv x (List.mem_cons_of_mem _ hx)
    have hnn := sumFor_nonneg t hvt
    have hplan : itemPrims S (it :: t) = Prim.addBal S it.1 (-it.2.2) :: Prim.addBal it.2.1 it.1 it.2.2 :: itemPrims S t := by
      simp [itemPrims, List.flatMap_cons]
    rw [hplan]
    have hb1 := hb it.1
    rw [sumFor_cons] at hb1
    simp only [if_true] at hb1
    have h1 : PrimSafe s (Prim.addBal S it.1 (-it.2.2)) := by
      simp only [PrimSafe]; have := hnn it.1; omega
    have hok1 := primSafe_preserves s _ hok rfl h1
    have h2 : PrimSafe ((Prim.addBal S it.1 (-it.2.2)).apply s) (Prim.addBal it.2.1 it.1 it.2.2) := by
      have := hok1.balances it.2.1 it.1
      simp only [PrimSafe]; omega
    have hok2 := primSafe_preserves _ _ hok1 rfl h2
    refine ⟨h1, h2, ih _ hok2 hvt ?_⟩
    intro c
    have hbc := hb c
    rw [sumFor_cons] at hbc
    simp only [apply_balance', Prim.balDelta']
    bal_omega

theorem multisend_typed (P : Params) (o : Oracle) (s : State) (t : TxIn) (price : Int) (rd : Ready)
    (hv : ∀ it ∈ parseMultisend (t.str "d.List"), 0 ≤ it.2.2)
    (h : runMultisend P o s t price = .ok (.ok rd)) : Checked P o s price rd ∧ BodySafe s rd := by
  obtain ⟨com, hcom, hf, hp, hc, hcm, hex⟩ := multisend_funds P o s t price rd h
  have hfg := hf t.gasCoin (Or.inl rfl)
  simp only [beq_self_eq_true, if_true] at hfg
  have hnn := sumFor_nonneg _ hv t.gasCoin
  refine ⟨⟨by rw [hc, hcm]; exact hcom, by rw [hp, hc, hcm]; omega⟩, ?_⟩
  apply bodySafe_of_exec s rd _ _ hex
  intro s1 adj hfr hok1
  rw [hp, hc, hcm] at hfr
  rw [planOf_transfers]
  apply transfers_safe t.sender _ s1 hok1 hv
  intro c
  have hfb := hfr.bal t.sender c
  by_cases hcin : c = t.gasCoin ∨ ∃ it ∈ parseMultisend (t.str "d.List"), it.1 = c
  · have := hf c hcin
    by_cases hcg : c = t.gasCoin
    · subst hcg; simp only [beq_self_eq_true, if_true, and_self] at this hfb; omega
    · have hne : (c == t.gasCoin) = false := by simpa using hcg
      simp only [hne, Bool.false_eq_true, if_false, hcg, and_false] at this hfb; omega
  · simp only [not_or, not_exists, not_and] at hcin
    have hz := sumFor_zero (parseMultisend (t.str "d.List")) c (fun it hit => hcin.2 it hit)
    have := hok1.balances t.sender c
    omega

/-! ### RedeemCheck (9) -/

theorem redeem_typed (P : Params) (o : Oracle) (s : State) (block : Nat) (t : TxIn) (price : Int) (rd : Ready)
    (hv : ∀ k, t.check = some k → 0 ≤ k.value)
    (h : runRedeemCheck P o s block t price = .ok (.ok rd)) : Checked P o s price rd ∧ BodySafe s rd := by
  obtain ⟨k, issuer, com, hr, hcom, hp, hc, hcm, _, hex⟩ := redeem_conditions P o s block t price rd h
  have hv' := hv k hr.decodes
  have hg := hr.gasCoin
  have hf : com.commission ≤ balanceOf s issuer t.gasCoin ∧
      k.value + (if k.coin = t.gasCoin then com.commission else 0) ≤ balanceOf s issuer k.coin := by
    by_cases hcg : k.coin = k.gasCoin
    · have := hr.funds.1 hcg
      rw [hg, ← hcg]; simp only [if_true]; omega
    · have := hr.funds.2 hcg
      rw [hg]; simp only [hcg, if_false]; omega
  refine ⟨⟨by rw [hc, hcm]; exact hcom, by rw [hp, hc, hcm]; exact hf.1⟩, ?_⟩
  apply bodySafe_of_exec s rd _ _ hex
  intro s1 adj hfr hok1
  rw [hp, hc, hcm] at hfr
  have hb := spend_after_fee s s1 issuer t.gasCoin k.coin com adj k.value hfr hf.2
  have hplan : planOf [Move.admin (Prim.useCheck k.hash), Move.transfer issuer t.sender k.coin k.value] =
      Prim.useCheck k.hash :: (Move.transfer issuer t.sender k.coin k.value).prims := by
    simp [planOf, Move.prims, Prim.isAdmin]
  rw [hplan]
  refine ⟨trivial, ?_⟩
  exact transfer_safe _ (primSafe_preserves s1 (Prim.useCheck k.hash) hok1 rfl trivial) _ _ _ _ hv' hb

/-! ### The coin registry after the commission -/

/-- A registry entry after the commission: as before, or — the bancor-paid gas coin — with the commission taken off its volume and the
    base value off its reserve. -/
theorem frame_coin (s s1 : State) (payer : Addr) (gas : Coin) (com : Com) (adj : Option PoolAdj) (c : Coin) (ci : CoinInfo)
    (hfr : FeeFrame s s1 payer gas com adj) (hci : getCoin s c = some ci) :
    getCoin s1 c = some ci ∨
      (c = gas ∧ com.fromPool = false ∧ gas ≠ 0 ∧
        getCoin s1 c = some { ci with volume := ci.volume - com.commission, reserve := ci.reserve - com.inBase }) := by
  by_cases h : c ≠ gas ∨ com.fromPool = true ∨ gas = 0
  · left; rw [hfr.coinOther c h]; exact hci
  · simp only [not_or, ne_eq, Decidable.not_not, Bool.not_eq_true] at h
    obtain ⟨h1, h2, h3⟩ := h
    right
    refine ⟨h1, h2, h3, ?_⟩
    rw [h1, hfr.coinGas h2 h3, ← h1, hci]; rfl

/-! ### MintToken (28), BurnToken (29) -/

theorem mint_typed (P : Params) (o : Oracle) (s : State) (t : TxIn) (price : Int) (rd : Ready)
    (ho : OracleSound o) (hP : 0 ≤ P.minReserve) (hok : AmountsOk s) (hp0 : 0 ≤ price) (hv : 0 ≤ t.int "d.Value")
    (h : runMintToken P o s t price = .ok (.ok rd)) : Checked P o s price rd ∧ BodySafe s rd := by
  obtain ⟨com, ci, hcom, hf, hci, hmax, hcn, hp, hc, hcm, hex⟩ := mint_funds P o s t price rd h
  refine ⟨⟨by rw [hc, hcm]; exact hcom, by rw [hp, hc, hcm]; exact hf⟩, ?_⟩
  apply bodySafe_of_exec s rd _ _ hex
  intro s1 adj hfr hok1
  rw [hp, hc, hcm] at hfr
  rw [planOf_single]
  have hb := hok1.balances t.sender (t.nat "d.Coin")
  have hciok := hok.coins ci (findFirst_mem _ _ _ hci).1
  rcases frame_coin s s1 t.sender t.gasCoin com adj _ ci hfr hci with h1 | ⟨hcg, hfp, hg, h1⟩
  · exact mint_safe s1 _ _ _ ci h1 (by omega) hmax (by omega)
  · have hs := (calcCommission_sound P o s t.gasCoin price com ho hP hok hp0 hcom).1 hfp hg
    rw [← hcg, hci] at hs
    simp only [optProp_some] at hs
    have hci1 := hok1.coins _ (findFirst_mem _ _ _ h1).1
    simp only at hci1
    exact mint_safe s1 _ _ _ _ h1 (by simp only; omega) (by simp only; omega) (by omega)

/-- Coins that can be burnt have no reserve (CreateCoin registers reserve coins as not burnable; tokens and pool tokens have no reserve). -/
def BurnableNoReserve (s : State) : Prop := ∀ ci ∈ s.coins, ci.burnable = true → ci.crr = 0

theorem burn_typed (P : Params) (o : Oracle) (s : State) (t : TxIn) (price : Int) (rd : Ready)
    (hwf : BurnableNoReserve s) (hv : 0 ≤ t.int "d.Value")
    (h : runBurnToken P o s t price = .ok (.ok rd)) : Checked P o s price rd ∧ BodySafe s rd := by
  have hburnable : ∀ ci, getCoin s (t.nat "d.Coin") = some ci → ci.burnable = true := by
    intro ci hci
    unfold runBurnToken at h
    simp only at h
    split at h
    · cases h
    · rw [hci] at h
      simp only at h
      split at h
      · cases h
      · next hb => simpa using hb
  obtain ⟨com, ci, hcom, hf, hci, hmin, hcn, hf2, hp, hc, hcm, hex⟩ := burn_funds P o s t price rd h
  refine ⟨⟨by rw [hc, hcm]; exact hcom, by rw [hp, hc, hcm]; exact hf⟩, ?_⟩
  apply bodySafe_of_exec s rd _ _ hex
  intro s1 adj hfr hok1
  rw [hp, hc, hcm] at hfr
  rw [planOf_single]
  rw [addIfGas_eq] at hf2
  have hb : t.int "d.Value" ≤ balanceOf s1 t.sender (t.nat "d.Coin") := by
    apply spend_after_fee s s1 t.sender t.gasCoin _ com adj _ hfr
    by_cases hcg : t.nat "d.Coin" = t.gasCoin
    · simp only [hcg, if_true] at hf2 ⊢; omega
    · have : ¬ t.gasCoin = t.nat "d.Coin" := fun e => hcg e.symm
      simp only [this, hcg, if_false] at hf2 ⊢; omega
  have hmem := (findFirst_mem _ _ _ hci).1
  rcases frame_coin s s1 t.sender t.gasCoin com adj _ ci hfr hci with h1 | ⟨hcg, hfp, hg, h1⟩
  · have hciok := hok1.coins ci (findFirst_mem _ _ _ h1).1
    exact mint_safe s1 _ _ _ ci h1 (by omega) (by omega) (by omega)
  · -- the coin being burnt is the bancor-paid gas coin: it would have a reserve, but burnable coins have none
    by_cases hz : com.commission = 0
    · have hciok := hok1.coins _ (findFirst_mem _ _ _ h1).1
      simp only at hciok
      exact mint_safe s1 _ _ _ _ h1 (by simp only; omega) (by simp only; omega) (by omega)
    · obtain ⟨cg, hcg', hres⟩ := calcCommission_reserve P o s t.gasCoin price com hcom hfp hg hz
      rw [← hcg, hci] at hcg'
      injection hcg' with hcg'
      subst hcg'
      have := hwf ci hmem (hburnable ci hci)
      simp [hasReserve, this] at hres

/-! ### CreateCoin (5), CreateToken (30), RecreateCoin (16), RecreateToken (31) -/

theorem oneBip_pos : 0 < oneBip := by decide

theorem planOf_admin_cons (p : Prim) (hp : p.isAdmin = true) (rest : List Move) : planOf (Move.admin p :: rest) = p :: planOf rest := by
  simp [planOf, Move.prims, hp]

theorem com_base_eq (P : Params) (o : Oracle) (s : State) (gas : Coin) (price : Int) (com : Com)
    (hcom : calcCommission P o s gas price = .ok (.ok com)) : gas = 0 → com.commission = com.inBase := by
  intro hg
  rw [hg] at hcom
  rw [calcCommission_base P o s price com hcom]

theorem createCoin_typed (P : Params) (o : Oracle) (s : State) (t : TxIn) (price : Int) (rd : Ready) (hP : 0 ≤ P.minReserve)
    (h : runCreateCoin P o s t price = .ok (.ok rd)) : Checked P o s price rd ∧ BodySafe s rd := by
  unfold runCreateCoin at h
  peel h
  all_goals (obtain ⟨com, hcom, hk⟩ := withCom_ready _ _ _ _ _ _ _ h; peel hk)
  all_goals (
    have hbase := com_base_eq P o s t.gasCoin price com hcom
    have h1 := oneBip_pos
    have hf : com.commission ≤ balanceOf s t.sender t.gasCoin ∧
        t.int "d.InitialReserve" + (if t.gasCoin = 0 then com.commission else 0) ≤ balanceOf s t.sender 0 ∧
        0 ≤ t.int "d.InitialAmount" ∧ t.int "d.InitialAmount" ≤ t.int "d.MaxSupply" ∧ 0 ≤ t.int "d.InitialReserve" := by
      norm_checks
      refine ⟨?_, ?_, ?_, ?_, ?_⟩ <;> funds_omega t.gasCoin, (0 : Nat)
    obtain ⟨hck, _⟩ := ready_checked P o s price t com _ _ rd hcom hf.1 hk
    refine ⟨hck, bodySafe_ready s t com _ _ rd hk ?_⟩
    intro s1 adj hfr hok1
    rw [planOf_single]
    have hb : t.int "d.InitialReserve" ≤ balanceOf s1 t.sender 0 := by
      apply spend_after_fee s s1 t.sender t.gasCoin 0 com adj _ hfr
      have := hf.2.1
      by_cases hg : t.gasCoin = 0
      · simp only [hg, if_true] at this ⊢; exact this
      · have : ¬ (0 = t.gasCoin) := fun e => hg e.symm
        simp only [hg, this, if_false] at *; omega
    exact createCoin_safe s1 hok1 _ _ hb hf.2.2.1 hf.2.2.2.2 hf.2.2.2.1)

theorem createToken_typed (P : Params) (o : Oracle) (s : State) (t : TxIn) (price : Int) (rd : Ready)
    (h : runCreateToken P o s t price = .ok (.ok rd)) : Checked P o s price rd ∧ BodySafe s rd := by
  unfold runCreateToken at h
  peel h
  all_goals (obtain ⟨com, hcom, hk⟩ := withCom_ready _ _ _ _ _ _ _ h; peel hk)
  all_goals (
    have hf : com.commission ≤ balanceOf s t.sender t.gasCoin ∧
        0 ≤ t.int "d.InitialAmount" ∧ t.int "d.InitialAmount" ≤ t.int "d.MaxSupply" := by
      norm_checks
      refine ⟨?_, ?_, ?_⟩ <;> omega
    obtain ⟨hck, _⟩ := ready_checked P o s price t com _ _ rd hcom hf.1 hk
    refine ⟨hck, bodySafe_ready s t com _ _ rd hk ?_⟩
    intro s1 adj hfr hok1
    rw [planOf_single]
    exact createCoin_safe s1 hok1 _ _ (hok1.balances _ _) hf.2.1 (Int.le_refl 0) hf.2.2)

theorem recreateCoin_typed (P : Params) (o : Oracle) (s : State) (t : TxIn) (price : Int) (rd : Ready) (hP : 0 ≤ P.minReserve)
    (h : runRecreateCoin P o s t price = .ok (.ok rd)) : Checked P o s price rd ∧ BodySafe s rd := by
  unfold runRecreateCoin at h
  peel h
  all_goals (obtain ⟨com, hcom, hk⟩ := withCom_ready _ _ _ _ _ _ _ h; peel hk)
  all_goals (
    have h1 := oneBip_pos
    have hf : com.commission ≤ balanceOf s t.sender t.gasCoin ∧
        t.int "d.InitialReserve" + (if t.gasCoin = 0 then com.commission else 0) ≤ balanceOf s t.sender 0 ∧
        0 ≤ t.int "d.InitialAmount" ∧ t.int "d.InitialAmount" ≤ t.int "d.MaxSupply" ∧ 0 ≤ t.int "d.InitialReserve" := by
      norm_checks
      refine ⟨?_, ?_, ?_, ?_, ?_⟩ <;> funds_omega t.gasCoin, (0 : Nat)
    obtain ⟨hck, _⟩ := ready_checked P o s price t com _ _ rd hcom hf.1 hk
    refine ⟨hck, bodySafe_ready s t com _ _ rd hk ?_⟩
    intro s1 adj hfr hok1
    rw [planOf_admin_cons _ rfl, planOf_single]
    have hb : t.int "d.InitialReserve" ≤ balanceOf s1 t.sender 0 := by
      apply spend_after_fee s s1 t.sender t.gasCoin 0 com adj _ hfr
      have := hf.2.1
      by_cases hg : t.gasCoin = 0
      · simp only [hg, if_true] at this ⊢; exact this
      · have : ¬ (0 = t.gasCoin) := fun e => hg e.symm
        simp only [hg, this, if_false] at *; omega
    exact ⟨trivial, createCoin_safe _ (primSafe_preserves s1 (Prim.bumpVersion _ _) hok1 rfl trivial) _ _ hb hf.2.2.1 hf.2.2.2.2 hf.2.2.2.1⟩)

theorem recreateToken_typed (P : Params) (o : Oracle) (s : State) (t : TxIn) (price : Int) (rd : Ready)
    (h : runRecreateToken P o s t price = .ok (.ok rd)) : Checked P o s price rd ∧ BodySafe s rd := by
  unfold runRecreateToken at h
  peel h
  all_goals (obtain ⟨com, hcom, hk⟩ := withCom_ready _ _ _ _ _ _ _ h; peel hk)
  all_goals (
    have hf : com.commission ≤ balanceOf s t.sender t.gasCoin ∧
        0 ≤ t.int "d.InitialAmount" ∧ t.int "d.InitialAmount" ≤ t.int "d.MaxSupply" := by
      norm_checks
      refine ⟨?_, ?_, ?_⟩ <;> omega
    obtain ⟨hck, _⟩ := ready_checked P o s price t com _ _ rd hcom hf.1 hk
    refine ⟨hck, bodySafe_ready s t com _ _ rd hk ?_⟩
    intro s1 adj hfr hok1
    rw [planOf_admin_cons _ rfl, planOf_single]
    exact ⟨trivial, createCoin_safe _ (primSafe_preserves s1 (Prim.bumpVersion _ _) hok1 rfl trivial) _ _ (hok1.balances _ _) hf.2.1 (Int.le_refl 0) hf.2.2⟩)

end Minter
