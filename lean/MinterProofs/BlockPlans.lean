import MinterModel.Block
import MinterProofs.Begin
import MinterProofs.Props.C19
/-
  Accounting of the EndBlock steps that are sequences of ledger primitives (order expiry, payout, emission) and of the
  accrual step.  Everything is stated as an equation between the books before and after; no hypothesis on the state.
-/
namespace Minter

/-! ### generic -/

theorem sumBy_flatMap {α β : Type} (f : β → Int) (g : α → List β) (l : List α) :
    sumBy f (l.flatMap g) = sumBy (fun x => sumBy f (g x)) l := by
  induction l with
  | nil => rfl
  | cons x t ih => simp only [List.flatMap_cons, sumBy_append, sumBy, ih]

/-- Effect of a primitive on the in-memory fee pool. -/
def Prim.dPool : Prim → Int
  | .addRewards v => v
  | _ => 0

theorem apply_pool (s : State) (p : Prim) : (p.apply s).rewardsPool = s.rewardsPool + p.dPool := by
  cases p <;> simp [Prim.apply, Prim.dPool]

theorem checked_pool (s s' : State) (ps : List Prim) (h : applyChecked s ps = some s') :
    s'.rewardsPool = s.rewardsPool + sumBy Prim.dPool ps := by
  induction ps generalizing s with
  | nil => simp [applyChecked] at h; subst h; simp [sumBy]
  | cons p t ih =>
    obtain ⟨_, ht⟩ := applyChecked_cons _ _ _ _ h
    rw [ih _ ht, apply_pool]; simp only [sumBy]; omega

/-- What a checked plan does to the three books of C01. -/
theorem plan_books (s s' : State) (ps : List Prim) (h : applyChecked s ps = some s') :
    (∀ c, volumeOf s' c - holdings s' c = volumeOf s c - holdings s c + (sumVol c ps - sumHold c ps)) ∧
    baseTotal s' = baseTotal s + (sumHold 0 ps + sumSide ps - sumBy Prim.dPool ps) ∧
    s'.emission = s.emission + sumEmission ps := by
  refine ⟨fun c => ?_, ?_, checked_emission _ _ _ h⟩
  · rw [checked_holdings _ _ _ c h, checked_volume _ _ _ c h]; omega
  · have h1 := baseTotalP_eq s
    have h2 := baseTotalP_eq s'
    have h3 := checked_holdings _ _ _ 0 h
    have h4 := checked_side _ _ _ h
    have h5 := checked_pool _ _ _ h
    simp only [baseTotalP] at h1 h2
    omega

theorem applyPlan_ok (s s' : State) (ps : List Prim) (h : applyPlan s ps = .ok s') : applyChecked s ps = some s' := by
  unfold applyPlan at h
  split at h
  · next x hx => cases h; exact hx
  · cases h

/-! ### 1–3 accrual -/

theorem accrueStep_books (s : State) (signed : List Nat) (e : Rules.Emit) :
    (∀ c, holdings (accrueStep s signed e) c = holdings s c) ∧
    (∀ c, volumeOf (accrueStep s signed e) c = volumeOf s c) ∧
    baseTotal (accrueStep s signed e) = baseTotal s + (e.toValidators + s.rewardsPool) ∧
    (accrueStep s signed e).emission = s.emission := by
  refine ⟨fun _ => rfl, fun _ => rfl, ?_, rfl⟩
  have h := endBlockAccrue_conserves (e.toValidators + s.rewardsPool) s.validators (presentOf s signed)
  simp only [accumOf] at h
  have h0 : holdings (accrueStep s signed e) 0 = holdings s 0 := rfl
  have hr : totalReserve (accrueStep s signed e) = totalReserve s := rfl
  simp only [baseTotal, h0, hr]
  simp only [totalAccum, accrueStep]
  omega

/-! ### 4 order expiry -/

theorem expireOne_sums (o : Order) (c : Coin) :
    sumHold c (expireOne o) = 0 ∧ sumVol c (expireOne o) = 0 ∧ sumSide (expireOne o) = 0
      ∧ sumEmission (expireOne o) = 0 ∧ sumBy Prim.dPool (expireOne o) = 0 := by
  unfold expireOne orderRefund
  cases hs : o.isSale
  · simp only [Bool.false_eq_true, if_false]
    split
    · next h0 => simp [sumHold, sumVol, sumSide, sumEmission, sumBy, Prim.dHold, Prim.dVol, Prim.dSide, Prim.dEmission, Prim.dPool, orderEscrow, hs, h0]
    · simp only [sumHold, sumVol, sumSide, sumEmission, sumBy, Prim.dHold, Prim.dVol, Prim.dSide, Prim.dEmission, Prim.dPool, orderEscrow, hs,
        Bool.false_eq_true, if_false]
      refine ⟨?_, by omega, by omega, by omega, by omega⟩
      split <;> omega
  · simp only [if_true]
    split
    · next h0 => simp [sumHold, sumVol, sumSide, sumEmission, sumBy, Prim.dHold, Prim.dVol, Prim.dSide, Prim.dEmission, Prim.dPool, orderEscrow, hs, h0]
    · simp only [sumHold, sumVol, sumSide, sumEmission, sumBy, Prim.dHold, Prim.dVol, Prim.dSide, Prim.dEmission, Prim.dPool, orderEscrow, hs,
        if_true]
      refine ⟨?_, by omega, by omega, by omega, by omega⟩
      split <;> omega

/-- **Order expiry moves the unfilled escrow back to the owner and nothing else**: no coin's holdings or volume change. -/
theorem expirePlan_sums (os : List Order) (c : Coin) :
    sumHold c (expirePlan os) = 0 ∧ sumVol c (expirePlan os) = 0 ∧ sumSide (expirePlan os) = 0
      ∧ sumEmission (expirePlan os) = 0 ∧ sumBy Prim.dPool (expirePlan os) = 0 := by
  unfold expirePlan
  simp only [sumHold, sumVol, sumSide, sumEmission, sumBy_flatMap]
  have h := fun o => expireOne_sums o c
  simp only [sumHold, sumVol, sumSide, sumEmission] at h
  refine ⟨?_, ?_, ?_, ?_, ?_⟩
  · rw [sumBy_congr _ (fun _ => 0) _ (fun o => (h o).1), sumBy_zero]
  · rw [sumBy_congr _ (fun _ => 0) _ (fun o => (h o).2.1), sumBy_zero]
  · rw [sumBy_congr _ (fun _ => 0) _ (fun o => (h o).2.2.1), sumBy_zero]
  · rw [sumBy_congr _ (fun _ => 0) _ (fun o => (h o).2.2.2.1), sumBy_zero]
  · rw [sumBy_congr _ (fun _ => 0) _ (fun o => (h o).2.2.2.2), sumBy_zero]

/-! ### 5 payout -/

theorem payPlanOne_sums (x : PayoutOf) :
    (∀ c, c ≠ 0 → sumHold c (payPlanOne x) = 0) ∧ sumHold 0 (payPlanOne x) = paidTotal x.out.payments ∧
    (∀ c, sumVol c (payPlanOne x) = 0) ∧ sumSide (payPlanOne x) = x.out.remainder - x.val.accum ∧
    sumEmission (payPlanOne x) = 0 ∧ sumBy Prim.dPool (payPlanOne x) = 0 := by
  unfold payPlanOne
  simp only [sumHold, sumVol, sumSide, sumEmission, sumBy_append, sumBy_map, sumBy, Prim.dHold, Prim.dVol, Prim.dSide,
    Prim.dEmission, Prim.dPool, stakeOf]
  refine ⟨?_, ?_, ?_, ?_, ?_, ?_⟩
  · intro c hc
    have : ∀ p : Payment, (if 0 = c then p.amount else 0) = (0 : Int) := by intro p; rw [if_neg (by omega)]
    rw [sumBy_congr _ (fun _ => 0) _ this, sumBy_zero]; omega
  · simp only [if_true, paidTotal]; omega
  · intro c; rw [sumBy_zero]; omega
  · rw [sumBy_zero]; omega
  · rw [sumBy_zero]; omega
  · rw [sumBy_zero]; omega

theorem payPlan_sums (xs : List PayoutOf) :
    (∀ c, c ≠ 0 → sumHold c (payPlan xs) = 0) ∧
    sumHold 0 (payPlan xs) + sumSide (payPlan xs)
      = sumBy (fun x => paidTotal x.out.payments + x.out.remainder - x.val.accum) xs ∧
    (∀ c, sumVol c (payPlan xs) = 0) ∧ sumEmission (payPlan xs) = moreOf xs ∧ sumBy Prim.dPool (payPlan xs) = 0 := by
  unfold payPlan
  simp only [sumHold, sumVol, sumSide, sumEmission, sumBy_append, sumBy_flatMap, sumBy, Prim.dHold, Prim.dVol, Prim.dSide,
    Prim.dEmission, Prim.dPool]
  have h := payPlanOne_sums
  simp only [sumHold, sumVol, sumSide, sumEmission] at h
  refine ⟨?_, ?_, ?_, ?_, ?_⟩
  · intro c hc
    rw [sumBy_congr _ (fun _ => 0) _ (fun x => (h x).1 c hc), sumBy_zero]; omega
  · rw [sumBy_congr _ _ _ (fun x => (h x).2.1), sumBy_congr (fun x => sumBy Prim.dSide (payPlanOne x)) _ _ (fun x => (h x).2.2.2.1)]
    have := sumBy_add (fun x : PayoutOf => paidTotal x.out.payments) (fun x => x.out.remainder - x.val.accum) xs
    have e : sumBy (fun x : PayoutOf => paidTotal x.out.payments + x.out.remainder - x.val.accum) xs
        = sumBy (fun x : PayoutOf => paidTotal x.out.payments + (x.out.remainder - x.val.accum)) xs :=
      sumBy_congr _ _ _ (fun x => by omega)
    omega
  · intro c
    rw [sumBy_congr _ (fun _ => 0) _ (fun x => (h x).2.2.1 c), sumBy_zero]; omega
  · rw [sumBy_congr _ (fun _ => 0) _ (fun x => (h x).2.2.2.2.1), sumBy_zero]; omega
  · rw [sumBy_congr _ (fun _ => 0) _ (fun x => (h x).2.2.2.2.2), sumBy_zero]; omega

/-- Every entry of `payoutsOf` is the payout of its own validator's accumulated reward. -/
theorem payoutsOf_balance (s : State) (hpay : Nat) (period : Int) :
    ∀ x ∈ payoutsOf s hpay period,
      paidTotal x.out.payments + x.out.remainder + x.out.lost = x.val.accum + x.out.more := by
  intro x hx
  simp only [payoutsOf, List.mem_filterMap] at hx
  obtain ⟨v, _, hv⟩ := hx
  split at hv
  · cases hv
  · next c _ =>
    cases hv
    exact payout_balance _

/-- Payouts that each balance: what is paid out (as pending updates) plus the remainders that go to the slashed total, minus the
    accumulated rewards that are reset, is `moreRewards` minus what is lost. -/
theorem payPlan_balance (xs : List PayoutOf)
    (hb : ∀ x ∈ xs, paidTotal x.out.payments + x.out.remainder + x.out.lost = x.val.accum + x.out.more) :
    sumHold 0 (payPlan xs) + sumSide (payPlan xs) = moreOf xs - lostOf xs := by
  rw [(payPlan_sums _).2.1]
  simp only [moreOf, lostOf]
  rw [← sumBy_sub]
  apply sumBy_congr_mem
  intro x hx
  have := hb x hx
  omega

/-- **The payout of a block.** -/
theorem payoutsOf_plan (s : State) (hpay : Nat) (period : Int) :
    sumHold 0 (payPlan (payoutsOf s hpay period)) + sumSide (payPlan (payoutsOf s hpay period))
      = moreOf (payoutsOf s hpay period) - lostOf (payoutsOf s hpay period) :=
  payPlan_balance _ (payoutsOf_balance s hpay period)

/-- The payout step of EndBlock (`b` = payout block). -/
theorem payStep_sums (b : Bool) (xs : List PayoutOf) (hx : b = false → xs = [])
    (hb : ∀ x ∈ xs, paidTotal x.out.payments + x.out.remainder + x.out.lost = x.val.accum + x.out.more) :
    (∀ c, c ≠ 0 → sumHold c (if b then payPlan xs else []) = 0) ∧
    sumHold 0 (if b then payPlan xs else []) + sumSide (if b then payPlan xs else []) = moreOf xs - lostOf xs ∧
    (∀ c, sumVol c (if b then payPlan xs else []) = 0) ∧
    sumEmission (if b then payPlan xs else []) = moreOf xs ∧
    sumBy Prim.dPool (if b then payPlan xs else []) = 0 := by
  cases b with
  | true =>
    simp only [if_true]
    exact ⟨(payPlan_sums xs).1, payPlan_balance xs hb, (payPlan_sums xs).2.2.1, (payPlan_sums xs).2.2.2.1, (payPlan_sums xs).2.2.2.2⟩
  | false =>
    rw [hx rfl]
    simp [sumHold, sumVol, sumSide, sumEmission, sumBy, moreOf, lostOf]

/-- `payVals` for one validator. -/
def payValOf (s : State) (v : Validator) : PayVal :=
  match findFirst (fun c => c.pubkey == v.pubkey) s.candidates with
  | none => { id := v.pubkey, accum := v.accum, valStake := v.totalBip, commission := 0, rewardAddr := 0, stakes := [], hasCandidate := false }
  | some c =>
    { id := v.pubkey, accum := v.accum, valStake := v.totalBip, commission := c.commission, rewardAddr := c.reward,
      stakes := c.stakes.map (fun st => { owner := st.owner, coin := st.coin, bip := st.bip,
                                          lockUntil := (s.lockStake.lookup st.owner).getD 0 }) }

theorem payVals_eq (s : State) (vals : List Validator) : payVals s vals = vals.map (payValOf s) := rfl

theorem payoutsOf_aux (s : State) (hpay : Nat) (period tA tS : Int) (vals : List Validator) :
    (vals.filterMap (fun v =>
        match findFirst (fun c => c.pubkey == v.pubkey) s.candidates with
        | none => none
        | some c => some ({ val := v, cand := c, out := payout (payInOf s hpay period tA tS v c) } : PayoutOf))).map
          (fun x => (x.val.pubkey, x.out))
      = ((vals.map (payValOf s)).filter (·.hasCandidate)).map (fun v =>
          (v.id, payout { accum := v.accum, valStake := v.valStake, commission := v.commission, rewardAddr := v.rewardAddr,
                          daoAddr := daoAddress, devAddr := devAddress, height := hpay, calcReward := s.reward, safeReward := s.safeReward,
                          period := period, totalAccum := tA, totalStakes := tS, stakes := v.stakes })) := by
  induction vals with
  | nil => rfl
  | cons v t ih =>
    simp only [List.filterMap_cons, List.map_cons]
    cases hf : findFirst (fun c => c.pubkey == v.pubkey) s.candidates with
    | none =>
      have : (payValOf s v).hasCandidate = false := by simp [payValOf, hf]
      simp only [List.filter_cons, this, Bool.false_eq_true, if_false]
      exact ih
    | some c =>
      have h1 : (payValOf s v).hasCandidate = true := by simp [payValOf, hf]
      simp only [List.filter_cons, h1, if_true, List.map_cons, ih]
      congr 1
      simp [payValOf, hf, payInOf, pstakesOf]

/-- The entries of `payoutsOf` are `payoutAll` (the function tied to the node by the `valid` mode) on `payVals`. -/
theorem payoutsOf_eq_payoutAll (s : State) (hpay : Nat) (period : Int) :
    (payoutsOf s hpay period).map (fun x => (x.val.pubkey, x.out))
      = payoutAll hpay s.reward s.safeReward period daoAddress devAddress (payVals s s.validators) := by
  have hsum : sumBy (fun v : PayVal => v.accum) (s.validators.map (payValOf s)) = totalAccum s := by
    rw [sumBy_map]
    apply sumBy_congr
    intro v
    unfold payValOf
    split <;> rfl
  have hstk : sumBy (fun v : PayVal => v.valStake) (s.validators.map (payValOf s)) = sumBy (fun v => v.totalBip) s.validators := by
    rw [sumBy_map]
    apply sumBy_congr
    intro v
    unfold payValOf
    split <;> rfl
  unfold payoutsOf payoutAll
  simp only [payVals_eq, hsum, hstk]
  exact payoutsOf_aux s hpay period _ _ s.validators

/-! ### 6 emission -/

theorem emitPlan_sums (em cap rw sf : Int) (hcap : em < cap) :
    (∀ c, c ≠ 0 → sumHold c (emitPlan em (Rules.blockEmission em cap rw sf)) = 0) ∧
    sumHold 0 (emitPlan em (Rules.blockEmission em cap rw sf)) = (Rules.blockEmission em cap rw sf).toZero ∧
    (∀ c, sumVol c (emitPlan em (Rules.blockEmission em cap rw sf)) = 0) ∧
    sumSide (emitPlan em (Rules.blockEmission em cap rw sf)) = 0 ∧
    sumEmission (emitPlan em (Rules.blockEmission em cap rw sf)) = (Rules.blockEmission em cap rw sf).emission - em ∧
    sumBy Prim.dPool (emitPlan em (Rules.blockEmission em cap rw sf)) = 0 := by
  unfold emitPlan Rules.blockEmission
  simp only [hcap, if_true]
  by_cases hpos : 0 < sf - rw
  · simp only [hpos, if_true, sumHold, sumVol, sumSide, sumEmission, sumBy, Prim.dHold, Prim.dVol, Prim.dSide, Prim.dEmission, Prim.dPool]
    refine ⟨fun c hc => ?_, by simp, fun _ => by omega, by omega, by omega, by omega⟩
    rw [if_neg (by omega)]; omega
  · simp only [hpos, if_false, Int.lt_irrefl, sumHold, sumVol, sumSide, sumEmission, sumBy, Prim.dHold, Prim.dVol, Prim.dSide, Prim.dEmission, Prim.dPool]
    refine ⟨fun c hc => by omega, by omega, fun _ => by omega, by omega, by omega, by omega⟩

/-- The emission step of EndBlock. -/
theorem emitStep_sums (em cap rw sf : Int) :
    (∀ c, c ≠ 0 → sumHold c (if decide (em < cap) = true then emitPlan em (Rules.blockEmission em cap rw sf) else []) = 0) ∧
    sumHold 0 (if decide (em < cap) = true then emitPlan em (Rules.blockEmission em cap rw sf) else [])
      = (Rules.blockEmission em cap rw sf).toZero ∧
    (∀ c, sumVol c (if decide (em < cap) = true then emitPlan em (Rules.blockEmission em cap rw sf) else []) = 0) ∧
    sumSide (if decide (em < cap) = true then emitPlan em (Rules.blockEmission em cap rw sf) else []) = 0 ∧
    sumEmission (if decide (em < cap) = true then emitPlan em (Rules.blockEmission em cap rw sf) else [])
      = (Rules.blockEmission em cap rw sf).emission - em ∧
    sumBy Prim.dPool (if decide (em < cap) = true then emitPlan em (Rules.blockEmission em cap rw sf) else []) = 0 := by
  by_cases hcap : em < cap
  · simp only [hcap, decide_true, if_true]
    exact emitPlan_sums em cap rw sf hcap
  · simp [hcap, Rules.blockEmission, sumHold, sumVol, sumSide, sumEmission, sumBy]

/-- The over-mint term of a block: `max 0 (reward − safeReward)` below the cap, nothing at the cap. -/
theorem overMint_eq (em cap rw sf : Int) :
    (Rules.blockEmission em cap rw sf).toValidators + (Rules.blockEmission em cap rw sf).toZero
        - ((Rules.blockEmission em cap rw sf).emission - em)
      = if em < cap ∧ sf < rw then rw - sf else 0 := by
  unfold Rules.blockEmission
  by_cases hc : em < cap
  · simp only [hc, if_true, true_and]
    by_cases h : sf < rw
    · rw [if_neg (by omega), if_pos h]; omega
    · rw [if_neg h]
      split <;> omega
  · simp [hc]

end Minter
