import MinterProofs.Rlp
/-
  Typed layer over RLP items (uints, big ints, the outer transaction, signatures) and the signature value check.
-/
namespace Minter
namespace Rlp

theorem asUint_sound {bits : Nat} {x : Item} {n : Nat} (h : asUint bits x = some n) :
    x = uintItem n ∧ n < 256 ^ (bits / 8) := by
  cases x with
  | list l => simp [asUint] at h
  | str b =>
    simp only [asUint] at h
    split at h
    · cases h
    · next hlen =>
      split at h
      · cases h
      · next hz =>
        simp only [Option.some.injEq] at h
        have hz' : noLeadZero b = true := by simpa using hz
        subst h
        refine ⟨?_, ?_⟩
        · rw [uintItem, natBE_beNat b hz']
        · exact Nat.lt_of_lt_of_le (beNat_lt b) (Nat.pow_le_pow_right (by decide) (by omega))

theorem asUint_uintItem (bits n : Nat) (h : n < 256 ^ (bits / 8)) : asUint bits (uintItem n) = some n := by
  simp only [uintItem, asUint]
  have := natBE_length_le n (bits / 8) h
  rw [if_neg (by omega), noLeadZero_natBE, beNat_natBE]
  simp

theorem asBig_sound {x : Item} {n : Nat} (h : asBig x = some n) : x = uintItem n := by
  cases x with
  | list l => simp [asBig] at h
  | str b =>
    simp only [asBig] at h
    split at h
    · cases h
    · next hz =>
      simp only [Option.some.injEq] at h
      have hz' : noLeadZero b = true := by simpa using hz
      subst h
      rw [uintItem, natBE_beNat b hz']

theorem asBig_uintItem (n : Nat) : asBig (uintItem n) = some n := by
  simp only [uintItem, asBig]
  rw [noLeadZero_natBE, beNat_natBE]; simp

theorem asBytes_sound {x : Item} {s : Bytes} (h : asBytes x = some s) : x = .str s := by
  cases x with
  | list l => simp [asBytes] at h
  | str b => simp only [asBytes, Option.some.injEq] at h; rw [h]

theorem asFixed_sound {k : Nat} {x : Item} {s : Bytes} (h : asFixed k x = some s) : x = .str s ∧ s.length = k := by
  cases x with
  | list l => simp [asFixed] at h
  | str b =>
    simp only [asFixed] at h
    split at h
    · next hl => simp only [Option.some.injEq] at h; subst h; exact ⟨rfl, hl⟩
    · cases h

/-! ### outer transaction -/

theorem txOfItem_sound {x : Item} {t : TxFields} (h : txOfItem x = some t) : itemOfTx t = x ∧ t.wf = true := by
  unfold txOfItem at h
  split at h
  · next a b c d e f g hh i j =>
    split at h
    · next a' b' c' d' e' f' g' h' i' j' ha hb hc hd he hf hg hhh hi hj =>
      simp only [Option.some.injEq] at h
      subst h
      obtain ⟨ea, wa⟩ := asUint_sound ha
      obtain ⟨eb, wb⟩ := asUint_sound hb
      obtain ⟨ec, wc⟩ := asUint_sound hc
      obtain ⟨ed, wd⟩ := asUint_sound hd
      obtain ⟨ee, we⟩ := asUint_sound he
      obtain ⟨ei, wi⟩ := asUint_sound hi
      have ef := asBytes_sound hf
      have eg := asBytes_sound hg
      have eh := asBytes_sound hhh
      have ej := asBytes_sound hj
      constructor
      · simp only [itemOfTx]
        rw [ea, eb, ec, ed, ee, ef, eg, eh, ei, ej]
      · simp only [TxFields.wf, Bool.and_eq_true, decide_eq_true_eq]
        have p64 : (256 : Nat) ^ (64 / 8) = 2 ^ 64 := by decide
        have p32 : (256 : Nat) ^ (32 / 8) = 2 ^ 32 := by decide
        have p8 : (256 : Nat) ^ (8 / 8) = 2 ^ 8 := by decide
        rw [p64] at wa; rw [p8] at wb we wi; rw [p32] at wc wd
        exact ⟨⟨⟨⟨⟨wa, wb⟩, wc⟩, wd⟩, we⟩, wi⟩
    · cases h
  · cases h

theorem txOfItem_itemOfTx (t : TxFields) (hw : t.wf = true) : txOfItem (itemOfTx t) = some t := by
  simp only [TxFields.wf, Bool.and_eq_true, decide_eq_true_eq] at hw
  obtain ⟨⟨⟨⟨⟨wa, wb⟩, wc⟩, wd⟩, we⟩, wi⟩ := hw
  have p64 : (256 : Nat) ^ (64 / 8) = 2 ^ 64 := by decide
  have p32 : (256 : Nat) ^ (32 / 8) = 2 ^ 32 := by decide
  have p8 : (256 : Nat) ^ (8 / 8) = 2 ^ 8 := by decide
  simp only [itemOfTx, txOfItem]
  rw [asUint_uintItem 64 _ (by rw [p64]; exact wa), asUint_uintItem 8 _ (by rw [p8]; exact wb),
      asUint_uintItem 32 _ (by rw [p32]; exact wc), asUint_uintItem 32 _ (by rw [p32]; exact wd),
      asUint_uintItem 8 _ (by rw [p8]; exact we), asUint_uintItem 8 _ (by rw [p8]; exact wi)]
  simp only [asBytes]

/-! ### signatures -/

theorem sigOfItem_sound {x : Item} {v r s : Nat} (h : sigOfItem x = some (v, r, s)) :
    x = .list [uintItem v, uintItem r, uintItem s] := by
  unfold sigOfItem at h
  split at h
  · next a b c =>
    split at h
    · next v' r' s' hv hr hs =>
      simp only [Option.some.injEq, Prod.mk.injEq] at h
      obtain ⟨rfl, rfl, rfl⟩ := h
      rw [asBig_sound hv, asBig_sound hr, asBig_sound hs]
    · cases h
  · cases h

theorem sigOfItem_mk (v r s : Nat) : sigOfItem (.list [uintItem v, uintItem r, uintItem s]) = some (v, r, s) := by
  simp only [sigOfItem, asBig_uintItem]

/-! ### signature values -/

theorem secpHalfN_eq : secpHalfN * 2 + 1 = secpN := by decide

theorem validSig_spec (v r s : Nat) :
    validSig v r s = true ↔ (v = 27 ∨ v = 28) ∧ 1 ≤ r ∧ r < secpN ∧ 1 ≤ s ∧ s ≤ secpHalfN := by
  have hN := secpHalfN_eq
  unfold validSig validateSignatureValues
  constructor
  · intro h
    split at h
    · cases h
    · next hv =>
      split at h
      · cases h
      · next h1 =>
        split at h
        · cases h
        · next h2 =>
          simp only [Bool.or_eq_true, decide_eq_true_eq, not_or, Nat.not_lt] at h1
          simp only [Bool.and_eq_true, decide_eq_true_eq, Bool.or_eq_true, beq_iff_eq] at h
          refine ⟨?_, by omega, h.1.1, by omega, by omega⟩
          have hv' : v < 256 := by simpa using hv
          omega
  · intro ⟨hv, hr1, hr2, hs1, hs2⟩
    rw [if_neg (by rcases hv with h | h <;> subst h <;> decide)]
    rw [if_neg (by simp only [Bool.or_eq_true, decide_eq_true_eq]; omega)]
    rw [if_neg (by omega)]
    simp only [Bool.and_eq_true, decide_eq_true_eq, Bool.or_eq_true, beq_iff_eq]
    refine ⟨⟨hr2, by omega⟩, ?_⟩
    rcases hv with h | h <;> subst h <;> decide

end Rlp
end Minter
