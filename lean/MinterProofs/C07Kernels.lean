import MinterProofs.Props.C07
import MinterProofs.Props.C15
/-
  C07 helper lemmas, part 1: the pool kernels never fault on positive reserves, and a pool purchase quote can always be executed
  as a sale ("round trip"): selling what `CalculateSellForBuyWithOrders` asked for returns at least the amount that was wanted.
  This is what makes the deliver-side `PairSellWithOrders(gasCoin, BIP, commission, minOut)` of every handler safe.
-/
namespace Minter

theorem bfs_ne_nil (r0 r1 a : Int) : bfsNoOrders r0 r1 a ≠ .nil := by
  unfold bfsNoOrders
  split
  · intro h; cases h
  · split
    · intro h; cases h
    · split <;> (intro h; cases h)

theorem quoteBFS_ne_nil (r0 r1 a : Int) : quoteBuyForSell r0 r1 a ≠ .nil := by
  unfold quoteBuyForSell
  exact bfs_ne_nil _ _ _

/-- The net input of a sale: what is left of a non-negative amount after the 0.1 % burn is non-negative. -/
theorem net_nonneg (a : Int) (ha : 0 ≤ a) : 0 ≤ a - com1000 a := by
  have := com1000_bounds a ha
  omega

/-- A positive amount of at least 2 pips keeps a positive net input. -/
theorem net_pos_of_two (a : Int) (ha : 2 ≤ a) : 0 < a - com1000 a := by
  rw [com1000_eq a (by omega)]
  split <;> omega

/-- Adding the 0.1 % surcharge of a purchase and taking the 0.1 % burn of a sale cancel exactly. -/
theorem gross_net_cancel (y : Int) (hy : 0 < y) : (y + com0999 y) - com1000 (y + com0999 y) = y := by
  rw [com0999_eq y (by omega)]
  have hnn : 0 ≤ y / 999 := Int.ediv_nonneg (by omega) (by norm_num)
  by_cases hm : y % 999 > 0
  · simp only [hm, if_true]
    rw [com1000_eq _ (by omega)]
    split <;> omega
  · simp only [hm, if_false]
    rw [com1000_eq _ (by omega)]
    split <;> omega

/-- Strict form of the buy-side K inequality (the `+ 1` of `CalculateSellForBuy`). -/
theorem sellForBuy_K_strict (r0 r1 out inp : Int) (h0 : 0 < r0) (h1 : 0 < r1) (ho : 0 < out)
    (h : sellForBuy r0 r1 out = some inp) :
    out < r1 ∧ 0 < inp ∧ r0 * r1 * 1000000 < ((inp + r0) * 1000 - inp * 2) * ((r1 - out) * 1000) := by
  unfold sellForBuy at h
  split at h
  · cases h
  · next hlt =>
    simp only at h
    cases h
    have hlt' : out < r1 := by omega
    have hb1 : 0 < (r1 - out) * 1000 := by nlinarith
    have hk : 0 ≤ r0 * r1 * 1000000 := by positivity
    rw [tdiv_eq_ediv_of_nonneg _ _ hk]
    set q := r0 * r1 * 1000000 / ((r1 - out) * 1000) with hq
    have hq1 : r0 * 1000 ≤ q := by
      apply (Int.le_ediv_iff_mul_le hb1).mpr
      nlinarith
    have hn : 0 ≤ q - r0 * 1000 := by omega
    rw [tdiv_eq_ediv_of_nonneg _ _ hn]
    set p := (q - r0 * 1000) / 998 with hp
    have hp0 : 0 ≤ p := Int.ediv_nonneg hn (by norm_num)
    have hp1 : q - r0 * 1000 < (p + 1) * 998 := Int.lt_ediv_add_one_mul_self _ (by norm_num)
    have hq2 : r0 * r1 * 1000000 < (q + 1) * ((r1 - out) * 1000) := Int.lt_ediv_add_one_mul_self _ hb1
    refine ⟨hlt', by omega, ?_⟩
    have h1' : (p + 1 + r0) * 1000 - (p + 1) * 2 ≥ q + 1 := by nlinarith
    nlinarith

/-- **Round trip (kernel).** Selling the input `CalculateSellForBuy` asked for returns at least the wanted output. -/
theorem buyForSell_of_sellForBuy (r0 r1 out y : Int) (h0 : 0 < r0) (h1 : 0 < r1) (ho : 0 < out)
    (h : sellForBuy r0 r1 out = some y) : ∃ o, buyForSell r0 r1 y = some o ∧ out ≤ o := by
  obtain ⟨hlt, hy, hk⟩ := sellForBuy_K_strict r0 r1 out y h0 h1 ho h
  unfold buyForSell
  simp only
  have hkn : 0 ≤ r0 * r1 * 1000000 := by positivity
  rw [tdiv_eq_ediv_of_nonneg _ _ hkn]
  have hb0 : 0 < ((y + r0) * 1000 - y * 2) * 1000 := by nlinarith
  have hq : r0 * r1 * 1000000 / (((y + r0) * 1000 - y * 2) * 1000) < r1 - out := by
    apply Int.ediv_lt_of_lt_mul hb0
    nlinarith
  have hne : ¬ (r1 - r0 * r1 * 1000000 / (((y + r0) * 1000 - y * 2) * 1000) - 1 ≤ 0) := by omega
  simp only [hne, if_false]
  exact ⟨_, rfl, by omega⟩

/-- The same at the level of the order-free quotes. -/
theorem bfs_of_buyForSell (r0 r1 a o : Int) (h0 : 0 < r0) (h1 : 0 < r1) (ha : 0 < a)
    (h : buyForSell r0 r1 a = some o) : bfsNoOrders r0 r1 a = .val o := by
  have hnp := C07_bfs_no_panic r0 r1 a h0 h1 (le_of_lt ha)
  unfold bfsNoOrders at hnp ⊢
  have hne : ¬ (a = 0) := by omega
  simp only [hne, if_false, h] at hnp ⊢
  cases hc : checkSwap r0 r1 a o with
  | none => rfl
  | some e =>
    rw [hc] at hnp
    exact absurd rfl (hnp "checkSwap in calculateBuyForSellWithOrders")

/-- **Round trip (public quotes).** If the purchase quote for `out > 0` is a positive `x`, then `x ≥ 2`, its net input is positive and
    selling it yields at least `out`. -/
theorem quote_round_trip (r0 r1 out x : Int) (h0 : 0 < r0) (h1 : 0 < r1) (ho : 0 ≤ out)
    (h : quoteSellForBuy r0 r1 out = .val x) (hx : 0 < x) :
    0 < out ∧ 2 ≤ x ∧ 0 < x - com1000 x ∧ ∃ o, bfsNoOrders r0 r1 (x - com1000 x) = .val o ∧ out ≤ o := by
  unfold quoteSellForBuy at h
  split at h
  · rename_i y hy
    split at h
    · rename_i hy0
      cases h
      obtain ⟨hne, hs⟩ := sfb_val_pos _ _ _ _ hy hy0
      have hop : 0 < out := by omega
      obtain ⟨o, hbs, hle⟩ := buyForSell_of_sellForBuy r0 r1 out y h0 h1 hop hs
      have hc := gross_net_cancel y hy0
      have hnn : 0 ≤ com0999 y := by
        rw [com0999_eq y (by omega)]
        have : 0 ≤ y / 999 := Int.ediv_nonneg (by omega) (by norm_num)
        split <;> omega
      have h999 : 1 ≤ com0999 y := by
        rw [com0999_eq y (by omega)]
        have : 0 ≤ y / 999 := Int.ediv_nonneg (by omega) (by norm_num)
        by_cases hm : y % 999 > 0
        · simp only [hm, if_true]; omega
        · simp only [hm, if_false]; omega
      refine ⟨hop, by omega, by omega, o, ?_, hle⟩
      rw [hc]
      exact bfs_of_buyForSell r0 r1 y o h0 h1 hy0 hbs
    · cases h; omega
  · rename_i hq
    exact absurd h (hq x)

/-! ### `checkSwapQuote` -/

/-- On positive reserves and a non-negative amount `CheckSwap` always answers (a code or an amount): no fault of any kind. -/
theorem checkSwapQuote_total (r0 r1 vi vo : Int) (isBuy : Bool) (h0 : 0 < r0) (h1 : 0 < r1)
    (ha : 0 ≤ (if isBuy then vo else vi)) : ∃ r, checkSwapQuote r0 r1 vi vo isBuy = .ok r := by
  unfold checkSwapQuote
  cases isBuy with
  | true =>
    simp only [if_true] at ha ⊢
    have hnp := (C07_quote_no_panic r0 r1 vo h0 h1 ha).2
    split
    · rename_i w hw; exact absurd hw (hnp w)
    · exact ⟨_, rfl⟩
    · split <;> exact ⟨_, rfl⟩
  | false =>
    simp only [Bool.false_eq_true, if_false] at ha ⊢
    have hnp := (C07_quote_no_panic r0 r1 vi h0 h1 ha).1
    split
    · rename_i w hw; exact absurd hw (hnp w)
    · exact ⟨_, rfl⟩
    · rename_i y _
      by_cases hyy : y < (if vo = 0 then 1 else vo)
      · simp only [hyy, if_true]; exact ⟨_, rfl⟩
      · simp only [hyy, if_false]; exact ⟨_, rfl⟩

/-- An accepted sale quote is the public sale quote. -/
theorem checkSwapQuote_sell_ok (r0 r1 vi vo x : Int) (h : checkSwapQuote r0 r1 vi vo false = .ok (.ok x)) :
    quoteBuyForSell r0 r1 vi = .val x := by
  unfold checkSwapQuote at h
  simp only [Bool.false_eq_true, if_false] at h
  split at h
  · cases h
  · cases h
  · rename_i y hy
    by_cases hyy : y < (if vo = 0 then 1 else vo)
    · simp only [hyy, if_true] at h; cases h
    · simp only [hyy, if_false] at h; cases h; exact hy

/-- An accepted purchase quote is the public purchase quote and respects the limit. -/
theorem checkSwapQuote_buy_ok (r0 r1 vi vo x : Int) (h : checkSwapQuote r0 r1 vi vo true = .ok (.ok x)) :
    quoteSellForBuy r0 r1 vo = .val x ∧ x ≤ vi := by
  unfold checkSwapQuote at h
  simp only [if_true] at h
  split at h
  · cases h
  · cases h
  · rename_i y hy
    split at h
    · cases h
    · rename_i hle; cases h; exact ⟨hy, by omega⟩

/-- A positive public sale quote comes from a positive amount with a positive net input. -/
theorem quoteBFS_pos (r0 r1 a x : Int) (ha : 0 ≤ a) (h : quoteBuyForSell r0 r1 a = .val x) (hx : 0 < x) :
    0 < a ∧ 0 < a - com1000 a ∧ bfsNoOrders r0 r1 (a - com1000 a) = .val x := by
  unfold quoteBuyForSell at h
  simp only at h
  by_cases hp : a > 0
  · simp only [hp, if_true] at h
    have hne := (bfs_val_pos _ _ _ _ h hx).1
    have := net_nonneg a ha
    exact ⟨hp, by omega, h⟩
  · have : a = 0 := by omega
    subst this
    simp only [gt_iff_lt, Int.lt_irrefl, if_false] at h
    have := (bfs_val_pos _ _ _ _ h hx).1
    exact absurd rfl this

end Minter
