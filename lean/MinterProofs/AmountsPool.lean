import MinterProofs.AmountsBancor
import Mathlib.Tactic.Linarith
/-
  C02: AddLiquidity (21) and RemoveLiquidity (22) — every commission route, including the commission swapped through the very pool the
  liquidity is added to / removed from (the execution then runs on the reserves after that swap: `sim_eq_real`, Props/C15.lean).
-/
namespace Minter

/-- Pools are stored in sorted orientation (as `CreateSwapPool` stores them). -/
def PoolsSorted (s : State) : Prop := ∀ p ∈ s.pools, p.c0 < p.c1

/-- Coin ids identify registry entries. -/
def CoinIdsWf (s : State) : Prop := ∀ ci ∈ s.coins, getCoin s ci.id = some ci

theorem poolsOk_of (s : State) (hs : PoolsSorted s) (hok : AmountsOk s) : PoolsOk s :=
  fun p hp => ⟨hs p hp, (hok.pools p hp).1, (hok.pools p hp).2⟩

/-- The handler's own moves are safe in the state the commission payment leaves (with the payment itself at hand). -/
def BodySafeP (s : State) (rd : Ready) : Prop :=
  ∀ s1 paid body tags, payCommission s rd.payer rd.coin rd.com rd.minOut = .ok paid →
    FeeFrame s s1 rd.payer rd.coin rd.com paid.adj → AmountsOk s1 → rd.exec paid.adj = .ok (body, tags) → PlanSafe s1 (planOf body)

theorem typed_preservesP (P : Params) (o : Oracle) (s s' : State) (b : Nat) (t : TxIn) (out : Outcome)
    (ho : OracleSound o) (hP : 0 ≤ P.minReserve)
    (hspec : ∀ price rd, 0 ≤ price → runData P o s b t price = .ok (.ok rd) → Checked P o s price rd ∧ BodySafeP s rd)
    (h : deliverTx P o s b t = .ok out) (h0 : out.code = 0) (ha : applyChecked s out.plan = some s')
    (hok : AmountsOk s) : AmountsOk s' := by
  obtain ⟨price, rd, paid, body, tags, s1, s2, hp, hr, hpay, he, h1, h2, hfin⟩ := deliver_stages P o s s' b t out h h0 ha
  obtain ⟨hck, hbody⟩ := hspec price rd hp hr
  obtain ⟨hok1, hfr⟩ := fee_stage P o s s1 price rd paid ho hP hok hp hck hpay h1
  exact hfin (planSafe_preserves s1 s2 _ (hbody s1 paid body tags hpay hfr hok1 he) hok1 h2)

/-! ### The pool entries after the commission -/

theorem getPool_key (s : State) (x y : Coin) (p : Pool) (h : getPool s x y = some p) : p.c0 = x ∧ p.c1 = y ∧ p ∈ s.pools := by
  obtain ⟨h1, h2, h3⟩ := getPool_mem s x y p h
  exact ⟨h2, h3, h1⟩

theorem pool_other_aux (a b x y : Coin) (hne : ¬ (x = a ∧ y = b)) (g : Pool → Pool) (hg : ∀ p, (g p).c0 = p.c0 ∧ (g p).c1 = p.c1) (l : List Pool) :
    findFirst (fun p => p.c0 == x && p.c1 == y) (updFirst (fun p => p.c0 == a && p.c1 == b) g l) =
      findFirst (fun p => p.c0 == x && p.c1 == y) l := by
  apply findFirst_updFirst_disjoint
  intro p hp
  simp only [Bool.and_eq_true, beq_iff_eq] at hp
  simp only [(hg p).1, (hg p).2, hp.1, hp.2, Bool.and_eq_false_iff, beq_eq_false_iff_ne, ne_eq]
  have key : ¬a = x ∨ ¬b = y := by
    by_cases h1 : a = x
    · right; intro h2; exact hne ⟨h1.symm, h2.symm⟩
    · left; exact h1
  exact ⟨key, key⟩

theorem getPool_updFirst_same (l : List Pool) (a b : Coin) (g : Pool → Pool) (hg : ∀ p, (g p).c0 = p.c0 ∧ (g p).c1 = p.c1) :
    findFirst (fun p => p.c0 == a && p.c1 == b) (updFirst (fun p => p.c0 == a && p.c1 == b) g l) =
      (findFirst (fun p => p.c0 == a && p.c1 == b) l).map g := by
  apply findFirst_updFirst_same
  intro p; simp only [(hg p).1, (hg p).2]

theorem poolResAdj_none_c02 (s : State) (x y : Coin) : poolResAdj s none x y = poolRes s x y := by
  unfold poolResAdj
  cases poolRes s x y with
  | none => rfl
  | some r => rfl

/-- The stored entry of pool `(x, y)` after the commission carries exactly the reserves `poolResAdj` reports. -/
theorem getPool_frame (s s1 : State) (payer : Addr) (gas : Coin) (com : Com) (adj : Option PoolAdj)
    (hfr : FeeFrame s s1 payer gas com adj) (hs : PoolsSorted s) (x y : Coin) (p1 : Pool) (h : getPool s1 x y = some p1) :
    poolResAdj s adj x y = some (p1.r0, p1.r1) := by
  cases adj with
  | none =>
    have hp := hfr.pools rfl
    unfold getPool at h
    rw [hp] at h
    rw [poolResAdj_none_c02]
    exact poolRes_of_getPool s x y p1 h
  | some j =>
    rcases hfr.poolsAdj j rfl with ⟨hsome, hpools⟩ | ⟨hnone, hpools⟩
    · unfold getPool at h
      rw [hpools] at h
      by_cases hxy : x = j.a ∧ y = j.b
      · obtain ⟨hx, hy⟩ := hxy
        subst hx; subst hy
        rw [getPool_updFirst_same _ _ _ (fun p => { p with r0 := p.r0 + j.da, r1 := p.r1 + j.db }) (fun _ => ⟨rfl, rfl⟩)] at h
        cases hp : findFirst (fun p => p.c0 == j.a && p.c1 == j.b) s.pools with
        | none => rw [hp] at h; cases h
        | some p =>
          rw [hp] at h
          simp only [Option.map] at h
          injection h with h
          subst h
          unfold poolResAdj
          rw [poolRes_of_getPool s j.a j.b p hp]
          simp
      · rw [pool_other_aux j.a j.b x y hxy (fun p => { p with r0 := p.r0 + j.da, r1 := p.r1 + j.db }) (fun _ => ⟨rfl, rfl⟩)] at h
        have hk := getPool_key s x y p1 h
        unfold poolResAdj
        rw [poolRes_of_getPool s x y p1 h]
        simp only
        have c1 : (j.a == x && j.b == y) = false := by
          simp only [Bool.and_eq_false_iff, beq_eq_false_iff_ne, ne_eq]
          by_cases h1 : j.a = x
          · right; intro h2; exact hxy ⟨h1.symm, h2.symm⟩
          · left; exact h1
        have c2 : (j.a == y && j.b == x) = false := by
          simp only [Bool.and_eq_false_iff, beq_eq_false_iff_ne, ne_eq]
          by_contra hc
          simp only [not_or, Decidable.not_not] at hc
          obtain ⟨q, hq⟩ := Option.isSome_iff_exists.mp hsome
          have hqk := getPool_key s j.a j.b q hq
          have l1 := hs p1 hk.2.2
          have l2 := hs q hqk.2.2
          omega
        simp only [c1, c2, Bool.false_eq_true, if_false]
    · unfold getPool at h
      rw [hpools] at h
      by_cases hxy : x = j.b ∧ y = j.a
      · obtain ⟨hx, hy⟩ := hxy
        subst hx; subst hy
        rw [getPool_updFirst_same _ _ _ (fun p => { p with r0 := p.r0 + j.db, r1 := p.r1 + j.da }) (fun _ => ⟨rfl, rfl⟩)] at h
        cases hp : findFirst (fun p => p.c0 == j.b && p.c1 == j.a) s.pools with
        | none => rw [hp] at h; cases h
        | some p =>
          rw [hp] at h
          simp only [Option.map] at h
          injection h with h
          subst h
          have hk := getPool_key s j.b j.a p hp
          have l1 := hs p hk.2.2
          unfold poolResAdj
          rw [poolRes_of_getPool s j.b j.a p hp]
          have c1 : (j.a == j.b && j.b == j.a) = false := by
            simp only [Bool.and_eq_false_iff, beq_eq_false_iff_ne, ne_eq]
            left; omega
          simp [c1]
      · rw [pool_other_aux j.b j.a x y hxy (fun p => { p with r0 := p.r0 + j.db, r1 := p.r1 + j.da }) (fun _ => ⟨rfl, rfl⟩)] at h
        unfold poolResAdj
        rw [poolRes_of_getPool s x y p1 h]
        simp only
        have c1 : (j.a == x && j.b == y) = false := by
          simp only [Bool.and_eq_false_iff, beq_eq_false_iff_ne, ne_eq]
          by_contra hc
          simp only [not_or, Decidable.not_not] at hc
          have h' : getPool s j.a j.b = some p1 := by rw [hc.1, hc.2]; exact h
          rw [h'] at hnone; cases hnone
        have c2 : (j.a == y && j.b == x) = false := by
          simp only [Bool.and_eq_false_iff, beq_eq_false_iff_ne, ne_eq]
          by_cases h1 : j.a = y
          · right; intro h2; exact hxy ⟨h2.symm, h1.symm⟩
          · left; exact h1
        simp only [c1, c2, Bool.false_eq_true, if_false]

theorem getCoin_addPool (s : State) (a b c : Coin) (d0 d1 : Int) : getCoin ((Prim.addPool a b d0 d1).apply s) c = getCoin s c := rfl

/-- Adding liquidity: deposits covered, pool-token supply within its maximum. -/
theorem poolMint_safe (s : State) (hok : AmountsOk s) (a : Addr) (c0 c1 : Coin) (a0 a1 : Int) (lp : Coin) (liq : Int)
    (h0 : 0 ≤ a0) (h1 : 0 ≤ a1) (hl : 0 ≤ liq) (hne : c0 ≠ c1) (hb0 : a0 ≤ balanceOf s a c0) (hb1 : a1 ≤ balanceOf s a c1)
    (hmax : optProp (getCoin s lp) fun ci => ci.volume + liq ≤ ci.maxSupply) :
    PlanSafe s (Move.poolMint a c0 c1 a0 a1 lp liq).prims := by
  have := hok.balances a lp
  have := hok.balances a c0
  have := hok.balances a c1
  simp only [Move.prims]
  split
  · trivial
  · simp only [PlanSafe, PrimSafe, apply_balance', Prim.balDelta', and_true, getCoin_addBal, getCoin_addPool]
    refine ⟨?_, by omega, ?_, ?_, ?_⟩
    · cases hp : getPool s c0 c1 with
      | none => trivial
      | some p =>
        have := hok.pools p (findFirst_mem _ _ _ hp).1
        simp only [optProp_some]; omega
    · bal_omega
    · cases hc : getCoin s lp with
      | none => trivial
      | some ci =>
        have := hok.coins ci (findFirst_mem _ _ _ hc).1
        rw [hc] at hmax
        simp only [optProp_some] at hmax ⊢
        omega
    · bal_omega

/-- Removing liquidity: what leaves the pool is strictly less than its reserves, the pool tokens burnt are held and within the supply. -/
theorem poolBurn_safe (s : State) (hok : AmountsOk s) (a : Addr) (c0 c1 : Coin) (a0 a1 : Int) (lp : Coin) (liq : Int)
    (h0 : 0 ≤ a0) (h1 : 0 ≤ a1) (hl : 0 ≤ liq) (hb : liq ≤ balanceOf s a lp)
    (hpool : optProp (getPool s c0 c1) fun p => a0 < p.r0 ∧ a1 < p.r1)
    (hvol : optProp (getCoin s lp) fun ci => liq ≤ ci.volume) :
    PlanSafe s (Move.poolBurn a c0 c1 a0 a1 lp liq).prims := by
  have := hok.balances a lp
  have := hok.balances a c0
  have := hok.balances a c1
  simp only [Move.prims]
  split
  · trivial
  · simp only [PlanSafe, PrimSafe, apply_balance', Prim.balDelta', and_true, getCoin_addBal, getCoin_addPool]
    refine ⟨?_, by omega, ?_, ?_, ?_⟩
    · cases hp : getPool s c0 c1 with
      | none => trivial
      | some p => rw [hp] at hpool; simp only [optProp_some] at hpool ⊢; omega
    · bal_omega
    · cases hc : getCoin s lp with
      | none => trivial
      | some ci =>
        have := hok.coins ci (findFirst_mem _ _ _ hc).1
        rw [hc] at hvol
        simp only [optProp_some] at hvol ⊢
        omega
    · bal_omega

theorem poolResAdj_flip (s : State) (hok : PoolsOk s) (adj : Option PoolAdj) (x y : Coin) (rx ry : Int)
    (h : poolResAdj s adj x y = some (rx, ry)) : poolResAdj s adj y x = some (ry, rx) := by
  unfold poolResAdj at h ⊢
  cases hp : poolRes s x y with
  | none => rw [hp] at h; cases h
  | some r =>
    obtain ⟨r0, r1⟩ := r
    have hne := poolRes_ne s hok x y _ hp
    rw [hp] at h
    rw [poolRes_flip s hok x y r0 r1 hp]
    cases adj with
    | none => simp only at h ⊢; injection h with h; injection h with e1 e2; subst e1; subst e2; rfl
    | some j =>
      simp only at h ⊢
      by_cases c1 : (j.a == x && j.b == y) = true
      · have c2 : (j.a == y && j.b == x) = false := by
          simp only [Bool.and_eq_true, beq_iff_eq] at c1
          simp only [Bool.and_eq_false_iff, beq_eq_false_iff_ne, ne_eq]
          left; rw [c1.1]; exact hne
        simp only [c1, c2, if_true, Bool.false_eq_true, if_false] at h ⊢
        injection h with h; injection h with e1 e2; subst e1; subst e2; rfl
      · have c1' : (j.a == x && j.b == y) = false := by simpa using c1
        by_cases c2 : (j.a == y && j.b == x) = true
        · simp only [c1', c2, if_true, Bool.false_eq_true, if_false] at h ⊢
          injection h with h; injection h with e1 e2; subst e1; subst e2; rfl
        · have c2' : (j.a == y && j.b == x) = false := by simpa using c2
          simp only [c1', c2', Bool.false_eq_true, if_false] at h ⊢
          injection h with h; injection h with e1 e2; subst e1; subst e2; rfl

theorem ediv_lt_of_lt (liq r vol : Int) (hr : 0 < r) (hv : 0 < vol) (h : liq < vol) : liq * r / vol < r := by
  apply Int.ediv_lt_of_lt_mul hv
  nlinarith

/-- The registry entry of a coin after the commission never has more volume than before, and keeps its maximal supply. -/
theorem frame_coin_le (P : Params) (o : Oracle) (s s1 : State) (payer : Addr) (gas : Coin) (com : Com) (adj : Option PoolAdj) (price : Int)
    (ho : OracleSound o) (hP : 0 ≤ P.minReserve) (hok : AmountsOk s) (hp : 0 ≤ price)
    (hcom : calcCommission P o s gas price = .ok (.ok com)) (hfr : FeeFrame s s1 payer gas com adj) (c : Coin) (ci1 : CoinInfo)
    (h1 : getCoin s1 c = some ci1) : ∃ ci, getCoin s c = some ci ∧ ci1.volume ≤ ci.volume ∧ ci1.maxSupply = ci.maxSupply := by
  rw [frame_getCoin s s1 payer gas com adj c hfr] at h1
  split at h1
  · next hc =>
    obtain ⟨hcg, hfp, hg⟩ := hc
    cases hci : getCoin s c with
    | none => rw [hci] at h1; cases h1
    | some ci =>
      rw [hci] at h1
      simp only [Option.map] at h1
      injection h1 with h1
      subst h1
      have hs := (calcCommission_sound P o s gas price com ho hP hok hp hcom).1 hfp hg
      rw [← hcg, hci] at hs
      simp only [optProp_some] at hs
      exact ⟨ci, rfl, by simp only; omega, rfl⟩
  · exact ⟨ci1, h1, Int.le_refl _, rfl⟩

/-! ### AddLiquidity (21) -/

theorem addLiquidity_typed (P : Params) (o : Oracle) (s : State) (t : TxIn) (price : Int) (rd : Ready)
    (ho : OracleSound o) (hP : 0 ≤ P.minReserve) (hok : AmountsOk s) (hp0 : 0 ≤ price) (hsorted : PoolsSorted s) (hv0 : 0 ≤ t.int "d.Volume0")
    (hsupply : ∀ paid body tags, payCommission s rd.payer rd.coin rd.com rd.minOut = .ok paid → rd.exec paid.adj = .ok (body, tags) →
      ∀ a c0 c1 a0 a1 lp liq, Move.poolMint a c0 c1 a0 a1 lp liq ∈ body → optProp (getCoin s lp) fun ci => ci.volume + liq ≤ ci.maxSupply)
    (h : runAddLiquidity P o s t price = .ok (.ok rd)) : Checked P o s price rd ∧ BodySafeP s rd := by
  have hsup := hsupply
  unfold runAddLiquidity at h
  peel h
  all_goals (obtain ⟨com, hcom, hk⟩ := withCom_ready _ _ _ _ _ _ _ h; peel hk)
  all_goals (
    rename_i r0 r1 hsim _ lp _ _ _ _ _ _
    have hf : com.commission ≤ balanceOf s t.sender t.gasCoin ∧
        t.int "d.Volume0" + (if t.nat "d.Coin0" = t.gasCoin then com.commission else 0) ≤ balanceOf s t.sender (t.nat "d.Coin0") ∧
        t.int "d.Volume0" * r1 / r0 + (if t.nat "d.Coin1" = t.gasCoin then com.commission else 0) ≤ balanceOf s t.sender (t.nat "d.Coin1") ∧
        r0 ≠ 0 ∧ 0 < lp.volume * t.int "d.Volume0" / r0 ∧ t.nat "d.Coin0" ≠ t.nat "d.Coin1" := by
      norm_checks
      refine ⟨?_, ?_, ?_, ?_, ?_, ?_⟩
      · omega
      · funds_omega (t.nat "d.Coin0"), t.gasCoin
      · funds_omega (t.nat "d.Coin1"), t.gasCoin
      · assumption
      · omega
      · assumption
    cases hk
    refine ⟨⟨hcom, hf.1⟩, ?_⟩
    intro s1 paid body tags hpay hfr hok1 he
    simp only at hpay hfr he
    have hpok := poolsOk_of s hsorted hok
    obtain ⟨hreal, hr0, hr1⟩ := sim_eq_real s hpok t.sender t.gasCoin com 0 paid hpay _ _ _ hsim
    simp only at hreal hr0 hr1
    have hmint := hsup paid body tags hpay he
    rw [addLiquidityExec_ok s _ _ _ _ lp paid.adj r0 r1 hreal hf.2.2.2.1 hf.2.2.2.2.1] at he
    cases he
    rw [planOf_single]
    have ha1 : 0 ≤ t.int "d.Volume0" * r1 / r0 := Int.ediv_nonneg (Int.mul_nonneg hv0 (by omega)) (by omega)
    have hb0 := spend_after_fee s s1 t.sender t.gasCoin _ com paid.adj _ hfr hf.2.1
    have hb1 := spend_after_fee s s1 t.sender t.gasCoin _ com paid.adj _ hfr hf.2.2.1
    have hm := hmint _ _ _ _ _ _ _ (List.mem_singleton.mpr rfl)
    have hmax1 : optProp (getCoin s1 lp.id) fun ci => ci.volume + lp.volume * t.int "d.Volume0" / r0 ≤ ci.maxSupply := by
      cases hc1 : getCoin s1 lp.id with
      | none => trivial
      | some ci1 =>
        obtain ⟨ci, hci, hle, hmx⟩ := frame_coin_le P o s s1 t.sender t.gasCoin com paid.adj price ho hP hok hp0 hcom hfr _ ci1 hc1
        rw [hci] at hm
        simp only [optProp_some] at hm ⊢
        omega
    have hne := hf.2.2.2.2.2
    unfold sorted2
    split
    · exact poolMint_safe s1 hok1 _ _ _ _ _ _ _ hv0 ha1 (by omega) hne hb0 hb1 hmax1
    · exact poolMint_safe s1 hok1 _ _ _ _ _ _ _ ha1 hv0 (by omega) (fun e => hne e.symm) hb1 hb0 hmax1)

/-! ### RemoveLiquidity (22) -/

theorem comFromPool_pos (P : Params) (s : State) (gas : Coin) (inBase x : Int) (h : comFromPool P s gas inBase = .ok (.ok x)) : 0 < x := by
  unfold comFromPool at h
  split at h
  · cases h
  · split at h
    · cases h
    · split at h
      · cases h
      · cases h
      · split at h
        · cases h
        · cases h; omega

theorem calcCommission_nonneg (P : Params) (o : Oracle) (s : State) (gas : Coin) (price : Int) (com : Com)
    (ho : OracleSound o) (hp : 0 ≤ price) (h : calcCommission P o s gas price = .ok (.ok com)) : 0 ≤ com.commission := by
  unfold calcCommission at h
  split at h
  · cases h; exact hp
  · split at h
    · cases h; exact Int.le_refl 0
    · cases hfp : comFromPool P s gas price with
      | error e => rw [hfp] at h; cases h
      | ok fp =>
        rw [hfp] at h
        simp only at h
        cases hfr : comFromReserve P o s gas price with
        | error e => rw [hfr] at h; cases h
        | ok fr =>
          rw [hfr] at h
          simp only at h
          have kp : ∀ x, fp = .ok x → 0 ≤ x := fun x hx => by subst hx; exact Int.le_of_lt (comFromPool_pos P s gas price x hfp)
          have kr : ∀ r, fr = .ok r → 0 ≤ r := by
            intro r hr
            subst hr
            unfold comFromReserve at hfr
            split at hfr
            · cases hfr
            · split at hfr
              · cases hfr
              · split at hfr
                · cases hfr
                · next ci _ _ _ =>
                  cases ha : ask o (.saleAmount ci.volume ci.reserve ci.crr price) with
                  | error e => rw [ha] at hfr; cases hfr
                  | ok v => rw [ha] at hfr; cases hfr; exact ho.nonneg _ _ (ask_ok _ _ _ ha)
          cases fp with
          | error c1 =>
            cases fr with
            | error c2 => cases h
            | ok r => cases h; exact kr r rfl
          | ok p =>
            cases fr with
            | error c2 => cases h; exact kp p rfl
            | ok r =>
              simp only at h
              split at h
              · cases h; exact kr r rfl
              · cases h; exact kp p rfl


theorem removeLiquidity_typed (P : Params) (o : Oracle) (s : State) (t : TxIn) (price : Int) (rd : Ready)
    (ho : OracleSound o) (hp0 : 0 ≤ price) (hok : AmountsOk s) (hsorted : PoolsSorted s) (hcoins : CoinIdsWf s)
    (hlock : ∀ lp, lpCoin s (t.nat "d.Coin0") (t.nat "d.Coin1") = some lp → balanceOf s t.sender lp.id < lp.volume)
    (h : runRemoveLiquidity P o s t price = .ok (.ok rd)) : Checked P o s price rd ∧ BodySafeP s rd := by
  unfold runRemoveLiquidity at h
  peel h
  all_goals (obtain ⟨com, hcom, hk⟩ := withCom_ready _ _ _ _ _ _ _ h; peel hk)
  all_goals (
    rename_i r0 r1 hsim _ lp hlp _ _ _ _
    have hcnn := calcCommission_nonneg P o s t.gasCoin price com ho hp0 hcom
    have hlk := hlock lp hlp
    have hlpok := hok.coins lp (findFirst_mem _ _ _ hlp).1
    have hf : com.commission ≤ balanceOf s t.sender t.gasCoin ∧
        t.int "d.Liquidity" + (if lp.id = t.gasCoin then com.commission else 0) ≤ balanceOf s t.sender lp.id ∧
        0 < t.int "d.Liquidity" ∧ 0 < lp.volume ∧
        t.int "d.MinimumVolume0" ≤ t.int "d.Liquidity" * r0 / lp.volume ∧ t.int "d.MinimumVolume1" ≤ t.int "d.Liquidity" * r1 / lp.volume := by
      norm_checks
      refine ⟨?_, ?_, ?_, ?_, ?_, ?_⟩ <;> funds_omega lp.id, t.gasCoin
    cases hk
    refine ⟨⟨hcom, hf.1⟩, ?_⟩
    intro s1 paid body tags hpay hfr hok1 he
    simp only at hpay hfr he
    have hpok := poolsOk_of s hsorted hok
    obtain ⟨hreal, hr0, hr1⟩ := sim_eq_real s hpok t.sender t.gasCoin com 0 paid hpay _ _ _ hsim
    simp only at hreal hr0 hr1
    rw [removeLiquidityExec_ok s _ _ _ _ _ _ lp paid.adj r0 r1 hreal hf.2.2.2.2.1 hf.2.2.2.2.2] at he
    cases he
    rw [planOf_single]
    have hliq : t.int "d.Liquidity" < lp.volume := by have := hf.2.1; split at this <;> omega
    have hx0 : 0 ≤ t.int "d.Liquidity" * r0 / lp.volume := Int.ediv_nonneg (Int.mul_nonneg (by omega) (by omega)) (by omega)
    have hx1 : 0 ≤ t.int "d.Liquidity" * r1 / lp.volume := Int.ediv_nonneg (Int.mul_nonneg (by omega) (by omega)) (by omega)
    have hl0 := ediv_lt_of_lt (t.int "d.Liquidity") r0 lp.volume hr0 hf.2.2.2.1 hliq
    have hl1 := ediv_lt_of_lt (t.int "d.Liquidity") r1 lp.volume hr1 hf.2.2.2.1 hliq
    have hb := spend_after_fee s s1 t.sender t.gasCoin _ com paid.adj _ hfr hf.2.1
    have hvol1 : optProp (getCoin s1 lp.id) fun ci => t.int "d.Liquidity" ≤ ci.volume := by
      rw [frame_getCoin s s1 t.sender t.gasCoin com paid.adj lp.id hfr, hcoins lp (findFirst_mem _ _ _ hlp).1]
      have := hf.2.1
      split
      · next hc => simp only [Option.map, optProp_some]; simp only [hc.1, if_true] at this; omega
      · simp only [optProp_some]; omega
    have hflip := poolResAdj_flip s hpok paid.adj _ _ _ _ hreal
    unfold sorted2
    split
    · apply poolBurn_safe s1 hok1 _ _ _ _ _ _ _ hx0 hx1 (by omega) hb _ hvol1
      cases hp1 : getPool s1 (t.nat "d.Coin0") (t.nat "d.Coin1") with
      | none => trivial
      | some p1 =>
        have := getPool_frame s s1 t.sender t.gasCoin com paid.adj hfr hsorted _ _ p1 hp1
        rw [hreal] at this
        injection this with this; injection this with e0 e1
        simp only [optProp_some]; omega
    · apply poolBurn_safe s1 hok1 _ _ _ _ _ _ _ hx1 hx0 (by omega) hb _ hvol1
      cases hp1 : getPool s1 (t.nat "d.Coin1") (t.nat "d.Coin0") with
      | none => trivial
      | some p1 =>
        have := getPool_frame s s1 t.sender t.gasCoin com paid.adj hfr hsorted _ _ p1 hp1
        rw [hflip] at this
        injection this with this; injection this with e0 e1
        simp only [optProp_some]; omega)

/-- The stages of an accepted delivery, with the handler's own moves located in the outcome. -/
theorem deliver_stages2 (P : Params) (o : Oracle) (s s' : State) (b : Nat) (t : TxIn) (out : Outcome)
    (h : deliverTx P o s b t = .ok out) (h0 : out.code = 0) (ha : applyChecked s out.plan = some s') :
    ∃ price rd paid body tags s1 s2, 0 ≤ price ∧ runData P o s b t price = .ok (.ok rd) ∧
      payCommission s rd.payer rd.coin rd.com rd.minOut = .ok paid ∧ rd.exec paid.adj = .ok (body, tags) ∧
      applyChecked s (planOf paid.moves) = some s1 ∧ applyChecked s1 (planOf body) = some s2 ∧
      (AmountsOk s2 → AmountsOk s') ∧ (∀ m ∈ body, m ∈ out.moves) := by
  obtain ⟨_, price, rd, r, hb, hr, hx, hs⟩ := deliver_accepted P o s b t out h h0
  obtain ⟨paid, body, tags, hpay, he, _, hmoves, _⟩ := execReady_ok s rd r hx
  obtain ⟨burn, btags, hbn, _, hm, _⟩ := successOutcome_burn s t r out hs
  have hmem : ∀ m ∈ body, m ∈ out.moves := by
    intro m hmm
    rw [hm, successMoves, hmoves]
    simp only [List.mem_append]
    exact Or.inl (Or.inl (Or.inr hmm))
  rw [Outcome.plan, hm, successMoves, hmoves, planOf_append, planOf_append, planOf_append, List.append_assoc, List.append_assoc] at ha
  obtain ⟨s1, h1, ha⟩ := applyChecked_append_some _ _ _ _ ha
  obtain ⟨s2, h2, ha⟩ := applyChecked_append_some _ _ _ _ ha
  obtain ⟨s3, h3, ha⟩ := applyChecked_append_some _ _ _ _ ha
  refine ⟨price, rd, paid, body, tags, s1, s2, basePrice_nonneg s t price hb, hr, hpay, he, h1, h2, ?_, hmem⟩
  intro hok2
  have hok3 := tickerBurn_preserves s t burn btags s2 s3 hbn hok2 h3
  apply planSafe_preserves s3 s' _ _ hok3 ha
  simp [planOf, Move.prims, Prim.isAdmin, PlanSafe, PrimSafe]

end Minter
