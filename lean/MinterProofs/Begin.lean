import MinterModel.BeginBlock
import MinterProofs.Ledger
/-
  Helper lemmas about the BeginBlock model (MinterModel/BeginBlock.lean): what each phase leaves alone and how it moves value.
  Core Lean only.
-/
namespace Minter

/-! ### List surgery -/

theorem findFirst_updFirst {α : Type} (p : α → Bool) (f : α → α) (l : List α) (hp : ∀ x, p (f x) = p x) :
    findFirst p (updFirst p f l) = (findFirst p l).map f := by
  induction l with
  | nil => simp [updFirst, findFirst]
  | cons x t ih =>
    simp only [updFirst, findFirst]
    split
    · next h => simp [findFirst, hp, h]
    · next h => simp [findFirst, h, ih]

theorem findFirst_updFirst_other {α : Type} (p q : α → Bool) (f : α → α) (l : List α)
    (hq : ∀ x, q (f x) = q x) (hne : ∀ x, p x = true → q x = false) :
    findFirst q (updFirst p f l) = findFirst q l := by
  induction l with
  | nil => simp [updFirst, findFirst]
  | cons x t ih =>
    simp only [updFirst]
    split
    · next h => simp [findFirst, hq, hne x h]
    · next h => simp only [findFirst, ih]

theorem findFirst_updFirst_cases {α : Type} (q p : α → Bool) (f : α → α) (l : List α) (hq : ∀ x, q (f x) = q x) :
    findFirst q (updFirst p f l) = findFirst q l
    ∨ ∃ x, findFirst q l = some x ∧ findFirst q (updFirst p f l) = some (f x) := by
  induction l with
  | nil => left; rfl
  | cons x t ih =>
    cases hp : p x with
    | true =>
      cases hqx : q x with
      | true => right; exact ⟨x, by simp [findFirst, hqx], by simp [updFirst, hp, findFirst, hq, hqx]⟩
      | false => left; simp [updFirst, hp, findFirst, hq, hqx]
    | false =>
      cases hqx : q x with
      | true => left; simp [updFirst, hp, findFirst, hqx]
      | false =>
        rcases ih with h | ⟨y, h1, h2⟩
        · left; simp [updFirst, hp, findFirst, hqx, h]
        · right; exact ⟨y, by simp [findFirst, hqx, h1], by simp [updFirst, hp, findFirst, hqx, h2]⟩

theorem sumBy_updFirst_same {α : Type} (g : α → Int) (p : α → Bool) (f : α → α) (l : List α) (h : ∀ x, g (f x) = g x) :
    sumBy g (updFirst p f l) = sumBy g l := by
  rw [sumBy_updFirst]
  unfold updDelta
  split
  · next x _ => rw [h x]; omega
  · omega

theorem sumBy_map {α β : Type} (g : β → Int) (f : α → β) (l : List α) : sumBy g (l.map f) = sumBy (fun x => g (f x)) l := by
  induction l with
  | nil => simp [sumBy]
  | cons x t ih => simp [sumBy, ih]

theorem sumBy_congr {α : Type} (f g : α → Int) (l : List α) (h : ∀ x, f x = g x) : sumBy f l = sumBy g l := by
  induction l with
  | nil => simp [sumBy]
  | cons x t ih => simp [sumBy, ih, h]

theorem sumBy_add {α : Type} (f g : α → Int) (l : List α) : sumBy (fun x => f x + g x) l = sumBy f l + sumBy g l := by
  induction l with
  | nil => simp [sumBy]
  | cons x t ih => simp only [sumBy, ih]; omega

theorem sumBy_sub {α : Type} (f g : α → Int) (l : List α) : sumBy (fun x => f x - g x) l = sumBy f l - sumBy g l := by
  induction l with
  | nil => simp [sumBy]
  | cons x t ih => simp only [sumBy, ih]; omega

theorem sumBy_zero {α : Type} (l : List α) : sumBy (fun _ => (0 : Int)) l = 0 := by
  induction l with
  | nil => simp [sumBy]
  | cons x t ih => simp [sumBy, ih]

/-! ### The slash arithmetic -/

theorem byzKeep_add_cut (v : Int) : byzKeep v + byzCut v = v := by
  simp only [byzCut]; omega

/-- `v − ⌊95·v/100⌋ = ⌈v/20⌉`, for every integer. -/
theorem byzCut_eq_ceil (v : Int) : byzCut v = (v + 19) / 20 := by
  simp only [byzCut, byzKeep]; omega

theorem byzCut_nonneg (v : Int) (h : 0 ≤ v) : 0 ≤ byzCut v := by
  simp only [byzCut, byzKeep]; omega

theorem byzKeep_nonneg (v : Int) (h : 0 ≤ v) : 0 ≤ byzKeep v := by
  simp only [byzKeep]; omega

theorem byzKeep_le (v : Int) (h : 0 ≤ v) : byzKeep v ≤ v := by
  simp only [byzKeep]; omega

theorem byzCut_zero : byzCut 0 = 0 := by decide

/-! ### Absence accounting moves no value -/

/-- Nothing that carries value changed (statuses, jail heights, absence bits, drop marks may have). -/
structure SameValue (s s' : State) : Prop where
  balances : s'.balances = s.balances
  frozen : s'.frozen = s.frozen
  coins : s'.coins = s.coins
  slashed : s'.slashed = s.slashed
  waitlist : s'.waitlist = s.waitlist
  pools : s'.pools = s.pools
  orders : s'.orders = s.orders
  candH : ∀ c, sumBy (candHoldings c) s'.candidates = sumBy (candHoldings c) s.candidates
  accum : totalAccum s' = totalAccum s

theorem SameValue.refl (s : State) : SameValue s s :=
  ⟨rfl, rfl, rfl, rfl, rfl, rfl, rfl, fun _ => rfl, rfl⟩

theorem SameValue.trans {a b c : State} (h1 : SameValue a b) (h2 : SameValue b c) : SameValue a c :=
  ⟨h2.balances.trans h1.balances, h2.frozen.trans h1.frozen, h2.coins.trans h1.coins, h2.slashed.trans h1.slashed,
   h2.waitlist.trans h1.waitlist, h2.pools.trans h1.pools, h2.orders.trans h1.orders,
   fun c => (h2.candH c).trans (h1.candH c), h2.accum.trans h1.accum⟩

theorem SameValue.holdings {s s' : State} (h : SameValue s s') (c : Coin) : holdings s' c = holdings s c := by
  simp only [holdings_def, h.balances, h.frozen, h.waitlist, h.pools, h.orders, h.candH c]

theorem SameValue.volume {s s' : State} (h : SameValue s s') (c : Coin) : volumeOf s' c = volumeOf s c := by
  simp only [volumeOf, h.coins]

theorem SameValue.baseTotal {s s' : State} (h : SameValue s s') : baseTotal s' = baseTotal s := by
  simp only [Minter.baseTotal, h.holdings 0, totalReserve, h.coins, h.accum, h.slashed]

theorem setPresent_sameValue (h a : Nat) (s : State) : SameValue s (setPresent h a s) := by
  refine ⟨rfl, rfl, rfl, rfl, rfl, rfl, rfl, fun _ => rfl, ?_⟩
  simp only [setPresent, totalAccum]
  exact sumBy_updFirst_same _ _ _ _ (fun _ => rfl)

theorem setAbsent_sameValue (P : Params) (h : Nat) (g : Bool) (a : Nat) (s s' : State) (ev : List BEvent)
    (hr : setAbsent P h g a s = .ok (s', ev)) : SameValue s s' := by
  unfold setAbsent at hr
  cases hv : findFirst (valByTm a) s.validators with
  | none => simp only [hv] at hr; cases hr; exact SameValue.refl _
  | some v =>
    simp only [hv] at hr
    by_cases hc : crossedAbsent h v = true
    · simp only [hc, if_true] at hr
      cases hcd : findFirst (candByPub v.pubkey) s.candidates with
      | none => simp only [hcd] at hr; cases hr
      | some c =>
        simp only [hcd] at hr
        cases hr
        refine ⟨rfl, rfl, rfl, rfl, rfl, rfl, rfl, fun c => ?_, ?_⟩
        · exact sumBy_updFirst_same _ _ _ _ (fun _ => rfl)
        · simp only [totalAccum]; exact sumBy_updFirst_same _ _ _ _ (fun _ => rfl)
    · simp only [hc] at hr
      cases hr
      refine ⟨rfl, rfl, rfl, rfl, rfl, rfl, rfl, fun _ => rfl, ?_⟩
      simp only [totalAccum]; exact sumBy_updFirst_same _ _ _ _ (fun _ => rfl)

theorem absencePhase_sameValue (P : Params) (h : Nat) (g : Bool) (vs : List (Nat × Bool)) (s s' : State) (ev : List BEvent)
    (hr : absencePhase P h g vs s = .ok (s', ev)) : SameValue s s' := by
  induction vs generalizing s ev with
  | nil => simp only [absencePhase] at hr; cases hr; exact SameValue.refl _
  | cons x t ih =>
    obtain ⟨a, b⟩ := x
    cases b with
    | true =>
      simp only [absencePhase] at hr
      exact (setPresent_sameValue h a s).trans (ih _ _ hr)
    | false =>
      simp only [absencePhase] at hr
      split at hr
      · cases hr
      · next s1 e1 h1 =>
        split at hr
        · cases hr
        · next s2 e2 h2 =>
          cases hr
          exact (setAbsent_sameValue P h g a s s1 e1 h1).trans (ih _ _ h2)

/-! ### Byzantine punishment: pots -/

def potVol (p : ByzPots) (c : Coin) : Int := sumBy (fun ci => if ci.id = c then ci.volume else 0) p.coins
def potSide (p : ByzPots) : Int := sumBy (fun ci => ci.reserve) p.coins + p.slashed

/-- Exact effect of one slash on the pots: a base-coin cut goes to the slashed pool; a custom-coin cut leaves the
    volume, and the reserve it is worth (the node's `CalculateSaleReturn`) moves from the coin's reserve to the slashed pool. -/
theorem slashPots_effect (o : Oracle) (coin : Coin) (v : Int) (p p' : ByzPots) (hr : slashPots o coin v p = .ok p') :
    (∀ c, potVol p' c = potVol p c - (if coin ≠ 0 ∧ coin = c then byzCut v else 0))
    ∧ potSide p' = potSide p + (if coin = 0 then byzCut v else 0) := by
  unfold slashPots at hr
  split at hr
  · next h0 =>
    cases hr
    subst h0
    constructor
    · intro c; simp [potVol]
    · simp only [potSide]; simp; omega
  · next h0 =>
    split at hr
    · cases hr
    · next ci hf =>
      have hid := findFirst_some _ _ _ hf
      simp only [coinById, beq_iff_eq] at hid
      split at hr
      · cases hr
      · next ret _ =>
        cases hr
        constructor
        · intro c
          simp only [potVol, sumBy_updFirst, updDelta, hf, hid]
          by_cases hc : coin = c
          · simp [h0, hc]; omega
          · simp [h0, hc]
        · simp only [potSide, sumBy_updFirst, updDelta, hf, h0]
          simp; omega


/-! ### Byzantine punishment: frozen funds and stakes -/

/-- What `PunishFrozenFundsWithID(lo, hi, cid)` does to one item. -/
def slashItem (lo hi cid : Nat) (f : Frozen) : Frozen :=
  if inWindow lo hi cid f then { f with value := byzKeep f.value } else f

/-- The items after the punishments of the candidate ids `ids` (in order). -/
def slashBy (lo hi : Nat) : List Nat → Frozen → Frozen
  | [], f => f
  | cid :: t, f => slashBy lo hi t (slashItem lo hi cid f)

def frozenOf (c : Coin) (f : Frozen) : Int := if f.coin = c then f.value else 0

/-- Value of coin `c` cut from the frozen funds by `PunishFrozenFundsWithID(lo, hi, cid)`. -/
def cutFrozen (lo hi cid : Nat) (c : Coin) (l : List Frozen) : Int :=
  sumBy (fun f => if inWindow lo hi cid f = true ∧ f.coin = c then byzCut f.value else 0) l

/-- Value of coin `c` cut from a list of stakes. -/
def cutStakes (c : Coin) (l : List Stake) : Int :=
  sumBy (fun st => if st.coin = c then byzCut st.value else 0) l

theorem punishFrozen_effect (o : Oracle) (lo hi cid : Nat) (l l' : List Frozen) (p p' : ByzPots) (ev : List BEvent)
    (hr : punishFrozen o lo hi cid l p = .ok (l', p', ev)) :
    l' = l.map (slashItem lo hi cid)
    ∧ (∀ c, potVol p' c = potVol p c - (if c ≠ 0 then cutFrozen lo hi cid c l else 0))
    ∧ potSide p' = potSide p + cutFrozen lo hi cid 0 l := by
  induction l generalizing l' p p' ev with
  | nil =>
    simp only [punishFrozen] at hr
    cases hr
    refine ⟨rfl, fun c => ?_, ?_⟩ <;> simp [cutFrozen, sumBy]
  | cons f t ih =>
    simp only [punishFrozen] at hr
    by_cases hw : inWindow lo hi cid f = true
    · simp only [hw, if_true] at hr
      cases hk : f.candKey with
      | none => simp only [hk] at hr; cases hr
      | some k =>
        simp only [hk] at hr
        cases h1 : slashPots o f.coin f.value p with
        | error e => simp only [h1] at hr; cases hr
        | ok p1 =>
          simp only [h1] at hr
          cases h2 : punishFrozen o lo hi cid t p1 with
          | error e => simp only [h2] at hr; cases hr
          | ok r =>
            obtain ⟨t', p2, ev2⟩ := r
            simp only [h2] at hr
            cases hr
            obtain ⟨ht, hv, hs⟩ := ih _ _ _ _ h2
            obtain ⟨ev1, es1⟩ := slashPots_effect o f.coin f.value p p1 h1
            refine ⟨?_, fun c => ?_, ?_⟩
            · simp [slashItem, hw, ht, hk]
            · rw [hv c, ev1 c]
              simp only [cutFrozen, sumBy, hw, true_and]
              by_cases hc0 : c = 0
              · subst hc0; simp
              · by_cases hfc : f.coin = c
                · simp [hc0, hfc]; omega
                · simp [hc0, hfc]
            · rw [hs, es1]
              simp only [cutFrozen, sumBy, hw, true_and]
              by_cases h0 : f.coin = 0 <;> simp [h0] <;> omega
    · simp only [hw] at hr
      cases h2 : punishFrozen o lo hi cid t p with
      | error e => simp only [h2] at hr; cases hr
      | ok r =>
        obtain ⟨t', p2, ev2⟩ := r
        simp only [h2] at hr
        cases hr
        obtain ⟨ht, hv, hs⟩ := ih _ _ _ _ h2
        refine ⟨?_, fun c => ?_, ?_⟩
        · simp [slashItem, hw, ht]
        · rw [hv c]; simp [cutFrozen, sumBy, hw]
        · rw [hs]; simp [cutFrozen, sumBy, hw]

theorem punishStakes_effect (o : Oracle) (l : List Stake) (p p' : ByzPots) (hr : punishStakes o l p = .ok p') :
    (∀ c, potVol p' c = potVol p c - (if c ≠ 0 then cutStakes c l else 0))
    ∧ potSide p' = potSide p + cutStakes 0 l := by
  induction l generalizing p p' with
  | nil =>
    simp only [punishStakes] at hr
    cases hr
    refine ⟨fun c => ?_, ?_⟩ <;> simp [cutStakes, sumBy]
  | cons st t ih =>
    simp only [punishStakes] at hr
    cases h1 : slashPots o st.coin st.value p with
    | error e => simp only [h1] at hr; cases hr
    | ok p1 =>
      simp only [h1] at hr
      obtain ⟨hv, hs⟩ := ih _ _ hr
      obtain ⟨ev1, es1⟩ := slashPots_effect o st.coin st.value p p1 h1
      refine ⟨fun c => ?_, ?_⟩
      · rw [hv c, ev1 c]
        simp only [cutStakes, sumBy]
        by_cases hc0 : c = 0
        · subst hc0; simp
        · by_cases hfc : st.coin = c
          · simp [hc0, hfc]; omega
          · simp [hc0, hfc]
      · rw [hs, es1]
        simp only [cutStakes, sumBy]
        by_cases h0 : st.coin = 0 <;> simp [h0] <;> omega


theorem sumBy_frozen_slash (lo hi cid : Nat) (k : Coin) (l : List Frozen) :
    sumBy (fun f => if f.coin = k then f.value else 0) (l.map (slashItem lo hi cid))
      = sumBy (fun f => if f.coin = k then f.value else 0) l - cutFrozen lo hi cid k l := by
  induction l with
  | nil => simp [cutFrozen, sumBy]
  | cons f t ih =>
    simp only [List.map_cons, sumBy, ih, cutFrozen]
    have hk := byzKeep_add_cut f.value
    by_cases hw : inWindow lo hi cid f = true
    · by_cases hc : f.coin = k
      · simp [slashItem, hw, hc]; omega
      · simp [slashItem, hw, hc]
    · simp [slashItem, hw]; omega

theorem sumBy_frozen_remainder (u h : Nat) (c : Candidate) (k : Coin) (l : List Stake) :
    sumBy (fun f => if f.coin = k then f.value else 0) (l.map (remainderFund u h c))
      = sumBy (stakeOf k) l - cutStakes k l := by
  induction l with
  | nil => simp [cutStakes, sumBy]
  | cons st t ih =>
    simp only [List.map_cons, sumBy, ih, cutStakes, remainderFund, stakeOf]
    have hk := byzKeep_add_cut st.value
    by_cases hc : st.coin = k <;> simp [hc] <;> omega

theorem sumBy_zeroStakes (k : Coin) (l : List Stake) : sumBy (stakeOf k) (l.map zeroStake) = 0 := by
  induction l with
  | nil => simp [sumBy]
  | cons st t ih => simp [sumBy, ih, stakeOf, zeroStake]

theorem byzTarget_some (a : Nat) (s : State) (v : Validator) (c : Candidate) (h : byzTarget a s = some (v, c)) :
    findFirst (valByTm a) s.validators = some v ∧ v.toDrop = false
    ∧ findFirst (candByPub v.pubkey) s.candidates = some c ∧ c.status ≠ 1 := by
  unfold byzTarget at h
  cases hv : findFirst (valByTm a) s.validators with
  | none => simp only [hv] at h; cases h
  | some w =>
    simp only [hv] at h
    by_cases hd : w.toDrop = true
    · simp [hd] at h
    · simp only [hd] at h
      cases hc : findFirst (candByPub w.pubkey) s.candidates with
      | none => simp [hc] at h
      | some d =>
        simp only [hc] at h
        by_cases hs : d.status = 1
        · simp [hs] at h
        · simp only [hs, if_false, Bool.false_eq_true] at h
          cases h
          exact ⟨rfl, by simpa using hd, hc, hs⟩

theorem byzStep_skip (P : Params) (o : Oracle) (h a : Nat) (s : State) (ht : byzTarget a s = none) :
    byzStep P o h a s = .ok (s, []) := by
  simp only [byzStep, ht]

/-- Everything one punishment does. -/
theorem byzStep_hit (P : Params) (o : Oracle) (h a : Nat) (s s' : State) (ev : List BEvent) (v : Validator) (c : Candidate)
    (ht : byzTarget a s = some (v, c)) (hr : byzStep P o h a s = .ok (s', ev)) :
    s'.frozen = s.frozen.map (slashItem h (h + P.unbond) c.id) ++ c.stakes.map (remainderFund P.unbond h c)
    ∧ s'.candidates = updFirst (candByPub v.pubkey) (fun c => { c with stakes := c.stakes.map zeroStake }) s.candidates
    ∧ s'.validators = updFirst (valByTm a) (fun v => { v with totalBip := 0, toDrop := true }) s.validators
    ∧ s'.balances = s.balances ∧ s'.waitlist = s.waitlist ∧ s'.pools = s.pools ∧ s'.orders = s.orders
    ∧ s'.rewardsPool = s.rewardsPool ∧ s'.lockStake = s.lockStake
    ∧ (∀ k, potVol ⟨s'.coins, s'.slashed⟩ k = potVol ⟨s.coins, s.slashed⟩ k
              - (if k ≠ 0 then cutFrozen h (h + P.unbond) c.id k s.frozen + cutStakes k c.stakes else 0))
    ∧ potSide ⟨s'.coins, s'.slashed⟩ = potSide ⟨s.coins, s.slashed⟩ + cutFrozen h (h + P.unbond) c.id 0 s.frozen + cutStakes 0 c.stakes := by
  simp only [byzStep, ht] at hr
  cases h1 : punishFrozen o h (h + P.unbond) c.id s.frozen ⟨s.coins, s.slashed⟩ with
  | error e => simp only [h1] at hr; cases hr
  | ok r =>
    obtain ⟨fr, p1, ev1⟩ := r
    simp only [h1] at hr
    cases h2 : punishStakes o c.stakes p1 with
    | error e => simp only [h2] at hr; cases hr
    | ok p2 =>
      simp only [h2] at hr
      cases hr
      obtain ⟨hfr, hv1, hs1⟩ := punishFrozen_effect _ _ _ _ _ _ _ _ _ h1
      obtain ⟨hv2, hs2⟩ := punishStakes_effect _ _ _ _ h2
      refine ⟨by rw [hfr], rfl, rfl, rfl, rfl, rfl, rfl, rfl, rfl, fun k => ?_, ?_⟩
      · show potVol p2 k = _
        rw [hv2 k, hv1 k]
        by_cases hk : k = 0 <;> simp [hk]; omega
      · show potSide p2 = _
        rw [hs2, hs1]

theorem volumeOf_eq_potVol (s : State) (k : Coin) : volumeOf s k = potVol ⟨s.coins, s.slashed⟩ k := rfl

theorem reserve_slashed_eq_potSide (s : State) : totalReserve s + s.slashed = potSide ⟨s.coins, s.slashed⟩ := rfl

/-- One evidence entry conserves value: a custom coin's volume and holdings fall by the same cut; the base-coin total
    (holdings + reserves + accumulated rewards + slashed pool) is unchanged. -/
theorem byzStep_conserves (P : Params) (o : Oracle) (h a : Nat) (s s' : State) (ev : List BEvent)
    (hr : byzStep P o h a s = .ok (s', ev)) :
    (∀ k, k ≠ 0 → volumeOf s' k - holdings s' k = volumeOf s k - holdings s k) ∧ baseTotal s' = baseTotal s := by
  cases ht : byzTarget a s with
  | none => rw [byzStep_skip P o h a s ht] at hr; cases hr; exact ⟨fun _ _ => rfl, rfl⟩
  | some vc =>
    obtain ⟨v, c⟩ := vc
    obtain ⟨hfr, hcd, hvl, hb, hw, hp, ho, _, _, hvol, hside⟩ := byzStep_hit P o h a s s' ev v c ht hr
    obtain ⟨_, _, hfc, _⟩ := byzTarget_some a s v c ht
    have hold : ∀ k, holdings s' k = holdings s k - cutFrozen h (h + P.unbond) c.id k s.frozen - cutStakes k c.stakes := by
      intro k
      simp only [holdings_def, hfr, hcd, hb, hw, hp, ho, sumBy_append, sumBy_frozen_slash, sumBy_frozen_remainder,
        sumBy_updFirst, updDelta, hfc, candHoldings, sumBy_zeroStakes]
      omega
    have hacc : totalAccum s' = totalAccum s := by
      simp only [totalAccum, hvl]; exact sumBy_updFirst_same _ _ _ _ (fun _ => rfl)
    constructor
    · intro k hk
      rw [volumeOf_eq_potVol, volumeOf_eq_potVol, hvol k, hold k]
      simp [hk]; omega
    · have h1 := reserve_slashed_eq_potSide s'
      have h2 := reserve_slashed_eq_potSide s
      simp only [baseTotal, hold 0, hacc]
      omega


/-! ### The evidence loop -/

theorem byzPhase_conserves (P : Params) (o : Oracle) (h : Nat) (l : List Nat) (s s' : State) (ev : List BEvent)
    (hr : byzPhase P o h l s = .ok (s', ev)) :
    (∀ k, k ≠ 0 → volumeOf s' k - holdings s' k = volumeOf s k - holdings s k) ∧ baseTotal s' = baseTotal s := by
  induction l generalizing s ev with
  | nil => simp only [byzPhase] at hr; cases hr; exact ⟨fun _ _ => rfl, rfl⟩
  | cons a t ih =>
    simp only [byzPhase] at hr
    cases h1 : byzStep P o h a s with
    | error e => simp only [h1] at hr; cases hr
    | ok r1 =>
      obtain ⟨s1, e1⟩ := r1
      simp only [h1] at hr
      cases h2 : byzPhase P o h t s1 with
      | error e => simp only [h2] at hr; cases hr
      | ok r2 =>
        obtain ⟨s2, e2⟩ := r2
        simp only [h2] at hr
        cases hr
        obtain ⟨a1, b1⟩ := byzStep_conserves P o h a s s1 e1 h1
        obtain ⟨a2, b2⟩ := ih _ _ h2
        exact ⟨fun k hk => (a2 k hk).trans (a1 k hk), b2.trans b1⟩

theorem slashItem_fields (lo hi cid : Nat) (f : Frozen) :
    (slashItem lo hi cid f).height = f.height ∧ (slashItem lo hi cid f).addr = f.addr
    ∧ (slashItem lo hi cid f).candKey = f.candKey ∧ (slashItem lo hi cid f).candId = f.candId
    ∧ (slashItem lo hi cid f).coin = f.coin ∧ (slashItem lo hi cid f).moveTo = f.moveTo := by
  unfold slashItem; split <;> simp

theorem slashBy_fields (lo hi : Nat) (ids : List Nat) (f : Frozen) :
    (slashBy lo hi ids f).height = f.height ∧ (slashBy lo hi ids f).addr = f.addr
    ∧ (slashBy lo hi ids f).candKey = f.candKey ∧ (slashBy lo hi ids f).candId = f.candId
    ∧ (slashBy lo hi ids f).coin = f.coin ∧ (slashBy lo hi ids f).moveTo = f.moveTo := by
  induction ids generalizing f with
  | nil => simp [slashBy]
  | cons cid t ih =>
    simp only [slashBy]
    obtain ⟨a1, a2, a3, a4, a5, a6⟩ := ih (slashItem lo hi cid f)
    obtain ⟨b1, b2, b3, b4, b5, b6⟩ := slashItem_fields lo hi cid f
    exact ⟨a1.trans b1, a2.trans b2, a3.trans b3, a4.trans b4, a5.trans b5, a6.trans b6⟩

/-- A fund no punished candidate id matches (or outside the window) is not touched. -/
theorem slashBy_untouched (lo hi : Nat) (ids : List Nat) (f : Frozen) (h : ∀ cid ∈ ids, inWindow lo hi cid f = false) :
    slashBy lo hi ids f = f := by
  induction ids generalizing f with
  | nil => simp [slashBy]
  | cons cid t ih =>
    have h0 : inWindow lo hi cid f = false := h cid (List.mem_cons_self ..)
    simp only [slashBy, slashItem, h0]
    exact ih f (fun c hc => h c (List.mem_cons_of_mem _ hc))

/-- A fund matched by exactly the one punished id loses exactly the cut. -/
theorem slashBy_single (lo hi cid : Nat) (f : Frozen) (h : inWindow lo hi cid f = true) :
    slashBy lo hi [cid] f = { f with value := byzKeep f.value } := by
  simp [slashBy, slashItem, h]

theorem slashBy_value_le (lo hi : Nat) (ids : List Nat) (f : Frozen) (h0 : 0 ≤ f.value) :
    0 ≤ (slashBy lo hi ids f).value ∧ (slashBy lo hi ids f).value ≤ f.value := by
  induction ids generalizing f with
  | nil => simp [slashBy, h0]
  | cons cid t ih =>
    simp only [slashBy]
    have hk := byzKeep_nonneg f.value h0
    have hl := byzKeep_le f.value h0
    by_cases hw : inWindow lo hi cid f = true
    · have := ih { f with value := byzKeep f.value } hk
      simp only [slashItem, hw, if_true]
      exact ⟨this.1, Int.le_trans this.2 hl⟩
    · simp only [slashItem, hw]
      exact ih f h0

theorem map_slashBy_cons (lo hi cid : Nat) (ids : List Nat) (l : List Frozen) :
    (l.map (slashItem lo hi cid)).map (slashBy lo hi ids) = l.map (slashBy lo hi (cid :: ids)) := by
  simp [List.map_map, Function.comp_def, slashBy]

/-- The id a single evidence entry punishes. -/
def hitId (a : Nat) (s : State) : List Nat :=
  match byzTarget a s with
  | none => []
  | some (_, c) => [c.id]

theorem byzPunishedIds_cons (P : Params) (o : Oracle) (h a : Nat) (t : List Nat) (s s1 : State) (e1 : List BEvent)
    (h1 : byzStep P o h a s = .ok (s1, e1)) :
    byzPunishedIds P o h (a :: t) s = hitId a s ++ byzPunishedIds P o h t s1 := by
  simp only [byzPunishedIds, h1, hitId]
  cases byzTarget a s with
  | none => rfl
  | some vc => rfl

/-- Frozen funds after the evidence loop: the old ones, each slashed once per punished candidate id that matches it in the
    window, followed by new funds, all of them due exactly one unbond period ahead and none of them a move. -/
theorem byzPhase_frozen (P : Params) (o : Oracle) (h : Nat) (l : List Nat) (s s' : State) (ev : List BEvent)
    (hr : byzPhase P o h l s = .ok (s', ev)) :
    ∃ new, s'.frozen = s.frozen.map (slashBy h (h + P.unbond) (byzPunishedIds P o h l s)) ++ new
      ∧ ∀ f ∈ new, f.height = h + P.unbond ∧ f.moveTo = 0 := by
  induction l generalizing s ev with
  | nil =>
    simp only [byzPhase] at hr; cases hr
    exact ⟨[], by simp [byzPunishedIds, slashBy], by simp⟩
  | cons a t ih =>
    simp only [byzPhase] at hr
    cases h1 : byzStep P o h a s with
    | error e => simp only [h1] at hr; cases hr
    | ok r1 =>
      obtain ⟨s1, e1⟩ := r1
      simp only [h1] at hr
      cases h2 : byzPhase P o h t s1 with
      | error e => simp only [h2] at hr; cases hr
      | ok r2 =>
        obtain ⟨s2, e2⟩ := r2
        simp only [h2] at hr
        cases hr
        obtain ⟨new, hn, hall⟩ := ih _ _ h2
        rw [byzPunishedIds_cons P o h a t s s1 e1 h1]
        cases ht : byzTarget a s with
        | none =>
          rw [byzStep_skip P o h a s ht] at h1; cases h1
          exact ⟨new, by simpa [hitId, ht] using hn, hall⟩
        | some vc =>
          obtain ⟨v, c⟩ := vc
          obtain ⟨hfr, _⟩ := byzStep_hit P o h a s s1 e1 v c ht h1
          refine ⟨(c.stakes.map (remainderFund P.unbond h c)).map (slashBy h (h + P.unbond) (byzPunishedIds P o h t s1)) ++ new, ?_, ?_⟩
          · rw [hn, hfr]
            simp only [hitId, ht, List.map_append, List.singleton_append, map_slashBy_cons, List.append_assoc]
          · intro f hf
            rcases List.mem_append.mp hf with hf | hf
            · obtain ⟨g, hg, rfl⟩ := List.mem_map.mp hf
              obtain ⟨st, _, rfl⟩ := List.mem_map.mp hg
              obtain ⟨a1, _, _, _, _, a6⟩ := slashBy_fields h (h + P.unbond) (byzPunishedIds P o h t s1) (remainderFund P.unbond h c st)
              exact ⟨a1, a6⟩
            · exact hall f hf

/-- What the evidence loop leaves alone. -/
theorem byzPhase_frame (P : Params) (o : Oracle) (h : Nat) (l : List Nat) (s s' : State) (ev : List BEvent)
    (hr : byzPhase P o h l s = .ok (s', ev)) :
    s'.balances = s.balances ∧ s'.rewardsPool = s.rewardsPool ∧ s'.lockStake = s.lockStake
    ∧ s'.candidates.map (fun c => (c.id, c.pubkey, c.status, c.jailedUntil, c.updates))
        = s.candidates.map (fun c => (c.id, c.pubkey, c.status, c.jailedUntil, c.updates)) := by
  induction l generalizing s ev with
  | nil => simp only [byzPhase] at hr; cases hr; exact ⟨rfl, rfl, rfl, rfl⟩
  | cons a t ih =>
    simp only [byzPhase] at hr
    cases h1 : byzStep P o h a s with
    | error e => simp only [h1] at hr; cases hr
    | ok r1 =>
      obtain ⟨s1, e1⟩ := r1
      simp only [h1] at hr
      cases h2 : byzPhase P o h t s1 with
      | error e => simp only [h2] at hr; cases hr
      | ok r2 =>
        obtain ⟨s2, e2⟩ := r2
        simp only [h2] at hr
        cases hr
        obtain ⟨i1, i2, i3, i4⟩ := ih _ _ h2
        cases ht : byzTarget a s with
        | none => rw [byzStep_skip P o h a s ht] at h1; cases h1; exact ⟨i1, i2, i3, i4⟩
        | some vc =>
          obtain ⟨v, c⟩ := vc
          obtain ⟨_, hcd, _, hb, _, _, _, hrw, hls, _, _⟩ := byzStep_hit P o h a s s1 e1 v c ht h1
          refine ⟨i1.trans hb, i2.trans hrw, i3.trans hls, ?_⟩
          rw [i4, hcd]
          generalize s.candidates = cs
          induction cs with
          | nil => simp [updFirst]
          | cons x u ihu =>
            simp only [updFirst]
            split
            · simp
            · simp [ihu]


/-! ### Candidate ids -/

theorem map_updFirst_same {α β : Type} (g : α → β) (p : α → Bool) (f : α → α) (l : List α) (hg : ∀ x, g (f x) = g x) :
    (updFirst p f l).map g = l.map g := by
  induction l with
  | nil => simp [updFirst]
  | cons x t ih =>
    simp only [updFirst]
    split
    · simp [hg]
    · simp [ih]

theorem findFirst_candById_none (id : Nat) (l : List Candidate) :
    findFirst (candById id) l = none ↔ (l.map (·.id)).contains id = false := by
  induction l with
  | nil => simp [findFirst]
  | cons x t ih =>
    simp only [findFirst, candById, List.map_cons, List.contains_cons]
    by_cases hx : x.id = id
    · simp [hx]
    · have h1 : (x.id == id) = false := by simpa using hx
      have h2 : (id == x.id) = false := by simpa using (fun h : id = x.id => hx h.symm)
      simp only [h1, h2, Bool.false_or]
      simpa [candById] using ih

theorem setAbsent_ids (P : Params) (h : Nat) (g : Bool) (a : Nat) (s s' : State) (ev : List BEvent)
    (hr : setAbsent P h g a s = .ok (s', ev)) : s'.candidates.map (·.id) = s.candidates.map (·.id) := by
  unfold setAbsent at hr
  cases hv : findFirst (valByTm a) s.validators with
  | none => simp only [hv] at hr; cases hr; rfl
  | some v =>
    simp only [hv] at hr
    by_cases hc : crossedAbsent h v = true
    · simp only [hc, if_true] at hr
      cases hcd : findFirst (candByPub v.pubkey) s.candidates with
      | none => simp only [hcd] at hr; cases hr
      | some c =>
        simp only [hcd] at hr
        cases hr
        exact map_updFirst_same _ _ _ _ (fun _ => rfl)
    · simp only [hc] at hr
      cases hr; rfl

theorem absencePhase_ids (P : Params) (h : Nat) (g : Bool) (vs : List (Nat × Bool)) (s s' : State) (ev : List BEvent)
    (hr : absencePhase P h g vs s = .ok (s', ev)) : s'.candidates.map (·.id) = s.candidates.map (·.id) := by
  induction vs generalizing s ev with
  | nil => simp only [absencePhase] at hr; cases hr; rfl
  | cons x t ih =>
    obtain ⟨a, b⟩ := x
    cases b with
    | true =>
      simp only [absencePhase] at hr
      exact ih (setPresent h a s) _ hr
    | false =>
      simp only [absencePhase] at hr
      cases h1 : setAbsent P h g a s with
      | error e => simp only [h1] at hr; cases hr
      | ok r1 =>
        obtain ⟨s1, e1⟩ := r1
        simp only [h1] at hr
        cases h2 : absencePhase P h g t s1 with
        | error e => simp only [h2] at hr; cases hr
        | ok r2 =>
          obtain ⟨s2, e2⟩ := r2
          simp only [h2] at hr
          cases hr
          exact (ih _ _ h2).trans (setAbsent_ids P h g a s s1 e1 h1)

theorem byzPhase_ids (P : Params) (o : Oracle) (h : Nat) (l : List Nat) (s s' : State) (ev : List BEvent)
    (hr : byzPhase P o h l s = .ok (s', ev)) : s'.candidates.map (·.id) = s.candidates.map (·.id) := by
  have := (byzPhase_frame P o h l s s' ev hr).2.2.2
  have := congrArg (List.map (fun x : Nat × Nat × Nat × Nat × List Stake => x.1)) this
  simpa [List.map_map, Function.comp_def] using this

/-! ### Maturity -/

/-- The balances after crediting the non-move items of a list, in order. -/
def creditAll : List Frozen → Bag (Addr × Coin) → Bag (Addr × Coin)
  | [], b => b
  | f :: t, b => creditAll t (if f.moveTo = 0 then Bag.add b (f.addr, f.coin) f.value else b)

/-- The update a matured move appends to its target. -/
def moveUpdate (f : Frozen) : Stake := { owner := f.addr, coin := f.coin, value := f.value, bip := 0 }

def addUpdate (f : Frozen) (c : Candidate) : Candidate := { c with updates := c.updates ++ [moveUpdate f] }

/-- A move whose target id is not among the candidate ids `ids`. -/
def targetMissing (ids : List Nat) (f : Frozen) : Bool := f.moveTo != 0 && !ids.contains f.moveTo

/-- What one matured item leaves alone. -/
structure MatureFrame (s s' : State) : Prop where
  coins : s'.coins = s.coins
  slashed : s'.slashed = s.slashed
  waitlist : s'.waitlist = s.waitlist
  pools : s'.pools = s.pools
  orders : s'.orders = s.orders
  validators : s'.validators = s.validators
  rewardsPool : s'.rewardsPool = s.rewardsPool
  lockStake : s'.lockStake = s.lockStake
  ids : s'.candidates.map (·.id) = s.candidates.map (·.id)

theorem matureOne_credit (u h : Nat) (f : Frozen) (s s' : State) (e : List BEvent) (h0 : f.moveTo = 0)
    (hr : matureOne u h f s = .ok (s', e)) :
    s'.balances = Bag.add s.balances (f.addr, f.coin) f.value ∧ s'.candidates = s.candidates ∧ s'.frozen = s.frozen
    ∧ MatureFrame s s' := by
  simp only [matureOne, h0, if_true] at hr
  cases hr
  exact ⟨rfl, rfl, rfl, ⟨rfl, rfl, rfl, rfl, rfl, rfl, rfl, rfl, rfl⟩⟩

theorem matureOne_move (u h : Nat) (f : Frozen) (s s' : State) (e : List BEvent) (h0 : f.moveTo ≠ 0) (c : Candidate)
    (hc : findFirst (candById f.moveTo) s.candidates = some c) (hr : matureOne u h f s = .ok (s', e)) :
    s'.balances = s.balances ∧ s'.frozen = s.frozen
    ∧ findFirst (candById f.moveTo) s'.candidates = some (addUpdate f c)
    ∧ s'.candidates = updFirst (candById f.moveTo) (addUpdate f) s.candidates ∧ MatureFrame s s' := by
  simp only [matureOne, h0, if_false, hc] at hr
  cases hk : f.candKey with
  | none => simp only [hk] at hr; cases hr
  | some k =>
    simp only [hk] at hr
    cases hr
    refine ⟨rfl, rfl, ?_, rfl, ⟨rfl, rfl, rfl, rfl, rfl, rfl, rfl, rfl, ?_⟩⟩
    · show findFirst (candById f.moveTo) (updFirst (candById f.moveTo) (addUpdate f) s.candidates) = _
      rw [findFirst_updFirst (candById f.moveTo) (addUpdate f) s.candidates (fun _ => rfl), hc]; rfl
    · exact map_updFirst_same _ _ _ _ (fun _ => rfl)

/-- A move whose target is not (any more) a candidate is re-frozen as an unbond due one unbond period later; nothing else changes. -/
theorem matureOne_refreeze (u h : Nat) (f : Frozen) (s : State) (h0 : f.moveTo ≠ 0)
    (hc : findFirst (candById f.moveTo) s.candidates = none) :
    matureOne u h f s = .ok ({ s with frozen := s.frozen ++ [refreeze u h f] }, []) := by
  simp only [matureOne, h0, if_false, hc]

theorem matureOne_holdings (u h : Nat) (f : Frozen) (s s' : State) (e : List BEvent) (hr : matureOne u h f s = .ok (s', e)) (k : Coin) :
    holdings s' k = holdings s k + (if f.coin = k then f.value else 0) ∧ MatureFrame s s' := by
  by_cases h0 : f.moveTo = 0
  · obtain ⟨hb, hc, hf, fr⟩ := matureOne_credit u h f s s' e h0 hr
    refine ⟨?_, fr⟩
    simp only [holdings_def, hb, hc, hf, fr.waitlist, fr.pools, fr.orders, Bag.sumIf_add]
    by_cases hk : f.coin = k <;> simp [hk] <;> omega
  · cases hc : findFirst (candById f.moveTo) s.candidates with
    | none =>
      rw [matureOne_refreeze u h f s h0 hc] at hr
      cases hr
      refine ⟨?_, ⟨rfl, rfl, rfl, rfl, rfl, rfl, rfl, rfl, rfl⟩⟩
      simp only [holdings_def, sumBy_append, sumBy_single, refreeze]
      omega
    | some c =>
      obtain ⟨hb, hf, _, hcd, fr⟩ := matureOne_move u h f s s' e h0 c hc hr
      refine ⟨?_, fr⟩
      simp only [holdings_def, hb, hcd, hf, fr.waitlist, fr.pools, fr.orders, sumBy_updFirst, updDelta, hc,
        candHoldings, addUpdate, sumBy_append, sumBy_single, moveUpdate, stakeOf]
      omega

theorem MatureFrame.refl (s : State) : MatureFrame s s := ⟨rfl, rfl, rfl, rfl, rfl, rfl, rfl, rfl, rfl⟩

theorem MatureFrame.trans {a b c : State} (h1 : MatureFrame a b) (h2 : MatureFrame b c) : MatureFrame a c :=
  ⟨h2.coins.trans h1.coins, h2.slashed.trans h1.slashed, h2.waitlist.trans h1.waitlist,
   h2.pools.trans h1.pools, h2.orders.trans h1.orders, h2.validators.trans h1.validators,
   h2.rewardsPool.trans h1.rewardsPool, h2.lockStake.trans h1.lockStake, h2.ids.trans h1.ids⟩

/-- The frozen list after one matured item, by the candidate ids of the state. -/
theorem matureOne_frozen (u h : Nat) (f : Frozen) (s s' : State) (e : List BEvent) (hr : matureOne u h f s = .ok (s', e)) :
    s'.frozen = s.frozen ++ ([f].filter (targetMissing (s.candidates.map (·.id)))).map (refreeze u h) := by
  by_cases h0 : f.moveTo = 0
  · obtain ⟨_, _, hf, _⟩ := matureOne_credit u h f s s' e h0 hr
    have ht : targetMissing (s.candidates.map (·.id)) f = false := by simp [targetMissing, h0]
    simp [hf, List.filter, ht]
  · cases hc : findFirst (candById f.moveTo) s.candidates with
    | none =>
      rw [matureOne_refreeze u h f s h0 hc] at hr
      cases hr
      have hcon := (findFirst_candById_none f.moveTo s.candidates).mp hc
      have ht : targetMissing (s.candidates.map (·.id)) f = true := by
        simp only [targetMissing, hcon, Bool.not_false, Bool.and_true, bne_iff_ne]; exact h0
      simp [List.filter, ht]
    | some c =>
      obtain ⟨_, hf, _, _, _⟩ := matureOne_move u h f s s' e h0 c hc hr
      have hn : (s.candidates.map (·.id)).contains f.moveTo = true := by
        cases hcon : (s.candidates.map (·.id)).contains f.moveTo with
        | true => rfl
        | false => rw [(findFirst_candById_none f.moveTo s.candidates).mpr hcon] at hc; cases hc
      have ht : targetMissing (s.candidates.map (·.id)) f = false := by
        simp only [targetMissing, hn, Bool.not_true, Bool.and_false]
      simp [hf, List.filter, ht]

theorem matureAll_effect (u h : Nat) (l : List Frozen) (s s' : State) (ev : List BEvent) (hr : matureAll u h l s = .ok (s', ev)) :
    s'.balances = creditAll l s.balances
    ∧ s'.frozen = s.frozen ++ (l.filter (targetMissing (s.candidates.map (·.id)))).map (refreeze u h)
    ∧ (∀ k, holdings s' k = holdings s k + sumBy (fun f => if f.coin = k then f.value else 0) l)
    ∧ MatureFrame s s' := by
  induction l generalizing s ev with
  | nil => simp only [matureAll] at hr; cases hr; exact ⟨rfl, by simp, fun k => by simp [sumBy], MatureFrame.refl _⟩
  | cons f t ih =>
    simp only [matureAll] at hr
    cases h1 : matureOne u h f s with
    | error e => simp only [h1] at hr; cases hr
    | ok r1 =>
      obtain ⟨s1, e1⟩ := r1
      simp only [h1] at hr
      cases h2 : matureAll u h t s1 with
      | error e => simp only [h2] at hr; cases hr
      | ok r2 =>
        obtain ⟨s2, e2⟩ := r2
        simp only [h2] at hr
        cases hr
        obtain ⟨ib, ifz, ih2, ifr⟩ := ih _ _ h2
        have hfr := (matureOne_holdings u h f s s1 e1 h1 0).2
        refine ⟨?_, ?_, fun k => ?_, hfr.trans ifr⟩
        · rw [ib]
          simp only [creditAll]
          by_cases h0 : f.moveTo = 0
          · rw [(matureOne_credit u h f s s1 e1 h0 h1).1]; simp [h0]
          · cases hc : findFirst (candById f.moveTo) s.candidates with
            | none => rw [matureOne_refreeze u h f s h0 hc] at h1; cases h1; simp [h0]
            | some c => rw [(matureOne_move u h f s s1 e1 h0 c hc h1).1]; simp [h0]
        · rw [ifz, matureOne_frozen u h f s s1 e1 h1, hfr.ids]
          simp [List.filter_cons]
          split <;> simp
        · rw [ih2 k, (matureOne_holdings u h f s s1 e1 h1 k).1]
          simp only [sumBy]; omega

theorem refreeze_not_due (u h : Nat) (hu : 0 < u) (f : Frozen) : dueAt h (refreeze u h f) = false := by
  simp [dueAt, refreeze]; omega

theorem maturityPhase_effect (u h : Nat) (hu : 0 < u) (s s' : State) (ev : List BEvent) (hr : maturityPhase u h s = .ok (s', ev)) :
    s'.frozen = s.frozen.filter (fun f => !dueAt h f)
        ++ ((s.frozen.filter (dueAt h)).filter (targetMissing (s.candidates.map (·.id)))).map (refreeze u h)
    ∧ s'.balances = creditAll (s.frozen.filter (dueAt h)) s.balances
    ∧ (∀ k, holdings s' k = holdings s k)
    ∧ s'.coins = s.coins ∧ s'.slashed = s.slashed ∧ s'.validators = s.validators
    ∧ s'.rewardsPool = s.rewardsPool ∧ s'.lockStake = s.lockStake := by
  simp only [maturityPhase] at hr
  cases h1 : matureAll u h (s.frozen.filter (dueAt h)) s with
  | error e => simp only [h1] at hr; cases hr
  | ok r1 =>
    obtain ⟨s1, e1⟩ := r1
    simp only [h1] at hr
    cases hr
    obtain ⟨hb, hfz, hh, fr⟩ := matureAll_effect _ _ _ _ _ _ h1
    have hkeep : ∀ (R : List Frozen), (R.map (refreeze u h)).filter (fun f => !dueAt h f) = R.map (refreeze u h) := by
      intro R
      apply List.filter_eq_self.mpr
      intro x hx
      obtain ⟨y, _, rfl⟩ := List.mem_map.mp hx
      simp [refreeze_not_due u h hu y]
    have hdue : ∀ (R : List Frozen), (R.map (refreeze u h)).filter (dueAt h) = [] := by
      intro R
      apply List.filter_eq_nil_iff.mpr
      intro x hx
      obtain ⟨y, _, rfl⟩ := List.mem_map.mp hx
      simp [refreeze_not_due u h hu y]
    refine ⟨?_, hb, fun k => ?_, fr.coins, fr.slashed, fr.validators, fr.rewardsPool, fr.lockStake⟩
    · show s1.frozen.filter (fun f => !dueAt h f) = _
      rw [hfz, List.filter_append, hkeep]
    · have e1' : holdings { s1 with frozen := s1.frozen.filter (fun f => !dueAt h f) } k
          = holdings s1 k - sumBy (fun f => if f.coin = k then f.value else 0) (s1.frozen.filter (dueAt h)) := by
        have := sumBy_filter_split (fun f : Frozen => if f.coin = k then f.value else 0) (dueAt h) s1.frozen
        simp only [holdings_def]
        omega
      rw [e1', hh k, hfz, List.filter_append, hdue, List.append_nil]
      omega

theorem maturityPhase_conserves (u h : Nat) (hu : 0 < u) (s s' : State) (ev : List BEvent) (hr : maturityPhase u h s = .ok (s', ev)) :
    (∀ k, volumeOf s' k - holdings s' k = volumeOf s k - holdings s k) ∧ baseTotal s' = baseTotal s := by
  obtain ⟨_, _, hh, hc, hs, hv, _, _⟩ := maturityPhase_effect u h hu s s' ev hr
  constructor
  · intro k; simp only [volumeOf, hc, hh k]
  · simp only [baseTotal, hh 0, totalReserve, totalAccum, hc, hs, hv]

end Minter
