import MinterModel.Rlp
/-
  Helper lemmas for C23 (RLP canonicity).  Core Lean only (no Mathlib needed).
-/
namespace Minter
namespace Rlp

/-! ### little/big-endian naturals -/

theorem leNat_natLE (f n : Nat) (h : n ≤ f) : leNat (natLE f n) = n := by
  induction f generalizing n with
  | zero => have : n = 0 := by omega
            subst this; simp [natLE, leNat]
  | succ f ih =>
    unfold natLE
    split
    · next h0 => subst h0; simp [leNat]
    · next h0 =>
      simp only [leNat]
      rw [ih (n / 256) (by omega)]
      rw [UInt8.toNat_ofNat']
      omega

theorem natLE_fuel (f g n : Nat) (hf : n ≤ f) (hg : n ≤ g) : natLE f n = natLE g n := by
  induction f generalizing n g with
  | zero => have : n = 0 := by omega
            subst this; cases g <;> simp [natLE]
  | succ f ih =>
    cases g with
    | zero => have : n = 0 := by omega
              subst this; simp [natLE]
    | succ g =>
      unfold natLE
      split
      · rfl
      · next h0 => rw [ih (n := n / 256) (g := g) (by omega) (by omega)]

/-- canonical little-endian digit strings: the most significant (last) digit is not zero. -/
def lastNZ (l : Bytes) : Prop := l.getLast? ≠ some 0

theorem lastNZ_tail {b : UInt8} {r : Bytes} (h : lastNZ (b :: r)) (hr : r ≠ []) : lastNZ r := by
  unfold lastNZ at *
  cases r with
  | nil => exact absurd rfl hr
  | cons c t => simpa [List.getLast?_cons_cons] using h

theorem leNat_pos {l : Bytes} (hne : l ≠ []) (h : lastNZ l) : 0 < leNat l := by
  induction l with
  | nil => exact absurd rfl hne
  | cons b r ih =>
    simp only [leNat]
    cases r with
    | nil =>
      have : b ≠ 0 := by
        intro hb; apply h; simp [hb]
      have : b.toNat ≠ 0 := by
        intro h0; apply this; apply UInt8.toNat_inj.mp; simpa using h0
      simp only [leNat]; omega
    | cons c t =>
      have := ih (by simp) (lastNZ_tail h (by simp))
      omega

theorem natLE_leNat (f : Nat) (l : Bytes) (h : lastNZ l) (hf : leNat l ≤ f) : natLE f (leNat l) = l := by
  induction l generalizing f with
  | nil => cases f <;> simp [natLE, leNat]
  | cons b r ih =>
    have hpos := leNat_pos (by simp) h
    cases f with
    | zero => omega
    | succ f =>
      unfold natLE
      have hb := UInt8.toNat_lt b
      have hn : leNat (b :: r) = b.toNat + 256 * leNat r := rfl
      rw [if_neg (by omega)]
      have h1 : leNat (b :: r) % 256 = b.toNat := by omega
      have h2 : leNat (b :: r) / 256 = leNat r := by omega
      rw [h1, h2, UInt8.ofNat_toNat]
      congr 1
      cases r with
      | nil => cases f <;> simp [natLE, leNat]
      | cons c t => exact ih f (lastNZ_tail h (by simp)) (by omega)

theorem natLE_lastNZ (f n : Nat) (h : n ≤ f) : lastNZ (natLE f n) := by
  induction f generalizing n with
  | zero => simp [natLE, lastNZ]
  | succ f ih =>
    unfold natLE
    split
    · simp [lastNZ]
    · next h0 =>
      have ih' := ih (n / 256) (by omega)
      unfold lastNZ at *
      by_cases hq : n / 256 = 0
      · have hlt : n < 256 := by omega
        have : natLE f (n / 256) = [] := by rw [hq]; cases f <;> simp [natLE]
        rw [this]
        simp only [List.getLast?_singleton, ne_eq, Option.some.injEq]
        intro hz
        have := congrArg UInt8.toNat hz
        rw [UInt8.toNat_ofNat'] at this
        simp at this; omega
      · have hne : natLE f (n / 256) ≠ [] := by
          cases f with
          | zero => omega
          | succ f => unfold natLE; rw [if_neg hq]; simp
        obtain ⟨c, t, hct⟩ := List.exists_cons_of_ne_nil hne
        rw [hct, List.getLast?_cons_cons, ← hct]
        exact ih'

theorem leNat_lt (l : Bytes) : leNat l < 256 ^ l.length := by
  induction l with
  | nil => simp [leNat]
  | cons b r ih =>
    have hb := UInt8.toNat_lt b
    simp only [leNat, List.length_cons, Nat.pow_succ]
    omega

theorem natLE_length_le (f n k : Nat) (h : n < 256 ^ k) : (natLE f n).length ≤ k := by
  induction f generalizing n k with
  | zero => simp [natLE]
  | succ f ih =>
    unfold natLE
    split
    · simp
    · next h0 =>
      cases k with
      | zero => simp at h; omega
      | succ k =>
        have : n / 256 < 256 ^ k := by
          rw [Nat.pow_succ] at h
          omega
        have := ih (n / 256) k this
        simp only [List.length_cons]; omega

theorem natLE_ne_nil (f n : Nat) (h0 : n ≠ 0) (hf : n ≤ f) : natLE f n ≠ [] := by
  cases f with
  | zero => omega
  | succ f => unfold natLE; rw [if_neg h0]; simp

/-! big-endian statements -/

theorem beNat_natBE (n : Nat) : beNat (natBE n) = n := by
  simp only [beNat, natBE, List.reverse_reverse]
  exact leNat_natLE n n (Nat.le_refl _)

theorem noLeadZero_iff (b : Bytes) : noLeadZero b = true ↔ lastNZ b.reverse := by
  simp only [noLeadZero, lastNZ, List.getLast?_reverse, bne_iff_ne]

theorem natBE_beNat (b : Bytes) (h : noLeadZero b = true) : natBE (beNat b) = b := by
  have h' := (noLeadZero_iff b).mp h
  simp only [natBE, beNat]
  rw [natLE_leNat _ _ h' (Nat.le_refl _), List.reverse_reverse]

theorem noLeadZero_natBE (n : Nat) : noLeadZero (natBE n) = true := by
  rw [noLeadZero_iff]
  simp only [natBE, List.reverse_reverse]
  exact natLE_lastNZ n n (Nat.le_refl _)

theorem beNat_lt (b : Bytes) : beNat b < 256 ^ b.length := by
  have := leNat_lt b.reverse
  simpa [beNat] using this

theorem natBE_length_le (n k : Nat) (h : n < 256 ^ k) : (natBE n).length ≤ k := by
  simp only [natBE, List.length_reverse]
  exact natLE_length_le n n k h

theorem natBE_ne_nil (n : Nat) (h : n ≠ 0) : natBE n ≠ [] := by
  simp only [natBE, ne_eq, List.reverse_eq_nil_iff]
  exact natLE_ne_nil n n h (Nat.le_refl _)

theorem natBE_length_pos (n : Nat) (h : n ≠ 0) : 0 < (natBE n).length :=
  List.length_pos_iff.mpr (natBE_ne_nil n h)

/-- two canonical byte strings with the same value are equal. -/
theorem beNat_inj (a b : Bytes) (ha : noLeadZero a = true) (hb : noLeadZero b = true) (h : beNat a = beNat b) : a = b := by
  rw [← natBE_beNat a ha, ← natBE_beNat b hb, h]

/-! ### headers -/

theorem pow256_8 : (256 : Nat) ^ 8 = 2 ^ 64 := by decide

theorem readLen_sound {ll : Nat} {bs : Bytes} {n : Nat} {r : Bytes} (h : readLen ll bs = some (n, r)) :
    bs = natBE n ++ r ∧ (natBE n).length = ll ∧ 56 ≤ n ∧ n < 256 ^ ll := by
  unfold readLen at h
  split at h
  · cases h
  · next hlen =>
    dsimp only at h
    split at h
    · cases h
    · next hz =>
      split at h
      · cases h
      · next h56 =>
        simp only [Option.some.injEq, Prod.mk.injEq] at h
        obtain ⟨h1, h2⟩ := h
        have hz' : noLeadZero (List.take ll bs) = true := by simpa using hz
        have hnb := natBE_beNat _ hz'
        rw [h1] at hnb
        have hl : (List.take ll bs).length = ll := by rw [List.length_take]; omega
        refine ⟨?_, ?_, by omega, ?_⟩
        · rw [hnb, ← h2, List.take_append_drop]
        · rw [hnb, hl]
        · have := beNat_lt (List.take ll bs)
          rw [h1, hl] at this; exact this

theorem readLen_complete (n : Nat) (rest : Bytes) (h56 : 56 ≤ n) :
    readLen (natBE n).length (natBE n ++ rest) = some (n, rest) := by
  unfold readLen
  rw [if_neg (by simp)]
  dsimp only
  rw [List.take_left, List.drop_left, noLeadZero_natBE, beNat_natBE]
  simp only [Bool.not_true, Bool.false_eq_true, if_false]
  rw [if_neg (by omega)]

/-- what a successfully read header says about the input. -/
def Head.spec (b : Bytes) (rest : Bytes) : Head → Prop
  | .byte c => b = c :: rest ∧ c.toNat < 128
  | .str n => b = encHead 0x80 n ++ rest ∧ n < 2 ^ 64
  | .list n => b = encHead 0xc0 n ++ rest ∧ n < 2 ^ 64

theorem lt_pow_of_le8 {n ll : Nat} (h : n < 256 ^ ll) (hl : ll ≤ 8) : n < 2 ^ 64 := by
  rw [← pow256_8]
  exact Nat.lt_of_lt_of_le h (Nat.pow_le_pow_right (by decide) hl)

theorem readHead_sound {b : Bytes} {h : Head} {rest : Bytes} (hr : readHead b = some (h, rest)) : h.spec b rest := by
  cases b with
  | nil => simp [readHead] at hr
  | cons c t =>
    have hc := UInt8.toNat_lt c
    unfold readHead at hr
    dsimp only at hr
    split at hr
    · next h1 =>
      simp only [Option.some.injEq, Prod.mk.injEq] at hr
      obtain ⟨rfl, rfl⟩ := hr
      exact ⟨rfl, h1⟩
    · next h1 =>
      split at hr
      · next h2 =>
        simp only [Option.some.injEq, Prod.mk.injEq] at hr
        obtain ⟨rfl, rfl⟩ := hr
        refine ⟨?_, by omega⟩
        rw [encHead, if_pos (by omega)]
        have : 0x80 + (c.toNat - 0x80) = c.toNat := by omega
        rw [this, UInt8.ofNat_toNat]; rfl
      · next h2 =>
        split at hr
        · next h3 =>
          split at hr
          · cases hr
          · next n r hrl =>
            simp only [Option.some.injEq, Prod.mk.injEq] at hr
            obtain ⟨rfl, rfl⟩ := hr
            obtain ⟨e1, e2, e3, e4⟩ := readLen_sound hrl
            refine ⟨?_, lt_pow_of_le8 e4 (by omega)⟩
            rw [encHead, if_neg (by omega), e2]
            have : 0x80 + 55 + (c.toNat - 0xb7) = c.toNat := by omega
            rw [this, UInt8.ofNat_toNat, e1]; rfl
        · next h3 =>
          split at hr
          · next h4 =>
            simp only [Option.some.injEq, Prod.mk.injEq] at hr
            obtain ⟨rfl, rfl⟩ := hr
            refine ⟨?_, by omega⟩
            rw [encHead, if_pos (by omega)]
            have : 0xc0 + (c.toNat - 0xc0) = c.toNat := by omega
            rw [this, UInt8.ofNat_toNat]; rfl
          · next h4 =>
            split at hr
            · cases hr
            · next n r hrl =>
              simp only [Option.some.injEq, Prod.mk.injEq] at hr
              obtain ⟨rfl, rfl⟩ := hr
              obtain ⟨e1, e2, e3, e4⟩ := readLen_sound hrl
              refine ⟨?_, lt_pow_of_le8 e4 (by omega)⟩
              rw [encHead, if_neg (by omega), e2]
              have : 0xc0 + 55 + (c.toNat - 0xf7) = c.toNat := by omega
              rw [this, UInt8.ofNat_toNat, e1]; rfl

theorem natBE_len_bounds (n : Nat) (h56 : 56 ≤ n) (h64 : n < 2 ^ 64) : 1 ≤ (natBE n).length ∧ (natBE n).length ≤ 8 :=
  ⟨natBE_length_pos n (by omega), natBE_length_le n 8 (by rw [pow256_8]; exact h64)⟩

theorem readHead_encHead_str (n : Nat) (rest : Bytes) (h64 : n < 2 ^ 64) :
    readHead (encHead 0x80 n ++ rest) = some (.str n, rest) := by
  unfold encHead
  split
  · next h =>
    simp only [List.singleton_append, readHead]
    rw [UInt8.toNat_ofNat', Nat.mod_eq_of_lt (by omega)]
    rw [if_neg (by omega), if_pos (by omega)]
    simp
  · next h =>
    obtain ⟨l1, l8⟩ := natBE_len_bounds n (by omega) h64
    simp only [List.cons_append, readHead]
    rw [UInt8.toNat_ofNat', Nat.mod_eq_of_lt (by omega)]
    rw [if_neg (by omega), if_neg (by omega), if_pos (by omega)]
    have : 0x80 + 55 + (natBE n).length - 0xb7 = (natBE n).length := by omega
    rw [this, readLen_complete n rest (by omega)]

theorem readHead_encHead_list (n : Nat) (rest : Bytes) (h64 : n < 2 ^ 64) :
    readHead (encHead 0xc0 n ++ rest) = some (.list n, rest) := by
  unfold encHead
  split
  · next h =>
    simp only [List.singleton_append, readHead]
    rw [UInt8.toNat_ofNat', Nat.mod_eq_of_lt (by omega)]
    rw [if_neg (by omega), if_neg (by omega), if_neg (by omega), if_pos (by omega)]
    simp
  · next h =>
    obtain ⟨l1, l8⟩ := natBE_len_bounds n (by omega) h64
    simp only [List.cons_append, readHead]
    rw [UInt8.toNat_ofNat', Nat.mod_eq_of_lt (by omega)]
    rw [if_neg (by omega), if_neg (by omega), if_neg (by omega), if_neg (by omega)]
    have : 0xc0 + 55 + (natBE n).length - 0xf7 = (natBE n).length := by omega
    rw [this, readLen_complete n rest (by omega)]

theorem encHead_ne_nil (base n : Nat) : encHead base n ≠ [] := by
  unfold encHead; split <;> simp

theorem encHead_length_pos (base n : Nat) : 0 < (encHead base n).length :=
  List.length_pos_iff.mpr (encHead_ne_nil base n)

/-! ### strings -/

theorem encStr_single_lt (c : UInt8) (h : c.toNat < 128) : encStr [c] = [c] := by
  simp [encStr, h]

theorem encStr_general (s : Bytes) (h : ¬ (s.length = 1 ∧ (s.headD 0).toNat < 128)) :
    encStr s = encHead 0x80 s.length ++ s := by
  match s with
  | [] => rfl
  | [c] =>
    have : ¬ c.toNat < 128 := by intro hc; exact h ⟨rfl, by simpa using hc⟩
    simp [encStr, this]
  | _ :: _ :: _ => rfl

theorem encode_str (s : Bytes) : encode (.str s) = encStr s := by simp [encode]
theorem encode_list (l : List Item) : encode (.list l) = encHead 0xc0 (encodeList l).length ++ encodeList l := by
  simp [encode]
theorem encodeList_nil : encodeList [] = [] := by simp [encodeList]
theorem encodeList_cons (x : Item) (xs : List Item) : encodeList (x :: xs) = encode x ++ encodeList xs := by
  simp [encodeList]

theorem encStr_ne_nil (s : Bytes) : encStr s ≠ [] := by
  by_cases h : s.length = 1 ∧ (s.headD 0).toNat < 128
  · match s, h with
    | [c], h => rw [encStr_single_lt c (by simpa using h.2)]; simp
  · rw [encStr_general s h]
    have := encHead_ne_nil 0x80 s.length
    simp [this]

theorem encode_ne_nil (x : Item) : encode x ≠ [] := by
  cases x with
  | str s => rw [encode_str]; exact encStr_ne_nil s
  | list l => rw [encode_list]; have := encHead_ne_nil 0xc0 (encodeList l).length; simp [this]

theorem encode_length_pos (x : Item) : 0 < (encode x).length :=
  List.length_pos_iff.mpr (encode_ne_nil x)

/-! ### the decoder only accepts the encoder's output (canonicity) -/

theorem dec_sound (f : Nat) :
    (∀ b x rest, decItem f b = some (x, rest) → b = encode x ++ rest) ∧
    (∀ b l, decList f b = some l → b = encodeList l) := by
  induction f with
  | zero =>
    constructor
    · intro b x rest h; simp [decItem] at h
    · intro b l h; simp [decList] at h
  | succ f ih =>
    constructor
    · intro b x rest h
      unfold decItem at h
      split at h
      · cases h
      · next c r hh =>
        simp only [Option.some.injEq, Prod.mk.injEq] at h
        obtain ⟨rfl, rfl⟩ := h
        obtain ⟨e1, e2⟩ := readHead_sound hh
        rw [encode_str, encStr_single_lt c e2, e1]; rfl
      · next n r hh =>
        obtain ⟨e1, e2⟩ := readHead_sound hh
        split at h
        · cases h
        · next hlen =>
          split at h
          · cases h
          · next hcan =>
            simp only [Option.some.injEq, Prod.mk.injEq] at h
            obtain ⟨rfl, rfl⟩ := h
            have hl : (List.take n r).length = n := by rw [List.length_take]; omega
            have hcan' : ¬ ((List.take n r).length = 1 ∧ ((List.take n r).headD 0).toNat < 128) := by
              intro ⟨h1, h2⟩
              apply hcan
              rw [hl] at h1
              refine ⟨h1, ?_⟩
              subst h1
              cases r with
              | nil => simp at hlen
              | cons a t => simpa using h2
            rw [encode_str, encStr_general _ hcan', hl, e1, List.append_assoc, List.take_append_drop]
      · next n r hh =>
        obtain ⟨e1, e2⟩ := readHead_sound hh
        split at h
        · cases h
        · next hlen =>
          split at h
          · cases h
          · next l hl =>
            simp only [Option.some.injEq, Prod.mk.injEq] at h
            obtain ⟨rfl, rfl⟩ := h
            have hp := ih.2 _ _ hl
            have hlen' : (encodeList l).length = n := by rw [← hp, List.length_take]; omega
            rw [encode_list, hlen', ← hp, e1, List.append_assoc, List.take_append_drop]
    · intro b l h
      cases b with
      | nil =>
        simp only [decList, Option.some.injEq] at h; subst h; rw [encodeList_nil]
      | cons c t =>
        simp only [decList] at h
        split at h
        · cases h
        · next x r hx =>
          split at h
          · cases h
          · next xs hxs =>
            simp only [Option.some.injEq] at h; subst h
            rw [encodeList_cons, ← ih.2 _ _ hxs]
            exact ih.1 _ _ _ hx

theorem decItem_sound {f : Nat} {b : Bytes} {x : Item} {rest : Bytes} (h : decItem f b = some (x, rest)) :
    b = encode x ++ rest := (dec_sound f).1 b x rest h

theorem decList_sound {f : Nat} {b : Bytes} {l : List Item} (h : decList f b = some l) :
    b = encodeList l := (dec_sound f).2 b l h

theorem decode_some_iff (b : Bytes) (x : Item) :
    decode b = some x ↔ decItem (2 * b.length + 2) b = some (x, []) := by
  unfold decode
  constructor
  · intro h
    split at h
    · next y hy => simp only [Option.some.injEq] at h; subst h; exact hy
    · cases h
  · intro h; rw [h]

/-! ### the decoder accepts every encoding -/

theorem sizeOk_str (s : Bytes) : (Item.str s).sizeOk = true ↔ s.length < 2 ^ 64 := by
  simp [Item.sizeOk]
theorem sizeOk_list (l : List Item) :
    (Item.list l).sizeOk = true ↔ Item.sizeOkList l = true ∧ (encodeList l).length < 2 ^ 64 := by
  simp [Item.sizeOk]
theorem sizeOkList_cons (x : Item) (xs : List Item) :
    Item.sizeOkList (x :: xs) = true ↔ x.sizeOk = true ∧ Item.sizeOkList xs = true := by
  simp [Item.sizeOkList]

theorem decItem_str (f : Nat) (s rest : Bytes) (h64 : s.length < 2 ^ 64) :
    decItem (f + 1) (encStr s ++ rest) = some (.str s, rest) := by
  by_cases h : s.length = 1 ∧ (s.headD 0).toNat < 128
  · match s, h with
    | [c], h =>
      have hc : c.toNat < 128 := by simpa using h.2
      rw [encStr_single_lt c hc]
      unfold decItem
      simp only [List.singleton_append, readHead]
      rw [if_pos hc]
  · rw [encStr_general s h]
    unfold decItem
    rw [List.append_assoc, readHead_encHead_str _ _ h64]
    simp only
    rw [if_neg (by simp)]
    have h' : ¬ (s.length = 1 ∧ ((s ++ rest).headD 0).toNat < 128) := by
      intro ⟨h1, h2⟩
      apply h
      refine ⟨h1, ?_⟩
      match s, h1 with
      | [c], _ => simpa using h2
    rw [if_neg h', List.take_left, List.drop_left]

theorem dec_complete (f : Nat) :
    (∀ x rest, x.sizeOk = true → 2 * (encode x).length ≤ f → decItem f (encode x ++ rest) = some (x, rest)) ∧
    (∀ l, Item.sizeOkList l = true → 2 * (encodeList l).length + 1 ≤ f → decList f (encodeList l) = some l) := by
  induction f with
  | zero =>
    constructor
    · intro x rest _ h; have := encode_length_pos x; omega
    · intro l _ h; omega
  | succ f ih =>
    constructor
    · intro x rest hs hf
      cases x with
      | str s =>
        rw [encode_str]
        exact decItem_str f s rest ((sizeOk_str s).mp hs)
      | list l =>
        obtain ⟨hs1, hs2⟩ := (sizeOk_list l).mp hs
        rw [encode_list] at hf ⊢
        have hpos := encHead_length_pos 0xc0 (encodeList l).length
        rw [List.length_append] at hf
        unfold decItem
        rw [List.append_assoc, readHead_encHead_list _ _ hs2]
        simp only
        rw [if_neg (by simp), List.take_left, List.drop_left, ih.2 l hs1 (by omega)]
    · intro l hs hf
      cases l with
      | nil => rw [encodeList_nil]; simp [decList]
      | cons x xs =>
        obtain ⟨hs1, hs2⟩ := (sizeOkList_cons x xs).mp hs
        rw [encodeList_cons] at hf ⊢
        rw [List.length_append] at hf
        have hpos := encode_length_pos x
        obtain ⟨c, t, hct⟩ := List.exists_cons_of_ne_nil (encode_ne_nil x)
        have hx := ih.1 x (encodeList xs) hs1 (by omega)
        have hxs := ih.2 xs hs2 (by omega)
        rw [hct] at hx ⊢
        simp only [List.cons_append, decList] at hx ⊢
        rw [hx]
        simp only
        rw [hxs]

/-- **decode ∘ encode**: the strict decoder accepts every encoder output and returns the item. -/
theorem decode_encode' (x : Item) (hs : x.sizeOk = true) : decode (encode x) = some x := by
  rw [decode_some_iff]
  have := (dec_complete (2 * (encode x).length + 2)).1 x [] hs (by omega)
  simpa using this

/-! ### fuel -/

theorem dec_fuel_mono (f : Nat) :
    (∀ g b r, f ≤ g → decItem f b = some r → decItem g b = some r) ∧
    (∀ g b r, f ≤ g → decList f b = some r → decList g b = some r) := by
  induction f with
  | zero =>
    constructor
    · intro g b r _ h; simp [decItem] at h
    · intro g b r _ h; simp [decList] at h
  | succ f ih =>
    constructor
    · intro g b r hg h
      cases g with
      | zero => omega
      | succ g =>
        unfold decItem at h ⊢
        split at h
        · cases h
        · next c r' hh => exact h
        · next n r' hh => exact h
        · next n r' hh =>
          split at h
          · cases h
          · next hlen =>
            rw [if_neg hlen]
            split at h
            · cases h
            · next l hl => rw [ih.2 g _ _ (by omega) hl]; exact h
    · intro g b r hg h
      cases g with
      | zero => omega
      | succ g =>
        cases b with
        | nil => simp only [decList] at h ⊢; exact h
        | cons c t =>
          simp only [decList] at h ⊢
          split at h
          · cases h
          · next x r' hx =>
            rw [ih.1 g _ _ (by omega) hx]
            simp only
            split at h
            · cases h
            · next xs hxs => rw [ih.2 g _ _ (by omega) hxs]; exact h

theorem decItem_fuel_mono {f g : Nat} {b : Bytes} {r : Item × Bytes} (hg : f ≤ g) (h : decItem f b = some r) :
    decItem g b = some r := (dec_fuel_mono f).1 g b r hg h

/-- everything the decoder returns is within the encoder's range (lengths < 2^64). -/
theorem dec_sizeOk (f : Nat) :
    (∀ b x rest, decItem f b = some (x, rest) → x.sizeOk = true) ∧
    (∀ b l, decList f b = some l → Item.sizeOkList l = true) := by
  induction f with
  | zero =>
    constructor
    · intro b x rest h; simp [decItem] at h
    · intro b l h; simp [decList] at h
  | succ f ih =>
    constructor
    · intro b x rest h
      unfold decItem at h
      split at h
      · cases h
      · next c r hh =>
        simp only [Option.some.injEq, Prod.mk.injEq] at h
        obtain ⟨rfl, rfl⟩ := h
        rw [sizeOk_str]; simp
      · next n r hh =>
        obtain ⟨e1, e2⟩ := readHead_sound hh
        split at h
        · cases h
        · next hlen =>
          split at h
          · cases h
          · simp only [Option.some.injEq, Prod.mk.injEq] at h
            obtain ⟨rfl, rfl⟩ := h
            rw [sizeOk_str, List.length_take]; omega
      · next n r hh =>
        obtain ⟨e1, e2⟩ := readHead_sound hh
        split at h
        · cases h
        · next hlen =>
          split at h
          · cases h
          · next l hl =>
            simp only [Option.some.injEq, Prod.mk.injEq] at h
            obtain ⟨rfl, rfl⟩ := h
            rw [sizeOk_list]
            refine ⟨ih.2 _ _ hl, ?_⟩
            rw [← decList_sound hl, List.length_take]; omega
    · intro b l h
      cases b with
      | nil => simp only [decList, Option.some.injEq] at h; subst h; simp [Item.sizeOkList]
      | cons c t =>
        simp only [decList] at h
        split at h
        · cases h
        · next x r hx =>
          split at h
          · cases h
          · next xs hxs =>
            simp only [Option.some.injEq] at h; subst h
            rw [sizeOkList_cons]
            exact ⟨ih.1 _ _ _ hx, ih.2 _ _ hxs⟩

/-- The fuel `decode` supplies is enough: whatever any amount of fuel can decode, `2·|b|+2` decodes. -/
theorem decItem_fuel_enough {f : Nat} {b : Bytes} {x : Item} {rest : Bytes} (h : decItem f b = some (x, rest)) :
    decItem (2 * b.length + 2) b = some (x, rest) := by
  have hb := decItem_sound h
  have hs := (dec_sizeOk f).1 _ _ _ h
  rw [hb]
  apply (dec_complete _).1 x rest hs
  rw [List.length_append]; omega

/-- reading one value does not look beyond it (stated for the fuel `decode` uses on the longer input). -/
theorem decItem_append {f : Nat} {b : Bytes} {x : Item} {rest : Bytes} (c : Bytes) (h : decItem f b = some (x, rest)) :
    decItem (2 * (b ++ c).length + 2) (b ++ c) = some (x, rest ++ c) := by
  have hb := decItem_sound h
  have hs := (dec_sizeOk f).1 _ _ _ h
  rw [hb, List.append_assoc]
  apply (dec_complete _).1 x (rest ++ c) hs
  simp only [List.length_append]; omega

/-! ### the size side condition follows from the length of the encoding -/

theorem encStr_length_ge (s : Bytes) : s.length ≤ (encStr s).length := by
  by_cases h : s.length = 1 ∧ (s.headD 0).toNat < 128
  · match s, h with
    | [c], h => rw [encStr_single_lt c (by simpa using h.2)]; simp
  · rw [encStr_general s h]; simp

mutual
theorem sizeOk_of_length : (x : Item) → (encode x).length < 2 ^ 64 → x.sizeOk = true
  | .str s, h => by
    rw [sizeOk_str]; rw [encode_str] at h
    have := encStr_length_ge s; omega
  | .list l, h => by
    rw [sizeOk_list]; rw [encode_list, List.length_append] at h
    exact ⟨sizeOkList_of_length l (by omega), by omega⟩
theorem sizeOkList_of_length : (l : List Item) → (encodeList l).length < 2 ^ 64 → Item.sizeOkList l = true
  | [], _ => by simp [Item.sizeOkList]
  | x :: xs, h => by
    rw [sizeOkList_cons]; rw [encodeList_cons, List.length_append] at h
    exact ⟨sizeOk_of_length x (by omega), sizeOkList_of_length xs (by omega)⟩
end

end Rlp
end Minter
