import MinterModel.Moves
import MinterProofs.Ledger
/-
  Every move is balanced; hence every plan built from moves is.
-/
namespace Minter

theorem sumBy_cons {α : Type} (f : α → Int) (x : α) (t : List α) : sumBy f (x :: t) = f x + sumBy f t := rfl
theorem sumBy_nil {α : Type} (f : α → Int) : sumBy f ([] : List α) = 0 := rfl

theorem admin_effects (p : Prim) (h : p.isAdmin = true) (c : Coin) :
    p.dHold c = 0 ∧ p.dVol c = 0 ∧ p.dSide = 0 ∧ p.dEmission = 0 := by
  cases p <;> simp [Prim.isAdmin] at h <;> simp [Prim.dHold, Prim.dVol, Prim.dSide, Prim.dEmission]

theorem balanced_nil' : Balanced [] := balanced_nil

macro "bal_simp" : tactic => `(tactic| simp only [sumHold, sumVol, sumSide, sumEmission, sumBy_cons, sumBy_nil, sumBy_append, List.cons_append, List.nil_append, Prim.dHold, Prim.dVol, Prim.dSide, Prim.dEmission, poolHoldings, stakeOf, orderEscrow, Order.escrowCoin, Order.escrowValue, ↓reduceIte])

macro "bal_close" : tactic => `(tactic| (bal_simp; (repeat' split) <;> omega))

theorem Move.balanced (m : Move) : Balanced m.prims := by
  cases m with
  | transfer a b c v =>
    constructor
    · intro c' _; simp only [Move.prims]; bal_close
    · simp only [Move.prims]; bal_close
  | mint a c v =>
    simp only [Move.prims]
    split
    · exact balanced_nil
    · constructor
      · intro c' _; bal_close
      · bal_close
  | feeBase payer v =>
    constructor
    · intro c' h; simp only [Move.prims]; bal_close
    · simp only [Move.prims]; bal_close
  | feeBancor payer c commission inBase =>
    simp only [Move.prims]
    split
    · exact balanced_nil
    · constructor
      · intro c' _; bal_close
      · bal_close
  | poolSell payer c0 c1 sellsC0 net out burn toRewards dest =>
    cases sellsC0 <;> cases toRewards
    · -- sells c1, to dest
      simp only [Move.prims, Bool.false_eq_true, if_false]
      constructor
      · intro c' _; bal_close
      · bal_close
    · -- sells c1, to rewards (c0 must be the base coin)
      simp only [Move.prims, Bool.false_eq_true, if_false, if_true]
      split
      · constructor
        · intro c' _; bal_close
        · bal_close
      · exact balanced_nil
    · simp only [Move.prims, Bool.false_eq_true, if_false, if_true]
      constructor
      · intro c' _; bal_close
      · bal_close
    · simp only [Move.prims, Bool.false_eq_true, if_false, if_true]
      split
      · constructor
        · intro c' _; bal_close
        · bal_close
      · exact balanced_nil
  | createCoin owner ci =>
    simp only [Move.prims]
    split
    · exact balanced_nil
    · constructor
      · intro c' _; bal_close
      · bal_close
  | burnTicker v =>
    constructor
    · intro c' h; simp only [Move.prims]; bal_close
    · simp only [Move.prims]; bal_close
  | admin p =>
    simp only [Move.prims]
    split
    · next h =>
      constructor
      · intro c' _
        have := admin_effects p h c'
        simp only [sumHold, sumVol, sumBy_cons, sumBy_nil]; omega
      · have := admin_effects p h 0
        simp only [sumHold, sumSide, sumEmission, sumBy_cons, sumBy_nil]; omega
    · exact balanced_nil
  | bancor a sell sellAmt buy buyAmt bip =>
    simp only [Move.prims]
    constructor
    · intro c' _; split <;> split <;> bal_close
    · split <;> split <;> bal_close
  | delegate a cand coin value wl =>
    cases wl with
    | none => constructor
              · intro c' _; simp only [Move.prims]; bal_close
              · simp only [Move.prims]; bal_close
    | some w => constructor
                · intro c' _; simp only [Move.prims]; bal_close
                · simp only [Move.prims]; bal_close
  | unbond a stakeCand coin value wl f =>
    cases wl with
    | none => constructor
              · intro c' _; simp only [Move.prims]; bal_close
              · simp only [Move.prims]; bal_close
    | some w =>
      simp only [Move.prims]
      split
      · constructor
        · intro c' _; bal_close
        · bal_close
      · split
        · constructor
          · intro c' _; bal_close
          · bal_close
        · constructor
          · intro c' _; bal_close
          · bal_close
  | lock a f =>
    constructor
    · intro c' _; simp only [Move.prims]; bal_close
    · simp only [Move.prims]; bal_close
  | declare a cd coin stake =>
    constructor
    · intro c' _; simp only [Move.prims]; bal_close
    · simp only [Move.prims]; bal_close
  | poolCreate a p lp =>
    simp only [Move.prims]
    split
    · exact balanced_nil
    · next h =>
      have h1 : lp.id ≠ 0 := fun e => h (Or.inl e)
      have h2 : lp.reserve = 0 := Classical.byContradiction (fun e => h (Or.inr e))
      constructor
      · intro c' _; bal_simp; simp only [minLiquidity]; (repeat' split) <;> omega
      · bal_simp; simp only [minLiquidity]; (repeat' split) <;> omega
  | poolMint a c0 c1 a0 a1 lp liq =>
    simp only [Move.prims]
    split
    · exact balanced_nil
    · constructor
      · intro c' _; bal_close
      · bal_close
  | poolBurn a c0 c1 a0 a1 lp liq =>
    simp only [Move.prims]
    split
    · exact balanced_nil
    · constructor
      · intro c' _; bal_close
      · bal_close
  | orderAdd a o =>
    constructor
    · intro c' _; simp only [Move.prims]; bal_close
    · simp only [Move.prims]; bal_close
  | orderRemove a o =>
    constructor
    · intro c' _; simp only [Move.prims]; bal_close
    · simp only [Move.prims]; bal_close

theorem planOf_balanced (ms : List Move) : Balanced (planOf ms) := by
  induction ms with
  | nil => exact balanced_nil
  | cons m t ih =>
    simp only [planOf, List.flatMap_cons]
    exact balanced_append _ _ (Move.balanced m) ih

end Minter
