import MinterModel
/-
  Line-protocol driver. Reads ops from stdin (see harness/run.go), keeps the Go-side view of the
  state, evaluates the property monitors on it and (for modelled ops) runs the model next to it.
  Every op is answered with zero or more lines followed by a line ".".
-/
open Minter

def chomp (s : String) : String := String.ofList (s.toList.filter (fun c => c != '\n' && c != '\r'))

structure DState where
  dump : Dump := {}
  committed : Option State := none   -- Go state at the previous commit
  nCommits : Nat := 0
  nOps : Nat := 0

def kv (line : String) : List (String × String) :=
  (words line).filterMap (fun w => match w.splitOn "=" with
    | k :: v :: rest => some (k, "=".intercalate (v :: rest))
    | _ => none)

def kvGet (l : List (String × String)) (k : String) : String := (l.lookup k).getD ""

partial def readDelta (h : IO.FS.Stream) (d : Dump) : IO Dump := do
  let line ← h.getLine
  if line.isEmpty then return d
  let l := chomp line
  if l == "." then return d
  readDelta h (d.applyLine l)

def fmtViol (v : Coin × Int × Int) : String := s!"coin={v.1} volume={v.2.1} holdings={v.2.2}"

partial def loop (h : IO.FS.Stream) (out : IO.FS.Stream) (ds : DState) : IO Unit := do
  let line ← h.getLine
  if line.isEmpty then return ()
  let l := chomp line
  let ws := words l
  match ws with
  | "S" :: kind :: _ =>
    let d ← readDelta h ds.dump
    let mut ds := { ds with dump := d, nOps := ds.nOps + 1 }
    if kind == "commit" || kind == "init" || kind == "restart" then
      let st := State.ofDump d
      -- C01 custom coins
      for v in volumeViolations st do
        out.putStrLn s!"VIOL C01 volume-mismatch {fmtViol v}"
      -- C02
      if !amountsOk st then
        out.putStrLn s!"VIOL C02 negative-or-overflow"
      -- C01 base coin: delta of base total equals delta of emission
      if kind == "commit" then
        match ds.committed with
        | some prev =>
          if !baseDeltaOk prev st then
            out.putStrLn s!"VIOL C01 base-delta baseTotal:{baseTotal prev}->{baseTotal st} emission:{prev.emission}->{st.emission}"
        | none => pure ()
      out.putStrLn s!"OK {kind} coins={st.coins.length} base={baseTotal st} emission={st.emission}"
      ds := { ds with committed := some st, nCommits := ds.nCommits + 1 }
    out.putStrLn "."
    out.flush
    loop h out ds
  | _ =>
    out.putStrLn "."
    out.flush
    loop h out { ds with nOps := ds.nOps + 1 }

def main : IO Unit := do
  let stdin ← IO.getStdin
  let stdout ← IO.getStdout
  loop stdin stdout {}
