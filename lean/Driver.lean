import MinterModel
/-
  Line-protocol driver. Reads ops from stdin (see harness/run.go), keeps the Go-side view of the
  state, evaluates the property monitors on it and runs the model next to it for modelled ops.
  Every op is answered with zero or more lines followed by a line ".".
  Oracle questions are written as "?<query>" and answered by the next input line "!<int>".
-/
open Minter

def chomp (s : String) : String := String.ofList (s.toList.filter (fun c => c != '\n' && c != '\r'))

def toHexPad (n : Nat) (width : Nat) : String := hexPad n width

def comDigest (c : List (String × Int)) : String := comDigestOf (c.map (fun e => (e.1, toString e.2)))

structure LastTx where
  t : TxIn
  code : Nat
  kvs : List (String × String)

structure DState where
  dump : Dump := {}
  committed : Option State := none   -- Go state at the previous commit
  model : Option State := none       -- model state (none = not in sync, wait for the next commit)
  staleOther : Bool := false         -- parts outside the live projection (stakes, orders, …) may be out of date
  pendingMerge : Bool := false       -- the last tx was not modelled: adopt Go's live projection at the next delta
  params : Params := {}
  block : Nat := 0
  touched : List String := []        -- dump keys the last modelled plan touched
  oracle : List (OQ × Int) := []
  lastTx : Option LastTx := none
  begin : BeginInfo := { height := 0, byz := [], signed := [] }
  breq : BeginReq := {}              -- the BeginBlock request as sent (votes in order)
  liveUp : Bool := false             -- the live projection carries candidates' pending updates (`up` keys)
  seenRaw : List (String × Nat × Bool) := []   -- C26: raw bytes delivered so far ↦ (response code, did the delivery change the ledger)
  lastK : Option Nat := none
  expectCom : Option String := none
  expectVer : Option String := none
  expectEmission : Option Int := none   -- the emission counter the EndBlock model predicts for the next commit
  keyEdited : Bool := false             -- an EditCandidatePublicKey (type 20) was accepted in the current block
  comTable : List (String × Int) := []
  tickers : List (String × String) := []   -- ticker ↦ owner as it follows from the accepted transactions (RestartMonitor.ownerGate)
  nCommits : Nat := 0
  nOps : Nat := 0
  nModelled : Nat := 0
  nUnmodelled : Nat := 0
  nStaleSkipped : Nat := 0
  nOracle : Nat := 0

def kv (line : String) : List (String × String) :=
  (words line).filterMap (fun w => match w.splitOn "=" with
    | k :: v :: rest => some (k, "=".intercalate (v :: rest))
    | _ => none)

def kvGet (l : List (String × String)) (k : String) : String := (l.lookup k).getD ""

structure Change where
  key : String
  old : Option String
  new : Option String

partial def readDelta (h : IO.FS.Stream) (d : Dump) (chs : List Change) : IO (Dump × List Change) := do
  let line ← h.getLine
  if line.isEmpty then return (d, chs)
  let l := chomp line
  if l == "." then return (d, chs)
  let key := match l.toList with
    | '=' :: rest => ((String.ofList rest).splitOn "\t").headD ""
    | '-' :: rest => String.ofList rest
    | _ => ""
  let d' := d.applyLine l
  readDelta h d' ({ key := key, old := d.get? key, new := d'.get? key } :: chs)

/-- The `value` field of a dump entry that carries an amount (for monotonicity checks). -/
def amountOf (key : String) (v : Option String) : Int :=
  match v with
  | none => 0
  | some s =>
    match (words key).headD "" with
    | "b" => intD s
    | "wl" => (s.splitOn "+").foldl (fun acc x => acc + intD x) 0
    | "st" => match words s with | [_, val, _] => intD val | _ => 0
    | _ => 0

/-- Monitors evaluated on the node's own observations after every DeliverTx (C03, C04, C05). -/
def changeOf (chs : List Change) (key : String) : Option Change := chs.find? (fun c => c.key == key)

def deltaOf (chs : List Change) (key : String) : Int :=
  match changeOf chs key with
  | some c => amountOf key c.new - amountOf key c.old
  | none => 0

def txMonitors (P : Params) (lt : LastTx) (chs : List Change) (dOld : Dump) (block : Nat) (comTable : List (String × Int)) : List String := Id.run do
  let t := lt.t
  let mut out : List String := []
  let senderHex := toHexPad t.sender 40
  let issuerHex := kvGet lt.kvs "tx.from"            -- for RedeemCheck: the check issuer
  let com := t.comCoin
  if !t.dec then
    for c in chs do
      if c.key != "app rewards" || c.old != c.new then out := s!"VIOL C03 undecodable-tx-changed {c.key}" :: out
    return out
  -- nonce rules
  for c in chs do
    match words c.key with
    | ["n", a] =>
      let o := natD (c.old.getD "0"); let n := natD (c.new.getD "0")
      if lt.code != 0 then out := s!"VIOL C03 nonce-changed-by-rejected-tx {c.key} {o}->{n}" :: out
      else if a != senderHex then out := s!"VIOL C04 foreign-nonce-changed {c.key} {o}->{n}" :: out
      else
        if n != o + 1 then out := s!"VIOL C03 nonce-not-incremented-by-one {c.key} {o}->{n}" :: out
        if n != t.nonce then out := s!"VIOL C04 accepted-nonce-mismatch tx.nonce={t.nonce} stored={o}->{n}" :: out
    | _ => pure ()
  if lt.code == 0 then
    if t.chain != P.chain then out := s!"VIOL C04 accepted-wrong-chain {t.chain}" :: out
    if !(chs.any (fun c => c.key == s!"n {senderHex}")) then out := s!"VIOL C03 accepted-tx-did-not-bump-nonce type={t.typ}" :: out
  -- debits
  for c in chs do
    match words c.key with
    | ["b", a, _] =>
      if amountOf c.key c.new < amountOf c.key c.old && a != senderHex && !(t.typ == 9 && a == issuerHex) then
        out := s!"VIOL C05 unauthorised-debit {c.key} {c.old.getD "0"}->{c.new.getD "0"} type={t.typ} sender={senderHex}" :: out
    | ["st", _, a, _] =>
      if amountOf c.key c.new < amountOf c.key c.old && a != senderHex then
        out := s!"VIOL C05 foreign-stake-reduced {c.key} type={t.typ} sender={senderHex}" :: out
    | ["wl", _, a, _] =>
      if amountOf c.key c.new < amountOf c.key c.old && a != senderHex then
        out := s!"VIOL C05 foreign-waitlist-reduced {c.key} type={t.typ} sender={senderHex}" :: out
    | _ => pure ()
  -- C02 / C21: no delivery may leave a negative balance behind (the commit would refuse it, or store its absolute value);
  -- for a check redemption the overdrawn account is the issuer, who then did not pay the value and the fee he owed
  for c in chs do
    match words c.key with
    | ["b", a, _] =>
      if amountOf c.key c.new < 0 then
        out := s!"VIOL C02 negative-balance-after-tx {c.key} {c.new.getD "0"} type={t.typ} code={lt.code}" :: out
        if t.typ == 9 && a == issuerHex then
          out := s!"VIOL C21 redeemed-check-overdraws-issuer {c.key} {c.old.getD "0"}->{c.new.getD "0"} value={kvGet lt.kvs "k.value"} code={lt.code}" :: out
    | _ => pure ()
  -- C16: an accepted MoveStake names a target that is a candidate when the transaction is delivered; a fund frozen "towards"
  -- nobody would come back to the owner's balance after the (shorter) move period: staked coins off schedule
  if lt.code == 0 && t.typ == 27 then
    let s0 : State := State.ofDump dOld
    if !candExists s0 (t.hex "d.ToPubKey") then
      out := s!"VIOL C16 move-accepted-towards-non-candidate to={t.str "d.ToPubKey"} from={t.str "d.FromPubKey"} coin={t.nat "d.Coin"} value={t.int "d.Value"}" :: out
  -- C14: best price first. Orders this delivery filled (volume reduced or closed; a cancel by the transaction itself is not a
  -- fill) against the orders of the same side of the same pool that it left exactly as they were.
  if lt.code == 0 then
    let cancelled := if t.typ == 36 then s!"o {t.nat "d.ID"}" else ""
    let filled := chs.filterMap (fun c =>
      if c.key.startsWith "o " && c.key != cancelled then
        match c.old.bind (BookEntry.parse c.key) with
        | some f =>
          let shrunk := match c.new.bind (BookEntry.parse c.key) with
            | some g => g.wantSell < f.wantSell || g.wantBuy < f.wantBuy
            | none => true
          if shrunk then some f else none
        | none => none
      else none)
    if !filled.isEmpty then
      let untouched := dOld.toList.filterMap (fun (k, v) =>
        if k.startsWith "o " && !(chs.any (fun c => c.key == k)) then BookEntry.parse k v else none)
      out := (orderPriorityMonitor filled untouched).map (fun m => m ++ s!" type={t.typ}") ++ out
  -- C27: the commission in price-table terms
  let priceTag := kvGet lt.kvs "tx.commission_price"
  if priceTag != "" then
    let st : State := { commission := comTable }
    let want := txPrice st t
    if intD priceTag != want then out := s!"VIOL C27 commission-price tag={priceTag} expected={want} type={t.typ}" :: out
  if lt.code == 0 then
    let inBase := intD (kvGet lt.kvs "tx.commission_in_base_coin")
    let burned := intD (kvGet lt.kvs "tx.burned_for_symbol")
    let dr := match changeOf chs "app rewards" with
      | some c => intD (c.new.getD "0") - intD (c.old.getD "0")
      | none => 0
    if dr != inBase - burned then out := s!"VIOL C27 fee-pool-delta got={dr} expected={inBase - burned} type={t.typ}" :: out
    -- C27: a table denominated in a custom coin: the whole amount (gas price included) is converted through the pool of that
    -- coin as it stands before the transaction (pools with limit orders are left to the model comparison)
    let tableCoin := ((comTable.lookup "coin").getD 0).toNat
    -- (a fee exchanged through the pool of the gas coin reports what that exchange really returned, a few pips more)
    if tableCoin != 0 && priceTag != "" && kvGet lt.kvs "tx.commission_in_base_coin" != "" && kvGet lt.kvs "tx.commission_conversion" != "pool" then
      let s0 : State := State.ofDump dOld
      if !(pairHasOrders s0 tableCoin 0) then
        match poolRes s0 tableCoin 0 with
        | some (r0, r1) =>
          match checkSwapQuote r0 r1 (intD priceTag) 0 false with
          | .ok (.ok want) =>
            if want != inBase then out := s!"VIOL C27 commission-conversion in-base={inBase} expected={want} price={priceTag} table-coin={tableCoin} gasprice={t.gasPrice} type={t.typ}" :: out
          | _ => pure ()
        | none => pure ()
    if burned != 0 && deltaOf chs s!"b {toHexPad 0 40} 0" != burned then
      out := s!"VIOL C27 ticker-fee-not-burned burned={burned} zero-address-delta={deltaOf chs s!"b {toHexPad 0 40} 0"}" :: out
    -- C15: slippage limits and tags
    let com := intD (kvGet lt.kvs "tx.commission_amount")
    let ret := intD (kvGet lt.kvs "tx.return")
    let coins := (t.str "d.Coins").splitOn ","
    let (isConv, cSell, cBuy) :=
      if t.typ == 2 || t.typ == 3 || t.typ == 4 then (true, t.nat "d.CoinToSell", t.nat "d.CoinToBuy")
      else if t.typ == 23 || t.typ == 24 || t.typ == 25 then (true, natD (coins.headD "0"), natD (coins.getLastD "0"))
      else (false, 0, 0)
    if isConv && cSell != cBuy then
      let dSell := deltaOf chs s!"b {senderHex} {cSell}"
      let dBuy := deltaOf chs s!"b {senderHex} {cBuy}"
      let comIn (c : Nat) : Int := if t.comCoin == c then com else 0
      let noSelf := kvGet lt.kvs "x.selforders" == "0" || kvGet lt.kvs "x.selforders" == ""
      -- the sender may own orders that its own trade fills: those credits come on top (only ≥ can be checked then)
      let agrees (got want : Int) : Bool := if noSelf then got == want else got ≥ want
      if t.typ == 2 || t.typ == 23 then
        if ret < t.int "d.MinimumValueToBuy" then out := s!"VIOL C15 bought-less-than-minimum return={ret} min={t.int "d.MinimumValueToBuy"}" :: out
        if !(agrees dBuy (ret - comIn cBuy)) then out := s!"VIOL C15 buy-credit-differs-from-tag delta={dBuy} return={ret} type={t.typ}" :: out
        if !(agrees dSell (-(t.int "d.ValueToSell") - comIn cSell)) then out := s!"VIOL C15 sell-debit-differs delta={dSell} value={t.int "d.ValueToSell"} com={comIn cSell} type={t.typ}" :: out
      else if t.typ == 4 || t.typ == 24 then
        if ret > t.int "d.MaximumValueToSell" then out := s!"VIOL C15 sold-more-than-maximum return={ret} max={t.int "d.MaximumValueToSell"}" :: out
        if !(agrees dSell (-ret - comIn cSell)) then out := s!"VIOL C15 sell-debit-differs-from-tag delta={dSell} return={ret} type={t.typ}" :: out
        if !(agrees dBuy (t.int "d.ValueToBuy" - comIn cBuy)) then out := s!"VIOL C15 buy-credit-differs delta={dBuy} value={t.int "d.ValueToBuy"} type={t.typ}" :: out
      else
        if ret < t.int "d.MinimumValueToBuy" then out := s!"VIOL C15 bought-less-than-minimum return={ret} min={t.int "d.MinimumValueToBuy"}" :: out
        if !(agrees dBuy ret) then out := s!"VIOL C15 buy-credit-differs-from-tag delta={dBuy} return={ret} type={t.typ}" :: out
        let oldBal := intD ((dOld.get? s!"b {senderHex} {cSell}").getD "0")
        if !(agrees (oldBal + dSell) 0) then out := s!"VIOL C15 sell-all-left-a-balance old={oldBal} delta={dSell}" :: out
        let sold := intD (kvGet lt.kvs "tx.sell_amount")
        if sold != oldBal then out := s!"VIOL C15 sell-all-amount-tag sold={sold} balance={oldBal}" :: out
    -- C22: fresh ids
    if t.typ == 5 || t.typ == 30 || t.typ == 16 || t.typ == 31 || t.typ == 34 then
      let oldN := natD ((dOld.get? "app ncoins").getD "0")
      let newIds := chs.filterMap (fun c => match words c.key with
        | ["c", id] => if c.old.isNone then some (natD id) else none
        | _ => none)
      if newIds != [oldN + 1] then out := s!"VIOL C22 new-coin-id ids={newIds} expected={oldN + 1} type={t.typ}" :: out
    -- C20: votes only for current or future heights, once per candidate and height
    if t.typ == 15 || t.typ == 32 || t.typ == 33 then
      let hgt := t.nat "d.Height"
      let pk := t.str "d.PubKey"
      if hgt < block then out := s!"VIOL C20 vote-for-past-height accepted height={hgt} block={block} type={t.typ}" :: out
      let pre := if t.typ == 15 then "h" else if t.typ == 32 then "cv" else "uv"
      if (dOld.get? s!"{pre} {hgt} {pk}").isSome then out := s!"VIOL C20 duplicate-vote accepted height={hgt} type={t.typ}" :: out
  -- failure frame
  if lt.code != 0 then
    let payer := if t.typ == 9 && issuerHex != "" then issuerHex else senderHex
    for c in chs do
      if c.old != c.new then
        let ok := match words c.key with
          | ["b", a, cc] => natD cc == com && (a == payer || amountOf c.key c.new ≥ amountOf c.key c.old)
          | ["c", cc] => natD cc == com
          | ["p", c0, c1] => (natD c0 == com && natD c1 == 0) || (natD c0 == 0 && natD c1 == com)
          | ["o", _] =>
            -- a fee paid through the commission pool may fill limit orders of that pool (their owners are credited)
            match words ((c.old.orElse (fun _ => c.new)).getD "") with
            | c0 :: c1 :: _ => (natD c0 == com && natD c1 == 0) || (natD c0 == 0 && natD c1 == com)
            | _ => false
          | ["app", "rewards"] => true
          | _ => false
        if !ok then out := s!"VIOL C03 rejected-tx-changed {c.key} {c.old.getD "-"}->{c.new.getD "-"} type={t.typ} code={lt.code}" :: out
  return out

def fmtViol (v : Coin × Int × Int) : String := s!"coin={v.1} volume={v.2.1} holdings={v.2.2}"

/-- Dump keys a primitive touches, read off the state `m` *after* the plan (indices of appended list entries). -/
def primKeys (m : State) : Prim → List String
  | .addBal a c _ => [s!"b {toHexPad a 40} {c}"]
  | .addVolume c _ => [s!"c {c}"]
  | .addReserve c _ => [s!"c {c}"]
  | .setNonce a _ => [s!"n {toHexPad a 40}"]
  | .createCoin ci => [s!"c {ci.id}", "app ncoins"]
  | .addSlashed _ => ["app slashed"]
  | .addRewards _ => ["app rewards"]
  | .addPool c0 c1 _ _ => [s!"p {c0} {c1}"]
  | .createPool p => [s!"p {p.c0} {p.c1}"]
  | .addStake cand owner coin _ => [s!"st {cand} {toHexPad owner 40} {coin}"]
  | .newStake cand st => [s!"st {cand} {toHexPad st.owner 40} {st.coin}"]
  | .delStake cand st => [s!"st {cand} {toHexPad st.owner 40} {st.coin}"]
  | .pushUpdate cand _ =>
    match getCand m cand with
    | some cd => (List.range (cd.updates.length + 1)).map (fun i => s!"up {cand} {i}")
    | none => []
  | .addWait w => [s!"wl {w.cand} {toHexPad w.owner 40} {w.coin}"]
  | .delWait w => [s!"wl {w.cand} {toHexPad w.owner 40} {w.coin}"]
  | .addFrozen f => (List.range ((m.frozen.filter (fun x => x.height == f.height)).length + 1)).map (fun i => s!"ff {f.height} {i}")
  | .delFrozen f => (List.range ((m.frozen.filter (fun x => x.height == f.height)).length + 2)).map (fun i => s!"ff {f.height} {i}")
  | .addOrder o => [s!"o {o.id}"]
  | .delOrder o => [s!"o {o.id}"]
  | .fillOrder o _ _ => [s!"o {o.id}"]
  | .useCheck h => [s!"uc {h}"]
  | .setCoinOwner sym _ => (m.coins.filter (·.symbol == sym)).map (fun ci => s!"c {ci.id}")
  | .bumpVersion c _ => [s!"c {c}"]
  | .setLockStake a _ => [s!"ls {toHexPad a 40}"]
  | .setMultisig a _ => [s!"ms {toHexPad a 40}"]
  | .addCandidate cd => [s!"cand {cd.id}"]
  | .setCandStatus id _ => [s!"cand {id}"]
  | .setToDrop pk => [s!"v {toHexPad pk 64}"]
  | .editCandidate id _ _ _ => [s!"cand {id}"]
  | .setCandPubKey id old _ => [s!"cand {id}", s!"blk {toHexPad old 64}"]
  | .setCandCommission id _ _ => [s!"cand {id}"]
  | .addHalt h pk => [s!"h {h} {toHexPad pk 64}"]
  | .addCVote h pk _ => [s!"cv {h} {toHexPad pk 64}"]
  | .addUVote h pk _ => [s!"uv {h} {toHexPad pk 64}"]
  | .setNextOrder _ => ["app nextorder"]
  | _ => []

/-- The node's value under a dump key, normalised to the form `State.valueAt` renders. -/
def goValueAt (d : Dump) (k : String) : Option String :=
  match d.get? k with
  | none =>
    match words k with
    | ["app", "slashed"] | ["app", "rewards"] | ["app", "ncoins"] | ["app", "nextorder"] => some "0"
    | _ => none
  | some v =>
    match (words k).headD "" with
    | "st" => match words v with | [_, val, bip] => some s!"{val} {bip}" | _ => some v
    | "v" => match words v with | [_, _, _, _, dr] => some dr | _ => none
    | "wl" => some (toString ((v.splitOn "+").foldl (fun acc x => acc + intD x) 0))
    | "b" => if v == "0" then none else some v
    | "n" => if v == "0" then none else some v
    | _ => some v

/-- Compare the model with the Go view on the given dump keys (every key kind the transaction model can change). -/
def projMismatch (m : State) (d : Dump) (keys : List String) : List String :=
  keys.eraseDups.filterMap (fun k =>
    if !State.tracksKey k then none else
    let g := goValueAt d k
    let v := m.valueAt k
    -- validator lines are only comparable in their live form; an absent `app nextorder` means "not yet used"
    if (words k).headD "" == "v" && (g.isNone || v.isNone) then none
    else if k == "app nextorder" && (g == some "0" || v == some "0") && (g == some "1" || v == some "1" || g == v) then none
    else if g == v then none
    else some s!"{k} model={v.getD "absent"} go={g.getD "absent"}")

/-- Adopt Go's view (the last export overlaid with the live projection): everything the transaction model reads is in it. -/
def mergeProjection (_m : State) (d : Dump) : State := State.ofDump d

def oqLine : OQ → String
  | .saleAmount v r c w => s!"saleAmount {v} {r} {c} {w}"
  | .saleReturn v r c w => s!"saleReturn {v} {r} {c} {w}"
  | .purchaseReturn v r c w => s!"purchaseReturn {v} {r} {c} {w}"
  | .purchaseAmount v r c w => s!"purchaseAmount {v} {r} {c} {w}"

/-- Run the model's DeliverTx, asking the harness for oracle values as needed. -/
partial def runDeliver (h out : IO.FS.Stream) (ds : DState) (m : State) (t : TxIn) (fuel : Nat) :
    IO (DState × Except Stop Outcome) := do
  let orc : Oracle := fun q => ds.oracle.lookup q
  match deliverTx ds.params orc m ds.block t with
  | .error (.need q) =>
    if fuel == 0 then return (ds, .error (.unmodelled "oracle loop"))
    out.putStrLn ("?" ++ oqLine q)
    out.flush
    let ans ← h.getLine
    let a := chomp ans
    match (String.ofList (a.toList.drop 1)).toInt? with
    | some v => runDeliver h out { ds with oracle := (q, v) :: ds.oracle, nOracle := ds.nOracle + 1 } m t (fuel - 1)
    | none => return (ds, .error (.unmodelled s!"oracle answer {a}"))
  | r => return (ds, r)

/-- Run the BeginBlock model on the node's state before the block and compare with the state after it,
    asking the harness for the float `CalculateSaleReturn` values of custom-coin slashes. -/
partial def runBegin (h out : IO.FS.Stream) (ds : DState) (old new : State) (grace : Bool) (fuel : Nat) : IO (DState × List String) := do
  let orc : Oracle := fun q => ds.oracle.lookup q
  match beginCompare ds.params orc old new ds.breq grace ds.liveUp with
  | .error (.need q) =>
    if fuel == 0 then return (ds, ["FAIL begin oracle-loop"])
    out.putStrLn ("?" ++ oqLine q)
    out.flush
    let ans ← h.getLine
    let a := chomp ans
    match (String.ofList (a.toList.drop 1)).toInt? with
    | some v => runBegin h out { ds with oracle := (q, v) :: ds.oracle, nOracle := ds.nOracle + 1 } old new grace (fuel - 1)
    | none => return (ds, [s!"FAIL begin oracle-answer {a}"])
  | .error (.panic w) => return (ds, [s!"MISMATCH C16 begin h={ds.breq.height} model-predicts-panic={w} go=continued"])
  | .error (.unmodelled w) => return (ds, [s!"FAIL begin unmodelled {w}"])
  | .ok l => return (ds, l)

partial def loop (h : IO.FS.Stream) (out : IO.FS.Stream) (ds : DState) : IO Unit := do
  let line ← h.getLine
  if line.isEmpty then
    return ()
  let l := chomp line
  let ws := words l
  match ws with
  | "P" :: _ =>
    let a := kv l
    let n := fun k d => if kvGet a k == "" then d else natD (kvGet a k)
    let p : Params := { chain := n "chain" 2, period := n "period" 12, expire := n "expire" 30, unbond := n "unbond" 531,
                        move := n "move" 177, jail := n "jail" 354, initial := n "initial" 10200001 }
    out.putStrLn "."
    out.flush
    loop h out { ds with params := p, liveUp := kvGet a "liveup" == "1" }
  | "S" :: kind :: _ =>
    let before : Option State := if kind == "begin" || kind == "end" then some (State.ofDump ds.dump) else none
    let dumpBefore := ds.dump
    let (d, chs) ← readDelta h ds.dump []
    let keys := chs.map (·.key)
    let mut ds := { ds with dump := d, nOps := ds.nOps + 1 }
    if kind == "commit" || kind == "init" || kind == "restart" then
      let st := State.ofDump d
      for v in volumeViolations st do
        out.putStrLn s!"VIOL C01 volume-mismatch {fmtViol v}"
      if !amountsOk st then
        out.putStrLn s!"VIOL C02 negative-or-overflow"
      -- C07: the state invariant under which the transaction layer is proved panic-free (hypothesis of C07_deliver_no_panic…)
      for c in txInvBroken ds.params st do
        out.putStrLn s!"VIOL C07 tx-invariant-broken {c}"
      if kind == "restart" then
        -- the export re-read from disk by the restarted process against the export of the last commit (`ds.dump` before this delta)
        for c in chs do
          for v in restartViolations "export" c.key c.old c.new do
            out.putStrLn v
      if kind == "init" then
        ds := { ds with tickers := tickersOfDump d }
      if kind == "commit" then
        match ds.expectEmission with
        | some em => if st.emission != em then out.putStrLn s!"MISMATCH C01 end emission model={em} go={st.emission}"
        | none => pure ()
        match ds.committed with
        | some prev =>
          if !baseDeltaOk prev st then
            out.putStrLn s!"VIOL C01 base-delta baseTotal:{baseTotal prev}->{baseTotal st} emission:{prev.emission}->{st.emission}"
        | none => pure ()
      if kind == "commit" then
        match ds.committed with
        | some prev =>
          let dOld := comDigest prev.commission
          let dNew := comDigest st.commission
          match ds.expectCom with
          | some w => if dNew != w then out.putStrLn s!"VIOL C20 commission-vote-passed-not-applied expected={w} got={dNew}"
          | none => if dNew != dOld then out.putStrLn s!"VIOL C20 commission-changed-without-two-thirds {dOld}->{dNew}"
          match ds.expectVer with
          | some w =>
            let want := (if prev.versions == "" then "" else prev.versions ++ ",") ++ s!"{w}@{ds.begin.height}"
            if st.versions != want then out.putStrLn s!"VIOL C20 version-vote-passed-not-applied expected={want} got={st.versions}"
          | none => if st.versions != prev.versions then out.putStrLn s!"VIOL C20 version-changed-without-two-thirds {prev.versions}->{st.versions}"
        | none => pure ()
      out.putStrLn s!"OK {kind} coins={st.coins.length} base={baseTotal st} emission={st.emission} modelled={ds.nModelled} unmodelled={ds.nUnmodelled} skipped={ds.nStaleSkipped} oracle={ds.nOracle}"
      -- resync the model with the committed Go state (EndBlock is not modelled yet)
      ds := { ds with committed := some st, nCommits := ds.nCommits + 1, model := some { st with rewardsPool := 0 }, touched := [], oracle := [], staleOther := false, pendingMerge := false, expectCom := none, expectVer := none, expectEmission := none, comTable := st.commission }
    else if kind == "end" then
      match before with
      | some old =>
        let new := State.ofDump d
        let cap : Int := 10000000000 * 1000000000000000000
        for v in endMonitorModel old new ds.begin.signed (decide (old.emission ≥ cap)) (ds.begin.height % ds.params.period == 0) ds.begin.height ds.params.period do
          out.putStrLn v
        ds := { ds with expectCom := winnerAt old ds.begin.signed ds.begin.height old.cvotes,
                        expectVer := winnerAt old ds.begin.signed ds.begin.height old.uvotes }
        -- C01 block level: the EndBlock model (MinterModel/Block.lean) on the live state before EndBlock against the live state after it
        -- the node's in-memory flag: a candidate's key changed since the last commit. A candidate declared AND re-keyed in
        -- the same block is not in the previous commit, hence also: a type-20 transaction was accepted in this block
        let changedKeys := ds.keyEdited || (match ds.committed with
          | some prev => old.candidates.any (fun c => prev.candidates.any (fun d => d.id == c.id && d.pubkey != c.pubkey))
          | none => false)
        let newVersion : Option String :=
          if new.versions == old.versions then none
          else match ((new.versions.splitOn ",").getLast?.getD "").splitOn "@" with
            | [nm, _] => some nm
            | _ => none
        let ereq : EndReq := { height := ds.begin.height, signed := ds.begin.signed, changedKeys := changedKeys,
                               newCommission := if comDigest new.commission != comDigest old.commission then some new.commission else none,
                               newVersion := newVersion }
        match endCompare ds.params old new ereq with
        | .ok r =>
          for v in r.msgs do out.putStrLn v
          ds := { ds with expectEmission := some r.emission }
        | .error (.panic w) => out.putStrLn s!"MISMATCH C01 end h={ds.begin.height} model-predicts-panic={w.replace " " "_"} go=continued"
        | .error (.unmodelled w) => out.putStrLn s!"FAIL end unmodelled {w.replace " " "_"}"
        | .error (.need _) => out.putStrLn s!"FAIL end oracle"
        let setChanged := (new.validators.map (·.pubkey)) != (old.validators.map (·.pubkey))
        if setChanged || ds.begin.height % ds.params.period == 0 then
          for v in validatorSetModel new do
            out.putStrLn v
        for v in pruneMonitor old new (ds.begin.height % ds.params.period == 0) do
          out.putStrLn v
      | none => pure ()
    else if kind == "begin" then
      match before with
      | some old =>
        let new := State.ofDump d
        -- grace periods as the node builds them: 120 blocks from the start height (InitialHeight - 1) and from every version height
        let grace := isGraceBlock (nodeGracePeriods (ds.params.initial - 1) (versionHeightsOf old.versions)) ds.breq.height
        let (ds', msgs) ← runBegin h out ds old new grace 4096
        ds := ds'
        for v in msgs do
          out.putStrLn v
        -- observational monitors (no model involved): what the property says directly about the node's own before/after states
        let deltas := chs.filterMap (fun c => match words c.key with
          | ["b", a, cc] => some ((hexNat a, natD cc), amountOf c.key c.new - amountOf c.key c.old)
          | _ => none)
        for v in beginMonitor ds.params.unbond old new ds.begin deltas do
          out.putStrLn v
        for v in pendingIdentityMonitor ds.begin.height old new do
          out.putStrLn v
        if haltExpected old ds.begin.signed ds.begin.height then
          out.putStrLn s!"VIOL C20 halt-vote-passed-but-node-continued height={ds.begin.height}"
      | none => pure ()
      -- BeginBlock is modelled only as "fee pool := 0"; anything else it changed is adopted from the live projection
      -- (which carries every part of the state the transaction model reads)
      match ds.model with
      | some m =>
        if keys.all (fun k => k == "app rewards") then ds := { ds with model := some { m with rewardsPool := 0 } }
        else ds := { ds with model := some (mergeProjection m d), staleOther := false }
      | none => ds := { ds with model := some (mergeProjection {} d), staleOther := false }
    else if kind == "live" then
      -- the live view right after InitChain (`updateValidators` recalculated stakes in memory; the `S init` export is the disk):
      -- the transaction model starts from what the node really holds
      match ds.model with
      | some _ => ds := { ds with model := some { (State.ofDump d) with rewardsPool := 0 } }
      | none => pure ()
    else if kind == "tx" then
      match ds.lastTx with
      | some lt =>
        for v in txMonitors ds.params lt chs dumpBefore ds.block ds.comTable do
          out.putStrLn v
        -- C26: the same signed bytes delivered again. A delivery "charges" when it changes the ledger at all (a rejected
        -- delivery may only move the failure fee, C03). After a success every later delivery must be free; the known defect
        -- F4 is a delivery that failed inside Run (fee taken, nonce unchanged) being charged again.
        let raw := kvGet lt.kvs "raw"
        let charged := chs.any (fun c => c.old != c.new)
        if raw != "" then
          let earlier := ds.seenRaw.filter (fun e => e.1 == raw)
          -- C04: the same signed bytes take effect at most once
          if lt.code == 0 && earlier.any (fun e => e.2.1 == 0) then
            out.putStrLn s!"VIOL C04 accepted-twice type={lt.t.typ} sender={toHexPad lt.t.sender 40} nonce={lt.t.nonce} deliveries={earlier.length + 1}"
          if charged then
            if earlier.any (fun e => e.2.1 == 0) then
              out.putStrLn s!"VIOL C26 charged-after-success type={lt.t.typ} code={lt.code} sender={toHexPad lt.t.sender 40} nonce={lt.t.nonce}"
            else if earlier.any (fun e => e.2.2) then
              out.putStrLn s!"VIOL C26 failed-tx-charged-again type={lt.t.typ} code={lt.code} first-code={(earlier.filter (fun e => e.2.2)).getLast?.map (·.2.1) |>.getD 0} deliveries={earlier.length + 1} sender={toHexPad lt.t.sender 40} nonce={lt.t.nonce} fail_fee={kvGet lt.kvs "tx.fail_fee"}"
          ds := { ds with seenRaw := (raw, lt.code, charged) :: ds.seenRaw }
        if lt.code == 0 then
          let ty := lt.t.typ
          let coinLine := words ((dumpBefore.get? s!"c {lt.t.nat "d.Coin"}").getD "")
          let sym := if ty == 28 then coinLine.headD "" else lt.t.str "d.Symbol"
          let (vs, tk) := ownerGate ds.tickers ty (toHexPad lt.t.sender 40) sym (if ty == 28 then coinLine.getD 1 "0" else "0") (lt.t.str "d.NewOwner")
          for v in vs do
            out.putStrLn v
          ds := { ds with tickers := tk }
        if lt.t.typ == 8 || lt.t.typ == 10 || lt.t.typ == 27 || lt.t.typ == 38 then
          for v in stakingTxMonitor ds.params (State.ofDump dumpBefore) (State.ofDump d) lt.t lt.code ds.block do
            out.putStrLn v
        ds := { ds with lastTx := none }
      | none => pure ()
      match ds.model with
      | some m =>
        if ds.pendingMerge then
          ds := { ds with model := some (mergeProjection m d), pendingMerge := false, touched := [] }
        else
          let mms := projMismatch m d (keys ++ ds.touched)
          for mm in mms do
            out.putStrLn s!"MISMATCH state {mm}"
          -- after a disagreement continue from the node's view, so that one defect is reported once
          if mms.isEmpty then ds := { ds with touched := [] }
          else ds := { ds with model := some (mergeProjection m d), touched := [] }
      | none => ds := { ds with model := some (mergeProjection {} d), pendingMerge := false, touched := [] }
    out.putStrLn "."
    out.flush
    loop h out ds
  | "B" :: _ =>
    let a := kv l
    let votes := (kvGet a "votes").splitOn "," |>.filterMap (fun x => match x.splitOn ":" with
      | [ad, sg] => some (hexNat ad, sg == "1")
      | _ => none)
    let byz := ((kvGet a "byz").splitOn ",").filter (· != "") |>.map hexNat
    let bi : BeginInfo := { height := natD (kvGet a "h"), byz := byz, signed := (votes.filter (·.2)).map (·.1), unsigned := (votes.filter (fun x => !x.2)).map (·.1) }
    out.putStrLn "."
    out.flush
    let breq : BeginReq := { height := natD (kvGet a "h"), votes := votes, byz := byz }
    loop h out { ds with block := natD (kvGet a "h"), nOps := ds.nOps + 1, begin := bi, breq := breq, keyEdited := false }
  | "X" :: "restart-live" :: key :: rest =>
    -- what the stopped process held in memory against what the restarted one holds (harness/restartlive.go)
    let a := kv (" ".intercalate rest)
    let val := fun k => let v := kvGet a k; if v == "absent" || v == "" then none else some (v.replace "_" " ")
    for v in restartViolations "live" (key.replace "_" " ") (val "before") (val "after") do
      out.putStrLn v
    out.putStrLn "."
    out.flush
    loop h out ds
  | "X" :: "divergence" :: rest =>
    out.putStrLn ("VIOL C09 cache-vs-disk " ++ " ".intercalate rest)
    out.putStrLn "."
    out.flush
    loop h out ds
  | "X" :: "viol" :: rest =>
    -- a monitor evaluated by the harness on the node's own observations (CheckTx changed the state; a ticker owner differs
    -- between memory and disk): `X viol Cxx what details…`
    out.putStrLn ("VIOL " ++ " ".intercalate rest)
    out.putStrLn "."
    out.flush
    loop h out ds
  | "K" :: _ =>
    let a := kv l
    out.putStrLn "."
    out.flush
    loop h out { ds with lastK := some (natD (kvGet a "code")) }
  | "H" :: _ =>
    -- the node halted in BeginBlock: it must be because strictly more than 2/3 of the present power voted for it
    if l.endsWith "halted" then
      let st := State.ofDump ds.dump
      if !(haltExpected st ds.begin.signed ds.begin.height) then
        out.putStrLn s!"VIOL C20 halted-without-two-thirds height={ds.begin.height}"
    out.putStrLn "."
    out.flush
    loop h out ds
  | "D" :: _ =>
    let a := kv l
    let goCode := natD (kvGet a "code")
    match ds.lastK with
    | some k =>
      if (k == 0) != (goCode == 0) && k != 113 && k != 114 && goCode != 999 then
        out.putStrLn s!"VIOL C06 checktx-delivertx-disagree check={k} deliver={goCode} type={kvGet a "typ"}"
    | none => pure ()
    let lastK := ds.lastK
    let mut ds := { ds with nOps := ds.nOps + 1, lastK := none, lastTx := some { t := TxIn.ofKV a, code := goCode, kvs := a },
                            keyEdited := ds.keyEdited || (goCode == 0 && kvGet a "typ" == "20") }
    match ds.model with
    | none => ds := { ds with nStaleSkipped := ds.nStaleSkipped + 1 }
    | some m =>
      let t := TxIn.ofKV a
      -- model gap: the node converts the ticker fee of CreateCoin/CreateToken AFTER the handler ran; when the price table is
      -- denominated in a custom coin and the commission was exchanged through that coin's pool, the conversion sees the moved
      -- pool, the model (tickerBurn on the state before the transaction) does not. Such deliveries are adopted, not compared.
      let gap := (t.typ == 5 || t.typ == 30) && priceCoin m != 0 && t.comCoin == priceCoin m
      let (ds', r) ← if gap then pure (ds, (Except.error (Stop.unmodelled "ticker fee converted after the commission moved the price-table pool") : Except Stop Outcome))
                     else runDeliver h out ds m t 12
      ds := ds'
      match r with
      | .error (.unmodelled w) =>
        out.putStrLn s!"INFO unmodelled why={w.replace " " "_"} type={t.typ} code={goCode}"
        ds := { ds with pendingMerge := true, nUnmodelled := ds.nUnmodelled + 1 }
      | .error (.need _) =>
        out.putStrLn s!"INFO unmodelled why=oracle-loop type={t.typ} code={goCode}"
        ds := { ds with pendingMerge := true, nUnmodelled := ds.nUnmodelled + 1 }
      | .error (.panic w) =>
        if goCode != 999 then out.putStrLn s!"MISMATCH panic model-predicts-panic={w} go-code={goCode} type={t.typ}"
        ds := { ds with pendingMerge := true, nModelled := ds.nModelled + 1 }
      | .ok o =>
        ds := { ds with nModelled := ds.nModelled + 1 }
        out.putStrLn s!"INFO modelled type={t.typ} code={o.code}"
        -- CheckTx (C06): the model's validation against the code the node's CheckTx answered on the same state
        match lastK with
        | some k =>
          let orc : Oracle := fun q => ds.oracle.lookup q
          match checkTx ds.params orc m ds.block t 1 false with
          | .ok ck => if ck != k then out.putStrLn s!"MISMATCH checktx model={ck} go={k} type={t.typ}"
          | .error _ => pure ()
        | none => pure ()
        if o.code != goCode then
          out.putStrLn s!"MISMATCH code model={o.code} go={goCode} type={t.typ}"
          ds := { ds with pendingMerge := true }
        else
          if !balancedB o.plan then out.putStrLn s!"FAULT unbalanced-plan type={t.typ} code={o.code}"
          match applyChecked m o.plan with
          | none =>
            out.putStrLn s!"FAULT plan-side-condition type={t.typ} code={o.code}"
            ds := { ds with pendingMerge := true }
          | some m' =>
            for (k, v) in o.tags do
              let g := kvGet a k
              if g != "" && g != v then out.putStrLn s!"MISMATCH tag {k} model={v} go={g} type={t.typ}"
            ds := { ds with model := some m', touched := o.plan.flatMap (primKeys m') }
    out.putStrLn "."
    out.flush
    loop h out ds
  | "Q" :: fn :: rest =>
    -- kernel correspondence: `Q fn args… = result-of-the-real-code`
    let args := rest.takeWhile (· != "=")
    let want := " ".intercalate (rest.dropWhile (· != "=") |>.drop 1)
    match evalQ fn args with
    | none => out.putStrLn s!"FAIL kernel-without-model {fn}"
    | some got =>
      if got != want then out.putStrLn s!"MISMATCH kernel {fn} {" ".intercalate args} model={got} go={want}"
    out.putStrLn "."
    out.flush
    loop h out { ds with nOps := ds.nOps + 1 }
  | _ =>
    out.putStrLn "."
    out.flush
    loop h out { ds with nOps := ds.nOps + 1 }

def main : IO Unit := do
  let stdin ← IO.getStdin
  let stdout ← IO.getStdout
  loop stdin stdout {}
