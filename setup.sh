#!/bin/bash
# Offline setup: build the Lean model/proofs/driver and the Go harness from files on disk.
set -e
cd "$(dirname "$0")"
export GOFLAGS=-mod=mod GOPROXY=off GOSUMDB=off GOTOOLCHAIN=local
mkdir -p bin replays evidence
(cd lean && lake build)
cp /repo/go.sum harness/go.sum
(cd harness && go build -tags verif -o ../bin/harness .)
# race-detector build of the same harness (C25: the loaded child of the concurrent mode); takes minutes when the build cache is cold
(cd harness && go build -race -tags verif -o ../bin/harness-race .)
echo setup-ok
