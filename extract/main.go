// extract: re-reads /repo's source on every run and regenerates facts the Lean proofs are checked against.
//   - every `for … range m` over a map in the state-mutating packages, with a syntactic order-insensitivity pattern
//   - the ordered list of app-DB calls in Blockchain.Commit
//   - a few constants
package main

import (
	"bytes"
	"flag"
	"fmt"
	"go/ast"
	"go/importer"
	"go/parser"
	"go/printer"
	"go/token"
	"go/types"
	"io"
	"os"
	"os/exec"
	"path/filepath"
	"sort"
	"strings"
)

type site struct {
	pkg, file, fn, expr, pattern string
	ord                          int
}

func exprStr(fset *token.FileSet, e ast.Node) string {
	var b bytes.Buffer
	printer.Fprint(&b, fset, e)
	return strings.Join(strings.Fields(b.String()), " ")
}

// classify the body of a range-over-map loop.
func classify(fset *token.FileSet, rs *ast.RangeStmt, fn *ast.FuncDecl) string {
	onlyAppend, commut, lookup := true, true, true
	appended := map[string]bool{}
	var walk func(stmts []ast.Stmt)
	walk = func(stmts []ast.Stmt) {
		for _, st := range stmts {
			switch s := st.(type) {
			case *ast.AssignStmt:
				isAppend := false
				if len(s.Rhs) == 1 {
					if c, ok := s.Rhs[0].(*ast.CallExpr); ok {
						if id, ok := c.Fun.(*ast.Ident); ok && id.Name == "append" && len(s.Lhs) == 1 {
							isAppend = true
							appended[exprStr(fset, s.Lhs[0])] = true
						}
					}
				}
				if !isAppend {
					onlyAppend = false
				}
				// commutative: x += …, m[k] = v, x = true/false/nil, counters
				ok := s.Tok == token.ADD_ASSIGN || s.Tok == token.SUB_ASSIGN
				if s.Tok == token.ASSIGN || s.Tok == token.DEFINE {
					ok = true
					for _, l := range s.Lhs {
						if _, isIdx := l.(*ast.IndexExpr); isIdx {
							continue
						}
						if s.Tok == token.DEFINE {
							continue
						}
						// plain assignment to an outer variable: order matters unless constant
						for _, r := range s.Rhs {
							if id, isId := r.(*ast.Ident); !(isId && (id.Name == "true" || id.Name == "false" || id.Name == "nil")) {
								ok = false
							}
						}
					}
				}
				if isAppend {
					ok = false
				}
				if !ok {
					commut = false
				}
				lookup = false
				if s.Tok == token.DEFINE {
					lookup = lookup || false
				}
			case *ast.ExprStmt:
				if c, ok := s.X.(*ast.CallExpr); ok {
					name := exprStr(fset, c.Fun)
					if strings.HasSuffix(name, ".RLock") || strings.HasSuffix(name, ".RUnlock") || strings.HasSuffix(name, ".Lock") || strings.HasSuffix(name, ".Unlock") {
						continue // taking a lock does not make the loop order-sensitive
					}
				}
				onlyAppend = false
				lookup = false
				// method calls: Add/Sub on accumulators, delete(), setters — accepted as commutative when named so
				if c, ok := s.X.(*ast.CallExpr); ok {
					name := exprStr(fset, c.Fun)
					last := name
					if i := strings.LastIndex(name, "."); i >= 0 {
						last = name[i+1:]
					}
					switch last {
					case "Add", "Sub", "delete", "Delete", "Store", "Lock", "Unlock", "RLock", "RUnlock", "Done", "Wait":
					default:
						commut = false
					}
				} else {
					commut = false
				}
			case *ast.IfStmt:
				if s.Init != nil {
					walk([]ast.Stmt{s.Init})
				}
				walk(s.Body.List)
				if s.Else != nil {
					if b, ok := s.Else.(*ast.BlockStmt); ok {
						walk(b.List)
					} else {
						walk([]ast.Stmt{s.Else})
					}
				}
			case *ast.BlockStmt:
				walk(s.List)
			case *ast.ReturnStmt:
				onlyAppend = false
				commut = false
			case *ast.BranchStmt: // continue / break
				if s.Tok == token.BREAK {
					commut = false
					onlyAppend = false
				}
			case *ast.IncDecStmt:
				onlyAppend = false
				lookup = false
			case *ast.DeclStmt:
			case *ast.RangeStmt, *ast.ForStmt, *ast.SwitchStmt, *ast.TypeSwitchStmt, *ast.DeferStmt, *ast.GoStmt:
				onlyAppend = false
				commut = false
				lookup = false
			default:
				onlyAppend = false
				commut = false
				lookup = false
			}
		}
	}
	walk(rs.Body.List)
	if len(rs.Body.List) == 0 {
		return "empty"
	}
	if onlyAppend && len(appended) > 0 {
		// is one of the appended slices sorted later in the same function?
		sorted := false
		ast.Inspect(fn.Body, func(n ast.Node) bool {
			if c, ok := n.(*ast.CallExpr); ok && c.Pos() > rs.End() {
				name := exprStr(fset, c.Fun)
				if strings.HasPrefix(name, "sort.") || strings.HasPrefix(name, "slices.Sort") {
					for _, a := range c.Args {
						if appended[exprStr(fset, a)] {
							sorted = true
						}
						// sort.Sort(wrapper(x))
						if cc, ok := a.(*ast.CallExpr); ok {
							for _, aa := range cc.Args {
								if appended[exprStr(fset, aa)] {
									sorted = true
								}
							}
						}
					}
				}
			}
			return true
		})
		if sorted {
			return "collect-then-sort"
		}
		return "collect-unsorted"
	}
	if commut {
		return "commutative"
	}
	if lookup {
		return "lookup"
	}
	return "other"
}

func main() {
	repo := flag.String("repo", "/repo", "repository")
	out := flag.String("out", "", "output dir for Gen/*.lean")
	flag.Parse()
	pkgs := []string{"coreV2/state", "coreV2/state/accounts", "coreV2/state/app", "coreV2/state/candidates", "coreV2/state/checker", "coreV2/state/checks",
		"coreV2/state/coins", "coreV2/state/commission", "coreV2/state/frozenfunds", "coreV2/state/halts", "coreV2/state/swap", "coreV2/state/update",
		"coreV2/state/validators", "coreV2/state/waitlist", "coreV2/minter", "coreV2/appdb", "coreV2/events", "coreV2/transaction", "tree"}
	fset := token.NewFileSet()
	// export data of every dependency from the build cache (same cache the harness build fills)
	exports := map[string]string{}
	{
		args := []string{"list", "-export", "-deps", "-tags", "verif", "-f", "{{.ImportPath}}\t{{.Export}}"}
		for _, rel := range pkgs {
			args = append(args, "./"+rel)
		}
		cmd := exec.Command("go", args...)
		cmd.Dir = *repo
		cmd.Stderr = os.Stderr
		outb, err := cmd.Output()
		if err != nil {
			fmt.Fprintln(os.Stderr, "go list failed:", err)
			os.Exit(1)
		}
		for _, l := range strings.Split(string(outb), "\n") {
			f := strings.Split(l, "\t")
			if len(f) == 2 && f[1] != "" {
				exports[f[0]] = f[1]
			}
		}
	}
	imp := importer.ForCompiler(fset, "gc", func(path string) (io.ReadCloser, error) {
		if e, ok := exports[path]; ok {
			return os.Open(e)
		}
		return nil, fmt.Errorf("no export data for %s", path)
	})
	var sites []site
	var commitCalls []string
	for _, rel := range pkgs {
		dir := filepath.Join(*repo, rel)
		parsed, err := parser.ParseDir(fset, dir, func(fi os.FileInfo) bool {
			n := fi.Name()
			return !strings.HasSuffix(n, "_test.go") && !strings.HasPrefix(n, "verif_")
		}, parser.ParseComments)
		if err != nil {
			fmt.Fprintln(os.Stderr, "parse", rel, err)
			os.Exit(1)
		}
		for _, p := range parsed {
			var files []*ast.File
			var names []string
			for n := range p.Files {
				names = append(names, n)
			}
			sort.Strings(names)
			for _, n := range names {
				files = append(files, p.Files[n])
			}
			info := &types.Info{Types: map[ast.Expr]types.TypeAndValue{}}
			conf := types.Config{Importer: imp, Error: func(error) {}}
			conf.Check("github.com/MinterTeam/minter-go-node/"+rel, fset, files, info)
			for i, f := range files {
				for _, d := range f.Decls {
					fn, ok := d.(*ast.FuncDecl)
					if !ok || fn.Body == nil {
						continue
					}
					fname := fn.Name.Name
					if fn.Recv != nil && len(fn.Recv.List) > 0 {
						fname = strings.TrimPrefix(exprStr(fset, fn.Recv.List[0].Type), "*") + "." + fname
					}
					ord := 0
					ast.Inspect(fn.Body, func(n ast.Node) bool {
						rs, ok := n.(*ast.RangeStmt)
						if !ok {
							return true
						}
						tv, ok := info.Types[rs.X]
						if !ok || tv.Type == nil {
							return true
						}
						if _, isMap := tv.Type.Underlying().(*types.Map); !isMap {
							return true
						}
						ord++
						sites = append(sites, site{pkg: rel, file: filepath.Base(names[i]), fn: fname, expr: exprStr(fset, rs.X), ord: ord, pattern: classify(fset, rs, fn)})
						return true
					})
					if rel == "coreV2/minter" && fname == "Blockchain.Commit" {
						ast.Inspect(fn.Body, func(n ast.Node) bool {
							if c, ok := n.(*ast.CallExpr); ok {
								name := exprStr(fset, c.Fun)
								if strings.HasPrefix(name, "blockchain.appDB.") || strings.HasPrefix(name, "blockchain.eventsDB.") || name == "blockchain.stateDeliver.Commit" || name == "blockchain.stateDeliver.Check" {
									commitCalls = append(commitCalls, strings.TrimPrefix(name, "blockchain."))
								}
							}
							return true
						})
					}
				}
			}
		}
	}
	sort.Slice(sites, func(i, j int) bool {
		a, b := sites[i], sites[j]
		if a.pkg != b.pkg {
			return a.pkg < b.pkg
		}
		if a.fn != b.fn {
			return a.fn < b.fn
		}
		return a.ord < b.ord
	})
	var b strings.Builder
	b.WriteString("/- GENERATED by /verif/extract from /repo's current source on every run. Do not edit. -/\nnamespace Minter.Gen\n\n")
	b.WriteString("/-- Every `for … range m` over a Go map in the state-mutating packages: (site id, syntactic pattern). -/\ndef rangeSites : List (String × String) := [\n")
	for i, s := range sites {
		sep := ","
		if i == len(sites)-1 {
			sep = ""
		}
		fmt.Fprintf(&b, "  (%q, %q)%s\n", fmt.Sprintf("%s:%s#%d:%s", s.pkg, s.fn, s.ord, s.expr), s.pattern, sep)
	}
	b.WriteString("]\n\n/-- Calls on the app DB / events DB / state inside `Blockchain.Commit`, in source order. -/\ndef commitCalls : List String := [")
	for i, c := range commitCalls {
		if i > 0 {
			b.WriteString(", ")
		}
		fmt.Fprintf(&b, "%q", c)
	}
	b.WriteString("]\n\nend Minter.Gen\n")
	if *out == "" {
		fmt.Print(b.String())
		return
	}
	os.MkdirAll(*out, 0o755)
	os.Remove(filepath.Join(*out, "Facts.lean"))
	if err := os.WriteFile(filepath.Join(*out, "Facts.lean"), []byte(b.String()), 0o644); err != nil {
		fmt.Fprintln(os.Stderr, err)
		os.Exit(1)
	}
	fmt.Printf("extract: %d map-range sites, %d commit calls\n", len(sites), len(commitCalls))
}
