#!/bin/bash
# Runs the repository's stable baseline (guard OFF) and compares with /root/.vp/BASELINE.json
export GOFLAGS=-mod=mod GOPROXY=off GOSUMDB=off GOTOOLCHAIN=local
OUT=${1:-/tmp/verif-baseline.json}
(cd /repo && go test -mod=mod -json -vet=off -count=1 -timeout 25m ./... > "$OUT" 2>/dev/null)
python3 - "$OUT" <<'PY'
import json,sys
base=json.load(open('/root/.vp/BASELINE.json'))
stable=set(base['stable_pass'])
passed=set()
for line in open(sys.argv[1]):
    try: e=json.loads(line)
    except Exception: continue
    if e.get('Action')=='pass' and e.get('Test'):
        passed.add(e['Package']+'::'+e['Test'])
missing=sorted(stable-passed)
print(f"baseline stable={len(stable)} passed_of_stable={len(stable&passed)} missing={len(missing)}")
for m in missing[:40]: print("  MISSING", m)
sys.exit(1 if missing else 0)
PY
