#!/bin/bash
# mutant_iso.sh <seeded-id> <prop> [<prop>...] : run checks against a seeded change in a private copy of /verif and a private
# worktree of /repo (neither /repo nor /verif is touched, so it can run next to other work). TIER=quick|thorough, SEED=n.
ID=$1; shift
SRC=${VERIF_SRC:-/verif}      # which copy of the framework to test (default: the real one)
D=/tmp/mt-$ID${MT_SUFFIX:-}
export GOFLAGS=-mod=mod GOPROXY=off GOSUMDB=off GOTOOLCHAIN=local
rm -rf $D; mkdir -p $D
git -C /repo worktree prune
git -C /repo worktree add -q $D/repo HEAD || exit 2
if [ "$ID" != "none" ]; then
  git -C $D/repo apply /verif/seeded/$ID/patch.diff || { echo "patch does not apply"; git -C /repo worktree remove --force $D/repo; exit 2; }
fi
rsync -a --exclude incoming --exclude replays --exclude .git $SRC/ $D/verif/
mkdir -p $D/verif/replays
sed -i "s#'/repo'#'$D/repo'#g; s#\"/repo\"#\"$D/repo\"#g; s#/repo/go.sum#$D/repo/go.sum#g" $D/verif/checklib/core.py
sed -i "s#=> /repo#=> $D/repo#" $D/verif/harness/go.mod $D/verif/extract/go.mod 2>/dev/null
sed -i "s#/verif/#$D/verif/#g" $D/verif/checklib/props.py
sed -i "s#=> /repo#=> $D/repo#; s#=> /tmp/[^ ]*/repo#=> $D/repo#" $D/verif/harness/go.mod
rm -f $D/verif/bin/extract.stamp
cd $D/verif
for P in "$@"; do
  timeout ${TIMEOUT:-3600} ./check $P --tier ${TIER:-quick} --seed ${SEED:-1} 2>/dev/null | grep -E "^(VIOLATION|OK|KNOWN)" | head -6 | sed "s/^/[$ID $P] /"
  # keep the first replay for inspection
  mkdir -p /tmp/mt-replays/$ID; cp -r $D/verif/replays/* /tmp/mt-replays/$ID/ 2>/dev/null; cp $D/verif/evidence/$P.json /tmp/mt-replays/$ID/evidence-$P.json 2>/dev/null
done
cd /
git -C /repo worktree remove --force $D/repo
rm -rf $D
