#!/bin/bash
# try_mutant.sh <seeded-id> <prop> [<prop>...] : apply a seeded change to /repo, run the given checks, undo it.
ID=$1; shift
cd /verif
git -C /repo diff --quiet || { echo "/repo is dirty"; exit 2; }
git -C /repo apply /verif/seeded/$ID/patch.diff || { echo "patch does not apply"; exit 2; }
trap 'git -C /repo checkout -- .' EXIT
for P in "$@"; do
  ./check $P --tier ${TIER:-quick} 2>/dev/null | grep -E "^(VIOLATION|OK|KNOWN)" | head -5 | sed "s/^/[$ID $P] /"
done
