#!/usr/bin/env python3
"""Regenerates /verif/MANIFEST.json from checklib/props.py (single source of truth for what is claimed)."""
import json, os, sys
ROOT = os.path.dirname(os.path.dirname(os.path.abspath(__file__)))
sys.path.insert(0, os.path.join(ROOT, 'checklib'))
import props

BASE_NOTE = ("Trusted: Lean 4.33 kernel (axioms propext, Classical.choice, Quot.sound only, audited per theorem on every run); "
             "the hand-written Lean model MinterModel, tied to /repo on every run by the correspondence harness (real code executed in-process, "
             "the Lean definitions the theorems are about executed on the same inputs by the native driver, any difference reported) and by facts "
             "regenerated from the source (lean/MinterModel/Gen); secp256k1/keccak and float code are oracles answered by the real code; "
             "Go runtime, math/big, IAVL, tm-db/goleveldb, Tendermint ABCI types are trusted libraries. ")

def main():
    ids = ['C%02d' % i for i in range(1, 30)]
    checks, na = [], []
    for pid in ids:
        P = props.PROPS.get(pid, {})
        if not P.get('registered'):
            na.append({'property_id': pid, 'reason': P.get('na_reason', 'not claimed yet: its theorem and correspondence tie are still being built (see DESIGN.md section 6 for the plan); no check is registered rather than registering one that decides nothing')})
            continue
        checks.append({
            'property_id': pid,
            'quick_cmd': './check %s --tier quick' % pid,
            'thorough_cmd': './check %s --tier thorough' % pid,
            'evidence_file': '/verif/evidence/%s.json' % pid,
            'replay_cmd_template': './tools/firstviol.py {path}',
            'engine': 'lean-model+go-harness',
            'level_claimed': {'category': P.get('level', 'proof'), 'text': P['claim'], 'design_ref': 'DESIGN.md section 6 ' + pid},
            'level_note': BASE_NOTE + P.get('note', ''),
            'technique': P.get('technique', 'Lean 4 proof over an executable model + differential correspondence with the real code'),
        })
    m = {
        'version': 1,
        'setup_cmd': './setup.sh',
        'hooks': {
            'guard': 'verif',
            'enable': 'go build -tags verif (the harness module replaces github.com/MinterTeam/minter-go-node with /repo)',
            'baseline_off_cmd': './tools/baseline.sh',
            'source_commits': props.HOOK_COMMITS,
            'add_only': True,
        },
        'engines': [{'name': 'lean-model+go-harness', 'path': '/verif/check', 'serves_properties': [c['property_id'] for c in checks],
                     'kind_free_text': 'Lean 4 model + theorems (lean/), Go correspondence harness driving the real node and kernels (harness/), go/ast fact extractor (extract/), python orchestration (checklib/)'}],
        'checks': checks,
        'not_applicable': na,
        'notes': 'Every check: ./check Cxx --tier quick|thorough. Known findings: known_findings.json. Seeded changes used to test the checks: seeded/.',
    }
    json.dump(m, open(os.path.join(ROOT, 'MANIFEST.json'), 'w'), indent=1)
    print('MANIFEST: %d checks, %d not claimed' % (len(checks), len(na)))

if __name__ == '__main__':
    main()
