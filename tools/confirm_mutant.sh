#!/bin/bash
# confirm_mutant.sh <worktree> <seeded-id> <property> : verifies a candidate breaking change and stores it under /verif/seeded/<id>/
# (build ok; stable baseline tests still pass with the change; demo fails with it and passes without it)
set -u
WT=$1; ID=$2; PROP=$3
export GOFLAGS=-mod=mod GOPROXY=off GOSUMDB=off GOTOOLCHAIN=local
cd $WT || exit 2
DEMO=$(ls tests/demo_mutant*_test.go */demo_mutant*_test.go coreV2/*/demo_mutant*_test.go coreV2/*/*/demo_mutant*_test.go coreV2/*/*/*/demo_mutant*_test.go 2>/dev/null | head -1)
[ -z "$DEMO" ] && { echo "no demo test found"; exit 2; }
PKG=./$(dirname $DEMO)/
RUN=$(grep -o "func Test[A-Za-z0-9_]*" $DEMO | head -1 | sed 's/func //' | sed 's/_.*//')
mv DEMO_TEST.go DEMO_TEST.go.txt 2>/dev/null
git diff -- . ':(exclude)*_test.go' > /tmp/confirm_$ID.diff
[ -s /tmp/confirm_$ID.diff ] || { echo "empty diff"; exit 2; }
echo "== diff"; cat /tmp/confirm_$ID.diff | head -40
go build ./... || { echo "BUILD FAILED"; exit 1; }
echo "== demo WITH change (expect FAIL)"
go test -count=1 $PKG -run "$RUN" > /tmp/confirm_$ID.with.log 2>&1; W=$?
tail -5 /tmp/confirm_$ID.with.log
git apply -R /tmp/confirm_$ID.diff || exit 2
echo "== demo WITHOUT change (expect PASS)"
go test -count=1 $PKG -run "$RUN" > /tmp/confirm_$ID.without.log 2>&1; WO=$?
tail -3 /tmp/confirm_$ID.without.log
git apply /tmp/confirm_$ID.diff || exit 2
echo "with=$W without=$WO"
[ $W -ne 0 ] && [ $WO -eq 0 ] || { echo "DEMO DOES NOT DISCRIMINATE"; exit 1; }
echo "== stable baseline with the change (demo moved aside)"
mv $DEMO /tmp/confirm_$ID.demo.go
go test -mod=mod -json -vet=off -count=1 -timeout 25m ./... > /tmp/confirm_$ID.json 2>/dev/null
mv /tmp/confirm_$ID.demo.go $DEMO
python3 - /tmp/confirm_$ID.json <<'PY' || exit 1
import json,sys
base=json.load(open('/root/.vp/BASELINE.json')); stable=set(base['stable_pass']); passed=set()
for line in open(sys.argv[1]):
    try: e=json.loads(line)
    except Exception: continue
    if e.get('Action')=='pass' and e.get('Test'): passed.add(e['Package']+'::'+e['Test'])
missing=sorted(stable-passed)
print("stable passed %d/%d"%(len(stable&passed),len(stable)))
for m in missing[:10]: print("  MISSING",m)
sys.exit(1 if missing else 0)
PY
mkdir -p /verif/seeded/$ID
cp /tmp/confirm_$ID.diff /verif/seeded/$ID/patch.diff
cp $DEMO /verif/seeded/$ID/$(basename $DEMO).txt
cp MUTANT.md /verif/seeded/$ID/notes.md 2>/dev/null
python3 - <<PY
import json
json.dump({"id":"$ID","property":"$PROP","demo":"$DEMO","demo_cmd":"go test -count=1 $PKG -run $RUN","confirmed":{"build":"ok","demo_with_change":"FAIL","demo_without_change":"PASS","stable_baseline_with_change":"729/729"},"needs":"see notes.md","checks_that_catch_it":[]}, open('/verif/seeded/$ID/meta.json','w'), indent=1)
PY
echo CONFIRMED $ID
