#!/usr/bin/env python3
"""Show the block that contains the first VIOL/MISMATCH/FAIL verdict of a trace."""
import subprocess, sys
import os
path = sys.argv[1]
maxw = int(sys.argv[2]) if len(sys.argv) > 2 else 300
ROOT = os.path.dirname(os.path.dirname(os.path.abspath(__file__)))
DRIVER = os.path.join(ROOT, 'lean', '.lake', 'build', 'bin', 'driver')
HARNESS = os.path.join(ROOT, 'bin', 'harness')
# replay files of the special modes: re-run the real code on the recorded scenario
if path.endswith('.replay'):      # events store op sequence (C24)
    sys.exit(subprocess.run([HARNESS, 'events', '-trace', path, '-driver', DRIVER, '-out', '-']).returncode)
if path.endswith('.history'):     # order-book history (C13/C14)
    sys.exit(subprocess.run([HARNESS, 'orders-replay', '-trace', path, '-driver', DRIVER, '-out', '-']).returncode)
if not path.endswith('.trace'):   # textual report of a mode (crash point, restart twin, export, snapshot, concurrent, proof breakage)
    print(open(path, errors='replace').read()[:20000]); sys.exit(0)
t = open(path).read().split('\n')
out = subprocess.run([DRIVER], input='\n'.join(t), capture_output=True, text=True).stdout.split('\n')
opi = 0; first = None; msgs = []
for l in out:
    if l == '.': opi += 1
    elif l.startswith(('VIOL', 'MISMATCH', 'FAIL')):
        if first is None: first = opi
        if opi == first: msgs.append(l)
i = 0; starts = []
while i < len(t):
    if t[i].startswith('!'):
        i += 1
        continue
    starts.append(i)
    if t[i].startswith('S '):
        while i < len(t) and t[i] != '.': i += 1
    i += 1
if first is None:
    print("no violation"); sys.exit(0)
for m in msgs: print(m)
b = starts[first]
while b > 0 and not t[b].startswith('B '): b -= 1
end = starts[first + 1] if first + 1 < len(starts) else len(t)
for l in t[b:end]: print(l[:maxw])
