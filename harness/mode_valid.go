package main

// Mode "valid": validator set and rewards (C17, C19).
//
// Every case builds a genesis (candidates with chosen stakes/commissions/statuses, delegators with locked stakes,
// validators with chosen accumulated rewards and absence bits), starts the REAL node on it (InitChain) and runs three
// blocks through the ABCI calls:   h ≡ 10 (accrual), h ≡ 11 (accrual, sometimes a validator is dropped for absence →
// validator-set update in the middle of a period), h ≡ 0 mod 12 (accrual + payout + validator-set update).
// All inputs of a `Q` line are read from the node's previous export / genesis, all results from the node's observable
// output (ResponseInitChain / ResponseEndBlock validator updates, events DB, next export, emission counter).
// The Lean functions of MinterModel/Validators.lean (the ones C17/C19 are proved about) must predict them exactly.

import (
	"encoding/hex"
	"fmt"
	"math/big"
	"math/rand"
	"os"
	"sort"
	"strings"
	"sync"
	"time"

	eventsdb "github.com/MinterTeam/minter-go-node/coreV2/events"
	tx "github.com/MinterTeam/minter-go-node/coreV2/transaction"
	"github.com/MinterTeam/minter-go-node/coreV2/dao"
	"github.com/MinterTeam/minter-go-node/coreV2/developers"
	"github.com/MinterTeam/minter-go-node/coreV2/types"
	"github.com/MinterTeam/minter-go-node/crypto"
	"github.com/MinterTeam/minter-go-node/rlp"
	abci "github.com/tendermint/tendermint/abci/types"
)

const (
	validH0     = 10200010 // ≡ 10 mod 12, above the LockStake gate
	validPeriod = 12
	maxU64      = "18446744073709551615"
	emissionCap = "10000000000000000000000000000"
)

type vCase struct {
	lines []string
	viols []string // harness-side consistency failures and unexpected panics: "Cxx message"
	crash string
	stats map[string]int
	shape string
}

func hexA(a types.Address) string { return hex.EncodeToString(a[:]) }

func detAddr(tag, i int) types.Address {
	h := crypto.Keccak256([]byte(fmt.Sprintf("valid-addr-%d-%d", tag, i)))
	var a types.Address
	copy(a[:], h[:20])
	return a
}

func validJoinOr(l []string, sep string) string {
	if len(l) == 0 {
		return "-"
	}
	return strings.Join(l, sep)
}

var e18 = bi("1000000000000000000")

func isPrime(n int64) bool {
	if n < 2 {
		return false
	}
	for d := int64(2); d*d <= n; d++ {
		if n%d == 0 {
			return false
		}
	}
	return true
}

func nextPrime(n int64) int64 {
	for !isPrime(n) {
		n++
	}
	return n
}

// stakeVector: total stake per candidate for one of the named shapes.
func stakeVector(r *rand.Rand, nc int, shape string) []*big.Int {
	out := make([]*big.Int, nc)
	min := pip(1000)
	for i := range out {
		switch shape {
		case "primes":
			p := nextPrime(1000 + int64(r.Intn(100000)))
			out[i] = new(big.Int).Mul(big.NewInt(p), e18)
			if r.Intn(3) == 0 {
				out[i].Add(out[i], big.NewInt(nextPrime(int64(r.Intn(1000000)))))
			}
		case "ones":
			out[i] = big.NewInt(1)
			if r.Intn(4) == 0 {
				out[i] = new(big.Int).Set(min)
			}
		case "equal":
			out[i] = pip(5000)
		case "levels":
			out[i] = pip(int64(1000 * (1 + r.Intn(3))))
		case "spread":
			out[i] = new(big.Int).Exp(big.NewInt(10), big.NewInt(int64(r.Intn(31))), nil)
			if r.Intn(3) == 0 {
				out[i].Add(out[i], big.NewInt(int64(r.Intn(3)-1)))
			}
			if out[i].Sign() <= 0 {
				out[i] = big.NewInt(1)
			}
		case "edge":
			out[i] = new(big.Int).Add(min, big.NewInt(int64(r.Intn(3)-1)))
		default:
			out[i] = new(big.Int).Add(pip(int64(1000+r.Intn(100000))), big.NewInt(int64(r.Intn(1000000))))
			if r.Intn(10) == 0 {
				out[i] = pip(int64(1 + r.Intn(999)))
			}
		}
	}
	return out
}

// split a total into k positive parts.
func splitTotal(r *rand.Rand, total *big.Int, k int) []*big.Int {
	if k <= 1 || total.Cmp(big.NewInt(int64(k))) < 0 {
		return []*big.Int{new(big.Int).Set(total)}
	}
	rest := new(big.Int).Set(total)
	var parts []*big.Int
	for i := 0; i < k-1; i++ {
		max := new(big.Int).Sub(rest, big.NewInt(int64(k-1-i)))
		p := new(big.Int).Rand(r, max)
		if r.Intn(4) == 0 {
			p = new(big.Int).Rand(r, big.NewInt(1000))
			if p.Cmp(max) >= 0 {
				p = big.NewInt(0)
			}
		}
		p.Add(p, big.NewInt(1))
		parts = append(parts, p)
		rest.Sub(rest, p)
	}
	parts = append(parts, rest)
	return parts
}

type vWorld struct {
	r        *rand.Rand
	gen      types.AppState
	idOf     map[types.Pubkey]int
	pkOf     map[int]types.Pubkey
	lock     map[types.Address]uint64
	dropID   int // candidate id prepared to be dropped for absence in block 2 (0 = none)
	capped   bool
	override bool
	calc     *big.Int
	safe     *big.Int
	senderK  int
}

func stakeTok(s types.Stake) string {
	return fmt.Sprintf("%s:%d:%s:%s", hexA(s.Owner), s.Coin, s.Value, s.BipValue)
}

func stakesTok(l []types.Stake) string {
	var t []string
	for _, s := range l {
		t = append(t, stakeTok(s))
	}
	return validJoinOr(t, ",")
}

func buildValidGenesis(seed int64, r *rand.Rand, tier string, c *vCase) *vWorld {
	w := &vWorld{r: r, idOf: map[types.Pubkey]int{}, pkOf: map[int]types.Pubkey{}, lock: map[types.Address]uint64{}}
	st := types.AppState{Note: "verif-valid", TotalSlashed: "0", MaxGas: 100000, NextOrderID: 1}
	st.Emission = "1000000000000000000000000"
	if r.Intn(12) == 0 {
		st.Emission = emissionCap
		w.capped = true
	}
	rew := []string{"74000000000000000000", "0", "1", "999", "333000000000000000000"}[r.Intn(5)]
	if r.Intn(3) == 0 {
		rew = randBig(r, 22).String()
	}
	st.PrevReward = types.RewardPrice{Time: 0, AmountBIP: "350", AmountUSDT: "1", Off: false, Reward: rew}
	st.Version = "v300"
	st.Versions = []types.Version{{Height: 1, Name: "v300"}, {Height: 2, Name: "v310"}, {Height: 3, Name: "v320"}, {Height: 4, Name: "v330"}}
	st.Commission = defaultCommission()

	// delegators with lock heights around the payout block (validH0+2)
	nd := 4 + r.Intn(10)
	var dels []types.Address
	for i := 0; i < nd; i++ {
		k := detKey(seed, i)
		a := crypto.PubkeyToAddress(k.PublicKey)
		dels = append(dels, a)
		lk := []uint64{0, 0, validH0 + 2, validH0 + 3, validH0 + 1000, validH0 - 5}[r.Intn(6)]
		w.lock[a] = lk
		st.Accounts = append(st.Accounts, types.Account{Address: a, Nonce: 0, LockStakeUntilBlock: lk,
			Balance: []types.Balance{{Coin: 0, Value: pip(100000).String()}}})
	}

	// number of candidates
	var nc int
	switch r.Intn(8) {
	case 0:
		nc = 1 + r.Intn(3)
	case 1:
		nc = 62 + r.Intn(6) // crossing 64
	case 2:
		if tier == "thorough" {
			nc = 98 + r.Intn(40) // crossing 100: pruning
		} else {
			nc = 30 + r.Intn(41)
		}
	default:
		nc = 1 + r.Intn(70)
	}
	if tier == "thorough" && r.Intn(6) == 0 {
		nc = 99 + r.Intn(12)
	}
	shape := []string{"random", "primes", "ones", "equal", "levels", "spread", "edge", "random"}[r.Intn(8)]
	c.shape = fmt.Sprintf("%s/%d", shape, (nc+9)/10*10)
	totals := stakeVector(r, nc, shape)
	// an empty selection stops Tendermint (and the node does not persist an empty validator list, see INTEGRATION.md):
	// normally two candidates are made to qualify; 1 case in 50 keeps whatever the shape gives and only checks InitChain
	forced := map[int]bool{}
	if r.Intn(50) != 0 {
		for k := 0; k < 2; k++ {
			i := r.Intn(nc)
			forced[i] = true
			if totals[i].Cmp(pip(1000)) < 0 {
				totals[i] = new(big.Int).Add(totals[i], pip(1000))
			}
		}
	}

	// one candidate with (almost) full slots
	fullIdx := -1
	pFull := 15
	if tier == "thorough" {
		pFull = 5
	}
	if r.Intn(pFull) == 0 {
		fullIdx = r.Intn(nc)
		for forced[fullIdx] && nc > 2 {
			fullIdx = r.Intn(nc)
		}
		c.stats["full-slot-candidates"]++
	}

	for i := 0; i < nc; i++ {
		pk := detPub(seed, i)
		id := i + 1
		w.idOf[pk] = id
		w.pkOf[id] = pk
		com := uint64(r.Intn(101))
		switch r.Intn(6) {
		case 0:
			com = 0
		case 1:
			com = 100
		}
		cd := types.Candidate{ID: uint64(id), RewardAddress: dels[r.Intn(nd)], OwnerAddress: dels[r.Intn(nd)], ControlAddress: dels[r.Intn(nd)],
			PubKey: pk, Commission: com, Status: 2}
		if r.Intn(3) == 0 {
			cd.RewardAddress = detAddr(1, id) // an address that holds no stake
		}
		if r.Intn(7) == 0 && !forced[i] {
			cd.Status = 1
		}
		if i == fullIdx {
			ns := []int{998, 999, 1000, 1000, 1000, 1001, 1003}[r.Intn(7)]
			base := pip(int64(2 + r.Intn(5)))
			mode := r.Intn(4)
			minPos := r.Intn(ns)
			for k := 0; k < ns; k++ {
				v := new(big.Int).Set(base)
				switch mode {
				case 0: // all equal: the first slot is the smallest
				case 1: // increasing
					v.Add(v, big.NewInt(int64(k)))
				case 2: // one or two minima somewhere
					v.Add(v, big.NewInt(int64(10+r.Intn(1000))))
					if k == minPos || (k == (minPos+500)%ns && r.Intn(2) == 0) {
						v = new(big.Int).Set(base)
					}
				default:
					v.Add(v, big.NewInt(int64(r.Intn(4))))
				}
				cd.Stakes = append(cd.Stakes, types.Stake{Owner: detAddr(2, k), Coin: 0, Value: v.String(), BipValue: v.String()})
			}
			// the smallest value among the first 1000
			sm := bi(cd.Stakes[0].Value)
			lim := ns
			if lim > 1000 {
				lim = 1000
			}
			for _, s := range cd.Stakes[:lim] {
				if bi(s.Value).Cmp(sm) < 0 {
					sm = bi(s.Value)
				}
			}
			nu := 1 + r.Intn(4)
			for k := 0; k < nu; k++ {
				v := new(big.Int).Add(sm, big.NewInt(int64(r.Intn(5)-2)))
				if r.Intn(4) == 0 {
					v = pip(int64(1 + r.Intn(20)))
				}
				if v.Sign() <= 0 {
					v = big.NewInt(1)
				}
				ow := detAddr(3, k)
				if r.Intn(5) == 0 {
					ow = detAddr(2, r.Intn(ns)) // an existing delegator: merged, no slot needed
				}
				b := v.String()
				if r.Intn(3) == 0 {
					b = randBig(r, 20).String() // stale bip value: only the order of the updates depends on it
				}
				cd.Updates = append(cd.Updates, types.Stake{Owner: ow, Coin: 0, Value: v.String(), BipValue: b})
			}
		} else {
			parts := splitTotal(r, totals[i], 1+r.Intn(4))
			perm := r.Perm(nd)
			for k, p := range parts {
				if k >= nd {
					break
				}
				cd.Stakes = append(cd.Stakes, types.Stake{Owner: dels[perm[k]], Coin: 0, Value: p.String(), BipValue: p.String()})
			}
			if r.Intn(5) < 2 {
				nu := 1 + r.Intn(3)
				for k := 0; k < nu; k++ {
					v := posBig(r, 21)
					if r.Intn(6) == 0 {
						v = big.NewInt(0)
					}
					b := v.String()
					if r.Intn(2) == 0 {
						b = randBig(r, 21).String()
					}
					cd.Updates = append(cd.Updates, types.Stake{Owner: dels[r.Intn(nd)], Coin: 0, Value: v.String(), BipValue: b})
				}
			}
		}
		tot := big.NewInt(0)
		for _, s := range cd.Stakes {
			tot.Add(tot, bi(s.Value))
		}
		cd.TotalBipStake = tot.String()
		st.Candidates = append(st.Candidates, cd)
	}

	// genesis validators: any subset (also unqualified ones), arbitrary recorded stake, chosen accumulated rewards
	pv := []int{0, 30, 60, 90, 100}[r.Intn(5)]
	for i := 0; i < nc; i++ {
		if r.Intn(100) >= pv {
			continue
		}
		cd := st.Candidates[i]
		acc := "0"
		switch r.Intn(5) {
		case 0:
			acc = "1"
		case 1:
			acc = randBig(r, 24).String()
		case 2:
			acc = new(big.Int).Mul(big.NewInt(nextPrime(int64(r.Intn(100000)))), e18).String()
		case 3:
			acc = pip(int64(r.Intn(5000))).String()
		}
		ts := cd.TotalBipStake
		if r.Intn(4) == 0 {
			ts = randBig(r, 25).String()
		}
		st.Validators = append(st.Validators, types.Validator{TotalBipStake: ts, PubKey: cd.PubKey, AccumReward: acc, AbsentTimes: types.NewBitArray(24)})
	}
	// prepare one validator to cross the absence threshold in block 2
	if len(st.Validators) > 0 && r.Intn(4) == 0 {
		vi := r.Intn(len(st.Validators))
		set := 0
		for b := 0; b < 24 && set < 12; b++ {
			if b == validH0%24 || b == (validH0+1)%24 || b == (validH0+2)%24 {
				continue
			}
			st.Validators[vi].AbsentTimes.SetIndex(b, true)
			set++
		}
		w.dropID = w.idOf[st.Validators[vi].PubKey]
	}
	// the reward pair (calc, safe): the genesis import sets both to PrevReward.Reward; in real runs UpdatePriceFix keeps calc ≤ safe
	if !w.capped && r.Intn(2) == 0 {
		w.override = true
		w.safe = posBig(r, 22)
		w.calc = new(big.Int).Rand(r, new(big.Int).Add(w.safe, big.NewInt(1)))
		switch r.Intn(5) {
		case 0:
			w.calc = big.NewInt(0) // "off" mode after a price drop
		case 1:
			w.calc = new(big.Int).Set(w.safe)
		case 2: // up to 3·safe: still no negative tax difference
			w.calc = new(big.Int).Rand(r, new(big.Int).Add(new(big.Int).Mul(w.safe, big.NewInt(3)), big.NewInt(1)))
		}
	}
	w.gen = st
	return w
}

func (w *vWorld) sendTx(n *Node, seed int64, nonce uint64, gasPrice uint32) []byte {
	k := detKey(seed, 0)
	data := tx.SendData{Coin: 0, To: detAddr(9, int(nonce)), Value: big.NewInt(int64(1 + w.r.Intn(1000)))}
	bData, _ := rlp.EncodeToBytes(data)
	t0 := tx.Transaction{Nonce: nonce, ChainID: types.CurrentChainID, GasPrice: gasPrice, GasCoin: 0, Type: tx.TypeSend, Data: bData, SignatureType: tx.SigTypeSingle}
	if err := t0.Sign(k); err != nil {
		panic(err)
	}
	raw, _ := rlp.EncodeToBytes(t0)
	return raw
}

// one exported view with lookups
type vView struct {
	st      types.AppState
	cand    map[int]types.Candidate
	lock    map[types.Address]uint64
	slashed *big.Int
}

func (w *vWorld) view(st types.AppState) *vView {
	v := &vView{st: st, cand: map[int]types.Candidate{}, lock: map[types.Address]uint64{}, slashed: bi(st.TotalSlashed)}
	for _, c := range st.Candidates {
		v.cand[int(c.ID)] = c
	}
	for _, a := range st.Accounts {
		v.lock[a.Address] = a.LockStakeUntilBlock
	}
	return v
}

func (w *vWorld) valIDs(st types.AppState) []string {
	var l []string
	for _, v := range st.Validators {
		l = append(l, fmt.Sprint(w.idOf[v.PubKey]))
	}
	return l
}

func (w *vWorld) candToks(st types.AppState, extra []string) string {
	var l []string
	for _, c := range st.Candidates {
		l = append(l, fmt.Sprintf("%d:%d:%s", c.ID, c.Status, c.TotalBipStake))
	}
	l = append(l, extra...)
	return validJoinOr(l, ",")
}

func (w *vWorld) updToks(ups []abci.ValidatorUpdate) []string {
	var l []string
	for _, u := range ups {
		var pk types.Pubkey
		copy(pk[:], u.PubKey.GetEd25519())
		l = append(l, fmt.Sprintf("%d:%d", w.idOf[pk], u.Power))
	}
	return l
}

type blockObs struct {
	toDrop map[types.Pubkey]bool // `IsToDrop()` of the live validators after BeginBlock
	resp   abci.ResponseEndBlock
	events eventsdb.Events
	fees   *big.Int
	pan    string
}

func (w *vWorld) runBlock(n *Node, seed int64, h uint64, votes []Vote, nonce *uint64) blockObs {
	o := blockObs{fees: big.NewInt(0)}
	if p := n.Begin(h, time.Unix(1700000000+int64(h-validH0)*5, 0).UTC(), votes, nil); p != "" {
		o.pan = "BeginBlock: " + p
		return o
	}
	o.toDrop = map[types.Pubkey]bool{}
	for _, v := range n.Live().Validators.GetValidators() {
		if v.IsToDrop() {
			o.toDrop[v.PubKey] = true
		}
	}
	if w.r.Intn(5) < 2 {
		k := 1 + w.r.Intn(2)
		for i := 0; i < k; i++ {
			gp := uint32(1 + w.r.Intn(5))
			resp, p := n.Deliver(w.sendTx(n, seed, *nonce+1, gp))
			if p != "" {
				o.pan = "DeliverTx: " + p
				return o
			}
			if resp.Code == 0 {
				*nonce++
				for _, ev := range resp.Events {
					for _, a := range ev.Attributes {
						if string(a.Key) == "tx.commission_in_base_coin" {
							o.fees.Add(o.fees, bi(string(a.Value)))
						}
					}
				}
			}
		}
	}
	var p string
	o.resp, p = n.End(h)
	if p != "" {
		o.pan = "EndBlock: " + p
		return o
	}
	if _, p := n.Commit(); p != "" {
		o.pan = "Commit: " + p
		return o
	}
	o.events = n.App.GetEventsDB().LoadEvents(uint32(h))
	return o
}

// votes for the current validators: signed / absent / not listed
func (w *vWorld) votesFor(st []types.Pubkey, forceAbsent int, forceSigned int) (votes []Vote, present []string) {
	mode := w.r.Intn(6)
	for _, pk := range st {
		id := w.idOf[pk]
		signed, listed := true, true
		switch mode {
		case 0: // everybody signs
		case 1: // nobody is listed
			listed = false
		default:
			x := w.r.Intn(10)
			signed = x < 7
			listed = x < 9
		}
		if id == forceAbsent {
			signed, listed = false, true
		}
		if id == forceSigned {
			signed, listed = true, true
		}
		if !listed {
			continue
		}
		votes = append(votes, Vote{Addr: tmAddrOf(pk), Signed: signed})
		if signed {
			present = append(present, fmt.Sprint(id))
		}
	}
	return
}

func pubkeysOf(vals []types.Validator) []types.Pubkey {
	var l []types.Pubkey
	for _, v := range vals {
		l = append(l, v.PubKey)
	}
	return l
}

func (c *vCase) q(format string, a ...interface{}) {
	c.lines = append(c.lines, "Q "+fmt.Sprintf(format, a...))
}

// slot Q lines for every candidate that exists in both views; `extra` = additional updates per candidate id (reward payments)
func (w *vWorld) slotQs(c *vCase, before map[int]types.Candidate, after *vView, ev eventsdb.Events, extra map[int][]types.Stake, removed map[int]bool, frozenAfter []types.FrozenFund) {
	kicks := map[int][]string{}
	kickSum := map[string]*big.Int{}
	for _, e := range ev {
		if k, ok := e.(*eventsdb.StakeKickEvent); ok {
			id := w.idOf[k.ValidatorPubKey]
			kicks[id] = append(kicks[id], fmt.Sprintf("%s:%d:%s", hexA(k.Address), k.Coin, k.Amount))
			key := fmt.Sprintf("%d/%s/%d", id, hexA(k.Address), k.Coin)
			if kickSum[key] == nil {
				kickSum[key] = big.NewInt(0)
			}
			kickSum[key].Add(kickSum[key], bi(k.Amount))
		}
	}
	var ids []int
	for id := range before {
		ids = append(ids, id)
	}
	sort.Ints(ids)
	for _, id := range ids {
		b := before[id]
		stakes := b.Stakes
		ups := append([]types.Stake{}, b.Updates...)
		if len(stakes) > 1000 {
			ups = append(ups, stakes[1000:]...)
			stakes = stakes[:1000]
		}
		ups = append(ups, extra[id]...)
		if removed[id] {
			// pruned after the recalculation: all slots are unbonded with their full value
			var fr []string
			for _, f := range frozenAfter {
				if int(f.CandidateID) == id {
					fr = append(fr, fmt.Sprintf("%s:%d:%s", hexA(f.Address), f.Coin, f.Value))
				}
			}
			c.q("unbond 1000 %s %s = %s;%s", stakesTok(stakes), stakesTok(ups), validJoinOr(fr, ","), validJoinOr(kicks[id], ","))
			c.stats["q-unbond"]++
			continue
		}
		a, ok := after.cand[id]
		if !ok {
			c.viols = append(c.viols, fmt.Sprintf("C17 candidate %d vanished without a RemoveCandidateEvent", id))
			continue
		}
		if len(a.Updates) != 0 {
			c.viols = append(c.viols, fmt.Sprintf("C17 candidate %d keeps %d pending updates after a recalculation", id, len(a.Updates)))
		}
		c.q("slot 1000 %s %s = %s;%s;%s", stakesTok(stakes), stakesTok(ups), stakesTok(a.Stakes), validJoinOr(kicks[id], ","), a.TotalBipStake)
		c.stats["q-slot"]++
		if len(ups) > 0 {
			c.stats["q-slot-with-updates"]++
		}
		if len(kicks[id]) > 0 {
			c.stats["slot-kicks"] += len(kicks[id])
		}
	}
	// the waitlist holds what the kick events say (full coin value)
	wl := map[string]*big.Int{}
	for _, x := range after.st.Waitlist {
		wl[fmt.Sprintf("%d/%s/%d", x.CandidateID, hexA(x.Owner), x.Coin)] = bi(x.Value)
	}
	for k, v := range kickSum {
		if wl[k] == nil || wl[k].Cmp(v) < 0 {
			c.viols = append(c.viols, fmt.Sprintf("C17 kicked stake %s value %s is not on the waitlist (waitlist has %v)", k, v, wl[k]))
		}
	}
}

func removedIDs(w *vWorld, ev eventsdb.Events) (order []string, set map[int]bool) {
	set = map[int]bool{}
	for _, e := range ev {
		if k, ok := e.(*eventsdb.RemoveCandidateEvent); ok {
			id := w.idOf[k.CandidatePubKey]
			order = append(order, fmt.Sprint(id))
			set[id] = true
		}
	}
	return
}

func runValidCase(seed int64, tier string) (c *vCase) {
	c = &vCase{stats: map[string]int{}}
	defer func() {
		if r := recover(); r != nil {
			c.crash = fmt.Sprintf("harness panic: %v", r)
		}
	}()
	r := rand.New(rand.NewSource(seed))
	w := buildValidGenesis(seed, r, tier, c)
	n, err := NewNode(w.gen, NodeOpts{Period: validPeriod, InitialHeight: validH0})
	if err != nil {
		c.viols = append(c.viols, "C07 InitChain failed: "+err.Error())
		return c
	}
	defer n.Destroy()
	if w.override {
		n.Live().App.SetReward(w.calc, w.safe)
	}
	calc, safe := n.Live().App.Reward()
	calc, safe = new(big.Int).Set(calc), new(big.Int).Set(safe)
	genView := w.view(w.gen)
	nonce := uint64(0)

	// ---------- block 1 (h ≡ 10): accrual only; the events of the block carry what Import/InitChain did
	initIDs := w.updToks(n.InitVals)
	var curSet []types.Pubkey
	for _, u := range n.InitVals {
		var pk types.Pubkey
		copy(pk[:], u.PubKey.GetEd25519())
		curSet = append(curSet, pk)
	}
	votes1, present1 := w.votesFor(curSet, 0, w.dropID)
	o1 := w.runBlock(n, seed, validH0, votes1, &nonce)
	if o1.pan != "" {
		c.viols = append(c.viols, "C07 unexpected panic in block 1: "+o1.pan)
		return c
	}
	e1s, p := n.Export()
	if p != "" {
		c.viols = append(c.viols, "C07 export failed: "+p)
		return c
	}
	E1 := w.view(e1s)
	remOrder1, remSet1 := removedIDs(w, o1.events)
	// Import prunes with the state height 0: the frozen funds of the removed candidates are due at block 0+unbond, which an
	// InitialHeight above it never reaches (reported below); read them from the node's state to check their values all the same.
	frozen1 := append([]types.FrozenFund{}, e1s.FrozenFunds...)
	if m := n.App.CurrentState().FrozenFunds().GetFrozenFunds(types.GetUnbondPeriod()); m != nil && types.GetUnbondPeriod() < validH0 {
		for _, it := range m.List {
			frozen1 = append(frozen1, types.FrozenFund{Height: types.GetUnbondPeriod(), Address: it.Address, CandidateKey: it.CandidateKey,
				CandidateID: uint64(it.CandidateID), Coin: uint64(it.Coin), Value: it.Value.String()})
		}
		if len(m.List) > 0 {
			c.stats["import-prune-frozen-in-the-past"] += len(m.List)
			c.viols = append(c.viols, fmt.Sprintf("C17 import-prune-unbonds-into-the-past: %d stakes of %d candidates removed at genesis import are frozen until block %d, below the initial height %d, and are never paid out",
				len(m.List), len(remOrder1), types.GetUnbondPeriod(), validH0))
		}
	}
	// prune at import: genesis candidates with their recalculated totals, genesis validators are protected
	{
		var extra []string
		// totals of removed candidates: every stake/update is base coin, the recalculation keeps the sum minus kicks; use the model-free
		// observable: frozen funds created for them
		for _, ids := range remOrder1 {
			var id int
			fmt.Sscan(ids, &id)
			tot := big.NewInt(0)
			for _, f := range frozen1 {
				if int(f.CandidateID) == id {
					tot.Add(tot, bi(f.Value))
				}
			}
			extra = append(extra, fmt.Sprintf("%d:%d:%s", id, genView.cand[id].Status, tot))
		}
		if len(w.gen.Candidates) >= 90 || len(remOrder1) > 0 {
			c.q("prune 100 %s %s = %s", validJoinOr(w.valIDs(w.gen), ","), w.candToks(e1s, extra), validJoinOr(remOrder1, ","))
			c.stats["q-prune"]++
			c.stats["pruned"] += len(remOrder1)
		}
	}
	w.slotQs(c, genView.cand, E1, o1.events, nil, remSet1, frozen1)
	// selection and powers answered by InitChain
	{
		var ids, pw []string
		for _, t := range initIDs {
			f := strings.Split(t, ":")
			ids = append(ids, f[0])
			pw = append(pw, f[1])
		}
		c.q("select 64 %s %s = %s", pip(1000), w.candToks(e1s, nil), validJoinOr(ids, ","))
		c.stats["q-select"]++
		var stakes []string
		for _, id := range ids {
			var i int
			fmt.Sscan(id, &i)
			stakes = append(stakes, E1.cand[i].TotalBipStake)
		}
		c.q("powers %s = %s", validJoinOr(stakes, ","), validJoinOr(pw, ","))
		c.q("updates - %s = %s", validJoinOr(initIDs, ","), validJoinOr(initIDs, ","))
		c.stats["q-powers"]++
		c.stats["q-updates"]++
		if fmt.Sprint(ids) != fmt.Sprint(w.valIDs(e1s)) && len(ids) > 0 {
			c.viols = append(c.viols, fmt.Sprintf("C17 validators in state %v differ from the set answered to Tendermint %v", w.valIDs(e1s), ids))
		}
	}
	if len(initIDs) == 0 {
		c.stats["empty-selection-cases"]++
		if len(e1s.Validators) != 0 {
			c.stats["empty-selection-not-persisted"]++
		}
		return c
	}
	// SetNewValidators at InitChain + accrual of block 1
	pot := func(o blockObs) *big.Int {
		v := new(big.Int).Set(o.fees)
		if !w.capped {
			v.Add(v, calc)
		}
		return v
	}
	{
		var old, sel, res []string
		for _, v := range w.gen.Validators {
			old = append(old, fmt.Sprintf("%d:%s", w.idOf[v.PubKey], v.AccumReward))
		}
		for _, v := range e1s.Validators {
			sel = append(sel, fmt.Sprintf("%d:%s", w.idOf[v.PubKey], v.TotalBipStake))
			res = append(res, fmt.Sprintf("%d:%s", w.idOf[v.PubKey], v.AccumReward))
		}
		c.q("setaccrue %s %s %s %s = %s;%s", validJoinOr(old, ","), validJoinOr(sel, ","), pot(o1), validJoinOr(present1, ","), validJoinOr(res, ","), new(big.Int).Sub(E1.slashed, genView.slashed))
		c.stats["q-setaccrue"]++
	}

	// ---------- block 2 (h ≡ 11): accrual; a prepared validator crosses the absence threshold and is dropped
	drop := 0
	if w.dropID != 0 && len(e1s.Validators) >= 2 {
		for _, v := range e1s.Validators {
			if w.idOf[v.PubKey] == w.dropID {
				drop = w.dropID
			}
		}
	}
	keep2 := 0
	if drop == 0 {
		keep2 = w.dropID // a single validator is never dropped: an empty set stops Tendermint (see the note on empty selections)
	}
	votes2, present2 := w.votesFor(pubkeysOf(e1s.Validators), drop, keep2)
	o2 := w.runBlock(n, seed, validH0+1, votes2, &nonce)
	if o2.pan != "" {
		c.viols = append(c.viols, "C07 unexpected panic in block 2: "+o2.pan)
		return c
	}
	e2s, p := n.Export()
	if p != "" {
		c.viols = append(c.viols, "C07 export failed: "+p)
		return c
	}
	E2 := w.view(e2s)
	{
		var vals, res []string
		after := map[types.Pubkey]string{}
		for _, v := range e2s.Validators {
			after[v.PubKey] = v.AccumReward
		}
		for _, v := range e1s.Validators {
			id := w.idOf[v.PubKey]
			d := 0
			if o2.toDrop[v.PubKey] {
				d = 1
			}
			if (d == 1) != (id == drop) {
				c.viols = append(c.viols, fmt.Sprintf("C17 validator %d: to-drop flag %d but prepared drop is %d", id, d, drop))
			}
			vals = append(vals, fmt.Sprintf("%d:%s:%s:%d", id, v.TotalBipStake, v.AccumReward, d))
			if a, ok := after[v.PubKey]; ok {
				res = append(res, fmt.Sprintf("%d:%s", id, a))
			} else if d == 0 {
				c.viols = append(c.viols, fmt.Sprintf("C17 validator %d left the set in block 2 without being dropped", id))
			}
		}
		if drop != 0 {
			if _, still := after[w.pkOf[drop]]; still {
				c.viols = append(c.viols, fmt.Sprintf("C17 validator %d absent 13 of 24 blocks is still in the set", drop))
			}
			c.stats["dropped-validators"]++
		}
		c.q("accrue %s %s %s = %s;%s", pot(o2), validJoinOr(vals, ","), validJoinOr(present2, ","), validJoinOr(res, ","), new(big.Int).Sub(E2.slashed, E1.slashed))
		c.stats["q-accrue"]++
	}
	active := initIDs
	if drop != 0 { // a validator-set update in the middle of the period
		remOrder2, _ := removedIDs(w, o2.events)
		if len(e1s.Candidates) >= 90 || len(remOrder2) > 0 {
			var extra []string
			for _, ids := range remOrder2 {
				var id int
				fmt.Sscan(ids, &id)
				extra = append(extra, fmt.Sprintf("%d:%d:%s", id, E1.cand[id].Status, E1.cand[id].TotalBipStake))
			}
			c.q("prune 100 %s %s = %s", validJoinOr(w.valIDs(e1s), ","), w.candToks(e2s, extra), validJoinOr(remOrder2, ","))
			c.stats["q-prune"]++
			c.stats["pruned"] += len(remOrder2)
		}
		newToks := w.updToks(o2.resp.ValidatorUpdates)
		k := len(e2s.Validators)
		if k > len(newToks) {
			k = len(newToks)
		}
		var ids, pw, stakes []string
		for _, t := range newToks[:k] {
			f := strings.Split(t, ":")
			ids = append(ids, f[0])
			pw = append(pw, f[1])
			var i int
			fmt.Sscan(f[0], &i)
			stakes = append(stakes, E2.cand[i].TotalBipStake)
		}
		c.q("select 64 %s %s = %s", pip(1000), w.candToks(e2s, nil), validJoinOr(w.valIDs(e2s), ","))
		c.q("powers %s = %s", validJoinOr(stakes, ","), validJoinOr(pw, ","))
		var act []string
		for _, t := range active {
			act = append(act, strings.Split(t, ":")[0])
		}
		c.q("updates %s %s = %s", validJoinOr(act, ","), validJoinOr(newToks[:k], ","), validJoinOr(newToks, ","))
		c.stats["q-select"]++
		c.stats["q-powers"]++
		c.stats["q-updates"]++
		active = newToks[:k]
	} else if len(o2.resp.ValidatorUpdates) != 0 {
		c.viols = append(c.viols, "C17 validator updates answered in a block without payout, drop or key change")
	}

	// ---------- block 3 (h ≡ 0): accrual + payout + validator-set update
	votes3, present3 := w.votesFor(pubkeysOf(e2s.Validators), 0, w.dropID) // nobody crosses the absence threshold in the payout block
	em0 := new(big.Int).Set(n.App.GetEmission())
	o3 := w.runBlock(n, seed, validH0+2, votes3, &nonce)
	height := fmt.Sprint(validH0 + 2)
	if w.capped {
		height = maxU64
	}
	var payVals []string
	for _, v := range e2s.Validators {
		id := w.idOf[v.PubKey]
		cd := E2.cand[id]
		var sts []string
		for _, s := range cd.Stakes {
			sts = append(sts, fmt.Sprintf("%s/%d/%s/%d", hexA(s.Owner), s.Coin, s.BipValue, E2.lock[s.Owner]))
		}
		d3 := 0
		if o3.toDrop[v.PubKey] {
			d3 = 1
		}
		payVals = append(payVals, fmt.Sprintf("%d:%s:%s:%d:%d:%s:1:%s", id, v.TotalBipStake, v.AccumReward, d3, cd.Commission, hexA(cd.RewardAddress), validJoinOr(sts, ",")))
	}
	payArgs := fmt.Sprintf("%s %s %s %d %s %s %s", height, calc, safe, validPeriod, hexA(dao.Address), hexA(developers.Address), validJoinOr(payVals, ";"))
	if o3.pan != "" {
		c.q("payblock %s %s %s = panic", pot(o3), payArgs, validJoinOr(present3, ","))
		c.viols = append(c.viols, "C19 panic in the payout block: "+o3.pan)
		return c
	}
	e3s, p := n.Export()
	if p != "" {
		c.viols = append(c.viols, "C07 export failed: "+p)
		return c
	}
	E3 := w.view(e3s)
	{
		var pays []string
		rewardUpdates := map[int][]types.Stake{}
		for _, e := range o3.events {
			if re, ok := e.(*eventsdb.RewardEvent); ok {
				id := w.idOf[re.ValidatorPubKey]
				pays = append(pays, fmt.Sprintf("%d:%s:%s:%s:%d", id, re.Role, hexA(re.Address), re.Amount, re.ForCoin))
				rewardUpdates[id] = append(rewardUpdates[id], types.Stake{Owner: re.Address, Coin: 0, Value: re.Amount, BipValue: re.Amount})
				c.stats["reward-events"]++
				if re.Role == "Delegator" && E2.lock[re.Address] > validH0+2 && !w.capped {
					c.stats["x3-payments"]++
				}
			}
		}
		more := new(big.Int).Sub(n.App.GetEmission(), em0)
		if !w.capped {
			more.Sub(more, safe)
		}
		dSl := new(big.Int).Sub(E3.slashed, E2.slashed)
		if len(present3) == 0 {
			c.q("payout %s = %s;%s;%s", payArgs, validJoinOr(pays, ","), new(big.Int).Sub(dSl, pot(o3)), more)
			c.stats["q-payout"]++
		} else {
			c.q("payblock %s %s %s = %s;%s;%s", pot(o3), payArgs, validJoinOr(present3, ","), validJoinOr(pays, ","), dSl, more)
			c.stats["q-payblock"]++
		}
		if more.Sign() != 0 {
			c.stats["more-rewards-nonzero"]++
		}
		// recalculation of the payout block: the payments are the updates
		remOrder3, remSet3 := removedIDs(w, o3.events)
		w.slotQs(c, E2.cand, E3, o3.events, rewardUpdates, remSet3, e3s.FrozenFunds)
		if len(e2s.Candidates) >= 90 || len(remOrder3) > 0 {
			var extra []string
			for _, ids := range remOrder3 {
				var id int
				fmt.Sscan(ids, &id)
				extra = append(extra, fmt.Sprintf("%d:%d:%s", id, E2.cand[id].Status, E2.cand[id].TotalBipStake))
			}
			c.q("prune 100 %s %s = %s", validJoinOr(w.valIDs(e2s), ","), w.candToks(e3s, extra), validJoinOr(remOrder3, ","))
			c.stats["q-prune"]++
			c.stats["pruned"] += len(remOrder3)
		}
		newToks := w.updToks(o3.resp.ValidatorUpdates)
		k := len(e3s.Validators)
		if k > len(newToks) {
			k = len(newToks)
		}
		var pw, stakes, act []string
		for _, t := range newToks[:k] {
			f := strings.Split(t, ":")
			pw = append(pw, f[1])
			var i int
			fmt.Sscan(f[0], &i)
			stakes = append(stakes, E3.cand[i].TotalBipStake)
		}
		for _, t := range active {
			act = append(act, strings.Split(t, ":")[0])
		}
		c.q("select 64 %s %s = %s", pip(1000), w.candToks(e3s, nil), validJoinOr(w.valIDs(e3s), ","))
		c.q("powers %s = %s", validJoinOr(stakes, ","), validJoinOr(pw, ","))
		c.q("updates %s %s = %s", validJoinOr(act, ","), validJoinOr(newToks[:k], ","), validJoinOr(newToks, ","))
		c.stats["q-select"]++
		c.stats["q-powers"]++
		c.stats["q-updates"]++
		for _, v := range e3s.Validators {
			if v.AccumReward != "0" {
				c.viols = append(c.viols, fmt.Sprintf("C19 validator %d keeps accumulated reward %s after the payout", w.idOf[v.PubKey], v.AccumReward))
			}
		}
	}
	return c
}

// ValidMode runs n cases (each a fresh node, three blocks) and checks every observation against the Lean definitions.
func ValidMode(seed int64, n int, tier, driver, keep string) ModeResult {
	res := ModeResult{Notes: map[string]interface{}{}}
	master := rand.New(rand.NewSource(seed))
	seeds := make([]int64, n)
	for i := range seeds {
		seeds[i] = master.Int63()
	}
	tracePath := fmt.Sprintf("%s/valid-%d.trace", keep, seed)
	os.MkdirAll(keep, 0o755)
	sink, err := NewSink(tracePath, driver)
	if err != nil {
		res.Crash = err.Error()
		return res
	}
	cases := make([]*vCase, n)
	done := make([]chan struct{}, n)
	for i := range done {
		done[i] = make(chan struct{})
	}
	var wg sync.WaitGroup
	sem := make(chan struct{}, 12)
	go func() {
		for i := 0; i < n; i++ {
			wg.Add(1)
			sem <- struct{}{}
			go func(i int) {
				defer wg.Done()
				defer func() { <-sem }()
				cases[i] = runValidCase(seeds[i], tier)
				close(done[i])
			}(i)
		}
	}()
	stats := map[string]int{}
	shapes := map[string]int{}
	failed := false
	for i := 0; i < n; i++ {
		<-done[i]
		c := cases[i]
		cases[i] = nil
		if sink.file != nil { // a comment for the reader of a kept trace; not sent to the driver (every line sent must be answered)
			sink.file.WriteString(fmt.Sprintf("# case %d seed %d shape %s\n", i, seeds[i], c.shape))
		}
		before := len(sink.Fails)
		for _, l := range c.lines {
			sink.Op(l)
			res.Evaluations++
			if len(res.Samples) < 8 && len(l) < 400 && master.Intn(200) == 0 {
				res.Samples = append(res.Samples, l)
			}
		}
		for _, f := range sink.Fails[before:] {
			prop := "C17"
			if strings.Contains(f, " accrue ") || strings.Contains(f, " setaccrue ") || strings.Contains(f, " payout ") || strings.Contains(f, " payblock ") {
				prop = "C19"
			}
			if len(f) > 1500 {
				f = f[:700] + " … " + f[len(f)-700:]
			}
			res.viol(prop, fmt.Sprintf("case %d (seed %d): %s", i, seeds[i], f), tracePath)
			failed = true
		}
		for _, v := range c.viols {
			res.viol(v[:3], fmt.Sprintf("case %d (seed %d): %s", i, seeds[i], v[4:]), tracePath)
			failed = true
		}
		if c.crash != "" {
			res.viol("", fmt.Sprintf("case %d (seed %d): %s", i, seeds[i], c.crash), tracePath)
			failed = true
		}
		for k, v := range c.stats {
			stats[k] += v
		}
		shapes[c.shape]++
	}
	wg.Wait()
	sink.Close()
	if !failed {
		os.Remove(tracePath)
	}
	res.Distinct = res.Evaluations
	res.Notes["cases"] = n
	res.Notes["excluded-point A (Σ bip > validator stake)"] = validProbe("A", driver)
	res.Notes["excluded-point B (calcReward > 3·safeReward)"] = validProbe("B", driver)
	res.Notes["counts"] = stats
	res.Notes["shapes(stake-vector/candidates rounded up to 10)"] = shapes
	return res
}

// ---------------------------------------------------------------------------------------------------------------------
// Excluded points of the C19 theorems, run on the real code (results go to Notes, they are not violations: neither state is
// reachable through transactions — see INTEGRATION.md).
//   A. `payout_remainder_nonneg` needs Σ bipᵢ ≤ validator stake.  The validator's recorded stake is lowered below the sum of its
//      stakes in the live state → the payout block must hit `panic("Negative remainder")`; Lean answers `panic` for the same input.
//   B. `PayOK.calc3` needs calcReward ≤ 3·safeReward.  The reward pair is set to (1000, 1) BIP in the live state with a locked
//      delegator → the proportional reward of the locked stake is subtracted from the remainder but paid to nobody.
func validProbe(kind string, driver string) (out map[string]interface{}) {
	out = map[string]interface{}{}
	defer func() {
		if r := recover(); r != nil {
			out["harness-panic"] = fmt.Sprint(r)
		}
	}()
	seed := int64(4242)
	st := types.AppState{Note: "verif-valid-probe", TotalSlashed: "0", MaxGas: 100000, NextOrderID: 1, Emission: "1000000000000000000000000"}
	st.PrevReward = types.RewardPrice{Time: 0, AmountBIP: "350", AmountUSDT: "1", Off: false, Reward: "0"}
	st.Version = "v300"
	st.Versions = []types.Version{{Height: 1, Name: "v300"}, {Height: 2, Name: "v310"}, {Height: 3, Name: "v320"}, {Height: 4, Name: "v330"}}
	st.Commission = defaultCommission()
	a1 := crypto.PubkeyToAddress(detKey(seed, 0).PublicKey)
	a2 := crypto.PubkeyToAddress(detKey(seed, 1).PublicKey)
	lock2 := uint64(0)
	if kind == "B" {
		lock2 = validH0 + 1000
	}
	st.Accounts = []types.Account{{Address: a1, Balance: []types.Balance{{Coin: 0, Value: pip(1000).String()}}},
		{Address: a2, LockStakeUntilBlock: lock2, Balance: []types.Balance{{Coin: 0, Value: pip(1000).String()}}}}
	pk := detPub(seed, 0)
	st.Candidates = []types.Candidate{{ID: 1, RewardAddress: a1, OwnerAddress: a1, ControlAddress: a1, PubKey: pk, Commission: 0, Status: 2,
		TotalBipStake: pip(5000).String(), Stakes: []types.Stake{
			{Owner: a1, Coin: 0, Value: pip(3500).String(), BipValue: pip(3500).String()},
			{Owner: a2, Coin: 0, Value: pip(1500).String(), BipValue: pip(1500).String()}}}}
	st.Validators = []types.Validator{{TotalBipStake: pip(5000).String(), PubKey: pk, AccumReward: pip(1000).String(), AbsentTimes: types.NewBitArray(24)}}
	n, err := NewNode(st, NodeOpts{Period: validPeriod, InitialHeight: validH0 + 1}) // two blocks: ≡ 11, then the payout block
	if err != nil {
		out["init"] = err.Error()
		return
	}
	defer n.Destroy()
	if kind == "A" {
		n.Live().Validators.GetValidators()[0].SetTotalBipStake(pip(1000))
		out["setup"] = "validator stake recorded as 1000 BIP, stakes of the candidate add up to 5000 BIP, accrued 1000 BIP"
	} else {
		n.Live().App.SetReward(pip(1000), pip(1))
		out["setup"] = "calcReward 1000 BIP, safeReward 1 BIP, delegator 2 (1500 of 5000 BIP) has a locked stake, accrued 1000 BIP"
	}
	w := &vWorld{r: rand.New(rand.NewSource(1)), idOf: map[types.Pubkey]int{pk: 1}, pkOf: map[int]types.Pubkey{1: pk}}
	nonce := uint64(0)
	w.r = rand.New(rand.NewSource(3)) // no transactions: Intn(5) sequence irrelevant for the result, fees are added to the pot
	o1 := w.runBlock(n, seed, validH0+1, nil, &nonce)
	if o1.pan != "" {
		out["block1"] = o1.pan
		return
	}
	e1, _ := n.Export()
	em0 := new(big.Int).Set(n.App.GetEmission())
	calc, safe := n.Live().App.Reward()
	calc, safe = new(big.Int).Set(calc), new(big.Int).Set(safe)
	o2 := w.runBlock(n, seed, validH0+2, nil, &nonce)
	v := e1.Validators[0]
	cd := e1.Candidates[0]
	lk := map[types.Address]uint64{a2: lock2}
	var sts []string
	for _, s := range cd.Stakes {
		sts = append(sts, fmt.Sprintf("%s/%d/%s/%d", hexA(s.Owner), s.Coin, s.BipValue, lk[s.Owner]))
	}
	pot := new(big.Int).Add(calc, o2.fees)
	args := fmt.Sprintf("%s %d %s %s %d %s %s 1:%s:%s:0:%d:%s:1:%s -", pot, validH0+2, calc, safe, validPeriod, hexA(dao.Address), hexA(developers.Address),
		v.TotalBipStake, v.AccumReward, cd.Commission, hexA(cd.RewardAddress), strings.Join(sts, ","))
	goRes := ""
	if o2.pan != "" {
		goRes = "panic"
		out["go"] = "PANIC " + o2.pan
	} else {
		e2, _ := n.Export()
		var pays []string
		paid := big.NewInt(0)
		for _, e := range o2.events {
			if re, ok := e.(*eventsdb.RewardEvent); ok {
				pays = append(pays, fmt.Sprintf("1:%s:%s:%s:%d", re.Role, hexA(re.Address), re.Amount, re.ForCoin))
				paid.Add(paid, bi(re.Amount))
			}
		}
		more := new(big.Int).Sub(new(big.Int).Sub(n.App.GetEmission(), em0), safe)
		dSl := new(big.Int).Sub(bi(e2.TotalSlashed), bi(e1.TotalSlashed))
		goRes = fmt.Sprintf("%s;%s;%s", validJoinOr(pays, ","), dSl, more)
		out["go"] = goRes
		out["go-note"] = "amounts of reward events are stored as magnitudes: a negative DAO/developers reward shows up positive"
		// stakes after the block: what the DAO/developers/delegators really received
		var after []string
		for _, s := range e2.Candidates[0].Stakes {
			after = append(after, fmt.Sprintf("%s:%s", hexA(s.Owner), s.Value))
		}
		out["stakes-after"] = after
	}
	line := "Q payblock " + args + " = " + goRes
	out["line"] = line
	if driver != "" {
		tmp := fmt.Sprintf("%s/verif-valid-probe-%s-%d.trace", tmpRoot(), kind, os.Getpid())
		sink, err := NewSink(tmp, driver)
		if err == nil {
			rep := sink.Op(line)
			sink.Close()
			os.Remove(tmp)
			if len(rep) == 0 {
				out["lean"] = "agrees"
			} else {
				out["lean"] = rep
			}
		}
	}
	return
}
