package main

import (
	"fmt"
	"math/big"
	"math/rand"
	"os"
	"strings"

	"github.com/MinterTeam/minter-go-node/coreV2/minter"
	"github.com/MinterTeam/minter-go-node/coreV2/state/swap"
	"github.com/MinterTeam/minter-go-node/formula"
	"github.com/MinterTeam/minter-go-node/tree"
	db "github.com/tendermint/tm-db"
)

// randBig: log-uniform magnitude up to 10^maxExp, with boundary shapes.
func randBig(r *rand.Rand, maxExp int) *big.Int {
	switch r.Intn(12) {
	case 0:
		return big.NewInt(int64(r.Intn(3)))
	case 1:
		e := r.Intn(maxExp + 1)
		v := new(big.Int).Exp(big.NewInt(10), big.NewInt(int64(e)), nil)
		return v.Add(v, big.NewInt(int64(r.Intn(3)-1)))
	case 2:
		e := r.Intn(maxExp*3 + 1)
		v := new(big.Int).Lsh(big.NewInt(1), uint(e))
		return v.Add(v, big.NewInt(int64(r.Intn(3)-1)))
	}
	e := r.Intn(maxExp + 1)
	max := new(big.Int).Exp(big.NewInt(10), big.NewInt(int64(e)), nil)
	return new(big.Int).Rand(r, max.Add(max, big.NewInt(1)))
}

func posBig(r *rand.Rand, maxExp int) *big.Int {
	v := randBig(r, maxExp)
	if v.Sign() <= 0 {
		return big.NewInt(int64(1 + r.Intn(5)))
	}
	return v
}

func bs(v *big.Int) string {
	if v == nil {
		return "nil"
	}
	return v.String()
}

func errName(err error) string {
	switch err {
	case nil:
		return "ok"
	case swap.ErrorInsufficientLiquidity:
		return "liquidity"
	case swap.ErrorInsufficientOutputAmount:
		return "output"
	case swap.ErrorInsufficientInputAmount:
		return "input"
	case swap.ErrorK:
		return "k"
	}
	return "other"
}

func safe(f func() string) (s string) {
	defer func() {
		if r := recover(); r != nil {
			s = "panic"
		}
	}()
	return f()
}

// Kernels: differential test of the pure kernels: the real Go functions are evaluated on generated inputs and the
// Lean definitions (the ones the theorems are about) are evaluated on the same inputs by the driver.
func Kernels(seed int64, n int, driver, keep string) ModeResult {
	res := ModeResult{Notes: map[string]interface{}{}}
	r := rand.New(rand.NewSource(seed))
	tracePath := fmt.Sprintf("%s/kernels-%d.trace", keep, seed)
	os.MkdirAll(keep, 0o755)
	sink, err := NewSink(tracePath, driver)
	if err != nil {
		res.Crash = err.Error()
		return res
	}
	mt, _ := tree.NewMutableTree(0, db.NewMemDB(), 1024, 0)
	it := mt.GetLastImmutable()
	counts := map[string]int{}
	emit := func(fn string, args []*big.Int, extra string, out string) {
		var as []string
		for _, a := range args {
			as = append(as, a.String())
		}
		line := "Q " + fn + " " + strings.Join(as, " ")
		if extra != "" {
			line += " " + extra
		}
		line += " = " + out
		sink.Op(line)
		counts[fn]++
		res.Evaluations++
		if len(res.Samples) < 6 && r.Intn(50) == 0 {
			res.Samples = append(res.Samples, line)
		}
	}
	for i := 0; i < n; i++ {
		r0, r1 := posBig(r, 33), posBig(r, 33)
		p := swap.VerifNewPair(it, r0, r1)
		a := randBig(r, 33)
		if r.Intn(3) == 0 { // amounts near the reserves
			a = new(big.Int).Add(r1, big.NewInt(int64(r.Intn(5)-2)))
			if a.Sign() < 0 {
				a = big.NewInt(0)
			}
		}
		emit("bfs", []*big.Int{r0, r1, a}, "", safe(func() string { return bs(p.CalculateBuyForSell(a)) }))
		emit("sfb", []*big.Int{r0, r1, a}, "", safe(func() string { return bs(p.CalculateSellForBuy(a)) }))
		b := randBig(r, 33)
		emit("chk", []*big.Int{r0, r1, a, b}, "", safe(func() string { return errName(p.CheckSwap(a, b)) }))
		if out := p.CalculateBuyForSell(a); out != nil {
			emit("chk", []*big.Int{r0, r1, a, out}, "", safe(func() string { return errName(p.CheckSwap(a, out)) }))
		}
		if a.Sign() > 0 {
			emit("qbfs", []*big.Int{r0, r1, a}, "", safe(func() string { v, _ := p.CalculateBuyForSellWithOrders(a); return bs(v) }))
			emit("qsfb", []*big.Int{r0, r1, a}, "", safe(func() string { v, _ := p.CalculateSellForBuyWithOrders(a); return bs(v) }))
		}
		s := posBig(r, 33)
		emit("addliq", []*big.Int{r0, r1, s, a}, "", safe(func() string { l, x := p.CalculateAddLiquidity(a, s); return bs(l) + "," + bs(x) }))
		emit("amounts", []*big.Int{r0, r1, s, a}, "", safe(func() string { x, y := p.Amounts(a, s); return bs(x) + "," + bs(y) }))
		emit("start", []*big.Int{a, b}, "", safe(func() string { return bs(swap.VerifStartingSupply(a, b)) }))
		emit("com1000", []*big.Int{a}, "", bs(swap.VerifCom1000(a)))
		emit("com1001", []*big.Int{a}, "", bs(swap.VerifCom1001(a)))
		emit("com0999", []*big.Int{a}, "", bs(swap.VerifCom0999(a)))
		// governance threshold, incl. exact two-thirds
		tot := posBig(r, 30)
		vot := new(big.Int).Rand(r, new(big.Int).Add(tot, big.NewInt(1)))
		if r.Intn(3) == 0 {
			tot = new(big.Int).Mul(posBig(r, 28), big.NewInt(3))
			vot = new(big.Int).Div(new(big.Int).Mul(tot, big.NewInt(2)), big.NewInt(3))
			vot.Add(vot, big.NewInt(int64(r.Intn(3)-1)))
		}
		emit("two3", []*big.Int{vot, tot}, "", fmt.Sprint(minter.VerifIsMoreThanTwoThirds(vot, tot)))
		// bancor with CRR 100 (integer branch) and the special cases
		supply, reserve := posBig(r, 33), posBig(r, 33)
		x := new(big.Int).Rand(r, new(big.Int).Add(supply, big.NewInt(1)))
		emit("saleReturn100", []*big.Int{supply, reserve, x}, "", safe(func() string { return bs(formula.CalculateSaleReturn(supply, reserve, 100, x)) }))
		emit("purchaseReturn100", []*big.Int{supply, reserve, a}, "", safe(func() string { return bs(formula.CalculatePurchaseReturn(supply, reserve, 100, a)) }))
		emit("purchaseAmount100", []*big.Int{supply, reserve, a}, "", safe(func() string { return bs(formula.CalculatePurchaseAmount(supply, reserve, 100, a)) }))
		y := new(big.Int).Rand(r, new(big.Int).Add(reserve, big.NewInt(1)))
		emit("saleAmount100", []*big.Int{supply, reserve, y}, "", safe(func() string { return bs(formula.CalculateSaleAmount(supply, reserve, 100, y)) }))
		crr := uint32(10 + r.Intn(91))
		emit("saleReturnAll", []*big.Int{supply, reserve, big.NewInt(int64(crr))}, "", safe(func() string { return bs(formula.CalculateSaleReturn(supply, reserve, crr, supply)) }))
		emit("saleReturnZero", []*big.Int{supply, reserve, big.NewInt(int64(crr))}, "", safe(func() string { return bs(formula.CalculateSaleReturn(supply, reserve, crr, big.NewInt(0))) }))
	}
	sink.Close()
	for _, f := range sink.Fails {
		res.viol("", f, tracePath)
	}
	if len(sink.Fails) == 0 {
		os.Remove(tracePath)
	}
	res.Distinct = res.Evaluations
	res.Notes["per_kernel"] = counts
	return res
}
