package main

import (
	"strings"
	"strconv"
	"flag"
	"fmt"
	"os"
	"sort"
)

func main() {
	if len(os.Args) < 2 {
		fmt.Println("usage: harness <mode> [flags]")
		os.Exit(2)
	}
	mode := os.Args[1]
	fs := flag.NewFlagSet(mode, flag.ExitOnError)
	seed := fs.Int64("seed", 1, "seed")
	blocks := fs.Int("blocks", 30, "blocks")
	txs := fs.Int("txs", 5, "txs per block")
	trace := fs.String("trace", "", "trace file")
	driver := fs.String("driver", "", "lean driver binary")
	profile := fs.String("profile", "mixed", "generator profile")
	n := fs.Int("n", 8, "number of histories")
	tier := fs.String("tier", "quick", "tier")
	keep := fs.String("keep", "/verif/replays", "dir for failing traces")
	par := fs.Int("par", 8, "parallel histories")
	out := fs.String("out", "-", "result json")
	seedsFlag := fs.String("seeds", "", "campaign: exact history seeds (comma separated) instead of seed*1000+i")
	blocksOverride := fs.Int("histblocks", 0, "campaign: number of blocks per history (overrides the profile)")
	readers := fs.Int("readers", 0, "concurrent read-only query goroutines (C25)")
	lightProj := fs.Bool("lightproj", false, "live projection without reflective reads of lock-protected fields (C25)")
	raceBin := fs.String("racebin", "", "race-detector build of this harness (C25)")
	fs.Parse(os.Args[2:])
	LightProjection = *lightProj
	switch mode {
	case "trace":
		sink, err := NewSink(*trace, *driver)
		if err != nil {
			panic(err)
		}
		h, err := NewHist(HistOpts{Seed: *seed, Blocks: *blocks, TxPerBlk: *txs, Malformed: 8, CustomGas: 25, Multisig: 8, AbsentPct: 3, ByzPct: 2, CheckTx: true}, sink)
		if err != nil {
			panic(err)
		}
		h.Run()
		sink.Close()
		h.N.Destroy()
		keys := make([]string, 0)
		for k := range h.Stats {
			keys = append(keys, k)
		}
		sort.Strings(keys)
		for _, k := range keys {
			fmt.Printf("%s=%d\n", k, h.Stats[k])
		}
		fmt.Println("ops", h.Ops, "lines", sink.NLines, "panics", h.Panics, "fails", sink.Fails)
	case "one": // one history of a profile into a trace file (used by the determinism mode)
		sink, err := NewSink(*trace, *driver)
		if err != nil {
			panic(err)
		}
		h, err := NewHist(Profile(*profile, *seed, *tier), sink)
		if err != nil {
			panic(err)
		}
		var rd *Readers
		if *readers > 0 {
			rd = StartReaders(h, *readers, *seed)
		}
		h.Run()
		if rd != nil {
			rd.Stop()
			fmt.Printf("READERS calls=%d panics=%d %v\n", rd.Calls, len(rd.Panics), rd.Panics)
		}
		sink.Close()
		h.N.Destroy()
	case "concurrent":
		self, _ := os.Executable()
		writeJSON(*out, Concurrent(*profile, *seed, *n, *tier, *keep, self, *raceBin, *readers))
	case "restart":
		writeJSON(*out, RestartTwins(*profile, *seed, *n, *tier, *keep))
	case "determinism":
		self, _ := os.Executable()
		writeJSON(*out, Determinism(*profile, *seed, *n, *tier, *keep, self))
	case "export":
		writeJSON(*out, ExportRoundTrip(*profile, *seed, *n, *tier, *keep))
	case "export2":
		writeJSON(*out, ExportMode2(*profile, *seed, *n, *tier, *driver, *keep))
	case "kernels":
		writeJSON(*out, Kernels(*seed, *n, *driver, *keep))
	case "rlp":
		writeJSON(*out, RlpMode(*seed, *n, *driver, *keep))
	case "bancor":
		writeJSON(*out, BancorMode(*seed, *n, *tier, *driver, *keep))
	case "events":
		if *trace != "" {
			writeJSON(*out, EventsReplay(*trace, *driver, *keep))
		} else {
			writeJSON(*out, EventsMode(*seed, *n, *tier, *driver, *keep))
		}
	case "crash":
		writeJSON(*out, CrashMode(*profile, *seed, *n, *tier, *driver, *keep))
	case "snapshot":
		writeJSON(*out, SnapshotMode(*profile, *seed, *n, *tier, *keep))
	case "beginq":
		writeJSON(*out, BeginKernels(*seed, *n, *driver, *keep))
	case "rules": // -profile c20|c27|c28 restricts the run to one property's parts; -n 0 = tier default (250 / 3000)
		RulesOnly = *profile
		writeJSON(*out, RulesMode(*seed, *n, *tier, *driver, *keep))
	case "orders":
		writeJSON(*out, OrdersMode(*seed, *n, *tier, *driver, *keep))
	case "orders-replay":
		writeJSON(*out, OrdersReplay(*trace, *driver, *keep))
	case "valid":
		writeJSON(*out, ValidMode(*seed, *n, *tier, *driver, *keep))
	case "campaign":
		for _, f := range strings.Split(*seedsFlag, ",") {
			if v, err := strconv.ParseInt(strings.TrimSpace(f), 10, 64); err == nil {
				ExactSeeds = append(ExactSeeds, v)
			}
		}
		if *blocksOverride > 0 {
			BlocksOverride = *blocksOverride
		}
		res := Campaign(*profile, *seed, *n, *tier, *driver, *keep, *par)
		writeJSON(*out, res)
	default:
		fmt.Println("unknown mode", mode)
		os.Exit(2)
	}
}
