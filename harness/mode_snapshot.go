package main

// SnapshotMode (C29): real cosmos-sdk snapshots.Manager over goleveldb, driven through the ABCI snapshot methods.
//
//   producer A  — the history node, never restarted, snapshot store attached;
//   producer B  — a twin that receives the same ABCI calls and is restarted several times before the snapshot height;
//   node R      — a fresh process (no InitChain) that is offered A's snapshot and applies its chunks.
//
// Checked: A and B list the same snapshot (height, format, chunk count, hash, metadata) with byte-identical chunks;
// R accepts it and reports A's Info (height, app hash); then A and R execute the same further blocks: responses,
// validator updates, app hashes, full state export and every app-DB getter are compared after every block; at the next
// snapshot height the snapshot of R (a restored node) is byte-compared with A's.
//
// In most runs (always in the first history of a run) the fresh node R is polled while the state sync is still going
// on, as the running node is: its API is started right after the Tendermint node, so /status, monitoring and health
// checks reach Blockchain.GetEmission, Info and the app-DB getters before the snapshot is offered and between the chunks.
// A read-only query must not change what the node is after the restore.

import (
	"bytes"
	"fmt"
	"io/ioutil"
	"math/rand"
	"os"
	"sort"
	"strings"

	"github.com/cosmos/cosmos-sdk/snapshots"
	abci "github.com/tendermint/tendermint/abci/types"
)

func attachSnapshots(n *Node, interval int) error {
	store, err := snapshots.NewStore(n.snapDB, n.Home+"/data/snapshots")
	if err != nil {
		return err
	}
	n.App.SetSnapshotStore(store, interval, 0)
	return nil
}

func newBlankNode(tmpl *Node) (*Node, error) {
	home, err := ioutil.TempDir(tmpRoot(), "verif-sync-")
	if err != nil {
		return nil, err
	}
	os.MkdirAll(home+"/data", 0o755)
	os.MkdirAll(home+"/config", 0o755)
	return openNodeOn(home, tmpl)
}

func snapshotAt(n *Node, h uint64) *abci.Snapshot {
	for _, s := range n.App.ListSnapshots(abci.RequestListSnapshots{}).Snapshots {
		if s.Height == h {
			return s
		}
	}
	return nil
}

func chunksOf(n *Node, s *abci.Snapshot) [][]byte {
	var out [][]byte
	for i := uint32(0); i < s.Chunks; i++ {
		out = append(out, n.App.LoadSnapshotChunk(abci.RequestLoadSnapshotChunk{Height: s.Height, Format: s.Format, Chunk: i}).Chunk)
	}
	return out
}

func sameSnapshot(a, b *abci.Snapshot, ca, cb [][]byte) string {
	if a == nil || b == nil {
		return fmt.Sprintf("snapshot missing: %v / %v", a != nil, b != nil)
	}
	if a.Height != b.Height || a.Format != b.Format || a.Chunks != b.Chunks || !bytes.Equal(a.Hash, b.Hash) || !bytes.Equal(a.Metadata, b.Metadata) {
		return fmt.Sprintf("snapshot descriptors differ: {h=%d f=%d n=%d hash=%x} vs {h=%d f=%d n=%d hash=%x}", a.Height, a.Format, a.Chunks, a.Hash, b.Height, b.Format, b.Chunks, b.Hash)
	}
	if len(ca) != len(cb) {
		return fmt.Sprintf("chunk counts differ: %d vs %d", len(ca), len(cb))
	}
	for i := range ca {
		if len(ca[i]) == 0 {
			return fmt.Sprintf("chunk %d cannot be loaded", i)
		}
		if !bytes.Equal(ca[i], cb[i]) {
			return fmt.Sprintf("chunk %d differs (%d vs %d bytes)", i, len(ca[i]), len(cb[i]))
		}
	}
	return ""
}

func dumpCompare(a, b *Node, what string) []string {
	da, pa := persistDump(a)
	db_, pb := persistDump(b)
	if pa != "" || pb != "" {
		return []string{fmt.Sprintf("%s: query panics: %q / %q", what, pa, pb)}
	}
	dl := Delta(da, db_)
	sort.Strings(dl)
	var out []string
	for _, x := range dl {
		k := strings.SplitN(strings.TrimLeft(x, "=-"), "\t", 2)[0]
		out = append(out, fmt.Sprintf("%s %q: producer %q | other %q", what, k, clip(da[k], 120), clip(db_[k], 120)))
	}
	return out
}

// syncPoll: the read-only queries an API / monitoring client is served by a node that is still state-syncing:
// the emission of /status, Info, and every lazily loaded app-DB record (height, start height, versions, validators,
// price, block-time delta). pick selects a random subset and order (all of them when rng is nil).
// Returns the number of queries answered and the panic text, if one of them panicked.
func syncPoll(n *Node, rng *rand.Rand) (calls int, pan string) {
	defer func() {
		if r := recover(); r != nil {
			pan = shortPanic(r)
		}
	}()
	app := n.App
	adb := app.VerifAppDB()
	qs := []func(){
		func() { _ = app.GetEmission().String() },
		func() { _ = app.Info(abci.RequestInfo{}) },
		func() { adb.Emission() },
		func() { adb.GetLastHeight(); adb.GetLastBlockHash() },
		func() { adb.GetStartHeight() },
		func() { adb.GetVersions() },
		func() { adb.GetVersionName(app.Height() + 1); adb.GetVersionHeight("v310") },
		func() { app.UpdateVersions(); app.GetVersionHeight("v330") },
		func() { adb.GetValidators() },
		func() { adb.GetPrice() },
		func() { adb.GetLastBlockTimeDelta() },
		func() { _ = app.Height(); _ = app.InitialHeight() },
	}
	order := make([]int, len(qs))
	for i := range order {
		order[i] = i
	}
	k := len(qs)
	if rng != nil {
		rng.Shuffle(len(order), func(i, j int) { order[i], order[j] = order[j], order[i] })
		k = 1 + rng.Intn(len(qs))
	}
	for _, i := range order[:k] {
		qs[i]()
		calls++
	}
	return calls, ""
}

func SnapshotMode(profile string, baseSeed int64, n int, tier, keep string) ModeResult {
	res := ModeResult{Notes: map[string]interface{}{}}
	os.MkdirAll(keep, 0o755)
	restored, snaps, restartsB, chunkBytes, blocksAfter := 0, 0, 0, 0, 0
	polledRuns, polledBefore, polledBetween, pollCalls := 0, 0, 0, 0
	for i := 0; i < n; i++ {
		seed := baseSeed*1000 + int64(i)
		rng := rand.New(rand.NewSource(seed ^ 0x5a9))
		o := Profile(profile, seed, tier)
		o.Node.Disk = true
		o.Restarts = 0
		if tier != "thorough" {
			o.Blocks = 30
		}
		if i%3 == 1 {
			o.Node.KeepStates = 3 // the producer prunes old versions, the restored node has none of them
		}
		if i%4 == 3 {
			o.TimeMode = 1
		}
		interval := 6 + rng.Intn(6)
		// queries served while the state sync runs (own generator: the histories stay what they were):
		// the first history of every run is polled with every query before the offer and between all chunks,
		// three out of four of the others with a random subset at random points.
		prng := rand.New(rand.NewSource(seed ^ 0x29c0ffee))
		pollBefore, pollBetween, pollAll := true, true, true
		if i > 0 {
			pollAll = false
			switch prng.Intn(4) {
			case 0:
				pollBefore, pollBetween = false, false
			case 1:
				pollBetween = false
			case 2:
				pollBefore = false
			}
		}
		sink, _ := NewSink("", "")
		h, err := NewHist(o, sink)
		if err != nil {
			res.Crash = "history setup failed: " + err.Error()
			continue
		}
		var fails []string
		fail := func(msg string) { fails = append(fails, msg) }
		A := h.N
		if err := attachSnapshots(A, interval); err != nil {
			res.Crash = err.Error()
			A.Destroy()
			continue
		}
		B, err := NewNode(NewWorld(o.Seed, o.Gen).BuildGenesis(), o.Node) // same seed, same genesis
		if err != nil {
			res.Crash = "twin setup failed: " + err.Error()
			A.Destroy()
			continue
		}
		attachSnapshots(B, interval)
		h.Mirror = B
		alive := true
		done := 0
		var R *Node
		var firstH uint64
		cleanup := func() {
			A.App.VerifWaitSnapshots()
			A.Destroy()
			B.Destroy()
			if R != nil {
				R.Destroy()
			}
		}
		// phase 1: up to the first snapshot height, B restarting on the way
		for alive && done < o.Blocks {
			alive = h.Block()
			done++
			if !alive {
				break
			}
			A.App.VerifWaitSnapshots()
			B.App.VerifWaitSnapshots()
			for _, d := range h.MirrorDiffs {
				fail("restarted producer behaves differently (C09): " + d)
			}
			h.MirrorDiffs = nil
			if A.Height%uint64(interval) == 0 && done >= 4 {
				firstH = A.Height
				break
			}
			if rng.Intn(100) < 40 {
				k := 1 + rng.Intn(2)
				for j := 0; j < k; j++ {
					if err := B.Restart(); err != nil {
						fail("producer B restart: " + err.Error())
						alive = false
						break
					}
					attachSnapshots(B, interval)
					restartsB++
				}
			}
		}
		res.Evaluations += h.Ops
		if !alive || firstH == 0 || len(fails) > 0 {
			if len(fails) > 0 {
				dst := fmt.Sprintf("%s/snapshot-%s-%d.txt", keep, profile, seed)
				ioutil.WriteFile(dst, []byte(strings.Join(fails, "\n")+"\n"), 0o644)
				res.viol("C29", clip(fails[0], 300), dst)
			}
			cleanup()
			continue
		}
		// the snapshot of height firstH on both producers
		sa, sb := snapshotAt(A, firstH), snapshotAt(B, firstH)
		var ca, cb [][]byte
		if sa != nil {
			ca = chunksOf(A, sa)
		}
		if sb != nil {
			cb = chunksOf(B, sb)
		}
		if d := sameSnapshot(sa, sb, ca, cb); d != "" {
			fail(fmt.Sprintf("snapshot at h=%d of the restarted producer differs from the unrestarted one: %s", firstH, d))
		}
		if sa != nil {
			snaps++
			for _, c := range ca {
				chunkBytes += len(c)
			}
			// restore into a fresh process
			R, err = newBlankNode(A)
			if err != nil {
				fail("fresh node: " + err.Error())
			} else {
				attachSnapshots(R, interval)
				infA := A.App.Info(abci.RequestInfo{})
				poll := func(when string) bool {
					pr := prng
					if pollAll {
						pr = nil
					}
					c, pan := syncPoll(R, pr)
					pollCalls += c
					if pan != "" {
						fail(fmt.Sprintf("state-syncing node panics on a read-only query %s: %s", when, pan))
						return false
					}
					return true
				}
				if pollBefore || pollBetween {
					polledRuns++
				}
				func() {
					defer func() {
						if x := recover(); x != nil {
							fail("restore panics: " + shortPanic(x))
						}
					}()
					if pollBefore {
						polledBefore++
						if !poll("before the snapshot is offered") {
							return
						}
					}
					or := R.App.OfferSnapshot(abci.RequestOfferSnapshot{Snapshot: sa, AppHash: infA.LastBlockAppHash})
					if or.Result != abci.ResponseOfferSnapshot_ACCEPT {
						fail(fmt.Sprintf("OfferSnapshot answered %v", or.Result))
						return
					}
					for ci, c := range ca {
						if pollBetween && (pollAll || prng.Intn(2) == 0) {
							polledBetween++
							if !poll(fmt.Sprintf("before chunk %d of %d is applied", ci, len(ca))) {
								return
							}
						}
						ar := R.App.ApplySnapshotChunk(abci.RequestApplySnapshotChunk{Index: uint32(ci), Chunk: c, Sender: "producer"})
						if ar.Result != abci.ResponseApplySnapshotChunk_ACCEPT {
							fail(fmt.Sprintf("ApplySnapshotChunk %d answered %v", ci, ar.Result))
							return
						}
					}
					infR := R.App.Info(abci.RequestInfo{})
					if infR.LastBlockHeight != infA.LastBlockHeight || !bytes.Equal(infR.LastBlockAppHash, infA.LastBlockAppHash) {
						fail(fmt.Sprintf("restored node reports Info (%d, %x), the producer (%d, %x)", infR.LastBlockHeight, infR.LastBlockAppHash, infA.LastBlockHeight, infA.LastBlockAppHash))
					}
					restored++
					R.Height = uint64(infR.LastBlockHeight)
					for _, d := range dumpCompare(A, R, fmt.Sprintf("after restore at h=%d", firstH)) {
						fail(d)
					}
				}()
			}
		}
		// phase 2: both continue with the same blocks
		if R != nil && len(fails) == 0 {
			h.Mirror = R
			for alive && done < o.Blocks {
				alive = h.Block()
				done++
				if !alive {
					break
				}
				blocksAfter++
				A.App.VerifWaitSnapshots()
				R.App.VerifWaitSnapshots()
				for _, d := range h.MirrorDiffs {
					fail("restored node behaves differently: " + d)
				}
				h.MirrorDiffs = nil
				for _, d := range dumpCompare(A, R, fmt.Sprintf("after h=%d", A.Height)) {
					fail(d)
				}
				if A.Height%uint64(interval) == 0 {
					s1, s2 := snapshotAt(A, A.Height), snapshotAt(R, A.Height)
					var c1, c2 [][]byte
					if s1 != nil {
						c1 = chunksOf(A, s1)
					}
					if s2 != nil {
						c2 = chunksOf(R, s2)
					}
					if d := sameSnapshot(s1, s2, c1, c2); d != "" {
						fail(fmt.Sprintf("snapshot at h=%d taken by the restored node differs from the producer's: %s", A.Height, d))
					} else {
						snaps++
					}
				}
				if len(fails) > 0 {
					break
				}
			}
			res.Evaluations += h.Ops
		}
		if len(fails) > 0 {
			dst := fmt.Sprintf("%s/snapshot-%s-%d.txt", keep, profile, seed)
			ioutil.WriteFile(dst, []byte(fmt.Sprintf("C29 (harness snapshot -profile %s -seed %d; history seed %d, interval %d, first snapshot at %d)\n%s\n", profile, baseSeed, seed, interval, firstH, strings.Join(fails, "\n"))), 0o644)
			res.viol("C29", clip(fails[0], 300), dst)
		}
		if len(res.Samples) < 2 {
			res.Samples = append(res.Samples, map[string]interface{}{"seed": seed, "interval": interval, "snapshot_height": firstH, "blocks": done})
		}
		cleanup()
	}
	res.Distinct = restored + snaps
	res.Notes["restored_nodes"] = restored
	res.Notes["snapshots_byte_compared"] = snaps
	res.Notes["producer_restarts"] = restartsB
	res.Notes["chunk_bytes"] = chunkBytes
	res.Notes["blocks_after_restore"] = blocksAfter
	res.Notes["restores_polled_during_sync"] = polledRuns
	res.Notes["polls_before_offer"] = polledBefore
	res.Notes["polls_between_chunks"] = polledBetween
	res.Notes["sync_queries_answered"] = pollCalls
	return res
}
