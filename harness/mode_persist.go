package main

// Persistence modes: crash during Commit (C10) and state-sync snapshots (C29).
//
// Crash mode.  Every write that reaches one of the three storage DBs (application DB, state DB, events DB) goes through a
// logging wrapper; one entry = one atomic write (a Set/Delete, or a whole tm-db batch) = one crash point.  "The process
// died after the k-th write of Commit(h)" is reproduced exactly by materialising fresh goleveldb directories that contain
// the log prefix up to that write and opening a new node on them.  Then Tendermint's handshake rule is applied with the
// block store at h (Tendermint's own state is at h-1: it is saved after Commit returns), block h is delivered again when
// the rule says so, and the node is compared with the twin that never crashed: Info, app hash, app-DB getters, full state
// export, events of block h, and the responses/hashes/exports of the next blocks.

import (
	"bytes"
	"encoding/hex"
	"encoding/json"
	"fmt"
	"io/ioutil"
	"math/rand"
	"os"
	"os/exec"
	"runtime"
	"sort"
	"strings"
	"sync"
	"time"

	"github.com/MinterTeam/minter-go-node/coreV2/appdb"
	"github.com/MinterTeam/minter-go-node/coreV2/types"
	abci "github.com/tendermint/tendermint/abci/types"
	db "github.com/tendermint/tm-db"
)

// NodeWrapDB, when set, wraps the state and events DB handles every Node opens (call sites in node.go).
var NodeWrapDB func(name string, d db.DB) db.DB

func wrapNodeDB(name string, d db.DB) db.DB {
	if NodeWrapDB != nil && d != nil {
		return NodeWrapDB(name, d)
	}
	return d
}

type wOp struct {
	del  bool
	k, v []byte
}

// wEntry is one atomic write.
type wEntry struct {
	db       string // app | state | events
	batch    bool
	ops      []wOp
	inCommit bool // Blockchain.Commit was on the stack
}

type WriteLog struct {
	mu      sync.Mutex
	entries []wEntry
	onHash  func() // called when the app DB receives the `hash` record (first app write of a Commit)
}

func (l *WriteLog) add(e wEntry) {
	pcs := make([]uintptr, 48)
	n := runtime.Callers(3, pcs)
	fr := runtime.CallersFrames(pcs[:n])
	for {
		f, more := fr.Next()
		if strings.HasSuffix(f.Function, "minter.(*Blockchain).Commit") {
			e.inCommit = true
			break
		}
		if !more {
			break
		}
	}
	l.mu.Lock()
	l.entries = append(l.entries, e)
	l.mu.Unlock()
}

func cp(b []byte) []byte { return append([]byte{}, b...) }

type logDB struct {
	db.DB
	name string
	log  *WriteLog
}

func (l *logDB) Set(k, v []byte) error {
	if l.name == "app" && string(k) == "hash" && l.log.onHash != nil {
		l.log.onHash()
	}
	l.log.add(wEntry{db: l.name, ops: []wOp{{k: cp(k), v: cp(v)}}})
	return l.DB.Set(k, v)
}
func (l *logDB) SetSync(k, v []byte) error {
	l.log.add(wEntry{db: l.name, ops: []wOp{{k: cp(k), v: cp(v)}}})
	return l.DB.SetSync(k, v)
}
func (l *logDB) Delete(k []byte) error {
	l.log.add(wEntry{db: l.name, ops: []wOp{{del: true, k: cp(k)}}})
	return l.DB.Delete(k)
}
func (l *logDB) DeleteSync(k []byte) error {
	l.log.add(wEntry{db: l.name, ops: []wOp{{del: true, k: cp(k)}}})
	return l.DB.DeleteSync(k)
}
func (l *logDB) NewBatch() db.Batch { return &logBatch{b: l.DB.NewBatch(), l: l} }

type logBatch struct {
	b   db.Batch
	l   *logDB
	ops []wOp
}

func (b *logBatch) Set(k, v []byte) error {
	if b.l.name == "app" && string(k) == "hash" && b.l.log.onHash != nil {
		b.l.log.onHash()
	}
	b.ops = append(b.ops, wOp{k: cp(k), v: cp(v)})
	return b.b.Set(k, v)
}
func (b *logBatch) Delete(k []byte) error {
	b.ops = append(b.ops, wOp{del: true, k: cp(k)})
	return b.b.Delete(k)
}
func (b *logBatch) flushLog() {
	b.l.log.add(wEntry{db: b.l.name, batch: true, ops: b.ops})
	b.ops = nil
}
func (b *logBatch) Write() error     { b.flushLog(); return b.b.Write() }
func (b *logBatch) WriteSync() error { b.flushLog(); return b.b.WriteSync() }
func (b *logBatch) Close() error     { return b.b.Close() }

// tag names one write like the Lean model does (`Write.tag`).
func (e *wEntry) tag() string {
	switch e.db {
	case "events":
		return "events"
	case "state":
		// iavl nodedb keys: 'r'+version = root, 'n' = node, 'o' = orphan
		for _, o := range e.ops {
			if !o.del && len(o.k) > 0 && o.k[0] == 'r' {
				return "tree"
			}
		}
		for _, o := range e.ops {
			if o.del && len(o.k) > 0 && o.k[0] == 'r' {
				return "prune"
			}
		}
		return "state?"
	case "app":
		var ks []string
		for _, o := range e.ops {
			ks = append(ks, string(o.k))
		}
		if e.batch {
			return "batch[" + strings.Join(ks, "+") + "]"
		}
		return strings.Join(ks, "+")
	}
	return "?"
}

// materialize writes the entries into goleveldb directories under home/data (created when missing).
func materialize(home string, entries []wEntry) error {
	os.MkdirAll(home+"/data", 0o755)
	os.MkdirAll(home+"/config", 0o755)
	dbs := map[string]db.DB{}
	defer func() {
		for _, d := range dbs {
			d.Close()
		}
	}()
	for _, name := range []string{"app", "state", "events", "snapshots"} {
		d, err := db.NewGoLevelDB(name, home+"/data")
		if err != nil {
			return err
		}
		dbs[name] = d
	}
	for i := range entries {
		e := &entries[i]
		d := dbs[e.db]
		if e.batch {
			b := d.NewBatch()
			for _, o := range e.ops {
				if o.del {
					b.Delete(o.k)
				} else {
					b.Set(o.k, o.v)
				}
			}
			if err := b.Write(); err != nil {
				return err
			}
			b.Close()
			continue
		}
		for _, o := range e.ops {
			var err error
			if o.del {
				err = d.Delete(o.k)
			} else {
				err = d.Set(o.k, o.v)
			}
			if err != nil {
				return err
			}
		}
	}
	return nil
}

func copyDir(src, dst string) error {
	out, err := exec.Command("cp", "-r", src, dst).CombinedOutput()
	if err != nil {
		return fmt.Errorf("cp: %v %s", err, out)
	}
	return nil
}

// openNodeOn opens a node over existing data (no InitChain), like a process start.
func openNodeOn(home string, tmpl *Node) (n *Node, err error) {
	n = &Node{Home: home, Disk: true, Period: tmpl.Period, ExpirePeriod: tmpl.ExpirePeriod}
	n.Cfg = newCfg(home, true, tmpl.Cfg.KeepLastStates)
	defer func() {
		if r := recover(); r != nil {
			err = fmt.Errorf("PANIC on start: %s", shortPanic(r))
		}
	}()
	err = n.reopen()
	return
}

// lineRec captures protocol lines (a Sink whose "driver" is this recorder).
type lineRec struct{ lines []string }

func (r *lineRec) Write(p []byte) (int, error) {
	r.lines = append(r.lines, strings.TrimRight(string(p), "\n"))
	return len(p), nil
}
func (r *lineRec) Close() error { return nil }

// BlockRec is everything needed to deliver a block again and to know what the uncrashed node answered.
type BlockRec struct {
	H        uint64
	T        time.Time
	Votes    []Vote
	Byz      []types.TmAddress
	Txs      []*GenTx
	DOut     []string
	EOut     string
	Hash     []byte
	Dump     Dump
	Events   string
	LogStart int
	LogEnd   int
	Pending  [4]bool // validators pending, dirty versions, dirty emission, dirty price (read at the first app write)
	HasFlags bool
}

func parseB(line string) (t time.Time, votes []Vote, byz []types.TmAddress) {
	for _, f := range strings.Fields(line) {
		switch {
		case strings.HasPrefix(f, "t="):
			var s int64
			fmt.Sscan(f[2:], &s)
			t = time.Unix(s, 0).UTC()
		case strings.HasPrefix(f, "votes=") && len(f) > 6:
			for _, p := range strings.Split(f[6:], ",") {
				q := strings.Split(p, ":")
				b, _ := hex.DecodeString(q[0])
				var a types.TmAddress
				copy(a[:], b)
				votes = append(votes, Vote{Addr: a, Signed: q[1] == "1"})
			}
		case strings.HasPrefix(f, "byz=") && len(f) > 4:
			for _, p := range strings.Split(f[4:], ",") {
				b, _ := hex.DecodeString(p)
				var a types.TmAddress
				copy(a[:], b)
				byz = append(byz, a)
			}
		}
	}
	return
}

func trimD(l string) string {
	if i := strings.Index(l, " x.selforders="); i >= 0 {
		return l[:i]
	}
	return l
}

// persistDump: committed state export plus everything the application DB answers.
func persistDump(n *Node) (d Dump, pan string) {
	defer func() {
		if r := recover(); r != nil {
			pan = shortPanic(r)
		}
	}()
	st, p := n.Export()
	if p != "" {
		return nil, p
	}
	d = DumpState(&st)
	adb := n.App.VerifAppDB()
	inf := n.App.Info(abci.RequestInfo{})
	d["info"] = fmt.Sprintf("%d %x", inf.LastBlockHeight, inf.LastBlockAppHash)
	d["db start"] = fmt.Sprint(adb.GetStartHeight())
	if e := adb.Emission(); e != nil {
		d["db emission"] = e.String()
	}
	t, r0, r1, last, off := adb.GetPrice()
	if r0 != nil {
		d["db price"] = fmt.Sprintf("%d %s %s %s %v", t.UnixNano(), r0, r1, last, off)
	}
	var vs []string
	for _, v := range adb.GetVersions() {
		vs = append(vs, fmt.Sprintf("%s@%d", v.Name, v.Height))
	}
	d["db versions"] = strings.Join(vs, ",")
	var vals []string
	for _, v := range adb.GetValidators() {
		vals = append(vals, fmt.Sprintf("%x:%d", v.PubKey.GetEd25519(), v.Power))
	}
	d["db validators"] = strings.Join(vals, ",")
	sum, cnt := adb.GetLastBlockTimeDelta()
	d["db blockdelta"] = fmt.Sprintf("%d %d", sum, cnt)
	return d, ""
}

func eventsOf(n *Node, h uint64) (s string) {
	defer func() {
		if r := recover(); r != nil {
			s = "PANIC " + shortPanic(r)
		}
	}()
	var parts []string
	for _, e := range n.App.GetEventsDB().LoadEvents(uint32(h)) {
		b, _ := json.Marshal(e)
		parts = append(parts, e.Type()+string(b))
	}
	return strings.Join(parts, ";")
}

// deliverRec runs one recorded block on n and returns what differs from the record.
func deliverRec(n *Node, r *BlockRec, withDump bool) (diffs []string) {
	if p := n.Begin(r.H, r.T, r.Votes, r.Byz); p != "" {
		return []string{fmt.Sprintf("BeginBlock h=%d panics: %s", r.H, p)}
	}
	for i, g := range r.Txs {
		resp, p := n.Deliver(g.Raw)
		if p != "" {
			return append(diffs, fmt.Sprintf("DeliverTx h=%d #%d panics: %s", r.H, i, p))
		}
		got := txLine(g, resp.Code, tagsOf(resp.Events))
		if i < len(r.DOut) && got != r.DOut[i] {
			diffs = append(diffs, fmt.Sprintf("DeliverTx h=%d #%d: %s | uncrashed: %s", r.H, i, clip(got, 200), clip(r.DOut[i], 200)))
		}
	}
	er, p := n.End(r.H)
	if p != "" {
		return append(diffs, fmt.Sprintf("EndBlock h=%d panics: %s", r.H, p))
	}
	eo := fmt.Sprintf("E h=%d updates=%s maxgas=%d", r.H, fmtUpdates(er.ValidatorUpdates), er.ConsensusParamUpdates.Block.MaxGas)
	if eo != r.EOut {
		diffs = append(diffs, fmt.Sprintf("EndBlock: %s | uncrashed: %s", clip(eo, 300), clip(r.EOut, 300)))
	}
	hash, p := n.Commit()
	if p != "" {
		return append(diffs, fmt.Sprintf("Commit h=%d panics: %s", r.H, p))
	}
	if !bytes.Equal(hash, r.Hash) {
		diffs = append(diffs, fmt.Sprintf("app hash h=%d: %x | uncrashed: %x", r.H, hash, r.Hash))
	}
	if withDump {
		diffs = append(diffs, dumpDiff(n, r)...)
	}
	return
}

func dumpDiff(n *Node, r *BlockRec) (diffs []string) {
	d, p := persistDump(n)
	if p != "" {
		return []string{fmt.Sprintf("query at h=%d panics: %s", r.H, p)}
	}
	dl := Delta(r.Dump, d)
	sort.Strings(dl)
	for _, x := range dl {
		k := strings.SplitN(strings.TrimLeft(x, "=-"), "\t", 2)[0]
		diffs = append(diffs, fmt.Sprintf("after h=%d %q: %q | uncrashed: %q", r.H, k, d[k], r.Dump[k]))
	}
	if ev := eventsOf(n, r.H); ev != r.Events {
		diffs = append(diffs, fmt.Sprintf("events of h=%d: %s | uncrashed: %s", r.H, clip(ev, 200), clip(r.Events, 200)))
	}
	return
}

// recordedHistory runs a whole history on a logged disk node and records every block.
func recordedHistory(o HistOpts, wl *WriteLog) (h *Hist, recs []*BlockRec, genesisEnd int, err error) {
	appdb.VerifWrapDB = func(d db.DB) db.DB { return &logDB{DB: d, name: "app", log: wl} }
	NodeWrapDB = func(name string, d db.DB) db.DB { return &logDB{DB: d, name: name, log: wl} }
	defer func() { appdb.VerifWrapDB = nil; NodeWrapDB = nil }()
	rec := &lineRec{}
	sink, _ := NewSink("", "")
	sink.in = rec
	o.Node.Disk = true
	h, err = NewHist(o, sink)
	if err != nil {
		return nil, nil, 0, err
	}
	genesisEnd = len(wl.entries)
	var cur *BlockRec
	h.DebugHook = func(g *GenTx) { cur.Txs = append(cur.Txs, g) }
	wl.onHash = func() {
		if cur != nil && !cur.HasFlags {
			a, b, c, d := h.N.App.VerifAppDB().VerifPending()
			cur.Pending = [4]bool{a, b, c, d}
			cur.HasFlags = true
		}
	}
	for i := 0; i < o.Blocks; i++ {
		cur = &BlockRec{H: h.N.Height + 1, LogStart: len(wl.entries)}
		rec.lines = rec.lines[:0]
		ok := h.Block()
		cur.LogEnd = len(wl.entries)
		if !ok {
			break
		}
		for _, l := range rec.lines {
			switch {
			case strings.HasPrefix(l, "B "):
				cur.T, cur.Votes, cur.Byz = parseB(l)
			case strings.HasPrefix(l, "D "):
				cur.DOut = append(cur.DOut, trimD(l))
			case strings.HasPrefix(l, "E "):
				cur.EOut = l
			case strings.HasPrefix(l, "C "):
				if j := strings.Index(l, "hash="); j >= 0 {
					cur.Hash, _ = hex.DecodeString(l[j+5:])
				}
			}
		}
		d, p := persistDump(h.N)
		if p != "" {
			return h, recs, genesisEnd, fmt.Errorf("dump of the recording node: %s", p)
		}
		cur.Dump = d
		cur.Events = eventsOf(h.N, cur.H)
		recs = append(recs, cur)
	}
	wl.onHash = nil
	return h, recs, genesisEnd, nil
}

func b01(b bool) string {
	if b {
		return "1"
	}
	return "0"
}

// commitShape derives the model inputs of one commit from the log: atomic?, number of events writes, tags.
func commitShape(wl *WriteLog, r *BlockRec) (atomic bool, nEv int, tags []string, outside int) {
	for i := r.LogStart; i < r.LogEnd; i++ {
		e := &wl.entries[i]
		if !e.inCommit {
			outside++
		}
		t := e.tag()
		if e.db == "events" {
			nEv++
		}
		if e.db == "app" && e.batch {
			atomic = true
		}
		tags = append(tags, t)
	}
	return
}

// CrashMode (C10): exhaustive crash points of sampled commits on goleveldb.
func CrashMode(profile string, baseSeed int64, n int, tier, driver, keep string) ModeResult {
	res := ModeResult{Notes: map[string]interface{}{}}
	os.MkdirAll(keep, 0o755)
	tracePath := fmt.Sprintf("%s/crash-q-%s-%d.txt", keep, profile, baseSeed)
	sink, err := NewSink(tracePath, driver)
	if err != nil {
		res.Crash = err.Error()
		return res
	}
	perHist := 3
	if tier == "thorough" {
		perHist = 24
	}
	points, recovered, blocksSampled, replays := 0, 0, 0, 0
	shapes := map[string]int{}
	lostBy := map[string]int{}
	for i := 0; i < n; i++ {
		seed := baseSeed*1000 + int64(i)
		o := Profile(profile, seed, tier)
		if tier != "thorough" {
			o.Blocks = 26
		}
		o.Restarts = 0
		if i%2 == 1 {
			o.Node.KeepStates = 2 // pruning writes become crash points
		}
		if i%4 == 2 {
			o.TimeMode = 1 // reward price updates
		}
		wl := &WriteLog{}
		h, recs, _, err := recordedHistory(o, wl)
		if err != nil {
			res.Crash = "history setup failed: " + err.Error()
			if h != nil {
				h.N.Destroy()
			}
			continue
		}
		res.Evaluations += h.Ops
		start := h.N.App.VerifAppDB().GetStartHeight()
		kp := uint64(h.N.Cfg.KeepLastStates)
		// correspondence of the write order of every commit with the model
		for _, r := range recs {
			atomic, nEv, tags, outside := commitShape(wl, r)
			if outside > 0 {
				res.viol("C10", fmt.Sprintf("seed %d h=%d: %d storage writes happen outside Commit (the model has none)", seed, r.H, outside), "")
			}
			prune := r.H >= start+kp+1
			if !r.HasFlags {
				res.viol("C10", fmt.Sprintf("seed %d h=%d: Commit wrote no `hash` record", seed, r.H), "")
				continue
			}
			line := fmt.Sprintf("Q commitorder %s %d %s %s %s %s %s = %s", b01(atomic), nEv, b01(prune), b01(r.Pending[0]), b01(r.Pending[1]), b01(r.Pending[2]), b01(r.Pending[3]), strings.Join(tags, ","))
			shapes[strings.Join(tags, ",")]++
			sink.Op(line)
			res.Evaluations++
		}
		// sample blocks: the ones whose commit flushes the rarer records first
		rng := rand.New(rand.NewSource(seed ^ 0xc4a5))
		var cand []int
		seen := map[int]bool{}
		add := func(j int) {
			if j >= 0 && j < len(recs) && !seen[j] {
				seen[j] = true
				cand = append(cand, j)
			}
		}
		if i == 0 {
			add(0) // the first block after InitChain: the only commit that follows a state built in memory by InitChain
		}
		for j, r := range recs {
			if r.Pending[1] {
				add(j)
			}
		}
		for j, r := range recs {
			if j > 0 && r.Dump["db price"] != recs[j-1].Dump["db price"] {
				add(j)
			}
		}
		var valBlocks []int
		for j, r := range recs {
			if r.Pending[0] {
				valBlocks = append(valBlocks, j)
			}
		}
		if len(valBlocks) > 0 {
			add(valBlocks[rng.Intn(len(valBlocks))])
		}
		for tries := 0; tries < 4*len(recs) && len(cand) < perHist+2; tries++ {
			add(rng.Intn(len(recs)))
		}
		if len(cand) > perHist {
			cand = cand[:perHist]
		}
		// integrator: the crash points of the first block after InitChain (genesis-boundary defect: InitChain changes the
		// state in memory after the genesis commit) are reported separately from every other block, so that recording
		// the one as a known finding can never hide the other.
		var report, genesisReport []string
		for _, j := range cand {
			r := recs[j]
			blocksSampled++
			base, _ := ioutil.TempDir(tmpRoot(), "verif-crashbase-")
			if err := materialize(base, wl.entries[:r.LogStart]); err != nil {
				res.Crash = "materialize: " + err.Error()
				os.RemoveAll(base)
				continue
			}
			atomic, nEv, tags, _ := commitShape(wl, r)
			total := r.LogEnd - r.LogStart
			for k := 0; k <= total; k++ {
				points++
				dir, _ := ioutil.TempDir(tmpRoot(), "verif-crash-")
				os.RemoveAll(dir)
				if err := copyDir(base, dir); err != nil {
					res.Crash = err.Error()
					continue
				}
				materialize(dir, wl.entries[r.LogStart:r.LogStart+k])
				diffs, info := recoverAndCompare(dir, h.N, recs, j, &replays)
				os.RemoveAll(dir)
				// the model's prediction of what the restarted node reports
				prune := r.H >= start+kp+1
				sink.Op(fmt.Sprintf("Q crashinfo %s %d %d %s %s %s %s %s = %s", b01(atomic), k, nEv, b01(prune), b01(r.Pending[0]), b01(r.Pending[1]), b01(r.Pending[2]), b01(r.Pending[3]), info))
				res.Evaluations++
				if len(diffs) == 0 {
					recovered++
					continue
				}
				last, lost := "-", tags[k:]
				if k > 0 {
					last = tags[k-1]
				}
				for _, t := range lost {
					lostBy[t]++
				}
				where := ""
				if j == 0 {
					where = " first-block-after-InitChain"
				}
				if j == 0 && k == 0 {
					// no write of the commit is on disk: this is a plain restart between InitChain and the first block
					res.viol("C09", fmt.Sprintf("genesis-boundary: seed %d: a node restarted before the first block after InitChain (h=%d) does not continue like the unrestarted one: %s", seed, r.H, clip(diffs[0], 240)), fmt.Sprintf("%s/crash-%s-%d.txt", keep, profile, seed))
				}
				entry := fmt.Sprintf("seed=%d profile=%s h=%d"+where+" k=%d/%d last-write=%s unwritten=%s info=%s\n    %s", seed, profile, r.H, k, total, last, strings.Join(lost, ","), info, strings.Join(diffs[:minInt(5, len(diffs))], "\n    "))
				if j == 0 {
					genesisReport = append(genesisReport, entry)
				} else {
					report = append(report, entry)
				}
			}
			os.RemoveAll(base)
		}
		if len(report)+len(genesisReport) > 0 {
			dst := fmt.Sprintf("%s/crash-%s-%d.txt", keep, profile, seed)
			all := append(append([]string{}, genesisReport...), report...)
			ioutil.WriteFile(dst, []byte(fmt.Sprintf("C10: crash points of Commit that do not recover (harness crash -profile %s -seed %d; history seed %d)\n\n%s\n", profile, baseSeed, seed, strings.Join(all, "\n"))), 0o644)
			if len(genesisReport) > 0 {
				first := strings.SplitN(genesisReport[0], "\n", 3)
				res.viol("C10", fmt.Sprintf("genesis-boundary: %d crash points of the Commit of the first block after InitChain do not recover; first: %s :: %s", len(genesisReport), first[0], clip(strings.TrimSpace(first[1]), 240)), dst)
			}
			if len(report) > 0 {
				first := strings.SplitN(report[0], "\n", 3)
				res.viol("C10", fmt.Sprintf("%d crash points of Commit do not recover; first: %s :: %s", len(report), first[0], clip(strings.TrimSpace(first[1]), 240)), dst)
			}
		}
		if len(res.Samples) < 2 {
			res.Samples = append(res.Samples, map[string]interface{}{"seed": seed, "blocks": len(recs), "writes_logged": len(wl.entries), "sampled_heights": func() []uint64 {
				var hs []uint64
				for _, j := range cand {
					hs = append(hs, recs[j].H)
				}
				return hs
			}()})
		}
		h.N.Destroy()
	}
	sink.Close()
	seenFail := map[string]int{}
	for _, f := range sink.Fails {
		seenFail[f]++
	}
	for f, c := range seenFail {
		res.viol("C10", fmt.Sprintf("write order / crash report differs from the Lean model (%d times): %s", c, clip(f, 300)), tracePath)
	}
	if len(sink.Fails) == 0 {
		os.Remove(tracePath)
	}
	res.Distinct = points
	res.Notes["crash_points"] = points
	res.Notes["recovered"] = recovered
	res.Notes["blocks_sampled"] = blocksSampled
	res.Notes["blocks_redelivered"] = replays
	res.Notes["commit_shapes"] = shapes
	res.Notes["unwritten_at_failing_points"] = lostBy
	return res
}

// recoverAndCompare opens a node on a crashed data directory, applies the handshake rule for a block store at
// recs[j].H and compares with the uncrashed record.  info = "<height-(h-1)>,<hash tag>,<blocks re-delivered>" | dead.
func recoverAndCompare(dir string, tmpl *Node, recs []*BlockRec, j int, replays *int) (diffs []string, info string) {
	r := recs[j]
	c, err := openNodeOn(dir, tmpl)
	defer func() {
		if c != nil && c.App != nil {
			func() { defer func() { recover() }(); c.App.Close() }()
		}
	}()
	if err != nil {
		return []string{"node does not start: " + clip(err.Error(), 300)}, "dead"
	}
	var inf abci.ResponseInfo
	if p := func() (p string) {
		defer func() {
			if x := recover(); x != nil {
				p = shortPanic(x)
			}
		}()
		inf = c.App.Info(abci.RequestInfo{})
		return ""
	}(); p != "" {
		return []string{"Info panics: " + p}, "dead"
	}
	appH := uint64(inf.LastBlockHeight)
	tagOf := func(hash []byte) string {
		if bytes.Equal(hash, r.Hash) {
			return "1"
		}
		if j > 0 && bytes.Equal(hash, recs[j-1].Hash) {
			return "0"
		}
		if j == 0 && len(hash) == 0 {
			return "0"
		}
		return "x"
	}
	c.Height = appH
	nrep := 0
	switch {
	case appH > r.H:
		return []string{fmt.Sprintf("Info height %d is ahead of the block store %d", appH, r.H)}, "dead"
	case appH == r.H:
		if !bytes.Equal(inf.LastBlockAppHash, r.Hash) {
			diffs = append(diffs, fmt.Sprintf("Info reports height %d with app hash %x, the chain recorded %x", appH, inf.LastBlockAppHash, r.Hash))
		}
		diffs = append(diffs, dumpDiff(c, r)...)
	default:
		// re-deliver appH+1 .. h
		first := j - int(r.H-appH) + 1
		if first < 0 {
			return []string{fmt.Sprintf("Info height %d is below the first recorded block", appH)}, "dead"
		}
		for q := first; q <= j; q++ {
			nrep++
			*replays++
			diffs = append(diffs, deliverRec(c, recs[q], q == j)...)
			if c.Dead != "" {
				break
			}
		}
	}
	info = fmt.Sprintf("%d,%s,%d", int64(appH)-int64(r.H-1), tagOf(inf.LastBlockAppHash), nrep)
	if j == 0 || tagOf(inf.LastBlockAppHash) == "x" {
		// the model numbers hashes by height; the genesis commit has no hash record
		if tagOf(inf.LastBlockAppHash) == "x" {
			diffs = append(diffs, fmt.Sprintf("Info app hash %x is neither the hash of h nor of h-1", inf.LastBlockAppHash))
		}
	}
	if c.Dead != "" {
		return diffs, info
	}
	// the following blocks
	for q := j + 1; q < len(recs) && q <= j+3; q++ {
		diffs = append(diffs, deliverRec(c, recs[q], true)...)
		if c.Dead != "" {
			break
		}
	}
	return diffs, info
}

