package main

// Directed generators: boundary-shaped, mostly valid inputs that a wallet (or an adversary who reads the state) produces and
// that uniform random draws practically never hit: slippage limits equal to the current quote, amounts equal to what is
// left (balance - fee, room to the max supply, issuer balance - value), fees paid in the coin the transaction works on,
// dust orders at the pool price, and short multi-transaction scenarios ("dances") whose steps must happen in a given
// order inside one block or across a few blocks.

import (
	"fmt"
	"math/big"

	"github.com/MinterTeam/minter-go-node/coreV2/state/commission"
	"github.com/MinterTeam/minter-go-node/coreV2/state/swap"
	tx "github.com/MinterTeam/minter-go-node/coreV2/transaction"
	"github.com/MinterTeam/minter-go-node/coreV2/types"
	"github.com/MinterTeam/minter-go-node/formula"
)

// plainTx removes the random header decorations of Build: the fee of a plain transaction is predictable.
func plainTx(t *tx.Transaction) { t.GasPrice = 1; t.Payload = nil; t.ServiceData = nil }

type priced interface {
	CommissionData(*commission.Price) *big.Int
}

// Fee is the commission of a plain transaction as the node will compute it on the current state.
type Fee struct {
	Coin    types.CoinID
	InBase  *big.Int // base-coin value handed to Run
	InCoin  *big.Int // amount debited in Coin
	ViaPool bool     // converted through the pool (Coin, BIP) rather than the reserve
	PoolID  uint32
	OK      bool
}

// feeOf computes the commission of `data` paid in gasCoin with gas price 1 and no payload (see plainTx), the way RunTx and
// CalculateCommission do. OK=false when the node would reject the commission (no route, unknown coin, no liquidity).
func (g *Gen) feeOf(data interface{}, gasCoin types.CoinID) (f Fee) {
	defer func() {
		if r := recover(); r != nil {
			f.OK = false
		}
	}()
	f.Coin = gasCoin
	p, ok := data.(priced)
	if !ok {
		return
	}
	cs := g.cs()
	table := cs.Commission().GetCommissions()
	inBase := new(big.Int).Set(p.CommissionData(table))
	if inBase.Sign() == 0 {
		return
	}
	if !table.Coin.IsBaseCoin() {
		sw := cs.Swap().GetSwapper(table.Coin, types.GetBaseCoinID())
		if !sw.Exists() {
			return
		}
		q, _ := sw.CalculateBuyForSellWithOrders(inBase)
		if q == nil || q.Sign() != 1 {
			return
		}
		inBase = q
	}
	gc := cs.Coins().GetCoin(gasCoin)
	if gc == nil {
		return
	}
	pool := cs.Swap().GetSwapper(gasCoin, types.GetBaseCoinID())
	com, viaPool, errResp := tx.CalculateCommission(cs, pool, gc, inBase)
	if errResp != nil || com == nil {
		return
	}
	f.InBase, f.InCoin, f.ViaPool, f.OK = inBase, com, bool(viaPool), true
	if f.ViaPool {
		f.PoolID = pool.GetID()
	}
	return
}

// stepSwapper returns the pool of the route step sell->buy; with a fee it is the pool as the commission exchange leaves it
// (the node exchanges the commission first when the commission pool is a step of the route).
func (g *Gen) stepSwapper(sell, buy types.CoinID, fee *Fee) swap.EditableChecker {
	sw := g.cs().Swap().GetSwapper(sell, buy)
	if fee == nil || !fee.OK || !fee.ViaPool || !sw.Exists() || sw.GetID() != fee.PoolID {
		return sw
	}
	comPool := g.cs().Swap().GetSwapper(fee.Coin, types.GetBaseCoinID())
	inBase, _ := comPool.CalculateBuyForSellWithOrders(fee.InCoin)
	if inBase == nil {
		return sw
	}
	if fee.Coin == sell && buy.IsBaseCoin() {
		return sw.AddLastSwapStepWithOrders(fee.InCoin, inBase, false)
	}
	if fee.Coin == buy && sell.IsBaseCoin() {
		return sw.AddLastSwapStepWithOrders(new(big.Int).Neg(inBase), new(big.Int).Neg(fee.InCoin), true)
	}
	return sw
}

// quoteSell: what selling `amount` of route[0] along the route yields on the current pools (nil: not quotable).
// fee == nil: the quote of the current reserves (what an estimate API answers); fee != nil: the commission exchange applied first.
func (g *Gen) quoteSell(route []types.CoinID, amount *big.Int, fee *Fee) (out *big.Int) {
	defer func() {
		if r := recover(); r != nil {
			out = nil
		}
	}()
	if amount == nil || amount.Sign() != 1 {
		return nil
	}
	v := new(big.Int).Set(amount)
	for i := 0; i+1 < len(route); i++ {
		sw := g.stepSwapper(route[i], route[i+1], fee)
		if !sw.Exists() {
			return nil
		}
		q, _ := sw.CalculateBuyForSellWithOrders(v)
		if q == nil || q.Sign() != 1 {
			return nil
		}
		if sw.CheckSwap(v, q) != nil {
			return nil
		}
		v = q
	}
	return v
}

// quoteBuy: what has to be sold of route[0] to receive `amount` of the last coin of the route.
func (g *Gen) quoteBuy(route []types.CoinID, amount *big.Int, fee *Fee) (in *big.Int) {
	defer func() {
		if r := recover(); r != nil {
			in = nil
		}
	}()
	if amount == nil || amount.Sign() != 1 {
		return nil
	}
	v := new(big.Int).Set(amount)
	for i := len(route) - 1; i > 0; i-- {
		sw := g.stepSwapper(route[i-1], route[i], fee)
		if !sw.Exists() {
			return nil
		}
		_, r1 := sw.Reserves()
		if r1.Cmp(v) <= 0 {
			return nil
		}
		q, _ := sw.CalculateSellForBuyWithOrders(v)
		if q == nil || q.Sign() != 1 {
			return nil
		}
		v = q
	}
	return v
}

// nearQuote: a limit at the quote or a hair next to it (the boundary of acceptance is at the quote itself).
func (g *Gen) nearQuote(q *big.Int) *big.Int {
	switch g.rint(8) {
	case 0:
		return new(big.Int).Add(q, big.NewInt(1))
	case 1:
		if q.Sign() == 1 {
			return new(big.Int).Sub(q, big.NewInt(1))
		}
	case 2:
		d := big.NewInt(int64(2 + g.rint(2000)))
		if q.Cmp(d) > 0 {
			return new(big.Int).Sub(q, d)
		}
	case 3:
		return new(big.Int).Add(q, big.NewInt(int64(2+g.rint(2000))))
	}
	return new(big.Int).Set(q)
}

// gasAmong: users mostly pay the fee in a coin the transaction handles anyway. Picks one of `coins` the sender holds.
func (g *Gen) gasAmong(s types.Address, def types.CoinID, coins ...types.CoinID) types.CoinID {
	if g.rint(100) >= g.OwnGasPct {
		return def
	}
	var held []types.CoinID
	for _, c := range coins {
		if g.cs().Coins().Exists(c) && g.cs().Accounts().GetBalance(s, c).Sign() > 0 {
			held = append(held, c)
		}
	}
	if len(held) == 0 {
		return def
	}
	return held[g.rint(len(held))]
}

// exact tells whether a slippage limit should be an exact quote this time.
func (g *Gen) exact() bool { return g.rint(100) < g.ExactPct }

// room of a reserve coin: how many coins can still be minted.
func roomOf(c interface {
	Volume() *big.Int
	MaxSupply() *big.Int
}) *big.Int {
	return new(big.Int).Sub(c.MaxSupply(), c.Volume())
}

// tightCoins lists the reserve coins whose remaining room to the max supply is small (below 1% of the volume).
func (g *Gen) tightCoins() []types.CoinID {
	var res []types.CoinID
	for _, id := range g.allCoinIDs() {
		c := g.cs().Coins().GetCoin(id)
		if c == nil || id.IsBaseCoin() || !c.BaseOrHasReserve() {
			continue
		}
		room := roomOf(c)
		if room.Sign() >= 0 && new(big.Int).Mul(room, big.NewInt(100)).Cmp(c.Volume()) < 0 {
			res = append(res, id)
		}
	}
	return res
}

// depositForRoom: the base-coin deposit that buys about frac/100 of the remaining room of a reserve coin.
func (g *Gen) depositForRoom(to types.CoinID, frac int64) *big.Int {
	c := g.cs().Coins().GetCoin(to)
	if c == nil || to.IsBaseCoin() || !c.BaseOrHasReserve() {
		return nil
	}
	want := new(big.Int).Div(new(big.Int).Mul(roomOf(c), big.NewInt(frac)), big.NewInt(100))
	if want.Sign() != 1 {
		return nil
	}
	defer func() { recover() }()
	return formula.CalculatePurchaseAmount(c.Volume(), c.Reserve(), c.Crr(), want)
}

// roomFractions: below, at and above the remaining room.
var roomFractions = []int64{50, 99, 100, 101, 120, 150, 300, 1000}

// commissionPools lists the coins whose fee is exchanged through their pool with the base coin (tokens, or coins whose pool
// is cheaper than the reserve).
func (g *Gen) commissionPools() []types.CoinID {
	var res []types.CoinID
	for _, id := range g.allCoinIDs() {
		if id.IsBaseCoin() || !g.cs().Swap().SwapPoolExist(id, types.GetBaseCoinID()) {
			continue
		}
		if f := g.feeOf(tx.SendData{}, id); f.OK && f.ViaPool {
			res = append(res, id)
		}
	}
	return res
}

// dustOrder: a limit order selling a little base coin (about half of a usual fee) for coin x at exactly the pool price: the
// next fee paid in x through that pool consumes it completely.
func (g *Gen) dustOrder(x types.CoinID) *GenTx {
	cs := g.cs()
	sw := cs.Swap().GetSwapper(types.GetBaseCoinID(), x)
	if !sw.Exists() {
		return nil
	}
	rBase, rX := sw.Reserves()
	if rBase.Sign() != 1 || rX.Sign() != 1 {
		return nil
	}
	vs := new(big.Int).Mul(big.NewInt(int64(1+g.rint(8))), bi("5000000000000000")) // 0.005 .. 0.04
	if g.rint(3) == 0 {
		vs = bi("50000000000000000") // 0.05: half of the 0.1 pool-trade fee
	}
	// order price vs/vb must not exceed the pool price rBase/rX: vb = ceil(vs*rX/rBase) is the best price allowed
	num := new(big.Int).Mul(vs, rX)
	vb, rem := new(big.Int).QuoRem(num, rBase, new(big.Int))
	if rem.Sign() != 0 {
		vb.Add(vb, big.NewInt(1))
	}
	if vb.Cmp(big.NewInt(swap.MinimumOrderVolume())) < 0 {
		return nil
	}
	var maker types.Address
	found := false
	start := g.rint(len(g.W.Addrs))
	for i := range g.W.Addrs {
		a := g.W.Addrs[(start+i)%len(g.W.Addrs)]
		if cs.Accounts().GetBalance(a, 0).Cmp(pip(10)) > 0 {
			maker, found = a, true
			break
		}
	}
	if !found {
		return nil
	}
	t := g.Build(tx.TypeAddLimitOrder, tx.AddLimitOrderData{CoinToSell: 0, ValueToSell: vs, CoinToBuy: x, ValueToBuy: vb}, maker, 0, plainTx)
	t.Note = "dust-order"
	return t
}

// ---- dances -------------------------------------------------------------------------------------------------------

// Script returns the next scripted sequence for this block (nil: none). Steps are re-signed with the then-current nonce by
// the caller unless their note starts with "replay:" (old bytes delivered again, unchanged).
func (g *Gen) Script(height uint64, view Dump) []*GenTx {
	// a wallet life cycle in progress has the next word
	if q := g.walletDance(height); len(q) > 0 {
		return q
	}
	switch g.rint(6) {
	case 0:
		// ticker hand-over, then the new / the former owner act in the same block or later (txgen_extra.go)
		if g.owners == nil {
			g.owners = &danceState{}
		}
		return g.ownerDance(g.owners, height)
	case 1:
		return g.feeOrderDance()
	case 2:
		return g.orderDance(view)
	case 3:
		return g.partialFillDance()
	case 4:
		return g.liquidityDance()
	}
	return nil
}

// feeOrderDance: a dust order at the pool price of a commission pool, then (same block) a trade on that pool whose fee is
// paid in the pool's coin: the fee exchange eats the order, the trade itself runs on what is left.
func (g *Gen) feeOrderDance() []*GenTx {
	xs := g.commissionPools()
	if len(xs) == 0 {
		return nil
	}
	x := xs[g.rint(len(xs))]
	t1 := g.dustOrder(x)
	if t1 == nil {
		return nil
	}
	t1.Note = "dance:dust-order"
	cs := g.cs()
	var taker types.Address
	found := false
	start := g.rint(len(g.W.Addrs))
	for i := range g.W.Addrs {
		a := g.W.Addrs[(start+i)%len(g.W.Addrs)]
		if a != t1.Sender && cs.Accounts().GetBalance(a, x).Cmp(pip(50)) > 0 {
			taker, found = a, true
			break
		}
	}
	if !found {
		return []*GenTx{t1}
	}
	bal := cs.Accounts().GetBalance(taker, x)
	route := []types.CoinID{x, 0}
	var t2 *GenTx
	switch g.rint(4) {
	case 0: // cancel an order of that pool, fee in x
		var ids []uint32
		for id := uint32(1); id <= g.N.LiveNextOrderID()+1; id++ {
			if o := cs.Swap().GetOrder(id); o != nil && g.W.KeyOf[o.Owner] != nil && ((o.Coin0 == x && o.Coin1 == 0) || (o.Coin0 == 0 && o.Coin1 == x)) {
				if cs.Accounts().GetBalance(o.Owner, x).Sign() > 0 {
					ids = append(ids, id)
				}
			}
		}
		if len(ids) > 0 {
			id := ids[g.rint(len(ids))]
			t2 = g.Build(tx.TypeRemoveLimitOrder, tx.RemoveLimitOrderData{ID: id}, cs.Swap().GetOrder(id).Owner, x, plainTx)
		}
	case 1: // sell everything
		data := tx.SellAllSwapPoolDataV260{Coins: route, MinimumValueToBuy: big.NewInt(1)}
		fee := g.feeOf(data, x)
		if fee.OK && bal.Cmp(fee.InCoin) > 0 {
			if q := g.quoteSell(route, new(big.Int).Sub(bal, fee.InCoin), &fee); q != nil {
				data.MinimumValueToBuy = g.nearQuote(q)
			}
		}
		t2 = g.Build(tx.TypeSellAllSwapPool, data, taker, x, plainTx)
	case 2: // sell everything of a coin with reserve through its bonding curve, the fee (in that coin) goes through the pool:
		// the forward exchange of the fee may return a few pip less than the inverse calculation promised (F35)
		if ci := cs.Coins().GetCoin(x); ci != nil && ci.BaseOrHasReserve() {
			t2 = g.Build(tx.TypeSellAllCoin, tx.SellAllCoinData{CoinToSell: x, CoinToBuy: 0, MinimumValueToBuy: big.NewInt(1)}, taker, x, plainTx)
		}
	}
	if t2 == nil {
		amount := new(big.Int).Div(bal, big.NewInt(int64(4+g.rint(40))))
		data := tx.SellSwapPoolDataV260{Coins: route, ValueToSell: amount, MinimumValueToBuy: big.NewInt(1)}
		fee := g.feeOf(data, x)
		if q := g.quoteSell(route, amount, &fee); q != nil {
			data.MinimumValueToBuy = g.nearQuote(q)
		}
		t2 = g.Build(tx.TypeSellSwapPool, data, taker, x, plainTx)
	}
	t2.Note = "dance:fee-through-order"
	return []*GenTx{t1, t2}
}

// walletDance: the life cycle of a light wallet. A fresh address is funded, makes a payment, is emptied with "send max"
// (balance - fee, exactly zero of every coin is left), is funded again some blocks later, and then the bytes it signed in
// its first life are delivered again. The wallet's nonce has to survive the time it holds nothing.
type walletLife struct {
	addr   types.Address
	funder types.Address
	stage  int
	next   uint64   // earliest height of the next stage
	old    [][]byte // bytes signed (and accepted) in the first life, in nonce order
}

func (g *Gen) walletDance(height uint64) []*GenTx {
	cs := g.cs()
	if g.wallet == nil {
		if len(g.W.Wallets) == 0 || g.walletsUsed >= len(g.W.Wallets) || g.rint(3) != 0 {
			return nil
		}
		w := g.W.Wallets[g.walletsUsed]
		g.walletsUsed++
		var funder types.Address
		found := false
		start := g.rint(len(g.W.Addrs))
		for i := range g.W.Addrs {
			a := g.W.Addrs[(start+i)%len(g.W.Addrs)]
			if cs.Accounts().GetBalance(a, 0).Cmp(pip(1000)) > 0 {
				funder, found = a, true
				break
			}
		}
		if !found {
			return nil
		}
		g.wallet = &walletLife{addr: w, funder: funder, next: height}
	}
	wl := g.wallet
	if height < wl.next {
		return nil
	}
	bal := cs.Accounts().GetBalance(wl.addr, 0)
	switch wl.stage {
	case 0: // funded
		t := g.Build(tx.TypeSend, tx.SendData{Coin: 0, To: wl.addr, Value: pip(int64(5 + g.rint(200)))}, wl.funder, 0, plainTx)
		t.Note = "dance:wallet-fund"
		wl.stage, wl.next = 1, height+uint64(g.rint(2))
		return []*GenTx{t}
	case 1: // first payment(s), then "send max"
		if bal.Sign() == 0 {
			g.wallet = nil // the funding did not arrive
			return nil
		}
		var q []*GenTx
		t := g.Build(tx.TypeSend, tx.SendData{Coin: 0, To: g.pickAddr(), Value: new(big.Int).Div(bal, big.NewInt(int64(3+g.rint(20))))}, wl.addr, 0, plainTx)
		t.Note = "dance:wallet-pay"
		q = append(q, t)
		wl.stage, wl.next = 2, height+uint64(g.rint(2))
		return q
	case 2: // everything back to the funder, to the last pip
		coins := g.coinsOf(wl.addr)
		var q []*GenTx
		for _, c := range coins {
			if c != 0 { // somebody sent other coins meanwhile: they go first, fee in base coin
				t := g.Build(tx.TypeSend, tx.SendData{Coin: c, To: wl.funder, Value: cs.Accounts().GetBalance(wl.addr, c)}, wl.addr, 0, plainTx)
				t.Note = "dance:wallet-drain"
				q = append(q, t)
			}
		}
		fee := g.feeOf(tx.SendData{}, 0)
		if !fee.OK || bal.Cmp(fee.InCoin) <= 0 {
			g.wallet = nil
			return q
		}
		if len(q) > 0 {
			// the balance left after the other sends is only known then: drain the base coin in the next block
			wl.next = height + 1
			return q
		}
		t := g.Build(tx.TypeSend, tx.SendData{Coin: 0, To: wl.funder, Value: new(big.Int).Sub(bal, fee.InCoin)}, wl.addr, 0, plainTx)
		t.Note = "dance:wallet-sendmax"
		wl.stage, wl.next = 3, height+1+uint64(g.rint(3))
		return []*GenTx{t}
	case 3: // funded again, in a later block
		if len(g.coinsOf(wl.addr)) != 0 || len(g.Sent[wl.addr]) < 2 {
			g.wallet = nil // the wallet was not emptied
			return nil
		}
		wl.old = append([][]byte{}, g.Sent[wl.addr]...)
		t := g.Build(tx.TypeSend, tx.SendData{Coin: 0, To: wl.addr, Value: pip(int64(50 + g.rint(500)))}, wl.funder, 0, plainTx)
		t.Note = "dance:wallet-refund"
		wl.stage, wl.next = 4, height+uint64(g.rint(3))
		return []*GenTx{t}
	default: // the old bytes again, in nonce order
		var q []*GenTx
		for i, raw := range wl.old {
			if i >= 3 {
				break
			}
			q = append(q, &GenTx{Type: tx.TypeSend, Sender: wl.addr, Raw: raw, Note: "replay:wallet-old-bytes", Data: tx.SendData{}})
		}
		g.wallet = nil
		return q
	}
}

// partialFillDance: a taker trade on a pool with the base coin that walks the curve up to the best limit order and stops
// inside it (30-80 % of the order), leaving the rest in the book: afterwards the pool price sits exactly on that order, and
// the next fee exchanged through this pool crosses it. The book is read through the node's own getters.
func (g *Gen) partialFillDance() (q []*GenTx) {
	defer func() {
		if r := recover(); r != nil {
			q = nil
		}
	}()
	cs := g.cs()
	type side struct{ sell, buy types.CoinID }
	var sides []side
	for _, id := range g.allCoinIDs() {
		if !id.IsBaseCoin() && cs.Swap().SwapPoolExist(id, 0) {
			sides = append(sides, side{id, 0}, side{0, id})
		}
	}
	if len(sides) == 0 {
		return nil
	}
	start := g.rint(len(sides))
	for i := range sides {
		sd := sides[(start+i)%len(sides)]
		sw := cs.Swap().GetSwapper(sd.sell, sd.buy)
		best := sw.OrderSellByIndex(0)
		if best == nil || best.WantBuy == nil || best.WantBuy.Sign() != 1 {
			continue
		}
		// curve part: what moves the pool price onto the order's price (nothing when it already sits there)
		reach := big.NewInt(0)
		if sw.PriceRatCmp(best.PriceRat()) == 1 {
			d0, d1 := sw.CalculateAddAmountsForPrice(best.Price())
			if d0 == nil || d1 == nil {
				continue
			}
			reach = d0
		}
		part := new(big.Int).Div(new(big.Int).Mul(best.WantBuy, big.NewInt(int64(30+g.rint(51)))), big.NewInt(100))
		net := new(big.Int).Add(reach, new(big.Int).Div(new(big.Int).Mul(part, big.NewInt(1001)), big.NewInt(1000)))
		amount := new(big.Int).Add(new(big.Int).Div(new(big.Int).Mul(net, big.NewInt(1001)), big.NewInt(1000)), big.NewInt(2))
		// the node's own quote must agree: exactly one order touched, and only partly
		out, touched := sw.CalculateBuyForSellWithOrders(amount)
		if out == nil || out.Sign() != 1 || len(touched) != 1 || touched[0].WantBuy.Cmp(best.WantBuy) >= 0 {
			continue
		}
		var taker types.Address
		found := false
		st := g.rint(len(g.W.Addrs))
		for j := range g.W.Addrs {
			a := g.W.Addrs[(st+j)%len(g.W.Addrs)]
			need := new(big.Int).Add(amount, pip(1))
			if a != best.Owner && cs.Accounts().GetBalance(a, sd.sell).Cmp(need) > 0 && cs.Accounts().GetBalance(a, 0).Cmp(pip(1)) > 0 {
				taker, found = a, true
				break
			}
		}
		if !found {
			continue
		}
		t := g.Build(tx.TypeSellSwapPool, tx.SellSwapPoolDataV260{Coins: []types.CoinID{sd.sell, sd.buy}, ValueToSell: amount, MinimumValueToBuy: g.nearQuote(out)}, taker, 0, plainTx)
		t.Note = fmt.Sprintf("dance:partial-fill:%d", best.ID())
		return []*GenTx{t}
	}
	return nil
}

// liquidityDance: a liquidity provider of a pool (X, BIP) whose fee is exchanged through that very pool withdraws part of
// the share (or adds to it) with a zero-slippage wallet: the limits are exactly what the pool quotes now, and the fee is paid
// in X. The fee exchange moves the pool before the share is burned / minted, so "now" and "then" differ by a hair.
func (g *Gen) liquidityDance() []*GenTx {
	cs := g.cs()
	xs := g.commissionPools()
	if len(xs) == 0 {
		return nil
	}
	x := xs[g.rint(len(xs))]
	sw := cs.Swap().GetSwapper(x, 0)
	lp := cs.Coins().GetCoinBySymbol(tx.LiquidityCoinSymbol(sw.GetID()), 0)
	if lp == nil {
		return nil
	}
	c0, c1 := x, types.CoinID(0)
	if g.rint(2) == 0 {
		c0, c1 = c1, c0
		sw = cs.Swap().GetSwapper(c0, c1)
	}
	// providers first: somebody who holds a share of the pool and some of the coin the fee is paid in
	start := g.rint(len(g.W.Addrs))
	if g.rint(3) != 0 {
		for i := range g.W.Addrs {
			a := g.W.Addrs[(start+i)%len(g.W.Addrs)]
			share := cs.Accounts().GetBalance(a, lp.ID())
			if share.Sign() != 1 || cs.Accounts().GetBalance(a, x).Cmp(pip(10)) <= 0 {
				continue
			}
			lq := new(big.Int).Div(share, big.NewInt(int64(2+g.rint(30))))
			if lq.Sign() != 1 {
				continue
			}
			data := tx.RemoveLiquidityV240{Coin0: c0, Coin1: c1, Liquidity: lq}
			pool := sw
			if f := g.feeOf(data, x); f.OK && g.rint(3) == 0 {
				pool = g.stepSwapper(c0, c1, &f) // a wallet that accounts for its own fee
			}
			a0, a1 := pool.Amounts(lq, lp.Volume())
			if a0 == nil || a1 == nil {
				return nil
			}
			data.MinimumVolume0, data.MinimumVolume1 = a0, a1
			t := g.Build(tx.TypeRemoveLiquidity, data, a, x, plainTx)
			t.Note = "dance:liquidity-remove-exact"
			return []*GenTx{t}
		}
	}
	for i := range g.W.Addrs {
		a := g.W.Addrs[(start+i)%len(g.W.Addrs)]
		if cs.Accounts().GetBalance(a, x).Cmp(pip(10)) <= 0 || cs.Accounts().GetBalance(a, 0).Cmp(pip(100)) <= 0 {
			continue
		}
		v0 := new(big.Int).Div(cs.Accounts().GetBalance(a, c0), big.NewInt(int64(20+g.rint(100))))
		if v0.Sign() != 1 {
			continue
		}
		data := tx.AddLiquidityDataV260{Coin0: c0, Coin1: c1, Volume0: v0}
		pool := sw
		if f := g.feeOf(data, x); f.OK && g.rint(3) == 0 {
			pool = g.stepSwapper(c0, c1, &f)
		}
		_, a1 := pool.CalculateAddLiquidity(v0, lp.Volume())
		if a1 == nil || a1.Sign() != 1 {
			return nil
		}
		data.MaximumVolume1 = a1
		t := g.Build(tx.TypeAddLiquidity, data, a, x, plainTx)
		t.Note = "dance:liquidity-add-exact"
		return []*GenTx{t}
	}
	return nil
}
